//go:build verif

//verif:target pkg/vunix/vunix.go

// Package vunix stands in for golang.org/x/sys/unix in the gnet source files
// whose import is swapped by the verification overlay.  Every system call of
// the I/O path goes through a hook that can log it and, optionally, replace
// its result (fault injection / scripted short transfers).  All other
// identifiers are plain aliases (see vunix_alias.go, generated per build).
package vunix

import (
	"sync/atomic"

	"golang.org/x/sys/unix"
)

// Call describes one intercepted system call.
type Call struct {
	Name   string // read write writev readv close accept4 recvfrom sendto send epoll_wait epoll_ctl epoll_create1 eventfd fcntl socket
	Fd     int
	Buf    []byte   // read/write/recvfrom/sendto/send buffer
	Iov    [][]byte // writev/readv
	Arg    int      // epoll_wait: msec; epoll_ctl: op; fcntl: cmd; accept4/socket: flags
	Arg2   int      // epoll_ctl: target fd; fcntl: arg
	Events uint32   // epoll_ctl
	Data   uint64   // epoll_ctl: the 8 data bytes registered with the descriptor (poll_opt: an attachment pointer)
	EvList []unix.EpollEvent
	Sa     unix.Sockaddr // sendto target / accept4, recvfrom result
	Ret    int
	Err    error
	Skip   bool  // set by Before: do not perform the real call, use Ret/Err/Sa as given
	Post   error // set by Before: perform the real call, then report this error instead of its result
}

// Hooks is installed by the harness.
type Hooks interface {
	Before(c *Call)
	After(c *Call)
}

var hooks atomic.Value // of hookBox

type hookBox struct{ h Hooks }

func SetHooks(h Hooks) { hooks.Store(hookBox{h}) }

func get() Hooks {
	if v := hooks.Load(); v != nil {
		return v.(hookBox).h
	}
	return nil
}

func do(c *Call, real func()) {
	h := get()
	if h == nil {
		real()
		return
	}
	h.Before(c)
	if !c.Skip {
		real()
		if c.Post != nil {
			c.Ret, c.Err = -1, c.Post
		}
	}
	h.After(c)
}

func Read(fd int, p []byte) (n int, err error) {
	c := &Call{Name: "read", Fd: fd, Buf: p}
	do(c, func() { c.Ret, c.Err = unix.Read(fd, p) })
	return c.Ret, c.Err
}

func Write(fd int, p []byte) (n int, err error) {
	c := &Call{Name: "write", Fd: fd, Buf: p}
	do(c, func() { c.Ret, c.Err = unix.Write(fd, p) })
	return c.Ret, c.Err
}

func Writev(fd int, iov [][]byte) (n int, err error) {
	c := &Call{Name: "writev", Fd: fd, Iov: iov}
	do(c, func() { c.Ret, c.Err = unix.Writev(fd, iov) })
	return c.Ret, c.Err
}

func Readv(fd int, iov [][]byte) (n int, err error) {
	c := &Call{Name: "readv", Fd: fd, Iov: iov}
	do(c, func() { c.Ret, c.Err = unix.Readv(fd, iov) })
	return c.Ret, c.Err
}

func Close(fd int) error {
	c := &Call{Name: "close", Fd: fd}
	do(c, func() { c.Err = unix.Close(fd) })
	return c.Err
}

func Accept4(fd int, flags int) (nfd int, sa unix.Sockaddr, err error) {
	c := &Call{Name: "accept4", Fd: fd, Arg: flags}
	do(c, func() { c.Ret, c.Sa, c.Err = unix.Accept4(fd, flags) })
	return c.Ret, c.Sa, c.Err
}

func Accept(fd int) (nfd int, sa unix.Sockaddr, err error) {
	c := &Call{Name: "accept", Fd: fd}
	do(c, func() { c.Ret, c.Sa, c.Err = unix.Accept(fd) })
	return c.Ret, c.Sa, c.Err
}

func Recvfrom(fd int, p []byte, flags int) (n int, from unix.Sockaddr, err error) {
	c := &Call{Name: "recvfrom", Fd: fd, Buf: p, Arg: flags}
	do(c, func() { c.Ret, c.Sa, c.Err = unix.Recvfrom(fd, p, flags) })
	return c.Ret, c.Sa, c.Err
}

func Sendto(fd int, p []byte, flags int, to unix.Sockaddr) error {
	c := &Call{Name: "sendto", Fd: fd, Buf: p, Arg: flags, Sa: to}
	do(c, func() { c.Err = unix.Sendto(fd, p, flags, to) })
	return c.Err
}

func Send(fd int, p []byte, flags int) error {
	c := &Call{Name: "send", Fd: fd, Buf: p, Arg: flags}
	do(c, func() { c.Err = unix.Send(fd, p, flags) })
	return c.Err
}

func EpollWait(epfd int, events []unix.EpollEvent, msec int) (n int, err error) {
	c := &Call{Name: "epoll_wait", Fd: epfd, Arg: msec, EvList: events}
	do(c, func() { c.Ret, c.Err = unix.EpollWait(epfd, events, msec) })
	return c.Ret, c.Err
}

func EpollCtl(epfd int, op int, fd int, event *unix.EpollEvent) error {
	c := &Call{Name: "epoll_ctl", Fd: epfd, Arg: op, Arg2: fd}
	if event != nil {
		c.Events = event.Events
		c.Data = uint64(uint32(event.Fd)) | uint64(uint32(event.Pad))<<32
	}
	do(c, func() { c.Err = unix.EpollCtl(epfd, op, fd, event) })
	return c.Err
}

func EpollCreate1(flag int) (fd int, err error) {
	c := &Call{Name: "epoll_create1", Arg: flag}
	do(c, func() { c.Ret, c.Err = unix.EpollCreate1(flag) })
	return c.Ret, c.Err
}

func Eventfd(initval uint, flags int) (fd int, err error) {
	c := &Call{Name: "eventfd", Arg: flags}
	do(c, func() { c.Ret, c.Err = unix.Eventfd(initval, flags) })
	return c.Ret, c.Err
}

func FcntlInt(fd uintptr, cmd, arg int) (int, error) {
	c := &Call{Name: "fcntl", Fd: int(fd), Arg: cmd, Arg2: arg}
	do(c, func() { c.Ret, c.Err = unix.FcntlInt(fd, cmd, arg) })
	return c.Ret, c.Err
}

func Socket(domain, typ, proto int) (fd int, err error) {
	c := &Call{Name: "socket", Arg: domain, Arg2: typ}
	do(c, func() { c.Ret, c.Err = unix.Socket(domain, typ, proto) })
	return c.Ret, c.Err
}
