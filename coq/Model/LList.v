(* Model of pkg/buffer/linkedlist/linked_list_buffer.go (property C11).

   The Go type is a singly linked list of nodes {buf []byte; next} with the
   counters size (number of nodes) and bytes (sum of len(buf)).  The list of
   nodes is the Gallina list [segs] (head first); pop / pushFront / pushBack
   and every public method are transcribed branch by branch with the counter
   arithmetic exactly as written.  No proofs here.

   Memory.  PushBack / PushFront / ReadFrom store bytes in memory the buffer
   obtained from the byte-slice pool (nobody else holds a reference), whereas
   Append stores the caller's slice itself.  A node's content is therefore a
   list of *symbolic bytes*: [Lit z] is a byte in memory owned by the buffer,
   [Ref c i] is byte i of the caller's buffer number c ("cell").  Cells live in
   the world's store and can be overwritten by the caller at any time (op
   [OMut]); a symbolic byte is dereferenced at the moment it is observed. *)
From GV Require Export Lib.Trace.
Open Scope Z_scope.

(* ---- list helpers over Z (never build a large nat) ---- *)
Definition zlen {A} (l : list A) : Z := Z.of_nat (List.length l).
Definition ztake {A} (n : Z) (l : list A) : list A :=
  if n >=? zlen l then l else firstn (Z.to_nat n) l.
Definition zdrop {A} (n : Z) (l : list A) : list A :=
  if n >=? zlen l then [] else skipn (Z.to_nat n) l.

Definition MaxInt32 : Z := 2147483647.
Definition minRead : Z := 512.

(* ---- symbolic bytes, nodes, the buffer ---- *)
Inductive sbyte :=
| Lit (z : Z)          (* a byte in memory owned by the buffer *)
| Ref (c i : Z).       (* byte i of caller cell c (aliased by Append) *)

Definition seg := list sbyte.

Record buffer := mkBuf { segs : list seg; size : Z; bytes : Z }.

Definition empty_buffer : buffer := mkBuf [] 0 0.

(* error values (never strings) *)
Inductive err := ENil | EEOF | EShortBuf | EShortWrite | EOther.

(* ---- pop / pushFront / pushBack ---- *)
Definition pop (b : buffer) : option (seg * buffer) :=
  match segs b with
  | [] => None
  | s :: r => Some (s, mkBuf r (size b - 1) (bytes b - zlen s))
  end.

Definition pushFront (s : seg) (b : buffer) : buffer :=
  mkBuf (s :: segs b) (size b + 1) (bytes b + zlen s).

Definition pushBack (s : seg) (b : buffer) : buffer :=
  mkBuf (segs b ++ [s]) (size b + 1) (bytes b + zlen s).

(* ---- Len / Buffered / IsEmpty / Reset ---- *)
Definition Len (b : buffer) : Z := size b.
Definition Buffered (b : buffer) : Z := bytes b.
Definition IsEmpty (b : buffer) : bool :=          (* llb.head == nil *)
  match segs b with [] => true | _ => false end.
Definition Reset (b : buffer) : buffer := mkBuf [] 0 0.

(* ---- Read ----
   The loop pops one node per iteration, so it is structurally recursive on
   the node list at entry ([fuel] is always [segs b]).  In the branch
   m < b.len() the copy filled p, hence n == len(p) holds and the Go code
   returns right after pushFront. *)
Fixpoint read_loop (fuel : list seg) (b : buffer) (want : Z) (acc : list sbyte)
  : list sbyte * buffer :=
  match fuel with
  | [] => (acc, b)
  | _ :: fuel' =>
      match pop b with
      | None => (acc, b)
      | Some (s, b1) =>
          let m := Z.min want (zlen s) in                 (* m := copy(p[n:], b.buf) *)
          let acc' := (acc ++ ztake m s)%list in          (* n += m *)
          if m <? zlen s then
            (acc', pushFront (zdrop m s) b1)              (* b.buf = b.buf[m:]; pushFront(b); n == len(p) *)
          else                                            (* bsPool.Put(b.buf) *)
            if want - m =? 0 then (acc', b1)              (* n == len(p) *)
            else read_loop fuel' b1 (want - m) acc'
      end
  end.

(* Read(p) with len(p) = n; result (count, err, bytes copied into p) *)
Definition Read (b : buffer) (n : Z) : (Z * err * list sbyte) * buffer :=
  if n =? 0 then ((0, ENil, []), b) else
  let '(out, b') := read_loop (segs b) b n [] in
  let cnt := zlen out in
  ((cnt, if cnt =? 0 then EEOF else ENil, out), b').

(* ---- AllocNode / FreeNode : wrappers of the byte-slice pool ---- *)
Definition AllocNode (n : Z) : Z := if n <=? 0 then 0 else n.   (* length of the slice returned *)

(* ---- Append (no copy) / PushFront / PushBack (copy into pool memory) ---- *)
Definition Append (b : buffer) (p : seg) : buffer :=
  if zlen p =? 0 then b else pushBack p b.

Definition PushFront (b : buffer) (p : list Z) : buffer :=
  if zlen p =? 0 then b else pushFront (map Lit p) b.

Definition PushBack (b : buffer) (p : list Z) : buffer :=
  if zlen p =? 0 then b else pushBack (map Lit p) b.

(* ---- Pop ---- *)
Definition Pop (b : buffer) : option seg * buffer :=
  match pop b with
  | None => (None, b)
  | Some (s, b1) => (Some s, b1)
  end.

(* ---- Peek / PeekWithBytes ----
   iter.buf[:offset] is bounds-checked into Panic. *)
Fixpoint peek_loop (ss : list seg) (maxb cum : Z) : outcome (list seg) :=
  match ss with
  | [] => Ret []
  | s :: r =>
      let offset := if cum + zlen s >? maxb then maxb - cum else zlen s in
      if (offset <? 0) || (offset >? zlen s) then Panic else
      let piece := ztake offset s in
      let cum' := cum + offset in
      if cum' =? maxb then Ret [piece]
      else obind (peek_loop r maxb cum') (fun t => Ret (piece :: t))
  end.

Definition peek_limit (b : buffer) (maxBytes : Z) : option Z :=
  if (maxBytes <=? 0) || (maxBytes =? MaxInt32) then Some MaxInt32
  else if maxBytes >? Buffered b then None
  else Some maxBytes.

Definition Peek (b : buffer) (maxBytes : Z) : outcome (err * list seg) :=
  match peek_limit b maxBytes with
  | None => Ret (EShortBuf, [])
  | Some maxb => obind (peek_loop (segs b) maxb 0) (fun r => Ret (ENil, r))
  end.

(* first loop of PeekWithBytes: result (pieces so far, cum, returned early) *)
Fixpoint peekb_head (bs : list seg) (maxb cum : Z) (acc : list seg)
  : outcome (list seg * Z * bool) :=
  match bs with
  | [] => Ret (acc, cum, false)
  | p :: r =>
      if zlen p >? 0 then
        let offset := if cum + zlen p >? maxb then maxb - cum else zlen p in
        if (offset <? 0) || (offset >? zlen p) then Panic else
        let acc' := (acc ++ [ztake offset p])%list in
        let cum' := cum + offset in
        if cum' =? maxb then Ret (acc', cum', true)
        else peekb_head r maxb cum' acc'
      else peekb_head r maxb cum acc
  end.

(* the ErrShortBuffer guard of PeekWithBytes: the given slices count as well *)
Definition peekb_limit (b : buffer) (maxBytes : Z) (bs : list seg) : option Z :=
  if (maxBytes <=? 0) || (maxBytes =? MaxInt32) then Some MaxInt32
  else if maxBytes >? fold_left (fun total p => total + zlen p) bs (Buffered b) then None
  else Some maxBytes.

Definition PeekWithBytes (b : buffer) (maxBytes : Z) (bs : list seg) : outcome (err * list seg) :=
  match peekb_limit b maxBytes bs with
  | None => Ret (EShortBuf, [])
  | Some maxb =>
      obind (peekb_head bs maxb 0 []) (fun '(acc, cum, done) =>
      if done then Ret (ENil, acc)
      else obind (peek_loop (segs b) maxb cum) (fun r => Ret (ENil, (acc ++ r)%list)))
  end.

(* ---- Discard ---- *)
Fixpoint discard_loop (fuel : list seg) (b : buffer) (n discarded : Z) : Z * buffer :=
  if n =? 0 then (discarded, b) else                       (* for n != 0 *)
  match fuel with
  | [] => (discarded, b)
  | _ :: fuel' =>
      match pop b with
      | None => (discarded, b)
      | Some (s, b1) =>
          if n <? zlen s then
            (discarded + n, pushFront (zdrop n s) b1)      (* b.buf = b.buf[n:]; pushFront(b); break *)
          else discard_loop fuel' b1 (n - zlen s) (discarded + zlen s)
      end
  end.

Definition Discard (b : buffer) (n : Z) : Z * buffer :=
  if n <=? 0 then (0, b) else discard_loop (segs b) b n 0.

(* ---- ReadFrom over a reader script ----
   A reader is a source byte list plus a list of responses (max_bytes, err);
   a call Read(p) takes the next response (k, e) and returns
   (min(k, len p, remaining source), e) together with that many source
   bytes; k < 0 makes the reader return the negative count k (contract
   violation); an exhausted script answers (0, EOF).  Every call gets a fresh
   512-byte node.  Structural recursion on the script. *)
Fixpoint readfrom_loop (script : list (Z * err)) (src : list Z) (b : buffer) (n : Z)
  : outcome (Z * err) * buffer :=
  match script with
  | [] => (Ret (n, ENil), b)                               (* (0, EOF): Put(b); return n, nil *)
  | (k, e) :: rest =>
      if k <? 0 then (Panic, b)                            (* m < 0: panic *)
      else
        let m := Z.min k (Z.min minRead (zlen src)) in
        let n' := n + m in                                 (* n += int64(m) *)
        let b' := if m >? 0 then pushBack (map Lit (ztake m src)) b   (* pushBack(&node{buf: b[:m]}) *)
                  else b in                                (* bsPool.Put(b) *)
        match e with
        | EEOF => (Ret (n', ENil), b')                     (* return n, nil *)
        | ENil => readfrom_loop rest (zdrop m src) b' n'
        | _ => (Ret (n', e), b')                           (* return *)
        end
  end.

Definition ReadFrom (b : buffer) (src : list Z) (script : list (Z * err))
  : outcome (Z * err) * buffer :=
  readfrom_loop script src b 0.

(* ---- WriteTo over a writer script ----
   A call Write(p) takes the next response (k, e) and accepts min(k, len p)
   bytes, returning (that count, e); k < 0 makes the writer claim
   len p + |k| bytes (contract violation); an exhausted script accepts
   everything.  One node is popped per iteration. *)
Fixpoint writeto_loop (fuel : list seg) (script : list (Z * err)) (b : buffer)
         (n : Z) (written : list sbyte) : outcome (Z * err * list sbyte) * buffer :=
  match fuel with
  | [] => (Ret (n, ENil, written), b)
  | _ :: fuel' =>
      match pop b with
      | None => (Ret (n, ENil, written), b)
      | Some (s, b1) =>
          let '(k, e, rest) := match script with
                               | [] => (zlen s, ENil, [])
                               | (k, e) :: r => (k, e, r)
                               end in
          if k <? 0 then (Panic, b1)                       (* m > b.len(): panic *)
          else
            let m := Z.min k (zlen s) in
            let written' := (written ++ ztake m s)%list in
            let n' := n + m in                             (* n += int64(m) *)
            if m <? zlen s then                            (* b.buf = b.buf[m:]; pushFront(b) *)
              (Ret (n', match e with ENil => EShortWrite | _ => e end, written'),
               pushFront (zdrop m s) b1)
            else                                           (* Put(b.buf) *)
              match e with
              | ENil => writeto_loop fuel' rest b1 n' written'
              | _ => (Ret (n', e, written'), b1)           (* if err != nil { return } *)
              end
      end
  end.

Definition WriteTo (b : buffer) (script : list (Z * err))
  : outcome (Z * err * list sbyte) * buffer :=
  writeto_loop (segs b) script b 0 [].

(* ---- buffer-level operations and their (symbolic) results ---- *)
Inductive bop :=
| BPushBack (p : list Z)
| BPushFront (p : list Z)
| BAppend (s : seg)
| BRead (n : Z)
| BPeek (n : Z)
| BPeekB (n : Z) (bs : list (list Z))
| BPop
| BDiscard (n : Z)
| BReadFrom (src : list Z) (script : list (Z * err))
| BWriteTo (script : list (Z * err))
| BReset
| BAlloc (n : Z)
| BNop.

Inductive out (A : Type) :=
| OutNone
| OutRead (n : Z) (e : err) (bs : list A)
| OutPeek (r : outcome (err * list (list A)))
| OutPop (r : option (list A))
| OutDiscard (n : Z)
| OutReadFrom (r : outcome (Z * err))
| OutWriteTo (r : outcome (Z * err * list A))
| OutAlloc (n : Z).
Arguments OutNone {A}.
Arguments OutRead {A} n e bs.
Arguments OutPeek {A} r.
Arguments OutPop {A} r.
Arguments OutDiscard {A} n.
Arguments OutReadFrom {A} r.
Arguments OutWriteTo {A} r.
Arguments OutAlloc {A} n.

Definition bstep (b : buffer) (o : bop) : buffer * out sbyte :=
  match o with
  | BPushBack p => (PushBack b p, OutNone)
  | BPushFront p => (PushFront b p, OutNone)
  | BAppend s => (Append b s, OutNone)
  | BRead n => let '((cnt, e, bs), b') := Read b n in (b', OutRead cnt e bs)
  | BPeek n => (b, OutPeek (Peek b n))
  | BPeekB n bs => (b, OutPeek (PeekWithBytes b n (map (map Lit) bs)))
  | BPop => let '(r, b') := Pop b in (b', OutPop r)
  | BDiscard n => let '(d, b') := Discard b n in (b', OutDiscard d)
  | BReadFrom src script => let '(r, b') := ReadFrom b src script in (b', OutReadFrom r)
  | BWriteTo script => let '(r, b') := WriteTo b script in (b', OutWriteTo r)
  | BReset => (Reset b, OutNone)
  | BAlloc n => (b, OutAlloc (AllocNode n))
  | BNop => (b, OutNone)
  end.

(* ---- the world: buffer + caller cells ---- *)
Definition store := list (bool * list Z).     (* (handed to Append?, current bytes) *)

Record world := mkWorld { buf : buffer; cells : store }.

Definition init_world : world := mkWorld empty_buffer [].

Definition cell_data (st : store) (c : Z) : list Z :=
  if c <? 0 then [] else snd (nth (Z.to_nat c) st (false, [])).

Definition deref (st : store) (x : sbyte) : Z :=
  match x with
  | Lit z => z
  | Ref c i => if i <? 0 then 0 else nth (Z.to_nat i) (cell_data st c) 0
  end.

Fixpoint set_nth {A} (n : nat) (v : A) (l : list A) : list A :=
  match l, n with
  | [], _ => []
  | _ :: t, O => v :: t
  | h :: t, S n' => h :: set_nth n' v t
  end.

(* the caller overwrites byte i of its cell c (ignored when out of range) *)
Definition mutate (st : store) (c i v : Z) : store :=
  if (c <? 0) || (i <? 0) then st else
  match nth_error st (Z.to_nat c) with
  | None => st
  | Some (k, d) => set_nth (Z.to_nat c) (k, set_nth (Z.to_nat i) v d) st
  end.

Definition refs (c : Z) (n : nat) : seg := map (fun i => Ref c (Z.of_nat i)) (seq 0 n).

(* caller-level operations: every push passes a fresh caller buffer (a new
   cell, numbered consecutively from 0) holding the given bytes *)
Inductive op :=
| OPushBack (p : list Z)
| OPushFront (p : list Z)
| OAppend (p : list Z)
| OMut (c i v : Z)
| OBuf (o : bop).         (* any other buffer operation; BPushBack/BPushFront/BAppend are not used here *)

Definition map_out {A B} (f : A -> B) (o : out A) : out B :=
  match o with
  | OutNone => OutNone
  | OutRead n e bs => OutRead n e (map f bs)
  | OutPeek (Ret (e, bss)) => OutPeek (Ret (e, map (map f) bss))
  | OutPeek Panic => OutPeek Panic
  | OutPop (Some s) => OutPop (Some (map f s))
  | OutPop None => OutPop None
  | OutDiscard n => OutDiscard n
  | OutReadFrom r => OutReadFrom r
  | OutWriteTo (Ret (n, e, bs)) => OutWriteTo (Ret (n, e, map f bs))
  | OutWriteTo Panic => OutWriteTo Panic
  | OutAlloc n => OutAlloc n
  end.

(* which buffer operation a caller operation performs, and the store after
   the caller created its buffer *)
Definition lower (st : store) (o : op) : store * bop :=
  match o with
  | OPushBack p => ((st ++ [(false, p)])%list, BPushBack p)
  | OPushFront p => ((st ++ [(false, p)])%list, BPushFront p)
  | OAppend p => ((st ++ [(true, p)])%list, BAppend (refs (zlen st) (List.length p)))
  | OMut c i v => (mutate st c i v, BNop)
  | OBuf bo => (st, bo)
  end.

Definition step (w : world) (o : op) : world * out Z :=
  let '(st', bo) := lower (cells w) o in
  let '(b', so) := bstep (buf w) bo in
  (mkWorld b' st', map_out (deref st') so).

(* runs of operation lists (outputs in order) *)
Fixpoint run_buffer (bos : list bop) (b : buffer) : list (out sbyte) * buffer :=
  match bos with
  | [] => ([], b)
  | bo :: r =>
      let '(b1, o) := bstep b bo in
      let '(os, b2) := run_buffer r b1 in
      (o :: os, b2)
  end.

Fixpoint run_world (os : list op) (w : world) : list (out Z) * world :=
  match os with
  | [] => ([], w)
  | o :: r =>
      let '(w1, x) := step w o in
      let '(xs, w2) := run_world r w1 in
      (x :: xs, w2)
  end.

(* what a non-consuming look at the whole buffer shows:
   Buffered, Len, IsEmpty, number of nodes seen by Peek(-1), their bytes *)
Definition view (w : world) : outcome (Z * Z * bool * Z * list Z) :=
  obind (Peek (buf w) (-1)) (fun '(_, ss) =>
  Ret (Buffered (buf w), Len (buf w), IsEmpty (buf w), zlen ss,
       map (deref (cells w)) (List.concat ss))).

(* ---- trace runner: family "llist" ----
   op lines (obs lines follow each; every op is also followed by
   `obs st <Buffered> <Len> <IsEmpty> <#nodes> x<content>`):
     pb x<p> | pf x<p> | app <how> x<p> | mut <cell> <idx> <val> | reset
     read <n>            -> obs read <count> <err> x<bytes>
     peek <n>            -> obs peek <err> <#pieces> x.. x..   | obs peek panic
     peekb <n> x.. x..   -> obs peekb <err> <#pieces> x.. x..
     pop                 -> obs pop nil | obs pop x<bytes>
     discard <n>         -> obs discard <count> nil
     rf x<src> k e k e.. -> obs rf <count> <err> | obs rf panic
     wt k e k e ..       -> obs wt <count> <err> x<written> | obs wt panic
     alloc <n>           -> obs alloc <len>                                  *)
Local Open Scope string_scope.

Definition err_sym (e : err) : arg :=
  ASym (match e with ENil => "nil" | EEOF => "eof" | EShortBuf => "shortbuf"
                | EShortWrite => "shortwrite" | EOther => "err" end).

Definition parse_err (s : string) : err :=
  if sym_eqb s "nil" then ENil else if sym_eqb s "eof" then EEOF
  else if sym_eqb s "shortbuf" then EShortBuf else if sym_eqb s "shortwrite" then EShortWrite
  else EOther.

Fixpoint parse_script (l : list arg) : list (Z * err) :=
  match l with
  | AInt k :: ASym e :: r => (k, parse_err e) :: parse_script r
  | _ => []
  end.

Fixpoint parse_bytes_list (l : list arg) : list (list Z) :=
  match l with
  | ABytes b :: r => b :: parse_bytes_list r
  | _ => []
  end.

Definition parse_op (l : line) : option op :=
  let '(name, args) := l in
  if sym_eqb name "pb" then match args with [ABytes p] => Some (OPushBack p) | _ => None end
  else if sym_eqb name "pf" then match args with [ABytes p] => Some (OPushFront p) | _ => None end
  else if sym_eqb name "app" then match args with [ASym _; ABytes p] => Some (OAppend p) | _ => None end
  else if sym_eqb name "mut" then match args with [AInt c; AInt i; AInt v] => Some (OMut c i v) | _ => None end
  else if sym_eqb name "read" then match args with [AInt n] => Some (OBuf (BRead n)) | _ => None end
  else if sym_eqb name "peek" then match args with [AInt n] => Some (OBuf (BPeek n)) | _ => None end
  else if sym_eqb name "peekb" then match args with AInt n :: bs => Some (OBuf (BPeekB n (parse_bytes_list bs))) | _ => None end
  else if sym_eqb name "pop" then Some (OBuf BPop)
  else if sym_eqb name "discard" then match args with [AInt n] => Some (OBuf (BDiscard n)) | _ => None end
  else if sym_eqb name "rf" then match args with ABytes src :: sc => Some (OBuf (BReadFrom src (parse_script sc))) | _ => None end
  else if sym_eqb name "wt" then Some (OBuf (BWriteTo (parse_script args)))
  else if sym_eqb name "reset" then Some (OBuf BReset)
  else if sym_eqb name "alloc" then match args with [AInt n] => Some (OBuf (BAlloc n)) | _ => None end
  else None.

Definition render (name : string) (o : out Z) : list line :=
  match o with
  | OutNone => []
  | OutRead n e bs => [obs name [AInt n; err_sym e; ABytes bs]]
  | OutPeek (Ret (e, bss)) => [obs name (err_sym e :: AInt (zlen bss) :: map ABytes bss)]
  | OutPeek Panic => [panic_line name]
  | OutPop None => [obs name [ASym "nil"]]
  | OutPop (Some s) => [obs name [ABytes s]]
  | OutDiscard n => [obs name [AInt n; ASym "nil"]]
  | OutReadFrom (Ret (n, e)) => [obs name [AInt n; err_sym e]]
  | OutReadFrom Panic => [panic_line name]
  | OutWriteTo (Ret (n, e, bs)) => [obs name [AInt n; err_sym e; ABytes bs]]
  | OutWriteTo Panic => [panic_line name]
  | OutAlloc n => [obs name [AInt n]]
  end.

Definition view_line (w : world) : line :=
  match view w with
  | Ret (bf, ln, ie, k, content) => obs "st" [AInt bf; AInt ln; bool_arg ie; AInt k; ABytes content]
  | Panic => panic_line "st"
  end.

Definition llist_line (acc : world * list line) (l : line) : world * list line :=
  let '(w, ls) := acc in
  match parse_op l with
  | Some o => let '(w', r) := step w o in (w', (ls ++ render (fst l) r ++ [view_line w'])%list)
  | None => (w, (ls ++ [obs "unknown" []])%list)
  end.

Definition run_llist : runner := fun ls => snd (fold_left llist_line ls (init_world, [])).
