(* C09 proofs, part 1: invariant, abstraction function, accounting, and the two
   canonical state changes every operation is an instance of:
     adv  rb m  -- consume m bytes at the read cursor
     put1 rb d  -- store the bytes d contiguously at the write cursor *)
From Coq Require Import Lia ZArith ZifyBool List Bool.
From GV Require Import Lib.Trace Model.Arith Model.Ring Spec.Fifo Spec.RingSpec Proofs.FifoLemmas.
Import ListNotations.
Open Scope Z_scope.

(* the invariant [ring_inv] and the abstraction function [content] are part of
   the statements and live in Spec/RingSpec.v *)

Ltac bdestr :=
  match goal with
  | |- context [?a =? ?b] => destruct (Z.eqb_spec a b)
  | |- context [?a <? ?b] => destruct (Z.ltb_spec a b)
  | |- context [?a <=? ?b] => destruct (Z.leb_spec a b)
  | |- context [?a >? ?b] => rewrite (Z.gtb_ltb a b)
  | |- context [?a >=? ?b] => rewrite (Z.geb_leb a b)
  end.

Ltac inv_destr H :=
  let Hlen := fresh "Hlen" in let Hr0 := fresh "Hr0" in let Hw0 := fresh "Hw0" in
  let He := fresh "Hemp" in let Hne := fresh "Hnemp" in
  destruct H as (Hlen & Hr0 & Hw0 & He & Hne).

Lemma size_nonneg rb : ring_inv rb -> 0 <= size rb.
Proof. intros (Hlen & _). rewrite <- Hlen. apply zlen_nonneg. Qed.

Lemma mod_wrap a b : 0 < b -> b <= a < 2 * b -> a mod b = a - b.
Proof. intros Hb Ha. symmetry. apply (Z.mod_unique a b 1); lia. Qed.

(* ---- accounting ---- *)
Lemma buffered_content rb : ring_inv rb -> Buffered rb = zlen (content rb).
Proof.
  intros Hi. pose proof (size_nonneg rb Hi). inv_destr Hi. unfold Buffered, content.
  destruct (is_empty rb) eqn:E.
  - destruct (Hemp eq_refl) as [-> ->]. reflexivity.
  - destruct (Hnemp eq_refl). repeat bdestr; zl.
Qed.

Lemma accounting rb : ring_inv rb ->
  Buffered rb + Available rb = Cap rb /\ 0 <= Buffered rb /\ 0 <= Available rb /\
  Len rb = Cap rb /\
  (IsEmpty rb = true <-> Buffered rb = 0) /\
  (IsFull rb = true <-> Buffered rb = Cap rb /\ 0 < Cap rb).
Proof.
  intros Hi. pose proof (size_nonneg rb Hi). inv_destr Hi.
  unfold Buffered, Available, Cap, Len, IsEmpty, IsFull.
  destruct (is_empty rb) eqn:E.
  - destruct (Hemp eq_refl) as [-> ->]. cbn. splits; try lia; split; intros; try lia; try discriminate; reflexivity.
  - destruct (Hnemp eq_refl). cbn [negb]. rewrite andb_true_r.
    repeat bdestr; splits; try lia; split; intros; try lia; try discriminate; reflexivity.
Qed.

Lemma content_nil_iff rb : ring_inv rb -> (content rb = [] <-> is_empty rb = true).
Proof.
  intros Hi. pose proof (buffered_content rb Hi) as Hb.
  pose proof (accounting rb Hi) as (_ & _ & _ & _ & Hie & _). unfold IsEmpty in Hie.
  rewrite Hie, Hb. split; intros Hc.
  - rewrite Hc. reflexivity.
  - apply zlen_zero_nil. exact Hc.
Qed.

(* ---- Go slice helpers under their bounds ---- *)
Lemma slice_ok l lo hi : 0 <= lo <= hi -> hi <= zlen l ->
  slice l lo hi = Ret (ztake (hi - lo) (zdrop lo l)).
Proof.
  intros H1 H2. unfold slice.
  destruct (Z.leb_spec 0 lo); [|lia]. destruct (Z.leb_spec lo hi); [|lia].
  destruct (Z.leb_spec hi (zlen l)); [|lia]. reflexivity.
Qed.

Lemma slice_from_ok l lo : 0 <= lo <= zlen l -> slice l lo (zlen l) = Ret (zdrop lo l).
Proof.
  intros H. rewrite slice_ok by lia. f_equal. apply ztake_all. zl.
Qed.

Lemma slice_to_ok l hi : 0 <= hi <= zlen l -> slice l 0 hi = Ret (ztake hi l).
Proof.
  intros H. rewrite slice_ok by lia. rewrite zdrop_nonpos by lia. f_equal. f_equal. lia.
Qed.

Lemma copy_at_ok l lo hi d : 0 <= lo <= hi -> hi <= zlen l -> zlen d <= hi - lo ->
  copy_at l lo hi d = Ret (ztake lo l ++ d ++ zdrop (lo + zlen d) l, zlen d).
Proof.
  intros H1 H2 H3. unfold copy_at.
  destruct (Z.leb_spec 0 lo); [|lia]. destruct (Z.leb_spec lo hi); [|lia].
  destruct (Z.leb_spec hi (zlen l)); [|lia]. cbn [andb].
  rewrite (ztake_all (hi - lo) d) by lia. reflexivity.
Qed.

Lemma gorem_ok a b : 0 <= a -> 0 < b -> gorem a b = Ret (a mod b).
Proof.
  intros Ha Hb. unfold gorem. destruct (Z.eqb_spec b 0); [lia|].
  rewrite Z.rem_mod_nonneg by lia. reflexivity.
Qed.

(* ---- adv: consume m bytes ---- *)
Definition adv (rb : ring) (m : Z) : ring :=
  if m =? Buffered rb then Reset rb else set_r rb ((r rb + m) mod size rb).

Lemma adv_spec rb m : ring_inv rb -> is_empty rb = false -> 0 <= m <= Buffered rb ->
  ring_inv (adv rb m) /\ content (adv rb m) = zdrop m (content rb) /\
  buf (adv rb m) = buf rb /\ size (adv rb m) = size rb.
Proof.
  intros Hi E Hm. pose proof (buffered_content rb Hi) as Hb.
  pose proof (size_nonneg rb Hi) as Hs. unfold adv.
  destruct (Z.eqb_spec m (Buffered rb)) as [Heq|Hneq].
  - (* everything consumed: Reset *)
    inv_destr Hi. splits; try reflexivity.
    + unfold ring_inv, Reset; cbn [buf size r w is_empty]. splits; try lia; try discriminate.
    + unfold content at 1, Reset; cbn [is_empty]. symmetry. apply zdrop_all. lia.
  - inv_destr Hi. destruct (Hnemp E) as [Hrs Hws].
    unfold Buffered in Hm, Hneq, Hb. rewrite E in Hm, Hneq, Hb. unfold content in *. rewrite E in *.
    unfold set_r; cbn [buf size r w is_empty]. rewrite E.
    destruct (Z.ltb_spec (r rb) (w rb)) as [Hlt|Hge].
    + (* contiguous *)
      assert (Hm' : m < w rb - r rb) by (revert Hm Hneq; repeat bdestr; lia).
      rewrite Z.mod_small by lia.
      splits; try reflexivity.
      * unfold ring_inv; cbn [buf size r w is_empty]. splits; try lia; rewrite ?E; try discriminate.
      * destruct (Z.ltb_spec (r rb + m) (w rb)); [|lia].
        rewrite zdrop_ztake by lia. rewrite zdrop_zdrop by lia. f_equal. lia.
    + (* wrapped or full *)
      assert (Hm' : m < size rb - r rb + w rb) by (revert Hm Hneq; repeat bdestr; lia).
      destruct (Z_lt_ge_dec (r rb + m) (size rb)) as [Hin|Hout].
      * rewrite Z.mod_small by lia.
        splits; try reflexivity.
        -- unfold ring_inv; cbn [buf size r w is_empty]. splits; try lia; rewrite ?E; try discriminate.
        -- destruct (Z.ltb_spec (r rb + m) (w rb)); [lia|].
           rewrite zdrop_app_le by zl. rewrite zdrop_zdrop by lia. reflexivity.
      * rewrite mod_wrap by lia.
        splits; try reflexivity.
        -- unfold ring_inv; cbn [buf size r w is_empty]. splits; try lia; rewrite ?E; try discriminate.
        -- destruct (Z.ltb_spec (r rb + m - size rb) (w rb)); [|lia].
           rewrite zdrop_app_ge by zl. rewrite zdrop_ztake by zl.
           rewrite zlen_zdrop. f_equal; [lia|]. f_equal. lia.
Qed.

(* the first m bytes of the content, as every read-type operation slices them *)
Lemma front_contig rb m : ring_inv rb -> is_empty rb = false -> r rb < w rb -> 0 <= m <= w rb - r rb ->
  ztake m (zdrop (r rb) (buf rb)) = ztake m (content rb).
Proof.
  intros Hi E Hlt Hm. unfold content. rewrite E.
  destruct (Z.ltb_spec (r rb) (w rb)); [|lia].
  rewrite ztake_ztake. f_equal. lia.
Qed.

Lemma front_wrap1 rb m : ring_inv rb -> is_empty rb = false -> w rb <= r rb -> 0 <= m -> r rb + m <= size rb ->
  ztake m (zdrop (r rb) (buf rb)) = ztake m (content rb).
Proof.
  intros Hi E Hge Hm Hfit. inv_destr Hi. unfold content. rewrite E.
  destruct (Z.ltb_spec (r rb) (w rb)); [lia|].
  rewrite ztake_app_le by zl. reflexivity.
Qed.

Lemma front_wrap2 rb m : ring_inv rb -> is_empty rb = false -> w rb <= r rb ->
  size rb < r rb + m -> m <= size rb - r rb + w rb ->
  zdrop (r rb) (buf rb) ++ ztake (m - (size rb - r rb)) (buf rb) = ztake m (content rb).
Proof.
  intros Hi E Hge Hm Hfit. inv_destr Hi. destruct (Hnemp E). unfold content. rewrite E.
  destruct (Z.ltb_spec (r rb) (w rb)); [lia|].
  rewrite ztake_app_ge by zl. f_equal. rewrite ztake_ztake, zlen_zdrop. f_equal. lia.
Qed.

(* ---- put1: store d contiguously at w ---- *)
Definition put1 (rb : ring) (d : list Z) : ring :=
  mkRing (ztake (w rb) (buf rb) ++ d ++ zdrop (w rb + zlen d) (buf rb)) (size rb) (r rb)
         ((w rb + zlen d) mod size rb) (if 0 <? zlen d then false else is_empty rb).

Definition fits (rb : ring) (m : Z) : Prop :=
  (r rb <= w rb /\ (r rb = w rb -> is_empty rb = true) /\ w rb + m <= size rb) \/
  (w rb < r rb /\ w rb + m <= r rb).

Lemma put1_nil rb : ring_inv rb -> 0 < size rb -> put1 rb [] = rb.
Proof.
  intros Hi Hs. inv_destr Hi. unfold put1. rewrite zlen_nil. cbn [app].
  rewrite Z.add_0_r. rewrite ztake_zdrop_id. cbn.
  assert (Hw : w rb < size rb).
  { destruct (is_empty rb) eqn:E; [destruct (Hemp eq_refl); lia | destruct (Hnemp eq_refl); lia]. }
  rewrite Z.mod_small by lia. destruct rb; reflexivity.
Qed.

Lemma put1_spec rb d : ring_inv rb -> 0 < size rb -> 0 < zlen d -> fits rb (zlen d) ->
  ring_inv (put1 rb d) /\ content (put1 rb d) = content rb ++ d.
Proof.
  intros Hi Hs Hd Hf. inv_destr Hi. remember (zlen d) as m eqn:Heqm.
  assert (Hrs : r rb < size rb).
  { destruct (is_empty rb) eqn:E; [destruct (Hemp eq_refl); lia | destruct (Hnemp eq_refl); lia]. }
  assert (Hws : w rb < size rb).
  { destruct (is_empty rb) eqn:E; [destruct (Hemp eq_refl); lia | destruct (Hnemp eq_refl); lia]. }
  assert (Hlen' : zlen (ztake (w rb) (buf rb) ++ d ++ zdrop (w rb + m) (buf rb)) = size rb).
  { destruct Hf as [(H1 & H2 & H3) | (H1 & H2)]; zl. }
  unfold put1. rewrite <- Heqm. destruct (Z.ltb_spec 0 m); [|lia].
  destruct Hf as [(Hrw & Hfull & Hfit) | (Hwr & Hfit)].
  - (* free space is buf[w:size) ++ buf[0:r) *)
    assert (Hold : content rb = zdrop (r rb) (ztake (w rb) (buf rb))).
    { unfold content. destruct (is_empty rb) eqn:E.
      - destruct (Hemp eq_refl) as [-> ->]. rewrite ztake_nonpos by lia. reflexivity.
      - destruct (Z.ltb_spec (r rb) (w rb)) as [|Hge].
        + rewrite zdrop_ztake by lia. reflexivity.
        + assert (Hrw' : r rb = w rb) by lia. specialize (Hfull Hrw'). congruence. }
    destruct (Z_lt_ge_dec (w rb + m) (size rb)) as [Hin|Hout].
    + rewrite Z.mod_small by lia. split.
      * unfold ring_inv; cbn [buf size r w is_empty]. splits; try lia; try discriminate.
      * unfold content at 1; cbn [buf size r w is_empty].
        destruct (Z.ltb_spec (r rb) (w rb + m)); [|lia].
        rewrite Hold.
        rewrite zdrop_app_le by zl.
        rewrite ztake_app_ge by zl. f_equal.
        rewrite ztake_app_le by zl. apply ztake_all. zl.
    + assert (Heq : w rb + m = size rb) by lia. rewrite Heq, Z.mod_same by lia. split.
      * unfold ring_inv; cbn [buf size r w is_empty]. splits; try lia; try discriminate. zl.
      * unfold content at 1; cbn [buf size r w is_empty].
        destruct (Z.ltb_spec (r rb) 0); [lia|].
        rewrite Hold. rewrite (ztake_nonpos 0) by lia. rewrite app_nil_r.
        rewrite (zdrop_all (size rb)) by lia. rewrite app_nil_r.
        rewrite zdrop_app_le by zl. reflexivity.
  - (* free space is buf[w:r) *)
    assert (E : is_empty rb = false).
    { destruct (is_empty rb) eqn:E; [destruct (Hemp eq_refl); lia | reflexivity]. }
    rewrite Z.mod_small by lia. split.
    + unfold ring_inv; cbn [buf size r w is_empty]. splits; try lia; try discriminate.
    + unfold content; cbn [buf size r w is_empty]. rewrite E.
      destruct (Z.ltb_spec (r rb) (w rb + m)); [lia|].
      destruct (Z.ltb_spec (r rb) (w rb)); [lia|].
      rewrite app_assoc.
      rewrite zdrop_app_ge by zl. rewrite zdrop_zdrop by zl.
      rewrite ztake_app_le by zl. rewrite (ztake_all (w rb + m)) by zl.
      rewrite <- app_assoc. f_equal. f_equal. zl.
Qed.
