"""Per-property description consumed by bin/check."""

COMMON_TRUSTED = [
    "Coq 8.16.1 kernel (coqc; coqchk in bin/coqchk-all); vm_compute used only in Examples / finite sweeps; no native_compute",
    "Extraction: ExtrOcamlBasic only (Extract Inductive bool/option/unit/list/prod/sumbool/sumor, Extract Inlined Constant fst/snd/andb/orb/negb); no Extract Constant of our own; OCaml 4.13.1; runner/run.ml trace parser",
    "Go harness (harness/): generators, overlay export files, canonicalisation, lib/vcheck.py diff",
    "gnet code is modelled by hand in coq/Model; the tie to /repo is the per-run correspondence (and the translators where listed)",
]

COMMON_ASSUMPTIONS = [
    "linux/amd64, 64-bit int, Go toolchain as installed",
    "correspondence is differential testing: agreement on the explored cases is evidence, not proof, that the model is the code",
]

MATH = "{repo}/pkg/math/math.go"

PROPS = {}

PROPS["C20"] = dict(
    gens=[dict(tool="genintfun", out="GenIntFun.v",
               args=[MATH + ":IsPowerOfTwo:IsPowerOfTwo", MATH + ":CeilToPowerOfTwo:CeilToPowerOfTwo",
                     MATH + ":FloorToPowerOfTwo:FloorToPowerOfTwo", MATH + ":ClosestPowerOfTwo:ClosestPowerOfTwo",
                     "{repo}/pkg/pool/byteslice/byteslice.go:index:bs_index"])],
    drivers=[dict(cmd="drv-arith", family="arith")],
    rule="inputs: every 2^k with neighbours (k=0..63), 3*2^k, negatives, an exhaustive small range, seeded random "
         "64-bit values of every magnitude, random GFD field tuples incl. field-width overflow; a case is a batch of "
         "inputs, non-trivial when it exercises one of the generator classes; distinct by hash of its op lines",
    trusted=["translator harness/cmd/genintfun (go/ast -> Gallina for straight-line integer functions)"],
    assumptions=["math/bits.Len* modelled as Z.log2+1"],
)
