(* C07 -- descriptor ownership.  Statements only; proofs in Proofs/LoopFd.v. *)
From GV Require Import Lib.Trace Model.Loop Spec.LoopSpec Proofs.LoopFd.
Open Scope Z_scope.

(* full statement: every system call of the loop names a descriptor it owns *)
Definition C07_fd_safety_full : Prop :=
  forall i t, run_history i = Some t -> fd_ok (statics i) t = true.

(* proved: the same, except for epoll_ctl(DEL) of the reactor's stale-event branch *)
Theorem C07_fd_safety_partial : forall i t,
  run_history i = Some t -> fd_ok_but_stale_del (statics i) t = true.
Proof. exact fd_safety_partial. Qed.
Print Assumptions C07_fd_safety_partial.

(* the full statement is false of the faithful model: the stale-event branch *)
Theorem C07_fd_safety_refuted : ~ C07_fd_safety_full.
Proof. exact fd_safety_refuted. Qed.
Print Assumptions C07_fd_safety_refuted.

(* "closed exactly once, never used after close" is part of the ledger: close(2) removes
   the descriptor from the owned set, so a second close or any later call on that number
   (before the kernel hands it out again) would be rejected by fd_ok_but_stale_del. *)

(* Non-vacuity: on the run that refutes the unrestricted ledger the ledger with the exemption holds and has
   seen system calls; and it is not trivially true (a write on a closed descriptor is rejected). *)
Example C07_nonvacuous :
  match run_history LoopFd.stale_input with
  | Some t => (fd_ok_but_stale_del (statics LoopFd.stale_input) t,
               existsb (fun e => match e with EOut ("sys", _) => true | _ => false end) t)
  | None => (false, false)
  end = (true, true) /\
  fd_ok_but_stale_del [3]
    [EIn ("accepted", [AInt 5]);
     EOut (obs "sys" [ASym "close"; AInt 5]); EIn ("r", [ASym "close"; AInt 0]);
     EOut (obs "sys" [ASym "wr"; AInt 5])] = false.
Proof. split; [exact LoopFd.ex_stale_partial|exact LoopFd.ex_fd_rejects]. Qed.
Print Assumptions C07_nonvacuous.
