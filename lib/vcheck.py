"""Generic machinery behind bin/check: build, prove, correspond, oracle, decide.

Every property is described by an entry in lib/props.py.  Nothing here is
property specific.
"""
import fcntl
import glob
import hashlib
import json
import os
import re
import shutil
import subprocess
import sys
import tempfile
import time

ROOT = os.path.dirname(os.path.dirname(os.path.abspath(__file__)))
REPO = os.environ.get("VERIF_REPO", "/repo")
# a snapshot of /verif (bin/mutcheck) shares the compiled development and build products of the live tree
COQ = os.environ.get("VERIF_COQ", os.path.join(ROOT, "coq"))
BUILD = os.environ.get("VERIF_BUILD", os.path.join(ROOT, "build"))
HARNESS = os.environ.get("VERIF_HARNESS", os.path.join(ROOT, "harness"))
# where evidence/ and replays/ are written (mutation experiments point this elsewhere)
OUTDIR = os.environ.get("VERIF_OUT", ROOT)

GOENV = dict(os.environ, GOFLAGS="-mod=mod", GOPROXY="off", GOSUMDB="off",
             GOTOOLCHAIN="local", CGO_ENABLED="0")


def log(*a):
    print("[check]", *a, flush=True)


def _big_stack():
    import resource
    try:
        resource.setrlimit(resource.RLIMIT_STACK, (resource.RLIM_INFINITY, resource.RLIM_INFINITY))
    except Exception:
        try:
            soft, hard = resource.getrlimit(resource.RLIMIT_STACK)
            resource.setrlimit(resource.RLIMIT_STACK, (hard, hard))
        except Exception:
            pass


def run(cmd, timeout=None, cwd=None, env=None, stdin=None, stdout_path=None, big_stack=False):
    """Run a command, return (rc, output-as-text)."""
    t0 = time.time()
    pre = _big_stack if big_stack else None
    try:
        if stdout_path:
            with open(stdout_path, "wb") as fo:
                p = subprocess.run(cmd, cwd=cwd, env=env, stdin=stdin, stdout=fo,
                                   stderr=subprocess.PIPE, timeout=timeout, preexec_fn=pre)
            out = p.stderr.decode("utf-8", "replace")
        else:
            p = subprocess.run(cmd, cwd=cwd, env=env, stdin=stdin, stdout=subprocess.PIPE,
                               stderr=subprocess.STDOUT, timeout=timeout, preexec_fn=pre)
            out = p.stdout.decode("utf-8", "replace")
        rc = p.returncode
    except subprocess.TimeoutExpired as e:
        rc, out = 124, "TIMEOUT after %ss: %s" % (timeout, " ".join(map(str, cmd)))
    out = "\n".join(l for l in out.splitlines() if "conda.cli.condarc" not in l)
    return rc, out


class Lock:
    def __init__(self, path):
        self.path = path

    def __enter__(self):
        os.makedirs(os.path.dirname(self.path), exist_ok=True)
        self.f = open(self.path, "w")
        fcntl.flock(self.f, fcntl.LOCK_EX)

    def __exit__(self, *a):
        fcntl.flock(self.f, fcntl.LOCK_UN)
        self.f.close()


# --------------------------------------------------------------------------
# Coq


def coq_files():
    """The development = union of coq/project.d/*.list (one .v path per line)."""
    out = []
    for lf in sorted(glob.glob(os.path.join(COQ, "project.d", "*.list"))):
        for l in open(lf):
            l = l.strip()
            if l.endswith(".v") and l not in out and os.path.exists(os.path.join(COQ, l)):
                out.append(l)
    return out


def write_coqproject():
    text = "-Q . GV\n" + "\n".join(coq_files()) + "\n"
    p = os.path.join(COQ, "_CoqProject")
    if not os.path.exists(p) or open(p).read() != text:
        open(p, "w").write(text)


def families():
    out = []
    for jf in sorted(glob.glob(os.path.join(ROOT, "runner", "families.d", "*.json"))):
        out.append(json.load(open(jf)))
    return out


def write_extract(rb):
    fams = families()
    reqs = sorted(set(f["require"] for f in fams))
    v = ["(* generated from runner/families.d; ExtrOcamlBasic only *)",
         "From Coq Require Extraction ExtrOcamlBasic.", "From Coq Require Import ZArith.",
         "From GV Require Import Lib.Trace %s." % " ".join(reqs),
         "Extraction Language OCaml.",
         'Extraction "model.ml" Z.of_int Z.to_int %s.' % " ".join(f["run"] for f in fams)]
    open(os.path.join(rb, "Extract.v"), "w").write("\n".join(v) + "\n")
    ml = ["(* generated *)", "let table : (Stdlib.String.t * (Model.line list -> Model.line list)) list = ["]
    for f in fams:
        ml.append('  ("%s", Model.%s);' % (f["family"], f["run"]))
    ml.append("]")
    open(os.path.join(rb, "families.ml"), "w").write("\n".join(ml) + "\n")


def coq_build(jobs=16, timeout=3000):
    """Full .vo build of the committed development (no -vos). Returns (ok, log)."""
    with Lock(os.path.join(BUILD, "coq.lock")):
        write_coqproject()
        mk = os.path.join(COQ, "Makefile.coq")
        proj = os.path.join(COQ, "_CoqProject")
        if (not os.path.exists(mk)) or os.path.getmtime(mk) < os.path.getmtime(proj):
            rc, out = run(["coq_makefile", "-f", "_CoqProject", "-o", "Makefile.coq"], cwd=COQ, timeout=120)
            if rc != 0:
                return False, out
        rc, out = run(["make", "-f", "Makefile.coq", "-k", "-j%d" % jobs], cwd=COQ, timeout=timeout)
        return rc == 0, out


def coq_cone(pid):
    """source files (relative to coq/) in the dependency cone of Properties/<pid>.v, itself included"""
    dfile = os.path.join(COQ, ".Makefile.coq.d")
    deps = {}
    if os.path.exists(dfile):
        for l in open(dfile):
            if ":" not in l:
                continue
            lhs, rhs = l.split(":", 1)
            tgt = [t for t in lhs.split() if t.endswith(".vo")]
            if tgt:
                deps[tgt[0]] = [d for d in rhs.split() if d.endswith(".vo") and not d.startswith("/")]
    root = "Properties/%s.vo" % pid
    seen, todo = set([root]), list(deps.get(root, []))
    while todo:
        x = todo.pop()
        if x not in seen:
            seen.add(x)
            todo += deps.get(x, [])
    return sorted(vo[:-1] for vo in seen)


def strip_coq_comments(text):
    """remove (nested) comments and string literals"""
    out, depth, i, n, instr = [], 0, 0, len(text), False
    while i < n:
        c = text[i]
        if instr:
            if c == '"':
                instr = False
            i += 1
            continue
        if text.startswith("(*", i):
            depth += 1
            i += 2
            continue
        if depth and text.startswith("*)", i):
            depth -= 1
            i += 2
            continue
        if depth:
            i += 1
            continue
        if c == '"':
            instr = True
            i += 1
            continue
        out.append(c)
        i += 1
    return "".join(out)


FORBIDDEN = re.compile(r"\b(Admitted|admit|give_up|Axiom|Axioms|Parameter|Parameters|Conjecture|Conjectures|native_compute|bypass_check)\b"
                       r"|Admit\s+Obligations|Unset\s+Guard\s+Checking|Unset\s+Positivity\s+Checking|Unset\s+Universe\s+Checking"
                       r"|Local\s+Unset\s+Guard|type-in-type|impredicative-set")


def forbidden_scan(files):
    """constructs that declare an axiom or switch a kernel check off, outside comments and strings"""
    hits = []
    for f in files:
        path = f if os.path.isabs(f) else os.path.join(COQ, f)
        if not os.path.exists(path):
            continue
        body = strip_coq_comments(open(path).read())
        for m in FORBIDDEN.finditer(body):
            hits.append("%s:%s" % (os.path.basename(path), m.group(0).split()[0]))
    for extra in ("_CoqProject",):
        pth = os.path.join(COQ, extra)
        if os.path.exists(pth):
            for m in re.finditer(r"type-in-type|impredicative-set|-vos|-vok|native", open(pth).read()):
                hits.append("%s:%s" % (extra, m.group(0)))
    return hits


def coq_cone_stale(pid):
    """Files in the dependency cone of Properties/<pid>.v whose .vo is missing or older than
    the source (so a failure elsewhere in the shared development does not count against pid)."""
    dfile = os.path.join(COQ, ".Makefile.coq.d")
    deps = {}
    if os.path.exists(dfile):
        for l in open(dfile):
            if ":" not in l:
                continue
            lhs, rhs = l.split(":", 1)
            tgt = [t for t in lhs.split() if t.endswith(".vo")]
            if not tgt:
                continue
            deps[tgt[0]] = [d for d in rhs.split() if d.endswith(".vo") and not d.startswith("/")]
    root = "Properties/%s.vo" % pid
    seen, todo = set(), list(deps.get(root, []))
    while todo:
        x = todo.pop()
        if x in seen:
            continue
        seen.add(x)
        todo += deps.get(x, [])
    stale = []
    for vo in sorted(seen):
        v = os.path.join(COQ, vo[:-1])
        vop = os.path.join(COQ, vo)
        if not os.path.exists(vop) or (os.path.exists(v) and os.path.getmtime(vop) < os.path.getmtime(v)):
            stale.append(vo)
    return stale


def coq_clean():
    with Lock(os.path.join(BUILD, "coq.lock")):
        if os.path.exists(os.path.join(COQ, "Makefile.coq")):
            run(["make", "-f", "Makefile.coq", "clean"], cwd=COQ, timeout=300)


THEOREM_RE = re.compile(r"^\s*(Theorem|Example|Lemma|Corollary)\s+([A-Za-z0-9_']+)", re.M)


def compile_properties(pid, scratch):
    """Compile Properties/<pid>.v afresh, capturing Print Assumptions output.
    Returns dict(theorems=[names], ok=bool, log=str, assumptions={name: text})."""
    src = os.path.join(COQ, "Properties", pid + ".v")
    text = open(src).read()
    names = [m.group(2) for m in THEOREM_RE.finditer(text)]
    dst = os.path.join(scratch, "Prop_%s.v" % pid)
    shutil.copy(src, dst)
    rc, out = run(["coqc", "-Q", COQ, "GV", dst], timeout=900)
    assumptions = {}
    # Print Assumptions outputs appear in order of the Print Assumptions commands
    pa = re.findall(r"Print Assumptions\s+([A-Za-z0-9_']+)", text)
    blocks = []
    cur = None
    for l in out.splitlines():
        if l.startswith("Closed under the global context"):
            blocks.append("Closed under the global context")
            cur = None
        elif l.startswith("Axioms:"):
            cur = [l]
            blocks.append(cur)
        elif cur is not None:
            cur.append(l)
    blocks = [b if isinstance(b, str) else "\n".join(b) for b in blocks]
    for n, b in zip(pa, blocks):
        assumptions[n] = b
    discharged = names if rc == 0 else []
    if rc != 0:
        m = re.search(r"line (\d+)", out)
        if m:
            ln = int(m.group(1))
            upto = "\n".join(text.splitlines()[:ln - 1])
            discharged = [mm.group(2) for mm in THEOREM_RE.finditer(upto)][:-1]
    return dict(theorems=names, ok=(rc == 0), log=out, assumptions=assumptions,
                discharged=discharged)


def compile_gen(path, scratch):
    """Compile a generated obligations file; obligations that fail are
    replaced by `Abort` and compilation is retried so that each obligation gets
    its own verdict.  Returns (obligations, broken, log)."""
    text = open(path).read()
    names = re.findall(r"^Lemma\s+([A-Za-z0-9_']+)", text, re.M)
    names += re.findall(r"^Example\s+([A-Za-z0-9_']+)", text, re.M)
    untrans = re.findall(r"\(\* UNTRANSLATABLE ([^:]+):", text)
    broken = ["untranslatable:" + u for u in untrans]
    logs = []
    for _ in range(len(names) + 1):
        rc, out = run(["coqc", "-Q", COQ, "GV", path], timeout=600)
        if rc == 0:
            break
        logs.append(out)
        m = re.search(r"line (\d+)", out)
        if not m:
            broken.append("file:" + os.path.basename(path))
            break
        ln = int(m.group(1))
        lines = text.splitlines()
        # find the enclosing lemma
        start = None
        for i in range(min(ln, len(lines)) - 1, -1, -1):
            mm = re.match(r"^(Lemma|Example|Definition)\s+([A-Za-z0-9_']+)", lines[i])
            if mm:
                start = i
                nm = mm.group(2)
                kind = mm.group(1)
                break
        if start is None or kind == "Definition":
            broken.append("file:%s:line%d" % (os.path.basename(path), ln))
            break
        broken.append(nm)
        # replace its proof by Abort
        j = start
        while j < len(lines) and not lines[j].strip().startswith("Proof."):
            j += 1
        if j >= len(lines):
            break
        lines[j] = "Proof. Abort."
        text = "\n".join(lines) + "\n"
        open(path, "w").write(text)
    return names + ["translate:" + u for u in untrans], broken, "\n".join(logs)


# --------------------------------------------------------------------------
# model runner (extracted OCaml)


def ensure_runner():
    """Extract the models and build build/modelrun if missing or stale."""
    with Lock(os.path.join(BUILD, "runner.lock")):
        exe = os.path.join(BUILD, "modelrun")
        srcs = [os.path.join(COQ, f) for f in coq_files()] + \
               [os.path.join(ROOT, "runner", "run.ml")] + \
               glob.glob(os.path.join(ROOT, "runner", "families.d", "*.json"))
        newest = max(os.path.getmtime(s) for s in srcs if os.path.exists(s))
        if os.path.exists(exe) and os.path.getmtime(exe) >= newest:
            return True, ""
        rb = os.path.join(BUILD, "runner")
        shutil.rmtree(rb, ignore_errors=True)
        os.makedirs(rb)
        write_extract(rb)
        rc, out = run(["coqc", "-Q", COQ, "GV", "Extract.v"], cwd=rb, timeout=900)
        if rc != 0:
            return False, out
        shutil.copy(os.path.join(ROOT, "runner", "run.ml"), rb)
        rc, out2 = run(["ocamlfind", "ocamlopt", "-O3", "-w", "-a", "model.mli", "model.ml",
                        "families.ml", "run.ml", "-o", "modelrun"], cwd=rb, timeout=900)
        if rc != 0:
            return False, out + out2
        tmp_exe = exe + ".new.%d" % os.getpid()   # atomic replace: another check may be executing the old binary (ETXTBSY)
        shutil.copy(os.path.join(rb, "modelrun"), tmp_exe)
        os.replace(tmp_exe, exe)
        return True, out + out2


def run_model(family, trace_path, out_path, timeout=1800):
    exe = os.path.join(BUILD, "modelrun")
    with open(trace_path, "rb") as fi:
        rc, err = run([exe, family], stdin=fi, stdout_path=out_path, timeout=timeout, big_stack=True)
    return rc, err


# --------------------------------------------------------------------------
# Go side


VUNIX_HAVE = ("Read,Write,Writev,Readv,Close,Accept4,Accept,Recvfrom,Sendto,Send,EpollWait,EpollCtl,"
              "EpollCreate1,Eventfd,FcntlInt,Socket")
VUNIX_IMPORT = 'unix "github.com/panjf2000/gnet/v2/pkg/vunix"'


def unix_swap(scratch, files):
    """Import-swap golang.org/x/sys/unix -> pkg/vunix in the given repo-relative
    files (current working tree) and generate the alias file for every other
    unix identifier they use.  Returns (swaps, extra) for make_overlay, or raises."""
    idents = set()
    swaps = []
    for rel in files:
        src = open(os.path.join(REPO, rel)).read()
        idents |= set(re.findall(r"\bunix\.([A-Za-z_][A-Za-z0-9_]*)", src))
        swaps.append((rel, [("golang.org/x/sys/unix", VUNIX_IMPORT)]))
    tool = os.path.join(scratch, "genvunix")
    if not os.path.exists(tool):
        rc, out = go_build("./cmd/genvunix", tool, tags="verif")
        if rc != 0:
            raise RuntimeError("genvunix does not build: " + out)
    rc, out = run(["go", "list", "-f", "{{.Dir}}", "golang.org/x/sys/unix"], cwd=REPO, env=GOENV, timeout=120)
    udir = out.strip().splitlines()[-1] if rc == 0 else ""
    alias = os.path.join(scratch, "vunix_alias.go")
    rc, out = run([tool, "-unixdir", udir, "-o", alias, "-have", VUNIX_HAVE] + sorted(idents), timeout=120)
    if rc != 0:
        raise RuntimeError("genvunix failed: " + out)
    return swaps, [("pkg/vunix/vunix_alias.go", alias)]


def make_overlay(scratch, swaps=(), extra=()):
    """Overlay = every harness/export/*.go file (target named in its
    `//verif:target` line) + import-swapped copies of the listed source files.
    swaps: list of (repo-relative file, [(old import path, new import spec)])."""
    rep = {}
    for expdir in (os.path.join(HARNESS, "export"), os.path.join(HARNESS, "shim")):
        for root, _, files in os.walk(expdir):
            for f in sorted(files):
                if not f.endswith(".go"):
                    continue
                p = os.path.join(root, f)
                m = re.search(r"^//verif:target\s+(\S+)", open(p).read(), re.M)
                if m:
                    rep[os.path.join(REPO, m.group(1))] = p
    swapped = {}   # substitutions for one file are merged (e.g. unix_swap + swaps on the same file)
    for rel, subs in swaps:
        src = swapped.get(rel)
        if src is None:
            src = open(os.path.join(REPO, rel)).read()
        for old, new in subs:
            src = src.replace('"%s"' % old, new)
        swapped[rel] = src
        dst = os.path.join(scratch, "swap_" + rel.replace("/", "_"))
        open(dst, "w").write(src)
        rep[os.path.join(REPO, rel)] = dst
    for target, path in extra:
        rep[os.path.join(REPO, target)] = path
    ov = os.path.join(scratch, "overlay_%d.json" % len(os.listdir(scratch)))
    json.dump({"Replace": rep}, open(ov, "w"), indent=1)
    return ov


def go_build(pkg, out, overlay=None, tags="verif", race=False, timeout=900):
    with Lock(os.path.join(BUILD, "gosum.lock")):
        shutil.copy(os.path.join(REPO, "go.sum"), os.path.join(HARNESS, "go.sum"))
    cmd = ["go", "build", "-tags", tags]
    if overlay:
        cmd += ["-overlay", overlay]
    if race:
        cmd += ["-race"]
    cmd += ["-o", out, pkg]
    env = dict(GOENV)
    if race:
        env["CGO_ENABLED"] = "1"
    return run(cmd, cwd=HARNESS, env=env, timeout=timeout)


# --------------------------------------------------------------------------
# traces


def split_cases(path):
    """Yield (case_id, header, lines) for each case of a trace file."""
    cur = None
    with open(path, errors="replace") as f:
        for l in f:
            l = l.rstrip("\n")
            if l.startswith("case "):
                cur = [l]
            elif l.startswith("end"):
                if cur is not None:
                    cur.append(l)
                    hdr = cur[0].split()
                    yield hdr[1] if len(hdr) > 1 else "?", cur[0], cur
                cur = None
            elif cur is not None:
                cur.append(l)


def compare(impl_path, model_path, max_report=20):
    """Compare obs lines case by case. Returns (n_cases, n_obs, mismatches, fails)
    mismatches: list of dict(case, step, impl, model); fails: list of dict(case, site, sig, detail)."""
    mism, fails = [], []
    ncase = nobs = 0
    model = {cid: lines for cid, _, lines in split_cases(model_path)} if model_path else None
    impl_cases = {}
    for cid, hdr, lines in split_cases(impl_path):
        ncase += 1
        impl_cases[cid] = lines
        io = [l for l in lines if l.startswith("obs ")]
        mo = io if model is None else [l for l in model.get(cid, []) if l.startswith("obs ")]
        nobs += len(io)
        for l in lines:
            if l.startswith("fail "):
                body, _, detail = l[5:].partition(" # ")
                site, _, sig = body.partition(" ")
                fails.append(dict(case=cid, site=site, sig=sig, detail=detail))
        if io != mo:
            k = 0
            while k < len(io) and k < len(mo) and io[k] == mo[k]:
                k += 1
            if len(mism) < max_report:
                # find the op that precedes the k-th obs
                opline, seen = "", -1
                for l in lines:
                    if l.startswith("op "):
                        opline = l
                    elif l.startswith("obs "):
                        seen += 1
                        if seen == k:
                            break
                mism.append(dict(case=cid, step=k, op=opline[:300],
                                 impl=(io[k] if k < len(io) else "<missing>")[:300],
                                 model=(mo[k] if k < len(mo) else "<missing>")[:300]))
            else:
                mism.append(dict(case=cid, step=k))
    return ncase, nobs, mism, fails, impl_cases


# --------------------------------------------------------------------------
# known findings


def load_known():
    out = []
    for p in [os.path.join(ROOT, "known_findings.json")] + sorted(glob.glob(os.path.join(ROOT, "known_findings.d", "*.json"))):
        if os.path.exists(p):
            out += json.load(open(p))
    return out


def match_known(pid, fail, known):
    for k in known:
        if k.get("property") != pid or k.get("status") != "known":
            continue
        m = k.get("match", {})
        if m.get("site") == fail["site"] and re.search(m.get("signature", "$^"), fail["sig"]):
            return k
    return None


# --------------------------------------------------------------------------
# evidence


def write_evidence(pid, ev):
    os.makedirs(os.path.join(OUTDIR, "evidence"), exist_ok=True)
    p = os.path.join(OUTDIR, "evidence", pid + ".json")
    tmp = p + ".tmp"
    json.dump(ev, open(tmp, "w"), indent=1)
    os.replace(tmp, p)
    return p


def sha(s):
    return hashlib.sha1(s.encode("utf-8", "replace")).hexdigest()[:12]
