CHECK = dict(
    engine="pool", design_ref="4 / C12",
    text="proof, partial - sync.Pool semantics, GC, and call-site discipline on unexplored runs are assumed. Proved for all "
         "histories (unbounded, by invariant) on a model of byteslice.Pool / ringbuffer.Pool with an ownership ledger: Get returns "
         "exactly the requested length, capacity the least power of two >= size (exactly size above MaxInt32) inside one "
         "allocation; whatever Get takes from the pool lies inside a slice donated by an earlier Put and not handed out since (Put "
         "rounds the class down) for any slice shape and without any discipline; under the discipline (a Put donates memory the "
         "putter owns and never touches again) all outstanding and pooled regions are pairwise disjoint, every Get is exclusive, a "
         "write never lands in another holder's memory; a ring buffer from the pool is empty and unshared. The model is tied to the "
         "code by differential traces (address-identified sync.Pool choices are inputs, len/cap and ledger verdicts are predictions), "
         "the call sites are enumerated from the source each run (GenSites.v must equal the justified list), and a ledger/canary "
         "oracle probes the built-in pools after real engine runs incl. IPv6 link-local zone connections.",
    note="Assumes sync.Pool = bag with arbitrary drops and atomic Get/Put, Go slice/allocator/GC soundness, and the per-site manual "
         "justification (site_table) incl. the documented API contracts for Peek/Next slices and net.Addr values; engine-run "
         "discipline is checked only on the explored runs. Translator gensites and the Go harness are trusted.",
    technique="Coq proof (history invariants, byte-cover counting) + go/ast call-site translator obligation + differential traces + ledger/canary oracle",
)
ENGINE = dict(name="pool", path="coq/Model/Pool.v", serves_properties=["C12"],
              kind_free_text="Gallina model of pkg/pool/byteslice and pkg/pool/ringbuffer with ownership ledger + gensites translator + drv-pool")
