(* Shutdown makes progress: the engine's own steps decrease a measure, any other
   step increases it by at most one, and as long as Run has not returned after a
   request some engine step is enabled. *)
From GV Require Import Lib.Trace Lib.Interleave Model.Engine Proofs.EngineBase Proofs.EngineInv Proofs.EngineHist.
From Coq Require Import Lia List Bool Arith.
Import ListNotations.
Open Scope list_scope.

Arguments lsum : simpl never.

Ltac msimpl := cbn [e_r e_loops e_ing e_t set_r set_started set_t set_ing set_loops set_cancel set_insd set_inall
                    set_alloc trigger trigger_ing set_next set_workers set_users put_user new_worker set_hist].
Ltac mfin := msimpl; try (destruct (e_t _)); lia.

Lemma measure_eq : forall s,
  measure s = (r_measure s + lsum loop_measure (e_loops s) + loop_measure (e_ing s) + t_measure s)%nat.
Proof. reflexivity. Qed.

Lemma lsum_map_ext : forall f g l, Forall (fun x => f (g x) = f x) l -> lsum f (map g l) = lsum f l.
Proof.
  unfold lsum. intros f g l H. induction H as [|x r Hx _ IH]; cbn; [reflexivity|]. rewrite Hx, IH. reflexivity.
Qed.

Lemma lsum_upd_same : forall f g l n, (forall x, f (g x) = f x) -> lsum f (upd n g l) = lsum f l.
Proof.
  intros f g l n H. destruct (nth_error l n) as [x|] eqn:E.
  - pose proof (lsum_upd f g l n x E). rewrite H in H0. lia.
  - rewrite upd_none; auto.
Qed.

Lemma loop_measure_enq : forall l t, loop_measure (enq_loop l t) = loop_measure l.
Proof. reflexivity. Qed.

Lemma loop_measure_pclosed : forall l b, loop_measure (l_set_pclosed l b) = loop_measure l.
Proof. reflexivity. Qed.

(* measure of the state after replacing loop i *)
Lemma measure_put : forall s i l l',
  get_loop s i = Some l ->
  (lsum loop_measure (upd i (fun _ => l') (e_loops s)) + loop_measure l = lsum loop_measure (e_loops s) + loop_measure l')%nat.
Proof. intros s i l l' H. unfold get_loop in H. exact (lsum_upd loop_measure (fun _ => l') _ _ _ H). Qed.

(* ------------------------------------------------------------------ *)
(* the engine's own steps decrease the measure *)

Lemma rstep_decreases : forall s s' evs, Inv_pc s -> rstep s CNone = Some (s', evs) ->
  (measure s' < measure s)%nat.
Proof.
  intros s s' evs HI H. unfold rstep in H.
  destruct (e_r s) eqn:Er; try discriminate H; cbv beta iota in H; step_cases H.
  all: rewrite !measure_eq; unfold r_measure, t_measure; rewrite Er.
  - (* OnBoot returned Shutdown *) mfin.
  - (* start *)
    pose proof (unstarted_at _ HI) as Hu. rewrite Er in Hu. specialize (Hu eq_refl).
    destruct (ip_unstarted _ HI Hu) as [Hl [Hi [Ht _]]].
    pose proof (ip_quiet _ HI) as Hq. pose proof (ip_ing_conns _ HI) as Hic.
    assert (HL : lsum loop_measure (map (fun l => l_set_pc l LPoll) (e_loops s)) = lsum loop_measure (e_loops s)).
    { apply lsum_map_ext. rewrite Forall_forall in *. intros l Hin. specialize (Hl l Hin). specialize (Hq l Hin).
      unfold loop_measure; cbn. rewrite Hl. rewrite Hq; auto. }
    assert (HG : loop_measure (l_set_pc (e_ing s) LPoll) = loop_measure (e_ing s)).
    { unfold loop_measure; cbn. rewrite Hi, Hic. reflexivity. }
    destruct (c_ticker (e_cfg s)); destruct (c_reactor (e_cfg s)); msimpl;
      rewrite ?map_length, ?HL, ?HG, ?Ht; lia.
  - destruct (c_client (e_cfg s)); mfin.
  - mfin.
  - mfin.
  - (* notify loop k *)
    apply Nat.ltb_lt in E. msimpl.
    rewrite upd_length, lsum_upd_same by (intros; apply loop_measure_enq). destruct (e_t s); lia.
  - (* notify main reactor *)
    destruct (c_reactor (e_cfg s)); msimpl; rewrite ?loop_measure_enq; destruct (e_t s); lia.
  - mfin.
  - msimpl. rewrite ?map_length.
    rewrite lsum_map_eq by (intros; apply loop_measure_pclosed). rewrite loop_measure_pclosed. destruct (e_t s); lia.
  - mfin.
  - mfin.
Qed.

Lemma loop_common_decreases : forall t l l' evs off, loop_common t l CNone = Some (l', evs, off) ->
  (loop_measure l' < loop_measure l)%nat.
Proof.
  intros t l l' evs off H. unfold loop_common in H. step_cases H; unfold loop_measure; cbn;
    repeat match goal with E : l_pc _ = _ |- _ => rewrite E end;
    repeat match goal with E : l_conns _ = _ |- _ => rewrite E end; cbn; lia.
Qed.

Lemma measure_cancel_if : forall b s, measure (cancel_if b s) = measure s.
Proof. intros [|] s; reflexivity. Qed.

Lemma lstep_decreases : forall i s c s' evs, lstep i s c = Some (s', evs) -> is_progress s (TL i) c = true ->
  (measure s' < measure s)%nat.
Proof.
  intros i s c s' evs H Hp. unfold lstep in H. cbn in Hp.
  destruct (get_loop s i) as [l|] eqn:Hl; [|discriminate H].
  destruct c; try discriminate Hp.
  - (* internal step *)
    destruct (l_pc l) eqn:Epc; cbv beta iota in H.
    all: destruct (loop_common (TL i) l CNone) as [[[l' e'] off]|] eqn:E; [|discriminate H].
    all: injection H as <- <-.
    all: apply loop_common_decreases in E.
    all: pose proof (measure_put s i l l' Hl) as Hm.
    all: destruct off; rewrite !measure_eq; unfold r_measure, t_measure; cbn [e_r e_loops e_ing e_t set_cancel set_loops];
         rewrite upd_length; lia.
  - (* the exit task *)
    destruct (nth_error (l_q l) k) as [tk|] eqn:En; [|discriminate Hp]. destruct tk; try discriminate Hp.
    destruct (l_pc l) eqn:Epc; cbv beta iota in H; try rewrite En in H.
    all: try (unfold loop_common in H; rewrite Epc in H; discriminate H).
    injection H as <- <-.
    pose proof (measure_put s i l (l_set_pc (l_set_q l (remove_nth k (l_q l))) LClosing) Hl) as Hm.
    assert (M1 : loop_measure (l_set_pc (l_set_q l (remove_nth k (l_q l))) LClosing) = (2 + List.length (l_conns l))%nat) by reflexivity.
    assert (M2 : loop_measure l = (3 + List.length (l_conns l))%nat) by (unfold loop_measure; rewrite Epc; reflexivity).
    rewrite !measure_eq; unfold r_measure, t_measure; cbn [e_r e_loops e_ing e_t set_loops]. rewrite upd_length.
    lia.
Qed.

Lemma astep_decreases : forall s c s' evs, astep s c = Some (s', evs) -> is_progress s TA c = true ->
  (measure s' < measure s)%nat.
Proof.
  intros s c s' evs H Hp. unfold astep in H. cbn in Hp. destruct c; try discriminate Hp.
  - destruct (l_pc (e_ing s)) eqn:Epc; cbv beta iota in H.
    all: destruct (loop_common TA (e_ing s) CNone) as [[[l' e'] off]|] eqn:E; [|discriminate H].
    all: injection H as <- <-.
    all: apply loop_common_decreases in E.
    all: destruct off; rewrite !measure_eq; unfold r_measure, t_measure; cbn [e_r e_loops e_ing e_t set_cancel set_ing]; lia.
  - destruct (l_pc (e_ing s)) eqn:Epc; cbv beta iota in H.
    all: try (unfold loop_common in H; rewrite Epc in H; discriminate H).
    destruct (nth_error (l_q (e_ing s)) k) as [tk|] eqn:En; [|discriminate H]. destruct tk; try discriminate H.
    injection H as <- <-.
    rewrite !measure_eq; unfold r_measure, t_measure; cbn [e_r e_loops e_ing e_t set_ing].
    unfold loop_measure. cbn. rewrite Epc. lia.
Qed.

Lemma tstep_decreases : forall s s' evs, tstep s CNone = Some (s', evs) -> (measure s' < measure s)%nat.
Proof.
  intros s s' evs H. unfold tstep in H. step_cases H.
  rewrite !measure_eq; unfold r_measure, t_measure; cbn [e_r e_loops e_ing e_t set_t].
  match goal with E : e_t s = TRun |- _ => rewrite E end. lia.
Qed.

Theorem progress_decreases : forall s t c s' evs, Inv_pc s ->
  estep_opt s t c = Some (s', evs) -> is_progress s t c = true -> (measure (push evs s') < measure s)%nat.
Proof.
  intros s t c s' evs HI H Hp.
  change (measure (push evs s')) with (measure s').
  destruct t; cbn in H.
  - destruct c; try discriminate Hp. eapply rstep_decreases; eauto.
  - eapply lstep_decreases; eauto.
  - eapply astep_decreases; eauto.
  - destruct c; try discriminate Hp. eapply tstep_decreases; eauto.
  - discriminate Hp.
  - discriminate Hp.
Qed.

(* ------------------------------------------------------------------ *)
(* any other step adds at most one unit of work *)

Lemma zremove_length : forall x l, (List.length (zremove x l) <= List.length l)%nat.
Proof. induction l; cbn; [lia|]. destruct (x =? a)%Z; cbn; lia. Qed.

Lemma apply_cb_measure : forall t l cid h l2 evs d, apply_cb t l cid h = (l2, evs, d) -> l_pc l = LPoll ->
  (loop_measure l2 <= loop_measure l)%nat.
Proof.
  intros t l cid h l2 evs d H Hp. unfold apply_cb in H. destruct (after_cb h) as [[cl se] off].
  injection H as <- <- <-. pose proof (zremove_length cid (l_conns l)).
  unfold loop_measure. destruct cl, se; cbn; rewrite ?Hp; lia.
Qed.

Lemma measure_put_le : forall s i l l' k,
  get_loop s i = Some l -> (loop_measure l' <= loop_measure l + k)%nat ->
  (lsum loop_measure (upd i (fun _ => l') (e_loops s)) <= lsum loop_measure (e_loops s) + k)%nat.
Proof. intros s i l l' k H Hle. pose proof (measure_put s i l l' H). lia. Qed.

Lemma measure_signal : forall s o, measure (signal s o) = measure s.
Proof. intros s [|k|g]; reflexivity. Qed.

Ltac mhead := rewrite ?measure_signal, ?measure_cancel_if; rewrite !measure_eq; unfold r_measure, t_measure; msimpl; rewrite ?upd_length.

Lemma lstep_bound : forall i s c s' evs, lstep i s c = Some (s', evs) -> (measure s' <= measure s + 1)%nat.
Proof.
  intros i s c s' evs H.
  destruct (is_progress s (TL i) c) eqn:Hp; [pose proof (lstep_decreases _ _ _ _ _ H Hp); lia|].
  unfold lstep in H. destruct (get_loop s i) as [l|] eqn:Hl; [|discriminate H].
  destruct (l_pc l) eqn:Epc.
  2: destruct c as [| | | | |io|k h| | | | | | |]; try (destruct io).
  all: step_cases H.
  all: try match goal with E : loop_common _ _ _ = Some _ |- _ => unfold loop_common in E; rewrite Epc in E; step_cases E end.
  all: try (cbn in Hp; rewrite Hl in Hp; discriminate Hp).
  all: try match goal with E : apply_cb _ _ _ _ = _ |- _ => apply apply_cb_measure in E; [|exact Epc] end.
  all: try match goal with H : false = ?b |- _ => subst b end.
  all: try match goal with H : true = ?b |- _ => subst b end.
  all: mhead.
  all: match goal with |- context [upd ?j (fun _ => ?l') ?ls] =>
         assert (HM : (lsum loop_measure (upd j (fun _ => l') ls) <= lsum loop_measure ls + 1)%nat);
         [eapply measure_put_le; [exact Hl|]|] end.
  all: try lia.
  all: unfold loop_measure in *; cbn in *; rewrite ?Epc in *; cbn in *; rewrite ?app_length in *; cbn in *;
       try (pose proof (zremove_length cid (l_conns l))); try destruct (act_shut _); cbn; rewrite ?Epc; try lia.
Qed.

Lemma other_steps_same : forall s t c s' evs,
  (match t with TU _ | TW _ => True | _ => False end) ->
  estep_opt s t c = Some (s', evs) -> measure s' = measure s.
Proof.
  intros s t c s' evs Ht H. destruct t; try contradiction; cbn in H.
  - unfold ustep in H. destruct (get_user s g); [|discriminate].
    destruct u as [|ex pk|op].
    + destruct c; try discriminate H. unfold do_call in H. destruct c; step_cases H.
      all: mhead; try (destruct b); msimpl; rewrite ?upd_length, ?lsum_upd_same by (intros; apply loop_measure_enq); try reflexivity.
    + destruct c; try discriminate H; step_cases H; try (destruct pk); mhead; reflexivity.
    + step_cases H; mhead; reflexivity.
  - unfold wstep in H. step_cases H.
    all: mhead; rewrite ?upd_length, ?lsum_upd_same by (intros; apply loop_measure_enq); reflexivity.
Qed.

Theorem step_bound : forall s t c s' evs, Inv_pc s ->
  estep_opt s t c = Some (s', evs) -> (measure (push evs s') <= measure s + 1)%nat.
Proof.
  intros s t c s' evs HI H. change (measure (push evs s')) with (measure s').
  destruct (is_progress s t c) eqn:Hp.
  { pose proof (progress_decreases _ _ _ _ _ HI H Hp) as Hd. change (measure (push evs s')) with (measure s') in Hd. lia. }
  destruct t.
  - (* Run caller: OnBoot, Client.Stop *)
    cbn in H. unfold rstep in H. destruct (e_r s) eqn:Er; destruct c; try discriminate H; try discriminate Hp; cbv beta iota in H; step_cases H.
    all: mhead; rewrite Er; destruct (e_t s); lia.
  - eapply lstep_bound; exact H.
  - (* main reactor *)
    cbn in H. unfold astep in H.
    destruct (l_pc (e_ing s)) eqn:Epc.
    2: destruct c as [| | |li| | |k h| | | | | | |].
    all: try discriminate Hp.
    all: step_cases H.
    all: try match goal with E : loop_common _ _ _ = Some _ |- _ => unfold loop_common in E; rewrite Epc in E; step_cases E end.
    all: try match goal with H : false = ?b |- _ => subst b end.
    all: try (subst c; discriminate Hp).
    all: mhead; rewrite ?lsum_upd_same by (intros; apply loop_measure_enq); try lia.
    all: unfold loop_measure; cbn; rewrite Epc; lia.
  - (* ticker *)
    cbn in H. unfold tstep in H. step_cases H; try discriminate Hp.
    destruct (act_shut a); [destruct (c_reactor (e_cfg s))|]; mhead;
      rewrite ?lsum_upd_same by (intros; apply loop_measure_enq); rewrite ?loop_measure_enq; lia.
  - rewrite (other_steps_same s (TU g) c s' evs I H). lia.
  - rewrite (other_steps_same s (TW k) c s' evs I H). lia.
Qed.

(* ------------------------------------------------------------------ *)
(* no stuck state before the return *)

Definition stop_pending (s : estate) : bool :=
  match e_r s with
  | RCancelled | RNotify _ | RWait | RClosePollers | RStoreInsd | RReturn => true
  | _ => false
  end.

(* shutdown has been requested by a documented means: for a server any request the
   engine acts upon; for a client, Client.Stop has been called *)
Definition shutdown_requested (s : estate) : Prop :=
  requested s = true /\ (c_client (e_cfg s) = true -> stop_pending s = true).

Definition enabled (s : estate) (t : tid) (c : choice) : Prop := estep_opt s t c <> None.

Lemma shut_index_nth : forall q, has_shut q = true -> exists k, nth_error q k = Some TShut.
Proof.
  induction q as [|t r IH]; cbn; [discriminate|]. intros H. destruct t.
  - exists O. reflexivity.
  - cbn in H. destruct (IH H) as [k Hk]. exists (S k). exact Hk.
  - cbn in H. destruct (IH H) as [k Hk]. exists (S k). exact Hk.
Qed.

Lemma gone_loop_enabled : forall s i l, get_loop s i = Some l -> gone l -> l_pc l <> LExited ->
  exists c, is_progress s (TL i) c = true /\ enabled s (TL i) c.
Proof.
  intros s i l Hl Hg Hne. unfold gone in Hg. unfold enabled. cbn [estep_opt]. unfold lstep. rewrite Hl.
  destruct (l_pc l) eqn:Epc; try contradiction; try congruence.
  - destruct (shut_index_nth _ Hg) as [k Hk]. exists (CRun k h_none). split.
    + cbn. rewrite Hl, Hk. reflexivity.
    + rewrite Hk. discriminate.
  - exists CNone. split; [reflexivity|]. unfold loop_common. rewrite Epc. destruct (l_conns l); discriminate.
  - exists CNone. split; [reflexivity|]. unfold loop_common. rewrite Epc. discriminate.
Qed.

Lemma gone_ing_enabled : forall s, gone (e_ing s) -> l_pc (e_ing s) <> LExited ->
  exists c, is_progress s TA c = true /\ enabled s TA c.
Proof.
  intros s Hg Hne. unfold gone in Hg. unfold enabled. cbn [estep_opt]. unfold astep.
  destruct (l_pc (e_ing s)) eqn:Epc; try contradiction; try congruence.
  - destruct (shut_index_nth _ Hg) as [k Hk]. exists (CRun k h_none). split; [reflexivity|]. rewrite Hk. discriminate.
  - exists CNone. split; [reflexivity|]. unfold loop_common. rewrite Epc. destruct (l_conns (e_ing s)); discriminate.
  - exists CNone. split; [reflexivity|]. unfold loop_common. rewrite Epc. discriminate.
Qed.

Lemma unwinding_gone : forall l, loop_unwinding l = true -> gone l /\ l_pc l <> LExited.
Proof.
  intros l H. unfold loop_unwinding in H. unfold gone. destruct (l_pc l); try discriminate; split; auto; discriminate.
Qed.

Theorem no_stuck : forall s, Inv_pc s -> shutdown_requested s -> returned s = false -> e_r s <> R0 ->
  exists t c, is_progress s t c = true /\ enabled s t c.
Proof.
  intros s HI [Hreq Hcl] Hret Hr0.
  assert (RN : forall c0, rstep s CNone = c0 -> c0 <> None -> exists t c, is_progress s t c = true /\ enabled s t c).
  { intros c0 E Hn. exists TR, CNone. split; [reflexivity|]. unfold enabled; cbn. congruence. }
  unfold returned in Hret.
  destruct (e_r s) eqn:Er; try congruence.
  - (* RBooted *) eapply RN; [reflexivity|]. unfold rstep. rewrite Er. destruct (negb (c_client (e_cfg s)) && act_shut a); discriminate.
  - eapply RN; [reflexivity|]. unfold rstep. rewrite Er. discriminate.
  - (* RServing *)
    destruct (c_client (e_cfg s)) eqn:Ecl.
    { specialize (Hcl eq_refl). unfold stop_pending in Hcl. rewrite Er in Hcl. discriminate. }
    destruct (e_cancel s) eqn:Ec.
    { eapply RN; [reflexivity|]. unfold rstep. rewrite Er, Ecl, Ec. discriminate. }
    unfold requested in Hreq. rewrite Ec in Hreq. cbn in Hreq. apply orb_prop in Hreq. destruct Hreq as [Hl|Hi].
    + apply existsb_exists in Hl. destruct Hl as [l [Hin Hu]]. apply In_nth_error in Hin. destruct Hin as [i Hi].
      destruct (unwinding_gone _ Hu) as [Hg Hne].
      destruct (gone_loop_enabled s i l Hi Hg Hne) as [c [H1 H2]]. exists (TL i), c. auto.
    + destruct (unwinding_gone _ Hi) as [Hg Hne]. destruct (gone_ing_enabled s Hg Hne) as [c [H1 H2]]. exists TA, c. auto.
  - eapply RN; [reflexivity|]. unfold rstep. rewrite Er. discriminate.
  - eapply RN; [reflexivity|]. unfold rstep. rewrite Er. destruct (k <? Datatypes.length (e_loops s))%nat; discriminate.
  - (* RWait *)
    destruct (all_exited s) eqn:Ea.
    { eapply RN; [reflexivity|]. unfold rstep. rewrite Er, Ea. discriminate. }
    destruct (ip_wait _ HI Er) as [Hgl Hgi].
    assert (Hc : e_cancel s = true) by (apply (ip_cancel _ HI); rewrite Er; reflexivity).
    unfold all_exited in Ea. apply andb_false_iff in Ea. destruct Ea as [Ea|Et].
    + apply andb_false_iff in Ea. destruct Ea as [El|Ei].
      * (* some loop has not exited *)
        assert (exists i l, get_loop s i = Some l /\ l_pc l <> LExited) as [i [l [Hi Hne]]].
        { unfold get_loop. clear Hgl. induction (e_loops s) as [|x r IH]; cbn in El; [discriminate|].
          apply andb_false_iff in El. destruct El as [Ex|Er'].
          - exists O, x. split; [reflexivity|]. destruct (l_pc x); try discriminate; congruence.
          - destruct (IH Er') as [i [l [Hi Hne]]]. exists (S i), l. auto. }
        pose proof (Forall_nth_error _ _ _ _ _ Hgl Hi) as Hg.
        destruct (gone_loop_enabled s i l Hi Hg Hne) as [c [H1 H2]]. exists (TL i), c. auto.
      * (* the main reactor has not exited *)
        destruct (c_reactor (e_cfg s)) eqn:Ere.
        -- assert (Hne : l_pc (e_ing s) <> LExited) by (intro X; rewrite X in Ei; discriminate).
           destruct (gone_ing_enabled s (Hgi eq_refl) Hne) as [c [H1 H2]]. exists TA, c. auto.
        -- rewrite (ip_noreactor _ HI Ere) in Ei. discriminate.
    + (* the ticker is still running *)
      exists TT, CNone. split; [reflexivity|]. unfold enabled; cbn. unfold tstep.
      destruct (e_t s); try discriminate. rewrite Hc. discriminate.
  - eapply RN; [reflexivity|]. unfold rstep. rewrite Er. discriminate.
  - eapply RN; [reflexivity|]. unfold rstep. rewrite Er. discriminate.
  - eapply RN; [reflexivity|]. unfold rstep. rewrite Er. discriminate.
Qed.

(* ------------------------------------------------------------------ *)
(* executions: the number of engine steps after a request is bounded by the measure
   plus the number of other steps *)

Inductive pexec : estate -> nat -> nat -> estate -> Prop :=
| pe_nil : forall s, pexec s 0 0 s
| pe_step : forall s p o s1 t c s2 evs,
    pexec s p o s1 -> estep_opt s1 t c = Some (s2, evs) ->
    pexec s (p + (if is_progress s1 t c then 1 else 0)) (o + (if is_progress s1 t c then 0 else 1)) (push evs s2).

Lemma pexec_reachable : forall s p o s', ereachable s -> pexec s p o s' -> ereachable s'.
Proof. intros s p o s' Hr H. induction H; [exact Hr|]. eapply ereachable_step; [apply IHpexec; exact Hr|eassumption]. Qed.

Theorem shutdown_bounded : forall s p o s', ereachable s -> pexec s p o s' ->
  (p + measure s' <= measure s + o)%nat.
Proof.
  intros s p o s' Hr H. induction H; [lia|].
  specialize (IHpexec Hr). pose proof (inv_pc_reachable _ (pexec_reachable _ _ _ _ Hr H)) as HI.
  destruct (is_progress s1 t c) eqn:Hp.
  - pose proof (progress_decreases _ _ _ _ _ HI H0 Hp). lia.
  - pose proof (step_bound _ _ _ _ _ HI H0). lia.
Qed.
