(* C15 — load balancing follows the selected policy.
   Statements only; proofs live in Proofs/LBProofs.v.
   Vocabulary (Model/LB.v): a loop is named by the index `register` gave it;
   rr_next ctr N = (loop, new counter); rr_accepts ctr N m = the loops chosen by m
   consecutive accepts; count i l = occurrences of i in l; lc_next counts = the
   loop chosen for a vector of per-loop connection counts; hash_next (Some s) N for
   the remote address string s; lb_next st addr = (chosen loop, new state) for the
   balancer state st (policy, number of loops, counter, counts); wf st = "as many
   counts as registered loops"; `Panic` is a Go panic.  All sizes N >= 1 (in
   particular 1..256), all count vectors, all byte strings. *)
From Coq Require Import ZArith List.
From GV Require Import Lib.Trace Model.LB Proofs.LBProofs.
Import ListNotations.
Close Scope string_scope.
Open Scope list_scope.
Open Scope Z_scope.

(* ---- Round-Robin ---- *)

(* the j-th of m consecutive accepts goes to loop (c + j) mod N, from any counter value c *)
Theorem C15_rr_cyclic : forall m c size j, 1 <= size -> 0 <= c -> c + Z.of_nat m <= 2 ^ 64 ->
  (j < m)%nat -> nth j (rr_accepts c size m) (-1) = (c + Z.of_nat j) mod size.
Proof. exact rr_cyclic. Qed.
Print Assumptions C15_rr_cyclic.

(* consecutive accepts go to cyclically consecutive loops *)
Theorem C15_rr_successor : forall c size, 1 <= size -> 0 <= c -> c + 1 < 2 ^ 64 ->
  exists i1 c1 i2 c2, rr_next c size = Ret (i1, c1) /\ rr_next c1 size = Ret (i2, c2) /\ i2 = (i1 + 1) mod size.
Proof. exact rr_successor. Qed.
Print Assumptions C15_rr_successor.

(* after k*N accepts starting from ANY counter value c (c + k*N <= 2^64: no wrap of the
   uint64 counter in between) every one of the N loops has received exactly k *)
Theorem C15_rr_balanced : forall k c size i, 1 <= size -> 0 <= c -> 0 <= k -> c + k * size <= 2 ^ 64 ->
  0 <= i < size -> count i (rr_accepts c size (Z.to_nat (k * size))) = k.
Proof. exact rr_balanced. Qed.
Print Assumptions C15_rr_balanced.

(* the same through the balancer state, whatever the addresses *)
Theorem C15_rr_balanced_lb : forall k st addrs i, lb_policy st = RR -> 1 <= lb_size st -> 0 <= lb_ctr st ->
  0 <= k -> lb_ctr st + k * lb_size st <= 2 ^ 64 -> Z.of_nat (List.length addrs) = k * lb_size st ->
  0 <= i < lb_size st -> count i (fst (lb_accepts st addrs)) = k.
Proof. exact rr_balanced_lb. Qed.
Print Assumptions C15_rr_balanced_lb.

(* remark, not a finding: when the uint64 counter wraps (once every 2^64 accepts) the cycle is
   preserved iff N divides 2^64; for other N one loop is served twice in a row at that moment *)
Theorem C15_rr_wrap_pow2 : forall c size, 1 <= size -> 0 <= c < 2 ^ 64 -> (size | 2 ^ 64) ->
  exists i1 c1 i2 c2, rr_next c size = Ret (i1, c1) /\ rr_next c1 size = Ret (i2, c2) /\ i2 = (i1 + 1) mod size.
Proof. exact rr_wrap_pow2. Qed.
Print Assumptions C15_rr_wrap_pow2.
Example C15_rr_wrap_breaks_cycle : rr_accepts (2 ^ 64 - 1) 3 3 = [0; 0; 1].
Proof. exact rr_wrap_breaks_cycle. Qed.

(* ---- Least-Connections: the chosen loop has a minimal count; it is the first such loop ---- *)
Theorem C15_lc_min : forall counts, counts <> [] ->
  exists b, lc_next counts = Ret b /\ 0 <= b < zlen counts /\
    Forall (fun x => nth (Z.to_nat b) counts 0 <= x) counts /\
    Forall (fun x => nth (Z.to_nat b) counts 0 < x) (firstn (Z.to_nat b) counts).
Proof. exact lc_min. Qed.
Print Assumptions C15_lc_min.

Theorem C15_lc_next_min : forall st addr, wf st -> 1 <= lb_size st -> lb_policy st = LC ->
  exists b, fst (lb_next st addr) = Ret b /\ 0 <= b < lb_size st /\
    Forall (fun x => nth (Z.to_nat b) (lb_counts st) 0 <= x) (lb_counts st) /\
    Forall (fun x => nth (Z.to_nat b) (lb_counts st) 0 < x) (firstn (Z.to_nat b) (lb_counts st)) /\
    snd (lb_next st addr) = st.
Proof. exact lc_next_min. Qed.
Print Assumptions C15_lc_next_min.

(* ---- Source-Addr-Hash ---- *)

(* a pure function of the address string and the number of loops: neither reads nor
   changes the counter or the connection counts, so the same address always gets the same loop *)
Theorem C15_hash_pure : forall st1 st2 addr,
  lb_policy st1 = HASH -> lb_policy st2 = HASH -> lb_size st1 = lb_size st2 ->
  fst (lb_next st1 addr) = fst (lb_next st2 addr) /\ snd (lb_next st1 addr) = st1 /\ snd (lb_next st2 addr) = st2.
Proof. exact hash_pure. Qed.
Print Assumptions C15_hash_pure.

(* every byte string (the empty one included), every N >= 1: a valid index, no panic;
   assumes the 64-bit int of linux/amd64 (wrap64 in Model.LB.hash) *)
Theorem C15_hash_in_range : forall s size, is_bytes s -> 1 <= size ->
  hash_next (Some s) size = Ret (hash s mod size) /\ 0 <= hash s mod size < size.
Proof. exact hash_next_in_range. Qed.
Print Assumptions C15_hash_in_range.

Theorem C15_hash_is_crc32 : forall s, is_bytes s -> hash s = crc32 s /\ 0 <= crc32 s < 2 ^ 32.
Proof. exact hash_crc32_range. Qed.
Print Assumptions C15_hash_is_crc32.

(* with a 32-bit int the same code can produce a negative hash code (and then a negative index) *)
Example C15_hash_int32_can_be_negative :
  hash_int32 [78; 133; 236; 54] = -2147483648 /\ crc32 [78; 133; 236; 54] = 2 ^ 31.
Proof. exact hash_int32_can_be_negative. Qed.

(* ---- every policy always returns one of the registered loops ---- *)
Theorem C15_next_in_range : forall st addr, wf st -> 1 <= lb_size st ->
  (lb_policy st = HASH -> exists s, addr = Some s /\ is_bytes s) ->
  exists i, fst (lb_next st addr) = Ret i /\ 0 <= i < lb_size st /\
            wf (snd (lb_next st addr)) /\ lb_size (snd (lb_next st addr)) = lb_size st /\
            lb_policy (snd (lb_next st addr)) = lb_policy st.
Proof. exact next_in_range. Qed.
Print Assumptions C15_next_in_range.

(* ---- register / index / len ---- *)
Theorem C15_register : forall st, wf st ->
  fst (lb_register st) = lb_size st /\
  lb_len (snd (lb_register st)) = lb_len st + 1 /\
  wf (snd (lb_register st)) /\
  lb_policy (snd (lb_register st)) = lb_policy st.
Proof. exact register_spec. Qed.
Print Assumptions C15_register.

Theorem C15_index : forall st i,
  (0 <= i < lb_size st -> lb_index st i = Ret (Some i)) /\
  (lb_size st <= i -> lb_index st i = Ret None) /\
  (i < 0 -> i < lb_size st -> lb_index st i = Panic).
Proof. exact index_spec. Qed.
Print Assumptions C15_index.

(* ---- non-vacuity ---- *)
Definition ex_st (p : policy) : lbstate :=
  snd (lb_register (snd (lb_register (snd (lb_register (lb_new p)))))).     (* three loops *)
Example C15_ex_wf : wf (ex_st RR) /\ lb_size (ex_st LC) = 3.
Proof. unfold wf; split; vm_compute; try reflexivity. split; [discriminate|reflexivity]. Qed.
Example C15_ex_rr : rr_accepts 18446744073709551609 3 6 = [0; 1; 2; 0; 1; 2].
Proof. vm_compute; reflexivity. Qed.
Example C15_ex_lc : lc_next [5; 3; 7; 3; 9] = Ret 1 /\ lc_next [2; 2; 2] = Ret 0 /\ lc_next [9; 8; 7] = Ret 2.
Proof. repeat split; vm_compute; reflexivity. Qed.
Example C15_ex_hash :
  hash_next (Some [49;50;55;46;48;46;48;46;49;58;56;48]) 7 = Ret (crc32 [49;50;55;46;48;46;48;46;49;58;56;48] mod 7) /\
  hash_next (Some []) 256 = Ret 0 /\ crc32 [49;50;51;52;53;54;55;56;57] = 3421780262.
Proof. repeat split; vm_compute; reflexivity. Qed.
