(* C02 -- outbound stream integrity and ordering.  Statements only; proofs in Proofs/LoopData.v and Proofs/LoopProgress.v. *)
From GV Require Import Lib.Trace Model.Loop Spec.LoopSpec Proofs.LoopData Proofs.LoopProgress.
From GV Require Import Model.Elastic Spec.ElasticSpec Proofs.LoopBufferLink.
From GV Require Model.Ring Model.LList.
From GV Require Lib.Interleave Spec.AtomicQueue Model.MSQueue.
From GV Require Import Proofs.LoopQueueLink.
Open Scope Z_scope.

(* For every input stream: the bytes the kernel accepts from a connection are always the
   front of the bytes submitted by its write operations (OnOpen reply, Write, Writev,
   ReadFrom, asynchronous writes when they are carried out) and not handed over yet --
   in submission order, nothing lost, duplicated or interleaved, however short the kernel's
   writes are and whenever it says EAGAIN; OutboundBuffered is the length of that rest. *)
Theorem C02_outbound_integrity : forall i t, run_history i = Some t -> outbound_ok t = true.
Proof. exact outbound_holds. Qed.
Print Assumptions C02_outbound_integrity.

(* Progress ("accepted output is eventually sent" as far as the loop is responsible for it): for
   every input stream, whenever the loop goes back to waiting, every registered stream connection
   that still has accepted bytes buffered has somebody who will send them: level-triggered, its
   current epoll registration asks for writability; edge-triggered, its last write attempt ended
   in EAGAIN (the kernel owes an edge) or a write task has been queued for it since.  Outside:
   ReadFrom not followed by Flush, and connections already doomed by a fatal result. *)
Theorem C02_outbound_progress : forall i t, run_history i = Some t -> out_progress_ok (is_et i) t = true.
Proof. exact out_progress_holds. Qed.
Print Assumptions C02_outbound_progress.

(* What licenses the FIFO list [c_out] of Model/Loop.v.  In gnet the outboundBuffer is an
   elastic.Buffer (ring + linked list); Model/Loop.v holds it as a plain byte list and works on
   it with ++, List.concat, zdrop, zlen, firstn iov_max and `match .. with [] => ..`.  For every
   method the Go code calls on it (Write, Writev in conn.write / writev / open; Peek(-1) /
   Peek(0) and Discard(n) in the flush loops of eventloop.write and eventloop.close;
   IsEmpty, Buffered; ReadFrom; Reset, Release), executed on the buffer model of C10
   (Model/Elastic.v over the models of C09 and C11): if the representation invariant holds and
   the abstract content (bcontent = ring part ++ list part) is the list L the loop model holds,
   then the method does not panic, returns what the loop model computes from L, keeps the
   invariant and leaves the content the loop model stores.  [b] ranges over ALL states
   satisfying the invariant (any split between ring and list), [c] is the capacity the pool
   would hand back, the ReadFrom reader is any script with counts >= 0.  What Peek exposes --
   also after iov[:iovMax] -- is a prefix [ztake off L] of L, which is what sys_wr of the loop
   model offers to the kernel; it is all of L when len L <= MaxInt32.
   Each clause is an instance of a per-method theorem of Properties/C10.v (Proofs/LoopBufferLink.v). *)
Theorem C02_outbound_buffer_link :
  (forall b L c p, binv b -> bcontent b = L -> 0 <= c -> Loop.zlen p <= 2^62 ->
     exists b', BWrite b c p = Ret (b', (Loop.zlen p, XNil)) /\ binv b' /\ bcontent b' = (L ++ p)%list) /\
  (forall b L c bs, binv b -> bcontent b = L -> 0 <= c -> Forall (fun x => Loop.zlen x <= 2^62) bs ->
     exists b', BWritev b c bs = Ret (b', (Loop.zlen (List.concat bs), XNil)) /\ binv b' /\
       bcontent b' = (L ++ List.concat bs)%list) /\
  (forall b L n, binv b -> bcontent b = L ->
     exists e segs, BPeek b n = Ret (e, segs) /\
       (forall k : nat, exists off, 0 <= off <= Loop.zlen L /\ List.concat (firstn k segs) = Loop.ztake off L) /\
       (exists off, 0 <= off <= Loop.zlen L /\ List.concat segs = Loop.ztake off L) /\
       (n <= 0 -> e = XNil /\ List.concat segs = Loop.ztake LList.MaxInt32 L /\
                  (Loop.zlen L <= LList.MaxInt32 -> List.concat segs = L)) /\
       (0 < n <= Loop.zlen L -> n <> LList.MaxInt32 -> e = XNil /\ List.concat segs = Loop.ztake n L)) /\
  (forall b L n, binv b -> bcontent b = L ->
     exists b' e, BDiscard b n = Ret (b', (Z.max 0 (Z.min n (Loop.zlen L)), e)) /\ binv b' /\
       bcontent b' = Loop.zdrop n L /\
       (0 <= n <= Loop.zlen L -> Z.max 0 (Z.min n (Loop.zlen L)) = n) /\
       (0 < n -> e = XNil)) /\
  (forall b L pk n, binv b -> bcontent b = L -> pk <= 0 -> 0 <= n <= Loop.zlen L ->
     exists segs b' e, BPeek b pk = Ret (XNil, segs) /\
       (exists off, 0 <= off <= Loop.zlen L /\ List.concat (firstn Loop.iov_max segs) = Loop.ztake off L) /\
       (Loop.zlen L <= LList.MaxInt32 -> List.concat segs = L) /\
       (L <> [] -> segs <> []) /\
       BDiscard b n = Ret (b', (n, e)) /\ binv b' /\ bcontent b' = Loop.zdrop n L) /\
  (forall b L, binv b -> bcontent b = L ->
     BBuffered b = Loop.zlen L /\
     BIsEmpty b = match L with [] => true | _ :: _ => false end /\
     (BIsEmpty b = true <-> L = [])) /\
  (forall b L c src sc, binv b -> bcontent b = L -> 0 <= c -> script_ok sc ->
     exists b' k e, BReadFrom b c src sc = Ret (b', (k, e, Loop.zlen src - k)) /\ binv b' /\
       0 <= k <= Loop.zlen src /\ Loop.zlen (Loop.ztake k src) = k /\
       bcontent b' = (L ++ Loop.ztake k src)%list) /\
  (forall b m, binv b ->
     binv (BReset b m) /\ bcontent (BReset b m) = [] /\ binv (BRelease b) /\ bcontent (BRelease b) = []) /\
  (forall m, binv (mkB m None LList.empty_buffer) /\ bcontent (mkB m None LList.empty_buffer) = []).
Proof. exact outbound_buffer_link. Qed.
Print Assumptions C02_outbound_buffer_link.

(* What licenses the task lists [l_urgent] / [l_low] of Model/Loop.v, i.e. what "asynchronous
   writes are carried out in issue order" rests on.  In gnet the two task queues of a poller are
   lock-free Michael-Scott queues (pkg/queue/lock_free_queue.go) fed by any number of goroutines
   (Poller.Trigger) and drained by the loop; Model/Loop.v holds them as plain lists: [enqueue]
   appends at the end of the queue chosen by the length of the urgent one, [drain_urgent] /
   [drain_low] take the head (`match l_urgent (st w) with [] => .. | t :: rest => ..`), [chores]
   tests for [].  C13 proves the queue model (Model/MSQueue.v) linearizable against the sequential
   specification [qstep] with explicit linearization points.  Here ([nm] maps the integer that
   stands for a *Task in the queue model to the loop model's [task]; [qrep nm s q]: the list the
   C13 abstraction function yields for state s, read through nm, is q; [loop_queues nm su sl st]:
   that for [l_urgent st] and [l_low st]):
   - [qstep] IS append-at-the-end / head-and-tail, and answers "empty" only for [];
   - every atomic step of a reachable queue state leaves the represented list unchanged, or is the
     linearization point of an Enqueue (list becomes q ++ [nm v]), of a successful Dequeue
     (q = nm v :: rest, list becomes rest) or an observation of emptiness (q = []);
   - on an [lstate]: the linearization of Enqueue in the queue Trigger chose gives [enqueue st
     is_low (nm v)]; the linearization of the loop's Dequeue is the `t :: rest` branch of
     drain_urgent / drain_low with next state [set_queues ..rest..], an observation of emptiness
     is the `[]` branch; a Dequeue that answered nil saw [] at an instant inside the call;
   - with no operation in flight (and < 2^31 tasks) Length() is [zlen] of the list, IsEmpty() the
     [] test, and Trigger's threshold test is the one of [enqueue] (while operations are in flight
     Length() lags by C13_length_lag; this only influences which queue a low-priority task joins);
   - the list is what has been enqueued and not yet dequeued, in linearization order; for every
     producer the linearization order of its Enqueues is its issue order ([calls_of] / [enqs_of]),
     so with one producer the list is the not-yet-dequeued suffix of what it issued and what was
     dequeued is the prefix; with any number of producers the tasks of one goroutine are dequeued
     in the order it issued them (C13_producer_fifo).
   The order of the `async ..` lines in the input of the loop model is that linearization order.
   Each clause is an instance of a theorem of Properties/C13.v (Proofs/LoopQueueLink.v). *)
Theorem C02_task_queue_link : forall nm : Z -> Loop.task,
  (* the sequential specification is the list behaviour *)
  (forall q : list Loop.task,
     (forall v, AtomicQueue.qstep q (AtomicQueue.OpEnq v) = (q ++ [v], AtomicQueue.ResEnq)) /\
     AtomicQueue.qstep q AtomicQueue.OpDeq = match q with [] => ([], AtomicQueue.ResDeq None) | t :: rest => (rest, AtomicQueue.ResDeq (Some t)) end /\
     (snd (AtomicQueue.qstep q AtomicQueue.OpDeq) = AtomicQueue.ResDeq None <-> q = [])) /\
  (* a new poller *)
  (forall st, Loop.l_urgent st = [] -> Loop.l_low st = [] -> loop_queues nm MSQueue.init_state MSQueue.init_state st) /\
  (* one atomic step of a queue *)
  (forall s l s' q, Interleave.reachable MSQueue.ms_init MSQueue.ms_step s -> MSQueue.ms_step s l s' -> qrep nm s q ->
     (MSQueue.g_hist s' = MSQueue.g_hist s /\ qrep nm s' q) \/
     (exists e, MSQueue.g_hist s' = e :: MSQueue.g_hist s /\ AtomicQueue.ev_tid e = fst (fst l) /\
        match e with
        | AtomicQueue.LinEnq _ _ v => qrep nm s' (q ++ [nm v])
        | AtomicQueue.LinDeq _ _ v => exists rest, q = nm v :: rest /\ qrep nm s' rest
        | AtomicQueue.EmptyAt _ => q = [] /\ qrep nm s' []
        | _ => qrep nm s' q
        end)) /\
  (* Poller.Trigger is Loop.enqueue *)
  (forall su sl st is_low lab t id v su' sl',
     Interleave.reachable MSQueue.ms_init MSQueue.ms_step su -> Interleave.reachable MSQueue.ms_init MSQueue.ms_step sl -> loop_queues nm su sl st ->
     (if is_low && (Loop.zlen (Loop.l_urgent st) >=? Loop.l_thr st)
      then su' = su /\ MSQueue.ms_step sl lab sl' /\ MSQueue.g_hist sl' = AtomicQueue.LinEnq t id v :: MSQueue.g_hist sl
      else sl' = sl /\ MSQueue.ms_step su lab su' /\ MSQueue.g_hist su' = AtomicQueue.LinEnq t id v :: MSQueue.g_hist su) ->
     loop_queues nm su' sl' (Loop.enqueue st is_low (nm v))) /\
  (* drain_urgent / drain_low *)
  (forall su sl st lab su', Interleave.reachable MSQueue.ms_init MSQueue.ms_step su -> loop_queues nm su sl st -> MSQueue.ms_step su lab su' ->
     (forall t id v, MSQueue.g_hist su' = AtomicQueue.LinDeq t id v :: MSQueue.g_hist su ->
        exists rest, Loop.l_urgent st = nm v :: rest /\
          loop_queues nm su' sl (Loop.set_queues st rest (Loop.l_low st) (Loop.l_flag st))) /\
     (forall t, MSQueue.g_hist su' = AtomicQueue.EmptyAt t :: MSQueue.g_hist su -> Loop.l_urgent st = [] /\ loop_queues nm su' sl st)) /\
  (forall su sl st lab sl', Interleave.reachable MSQueue.ms_init MSQueue.ms_step sl -> loop_queues nm su sl st -> MSQueue.ms_step sl lab sl' ->
     (forall t id v, MSQueue.g_hist sl' = AtomicQueue.LinDeq t id v :: MSQueue.g_hist sl ->
        exists rest, Loop.l_low st = nm v :: rest /\
          loop_queues nm su sl' (Loop.set_queues st (Loop.l_urgent st) rest (Loop.l_flag st))) /\
     (forall t, MSQueue.g_hist sl' = AtomicQueue.EmptyAt t :: MSQueue.g_hist sl -> Loop.l_low st = [] /\ loop_queues nm su sl' st)) /\
  (forall s l s' q, Interleave.reachable MSQueue.ms_init MSQueue.ms_step s -> MSQueue.ms_step s l s' -> qrep nm s q ->
     (forall e, MSQueue.g_hist s' = e :: MSQueue.g_hist s -> AtomicQueue.lin_free e) -> qrep nm s' q) /\
  (* a nil answer *)
  (forall s newer t older, Interleave.reachable MSQueue.ms_init MSQueue.ms_step s -> MSQueue.g_hist s = newer ++ AtomicQueue.RetDeq t None :: older ->
     exists l1 l2 s0, older = l1 ++ AtomicQueue.EmptyAt t :: l2 /\
       (forall e, In e l1 -> AtomicQueue.is_boundary t e = false) /\
       Interleave.reachable MSQueue.ms_init MSQueue.ms_step s0 /\ MSQueue.g_hist s0 = l2 /\ qrep nm s0 []) /\
  (* Length / IsEmpty *)
  (forall s q, Interleave.reachable MSQueue.ms_init MSQueue.ms_step s -> MSQueue.quiescent s -> qrep nm s q -> Loop.zlen q < 2147483648 ->
     MSQueue.q_length s = Loop.zlen q /\
     MSQueue.q_isempty s = match q with [] => true | _ :: _ => false end /\
     (forall thr, (MSQueue.q_length s >=? thr) = (Loop.zlen q >=? thr))) /\
  (* contents and order *)
  (forall s, Interleave.reachable MSQueue.ms_init MSQueue.ms_step s ->
     MSQueue.absq_items s = skipn (List.length (AtomicQueue.deqs (MSQueue.g_hist s))) (AtomicQueue.enqs (MSQueue.g_hist s)) /\
     AtomicQueue.deqs (MSQueue.g_hist s) = firstn (List.length (AtomicQueue.deqs (MSQueue.g_hist s))) (AtomicQueue.enqs (MSQueue.g_hist s))) /\
  (forall s, Interleave.reachable MSQueue.ms_init MSQueue.ms_step s -> MSQueue.quiescent s ->
     (forall p, enqs_of p (MSQueue.g_hist s) = calls_of p (MSQueue.g_hist s)) /\
     (forall p, (forall t id v, In (AtomicQueue.CallEnq t id v) (MSQueue.g_hist s) -> t = p) ->
        AtomicQueue.enqs (MSQueue.g_hist s) = calls (MSQueue.g_hist s) /\
        MSQueue.absq_items s = skipn (List.length (AtomicQueue.deqs (MSQueue.g_hist s))) (calls (MSQueue.g_hist s)) /\
        AtomicQueue.deqs (MSQueue.g_hist s) = firstn (List.length (AtomicQueue.deqs (MSQueue.g_hist s))) (calls (MSQueue.g_hist s)))) /\
  (forall s p q, Interleave.reachable MSQueue.ms_init MSQueue.ms_step s -> MSQueue.quiescent s ->
     (forall t id v, In (AtomicQueue.CallEnq t id v) (MSQueue.g_hist s) -> t = p) -> qrep nm s q ->
     q = map nm (map snd (skipn (List.length (AtomicQueue.deqs (MSQueue.g_hist s))) (calls (MSQueue.g_hist s))))) /\
  (forall s t a va b vb l3 l4 l5 n1 n2 tb wb, Interleave.reachable MSQueue.ms_init MSQueue.ms_step s ->
     MSQueue.g_hist s = l5 ++ AtomicQueue.CallEnq t b vb :: l4 ++ AtomicQueue.CallEnq t a va :: l3 ->
     MSQueue.g_hist s = n1 ++ AtomicQueue.LinDeq tb b wb :: n2 ->
     exists ta n3 n4, n2 = n3 ++ AtomicQueue.LinDeq ta a va :: n4).
Proof. exact task_queue_link. Qed.
Print Assumptions C02_task_queue_link.

From GV Require Proofs.LoopDataExamples.
(* Non-vacuity: the example run has hand-overs (a short one included); the checker accepts it and rejects
   the same history with the first hand-over marker dropped. *)
Example C02_nonvacuous :
  (exists t, run_history LoopDataExamples.ex_input = Some t /\ List.length t = 72%nat) /\
  outbound_ok LoopDataExamples.ex_history = true /\
  outbound_ok (LoopDataExamples.drop_first (LoopDataExamples.is_out "g" "hand") LoopDataExamples.ex_history) = false.
Proof.
  split; [exact LoopDataExamples.ex_runs|]. split; [exact (proj1 (proj2 LoopDataExamples.ex_checkers))|exact LoopDataExamples.ex_outbound_rejects].
Qed.
Print Assumptions C02_nonvacuous.
