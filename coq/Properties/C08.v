(* C08 -- UDP datagram fidelity.  Statements only; proofs in Proofs/LoopUdp.v. *)
From GV Require Import Lib.Trace Model.Loop Spec.LoopSpec Proofs.LoopUdp.
Open Scope Z_scope.

Theorem C08_udp_fidelity : forall i t, run_history i = Some t -> udp_ok (statics i) t = true.
Proof. exact udp_holds. Qed.
Print Assumptions C08_udp_fidelity.

From GV Require Proofs.LoopDataExamples.
(* Non-vacuity: the example run contains a datagram callback and a sendto; the checker accepts it and rejects
   the history without that sendto. *)
Example C08_nonvacuous :
  udp_ok (statics LoopDataExamples.ex_input) LoopDataExamples.ex_history = true /\
  udp_ok (statics LoopDataExamples.ex_input)
         (LoopDataExamples.drop_first (LoopDataExamples.is_out "sys" "sendto") LoopDataExamples.ex_history) = false.
Proof. split; [exact (proj2 (proj2 LoopDataExamples.ex_checkers))|exact LoopDataExamples.ex_udp_rejects]. Qed.
Print Assumptions C08_nonvacuous.
