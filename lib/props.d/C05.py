PROP = dict(
    gens=[dict(tool="genfootprint", out="GenFootprint.v", args=["{repo}"])],
    drivers=[
        # callbacks record goroutine identity; brackets replayed through the model (run_footprint)
        dict(cmd="drv-race", family="footprint", netns=True, args=["-mode", "confine"],
             timeout={"quick": 600, "thorough": 1800}),
        # API storm under the race detector, both connection registries (oracle only)
        dict(cmd="drv-race", variant="storm", corpus_family="race", netns=True, race=True, args=["-mode", "storm"],
             timeout={"quick": 900, "thorough": 3000}),
        dict(cmd="drv-race", variant="storm-gcopt", corpus_family="race", netns=True, race=True, tags="verif gc_opt",
             args=["-mode", "storm", "-light"], timeout={"quick": 900, "thorough": 3000}),
    ],
    rule="(a) confinement: one case = one real multi-loop engine run (2-4 loops; cells reuse-port x edge-triggered x load "
         "balancer; tcp + unix + udp listeners, ticker on) with 10 echo clients, datagrams, handler-initiated closes (nested "
         "OnClose) and 3 user goroutines issuing AsyncWrite/AsyncWritev/Wake/CloseWithCallback/Execute; every OnOpen/OnTraffic/"
         "OnClose, asynchronous callback and runnable records (global sequence number, loop, goroutine id, connection); the model "
         "recomputes foreign/overlap/migration counts from the brackets and must agree with the driver's live monitor; non-trivial "
         "= more than 20 brackets, more than one loop, nested callbacks, callbacks of different loops overlapping. (b) storm (built "
         "with -race, default and gc_opt registries): per cell repeated engine life cycles of ~1 s: 6 churning tcp/unix clients, a "
         "datagram sender, a gnet Client engine with tcp and connected-udp connections, 8 goroutines calling every operation the "
         "property lists (AsyncWrite, AsyncWritev, Wake, Close, CloseWithCallback, SafeContext, SetSafeContext, Fd, Dup, the six "
         "socket-option setters, EventLoop.Execute/Register/Enroll, Engine.CountConnections) on live and stale connections, then "
         "Engine.Stop from three goroutines at once while the others continue, then Client.Stop under load; plus the cc-during-start "
         "scenario (CountConnections from a goroutine started in OnBoot). Every race report with a gnet frame is a failure "
         "data-race <f1>|<f2>; distinct by cell and seed",
    trusted=["translator harness/cmd/genfootprint (go/types over the current source, offline: field accesses, atomic marking, "
             "ownership of freshly allocated objects, guards, call graph on the calling goroutine, spawn boundaries Trigger/Submit/"
             "go/errgroup.Go) -- its completeness is assumed",
             "the exception list in coq/Model/Footprint.v is a manual analysis (each entry carries its justification); the set is "
             "closed and tight (exceptions_all_used)",
             "Go race detector (ThreadSanitizer runtime) for the dynamic search"],
    assumptions=["Go memory model: happens-before = program order + synchronisation; sync/atomic, sync.Once, sync.Map, context, "
                 "errgroup, channels behave as documented; executions are interleavings (SC for data-race-free programs)",
                 "races inside dependencies are out of scope: pkg/queue (C13), pkg/logging, pkg/buffer/*, pkg/pool/*, ants, zap, x/sys",
                 "user code hands a Conn / EventLoop / Engine to another goroutine only through synchronisation, and calls the "
                 "handler-only methods (Read, Write, Peek, ... SetContext, EventLoop.Close) only from inside callbacks",
                 "a loop goroutine reaches only its own eventloop object and the connections registered with it (instance "
                 "confinement; checked dynamically by the confinement cases, not statically)",
                 "Engine.Register with round-robin balancing is documented racy by gnet and not in the property's list: out of scope, "
                 "as are Engine.Dup/DupListener and Client.Enroll/Dial; the poll_opt build variant is not analysed"],
)
