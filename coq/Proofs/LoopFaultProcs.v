(* C18, part 3: the procedures of the mutual block of Model/Loop.v (el_close, close_drain,
   conn_write*, el_write, handler, hcall) preserve the fault invariant. *)
From GV Require Import Lib.Trace Model.Loop Spec.LoopSpec Proofs.LoopFaultBase Proofs.LoopFaultRel.
From Coq Require Import Lia.
Open Scope string_scope.
Open Scope list_scope.
Open Scope Z_scope.

(* relations every "frame" step preserves *)
Definition good (Q : faultst -> lstate -> Prop) : Prop := stable Q /\ call_blind Q /\ not_owed Q.

Lemma good_Rel : forall L x dm P, pstable L P -> good (Rel L x dm P).
Proof.
  intros. split; [apply Rel_stable; auto|split; [apply Rel_call_blind|apply Rel_not_owed]].
Qed.

Ltac plain_sys_tac :=
  split; [intros c; reflexivity | intros c n rest Hf; cbn; rewrite ?Hf; reflexivity].

Lemma good_sys : forall Q name args w k w',
  good Q -> plain_sys name args -> Inv Q w -> sys name args w = (k, w') -> Inv Q w'.
Proof.
  intros Q name args w k w' [H1 [H2 H3]] Hp H Hs.
  destruct (Inv_sys_plain Q name args w k w' Hp H1 H2 H3 H Hs) as [[Hi _]|[_ Ha]]; auto.
Qed.

Lemma good_emit : forall Q l w, good Q -> plain l -> Inv Q w -> Inv Q (emit l w).
Proof. intros Q l w [_ [_ H3]] Hp H. eapply Inv_emit_plain; eauto. Qed.

Ltac plain_tac := split; [reflexivity | intros c; reflexivity].

Lemma good_epctl : forall Q op fd rw et w r w',
  good Q -> Inv Q w -> epctl op fd rw et w = (r, w') -> Inv Q w'.
Proof.
  intros Q op fd rw et w r w' Hg H He. unfold epctl in He.
  destruct (sys "epctl" [ASym op; AInt fd; bool_arg rw; bool_arg et] w) as [k w1] eqn:Hs.
  assert (Inv Q w1) by (eapply good_sys; eauto; plain_sys_tac).
  destruct k; inversion He; subst; auto.
Qed.

Lemma good_efd_write : forall Q fuel w r w',
  good Q -> Inv Q w -> efd_write fuel w = (r, w') -> Inv Q w'.
Proof.
  intros Q fuel. induction fuel as [|f IH]; intros w r w' Hg H He; cbn [efd_write] in He.
  - inversion He; subst. apply Any_Inv. eapply Inv_desync; eauto.
  - destruct (sys "write" [AInt (l_efd (st w))] w) as [k w1] eqn:Hs.
    assert (H1 : Inv Q w1) by (eapply good_sys; eauto; plain_sys_tac).
    destruct k as [n extra|e|]; try (inversion He; subst; auto; fail).
    destruct (is_eagain e); [|inversion He; subst; auto].
    destruct (sys "read" [AInt (l_efd (st w1))] w1) as [k2 w2] eqn:Hs2.
    assert (H2 : Inv Q w2) by (eapply good_sys; eauto; plain_sys_tac).
    eapply IH; eauto.
Qed.

Definition R0 (L : list Z) := Rel L false None PT.

Lemma good_R0 : forall L, good (R0 L).
Proof. intros. apply good_Rel. apply pstable_PT. Qed.

Lemma Inv_trigger : forall L b t w r w',
  Inv (R0 L) w -> benign t \/ (exists cid, t = TWrite0 cid) \/ (exists cid, t = TRead0 cid) ->
  trigger b t w = (r, w') -> Inv (R0 L) w'.
Proof.
  intros L b t w r w' H Hb Ht. unfold trigger in Ht.
  assert (Hok : forall C s, task_ok C s t /\ regs [t] = []).
  { intros C s. destruct Hb as [Hb|[[cid ->]|[cid ->]]]; [apply benign_ok; auto| |]; split; reflexivity. }
  assert (H1 : Inv (R0 L) (with_st w (enqueue (st w) b t))).
  { eapply Inv_with_st; [exact H|]. intros c _ Hc. eapply Rel_state; [exact Hc| |auto].
    intros HR. destruct (Hok (ft_closed c) (st w)). apply RS_enqueue_plain; auto. }
  destruct (l_flag (enqueue (st w) b t)); [inversion Ht; subst; exact H1|].
  eapply good_efd_write; [apply good_R0| |exact Ht].
  eapply (Inv_world _ _ (with_st w (enqueue (st w) b t))); [exact H1|reflexivity|reflexivity|].
  intros c _ Hc. cbn [with_st st] in *.
  eapply Rel_state; [exact Hc| |auto]. intros HR. apply RS_set_flag; auto.
Qed.

Lemma Inv_hr : forall L cid call vals w,
  Inv (R0 L) w -> Inv (R0 L) (emit (obs "hr" (AInt cid :: ASym call :: vals)) w).
Proof. intros. apply good_emit; auto; [apply good_R0|plain_tac]. Qed.

Lemma Inv_setc_data : forall L P w cid c',
  Inv (Rel L false None P) w -> same_static (wc w cid) c' ->
  (forall C s, P C s -> P C (setc s cid c')) ->
  Inv (Rel L false None P) (wsetc w cid c').
Proof.
  intros L P w cid c' H Hs HP. eapply Inv_wsetc; [exact H|].
  intros c Hc. eapply Rel_state; [exact Hc| |auto].
  intros HR. apply RS_setc_data; auto.
Qed.

Lemma Inv_setc_data0 : forall L w cid c',
  Inv (R0 L) w -> same_static (wc w cid) c' -> Inv (R0 L) (wsetc w cid c').
Proof. intros. apply Inv_setc_data; auto. Qed.

Lemma Popen_setc : forall cid c' C s,
  c_opened c' = true -> Popen cid C s -> Popen cid C (setc s cid c').
Proof. intros. unfold Popen. rewrite getc_setc_same. auto. Qed.

Ltac ss := unfold same_static, wc; repeat split; reflexivity.

(* ghost markers the fault checker ignores *)
Lemma good_ghost : forall Q what cid bs w, good Q ->
  what <> "fail" -> what <> "openreply" -> what <> "openreply-end" ->
  Inv Q w -> Inv Q (ghost what cid bs w).
Proof.
  intros Q what cid bs w Hg H1 H2 H3 H. unfold ghost. apply good_emit; auto.
  split; [reflexivity|]. intros c.
  assert (E : forall s, String.eqb what s = false -> what <> s) by (intros s Hs; apply String.eqb_neq; auto).
  cbn.
  destruct (String.eqb_spec what "fail"); [contradiction|].
  destruct (String.eqb_spec what "openreply"); [contradiction|].
  destruct (String.eqb_spec what "openreply-end"); [contradiction|].
  clear E.
  repeat match goal with
  | |- (match ?x with _ => _ end) = _ => destruct x; try reflexivity; try congruence
  end.
Qed.

(* ------------------------------------------------------------------ *)
(* shape of one handler step, whatever the checker *)

Lemma handler_cases : forall f cid w r w',
  handler (S f) cid w = (r, w') ->
  exists o w1, pull w = (o, w1) /\
    ((o = None /\ w' = w1) \/
     (exists a rest, o = Some ("hret", a :: rest) /\ w' = w1) \/
     (exists call args, o = Some ("h", ASym call :: args) /\
                        handler f cid (hcall f cid call args w1) = (r, w')) \/
     (exists l, o = Some l /\ w' = desync "expected-h" w1)).
Proof.
  intros f cid w r w' H. cbn [handler] in H.
  destruct (pull w) as [o w1] eqn:Hp. exists o, w1. split; [reflexivity|].
  destruct o as [l|]; [|inversion H; subst; auto].
  right. destruct l as [ln la].
  destruct (String.eqb_spec ln "hret") as [->|Hne1].
  - destruct la as [|a rest]; [inversion H; subst; right; right; eauto|].
    inversion H; subst. left; eauto.
  - destruct (String.eqb_spec ln "h") as [->|Hne2].
    + destruct la as [|[z|b|call] args]; try solve [inversion H; subst; right; right; eauto].
      right; left. eauto.
    + right; right. exists (ln, la).
      assert (Hk : (r, w') = ((ANone, None), desync "expected-h" w1)).
      { rewrite <- H. destruct ln as [|a ln]; [reflexivity|].
        destruct a as [[] [] [] [] [] [] [] []]; try reflexivity.
        destruct ln as [|a ln]; [congruence|].
        destruct a as [[] [] [] [] [] [] [] []]; try reflexivity.
        destruct ln as [|a ln]; [reflexivity|].
        destruct a as [[] [] [] [] [] [] [] []]; try reflexivity.
        destruct ln as [|a ln]; [reflexivity|].
        destruct a as [[] [] [] [] [] [] [] []]; try reflexivity.
        destruct ln as [|a ln]; [congruence|reflexivity]. }
      inversion Hk; subst. auto.
Qed.

(* ------------------------------------------------------------------ *)
(* statements for the mutual block, by fuel *)

Definition S_close (f : nat) : Prop := forall L cid e dm w r w',
  Inv (Rel L false dm PT) w -> (dm = None \/ (dm = Some cid /\ e = false)) ->
  el_close f cid e w = (r, w') -> Inv (R0 L) w'.
Definition S_drain (f : nat) : Prop := forall L cid w,
  In cid L -> Inv (R0 L) w -> Inv (R0 L) (close_drain f cid w).
Definition S_cw (f : nat) : Prop := forall L cid d w r w',
  Inv (R0 L) w -> conn_write f cid d w = (r, w') -> Inv (R0 L) w'.
Definition S_cwl (f : nat) : Prop := forall L cid d n w rn ok w',
  Inv (Rel L false None (Popen cid)) w -> conn_write_loop f cid d n w = ((rn, ok), w') ->
  Inv (Rel L false (if ok then None else Some cid) PT) w'.
Definition S_cwvl (f : nat) : Prop := forall L cid segs n w rn ok w',
  Inv (Rel L false None (Popen cid)) w -> conn_writev_loop f cid segs n w = ((rn, ok), w') ->
  Inv (Rel L false (if ok then None else Some cid) PT) w'.
Definition S_cwv (f : nat) : Prop := forall L cid segs w r w',
  Inv (R0 L) w -> conn_writev f cid segs w = (r, w') -> Inv (R0 L) w'.
Definition S_w (f : nat) : Prop := forall L cid sent w r w',
  Inv (R0 L) w -> el_write f cid sent w = (r, w') -> Inv (R0 L) w'.
Definition S_h (f : nat) : Prop := forall L cid w r w',
  Inv (R0 L) w -> handler f cid w = (r, w') -> Inv (R0 L) w'.
Definition S_hc (f : nat) : Prop := forall L cid call args w,
  Inv (R0 L) w -> Inv (R0 L) (hcall f cid call args w).

Lemma guard_false : forall (o : bool) (A : Type) (x : option A),
  negb o || match x with None => true | Some _ => false end = false ->
  o = true /\ exists v, x = Some v.
Proof. intros o A x H. destruct o, x; cbn in H; try discriminate. eauto. Qed.

Lemma Inv_any_desync : forall Q Q' w what, Inv Q w -> Inv Q' (desync what w).
Proof. intros. apply Any_Inv. eapply Inv_desync; eauto. Qed.

Lemma Rel_P_drop : forall L x dm P w, Inv (Rel L x dm P) w -> Inv (Rel L x dm PT) w.
Proof.
  intros. eapply Inv_weaken; [exact H|]. intros c _ Hc. eapply Rel_P_weaken; [exact Hc|]. intros; exact I.
Qed.

Lemma Rel_dm_drop : forall L x dm P w, Inv (Rel L x None P) w -> Inv (Rel L x dm P) w.
Proof. intros. eapply Inv_weaken; [exact H|]. intros c _ Hc. apply Rel_dm_weaken; auto. Qed.

Lemma close_step : forall f, S_h f -> S_drain f -> S_close f -> S_close (S f).
Proof.
  intros f Hh Hd Hc L cid e dm w r w' H Hdm He. cbn [el_close] in He.
  destruct (negb (c_opened (wc w cid)) ||
            match alookup (c_fd (wc w cid)) (l_reg (st w)) with None => true | Some _ => false end) eqn:Hg.
  - inversion He; subst. eapply Inv_weaken; [exact H|]. intros c _ Hc'.
    destruct Hdm as [->|[-> ->]]; [exact Hc'|].
    destruct Hc' as [E1 [E2 [E3 [E4 E5]]]].
    split; [exact E1|split; [exact E2|split; [exact E3|split; [|exact E5]]]].
    destruct E4 as [E4|[x [Ex [Ed [Eo Ez]]]]]; [left; exact E4|]. assert (x = cid) by congruence; subst x.
    pose proof (rs_reg _ _ _ E3 _ Eo Ez) as Hr. unfold wc in Hg. rewrite Eo, Hr in Hg. discriminate.
  - apply guard_false in Hg. destruct Hg as [Hop [v Hv]].
    set (S1 := set_reg (st w) (aremove (c_fd (wc w cid)) (l_reg (st w)))) in *.
    set (w2 := emit (obs "cb" [ASym "close"; AInt cid; err_sym e]) (with_st w S1)) in *.
    assert (H2 : Inv (R0 (cid :: L)) w2).
    { assert (H1 : Inv (fun c s => Rel L false dm PT c (st w)) (with_st w S1))
        by (eapply Inv_with_st; [exact H|]; auto).
      eapply Inv_emit; [exact H1|reflexivity|].
      intros c _ [E1 [E2 [E3 [E4 E5]]]]. cbn [with_st st]. unfold err_sym. cbn. rewrite E1.
      assert (Hz : zmem cid (ft_closed c) = false).
      { destruct (zmem cid (ft_closed c)) eqn:Ez; auto.
        destruct (rs_closing _ _ _ E3 _ Hop Ez) as [_ Hn]. unfold wc in Hv. congruence. }
      assert (Hzr : zrem cid (ft_doomed c) = [] /\
                    zmem cid (ft_doomed c) && sym_eqb (if e then "nil" else "err") "nil" = false).
      { destruct E4 as [E4|[x [Ex [Ed [Eo Ez]]]]]; [rewrite E4; auto|].
        destruct Hdm as [->|[Hd1 ->]]; [discriminate|]. assert (x = cid) by congruence; subst x.
        rewrite Ed. cbn. rewrite Z.eqb_refl. auto. }
      destruct Hzr as [Hzr Hb]. rewrite Hb. eexists. split; [reflexivity|].
      split; [reflexivity|split; [exact E2|split; [|split; [left; exact Hzr|exact I]]]].
      cbn [ft_closed]. apply RS_close; auto. }
    destruct (handler f cid w2) as [[act rep] w3] eqn:Hh3.
    pose proof (Hh _ _ _ _ _ H2 Hh3) as H3.
    pose proof (Hd _ cid w3 (in_eq _ _) H3) as H4.
    set (w4 := close_drain f cid w3) in *.
    assert (H5 : Inv (R0 L) (wsetc w4 cid (c_release (wc w4 cid)))).
    { eapply Inv_wsetc; [exact H4|]. intros c Hc'. eapply Rel_state; [exact Hc'| |auto].
      intros HR. eapply RS_release; [exact HR| |].
      - intros x Hx. right; exact Hx.
      - intros x [<-|Hx]; auto. }
    destruct (epctl "del" (c_fd (wc w4 cid)) false false (wsetc w4 cid (c_release (wc w4 cid))))
      as [r0 w6] eqn:He6.
    pose proof (good_epctl _ _ _ _ _ _ _ _ (good_R0 L) H5 He6) as H6.
    destruct (sys "close" [AInt (c_fd (wc w4 cid))] w6) as [k1 w7] eqn:He7.
    assert (H7 : Inv (R0 L) w7) by (eapply good_sys; [apply good_R0| |exact H6|exact He7]; plain_sys_tac).
    destruct (match r0 with RNil => match k1 with KErr _ => true | _ => false end | _ => true end).
    + inversion He; subst; exact H7.
    + destruct act; [inversion He; subst; exact H7| |inversion He; subst; exact H7].
      eapply Hc; [exact H7|left; reflexivity|exact He].
Qed.

Lemma st_emit : forall l w, st (emit l w) = st w.
Proof. intros. unfold emit. destruct (halt w); reflexivity. Qed.

Lemma st_ghost : forall what cid bs w, st (ghost what cid bs w) = st w.
Proof. intros. apply st_emit. Qed.

Ltac ss ::= unfold same_static, wc; rewrite ?st_ghost, ?st_emit; repeat split; reflexivity.

Lemma drain_step : forall f, S_drain f -> S_drain (S f).
Proof.
  intros f IH L cid w Hin H. cbn [close_drain].
  destruct (c_out (wc w cid)) eqn:Ho; [exact H|]. rewrite <- Ho.
  destruct (sys_wr cid (c_fd (wc w cid)) (c_out (wc w cid)) false w) as [k w1] eqn:Hs.
  pose proof (Inv_sys_wr L false PT (pstable_PT L) _ _ _ _ _ _ _ H Hs) as H1.
  destruct k as [n extra|e|].
  - apply IH; auto. apply Inv_setc_data0; auto. ss.
  - destruct (is_eagain e); auto. eapply Inv_weaken; [exact H1|]. intros c _ Hc.
    apply (RelFail_closed L false PT cid); [exact Hc|]. destruct Hc as [_ [_ [HR _]]]. apply (rs_L _ _ _ HR); auto.
  - apply Any_Inv; auto.
Qed.

Lemma Inv_fail_open : forall L cid w,
  Inv (RelFail L false (Popen cid) cid) w -> Inv (Rel L false (Some cid) PT) w.
Proof.
  intros. eapply Inv_weaken; [exact H|]. intros c _ Hc.
  eapply Rel_P_weaken; [apply RelFail_Rel; [exact Hc|]|]; auto. intros; exact I.
Qed.

Lemma cwl_step : forall f, S_cwl f -> S_cwl (S f).
Proof.
  intros f IH L cid d n w rn ok w' H He. cbn [conn_write_loop] in He.
  destruct (sys_wr cid (c_fd (wc w cid)) d true w) as [k w1] eqn:Hs.
  pose proof (Inv_sys_wr L false (Popen cid) (pstable_Popen L cid) _ _ _ _ _ _ _ H Hs) as H1.
  destruct k as [sent extra|e|].
  - destruct (zdrop sent d) eqn:Hrest.
    + inversion He; subst. exact (Rel_P_drop _ _ _ _ _ H1).
    + rewrite <- Hrest in *. destruct (l_et (st w)).
      * eapply IH; eauto.
      * match type of He with (let '(_, _) := epctl ?a ?b ?c ?d ?ww in _) = _ =>
          destruct (epctl a b c d ww) as [r w3] eqn:He3 end.
        inversion He; subst. apply Rel_dm_drop.
        eapply good_epctl; [apply good_R0| |exact He3].
        apply Inv_setc_data0; [exact (Rel_P_drop _ _ _ _ _ H1)|ss].
  - destruct (is_eagain e).
    + destruct (l_et (st w)).
      * inversion He; subst. apply Inv_setc_data0; [exact (Rel_P_drop _ _ _ _ _ H1)|ss].
      * match type of He with (let '(_, _) := epctl ?a ?b ?c ?d ?ww in _) = _ =>
          destruct (epctl a b c d ww) as [r w3] eqn:He3 end.
        inversion He; subst. apply Rel_dm_drop.
        eapply good_epctl; [apply good_R0| |exact He3].
        apply Inv_setc_data0; [exact (Rel_P_drop _ _ _ _ _ H1)|ss].
    + inversion He; subst. apply Inv_fail_open; exact H1.
  - inversion He; subst. apply Any_Inv; exact H1.
Qed.

Lemma cwvl_step : forall f, S_cwvl f -> S_cwvl (S f).
Proof.
  intros f IH L cid segs n w rn ok w' H He. cbn [conn_writev_loop] in He.
  destruct (sys_wr cid (c_fd (wc w cid)) (List.concat (firstn iov_max segs)) true w) as [k w1] eqn:Hs.
  pose proof (Inv_sys_wr L false (Popen cid) (pstable_Popen L cid) _ _ _ _ _ _ _ H Hs) as H1.
  destruct k as [sent extra|e|].
  - destruct (List.concat (drop_sent sent segs)) eqn:Hrest.
    + inversion He; subst. exact (Rel_P_drop _ _ _ _ _ H1).
    + rewrite <- Hrest in *. destruct (l_et (st w)).
      * eapply IH; eauto.
      * match type of He with (let '(_, _) := epctl ?a ?b ?c ?d ?ww in _) = _ =>
          destruct (epctl a b c d ww) as [r w3] eqn:He3 end.
        inversion He; subst. apply Rel_dm_drop.
        eapply good_epctl; [apply good_R0| |exact He3].
        apply Inv_setc_data0; [exact (Rel_P_drop _ _ _ _ _ H1)|ss].
  - destruct (is_eagain e).
    + destruct (l_et (st w)).
      * inversion He; subst. apply Inv_setc_data0; [exact (Rel_P_drop _ _ _ _ _ H1)|ss].
      * match type of He with (let '(_, _) := epctl ?a ?b ?c ?d ?ww in _) = _ =>
          destruct (epctl a b c d ww) as [r w3] eqn:He3 end.
        inversion He; subst. apply Rel_dm_drop.
        eapply good_epctl; [apply good_R0| |exact He3].
        apply Inv_setc_data0; [exact (Rel_P_drop _ _ _ _ _ H1)|ss].
    + inversion He; subst. apply Inv_fail_open; exact H1.
  - inversion He; subst. apply Any_Inv; exact H1.
Qed.

Lemma Inv_assert_open : forall L w cid,
  Inv (R0 L) w -> c_opened (wc w cid) = true -> Inv (Rel L false None (Popen cid)) w.
Proof.
  intros L w cid H Ho. eapply Inv_weaken; [exact H|]. intros c _ Hc.
  eapply Rel_P_weaken; [exact Hc|]. intros _ _. exact Ho.
Qed.

Lemma cw_step : forall f, S_cwl f -> S_close f -> S_cw (S f).
Proof.
  intros f Hl Hc L cid d w r w' H He. cbn [conn_write] in He.
  destruct (c_opened (wc w cid)) eqn:Ho; cbn [negb] in He; [|inversion He; subst; exact H].
  destruct (c_out (wc w cid)) eqn:Hout.
  - destruct (conn_write_loop f cid d (zlen d) (ghost "sub" cid d w)) as [[rn ok] w1] eqn:Hl1.
    assert (H1 : Inv (Rel L false (if ok then None else Some cid) PT) w1).
    { eapply Hl; [|exact Hl1]. apply good_ghost; try discriminate.
      - apply good_Rel. apply pstable_Popen.
      - apply Inv_assert_open; auto. }
    destruct ok; [inversion He; subst; exact H1|].
    destruct (el_close f cid false w1) as [r2 w2] eqn:Hc2. inversion He; subst.
    eapply Hc; [exact H1|right; auto|exact Hc2].
  - inversion He; subst. apply Inv_setc_data0; [|ss].
    apply good_ghost; try discriminate; auto. apply good_R0.
Qed.

Lemma cwv_step : forall f, S_cwvl f -> S_close f -> S_cwv (S f).
Proof.
  intros f Hl Hc L cid segs w r w' H He. cbn [conn_writev] in He.
  destruct (c_opened (wc w cid)) eqn:Ho; cbn [negb] in He; [|inversion He; subst; exact H].
  assert (Hg : Inv (R0 L) (ghost "sub" cid (List.concat segs) w)).
  { apply good_ghost; try discriminate; auto. apply good_R0. }
  destruct (c_out (wc w cid)) eqn:Hout.
  - destruct segs as [|sg segs]; [inversion He; subst; exact Hg|].
    destruct (conn_writev_loop f cid (sg :: segs) (zlen (List.concat (sg :: segs)))
               (ghost "sub" cid (List.concat (sg :: segs)) w)) as [[rn ok] w1] eqn:Hl1.
    assert (H1 : Inv (Rel L false (if ok then None else Some cid) PT) w1).
    { eapply Hl; [|exact Hl1]. apply good_ghost; try discriminate.
      - apply good_Rel. apply pstable_Popen.
      - apply Inv_assert_open; auto. }
    destruct ok; [inversion He; subst; exact H1|].
    destruct (el_close f cid false w1) as [r2 w2] eqn:Hc2. inversion He; subst.
    eapply Hc; [exact H1|right; auto|exact Hc2].
  - inversion He; subst. apply Inv_setc_data0; [exact Hg|ss].
Qed.

Lemma w_step : forall f, S_w f -> S_close f -> S_w (S f).
Proof.
  intros f Hw Hc L cid sent w r w' H He. cbn [el_write] in He.
  destruct (c_opened (wc w cid)) eqn:Ho; cbn [negb] in He; [|inversion He; subst; exact H].
  destruct (c_out (wc w cid)) eqn:Hout; [inversion He; subst; exact H|]. rewrite <- Hout in *.
  destruct (sys_wr cid (c_fd (wc w cid)) (c_out (wc w cid)) false w) as [k w1] eqn:Hs.
  pose proof (Inv_sys_wr L false (Popen cid) (pstable_Popen L cid) _ _ _ _ _ _ _
                (Inv_assert_open _ _ _ H Ho) Hs) as H1.
  destruct k as [n extra|e|].
  - set (w2 := wsetc w1 cid (c_set_out (wc w1 cid) (zdrop n (c_out (wc w1 cid))))) in *.
    assert (H2 : Inv (R0 L) w2) by (apply Inv_setc_data0; [exact (Rel_P_drop _ _ _ _ _ H1)|ss]).
    destruct (zdrop n (c_out (wc w1 cid))) eqn:Hrest.
    + destruct (l_et (st w)); [inversion He; subst; exact H2|].
      eapply good_epctl; [apply good_R0|exact H2|exact He].
    + destruct (l_et (st w)); [|inversion He; subst; exact H2].
      destruct (sent + n <? l_chunk (st w2)).
      * eapply Hw; eauto.
      * eapply Inv_trigger; [| |exact He]; [|right; left; eauto].
        apply good_ghost; [apply good_R0|discriminate|discriminate|discriminate|exact H2].
  - destruct (is_eagain e); [inversion He; subst; exact (Rel_P_drop _ _ _ _ _ H1)|].
    eapply Hc; [apply Inv_fail_open; exact H1|right; auto|exact He].
  - inversion He; subst. apply Any_Inv; exact H1.
Qed.

Lemma h_step : forall f, S_h f -> S_hc f -> S_h (S f).
Proof.
  intros f Hh Hhc L cid w r w' H He.
  destruct (handler_cases _ _ _ _ _ He) as [o [w1 [Hp Hc]]].
  pose proof (Inv_pull _ (Rel_stable L false None PT (pstable_PT L)) _ _ _ H Hp) as HP.
  destruct Hc as [[-> ->]|[[a [rest [-> ->]]]|[[call [args [-> Hrec]]]|[l [-> ->]]]]].
  - apply Any_Inv; exact HP.
  - eapply Inv_weaken; [exact HP|]. intros c _ Hc. eapply after_not_r; [|exact Hc]. discriminate.
  - eapply Hh; [|exact Hrec]. apply Hhc.
    eapply Inv_weaken; [exact HP|]. intros c _ Hc. eapply after_not_r; [|exact Hc]. discriminate.
  - eapply Inv_any_desync; exact HP.
Qed.

Ltac data_tac L H :=
  repeat first
    [ exact H
    | apply Inv_hr
    | apply Inv_setc_data0; [|ss]
    | apply (Inv_any_desync (R0 L))
    | apply good_ghost; [apply good_R0|discriminate|discriminate|discriminate|]
    | match goal with
      | |- Inv _ (if ?b then _ else _) => destruct b
      | |- Inv _ (match ?x with _ => _ end) => destruct x
      end ].

Lemma hc_step : forall f, S_cw f -> S_cwv f -> S_w f -> S_close f -> S_hc f -> S_hc (S f).
Proof.
  intros f Hcw Hcwv Hw Hc Hhc L cid call args w H. cbn [hcall].
  destruct (sym_eqb call "read"); [data_tac L H|].
  destruct (sym_eqb call "next"); [data_tac L H|].
  destruct (sym_eqb call "peek"); [data_tac L H|].
  destruct (sym_eqb call "discard"); [data_tac L H|].
  destruct (sym_eqb call "writeto"); [data_tac L H|].
  destruct (sym_eqb call "inbuf"); [data_tac L H|].
  destruct (sym_eqb call "outbuf"); [data_tac L H|].
  destruct (sym_eqb call "write").
  { destruct args as [|[z|d|s] [|a2 args]]; try (eapply Inv_any_desync; exact H).
    destruct (c_udp (wc w cid)).
    - destruct (negb (c_remote (wc w cid)) && negb (c_opened (wc w cid))); [apply Inv_hr; exact H|].
      destruct (sys "sendto" [AInt (c_fd (wc w cid)); ABytes d; bool_arg (c_remote (wc w cid))] w)
        as [k w1] eqn:Hs.
      assert (H1 : Inv (R0 L) w1) by (eapply good_sys; [apply good_R0| |exact H|exact Hs]; plain_sys_tac).
      destruct k; apply Inv_hr; exact H1.
    - destruct (conn_write f cid d w) as [[n ok] w1] eqn:E.
      apply Inv_hr. eapply Hcw; eauto. }
  destruct (sym_eqb call "writev").
  { destruct (c_udp (wc w cid)); [apply Inv_hr; exact H|].
    destruct (conn_writev f cid (segs_of args) w) as [[n ok] w1] eqn:E.
    apply Inv_hr. eapply Hcwv; eauto. }
  destruct (sym_eqb call "flush").
  { destruct (c_udp (wc w cid)); [apply Inv_hr; exact H|].
    destruct (negb (c_opened (wc w cid))); [apply Inv_hr; exact H|].
    destruct (el_write f cid 0 w) as [r w1] eqn:E.
    pose proof (Hw _ _ _ _ _ _ H E) as H1.
    destruct r; try (apply Inv_hr; exact H1).
    destruct (negb (l_et (st w1)) && c_opened (wc w1 cid) &&
              match c_out (wc w1 cid) with [] => false | _ :: _ => true end); [|apply Inv_hr; exact H1].
    destruct (epctl "mod" (c_fd (wc w1 cid)) true false w1) as [r2 w2] eqn:E2.
    apply Inv_hr. eapply good_epctl; [apply good_R0|exact H1|exact E2]. }
  destruct (sym_eqb call "readfrom"); [data_tac L H|].
  destruct (sym_eqb call "asyncwrite").
  { destruct args as [|[z|d|s] [|cb [|a3 args]]]; try (eapply Inv_any_desync; exact H).
    destruct (c_udp (wc w cid)).
    - match goal with |- context [sys "sendto" ?a ?ww] =>
        destruct (sys "sendto" a ww) as [k w1] eqn:Hs;
        assert (H1 : Inv (R0 L) w1)
          by (eapply good_sys; [apply good_R0| | |exact Hs]; [plain_sys_tac|];
              destruct (negb (c_remote (wc w cid)) && negb (c_opened (wc w cid))); [|exact H];
              apply good_ghost; [apply good_R0|discriminate|discriminate|discriminate|exact H])
      end.
      apply Inv_hr. destruct (flag_of cb); [|exact H1].
      apply good_emit; [apply good_R0|plain_tac|exact H1].
    - destruct (trigger false (TAsyncWrite cid d (flag_of cb)) w) as [r w1] eqn:E.
      apply Inv_hr. eapply Inv_trigger; [exact H| |exact E]. left; exact I. }
  destruct (sym_eqb call "asyncwritev").
  { destruct args as [|cb segs]; [eapply Inv_any_desync; exact H|].
    destruct (c_udp (wc w cid)); [apply Inv_hr; exact H|].
    destruct (trigger false (TAsyncWritev cid (segs_of segs) (flag_of cb)) w) as [r w1] eqn:E.
    apply Inv_hr. eapply Inv_trigger; [exact H| |exact E]. left; exact I. }
  destruct (sym_eqb call "wake").
  { destruct args as [|cb [|a2 args]]; try (eapply Inv_any_desync; exact H).
    destruct (trigger true (TWake cid (flag_of cb)) w) as [r w1] eqn:E.
    apply Inv_hr. eapply Inv_trigger; [exact H| |exact E]. left; exact I. }
  destruct (sym_eqb call "close").
  { destruct args as [|cb [|a2 args]]; try (eapply Inv_any_desync; exact H).
    destruct (trigger true (TClose cid (flag_of cb)) w) as [r w1] eqn:E.
    apply Inv_hr. eapply Inv_trigger; [exact H| |exact E]. left; exact I. }
  destruct (sym_eqb call "elclose").
  { match goal with |- context [el_close f ?t true w] =>
      destruct (el_close f t true w) as [r w1] eqn:E;
      assert (H1 : Inv (R0 L) w1) by (eapply Hc; [exact H|left; reflexivity|exact E]) end.
    apply Inv_hr; exact H1. }
  destruct (sym_eqb call "on").
  { destruct args as [|[t|b1|s1] [|[z|b2|call'] args']]; try (eapply Inv_any_desync; exact H).
    destruct (c_opened (wc w t)); [apply Hhc; exact H|eapply Inv_any_desync; exact H]. }
  eapply Inv_any_desync; exact H.
Qed.

Record Block (f : nat) : Prop := mkBlock {
  b_close : S_close f; b_drain : S_drain f; b_cw : S_cw f; b_cwl : S_cwl f;
  b_cwvl : S_cwvl f; b_cwv : S_cwv f; b_w : S_w f; b_h : S_h f; b_hc : S_hc f
}.

Lemma block_O : Block O.
Proof.
  constructor.
  - intros L cid e dm w r w' H _ He. cbn in He. inversion He; subst. eapply Inv_any_desync; exact H.
  - intros L cid w _ H. cbn. eapply Inv_any_desync; exact H.
  - intros L cid d w r w' H He. cbn in He. inversion He; subst. eapply Inv_any_desync; exact H.
  - intros L cid d n w rn ok w' H He. cbn in He. inversion He; subst. eapply Inv_any_desync; exact H.
  - intros L cid d n w rn ok w' H He. cbn in He. inversion He; subst. eapply Inv_any_desync; exact H.
  - intros L cid d w r w' H He. cbn in He. inversion He; subst. eapply Inv_any_desync; exact H.
  - intros L cid d w r w' H He. cbn in He. inversion He; subst. eapply Inv_any_desync; exact H.
  - intros L cid w r w' H He. cbn in He. inversion He; subst. eapply Inv_any_desync; exact H.
  - intros L cid call args w H. cbn. eapply Inv_any_desync; exact H.
Qed.

Theorem block : forall f, Block f.
Proof.
  induction f as [|f IH]; [exact block_O|]. destruct IH.
  constructor.
  - apply close_step; auto.
  - apply drain_step; auto.
  - apply cw_step; auto.
  - apply cwl_step; auto.
  - apply cwvl_step; auto.
  - apply cwv_step; auto.
  - apply w_step; auto.
  - apply h_step; auto.
  - apply hc_step; auto.
Qed.
