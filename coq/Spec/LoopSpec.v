(* Trace-level specifications of the event-loop properties (C01, C02, C04, C07,
   C08, C18) as executable checkers over the history of a run of Model/Loop.v:
   the chronological list of inputs consumed (EIn) and outputs produced (EOut),
   ghost markers included.  Each checker folds a small state over the history
   and answers [true] iff the property held at every point of it.  The theorems
   (Proofs/Loop*.v, Properties/C0x.v) say: for EVERY input stream -- every kernel
   behaviour, handler script, request arrival order and fault sequence -- the
   history of the run satisfies the checker. *)
From GV Require Import Lib.Trace Model.Loop.
Open Scope string_scope.
Open Scope list_scope.
Open Scope Z_scope.

(* finite maps over Z as association lists (Model/Loop.v: alookup/aset) *)
Definition getd {A} (d : A) (k : Z) (m : list (Z * A)) : A :=
  match alookup k m with Some v => v | None => d end.

Fixpoint is_prefix (p l : list Z) : bool :=
  match p, l with
  | [], _ => true
  | x :: p', y :: l' => (x =? y) && is_prefix p' l'
  | _ :: _, [] => false
  end.

(* generic fold with failure *)
(* A `desync` output is the model's monitor reporting that the ENVIRONMENT left its
   contract (a kernel result that no kernel produces, a malformed script): the run ends
   there and nothing after it is demanded. *)
Definition is_desync (e : ev) : bool :=
  match e with EOut l => String.eqb (fst l) "desync" | EIn _ => false end.

Fixpoint check {S} (step : S -> ev -> option S) (s : S) (t : list ev) : bool :=
  match t with
  | [] => true
  | e :: r => if is_desync e then true else
              match step s e with Some s' => check step s' r | None => false end
  end.

(* ------------------------------------------------------------------ *)
(* C04: per-connection callback lifecycle  open . traffic* . close *)

Inductive phase := PNew | POpen | PClosed.

Definition lc_step (m : list (Z * phase)) (e : ev) : option (list (Z * phase)) :=
  match e with
  | EOut ("cb", ASym k :: AInt cid :: _) =>
      let p := getd PNew cid m in
      if sym_eqb k "open" then
        match p with PNew => Some (aset cid POpen m) | _ => None end
      else if sym_eqb k "traffic" then
        match p with POpen => Some m | _ => None end
      else if sym_eqb k "close" then
        match p with POpen => Some (aset cid PClosed m) | _ => None end
      else Some m
  | _ => Some m
  end.

Definition lifecycle_ok (t : list ev) : bool := check lc_step [] t.

(* ... and between events the registry holds exactly the connections that are open *)
Definition count_open (m : list (Z * phase)) : Z :=
  zlen (filter (fun kv => match snd kv with POpen => true | _ => false end) m).

Definition count_step (m : list (Z * phase)) (e : ev) : option (list (Z * phase)) :=
  match e with
  | EOut ("g", [ASym "count"; AInt n; _]) => if n =? count_open m then Some m else None
  | _ => lc_step m e
  end.

Definition count_ok (t : list ev) : bool := check count_step [] t.

(* ------------------------------------------------------------------ *)
(* C07: every system call of the loop names a descriptor the framework owns.
   The ledger: descriptors handed to the loop (accept results, sockets coming with
   registration requests) until the loop closes them; listeners and the eventfd
   are owned for the whole run.  `last` remembers the call whose result is next. *)

Record fdst := mkFd0 {
  f_owned : list Z;
  f_static : list Z;           (* eventfd and listeners *)
  f_last : option (string * Z);   (* pending call: name, fd *)
  f_dead : bool;               (* the kernel broke its contract (handed out a descriptor twice) *)
}.
Definition mkFd (o st : list Z) (l : option (string * Z)) : fdst := mkFd0 o st l false.

Definition zmem (x : Z) (l : list Z) : bool := existsb (fun y => x =? y) l.
Definition zrem (x : Z) (l : list Z) : list Z := filter (fun y => negb (x =? y)) l.

Definition fd_step (s : fdst) (e : ev) : option fdst :=
  let owns fd := zmem fd (f_owned s) || zmem fd (f_static s) in
  let fresh fd := if owns fd then mkFd0 (f_owned s) (f_static s) None true
                  else mkFd (fd :: f_owned s) (f_static s) (f_last s) in
  if f_dead s then Some s else
  match e with
  | EOut ("sys", ASym name :: AInt fd :: rest) =>
      if sym_eqb name "epctl" then Some s    (* shape: epctl <op> <fd> .. handled below *)
      else if owns fd then Some (mkFd (f_owned s) (f_static s) (Some (name, fd))) else None
  | EOut ("sys", ASym name :: ASym op :: AInt fd :: _) =>
      if owns fd then Some (mkFd (f_owned s) (f_static s) (Some (name, fd))) else None
  | EIn ("r", ASym name :: AInt n :: _) =>
      match f_last s with
      | Some (nm, fd) =>
          if sym_eqb nm "close" then Some (mkFd (zrem fd (f_owned s)) (f_static s) None)
          else if sym_eqb nm "accept" && (0 <=? n) then
            (* the kernel never returns a descriptor that is still open *)
            Some (let s' := fresh n in mkFd0 (f_owned s') (f_static s') None (f_dead s'))
          else Some (mkFd (f_owned s) (f_static s) None)
      | None => Some s
      end
  | EIn ("accepted", [AInt fd]) => Some (fresh fd)
  | EIn ("enroll", AInt fd :: _) => Some (fresh fd)
  | EIn ("dial", AInt fd :: _) => Some (fresh fd)
  | _ => Some s
  end.

Definition fd_ok (static : list Z) (t : list ev) : bool :=
  check fd_step (mkFd [] static None) t.

(* the same ledger, but tolerating `epoll_ctl(DEL)` on a descriptor that is not owned:
   the "stale event" branch of the reactor (a recorded finding) *)
Definition fd_step_stale (s : fdst) (e : ev) : option fdst :=
  match e with
  | EOut ("sys", [ASym "epctl"; ASym "del"; AInt fd; _; _]) =>
      Some (mkFd0 (f_owned s) (f_static s) (Some ("epctl", fd)) (f_dead s))
  | EOut ("g", [ASym "staleudp"; AInt _; _]) =>
      (* second recorded finding: AsyncWrite on a closed connected-UDP connection; the send that follows is exempt *)
      Some (mkFd0 (f_owned s) (f_static s) (Some ("staleudp", 0)) (f_dead s))
  | EOut ("sys", [ASym "sendto"; AInt fd; _; _]) =>
      match f_last s with
      | Some (nm, _) => if sym_eqb nm "staleudp" then Some (mkFd0 (f_owned s) (f_static s) (Some ("sendto", fd)) (f_dead s)) else fd_step s e
      | None => fd_step s e
      end
  | _ => fd_step s e
  end.

Definition fd_ok_but_stale_del (static : list Z) (t : list ev) : bool :=
  check fd_step_stale (mkFd [] static None) t.

(* ------------------------------------------------------------------ *)
(* C01: inbound integrity.  Per connection: the bytes delivered by the kernel and not
   yet consumed by the handler.  Every byte string the handler obtains is the front of
   that rest; consuming calls advance it; InboundBuffered equals its length; a delivery
   is offered to OnTraffic at once. *)

Record inst := mkIn {
  i_rest : list (Z * list Z);     (* cid -> delivered, not yet consumed *)
  i_closed : list Z;              (* connections whose OnClose has started *)
  i_owed : option Z;              (* a delivery to cid must be followed by cb traffic cid *)
}.

Definition in_step (s : inst) (e : ev) : option inst :=
  match e with
  | EOut ("g", [ASym "del"; AInt cid; ABytes d]) =>
      match i_owed s with
      | Some _ => None
      | None => Some (mkIn (aset cid (getd [] cid (i_rest s) ++ d) (i_rest s)) (i_closed s) (Some cid))
      end
  | EOut ("g", [ASym "udpconn"; AInt cid; _]) =>     (* datagram sockets are C08's business *)
      match i_owed s with Some _ => None | None => Some (mkIn (i_rest s) (cid :: i_closed s) None) end
  | EOut ("cb", ASym k :: AInt cid :: _) =>
      match i_owed s with
      | Some c => if (c =? cid) && sym_eqb k "traffic" then Some (mkIn (i_rest s) (i_closed s) None) else None
      | None => if sym_eqb k "close" || sym_eqb k "udp" then Some (mkIn (i_rest s) (cid :: i_closed s) None) else Some s
      end
  | EOut ("hr", AInt cid :: ASym call :: vals) =>
      if zmem cid (i_closed s) then Some s else
      let rest := getd [] cid (i_rest s) in
      let consume (b : list Z) :=
        if is_prefix b rest then Some (mkIn (aset cid (zdrop (zlen b) rest) (i_rest s)) (i_closed s) (i_owed s)) else None in
      if sym_eqb call "read" || sym_eqb call "next" || sym_eqb call "writeto" then
        match vals with ABytes b :: _ => consume b | _ => None end
      else if sym_eqb call "peek" then
        match vals with ABytes b :: _ => if is_prefix b rest then Some s else None | _ => None end
      else if sym_eqb call "discard" then
        match vals with
        | [AInt n] => if (0 <=? n) && (n <=? zlen rest)
                      then Some (mkIn (aset cid (zdrop n rest) (i_rest s)) (i_closed s) (i_owed s)) else None
        | _ => None end
      else if sym_eqb call "inbuf" then
        match vals with [AInt v] => if v =? zlen rest then Some s else None | _ => None end
      else Some s
  | _ => Some s
  end.

Definition inbound_ok (t : list ev) : bool := check in_step (mkIn [] [] None) t.

(* ------------------------------------------------------------------ *)
(* C02: outbound integrity.  Per connection: the bytes submitted by write operations and
   not yet handed to the kernel.  Whatever the kernel accepts is the front of that rest
   (so the peer receives the submitted bytes in order, nothing lost, duplicated or
   interleaved), and OutboundBuffered equals its length while the connection is open. *)

Record outst := mkOut {
  o_rest : list (Z * list Z);
  o_closed : list Z;
}.

Definition out_step (s : outst) (e : ev) : option outst :=
  match e with
  | EOut ("g", [ASym "sub"; AInt cid; ABytes d]) =>
      Some (mkOut (aset cid (getd [] cid (o_rest s) ++ d) (o_rest s)) (o_closed s))
  | EOut ("g", [ASym "hand"; AInt cid; ABytes b]) =>
      if zmem cid (o_closed s) then Some s else
      let rest := getd [] cid (o_rest s) in
      if is_prefix b rest then Some (mkOut (aset cid (zdrop (zlen b) rest) (o_rest s)) (o_closed s)) else None
  | EOut ("cb", [ASym "close"; AInt cid; _]) => Some (mkOut (o_rest s) (cid :: o_closed s))
  | EOut ("g", [ASym "fail"; AInt cid; _]) =>
      (* a fatal result: the connection no longer "stays open until its output has drained" *)
      Some (mkOut (o_rest s) (cid :: o_closed s))
  | EOut ("hr", [AInt cid; ASym "outbuf"; AInt v]) =>
      if zmem cid (o_closed s) then Some s
      else if v =? zlen (getd [] cid (o_rest s)) then Some s else None
  | _ => Some s
  end.

Definition outbound_ok (t : list ev) : bool := check out_step (mkOut [] []) t.

(* ------------------------------------------------------------------ *)
(* C08: UDP.  Every datagram received on a listener is followed at once by exactly one
   callback on a fresh connection identity, carrying the sender's address; what the
   handler reads during that callback is the front of that datagram's payload; nothing
   is carried over (the identity never gets another callback); a Write in the callback
   is one sendto of exactly those bytes. *)

Record udpst := mkU0 {
  u_pending : option (list Z * list arg);   (* datagram just received: payload, source *)
  u_cur : option (Z * list Z);              (* callback in progress: cid, unread payload *)
  u_seen : list Z;                          (* identities already used *)
  u_want_send : option (list Z);            (* a write call whose sendto must follow *)
  u_depth : nat;                            (* callbacks of other connections nested in the datagram callback *)
}.
Definition mkU p c sn ws : udpst := mkU0 p c sn ws O.

Definition udp_step0 (listeners : list Z) (s : udpst) (e : ev) : option udpst :=
  match e with
  | EIn ("r", ASym "recvfrom" :: AInt n :: ABytes d :: src) =>
      if 0 <=? n then Some (mkU (Some (d, src)) (u_cur s) (u_seen s) None) else Some s
  | EOut ("cb", ASym "udp" :: AInt cid :: src) =>
      match u_pending s with
      | Some (d, src') =>
          if zmem cid (u_seen s) then None
          else if (List.length src =? List.length src')%nat then
            Some (mkU None (Some (cid, d)) (cid :: u_seen s) None)
          else None
      | None => None
      end
  | EOut ("g", [ASym "udpconn"; AInt _; _]) =>       (* datagram of a connected client socket *)
      Some (mkU None (u_cur s) (u_seen s) (u_want_send s))
  | EOut ("cb", _) =>
      match u_pending s with Some _ => None | None => Some s end
  | EOut ("hr", AInt cid :: ASym call :: vals) =>
      match u_cur s with
      | Some (c, rest) =>
          if negb (c =? cid) then Some s else
          if sym_eqb call "read" || sym_eqb call "next" || sym_eqb call "writeto" then
            match vals with
            | ABytes b :: _ => if is_prefix b rest then Some (mkU None (Some (c, zdrop (zlen b) rest)) (u_seen s) None) else None
            | _ => None end
          else if sym_eqb call "discard" then
            match vals with
            | [AInt n] => if (0 <=? n) && (n <=? zlen rest) then Some (mkU None (Some (c, zdrop n rest)) (u_seen s) None) else None
            | _ => None end
          else if sym_eqb call "peek" then
            match vals with ABytes b :: _ => if is_prefix b rest then Some s else None | _ => None end
          else if sym_eqb call "inbuf" then
            match vals with [AInt v] => if v =? zlen rest then Some s else None | _ => None end
          else Some s
      | None => Some s
      end
  | EIn ("h", [ASym "write"; ABytes d]) =>
      match u_cur s with
      | Some _ => Some (mkU (u_pending s) (u_cur s) (u_seen s) (Some d))
      | None => Some s
      end
  | EOut ("sys", [ASym "sendto"; AInt fd; ABytes d; _]) =>
      match u_want_send s with
      | Some d' => if is_prefix d d' && is_prefix d' d then Some (mkU (u_pending s) (u_cur s) (u_seen s) None) else None
      | None => Some s
      end
  | EIn ("hret", _) =>
      match u_want_send s with
      | Some _ => None
      | None => Some (mkU (u_pending s) None (u_seen s) None)
      end
  | _ => Some s
  end.

(* callbacks of OTHER connections can nest inside a datagram callback (the handler closes a
   stream connection, whose OnClose runs at once): their lines are not the datagram's *)
Definition udp_step (listeners : list Z) (s : udpst) (e : ev) : option udpst :=
  match u_cur s, u_depth s, e with
  | Some _, O, EOut ("cb", _) =>
      Some (mkU0 (u_pending s) (u_cur s) (u_seen s) (u_want_send s) 1)
  | Some _, S d, EOut ("cb", _) => Some (mkU0 (u_pending s) (u_cur s) (u_seen s) (u_want_send s) (S (S d)))
  | Some _, S d, EIn ("hret", _) => Some (mkU0 (u_pending s) (u_cur s) (u_seen s) (u_want_send s) d)
  | Some _, S d, _ => Some s
  | _, _, _ => udp_step0 listeners s e
  end.

Definition udp_ok (listeners : list Z) (t : list ev) : bool :=
  check (udp_step listeners) (mkU None None [] None) t.

(* ------------------------------------------------------------------ *)
(* C18: fault isolation.  A fatal result of read/write on behalf of an open connection
   (end of stream, or any error other than EAGAIN) is recognised as such at once (ghost
   marker `fail`), after which that connection sees no further OnTraffic and its OnClose
   carries an error.  Transient results (EAGAIN) produce no marker and no callback.  The
   isolation of the OTHER connections is the fact that inbound_ok / outbound_ok /
   lifecycle_ok / fd_ok hold for every input stream, fault results included. *)

Record faultst := mkF {
  ft_conn_call : bool;            (* the pending result belongs to a read/wr on a connection *)
  ft_owed : bool;                 (* a fatal result was consumed: `g fail` must follow *)
  ft_doomed : list Z;
  ft_closed : list Z;
  ft_exempt : bool;
}.

Definition is_eagain_arg (rest : list arg) : bool :=
  match rest with ASym e :: _ => sym_eqb e "eagain" | _ => false end.

Definition fault_step (s : faultst) (e : ev) : option faultst :=
  match e with
  | EOut ("sys", [ASym "read"; AInt _; AInt _]) => Some (mkF true (ft_owed s) (ft_doomed s) (ft_closed s) (ft_exempt s))
  | EOut ("sys", [ASym "wr"; AInt _]) => Some (mkF true (ft_owed s) (ft_doomed s) (ft_closed s) (ft_exempt s))
  | EOut ("sys", _) => if ft_owed s then None else Some (mkF false false (ft_doomed s) (ft_closed s) (ft_exempt s))
  | EIn ("r", ASym "read" :: AInt n :: rest) =>
      if ft_conn_call s then
        let fatal := (n =? 0) || ((n <? 0) && negb (is_eagain_arg rest)) in
        Some (mkF false fatal (ft_doomed s) (ft_closed s) (ft_exempt s))
      else Some s
  | EIn ("r", ASym "wr" :: AInt off :: AInt n :: rest) =>
      let fatal := (n <? 0) && negb (is_eagain_arg rest) in
      Some (mkF false fatal (ft_doomed s) (ft_closed s) (ft_exempt s))
  | EOut ("wdata", _) => Some s
  | EOut ("g", [ASym "fail"; AInt cid; _]) =>
      if ft_owed s then
        Some (mkF false false
                  (if ft_exempt s || zmem cid (ft_closed s) then ft_doomed s else cid :: ft_doomed s)
                  (ft_closed s) (ft_exempt s))
      else None                       (* a failure is only declared on a fatal result *)
  | EOut ("cb", [ASym "traffic"; AInt cid]) =>
      if ft_owed s || zmem cid (ft_doomed s) then None else Some s
  | EOut ("cb", [ASym "close"; AInt cid; ASym k]) =>
      if ft_owed s then None
      else if zmem cid (ft_doomed s) && sym_eqb k "nil" then None
      else Some (mkF (ft_conn_call s) false (zrem cid (ft_doomed s)) (cid :: ft_closed s) (ft_exempt s))
  | EOut _ => if ft_owed s then None else Some s
  | _ => Some s
  end.

Definition fault_ok (t : list ev) : bool := check fault_step (mkF false false [] [] false) t.

(* ------------------------------------------------------------------ *)
(* the history of a run *)

Definition run_history (i : list line) : option (list ev) :=
  match init_world i with
  | None => None
  | Some w => Some (rev (log (polling (init_fuel i) w)))
  end.

Definition statics (i : list line) : list Z :=
  match init_world i with
  | None => []
  | Some w => l_efd (st w) :: map fst (l_listeners (st w))
  end.

(* ------------------------------------------------------------------ *)
(* C02 progress: accepted output is never left without anybody going to send it.
   Whenever the loop is between events (`g pending cid fd n` is emitted for every registered
   connection at the top of each polling iteration) a connection with n > 0 bytes still buffered
   has somebody responsible for them:
   - level-triggered: its epoll registration asks for writability (the last successful
     epoll_ctl ADD/MOD on its descriptor had the write flag), so the poller will call back;
   - edge-triggered: the last write attempt on it ended in EAGAIN (the kernel owes an edge), or a
     write task was queued for it since (`g rearm-write`).
   Outside the property: ReadFrom not followed by Flush (`dirty`), and connections doomed by a
   fatal result. *)

Record progst := mkP {
  p_et : bool;
  p_want_w : list (Z * bool);      (* fd -> write interest of its registration *)
  p_last : option (Z * Z * bool);  (* pending epoll_ctl: fd, op(0 add/1 mod/2 del), rw *)
  p_owed : list Z;                 (* cids whose last write attempt said EAGAIN, or that have a write task queued *)
  p_dirty : list Z;                (* ReadFrom without Flush *)
  p_dead : list Z;                 (* doomed or closed *)
}.

Definition set_owed (s : progst) (o : list Z) : progst :=
  mkP (p_et s) (p_want_w s) (p_last s) o (p_dirty s) (p_dead s).

Definition prog_step (s : progst) (e : ev) : option progst :=
  match e with
  | EOut ("sys", [ASym "epctl"; ASym op; AInt fd; AInt rw; _]) =>
      let o := if sym_eqb op "add" then 0 else if sym_eqb op "mod" then 1 else 2 in
      Some (mkP (p_et s) (p_want_w s) (Some (fd, o, rw =? 1)) (p_owed s) (p_dirty s) (p_dead s))
  | EIn ("r", ASym "epctl" :: AInt n :: _) =>
      match p_last s with
      | Some (fd, o, rw) =>
          let ww := if n <? 0 then p_want_w s
                    else if o =? 2 then aremove fd (p_want_w s) else aset fd rw (p_want_w s) in
          Some (mkP (p_et s) ww None (p_owed s) (p_dirty s) (p_dead s))
      | None => Some s
      end
  | EOut ("sys", [ASym "close"; AInt fd]) =>
      Some (mkP (p_et s) (aremove fd (p_want_w s)) (p_last s) (p_owed s) (p_dirty s) (p_dead s))
  | EOut ("g", [ASym "hand"; AInt cid; _]) => Some (set_owed s (zrem cid (p_owed s)))
  | EOut ("g", [ASym "fail"; AInt cid; _]) =>
      Some (mkP (p_et s) (p_want_w s) (p_last s) (p_owed s) (p_dirty s) (cid :: p_dead s))
  | EOut ("g", [ASym "eagain"; AInt cid; _]) => Some (set_owed s (cid :: p_owed s))
  | EOut ("g", [ASym "rearm-write"; AInt cid; _]) => Some (set_owed s (cid :: p_owed s))
  | EOut ("cb", [ASym "close"; AInt cid; _]) =>
      Some (mkP (p_et s) (p_want_w s) (p_last s) (p_owed s) (p_dirty s) (cid :: p_dead s))
  | EOut ("hr", AInt cid :: ASym call :: vals) =>
      if sym_eqb call "readfrom" then
        Some (mkP (p_et s) (p_want_w s) (p_last s) (p_owed s) (cid :: p_dirty s) (p_dead s))
      else if sym_eqb call "flush" then
        match vals with
        | [ASym r] => if sym_eqb r "nil"
                      then Some (mkP (p_et s) (p_want_w s) (p_last s) (p_owed s) (zrem cid (p_dirty s)) (p_dead s))
                      else Some s
        | _ => Some s
        end
      else Some s
  | EOut ("g", [ASym "pending"; AInt cid; AInt fd; AInt n]) =>
      if (n <=? 0) || zmem cid (p_dead s) || zmem cid (p_dirty s) then Some s
      else if p_et s then (if zmem cid (p_owed s) then Some s else None)
      else (if getd false fd (p_want_w s) then Some s else None)
  | _ => Some s
  end.

Definition out_progress_ok (et : bool) (t : list ev) : bool :=
  check prog_step (mkP et [] None [] [] []) t.

(* C01 progress (edge-triggered): a read that filled the buffer it was given may have left data in
   the socket, and no new edge will announce it: the loop must read again, queue a read task
   (`g rearm-read`), or be closing the connection, before it goes back to waiting. *)

Record rdst := mkR {
  r_cap : Z;                    (* size offered to the pending read *)
  r_full : option Z;            (* cid whose last read filled its buffer and has not been followed up *)
  r_cur : option Z;             (* cid of the delivery in progress *)
}.

Definition rd_step (s : rdst) (e : ev) : option rdst :=
  match e with
  | EOut ("sys", [ASym "read"; AInt fd; AInt cap]) => Some (mkR cap None (r_cur s))
  | EIn ("r", ASym "read" :: AInt n :: _) =>
      Some (mkR (if n =? r_cap s then 1 else 0) (r_full s) (r_cur s))
  | EOut ("g", [ASym "del"; AInt cid; _]) =>
      Some (mkR 0 (if r_cap s =? 1 then Some cid else None) (Some cid))
  | EOut ("g", [ASym "rearm-read"; AInt cid; _]) => Some (mkR (r_cap s) None (r_cur s))
  | EOut ("cb", [ASym "close"; AInt cid; _]) =>
      match r_full s with
      | Some c => if c =? cid then Some (mkR (r_cap s) None (r_cur s)) else Some s
      | None => Some s
      end
  | EOut ("g", [ASym "count"; _; _]) =>
      match r_full s with Some _ => None | None => Some s end
  | _ => Some s
  end.

Definition in_progress_ok (et : bool) (t : list ev) : bool :=
  if et then check rd_step (mkR 0 None None) t else true.

Definition is_et (i : list line) : bool :=
  match init_world i with Some w => l_et (st w) | None => false end.

(* the run never ends for lack of fuel: the bound S (length input) suffices *)
Definition is_fuel_desync (e : ev) : bool :=
  match e with EOut ("desync", [ASym s]) => sym_eqb s "fuel" | _ => false end.
Definition fuel_ok (t : list ev) : bool := negb (existsb is_fuel_desync t).

(* runner used by the correspondence check: the loop's observable output followed by
   the verdict of every checker on the model's own history (the implementation side
   prints the constant verdict 1, so a checker that rejects a real run shows up as a
   correspondence failure) *)
Definition run_loop_chk : runner := fun i =>
  match run_history i with
  | None => [obs "desync" [ASym "no-cfg"]]
  | Some t =>
      out_of t ++
      [obs "chk" [ASym "lifecycle"; bool_arg (lifecycle_ok t)];
       obs "chk" [ASym "fd"; bool_arg (fd_ok_but_stale_del (statics i) t)];
       obs "chk" [ASym "inbound"; bool_arg (inbound_ok t)];
       obs "chk" [ASym "outbound"; bool_arg (outbound_ok t)];
       obs "chk" [ASym "udp"; bool_arg (udp_ok (statics i) t)];
       obs "chk" [ASym "fault"; bool_arg (fault_ok t)];
       obs "chk" [ASym "count"; bool_arg (count_ok t)];
       obs "chk" [ASym "fuel"; bool_arg (fuel_ok t)];
       obs "chk" [ASym "outprogress"; bool_arg (out_progress_ok (is_et i) t)];
       obs "chk" [ASym "inprogress"; bool_arg (in_progress_ok (is_et i) t)]]
  end.
