(* The engine's START sequence and its clean-up, as a resource ledger.

   Hand-written from gnet.go (Run / Rotate: createListeners, the deferred close of the listeners),
   listener_unix.go (initListener),
   engine_unix.go (run, start, runEventLoops, activateReactors, closeEventLoops, closeListeners,
   stop), listener_unix.go (listener.close with its sync.Once) and pkg/netpoll (OpenPoller,
   Poller.Close; both poller variants create and close the same descriptors in the same order).

   What is modelled: which descriptors are created (listener sockets, epoll descriptors, eventfds),
   which calls can fail (epoll_create1, eventfd, epoll_ctl ADD, socket(2) of a listener, the option step
   of initListener: the calls the `startfault` runs of drv-loop make fail), which descriptors are closed on which path, when the loop goroutines are
   started, and what Run returns.  A descriptor is named by its creation index.  Nothing else of the
   engine is here: the running engine is Model/Engine.v and Model/Loop.v.

   The order in which Go iterates over the listener map is not modelled (listeners are taken in
   creation order); the observables compared with the implementation are insensitive to it. *)
From Coq Require Import List Arith Bool.
Import ListNotations.

Inductive kind := KSock | KEpoll | KEfd.
Inductive sysc := SEpoll | SEfd | SAdd | SSock | SOpt.

Definition sysc_eqb (a b : sysc) : bool :=
  match a, b with SEpoll, SEpoll | SEfd, SEfd | SAdd, SAdd | SSock, SSock | SOpt, SOpt => true | _, _ => false end.

(* the index-th call (from 0) of the given kind fails; None: nothing fails *)
Record fault := mkFault { f_call : sysc; f_index : nat }.

Record config := mkCfg {
  c_reuseport : bool;   (* true: runEventLoops (every loop has its own listeners); false: activateReactors *)
  c_nloops : nat;
  c_nlis : nat;         (* listeners created by Run / Rotate *)
  c_fault : option fault;
}.

Record st := mkSt {
  nxt : nat;                       (* next creation index *)
  opn : list (nat * kind);         (* everything ever created, newest first *)
  cls : list nat;                  (* every close(2) issued, newest first *)
  n_epoll : nat; n_efd : nat; n_add : nat; n_sock : nat; n_opt : nat;   (* calls made so far, per injectable kind *)
  gos : nat;                       (* goroutines started *)
}.

Definition st0 : st := mkSt 0 [] [] 0 0 0 0 0 0.

Definition create (k : kind) (s : st) : nat * st :=
  (nxt s, mkSt (S (nxt s)) ((nxt s, k) :: opn s) (cls s) (n_epoll s) (n_efd s) (n_add s) (n_sock s) (n_opt s) (gos s)).

Definition close (id : nat) (s : st) : st :=
  mkSt (nxt s) (opn s) (id :: cls s) (n_epoll s) (n_efd s) (n_add s) (n_sock s) (n_opt s) (gos s).

(* listener.close: sync.Once -- a listener that has been closed is not closed again *)
Definition close_once (id : nat) (s : st) : st :=
  if existsb (Nat.eqb id) (cls s) then s else close id s.

Definition close_all_once (ids : list nat) (s : st) : st := fold_left (fun s id => close_once id s) ids s.

Definition go (n : nat) (s : st) : st :=
  mkSt (nxt s) (opn s) (cls s) (n_epoll s) (n_efd s) (n_add s) (n_sock s) (n_opt s) (gos s + n).

Definition fails (f : option fault) (c : sysc) (n : nat) : bool :=
  match f with Some ft => sysc_eqb (f_call ft) c && Nat.eqb (f_index ft) n | None => false end.

(* one injectable call: returns whether it failed, and the state with the call counted *)
Definition call (f : option fault) (c : sysc) (s : st) : bool * st :=
  match c with
  | SEpoll => (fails f c (n_epoll s), mkSt (nxt s) (opn s) (cls s) (S (n_epoll s)) (n_efd s) (n_add s) (n_sock s) (n_opt s) (gos s))
  | SEfd => (fails f c (n_efd s), mkSt (nxt s) (opn s) (cls s) (n_epoll s) (S (n_efd s)) (n_add s) (n_sock s) (n_opt s) (gos s))
  | SAdd => (fails f c (n_add s), mkSt (nxt s) (opn s) (cls s) (n_epoll s) (n_efd s) (S (n_add s)) (n_sock s) (n_opt s) (gos s))
  | SSock => (fails f c (n_sock s), mkSt (nxt s) (opn s) (cls s) (n_epoll s) (n_efd s) (n_add s) (S (n_sock s)) (n_opt s) (gos s))
  | SOpt => (fails f c (n_opt s), mkSt (nxt s) (opn s) (cls s) (n_epoll s) (n_efd s) (n_add s) (n_sock s) (S (n_opt s)) (gos s))
  end.

(* netpoll.OpenPoller: epoll_create1, eventfd, epoll_ctl ADD of the eventfd; what it created is closed
   again (Poller.Close: the eventfd, then the epoll descriptor) when a later step fails *)
Definition open_poller (f : option fault) (s : st) : st * option (nat * nat) :=
  let '(bad, s1) := call f SEpoll s in
  if bad then (s1, None) else
  let '(ep, s2) := create KEpoll s1 in
  let '(bad, s3) := call f SEfd s2 in
  if bad then (close ep s3, None) else
  let '(ef, s4) := create KEfd s3 in
  let '(bad, s5) := call f SAdd s4 in
  if bad then (close ep (close ef s5), None) else (s5, Some (ep, ef)).

Definition close_poller (p : nat * nat) (s : st) : st := close (fst p) (close (snd p) s).

(* AddRead of every listener of a loop; stops at the first failure *)
Fixpoint add_reads (f : option fault) (lns : list nat) (s : st) : st * bool :=
  match lns with
  | [] => (s, true)
  | _ :: r => let '(bad, s1) := call f SAdd s in if bad then (s1, false) else add_reads f r s1
  end.

(* initListener for n addresses, one after the other: socket(2) may fail; the listeners created before the
   failing one are returned together with the flag (what the caller does with them is the caller's part) *)
Fixpoint create_socks (f : option fault) (n : nat) (s : st) : list nat * st * bool :=
  match n with
  | O => ([], s, true)
  | S m =>
      let '(bad, s0) := call f SSock s in
      if bad then ([], s0, false) else
      let '(id, s1) := create KSock s0 in
      (* the options applied to the open listener (TCP keep-alive): when that fails, initListener closes the
         listener it has just opened and reports the error *)
      let '(bad2, s1') := call f SOpt s1 in
      if bad2 then ([], close id s1', false) else
      let '(ids, s2, ok) := create_socks f m s1' in (id :: ids, s2, ok)
  end.

(* a registered event loop: its listeners and its poller *)
Definition loopr := (list nat * (nat * nat))%type.

(* runEventLoops: loop i > 0 gets its own SO_REUSEPORT listeners; a loop is registered with the
   engine BEFORE its listeners are armed (fix a32188d), so that closeEventLoops finds it *)
Fixpoint run_event_loops (f : option fault) (L : list nat) (todo : nat) (first : bool)
                         (regs : list loopr) (s : st) : st * list loopr * bool :=
  match todo with
  | O => (s, regs, true)
  | S m =>
      let '(lns, s0, oks) := if first then (L, s, true) else create_socks f (List.length L) s in
      if negb oks then (close_all_once lns s0, regs, false) else   (* closeListeners(lns); return err *)
      let '(s1, op) := open_poller f s0 in
      match op with
      | None => ((if first then s1 else close_all_once lns s1), regs, false)
      | Some p =>
          let regs1 := regs ++ [(lns, p)] in
          let '(s2, ok) := add_reads f lns s1 in
          if ok then run_event_loops f L m false regs1 s2 else (s2, regs1, false)
      end
  end.

(* activateReactors: the sub-reactors share the engine's listeners and get a poller each; then the
   main reactor's poller; then the listeners are armed on it; goroutines are started last (fix 89130c4) *)
Fixpoint open_subs (f : option fault) (L : list nat) (todo : nat) (regs : list loopr) (s : st)
  : st * list loopr * bool :=
  match todo with
  | O => (s, regs, true)
  | S m =>
      let '(s1, op) := open_poller f s in
      match op with
      | None => (s1, regs, false)
      | Some p => open_subs f L m (regs ++ [(L, p)]) s1
      end
  end.

Definition activate_reactors (f : option fault) (L : list nat) (n : nat) (s : st)
  : st * list loopr * option (nat * nat) * bool :=
  let '(s1, regs, ok) := open_subs f L n [] s in
  if negb ok then (s1, regs, None, false) else
  let '(s2, op) := open_poller f s1 in
  match op with
  | None => (s2, regs, None, false)
  | Some p =>
      let '(s3, ok3) := add_reads f L s2 in
      (s3, regs, Some p, ok3)
  end.

(* closeEventLoops: the listeners (once each) and the poller of every registered loop; then, if the
   main reactor exists, the engine's listeners and its poller *)
Definition close_event_loops (regs : list loopr) (ingress : option (nat * nat)) (L : list nat) (s : st) : st :=
  let s1 := fold_left (fun s (r : loopr) => close_poller (snd r) (close_all_once (fst r) s)) regs s in
  match ingress with
  | Some p => close_poller p (close_all_once L s1)
  | None => s1
  end.

Inductive outcome := Failed | Started.

(* Run / Rotate up to the moment it returns: the listeners are created, the engine is started; a
   failing start is cleaned up and reported; a successful one runs until it is stopped (the running
   phase is not modelled here), then everything is closed.  The deferred close of Run's own
   listeners comes last in both cases. *)
Definition run (c : config) : st * outcome :=
  let f := c_fault c in
  let '(L, s0, okl) := create_socks f (c_nlis c) st0 in
  (* createListeners: an address whose listener cannot be created ends Run / Rotate with the error, after the
     listeners created for the earlier addresses have been closed again *)
  if negb okl then (close_all_once L s0, Failed) else
  if c_reuseport c then
    let '(s1, regs, ok) := run_event_loops f L (c_nloops c) true [] s0 in
    if ok then
      let s2 := go (List.length regs) s1 in
      (close_all_once L (close_event_loops regs None L s2), Started)
    else (close_all_once L (close_event_loops regs None L s1), Failed)
  else
    let '(s1, regs, ing, ok) := activate_reactors f L (c_nloops c) s0 in
    if ok then
      let s2 := go (S (List.length regs)) s1 in
      (close_all_once L (close_event_loops regs ing L s2), Started)
    else (close_all_once L (close_event_loops regs ing L s1), Failed).

(* the state at the moment a failing start has returned to run() -- before any clean-up: used to
   say that no goroutine has been started by then *)
Definition after_start (c : config) : st * bool :=
  let f := c_fault c in
  let '(L, s0, okl) := create_socks f (c_nlis c) st0 in
  if negb okl then (s0, false) else
  if c_reuseport c then
    let '(s1, _, ok) := run_event_loops f L (c_nloops c) true [] s0 in (s1, ok)
  else
    let '(s1, _, _, ok) := activate_reactors f L (c_nloops c) s0 in (s1, ok).

(* ---- observables *)
Definition leaked (s : st) : list nat :=
  filter (fun id => negb (existsb (Nat.eqb id) (cls s))) (map fst (opn s)).

Definition count_kind (k : kind) (s : st) : nat :=
  List.length (filter (fun p : nat * kind => match snd p, k with
                                            | KSock, KSock | KEpoll, KEpoll | KEfd, KEfd => true
                                            | _, _ => false end) (opn s)).

Fixpoint dup_closes (l : list nat) : nat :=
  match l with
  | [] => 0
  | x :: r => (if existsb (Nat.eqb x) r then 1 else 0) + dup_closes r
  end.

(* ---- a gnet.Client: Client.Start opens one poller per event loop (no listeners), registering each
   loop as it goes; a failing OpenPoller ends the start with closeEventLoops (the pollers of the
   loops registered so far) and the error; the loop goroutines are started only after the last
   poller is open.  Client.Stop ends with the same closeEventLoops. *)
Definition run_client (n : nat) (f : option fault) : st * outcome :=
  let '(s1, regs, ok) := open_subs f [] n [] st0 in
  if ok then (close_event_loops regs None [] (go (List.length regs) s1), Started)
  else (close_event_loops regs None [] s1, Failed).

Definition after_client_start (n : nat) (f : option fault) : st * bool :=
  let '(s1, _, ok) := open_subs f [] n [] st0 in (s1, ok).
