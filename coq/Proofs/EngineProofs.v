(* The theorems behind C19 (control API state machine) and C06 (graceful shutdown)
   about Model/Engine.v, assembled from the invariants of EngineInv / EngineHist /
   EngineConns / EngineWorkers / EngineProgress. *)
From GV Require Import Lib.Trace Lib.Interleave Model.Engine Proofs.EngineBase Proofs.EngineInv Proofs.EngineHist
  Proofs.EngineConns Proofs.EngineWorkers Proofs.EngineProgress.
From Coq Require Import Lia List Bool Arith ZArith.
Import ListNotations.
Open Scope list_scope.

(* ================================================================== *)
(* C19 *)

(* the table of the property, as equations about the pure control functions *)
Theorem control_table :
  (* a handle that was never started *)
  (validate PEmpty = REmpty /\
   (forall n, count_conns PEmpty n = RCount (-1)) /\
   (forall nl lo, dup_res PEmpty nl lo = REmpty) /\
   (forall f lo, dup_listener_res PEmpty f lo = REmpty) /\
   (forall st t, register_res PEmpty st t = (REmpty, None)) /\
   stop_entry PEmpty = Some REmpty) /\
  (* a running engine (also while it is shutting down) accepts the calls *)
  (forall p, p = PRunning \/ p = PStopping ->
   validate p = RNil /\
   (forall n, count_conns p n = RCount n) /\
   (forall nl, (nl <= 1)%Z -> dup_res p nl true = RNil) /\
   dup_listener_res p true true = RNil /\
   register_res p true TgtAddr = (RNil, Some true) /\
   register_res p true TgtConn = (RNil, Some true) /\
   stop_entry p = None) /\
  (* once shutdown has completed *)
  (validate PShutdown = RInShutdown /\
   (forall n, count_conns PShutdown n = RCount (-1)) /\
   (forall nl lo, dup_res PShutdown nl lo = RInShutdown) /\
   (forall f lo, dup_listener_res PShutdown f lo = RInShutdown) /\
   (forall st t, register_res PShutdown st t = (RInShutdown, None)) /\
   (forall a, el_register_res true a = (RInShutdown, None)) /\
   (forall a, el_enroll_res true a = (RInShutdown, None)) /\
   (forall a f, execute_res true a f = (RInShutdown, false)) /\
   stop_entry PShutdown = Some RInShutdown).
Proof.
  splits; try reflexivity; intros; try reflexivity.
  - destruct H as [-> | ->]; splits; try reflexivity; intros; cbn;
      try (destruct (1 <? nl)%Z eqn:E; [apply Z.ltb_lt in E; lia|reflexivity]).
Qed.

(* the step function answers every control call with these functions, evaluated on
   the phase of the state in which the call is made *)
Theorem calls_follow_table : forall s g, get_user s g = Some UIdle ->
  estep_opt s (TU g) (CCall KValidate) = Some (s, [(TU g, KRes (validate (phase_s s)))]) /\
  estep_opt s (TU g) (CCall KCount) = Some (s, [(TU g, KRes (count_conns (phase_s s) (total_conns s)))]) /\
  estep_opt s (TU g) (CCall KDup) = Some (s, [(TU g, KRes (dup_res (phase_s s) (c_nlis (e_cfg s)) (lis_open s)))]) /\
  (forall f, estep_opt s (TU g) (CCall (KDupListener f)) =
             Some (s, [(TU g, KRes (dup_listener_res (phase_s s) f (lis_open s)))])) /\
  (forall t li l, get_loop s li = Some l ->
     estep_opt s (TU g) (CCall (KRegister t li)) =
     match register_res (phase_s s) (e_started s) t with
     | (r, Some dial) => Some (new_worker s li dial, [(TU g, KRes r)])
     | (r, None) => Some (s, [(TU g, KRes r)])
     end) /\
  (forall e, estep_opt s (TU g) (CCall (KStop e)) =
     match stop_entry (phase_s s) with
     | Some r => Some (s, [(TU g, KRes r)])
     | None => Some (put_user (set_cancel s true) g (UStopPoll e false), [])
     end).
Proof.
  intros s g Hu. cbn [estep_opt]. unfold ustep. rewrite Hu. splits; try reflexivity.
  - intros t li l Hl. unfold do_call. destruct (register_res (phase_s s) (e_started s) t) as [r [d|]]; [rewrite Hl|]; reflexivity.
Qed.

(* the client's own control calls: Dial / Enroll on a client that was never started (no event
   loop registered) and on one that has been stopped are refused and change nothing; on a running
   client they queue exactly one register task and wait for it; a further Client.Stop on a stopped
   client is refused and changes nothing (in particular it closes no descriptor again) *)
Theorem client_calls_follow_state : forall s g, get_user s g = Some UIdle -> c_client (e_cfg s) = true ->
  (e_started s = false -> forall li,
     estep_opt s (TU g) (CCall (KCliEnroll li false)) = Some (s, [(TU g, KRes REmpty)])) /\
  (e_started s = true -> e_insd s = true -> forall li,
     estep_opt s (TU g) (CCall (KCliEnroll li false)) = Some (s, [(TU g, KRes RInShutdown)])) /\
  (e_started s = true -> e_insd s = false -> forall li l, get_loop s li = Some l ->
     estep_opt s (TU g) (CCall (KCliEnroll li false)) =
       Some (put_user (set_next (trigger s li (TReg (e_next s) (OUser g))) (e_next s + 1)) g (UEnrollWait false), [])) /\
  (e_insd s = true -> estep_opt s (TU g) (CCall KCliStop) = Some (s, [(TU g, KRes RInShutdown)])) /\
  (e_insd s = false -> estep_opt s (TU g) (CCall KCliStop) = None).
Proof.
  intros s g Hu Hc. cbn [estep_opt]. unfold ustep. rewrite Hu. unfold do_call. rewrite Hc. cbn [andb].
  splits.
  - intros Hs li. rewrite Hs. reflexivity.
  - intros Hs Hi li. rewrite Hs, Hi. reflexivity.
  - intros Hs Hi li l Hl. rewrite Hs, Hi, Hl. reflexivity.
  - intros Hi. rewrite Hi. reflexivity.
  - intros Hi. rewrite Hi. reflexivity.
Qed.

(* invalid arguments are rejected with the documented errors (on a running engine) *)
Theorem invalid_args :
  (forall p, p = PRunning \/ p = PStopping -> register_res p true TgtNone = (RInvalidAddr, None)) /\
  el_register_res false true = (RInvalidAddr, None) /\
  el_enroll_res false true = (RInvalidConn, None) /\
  (forall f, execute_res false true f = (RNilRunnable, false)) /\
  (forall p nl lo, p = PRunning \/ p = PStopping -> (1 < nl)%Z -> dup_res p nl lo = RUnsupported) /\
  (forall p lo, p = PRunning \/ p = PStopping -> dup_listener_res p false lo = RInvalidAddr).
Proof.
  splits; try reflexivity; intros.
  - destruct H as [-> | ->]; reflexivity.
  - destruct H as [-> | ->]; cbn; apply Z.ltb_lt in H0; rewrite H0; reflexivity.
  - destruct H as [-> | ->]; reflexivity.
Qed.

(* after shutdown (and on a handle that was never started) the calls have no effect *)
Theorem no_effect_after_shutdown : forall s g k s' evs,
  phase_s s = PShutdown \/ phase_s s = PEmpty ->
  get_user s g = Some UIdle ->
  match k with KValidate | KCount | KDup | KDupListener _ | KRegister _ _ | KStop _ => True | _ => False end ->
  estep_opt s (TU g) (CCall k) = Some (s', evs) -> s' = s.
Proof.
  intros s g k s' evs Hp Hu Hk H. cbn [estep_opt] in H. unfold ustep in H. rewrite Hu in H. unfold do_call in H.
  destruct k; try contradiction; try (injection H as <- _; reflexivity).
  - destruct Hp as [Hp|Hp]; rewrite Hp in H; cbn in H; injection H as <- _; reflexivity.
  - destruct Hp as [Hp|Hp]; rewrite Hp in H; cbn in H; injection H as <- _; reflexivity.
Qed.

Theorem double_stop_harmless : forall s g e,
  phase_s s = PShutdown -> get_user s g = Some UIdle ->
  estep_opt s (TU g) (CCall (KStop e)) = Some (s, [(TU g, KRes RInShutdown)]).
Proof.
  intros s g e Hp Hu. cbn [estep_opt]. unfold ustep. rewrite Hu. unfold do_call. rewrite Hp. reflexivity.
Qed.

(* inShutdown, cancellation and the handle are never taken back *)
Ltac mono_fin := frame_fin; splits; auto; intros; try congruence.

Lemma flags_monotone_step : forall s t c s' evs, estep_opt s t c = Some (s', evs) ->
  (e_cancel s = true -> e_cancel s' = true) /\ (e_insd s = true -> e_insd s' = true) /\
  (e_alloc s = true -> e_alloc s' = true) /\ e_cfg s' = e_cfg s.
Proof.
  intros s t c s' evs H. destruct t; cbn in H.
  - unfold rstep in H. destruct (e_r s); destruct c; try discriminate H; cbv beta iota in H; step_cases H; mono_fin.
  - unfold lstep in H. destruct (get_loop s i); [|discriminate]. step_cases H; mono_fin.
  - unfold astep in H. step_cases H; mono_fin.
  - unfold tstep in H. step_cases H; mono_fin.
  - unfold ustep in H. destruct (get_user s g); [|discriminate].
    destruct u as [|ex pk|op].
    + destruct c; try discriminate H. unfold do_call in H. destruct c; step_cases H; mono_fin.
    + destruct c; try discriminate H; step_cases H; mono_fin.
    + step_cases H; mono_fin.
  - unfold wstep in H. step_cases H; mono_fin.
Qed.

Theorem shutdown_is_final : forall s tr s', exec (fun_step estep) s tr s' ->
  (e_cancel s = true -> e_cancel s' = true) /\ (e_insd s = true -> e_insd s' = true) /\
  (phase_s s = PShutdown -> phase_s s' = PShutdown).
Proof.
  intros s tr s' H.
  assert (G : (e_cancel s = true -> e_cancel s' = true) /\ (e_insd s = true -> e_insd s' = true) /\
              (e_alloc s = true -> e_alloc s' = true) /\ e_cfg s' = e_cfg s).
  { induction H as [s|s tr s1 [[t c] o] s2 He IH Hs]; [auto|].
    destruct IH as [I1 [I2 [I3 I4]]].
    unfold fun_step, estep in Hs; cbn in Hs.
    destruct (estep_opt s1 t c) as [[s3 evs]|] eqn:E; injection Hs as <- _; [|auto].
    destruct (flags_monotone_step _ _ _ _ _ E) as [F1 [F2 [F3 F4]]].
    cbn [push set_hist e_cancel e_insd e_alloc e_cfg]. splits; auto; congruence. }
  destruct G as [G1 [G2 [G3 G4]]]. splits; auto.
  unfold phase_s, phase_of. rewrite G4.
  destruct (e_alloc s) eqn:Ea; cbn; [|discriminate].
  destruct (c_nlis (e_cfg s) <=? 0)%Z; [discriminate|].
  destruct (e_insd s) eqn:Ei; [|destruct (e_cancel s); discriminate].
  intros _. rewrite (G3 eq_refl), (G2 eq_refl). reflexivity.
Qed.

(* Engine.Stop / gnet.Stop: nil only with inShutdown set, the context's error only if the
   context has ended; in both cases, and while it polls, the shutdown goes on *)
Theorem stop_result : forall s g e p c s' evs, ereachable s ->
  get_user s g = Some (UStopPoll e p) -> estep_opt s (TU g) c = Some (s', evs) ->
  e_cancel s = true /\ e_cancel s' = true /\
  (In (TU g, KRes RNil) evs -> e_insd s = true) /\
  (In (TU g, KRes RCtxErr) evs -> e = true) /\
  (forall r, In (TU g, KRes r) evs -> r = RNil \/ r = RCtxErr).
Proof.
  intros s g e p c s' evs Hr Hu H.
  assert (Hc : e_cancel s = true) by (eapply (ip_users _ (inv_pc_reachable _ Hr)); exact Hu).
  split; [exact Hc|]. split; [exact (proj1 (flags_monotone_step _ _ _ _ _ H) Hc)|].
  cbn [estep_opt] in H. unfold ustep in H. rewrite Hu in H.
  destruct c; try discriminate H; step_cases H; cbn; splits; try tauto;
    try (intros [X|[]]; inversion X; auto); try (intros ? [X|[]]; inversion X; auto).
Qed.

Theorem stop_starts_shutdown : forall s g e s' evs,
  get_user s g = Some UIdle -> stop_entry (phase_s s) = None ->
  estep_opt s (TU g) (CCall (KStop e)) = Some (s', evs) ->
  e_cancel s' = true /\ evs = [] /\ get_user s' g = Some (UStopPoll e false).
Proof.
  intros s g e s' evs Hu Hp H. cbn [estep_opt] in H. unfold ustep in H. rewrite Hu in H. unfold do_call in H.
  rewrite Hp in H. injection H as <- <-. splits; try reflexivity.
  unfold get_user, put_user; cbn. unfold get_user in Hu. erewrite nth_error_upd_same; [reflexivity|exact Hu].
Qed.

(* Register / Enroll: at most one RegisteredResult per accepted call, exactly one once the worker is done *)
Theorem one_result : forall s k w, ereachable s -> nth_error (e_workers s) k = Some w ->
  count_results k (e_hist s) = w_res w /\ (w_res w = 0 \/ w_res w = 1)%Z /\ (w_res w = 1%Z <-> w_pc w = WDone).
Proof. intros s k w Hr Hk. exact (proj1 (inv_w_reachable _ Hr) k w Hk). Qed.

(* ================================================================== *)
(* C06 *)

Lemma nlive_zero : forall s cid, Forall (fun l => l_conns l = []) (e_loops s) -> nlive s cid = 0%Z.
Proof.
  intros s cid H. unfold nlive, zsum. induction H as [|l r Hl _ IH]; cbn; [reflexivity|]. rewrite Hl, IH. reflexivity.
Qed.

Lemma conns_empty_at_return : forall s, Inv_pc s -> (e_r s = RReturn \/ e_r s = RReturned) ->
  Forall (fun l => l_conns l = []) (e_loops s).
Proof.
  intros s HI Hr. pose proof (ip_quiet _ HI) as Hq.
  destruct (e_started s) eqn:Es.
  - destruct (ip_after _ HI) as [Hex _]; [destruct Hr as [-> | ->]; rewrite ?Es; reflexivity|].
    rewrite Forall_forall in *. intros l Hl. apply (Hq l Hl). right; right. exact (Hex l Hl).
  - destruct (ip_unstarted _ HI Es) as [Hid _].
    rewrite Forall_forall in *. intros l Hl. apply (Hq l Hl). left. exact (Hid l Hl).
Qed.

(* every connection is opened at most once and closed at most as often as opened; when Run
   (Client.Stop) is about to return and after it has returned, every opened connection has
   received its single OnClose *)
Theorem all_closed_before_return : forall s cid, ereachable s ->
  (opens cid (e_hist s) <= 1)%Z /\ (closes cid (e_hist s) <= opens cid (e_hist s))%Z /\
  ((e_r s = RReturn \/ e_r s = RReturned) -> closes cid (e_hist s) = opens cid (e_hist s)).
Proof.
  intros s cid Hr. pose proof (inv_c_reachable _ Hr) as HC. pose proof (inv_pc_reachable _ Hr) as HP.
  destruct HC as [Hn HC]. destruct (HC cid) as [H1 H2].
  pose proof (nlive_nonneg s cid). pose proof (npend_nonneg s cid). pose proof (closes_nonneg cid (e_hist s)).
  assert (in_range cid (e_next s) <= 1)%Z by (unfold in_range; destruct ((0 <=? cid)%Z && (cid <? e_next s)%Z); lia).
  splits; try lia.
  intros Hret. rewrite (nlive_zero s cid (conns_empty_at_return s HP Hret)) in H2. lia.
Qed.

(* OnShutdown: at most once; exactly once by the time Run returns iff the engine was started *)
Theorem onshutdown_once : forall s, ereachable s ->
  (onshutdowns (e_hist s) <= 1)%Z /\
  (returned s = true -> onshutdowns (e_hist s) = if e_started s then 1%Z else 0%Z).
Proof.
  intros s Hr. assert (Inv_pc s /\ Inv_h s) as [HP [Hsd _ _]].
  { revert s Hr. apply engine_invariant.
    - intros. split; [apply Inv_pc_init|apply Inv_h_init].
    - intros s t c s' evs Hr [HP HH] H. split.
      + apply (inv_pc_reachable _ (ereachable_step _ _ _ _ _ Hr H)).
      + eapply Inv_h_step; eauto. }
  rewrite Hsd. split; [destruct (rb_past_sd (e_r s) (e_started s)); lia|].
  unfold returned. destruct (e_r s); try discriminate. intros _. reflexivity.
Qed.

Lemma inv_h_reachable : forall s, ereachable s -> Inv_h s.
Proof.
  intros s Hr. assert (Inv_pc s /\ Inv_h s) as [_ H]; [|exact H].
  revert s Hr. apply engine_invariant.
  - intros. split; [apply Inv_pc_init|apply Inv_h_init].
  - intros s t c s' evs Hr [HP HH] H. split.
    + apply (inv_pc_reachable _ (ereachable_step _ _ _ _ _ Hr H)).
    + eapply Inv_h_step; eauto.
Qed.

(* Run returns at most once, and no callback event is newer than the return *)
Theorem no_callback_after_return : forall s, ereachable s ->
  no_cb_after_ret (e_hist s) = true /\ (returns (e_hist s) <= 1)%Z /\
  (returned s = true <-> returns (e_hist s) = 1%Z).
Proof.
  intros s Hr. destruct (inv_h_reachable _ Hr) as [_ Hret Hn]. splits; auto.
  - rewrite Hret. destruct (returned s); lia.
  - rewrite Hret. destruct (returned s); split; auto; discriminate.
Qed.

(* once Run has returned no thread can run a callback any more *)
Theorem no_callback_enabled_after_return : forall s t c s' evs, ereachable s -> returned s = true ->
  estep_opt s t c = Some (s', evs) -> Forall (fun e => is_cb (snd e) = false) evs.
Proof. intros. eapply returned_no_cb; eauto. apply inv_pc_reachable; assumption. Qed.

(* a Shutdown action returned from OnBoot makes Run return at once without starting anything *)
Theorem onboot_shutdown : forall s, c_client (e_cfg s) = false -> e_r s = RBooted AShut ->
  estep_opt s TR CNone = Some (set_r s RReturned, [(TR, KRet)]) /\
  (ereachable s -> e_started s = false /\
     Forall (fun l => l_pc l = LIdle) (e_loops s) /\ l_pc (e_ing s) = LIdle /\ e_t s = TIdle).
Proof.
  intros s Hc Hr. split.
  - cbn. unfold rstep. rewrite Hr, Hc. reflexivity.
  - intros Hre. pose proof (inv_pc_reachable _ Hre) as HI.
    assert (Hs : e_started s = false) by (apply (unstarted_at _ HI); rewrite Hr; reflexivity).
    destruct (ip_unstarted _ HI Hs) as [H1 [H2 [H3 _]]]. auto.
Qed.

(* the measure theorem: the engine's own steps decrease it, any step adds at most one,
   and before the return some engine step is enabled: hence the number of engine steps
   after a request is bounded by the measure plus the number of other steps *)
Theorem shutdown_variant :
  (forall s t c s' evs, ereachable s -> estep_opt s t c = Some (s', evs) ->
     is_progress s t c = true -> (measure (push evs s') < measure s)%nat) /\
  (forall s t c s' evs, ereachable s -> estep_opt s t c = Some (s', evs) ->
     (measure (push evs s') <= measure s + 1)%nat) /\
  (forall s, ereachable s -> shutdown_requested s -> returned s = false -> e_r s <> R0 ->
     exists t c, is_progress s t c = true /\ enabled s t c) /\
  (forall s p o s', ereachable s -> pexec s p o s' -> (p + measure s' <= measure s + o)%nat).
Proof.
  splits.
  - intros. eapply progress_decreases; eauto. apply inv_pc_reachable; assumption.
  - intros. eapply step_bound; eauto. apply inv_pc_reachable; assumption.
  - intros. eapply no_stuck; eauto. apply inv_pc_reachable; assumption.
  - intros. eapply shutdown_bounded; eauto.
Qed.
