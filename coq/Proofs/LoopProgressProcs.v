(* C01 / C02 progress, part 2: the mutually recursive procedures. *)
From Coq Require Import Lia ZArith ZifyBool.
From GV Require Import Lib.Trace Model.Loop Spec.LoopSpec Proofs.LoopDataLib Proofs.LoopProgressBlock.
Open Scope string_scope.
Open Scope list_scope.
Open Scope Z_scope.

Section ET.
Variable et : bool.
Notation QINV := (Inv ustep (qstep et) tt (q0 et)).
Notation RQ := (RQ et).

Ltac qoign := apply qign_out_ign; repeat split; reflexivity.
Ltac dsync := eapply Q_desync; eassumption.

(* assertions under which a connection may be closed: only that connection is exempt *)
Definition okx (xa : qxa) (cid : Z) : Prop :=
  (forall c0, exempt xa c0 -> c0 = cid) /\ (forall c0, xa <> QRegd c0).

Lemma okx_none : forall cid, okx QNone cid.
Proof. intros cid. split; [intros c0 []|discriminate]. Qed.
Lemma okx_x : forall cid, okx (QX cid) cid.
Proof. intros cid. split; [cbn; auto|discriminate]. Qed.
Lemma okx_xf : forall cid fd, okx (QXf cid fd) cid.
Proof. intros cid fd. split; [cbn; auto|discriminate]. Qed.

(* the close callback is announced *)
Lemma RQ_close : forall W ops rf u p b s cid e xa, okx xa cid ->
  RQ W ops xa rf u (p, b) s ->
  c_opened (getc s cid) = true -> alookup (c_fd (getc s cid)) (l_reg s) <> None ->
  exists x', qstep et (p, b) (EOut (obs "cb" [ASym "close"; AInt cid; e])) = Some x' /\
  RQ (cid :: W) ops QNone rf u x' (set_reg s (aremove (c_fd (getc s cid)) (l_reg s))).
Proof.
  intros W ops rf u p b s cid e xa Hxa HR Ho Hr.
  set (p' := mkP (p_et p) (p_want_w p) (p_last p) (p_owed p) (p_dirty p) (cid :: p_dead p)).
  set (b' := if et then match r_full b with
                        | Some c => if c =? cid then mkR (r_cap b) None (r_cur b) else b
                        | None => b end else b).
  exists (p', b'). split.
  { unfold qstep, rdx, obs. cbn [fst snd prog_step]. subst b'. destruct et; [|reflexivity].
    cbn [rd_step]. destruct (r_full b) as [c|]; [destruct (c =? cid)|]; reflexivity. }
  pose proof (RQ_dead_add _ _ _ _ _ _ _ _ _ cid HR) as HD. fold p' in HD.
  assert (Hnr : forall c, xa <> QRegd c) by (exact (proj2 Hxa)).
  destruct HD as [R1 R2 R3 R4 R5 R6 R7 R8 R9 R10 R11 R12 R13]. cbn [fst snd] in *.
  assert (Hdc : pdead p' cid = true) by (unfold pdead, p'; cbn [p_dead]; rewrite zmem_cons, Z.eqb_refl; reflexivity).
  constructor; cbn [fst snd set_reg l_reg l_next l_et]; auto.
  - intros c. rewrite getc_set_reg. intros Ho0. rewrite alookup_aremove.
    destruct (Z.eqb_spec (c_fd (getc s c)) (c_fd (getc s cid))) as [Ef|Nf].
    + right. split; [reflexivity|].
      destruct (R5 _ Ho0) as [A|[A B]]; [|right; exact B].
      destruct (R5 _ Ho) as [C|[C _]]; [|congruence].
      rewrite Ef in A. rewrite A in C. inversion C. left. reflexivity.
    + destruct (R5 _ Ho0) as [A|[A B]]; [left; exact A|right; split; [exact A|right; exact B]].
  - intros fd c H. apply in_aremove in H. destruct H as [H N]. destruct (R6 _ _ H) as (A & B & C). split; [exact A|].
    rewrite alookup_aremove, getc_set_reg. replace (fd =? c_fd (getc s cid)) with false by lia. auto.
  - intros fd c H D. apply in_aremove in H. destruct H as [H N]. rewrite getc_set_reg.
    destruct (R7 _ _ H D) as [A|[A|A]]; auto. exfalso. eapply Hnr; eauto.
  - intros c [<-|H]; rewrite getc_set_reg, alookup_aremove.
    + rewrite Z.eqb_refl. auto.
    + destruct (R8 _ H) as (A & B & C). rewrite B. destruct (_ =? _); auto.
  - intros fd c H. apply in_aremove in H. destruct H as [H N]. rewrite getc_set_reg. intros A D E F _.
    apply (R11 fd c H A D E F). intros Ex. apply (proj1 Hxa) in Ex. subst c. rewrite Hdc in D. discriminate.
  - intros Het. subst b'. rewrite Het. destruct (R12 Het) as [A|(c & A & B & C & D)].
    + left. rewrite A. exact A.
    + rewrite B. destruct (Z.eqb_spec c cid) as [->|N]; [left; reflexivity|].
      right. exists c. rewrite getc_set_reg. repeat split; auto. intros [E|E]; [congruence|auto].
  - exact I.
Qed.

Lemma RQ_release : forall W ops rf u x s cid,
  RQ (cid :: W) ops QNone rf u x s ->
  RQ W ops (QNoReg (c_fd (getc s cid))) rf u x (setc s cid (c_release (getc s cid))).
Proof.
  intros W ops rf u [p b] s cid [R1 R2 R3 R4 R5 R6 R7 R8 R9 R10 R11 R12 R13]. cbn [fst snd] in *.
  destruct (R8 cid (or_introl eq_refl)) as (Hdead & Hnr & Hlt).
  assert (Hrel : c_opened (c_release (getc s cid)) = false) by (unfold c_release; destruct (c_udp (getc s cid)); reflexivity).
  assert (Hfd : c_fd (c_release (getc s cid)) = c_fd (getc s cid)) by (unfold c_release; destruct (c_udp (getc s cid)); reflexivity).
  assert (Hud : c_udp (c_release (getc s cid)) = c_udp (getc s cid)) by (unfold c_release; destruct (c_udp (getc s cid)) eqn:Eu; cbn [c_udp]; congruence).
  constructor; cbn [fst snd setc l_reg l_next l_et]; auto.
  - intros c. rewrite getc_setc. destruct (Z.eqb_spec c cid) as [->|N]; [congruence|auto].
  - intros c. rewrite getc_setc. destruct (Z.eqb_spec c cid) as [->|N]; [congruence|].
    intros Ho. destruct (R5 _ Ho) as [A|[A [B|B]]]; [left; exact A|congruence|right; auto].
  - intros fd c H. destruct (R6 _ _ H) as (A & B & C). rewrite getc_setc.
    destruct (Z.eqb_spec c cid) as [->|N]; [rewrite Hfd|]; auto.
  - intros fd c H D. rewrite getc_setc. destruct (Z.eqb_spec c cid) as [->|N]; [congruence|eauto].
    destruct (R7 _ _ H D) as [A|[A|A]]; auto. discriminate.
  - intros c H. rewrite getc_setc. destruct (R8 c (or_intror H)) as (A & B & C).
    destruct (Z.eqb_spec c cid) as [->|N]; [rewrite Hfd|]; auto.
  - intros c fd H. destruct (R9 _ _ H) as (A & B & C). rewrite getc_setc.
    destruct (Z.eqb_spec c cid) as [->|N]; [rewrite Hfd; auto|auto].
  - intros c. rewrite getc_setc. destruct (Z.eqb_spec c cid) as [->|N]; [intros; congruence|auto].
  - intros fd c H. rewrite getc_setc. destruct (Z.eqb_spec c cid) as [->|N]; [intros; congruence|].
    intros A D E F _. apply (R11 fd c H A D E F). cbn. tauto.
  - intros Het. destruct (R12 Het) as [A|(c & A & B & C & D)]; [left; exact A|].
    right. exists c. rewrite getc_setc. destruct (Z.eqb_spec c cid) as [->|N]; [exfalso; apply D; left; reflexivity|].
    repeat split; auto. intros H. apply D. right. exact H.
Qed.

Record MQ (f : nat) : Prop := mkMQ {
  mq_close : forall cid e w r w' W ops rf xa, okx xa cid ->
      QINV (RQ W ops xa rf) w -> el_close f cid e w = (r, w') -> QINV (RQ W ops QNone rf) w';
  mq_drain : forall cid w W ops rf, In cid W -> QINV (RQ W ops QNone rf) w -> QINV (RQ W ops QNone rf) (close_drain f cid w);
  mq_write : forall cid d w r w' W ops rf, QINV (RQ W ops QNone rf) w -> conn_write f cid d w = (r, w') -> QINV (RQ W ops QNone rf) w';
  mq_wloop : forall cid d n w r w' W ops rf fd o, QINV (RQ W ops (QE cid fd o) rf) w ->
      conn_write_loop f cid d n w = (r, w') ->
      exists xa, okx xa cid /\ (snd r = true -> xa = QNone) /\ QINV (RQ W ops xa rf) w';
  mq_wvloop : forall cid sg n w r w' W ops rf fd o, QINV (RQ W ops (QE cid fd o) rf) w ->
      conn_writev_loop f cid sg n w = (r, w') ->
      exists xa, okx xa cid /\ (snd r = true -> xa = QNone) /\ QINV (RQ W ops xa rf) w';
  mq_writev : forall cid sg w r w' W ops rf, QINV (RQ W ops QNone rf) w -> conn_writev f cid sg w = (r, w') -> QINV (RQ W ops QNone rf) w';
  mq_elwrite : forall cid sent w r w' W ops rf xa, xa = QNone \/ xa = QX cid ->
      QINV (RQ W ops xa rf) w -> el_write f cid sent w = (r, w') -> QINV (RQ W ops QNone rf) w';
  mq_handler : forall cid w r w' W ops rf, QINV (RQ W ops QNone rf) w -> handler f cid w = (r, w') -> QINV (RQ W ops QNone rf) w';
  mq_hcall : forall cid call args w W ops rf, QINV (RQ W ops QNone rf) w -> QINV (RQ W ops QNone rf) (hcall f cid call args w)
}.

(* dropping the exemption of a connection for which nothing is demanded *)
Lemma Q_unexempt_if : forall W ops rf w c,
  (forall u p b, RQ W ops (QX c) rf u (p, b) (st w) ->
     forall fd, In (fd, c) (l_reg (st w)) -> c_udp (wc w c) = false -> pdead p c = false -> pdirty p c = false ->
     c_out (wc w c) <> [] -> served et p fd c) ->
  QINV (RQ W ops (QX c) rf) w -> QINV (RQ W ops QNone rf) w.
Proof. intros W ops rf w c H HI. eapply (Q_unexempt et W ops (QX c) rf w c); [cbn; auto|discriminate|exact H|exact HI]. Qed.

Lemma Q_unexempt_dead : forall W ops rf w c, In c W ->
  QINV (RQ W ops (QX c) rf) w -> QINV (RQ W ops QNone rf) w.
Proof.
  intros W ops rf w c Hin HI. apply (Q_unexempt_if W ops rf w c); [|exact HI].
  intros u p b HR fd _ _ D. destruct (q_W _ _ _ _ _ _ _ _ HR c Hin) as [A _]. cbn [fst] in A. congruence.
Qed.

Lemma Q_unexempt_empty : forall W ops rf w c, c_out (wc w c) = [] ->
  QINV (RQ W ops (QX c) rf) w -> QINV (RQ W ops QNone rf) w.
Proof. intros W ops rf w c He HI. apply (Q_unexempt_if W ops rf w c); [|exact HI]. intros u p b HR fd _ _ _ _ N. congruence. Qed.

Lemma Q_unexempt_closed : forall W ops rf w c, c_opened (wc w c) = false ->
  QINV (RQ W ops (QX c) rf) w -> QINV (RQ W ops QNone rf) w.
Proof.
  intros W ops rf w c Ho HI. apply (Q_unexempt_if W ops rf w c); [|exact HI].
  intros u p b HR fd Hin Hu D _ _. unfold wc in *.
  destruct (q_regop _ _ _ _ _ _ _ _ HR fd c Hin D) as [A|[A|A]]; [congruence|congruence|discriminate].
Qed.

(* one connection's c_out changes while it is exempt *)
Lemma Q_set_out_x : forall W ops rf w c o,
  (c_out (wc w c) = [] -> o = []) ->
  QINV (RQ W ops (QX c) rf) w -> QINV (RQ W ops (QX c) rf) (wsetc w c (c_set_out (wc w c) o)).
Proof.
  intros W ops rf w c o Ho HI. eapply Inv_wsetc; [exact HI|]. intros [] [p b] _ HR. unfold wc in *.
  apply RQ_setc; auto; cbn [c_set_out c_opened c_udp c_out c_fd].
  - intros A B D E. apply Ho. apply (q_nop _ _ _ _ _ _ _ _ HR); assumption.
  - intros fd _ _ _ _ _ G. exfalso. apply G. reflexivity.
  - discriminate.
  - discriminate.
Qed.

Lemma close_drain_S : forall f, MQ f -> forall cid w W ops rf, In cid W ->
  QINV (RQ W ops QNone rf) w -> QINV (RQ W ops QNone rf) (close_drain (S f) cid w).
Proof.
  intros f M cid w W ops rf Hin HI. cbn [close_drain].
  destruct (c_out (wc w cid)) as [|b0 l0] eqn:Eout; [exact HI|]. rewrite <- Eout.
  pose proof (Q_exempt _ _ _ _ _ cid HI) as HX.
  destruct (sys_wr cid _ _ false w) as [k w1] eqn:Es.
  pose proof (Q_sys_wr_gen et W ops rf (QX cid) (QX cid) (QX cid) (QX cid) cid _ _ _ _ _ _
    ltac:(intros bs w0 _ H0; refine (Q_hand _ _ _ (QX cid) _ cid bs _ _ H0); intros _; left; reflexivity)
    ltac:(intros w0 _ H0; exact (Q_owed _ _ _ _ _ "eagain" cid _ (or_introl eq_refl) H0))
    ltac:(intros w0 _ H0; exact (Q_fail _ _ _ _ _ cid _ H0)) HX Es) as H1.
  destruct k as [n extra|e|].
  - destruct H1 as [_ H1]. apply (mq_drain _ M); [exact Hin|].
    apply (Q_unexempt_dead W ops rf _ cid); [exact Hin|]. apply Q_set_out_x; [|exact H1]. intros ->. apply zdrop_nil.
  - assert (H1' : QINV (RQ W ops (QX cid) rf) w1) by (destruct (is_eagain e); exact H1).
    apply (Q_unexempt_dead W ops rf _ cid); assumption.
  - apply Q_dead. exact H1.
Qed.

Lemma Q_ops_weaken : forall W ops ops' xa rf w, (forall c, In c ops' -> In c ops) ->
  QINV (RQ W ops xa rf) w -> QINV (RQ W ops' xa rf) w.
Proof.
  intros W ops ops' xa rf w Hs HI. eapply Q_weaken; [|exact HI]. intros u x HR.
  destruct HR as [R1 R2 R3 R4 R5 R6 R7 R8 R9 R10 R11 R12 R13]. constructor; auto.
Qed.

Lemma Q_ops_add : forall W ops xa rf w c, c_opened (wc w c) = true ->
  QINV (RQ W ops xa rf) w -> QINV (RQ W ((c, c_fd (wc w c)) :: ops) xa rf) w.
Proof.
  intros W ops xa rf w c Ho HI. eapply Q_weaken; [|exact HI]. intros u x HR.
  pose proof (q_opn _ _ _ _ _ _ _ _ HR c Ho) as Hlt.
  destruct HR as [R1 R2 R3 R4 R5 R6 R7 R8 R9 R10 R11 R12 R13]. constructor; auto.
  intros c0 fd [E|H]; [inversion E; subst; unfold wc in *; auto|auto].
Qed.

Lemma el_close_S : forall f, MQ f -> forall cid e w r w' W ops rf xa, okx xa cid ->
  QINV (RQ W ops xa rf) w -> el_close (S f) cid e w = (r, w') -> QINV (RQ W ops QNone rf) w'.
Proof.
  intros f M cid e w r w' W ops rf xa Hxa HI E. cbn [el_close] in E.
  assert (Hnoop : c_opened (wc w cid) = false \/ alookup (c_fd (wc w cid)) (l_reg (st w)) = None ->
                  QINV (RQ W ops QNone rf) w).
  { intros Hg. apply (Q_unexempt et W ops xa rf w cid (proj1 Hxa) (proj2 Hxa)); [|exact HI].
    intros u p b HR fd Hin Hu D _ _. exfalso. unfold wc in *.
    assert (Hq : forall A, xa = QRegd cid -> A) by (intros A Q; exfalso; eapply (proj2 Hxa); eauto).
    destruct (q_regop _ _ _ _ _ _ _ _ HR fd cid Hin D) as [A|[A|A]]; [|congruence|apply Hq; exact A].
    destruct (q_reg _ _ _ _ _ _ _ _ HR cid A) as [B|[B C]].
    - destruct Hg; congruence.
    - destruct (q_W _ _ _ _ _ _ _ _ HR cid C) as [D' _]. cbn [fst] in *. congruence. }
  destruct (c_opened (wc w cid)) eqn:Eo; cbn [negb orb] in E; [|inversion E; subst; apply Hnoop; auto].
  destruct (alookup (c_fd (wc w cid)) (l_reg (st w))) as [rc|] eqn:Er; [|inversion E; subst; apply Hnoop; auto].
  clear Hnoop.
  set (w2 := emit _ (with_st w _)) in E.
  assert (H2 : QINV (RQ (cid :: W) ops QNone rf) w2).
  { subst w2. eapply Inv_set_emit; [exact HI|reflexivity|].
    intros [] [p b] _ HR. cbn [ustep]. unfold wc in *.
    destruct (RQ_close _ _ _ _ _ _ _ cid (err_sym e) xa Hxa HR Eo) as [x' [Ex HR']]; [congruence|]. eauto. }
  clearbody w2.
  destruct (handler f cid w2) as [[act rep] w3] eqn:Eh.
  pose proof (mq_handler _ M _ _ _ _ _ _ _ H2 Eh) as H3.
  assert (HinW : In cid (cid :: W)) by (left; reflexivity).
  pose proof (mq_drain _ M cid _ _ _ _ HinW H3) as H4.
  set (w4 := close_drain f cid w3) in *. clearbody w4.
  set (fd4 := c_fd (wc w4 cid)) in *.
  assert (H5 : QINV (RQ W ops (QNoReg fd4) rf) (wsetc w4 cid (c_release (wc w4 cid)))).
  { eapply Inv_wsetc; [exact H4|]. intros [] x _ HR. apply RQ_release. exact HR. }
  assert (Hfree : forall u p b s, RQ W ops (QNoReg fd4) rf u (p, b) s ->
     forall c, In (fd4, c) (l_reg s) -> c_udp (getc s c) = false -> pdead p c = false -> c_out (getc s c) <> [] -> False).
  { intros u p b s HR c Hin _ _ _. pose proof (q_x _ _ _ _ _ _ _ _ HR) as X. cbn [qsem] in X.
    eapply noreg_free; eauto. }
  destruct (epctl "del" _ false false _) as [r0 w6] eqn:E6.
  pose proof (Q_epctl_free _ _ _ _ _ _ _ _ _ _ _ _ Hfree H5 E6) as H6.
  destruct (sys "close" _ w6) as [k1 w7] eqn:E7.
  pose proof (Q_sys_close _ _ _ _ _ _ _ _ _ Hfree H6 E7) as H7.
  assert (H7' : QINV (RQ W ops QNone rf) w7) by (eapply Q_xa_drop; [| |exact H7]; [intros c []|intros; discriminate]).
  destruct (match r0 with RNil => _ | _ => true end); [inversion E; subst; exact H7'|].
  destruct act; [inversion E; subst; exact H7'| |inversion E; subst; exact H7'].
  eapply (mq_close _ M); [apply okx_none|exact H7'|exact E].
Qed.

(* ------------------------------------------------------------------ *)
(* the write loops *)

Lemma Q_reanchor : forall W ops rf c fd o w,
  QINV (RQ W ops (QE c fd o) rf) w -> QINV (RQ W ops (QE c (c_fd (wc w c)) o) rf) w.
Proof.
  intros W ops rf c fd o w HI. eapply (Q_xa_weaken et W ops (QE c fd o)); [intros; discriminate|intros c0 []| |exact HI].
  intros u x HR. pose proof (q_x _ _ _ _ _ _ _ _ HR) as X. cbn [qsem] in *. unfold wc. tauto.
Qed.

(* the buffer of a connection inside a write is filled: it is exempt until somebody answers for it *)
Lemma Q_fill_x : forall W ops rf c fd o out w,
  QINV (RQ W ops (QE c fd o) rf) w ->
  QINV (RQ W ops (QXf c fd) rf) (wsetc w c (c_set_out (wc w c) out)).
Proof.
  intros W ops rf c fd o out w HI. eapply Inv_wsetc; [exact HI|]. intros [] [p b] _ HR. unfold wc.
  pose proof (q_x _ _ _ _ _ _ _ _ HR) as X. cbn [qsem fst] in X. destruct X as (X1 & X2 & X3 & X4 & X5).
  assert (HR1 : RQ W ops (QXf c fd) rf tt (p, b) (st w)).
  { eapply RQ_xa_weaken; [exact HR|discriminate|intros c0 []|]. cbn [qsem fst]. auto. }
  apply RQ_setc; auto; cbn [c_set_out c_opened c_udp c_fd c_out].
  - intros A _ D _. destruct X5 as [E|E]; [congruence|]. unfold pdead in D. congruence.
  - intros fd0 _ _ _ _ _ G. exfalso. apply G. reflexivity.
  - discriminate.
  - discriminate.
Qed.

Lemma Q_fill_et : forall W ops rf c fd out w, l_et (st w) = true ->
  QINV (RQ W ops (QE c fd true) rf) w ->
  QINV (RQ W ops QNone rf) (wsetc w c (c_set_out (wc w c) out)).
Proof.
  intros W ops rf c fd out w Hb HI.
  pose proof (Q_fill_x _ _ _ _ _ _ out _ HI) as H1.
  (* redo it keeping the owed flag *)
  clear H1. eapply Inv_wsetc; [exact HI|]. intros [] [p b] _ HR. unfold wc.
  pose proof (q_x _ _ _ _ _ _ _ _ HR) as X. cbn [qsem fst] in X. destruct X as (X1 & X2 & X3 & X4 & X5).
  assert (HR1 : RQ W ops (QXf c fd) rf tt (p, b) (st w)).
  { eapply RQ_xa_weaken; [exact HR|discriminate|intros c0 []|]. cbn [qsem fst]. auto. }
  eapply (RQ_unexempt et _ _ (QXf c fd) _ _ _ _ _ c); [|cbn; auto|discriminate|].
  - apply RQ_setc; auto; cbn [c_set_out c_opened c_udp c_fd c_out].
    + intros A _ D _. destruct X5 as [E|E]; [congruence|]. unfold pdead in D. congruence.
    + intros fd0 _ _ _ _ _ G. exfalso. apply G. reflexivity.
    + discriminate.
    + discriminate.
  - intros fd0 _ _ _ _ _. unfold served. destruct (q_et _ _ _ _ _ _ _ _ HR) as [E _]. rewrite <- E, Hb. auto.
Qed.

(* write interest registered for an exempt connection (level-triggered) *)
Lemma Q_arm_x : forall W ops rf c fd op e w r w', op_code op <> 2 -> l_et (st w) = false ->
  QINV (RQ W ops (QXf c fd) rf) w -> epctl op fd true e w = (r, w') ->
  QINV (RQ W ops (match r with RNil => QNone | _ => QXf c fd end) rf) w'.
Proof.
  intros W ops rf c fd op e w r w' Hop Hb HI E.
  pose proof (Q_epctl_arm _ _ _ _ _ _ _ _ _ _ _ Hop HI E) as H.
  pose proof (epctl_et _ _ _ _ _ _ _ E) as Hm.
  eapply Inv_weaken; [|exact H]. intros [] [p b] Hh [HR Hw]. cbn [fst] in Hw.
  destruct r; try exact HR.
  eapply (RQ_unexempt et _ _ (QXf c fd) _ _ _ _ _ c); [exact HR|cbn; auto|discriminate|].
  intros fd0 Hin _ _ _ _. unfold served.
  destruct (q_et _ _ _ _ _ _ _ _ HR) as [E1 _]. assert (Het : et = false) by congruence. rewrite Het.
  pose proof (q_x _ _ _ _ _ _ _ _ HR) as X. cbn [qsem] in X. destruct X as (_ & X2 & _).
  destruct (q_reglt _ _ _ _ _ _ _ _ HR _ _ Hin) as (_ & _ & F). rewrite F in X2. subst fd0.
  apply Hw; auto.
Qed.

Lemma Q_qe_drop : forall W ops rf c fd o w, QINV (RQ W ops (QE c fd o) rf) w -> QINV (RQ W ops QNone rf) w.
Proof. intros W ops rf c fd o w HI. eapply (Q_xa_drop et W ops (QE c fd o)); [intros c0 []|discriminate|exact HI]. Qed.


Lemma st_wsetc_et : forall w c c', l_et (st (wsetc w c c')) = l_et (st w).
Proof. reflexivity. Qed.

(* the common tail of both loops after the kernel took part of the data or said EAGAIN:
   the rest is appended to the outbound buffer and, level-triggered, write interest requested *)
Lemma loop_tail : forall W ops rf cid fd o (b : bool) n out w1 r w',
  l_et (st w1) = b -> (b = true -> o = true) ->
  QINV (RQ W ops (QE cid fd o) rf) w1 ->
  (if b then ((n, true), wsetc w1 cid (c_set_out (wc w1 cid) out))
   else let '(r3, w3) := epctl "mod" fd true b (wsetc w1 cid (c_set_out (wc w1 cid) out)) in
        ((n, match r3 with RNil => true | _ => false end), w3)) = (r, w') ->
  exists xa, okx xa cid /\ (snd r = true -> xa = QNone) /\ QINV (RQ W ops xa rf) w'.
Proof.
  intros W ops rf cid fd o b n out w1 r w' Hb Ho H1 E. destruct b.
  - inversion E; subst. exists QNone. split; [apply okx_none|]. split; [auto|].
    rewrite (Ho eq_refl) in H1. eapply Q_fill_et; eauto.
  - destruct (epctl "mod" _ true false _) as [r3 w3] eqn:E3. inversion E; subst.
    pose proof (Q_fill_x _ _ _ _ _ _ out _ H1) as H2.
    assert (Hop : op_code "mod" <> 2) by (cbn; discriminate).
    pose proof (Q_arm_x W ops rf cid fd "mod" false _ _ _ Hop Hb H2 E3) as H3.
    destruct r3.
    + exists QNone. split; [apply okx_none|]. split; [auto|exact H3].
    + exists (QXf cid fd). split; [apply okx_xf|]. split; [discriminate|exact H3].
    + exists (QXf cid fd). split; [apply okx_xf|]. split; [discriminate|exact H3].
    + exists (QXf cid fd). split; [apply okx_xf|]. split; [discriminate|exact H3].
Qed.

Lemma conn_write_loop_S : forall f, MQ f -> forall cid d n w r w' W ops rf fd o,
  QINV (RQ W ops (QE cid fd o) rf) w -> conn_write_loop (S f) cid d n w = (r, w') ->
  exists xa, okx xa cid /\ (snd r = true -> xa = QNone) /\ QINV (RQ W ops xa rf) w'.
Proof.
  intros f M cid d n w r w' W ops rf fd0 o HI0 E. cbn [conn_write_loop] in E.
  pose proof (Q_reanchor _ _ _ _ _ _ _ HI0) as HI. clear HI0. set (fd := c_fd (wc w cid)) in *.
  destruct (sys_wr cid _ d true w) as [k w1] eqn:Es.
  pose proof (Q_sys_wr_E _ _ _ _ _ _ _ _ _ _ _ _ _ HI Es) as H1.
  pose proof (sys_wr_et _ _ _ _ _ _ _ Es) as Hm1.
  destruct k as [sent extra|e|].
  - destruct H1 as [Hn H1].
    destruct (zdrop sent d) as [|b0 l0] eqn:Ed.
    { inversion E; subst. exists QNone. split; [apply okx_none|]. split; [auto|]. eapply Q_qe_drop; exact H1. }
    rewrite <- Ed in *.
    destruct (l_et (st w)) eqn:Eb; [eapply (mq_wloop _ M); eauto|].
    eapply (loop_tail W ops rf cid fd false false n _ w1); [congruence|discriminate|exact H1|exact E].
  - destruct (is_eagain e).
    + eapply (loop_tail W ops rf cid fd true (l_et (st w)) n _ w1); [exact Hm1|auto|exact H1|].
      destruct (l_et (st w)); exact E.
    + inversion E; subst. exists QNone. split; [apply okx_none|]. split; [auto|]. eapply Q_qe_drop; exact H1.
  - inversion E; subst. exists QNone. split; [apply okx_none|]. split; [auto|]. apply Q_dead. exact H1.
Qed.

Lemma conn_writev_loop_S : forall f, MQ f -> forall cid sg n w r w' W ops rf fd o,
  QINV (RQ W ops (QE cid fd o) rf) w -> conn_writev_loop (S f) cid sg n w = (r, w') ->
  exists xa, okx xa cid /\ (snd r = true -> xa = QNone) /\ QINV (RQ W ops xa rf) w'.
Proof.
  intros f M cid sg n w r w' W ops rf fd0 o HI0 E. cbn [conn_writev_loop] in E.
  pose proof (Q_reanchor _ _ _ _ _ _ _ HI0) as HI. clear HI0. set (fd := c_fd (wc w cid)) in *.
  destruct (sys_wr cid _ _ true w) as [k w1] eqn:Es.
  pose proof (Q_sys_wr_E _ _ _ _ _ _ _ _ _ _ _ _ _ HI Es) as H1.
  pose proof (sys_wr_et _ _ _ _ _ _ _ Es) as Hm1.
  destruct k as [sent extra|e|].
  - destruct H1 as [Hn H1].
    destruct (List.concat (drop_sent sent sg)) as [|b0 l0] eqn:Ed.
    { inversion E; subst. exists QNone. split; [apply okx_none|]. split; [auto|]. eapply Q_qe_drop; exact H1. }
    rewrite <- Ed in *.
    destruct (l_et (st w)) eqn:Eb; [eapply (mq_wvloop _ M); eauto|].
    eapply (loop_tail W ops rf cid fd false false n _ w1); [congruence|discriminate|exact H1|exact E].
  - destruct (is_eagain e).
    + eapply (loop_tail W ops rf cid fd true (l_et (st w)) n _ w1); [exact Hm1|auto|exact H1|].
      destruct (l_et (st w)); exact E.
    + inversion E; subst. exists QNone. split; [apply okx_none|]. split; [auto|]. eapply Q_qe_drop; exact H1.
  - inversion E; subst. exists QNone. split; [apply okx_none|]. split; [auto|]. apply Q_dead. exact H1.
Qed.
