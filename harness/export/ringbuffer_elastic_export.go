//go:build verif

//verif:target pkg/pool/ringbuffer/export_verif_elastic.go

package ringbuffer

import "sync/atomic"

// VerifSeed replaces the builtin pool by a fresh, empty one whose next Get
// returns rb (rb == nil: ring.New(defaultSize), the stock path of an empty
// pool).  The capacity of a pooled ring buffer is a policy the C10 property
// does not constrain; the driver chooses it and records it as a model input.
// Put and every later Get are the stock code.
func VerifSeed(rb *RingBuffer, defaultSize int) {
	builtinPool = Pool{defaultSize: uint64(defaultSize)}
	next := rb
	builtinPool.pool.New = func() interface{} {
		if next == nil {
			return nil
		}
		r := next
		next = nil
		return r
	}
}

// VerifDefaultSize is the size an empty builtin pool passes to ring.New.
func VerifDefaultSize() int { return int(atomic.LoadUint64(&builtinPool.defaultSize)) }
