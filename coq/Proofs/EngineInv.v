(* The life-cycle invariant of the engine model: relations between the program
   counters of the threads and the flags (cancel, inShutdown, started). *)
From GV Require Import Lib.Trace Lib.Interleave Model.Engine Proofs.EngineBase.
From Coq Require Import Lia List Bool Arith.
Import ListNotations.
Open Scope list_scope.

Definition exited (l : loop) : Prop := l_pc l = LExited.

Definition quiet_pc (l : loop) : Prop :=
  (l_pc l = LIdle \/ l_pc l = LTurnOff \/ l_pc l = LExited) -> l_conns l = [].

(* the loop is on its way out, or will be as soon as it runs its queue *)
Definition gone (l : loop) : Prop :=
  match l_pc l with
  | LClosing | LTurnOff | LExited => True
  | LPoll => has_shut (l_q l) = true
  | LIdle => False
  end.

Definition rb_after_wait (r : rpc) (st : bool) : bool :=
  match r with RClosePollers | RStoreInsd | RReturn => true | RReturned => st | _ => false end.

Definition rb_cancelled (r : rpc) (st : bool) : bool :=
  match r with RNotify _ | RWait | RCancelled => true | _ => rb_after_wait r st end.

Definition rb_unstarted_ok (r : rpc) : bool := match r with R0 | RBooted _ | RReturned => true | _ => false end.
Definition rb_started_ok (r : rpc) : bool := match r with R0 | RBooted _ => false | _ => true end.
Definition rb_insd_ok (r : rpc) : bool := match r with RReturn | RReturned => true | _ => false end.

Record Inv_pc (s : estate) : Prop := mkInvPc {
  ip_quiet : Forall quiet_pc (e_loops s);
  ip_ing_conns : l_conns (e_ing s) = [];
  ip_unstarted : e_started s = false ->
     Forall (fun l => l_pc l = LIdle) (e_loops s) /\ l_pc (e_ing s) = LIdle /\ e_t s = TIdle /\
     e_insd s = false /\ rb_unstarted_ok (e_r s) = true;
  ip_started : e_started s = true ->
     Forall (fun l => l_pc l <> LIdle) (e_loops s) /\
     (c_reactor (e_cfg s) = true -> l_pc (e_ing s) <> LIdle) /\
     (c_ticker (e_cfg s) = true -> e_t s <> TIdle) /\
     rb_started_ok (e_r s) = true;
  ip_noreactor : c_reactor (e_cfg s) = false -> l_pc (e_ing s) = LIdle;
  ip_noticker : c_ticker (e_cfg s) = false -> e_t s = TIdle;
  ip_cancel : rb_cancelled (e_r s) (e_started s) = true -> e_cancel s = true;
  ip_notify : forall k, e_r s = RNotify k ->
     (k <= List.length (e_loops s))%nat /\
     forall i l, (i < k)%nat -> nth_error (e_loops s) i = Some l -> gone l;
  ip_wait : e_r s = RWait -> Forall gone (e_loops s) /\ (c_reactor (e_cfg s) = true -> gone (e_ing s));
  ip_after : rb_after_wait (e_r s) (e_started s) = true ->
     Forall exited (e_loops s) /\ (l_pc (e_ing s) = LIdle \/ l_pc (e_ing s) = LExited) /\ e_t s <> TRun;
  ip_insd : e_insd s = true -> e_started s = true /\ rb_insd_ok (e_r s) = true;
  ip_users : forall g e p, nth_error (e_users s) g = Some (UStopPoll e p) -> e_cancel s = true;
}.

Lemma Inv_pc_push : forall evs s, Inv_pc s -> Inv_pc (push evs s).
Proof. intros evs s [H1 H2 H3 H4 H5 H6 H7 H8 H9 H10 H11 H12]. constructor; assumption. Qed.

Lemma Inv_pc_init : forall cfg nu, Inv_pc (einit cfg nu).
Proof.
  intros cfg nu. constructor; cbn; try (intros; discriminate); auto.
  - apply Forall_forall. intros l Hl. apply repeat_spec in Hl. subst. intros _. reflexivity.
  - intros _. splits; auto. apply Forall_forall. intros l Hl. apply repeat_spec in Hl. subst. reflexivity.
  - intros g e p H. apply nth_error_In in H. apply repeat_spec in H. discriminate.
Qed.

Ltac inv_pc_destruct H :=
  destruct H as [Hquiet Hingc Hunst Hst Hnoreact Hnotick Hcancel Hnotify Hwait Hafter Hinsd Husers].

(* cheap forward chaining on computed premises *)
Ltac fwd :=
  repeat match goal with
  | H : true = true -> _ |- _ => specialize (H eq_refl)
  | H : false = false -> _ |- _ => specialize (H eq_refl)
  | H : false = true -> _ |- _ => clear H
  | H : true = false -> _ |- _ => clear H
  | H : _ /\ _ |- _ => destruct H
  | H : false = true |- _ => discriminate H
  | H : true = false |- _ => discriminate H
  | H1 : ?a = ?b, H2 : ?a = ?b -> _ |- _ => specialize (H2 H1)
  end.

Ltac ipgo := constructor; cbn; intros; try discriminate; try congruence;
  try match goal with H : RNotify _ = RNotify _ |- _ => injection H as ?; subst end;
  fwd; splits; eauto; try congruence; try lia.

Ltac rbsimpl := cbn [rb_after_wait rb_cancelled rb_unstarted_ok rb_started_ok rb_insd_ok] in *.
Ltac fa_tail := intros; unfold quiet_pc, exited, gone in *; cbn in *; auto; try congruence;
  try (match goal with |- _ \/ _ -> _ => intros [?|[?|?]] end; try discriminate; try congruence; auto).
Ltac fa :=
  match goal with
  | H : Forall _ ?l |- Forall _ (map _ ?l) =>
      eapply Forall_map_impl; [exact H|]; solve [fa_tail]
  | H : Forall _ ?l |- Forall _ (upd _ _ ?l) =>
      apply Forall_upd_nth; [exact H|]; solve [fa_tail]
  end.

Lemma rstep_pc : forall s c s' evs, Inv_pc s -> rstep s c = Some (s', evs) -> Inv_pc s'.
Proof.
  intros s c s' evs HI H. unfold rstep in H.
  inv_pc_destruct HI.
  destruct (e_r s) eqn:E; destruct c; try discriminate H; cbv beta iota in H.
  all: destruct (e_started s) eqn:Est; rbsimpl; fwd; try discriminate.
  - (* R0 CBoot *) injection H as <- <-. ipgo.
  - (* RBooted *)
    destruct (negb (c_client (e_cfg s)) && act_shut a) eqn:Esh; injection H as <- <-.
    + ipgo.
    + destruct (c_ticker (e_cfg s)) eqn:Etk; destruct (c_reactor (e_cfg s)) eqn:Ere; rbsimpl; fwd.
      all: ipgo; try fa; try discriminate.
  - (* RStarted *) injection H as <- <-. destruct (c_client (e_cfg s)); ipgo.
  - (* RServing CNone *)
    destruct (negb (c_client (e_cfg s)) && e_cancel s) eqn:Ec; [|discriminate H]. injection H as <- <-.
    apply andb_prop in Ec. destruct Ec as [_ Ec]. ipgo; try lia.
  - (* RServing CClientStop *)
    destruct (c_client (e_cfg s)); [|discriminate H]. injection H as <- <-. ipgo.
  - (* RCancelled *) injection H as <- <-. ipgo; lia.
  - (* RNotify *)
    destruct (k <? Datatypes.length (e_loops s))%nat eqn:Ek; injection H as <- <-.
    + apply Nat.ltb_lt in Ek. destruct (Hnotify k eq_refl) as [Hk Hg].
      ipgo; try fa; try (rewrite upd_length; lia).
      intros j lj Hj Hnth.
      rewrite nth_error_upd in Hnth.
      destruct (Nat.eqb k j) eqn:Eki.
      * apply Nat.eqb_eq in Eki; subst j. destruct (nth_error (e_loops s) k) eqn:En; cbn in Hnth; [|discriminate].
        injection Hnth as <-. pose proof (Forall_nth_error _ _ _ _ _ H0 En) as Hne. cbn in Hne.
        unfold gone, enq_loop; cbn. destruct (l_pc l); auto; try congruence. rewrite has_shut_app. apply orb_true_r.
      * apply Nat.eqb_neq in Eki. eapply Hg; [|exact Hnth]. lia.
    + apply Nat.ltb_ge in Ek. destruct (Hnotify k eq_refl) as [Hk Hg].
      assert (HG : Forall gone (e_loops s)).
      { apply Forall_all_nth. intros i x Hi. eapply Hg; [|exact Hi]. assert (i < Datatypes.length (e_loops s))%nat by (apply nth_error_Some; congruence). lia. }
      destruct (c_reactor (e_cfg s)) eqn:Ere; rbsimpl; fwd; ipgo.
      intros _. unfold gone, enq_loop; cbn. destruct (l_pc (e_ing s)); auto; try congruence. rewrite has_shut_app. apply orb_true_r.
  - (* RWait *)
    destruct (all_exited s) eqn:Ea; [|discriminate H]. injection H as <- <-.
    unfold all_exited in Ea. apply andb_prop in Ea. destruct Ea as [Ea Et]. apply andb_prop in Ea. destruct Ea as [El Ei].
    ipgo.
    + apply forallb_Forall in El. eapply Forall_impl; [|exact El]. intros l. unfold exited. destruct (l_pc l); intro Hl; auto; discriminate Hl.
    + revert Ei. destruct (l_pc (e_ing s)); intro Ei; auto; discriminate Ei.
    + intro Ht. rewrite Ht in Et. discriminate.
  - (* RClosePollers *) injection H as <- <-. ipgo; try fa.
  - (* RStoreInsd *) injection H as <- <-. ipgo.
  - (* RReturn *) injection H as <- <-. ipgo.
Qed.

(* ------------------------------------------------------------------ *)
(* changes that do not concern the invariant *)

Lemma Inv_pc_set_next : forall s n, Inv_pc s -> Inv_pc (set_next s n).
Proof. intros s n [H1 H2 H3 H4 H5 H6 H7 H8 H9 H10 H11 H12]. constructor; assumption. Qed.

Lemma Inv_pc_set_workers : forall s w, Inv_pc s -> Inv_pc (set_workers s w).
Proof. intros s n [H1 H2 H3 H4 H5 H6 H7 H8 H9 H10 H11 H12]. constructor; assumption. Qed.

Lemma Inv_pc_set_inall : forall s b, Inv_pc s -> Inv_pc (set_inall s b).
Proof. intros s n [H1 H2 H3 H4 H5 H6 H7 H8 H9 H10 H11 H12]. constructor; assumption. Qed.

Lemma Inv_pc_set_cancel : forall s, Inv_pc s -> Inv_pc (set_cancel s true).
Proof. intros s [H1 H2 H3 H4 H5 H6 H7 H8 H9 H10 H11 H12]. constructor; try assumption; cbn; auto. Qed.

Lemma Inv_pc_cancel_if : forall s b, Inv_pc s -> Inv_pc (cancel_if b s).
Proof. intros s [|] H; cbn; auto. apply Inv_pc_set_cancel; exact H. Qed.

Lemma Inv_pc_put_user : forall s g u, Inv_pc s ->
  (forall e p, u = UStopPoll e p -> e_cancel s = true) -> Inv_pc (put_user s g u).
Proof.
  intros s g u [H1 H2 H3 H4 H5 H6 H7 H8 H9 H10 H11 H12] Hu. constructor; try assumption.
  cbn. intros g' e p Hn. rewrite nth_error_upd in Hn. destruct (Nat.eqb g g').
  - destruct (nth_error (e_users s) g'); cbn in Hn; [|discriminate]. injection Hn as ->. eapply Hu; reflexivity.
  - eapply H12; exact Hn.
Qed.

Lemma Inv_pc_signal : forall s o, Inv_pc s -> Inv_pc (signal s o).
Proof.
  intros s [|k|g] H; cbn; auto.
  - apply Inv_pc_set_workers; exact H.
  - destruct H as [H1 H2 H3 H4 H5 H6 H7 H8 H9 H10 H11 H12]. constructor; try assumption.
    cbn. intros g' e p Hn. rewrite nth_error_upd in Hn. destruct (Nat.eqb g g').
    + destruct (nth_error (e_users s) g') as [u|] eqn:En; cbn in Hn; [|discriminate].
      destruct u; try discriminate. injection Hn as <- <-. eapply H12; exact En.
    + eapply H12; exact Hn.
Qed.

(* ------------------------------------------------------------------ *)
(* the legal moves of one loop *)

Definition loop_trans (l l' : loop) : Prop :=
  (l_pc l = LPoll /\ ((l_pc l' = LPoll /\ (has_shut (l_q l) = true -> has_shut (l_q l') = true)) \/ l_pc l' = LClosing)) \/
  (l_pc l = LClosing /\ (l_pc l' = LClosing \/ (l_pc l' = LTurnOff /\ l_conns l' = []))) \/
  (l_pc l = LTurnOff /\ l_pc l' = LExited /\ l_conns l' = l_conns l).

Lemma loop_trans_facts : forall l l', loop_trans l l' ->
  l_pc l <> LIdle /\ l_pc l <> LExited /\ l_pc l' <> LIdle /\ (gone l -> gone l') /\ (quiet_pc l -> quiet_pc l').
Proof.
  intros l l' [[H1 [[H2 H3]|H2]]|[[H1 [H2|[H2 H3]]]|[H1 [H2 H3]]]]; unfold gone, quiet_pc; rewrite H1, H2; splits;
    try congruence; auto; try (intros _ [?|[?|?]]; congruence); try (intros ? [?|[?|?]]; congruence).
  intros Hq _. rewrite H3. apply Hq. auto.
Qed.

Lemma Inv_pc_loops : forall s i l l',
  Inv_pc s -> get_loop s i = Some l -> loop_trans l l' ->
  Inv_pc (set_loops s (upd i (fun _ => l') (e_loops s))).
Proof.
  intros s i l l' HI Hl Ht. unfold get_loop in Hl.
  destruct (loop_trans_facts _ _ Ht) as [Hn1 [Hn2 [Hn3 [Hg Hq]]]].
  inv_pc_destruct HI. constructor; cbn; auto.
  - apply Forall_upd_nth; [exact Hquiet|]. intros x Hx Hqx. rewrite Hl in Hx. injection Hx as <-. auto.
  - intros Hs. destruct (Hunst Hs) as [Hall _]. exfalso. apply Hn1. exact (Forall_nth_error _ _ _ _ _ Hall Hl).
  - intros Hs. destruct (Hst Hs) as [Hall [H1 [H2 H3]]]. splits; auto.
    apply Forall_upd_nth; [exact Hall|]. intros; exact Hn3.
  - intros k Hk. destruct (Hnotify k Hk) as [Hk1 Hk2]. split; [rewrite upd_length; exact Hk1|].
    intros j x Hj Hx. rewrite nth_error_upd in Hx. destruct (Nat.eqb i j) eqn:Eij.
    + apply Nat.eqb_eq in Eij; subst j. rewrite Hl in Hx. cbn in Hx. injection Hx as <-. apply Hg. eapply Hk2; eauto.
    + eapply Hk2; eauto.
  - intros Hw. destruct (Hwait Hw) as [Hw1 Hw2]. split; auto.
    apply Forall_upd_nth; [exact Hw1|]. intros x Hx Hgx. rewrite Hl in Hx. injection Hx as <-. auto.
  - intros Ha. destruct (Hafter Ha) as [Hall _]. exfalso. apply Hn2. exact (Forall_nth_error _ _ _ _ _ Hall Hl).
Qed.

Lemma Inv_pc_ing : forall s l',
  Inv_pc s -> loop_trans (e_ing s) l' -> l_conns l' = [] -> Inv_pc (set_ing s l').
Proof.
  intros s l' HI Ht Hc.
  destruct (loop_trans_facts _ _ Ht) as [Hn1 [Hn2 [Hn3 [Hg Hq]]]].
  inv_pc_destruct HI. constructor; cbn; auto.
  - intros Hs. destruct (Hunst Hs) as [_ [Hi _]]. congruence.
  - intros Hs. destruct (Hst Hs) as [Hall [H1 [H2 H3]]]. splits; auto.
  - intros Hr. specialize (Hnoreact Hr). congruence.
  - intros Hw. destruct (Hwait Hw) as [Hw1 Hw2]. split; auto.
  - intros Ha. destruct (Hafter Ha) as [_ [[Hi|Hi] _]]; congruence.
Qed.

Lemma gone_enq : forall l t, gone l -> gone (enq_loop l t).
Proof.
  intros l t. unfold gone, enq_loop; cbn. destruct (l_pc l); auto. rewrite has_shut_app. intros ->. reflexivity.
Qed.

Lemma Inv_pc_trigger : forall s i t, Inv_pc s -> Inv_pc (trigger s i t).
Proof.
  intros s i t HI. unfold trigger. inv_pc_destruct HI. constructor; cbn; auto.
  - apply Forall_upd_nth; [exact Hquiet|]. intros x _ Hx. exact Hx.
  - intros Hs. destruct (Hunst Hs) as [Hall H]. split; auto. apply Forall_upd_nth; [exact Hall|]. auto.
  - intros Hs. destruct (Hst Hs) as [Hall H]. split; auto. apply Forall_upd_nth; [exact Hall|]. auto.
  - intros k Hk. destruct (Hnotify k Hk) as [Hk1 Hk2]. split; [rewrite upd_length; exact Hk1|].
    intros j x Hj Hx. rewrite nth_error_upd in Hx. destruct (Nat.eqb i j) eqn:Eij.
    + destruct (nth_error (e_loops s) j) eqn:En; cbn in Hx; [|discriminate]. injection Hx as <-.
      apply gone_enq. eapply Hk2; eauto.
    + eapply Hk2; eauto.
  - intros Hw. destruct (Hwait Hw) as [Hw1 Hw2]. split; auto.
    apply Forall_upd_nth; [exact Hw1|]. intros x _ Hx. apply gone_enq; exact Hx.
  - intros Ha. destruct (Hafter Ha) as [Hall H]. split; auto. apply Forall_upd_nth; [exact Hall|]. auto.
Qed.

Lemma Inv_pc_trigger_ing : forall s t, Inv_pc s -> Inv_pc (trigger_ing s t).
Proof.
  intros s t HI. unfold trigger_ing. inv_pc_destruct HI. constructor; cbn; auto.
  intros Hw. destruct (Hwait Hw) as [Hw1 Hw2]. split; auto. intros Hr. apply gone_enq; auto.
Qed.

(* ------------------------------------------------------------------ *)
(* the steps of the threads preserve the invariant *)

Lemma apply_cb_shape : forall t l cid h l2 evs d, apply_cb t l cid h = (l2, evs, d) ->
  (l_pc l2 = l_pc l \/ l_pc l2 = LClosing) /\ l_q l2 = l_q l /\ l_pclosed l2 = l_pclosed l /\
  (l_conns l2 = l_conns l \/ l_conns l2 = zremove cid (l_conns l)).
Proof.
  intros t l cid h l2 evs d H. unfold apply_cb in H. destruct (after_cb h) as [[cl se] off].
  injection H as <- <- <-. destruct cl, se; cbn; auto.
Qed.

Lemma loop_common_trans : forall t l c l' evs off, loop_common t l c = Some (l', evs, off) ->
  loop_trans l l' /\ (l_conns l = [] -> l_conns l' = []) /\ (off = true -> l_pc l' = LExited).
Proof.
  intros t l c l' evs off H. unfold loop_common in H. unfold loop_trans.
  destruct (l_pc l) eqn:Epc; destruct c; try discriminate H.
  all: try (destruct (l_conns l) as [|cid rest] eqn:Ec); injection H as <- <- <-; cbn; splits; auto; try discriminate.
  all: try first
    [ left; split; [reflexivity|right; reflexivity]
    | right; left; split; [reflexivity|right; split; [reflexivity|assumption]]
    | right; left; split; [reflexivity|left; reflexivity]
    | right; right; splits; reflexivity ].
  all: try (rewrite Ec; discriminate).
Qed.

Ltac peel :=
  repeat first [apply Inv_pc_cancel_if | apply Inv_pc_set_next | apply Inv_pc_signal | apply Inv_pc_set_cancel
               | apply Inv_pc_set_workers | apply Inv_pc_set_inall].

Lemma lstep_pc : forall i s c s' evs, Inv_pc s -> lstep i s c = Some (s', evs) -> Inv_pc s'.
Proof.
  intros i s c s' evs HI H. unfold lstep in H.
  destruct (get_loop s i) as [l|] eqn:Hl; [|discriminate H].
  destruct (l_pc l) eqn:Epc.
  2: destruct c as [| | | | |io|k h| | | | | | |]; try (destruct io).
  all: step_cases H.
  all: try match goal with E : loop_common _ _ _ = Some _ |- _ =>
         apply loop_common_trans in E; destruct E as [Ht [_ _]] end.
  all: try match goal with E : apply_cb _ _ _ _ = _ |- _ =>
         apply apply_cb_shape in E; cbn in E; destruct E as [Hpc [Hq [_ _]]] end.
  all: peel; try (eapply Inv_pc_loops; [exact HI|exact Hl|]).
  all: try exact Ht.
  all: unfold loop_trans; left; split; [exact Epc|]; cbn.
  all: try (right; reflexivity).
  all: try (rewrite Epc in Hpc; destruct Hpc as [Hpc|Hpc]; [left; split; [exact Hpc|rewrite Hq]|right; exact Hpc]).
  all: try (destruct (act_shut _); cbn; [right; reflexivity|left; split; [exact Epc|auto]]).
  all: try (left; split; [reflexivity|]).
  all: cbn; auto.
  all: try (intros Hs; eapply has_shut_remove; [eassumption|exact Hs|exact I]).
  left; split; [exact Epc|]. intros Hs. eapply has_shut_remove; [eassumption|exact Hs|exact I].
Qed.

Lemma astep_pc : forall s c s' evs, Inv_pc s -> astep s c = Some (s', evs) -> Inv_pc s'.
Proof.
  intros s c s' evs HI H. unfold astep in H.
  pose proof (ip_ing_conns _ HI) as Hc.
  destruct (l_pc (e_ing s)) eqn:Epc.
  2: destruct c as [| | |li| | |k h| | | | | | |].
  all: step_cases H.
  all: try match goal with E : loop_common _ _ _ = Some _ |- _ =>
         apply loop_common_trans in E; destruct E as [Ht [Hc' _]] end.
  all: peel; try (apply Inv_pc_trigger; exact HI).
  all: try (apply Inv_pc_ing; [exact HI|exact Ht|auto]).
  apply Inv_pc_ing; [exact HI| |exact Hc].
  unfold loop_trans. left. split; [exact Epc|]. right. reflexivity.
Qed.

Lemma tstep_pc : forall s c s' evs, Inv_pc s -> tstep s c = Some (s', evs) -> Inv_pc s'.
Proof.
  intros s c s' evs HI H. unfold tstep in H.
  destruct (e_t s) eqn:Et; destruct c; try discriminate H.
  - destruct (e_cancel s); [|discriminate H]. injection H as <- <-.
    inv_pc_destruct HI. constructor; cbn; auto.
    + intros Hs. destruct (Hunst Hs) as [_ [_ [Hx _]]]. congruence.
    + intros Hs. destruct (Hst Hs) as [H1 [H2 [H3 H4]]]. splits; auto; intros _; discriminate.
    + intros Hn. specialize (Hnotick Hn). congruence.
    + intros Ha. destruct (Hafter Ha) as [H1 [H2 H3]]. splits; auto; discriminate.
  - injection H as <- <-. destruct (act_shut a); [|exact HI].
    destruct (c_reactor (e_cfg s)); [apply Inv_pc_trigger_ing|apply Inv_pc_trigger]; exact HI.
Qed.

Lemma wstep_pc : forall k s c s' evs, Inv_pc s -> wstep k s c = Some (s', evs) -> Inv_pc s'.
Proof.
  intros k s c s' evs HI H. unfold wstep in H. step_cases H.
  all: peel; try (apply Inv_pc_trigger); exact HI.
Qed.

Lemma ustep_pc : forall g s c s' evs, Inv_pc s -> ustep g s c = Some (s', evs) -> Inv_pc s'.
Proof.
  intros g s c s' evs HI H. unfold ustep in H.
  destruct (get_user s g) as [u|] eqn:Hu; [|discriminate H].
  destruct u as [|expired pkg|opened].
  - (* a call *)
    destruct c; try discriminate H.
    unfold do_call in H. destruct c; step_cases H.
    all: unfold new_worker.
    all: try (apply Inv_pc_put_user; [|intros; try discriminate; reflexivity]).
    all: peel; try (apply Inv_pc_trigger); try exact HI.
    destruct b; [apply Inv_pc_trigger|]; exact HI.
  - destruct c; try discriminate H.
    + injection H as <- <-. apply Inv_pc_put_user; [exact HI|]. intros e p _. eapply (ip_users _ HI); exact Hu.
    + step_cases H; (apply Inv_pc_put_user; [destruct pkg; peel; exact HI|intros; discriminate]).
    + step_cases H; (apply Inv_pc_put_user; [destruct pkg; peel; exact HI|intros; discriminate]).
  - step_cases H; apply Inv_pc_put_user; [exact HI|intros; discriminate].
Qed.

Theorem inv_pc_reachable : forall s, ereachable s -> Inv_pc s.
Proof.
  apply engine_invariant.
  - apply Inv_pc_init.
  - intros s t c s' evs _ HI H. apply Inv_pc_push. destruct t; cbn in H.
    + eapply rstep_pc; eauto.
    + eapply lstep_pc; eauto.
    + eapply astep_pc; eauto.
    + eapply tstep_pc; eauto.
    + eapply ustep_pc; eauto.
    + eapply wstep_pc; eauto.
Qed.
