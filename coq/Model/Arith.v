(* Model of pkg/math/math.go, byteslice.index and internal/gfd/gfd.go.
   The integer functions are written in exactly the shape the translator
   harness/cmd/genintfun emits for the current source, so that the per-run
   obligation  Gen.f = Arith.f  closes by reflexivity.  No proofs here. *)
From GV Require Export Lib.Trace.
Open Scope Z_scope.

(* ---- fixed-width arithmetic on linux/amd64 ---- *)
Definition wrap64 (z : Z) : Z := (z + 9223372036854775808) mod 18446744073709551616 - 9223372036854775808.
Definition wrapu64 (z : Z) : Z := z mod 18446744073709551616.
Definition wrapu32 (z : Z) : Z := z mod 4294967296.
Definition wrap32 (z : Z) : Z := (z + 2147483648) mod 4294967296 - 2147483648.
Definition wrapu16 (z : Z) : Z := z mod 65536.
Definition wrapu8 (z : Z) : Z := z mod 256.

(* math/bits.Len / Len32 / Len64 on a non-negative argument *)
Definition bits_len (x : Z) : Z := if x <=? 0 then 0 else Z.log2 x + 1.

(* ---- pkg/math/math.go ---- *)
Definition IsPowerOfTwo (n : Z) : outcome bool :=
  Ret ((n >? 0) && ((Z.land n (wrap64 (n - 1))) =? 0)).

Definition CeilToPowerOfTwo (n : Z) : outcome Z :=
  if (negb ((Z.land n 4611686018427387904) =? 0)) && (n >? 4611686018427387904) then Panic else
  if (n <=? 2) then Ret 2 else
  Ret (wrap64 (Z.shiftl 1 (bits_len (wrapu64 (wrap64 (n - 1)))))).

Definition FloorToPowerOfTwo (n : Z) : outcome Z :=
  if (n <=? 2) then Ret n else
  let n := (Z.lor n (Z.shiftr n 1)) in
  let n := (Z.lor n (Z.shiftr n 2)) in
  let n := (Z.lor n (Z.shiftr n 4)) in
  let n := (Z.lor n (Z.shiftr n 8)) in
  let n := (Z.lor n (Z.shiftr n 16)) in
  let n := (Z.lor n (Z.shiftr n 32)) in
  Ret (wrap64 (n - (Z.shiftr n 1))).

Definition ClosestPowerOfTwo (n : Z) : outcome Z :=
  obind (CeilToPowerOfTwo n) (fun next =>
  let prev := (Z.quot next 2) in
  let next := if ((wrap64 (n - prev)) <? (wrap64 (next - n))) then prev else next in
  Ret next).

(* ---- pkg/pool/byteslice.index (argument and result are uint32) ---- *)
Definition bs_index (n : Z) : outcome Z :=
  Ret (wrapu32 (bits_len (wrapu32 (n - 1)))).

(* ---- internal/gfd ---- *)
Fixpoint be_encode (k : nat) (z : Z) : list Z :=
  match k with
  | O => []
  | S k' => be_encode k' (z / 256) ++ [z mod 256]
  end.

Fixpoint be_decode_acc (acc : Z) (l : list Z) : Z :=
  match l with
  | [] => acc
  | b :: l' => be_decode_acc (acc * 256 + b) l'
  end.
Definition be_decode (l : list Z) : Z := be_decode_acc 0 l.

Definition gfd := list Z.   (* 16 bytes *)

Definition new_gfd (fd el row col seq : Z) : gfd :=
  [wrapu8 el; wrapu8 row] ++ be_encode 2 (wrapu16 col) ++ be_encode 4 (wrapu32 seq)
  ++ be_encode 8 (wrapu64 fd).

Definition slice (l : list Z) (lo hi : nat) : list Z := firstn (hi - lo) (skipn lo l).

Definition gfd_fd (g : gfd) : Z := wrap64 (be_decode (slice g 8 16)).
Definition gfd_el (g : gfd) : Z := nth 0 g 0.
Definition gfd_row (g : gfd) : Z := nth 1 g 0.
Definition gfd_col (g : gfd) : Z := be_decode (slice g 2 4).
Definition gfd_seq (g : gfd) : Z := be_decode (slice g 4 8).

Definition gfd_update (g : gfd) (row col : Z) : gfd :=
  match g with
  | el :: _ :: _ :: _ :: rest => el :: wrapu8 row :: be_encode 2 (wrapu16 col) ++ rest
  | _ => g
  end.

Definition gfd_validate (g : gfd) : bool :=
  (gfd_fd g >? 2) && (gfd_seq g >? 0).

(* ---- trace runner: family "arith" ----
   op lines:   f <name> <n>                      -> obs r <value> | obs r panic
               gfd <fd> <el> <row> <col> <seq> <row2> <col2>
                                                 -> obs gfd <fd> <el> <row> <col> <seq> <valid> <row2'> <col2'> <fd'> *)
Open Scope string_scope.

Definition out_z (o : outcome Z) : line :=
  match o with Ret v => obs "r" [AInt v] | Panic => panic_line "r" end.
Definition out_b (o : outcome bool) : line :=
  match o with Ret v => obs "r" [bool_arg v] | Panic => panic_line "r" end.

Definition arith_line (l : line) : list line :=
  match l with
  | ("f", [ASym name; AInt n]) =>
      if sym_eqb name "ispow2" then [out_b (IsPowerOfTwo n)]
      else if sym_eqb name "ceil" then [out_z (CeilToPowerOfTwo n)]
      else if sym_eqb name "floor" then [out_z (FloorToPowerOfTwo n)]
      else if sym_eqb name "closest" then [out_z (ClosestPowerOfTwo n)]
      else if sym_eqb name "bsindex" then [out_z (bs_index n)]
      else [obs "unknown" []]
  | ("gfd", [AInt fd; AInt el; AInt row; AInt col; AInt seq; AInt row2; AInt col2]) =>
      let g := new_gfd fd el row col seq in
      let g2 := gfd_update g row2 col2 in
      [obs "gfd" [AInt (gfd_fd g); AInt (gfd_el g); AInt (gfd_row g); AInt (gfd_col g);
                  AInt (gfd_seq g); bool_arg (gfd_validate g);
                  AInt (gfd_row g2); AInt (gfd_col g2); AInt (gfd_fd g2); AInt (gfd_el g2);
                  AInt (gfd_seq g2); ABytes g]]
  | _ => [obs "unknown" []]
  end.

Definition run_arith : runner := fun ls => flat_map arith_line ls.
