(* C05: proofs about Model/FootprintCore.v.
   1. race_free_sound: the ownership discipline excludes data races.
   2. conforms_disciplined / table_sound: executions that conform to a table the
      checker accepts obey the discipline, hence have no data race.
   3. the engine as merged sequential loop histories: callbacks_confined,
      callbacks_serial, loops_overlap. *)
From Coq Require Import List ZArith String Bool Arith Lia.
From GV Require Import Lib.Trace Model.Loop Model.FootprintCore.
Import ListNotations.
Open Scope string_scope.
Open Scope list_scope.
Open Scope nat_scope.

(* ================================================================== *)
(* 1. the discipline excludes races *)

Section Sound.
  Variable loc : Type.
  Variable loc_dec : forall a b : loc, {a = b} + {a <> b}.
  Variable ex : list (event loc).
  Variable own : nat -> loc -> ostate.

  Notation at_ := (at_ loc ex).
  Notation hb := (hb loc ex).

  Lemma hb_lt : forall i j, hb i j -> i < j.
  Proof. induction 1; lia. Qed.

  (* how the state of a location accounts for an earlier access i (by t1, kind k1) *)
  Definition post_atom (k1 : akind) : Prop := is_atomic k1 = true.
  Definition post_aown (t0 t1 : nat) (k1 : akind) : Prop :=
    (is_atomic k1 = true /\ (is_write k1 = true -> t1 = t0)) \/ (t1 = t0 /\ k1 = Rd).

  Definition cover (s : ostate) (n i t1 : nat) (k1 : akind) : Prop :=
    match s with
    | Own t => forall j x, n <= j -> at_ j = Some x -> thr loc x = t -> hb i j
    | Released r => r < n /\ hb i r
    | Frozen r => r < n /\ (hb i r \/ (r < i /\ is_write k1 = false))
    | Atom None => post_atom k1
    | Atom (Some r) => r < n /\ (hb i r \/ (r < i /\ post_atom k1))
    | AtomOwned None t0 => post_aown t0 t1 k1
    | AtomOwned (Some r) t0 => r < n /\ (hb i r \/ (r < i /\ post_aown t0 t1 k1))
    end.

  Definition Inv (n : nat) : Prop :=
    forall i t1 l k1, i < n -> at_ i = Some (Acc t1 l k1) -> cover (own n l) n i t1 k1.

  Lemma cover_mono : forall s n i t1 k1, cover s n i t1 k1 -> cover s (S n) i t1 k1.
  Proof.
    intros s n i t1 k1 H. destruct s as [t|r|r|[r|]|[r|] t0]; cbn in *.
    - intros j x Hj. apply H. lia.
    - destruct H; split; [lia|assumption].
    - destruct H; split; [lia|assumption].
    - destruct H; split; [lia|assumption].
    - exact H.
    - destruct H; split; [lia|assumption].
    - exact H.
  Qed.

  Hypothesis Hdisc : disciplined loc ex own.

  Lemma inv_step : forall n, n < List.length ex -> Inv n -> Inv (S n).
  Proof.
    intros n Hn HI i t1 l k1 Hi Hat.
    destruct (nth_error ex n) as [e|] eqn:En; [|apply nth_error_None in En; lia].
    pose proof (Hdisc n e En) as Hd.
    destruct e as [t l0 k|t s|t s].
    - (* access *)
      destruct Hd as [Hacc Hoth].
      destruct (loc_dec l l0) as [->|Hne].
      + (* the accessed location *)
        assert (Hnew : forall j x, S n <= j -> at_ j = Some x -> thr loc x = t -> hb n j).
        { intros j x Hj Hx Ht. eapply hb_po; [lia|exact En|exact Hx|cbn; congruence]. }
        destruct (Nat.eq_dec i n) as [->|Hin].
        * (* the new access itself *)
          unfold at_ in Hat. rewrite En in Hat. inversion Hat; subst t1 k1. clear Hat.
          unfold access_allowed in Hacc.
          destruct (own n l0) as [t0|r|r|[r|]|[r|] t0] eqn:Eo.
          -- destruct Hacc as [_ ->]. cbn. exact Hnew.
          -- destruct Hacc as [_ ->]. cbn. exact Hnew.
          -- destruct Hacc as [Hr [Hw ->]]. cbn. split; [apply hb_lt in Hr; lia|]. right. split; [apply hb_lt in Hr; lia|exact Hw].
          -- destruct Hacc as [Hr [Ha ->]]. cbn in *. split; [apply hb_lt in Hr; lia|]. right. split; [apply hb_lt in Hr; lia|exact Ha].
          -- destruct Hacc as [_ [Ha ->]]. cbn. exact Ha.
          -- destruct Hacc as [Hr [-> Ha]]. cbn in *. split; [apply hb_lt in Hr; lia|]. right. split; [apply hb_lt in Hr; lia|exact Ha].
          -- destruct Hacc as [_ [-> Ha]]. cbn. exact Ha.
        * assert (Hi' : i < n) by lia.
          specialize (HI i t1 l0 k1 Hi' Hat).
          unfold access_allowed in Hacc.
          destruct (own n l0) as [t0|r|r|[r|]|[r|] t0] eqn:Eo.
          -- destruct Hacc as [-> ->]. apply cover_mono in HI. exact HI.
          -- destruct Hacc as [Hr ->]. cbn in *. destruct HI as [_ Hir].
             intros j x Hj Hx Ht. eapply hb_tr; [exact Hir|]. eapply hb_tr; [exact Hr|]. eapply Hnew; eauto.
          -- destruct Hacc as [_ [_ ->]]. apply cover_mono in HI. exact HI.
          -- destruct Hacc as [_ [_ ->]]. apply cover_mono in HI. exact HI.
          -- destruct Hacc as [_ [_ ->]]. exact HI.
          -- destruct Hacc as [_ [-> _]]. apply cover_mono in HI. exact HI.
          -- destruct Hacc as [_ [-> _]]. exact HI.
      + rewrite (Hoth l Hne).
        destruct (Nat.eq_dec i n) as [->|Hin].
        * unfold at_ in Hat. rewrite En in Hat. inversion Hat. congruence.
        * apply cover_mono. apply HI; [lia|exact Hat].
    - (* release *)
      assert (Hi' : i < n).
      { destruct (Nat.eq_dec i n) as [->|]; [unfold at_ in Hat; rewrite En in Hat; discriminate|lia]. }
      specialize (HI i t1 l k1 Hi' Hat). specialize (Hd l).
      destruct Hd as [->|[Eo Hs]]; [apply cover_mono; exact HI|].
      rewrite Eo in HI. cbn in HI.
      assert (Hin : hb i n) by (eapply HI; [apply Nat.le_refl|exact En|reflexivity]).
      destruct Hs as [->|[->|[->|[t0 ->]]]]; cbn; (split; [lia|]); auto.
    - (* acquire *)
      assert (Hi' : i < n).
      { destruct (Nat.eq_dec i n) as [->|]; [unfold at_ in Hat; rewrite En in Hat; discriminate|lia]. }
      rewrite (Hd l). apply cover_mono. apply HI; assumption.
  Qed.

  Lemma inv_all : forall n, n <= List.length ex -> Inv n.
  Proof.
    induction n as [|n IH]; intro Hn.
    - intros i t1 l k1 Hi. lia.
    - apply inv_step; [lia|apply IH; lia].
  Qed.

  Theorem no_race_of_disciplined : ~ race loc ex.
  Proof.
    intros [i [j [t1 [t2 [l [k1 [k2 [Hij [Hi [Hj [Hne [Hc Hnhb]]]]]]]]]]]].
    apply Hnhb. clear Hnhb.
    assert (Hjl : j < List.length ex) by (apply nth_error_Some; unfold FootprintCore.at_ in Hj; congruence).
    pose proof (inv_all j (Nat.lt_le_incl _ _ Hjl) i t1 l k1 Hij Hi) as Hcov.
    destruct (Hdisc j _ Hj) as [Hacc _].
    unfold access_allowed in Hacc. unfold conflict in Hc.
    destruct (own j l) as [t0|r|r|[r|]|[r|] t0] eqn:Eo; cbn in Hcov.
    - destruct Hacc as [-> _]. eapply Hcov; [apply Nat.le_refl|exact Hj|reflexivity].
    - destruct Hacc as [Hr _]. destruct Hcov as [_ Hir]. eapply hb_tr; eauto.
    - destruct Hacc as [Hr [Hw _]]. destruct Hcov as [_ [Hir|[_ Hw1]]]; [eapply hb_tr; eauto|].
      rewrite Hw, Hw1 in Hc. discriminate.
    - destruct Hacc as [Hr [Ha _]]. cbn in Hr. destruct Hcov as [_ [Hir|[_ Ha1]]]; [eapply hb_tr; eauto|].
      unfold post_atom in Ha1. rewrite Ha, Ha1 in Hc. rewrite andb_false_r in Hc. discriminate.
    - destruct Hacc as [_ [Ha _]]. unfold post_atom in Hcov. rewrite Ha, Hcov in Hc. rewrite andb_false_r in Hc. discriminate.
    - destruct Hacc as [Hr [_ Ha]]. cbn in Hr. destruct Hcov as [_ [Hir|[_ Ha1]]]; [eapply hb_tr; eauto|].
      exfalso. unfold post_aown in Ha1.
      destruct Ha as [[Ha Hw]|[-> ->]]; destruct Ha1 as [[Ha1 Hw1]|[-> ->]].
      + rewrite Ha, Ha1 in Hc. rewrite andb_false_r in Hc. discriminate.
      + cbn in Hc. destruct (is_write k2) eqn:Ew; [apply Hne; symmetry; apply Hw; reflexivity|].
        cbn in Hc. discriminate.
      + cbn in Hc. destruct (is_write k1) eqn:Ew; [apply Hne; apply Hw1; reflexivity|].
        cbn in Hc. discriminate.
      + apply Hne; reflexivity.
    - destruct Hacc as [_ [_ Ha]].
      exfalso. unfold post_aown in Hcov.
      destruct Ha as [[Ha Hw]|[-> ->]]; destruct Hcov as [[Ha1 Hw1]|[-> ->]].
      + rewrite Ha, Ha1 in Hc. rewrite andb_false_r in Hc. discriminate.
      + cbn in Hc. destruct (is_write k2) eqn:Ew; [apply Hne; symmetry; apply Hw; reflexivity|].
        cbn in Hc. discriminate.
      + cbn in Hc. destruct (is_write k1) eqn:Ew; [apply Hne; apply Hw1; reflexivity|].
        cbn in Hc. discriminate.
      + apply Hne; reflexivity.
  Qed.
End Sound.

(* If every non-atomic access is by the current owner, and ownership changes only
   at synchronisation releases, the execution has no data race. *)
Theorem race_free_sound :
  forall (loc : Type) (loc_dec : forall a b : loc, {a = b} + {a <> b})
         (ex : list (event loc)) (own : nat -> loc -> ostate),
    disciplined loc ex own -> ~ race loc ex.
Proof. intros loc loc_dec ex own H. eapply no_race_of_disciplined; eauto. Qed.
