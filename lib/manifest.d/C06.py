CHECK = dict(
    engine="engine", design_ref="4 / C06",
    text="Proof, partial: 'bounded time' is proved as a bounded number of engine steps under fair scheduling and terminating "
         "callbacks; wall-clock time is not modelled. On the interleaving model of the engine life cycle: every documented "
         "source of shutdown raises `requested` (stop_requests, io_shutdown_requests, register_shutdown_requests, "
         "tick_shutdown_requests); shutdown_variant (the engine's own steps strictly decrease a measure, any other step adds "
         "at most one, no reachable stuck state between request and return, hence #engine steps <= measure + #other steps in "
         "every execution); all_closed_before_return (each connection opened at most once, closed at most as often, and "
         "exactly as often once Run is about to return); onshutdown_once (at most once, exactly once at the return iff "
         "started); no_callback_after_return (one return, no callback event newer than it, no thread able to run a callback "
         "afterwards); onboot_shutdown. Tied to the current source by a scenario matrix source x moment x connections x "
         "ticker x listeners x mode on the real engine with vunix pause points, compared event by event with the extracted "
         "model, plus a direct oracle (return within 3 s with nil, one OnClose per opened connection before the return, "
         "OnShutdown once iff started, nothing after the return while peers keep poking).",
    note="Assumes the wake-up guarantee of C03 (a polling loop with a queued task is enabled), weak fairness, terminating "
         "callbacks, documented behaviour of context/errgroup; kernel failures during start and the ErrAcceptSocket exit are "
         "modelled only as an abstract fatal event; Client.Stop twice is outside the model. Fixed on the way: a Shutdown "
         "returned by OnClose was dropped when the close came from a failed write (7f2f7b0). Because of the first assumption the "
         "check also runs C03's wake-up correspondence, and one loop's share of shutdown (the closing sweep with handlers "
         "that write and close inside OnClose) through the loop-family driver with its lifecycle/shutdown oracles.",
    technique="Coq proof (inductive invariants, variant function, history variable) on an executable transition system + "
              "differential scenario traces on the real engine + direct oracle",
)
ENGINE = dict(name="engine", path="coq/Model/Engine.v", serves_properties=["C06", "C19"],
              kind_free_text="Gallina interleaving model of engine_unix.go / gnet.go control API / reactor_default.go / "
                             "eventloop_unix.go Register-Enroll-Execute-ticker / client_unix.go Start-Stop over Lib/Interleave.v; "
                             "drv-engine (real engine, vunix pause points, scripted handler and peers)")
