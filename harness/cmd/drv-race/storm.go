package main

import (
	"context"
	"fmt"
	"net"
	"os"
	"sync"
	"sync/atomic"
	"time"

	"golang.org/x/sys/unix"

	gnet "github.com/panjf2000/gnet/v2"

	"verifharness/tr"
)

// The storm: this file runs under the race detector.  The handler touches nothing
// shared except the connection registry (a sync.Map: handing a Conn to another
// goroutine has to be synchronised by the user anyway) and atomic counters.

type stormSrv struct {
	gnet.BuiltinEventEngine
	eng      atomic.Value
	boot     chan struct{}
	conns    sync.Map // int64 -> gnet.Conn
	nconn    atomic.Int64
	udpAsync bool
	ticks    atomic.Int64
	opened   atomic.Int64
	closed   atomic.Int64
	traffic  atomic.Int64
	acb      atomic.Int64
	execs    atomic.Int64
	onBoot   func(gnet.Engine)
}

func (s *stormSrv) OnBoot(eng gnet.Engine) gnet.Action {
	s.eng.Store(eng)
	if s.onBoot != nil {
		s.onBoot(eng)
	}
	close(s.boot)
	return gnet.None
}

func (s *stormSrv) OnOpen(c gnet.Conn) ([]byte, gnet.Action) {
	s.opened.Add(1)
	c.SetContext(int(1)) // loop-side context: must never conflict with the safe context
	s.conns.Store(s.nconn.Add(1), c)
	return nil, gnet.None
}

func (s *stormSrv) OnClose(gnet.Conn, error) gnet.Action { s.closed.Add(1); return gnet.None }

func (s *stormSrv) OnTraffic(c gnet.Conn) gnet.Action {
	s.traffic.Add(1)
	buf, _ := c.Next(-1)
	if len(buf) == 0 {
		return gnet.None
	}
	out := append([]byte(nil), buf...)
	if _, isUDP := c.LocalAddr().(*net.UDPAddr); isUDP && s.udpAsync {
		// AsyncWrite on a datagram Conn from another goroutine, racing with the
		// release of the transient Conn after this handler returns
		go func() { _ = c.AsyncWrite(out, nil) }()
		return gnet.None
	}
	_, _ = c.Write(out)
	return gnet.None
}

func (s *stormSrv) OnTick() (time.Duration, gnet.Action) {
	s.ticks.Add(1)
	return 3 * time.Millisecond, gnet.None
}

func mkdir(p string) error { return os.MkdirAll(p, 0o755) }

type apiCounts struct {
	mu sync.Mutex
	m  map[string]int
}

func (a *apiCounts) add(local map[string]int) {
	a.mu.Lock()
	for k, v := range local {
		a.m[k] += v
	}
	a.mu.Unlock()
}

// one random concurrency-safe call on c
func safeCall(r *tr.Rand, c gnet.Conn, srv *stormSrv, tcpAddr string, cnt map[string]int, budget *atomic.Int64) {
	cb := func(gnet.Conn, error) error { srv.acb.Add(1); return nil }
	switch r.Intn(22) {
	case 0, 1:
		cnt["api.AsyncWrite"]++
		_ = c.AsyncWrite([]byte("storm-async"), cb)
	case 2:
		cnt["api.AsyncWritev"]++
		_ = c.AsyncWritev([][]byte{[]byte("st"), []byte("orm")}, cb)
	case 3, 4:
		cnt["api.Wake"]++
		_ = c.Wake(cb)
	case 5:
		if r.Intn(8) == 0 {
			cnt["api.Close"]++
			_ = c.Close()
		}
	case 6:
		if r.Intn(8) == 0 {
			cnt["api.CloseWithCallback"]++
			_ = c.CloseWithCallback(cb)
		}
	case 7:
		cnt["api.SafeContext"]++
		_ = c.SafeContext()
	case 8:
		cnt["api.SetSafeContext"]++
		c.SetSafeContext(r.Intn(100))
	case 9:
		cnt["api.Fd"]++
		_ = c.Fd()
	case 10:
		cnt["api.Dup"]++
		if fd, err := c.Dup(); err == nil {
			_ = unix.Close(fd)
		}
	case 11:
		cnt["api.SetReadBuffer"]++
		_ = c.SetReadBuffer(64 << 10)
	case 12:
		cnt["api.SetWriteBuffer"]++
		_ = c.SetWriteBuffer(64 << 10)
	case 13:
		cnt["api.SetLinger"]++
		_ = c.SetLinger(1)
	case 14:
		cnt["api.SetNoDelay"]++
		_ = c.SetNoDelay(true)
	case 15:
		cnt["api.SetKeepAlivePeriod"]++
		_ = c.SetKeepAlivePeriod(30 * time.Second)
	case 16:
		cnt["api.SetKeepAlive"]++
		_ = c.SetKeepAlive(true, 30*time.Second, 10*time.Second, 3)
	case 17, 18:
		cnt["api.Execute"]++
		_ = c.EventLoop().Execute(context.Background(), gnet.RunnableFunc(func(context.Context) error { srv.execs.Add(1); return nil }))
	case 19:
		if budget.Add(-1) >= 0 {
			cnt["api.Register"]++
			if a, err := net.ResolveTCPAddr("tcp", tcpAddr); err == nil {
				if ch, err := c.EventLoop().Register(context.Background(), a); err == nil {
					go func() {
						select {
						case <-ch:
						case <-time.After(3 * time.Second):
						}
					}()
				}
			}
		}
	case 20:
		if budget.Add(-1) >= 0 {
			cnt["api.Enroll"]++
			if nc, err := net.DialTimeout("tcp", tcpAddr, time.Second); err == nil {
				if ch, err := c.EventLoop().Enroll(context.Background(), nc); err == nil {
					go func() {
						select {
						case <-ch:
						case <-time.After(3 * time.Second):
						}
					}()
				} else {
					nc.Close()
				}
			}
		}
	case 21:
		if e, ok := srv.eng.Load().(gnet.Engine); ok {
			cnt["api.CountConnections"]++
			_ = e.CountConnections()
		}
	}
}

func churnClient(network, addr string, r *tr.Rand, stop <-chan struct{}, wg *sync.WaitGroup) {
	defer wg.Done()
	buf := make([]byte, 8192)
	for {
		select {
		case <-stop:
			return
		default:
		}
		c, err := net.DialTimeout(network, addr, time.Second)
		if err != nil {
			time.Sleep(5 * time.Millisecond)
			continue
		}
		rounds := 1 + r.Intn(20)
		for i := 0; i < rounds; i++ {
			if _, err := c.Write(r.Bytes(1 + r.Intn(300))); err != nil {
				break
			}
			_ = c.SetReadDeadline(time.Now().Add(50 * time.Millisecond))
			if _, err := c.Read(buf); err != nil {
				if ne, ok := err.(net.Error); !(ok && ne.Timeout()) {
					break
				}
			}
			select {
			case <-stop:
				i = rounds
			default:
			}
		}
		c.Close()
	}
}

type cliHandler struct {
	gnet.BuiltinEventEngine
}

func (*cliHandler) OnTraffic(c gnet.Conn) gnet.Action { _, _ = c.Next(-1); return gnet.None }

func storm(c cell) childResult {
	rnd := tr.NewRand(c.Seed)
	total := &apiCounts{m: map[string]int{}}
	deadline := time.Now().Add(time.Duration(c.Millis) * time.Millisecond)
	cycles := 0
	for time.Now().Before(deadline) || cycles == 0 {
		cycles++
		cycleFor := 900 * time.Millisecond
		if err := stormCycle(c, tr.NewRand(rnd.U64()), cycleFor, total, cycles); err != "" {
			return childResult{Err: err, Counts: total.m}
		}
	}
	total.m["cycles"] = cycles
	return childResult{Counts: total.m}
}

func stormCycle(c cell, rnd *tr.Rand, dur time.Duration, total *apiCounts, cycle int) string {
	srv := &stormSrv{boot: make(chan struct{}), udpAsync: true}
	_ = mkdir(fmt.Sprintf("%s/c%d", c.Dir, cycle))
	a := mkAddrs(fmt.Sprintf("%s/c%d", c.Dir, cycle))
	runErr := make(chan error, 1)
	go func() { runErr <- gnet.Rotate(srv, a.list, options(c, true)...) }()
	select {
	case <-srv.boot:
	case err := <-runErr:
		return fmt.Sprint("engine did not start: ", err)
	case <-time.After(10 * time.Second):
		return "engine did not boot"
	}
	// wait until the engine accepts (start has finished: the Engine handle may now be used freely)
	for i := 0; i < 200; i++ {
		if nc, err := net.DialTimeout("unix", a.unixPath, 200*time.Millisecond); err == nil {
			nc.Close()
			break
		}
		time.Sleep(5 * time.Millisecond)
	}
	eng := srv.eng.Load().(gnet.Engine)

	// a gnet client engine in the same process: its connections (TCP and connected UDP) are stormed too
	cli, err := gnet.NewClient(&cliHandler{}, gnet.WithMulticore(true), gnet.WithNumEventLoop(2), gnet.WithEdgeTriggeredIO(c.ET), gnet.WithTicker(false))
	var cliConns sync.Map
	var ncli atomic.Int64
	if err == nil {
		if err = cli.Start(); err != nil {
			cli = nil
		}
	} else {
		cli = nil
	}
	dialCli := func(network, addr string) {
		if cli == nil {
			return
		}
		if cc, err := cli.Dial(network, addr); err == nil {
			cliConns.Store(ncli.Add(1), cc)
		}
	}
	for i := 0; i < 3; i++ {
		dialCli("tcp", a.tcp)
		dialCli("udp", a.udp)
	}

	stop := make(chan struct{})
	var cw sync.WaitGroup
	for i := 0; i < 6; i++ {
		cw.Add(1)
		r := tr.NewRand(rnd.U64())
		if i%2 == 0 {
			go churnClient("tcp", a.tcp, r, stop, &cw)
		} else {
			go churnClient("unix", a.unixPath, r, stop, &cw)
		}
	}
	cw.Add(1)
	go func() { // datagrams towards the server
		defer cw.Done()
		uc, err := net.Dial("udp", a.udp)
		if err != nil {
			return
		}
		defer uc.Close()
		for {
			select {
			case <-stop:
				return
			default:
			}
			_, _ = uc.Write([]byte("dgram"))
			time.Sleep(500 * time.Microsecond)
		}
	}()

	var budget atomic.Int64
	budget.Store(12)
	stopping := make(chan struct{})
	var sw sync.WaitGroup
	for g := 0; g < 8; g++ {
		sw.Add(1)
		r := tr.NewRand(rnd.U64())
		g := g
		go func() {
			defer sw.Done()
			cnt := map[string]int{}
			defer total.add(cnt)
			stopCalled := false
			for k := 0; ; k++ {
				select {
				case <-stop:
					return
				default:
				}
				select {
				case <-stopping:
					// engine stop requested from several goroutines at once, the others keep calling
					if !stopCalled && g < 3 {
						stopCalled = true
						cnt["api.Stop"]++
						ctx, cancel := context.WithTimeout(context.Background(), 5*time.Second)
						_ = eng.Stop(ctx)
						cancel()
					}
				default:
				}
				var pick gnet.Conn
				if g%4 == 3 {
					if n := int(ncli.Load()); n > 0 {
						if v, ok := cliConns.Load(int64(1 + r.Intn(n))); ok {
							pick = v.(gnet.Conn)
						}
					}
					if pick != nil && r.Intn(40) == 0 { // replace client connections that were closed
						if r.Intn(2) == 0 {
							dialCli("udp", a.udp)
						} else {
							dialCli("tcp", a.tcp)
						}
					}
				} else if n := int(srv.nconn.Load()); n > 0 {
					lo := n - 24 // prefer recent connections, but also hit stale (closed) ones
					if lo < 1 || r.Intn(10) == 0 {
						lo = 1
					}
					if v, ok := srv.conns.Load(int64(lo + r.Intn(n-lo+1))); ok {
						pick = v.(gnet.Conn)
					}
				}
				if pick == nil {
					time.Sleep(200 * time.Microsecond)
					continue
				}
				safeCall(r, pick, srv, a.tcp, cnt, &budget)
				if k%16 == 0 {
					time.Sleep(time.Duration(r.Intn(300)) * time.Microsecond)
				}
			}
		}()
	}

	time.Sleep(dur)
	close(stopping) // Engine.Stop from three goroutines while everything else goes on
	var res string
	select {
	case <-runErr:
	case <-time.After(15 * time.Second):
		res = "engine did not stop"
	}
	// the safe operations may be called at any time: also right after the engine has gone
	time.Sleep(10 * time.Millisecond)
	close(stop)
	sw.Wait()
	cw.Wait()
	if cli != nil {
		// Client.Stop while a goroutine still calls the API on client connections
		var xw sync.WaitGroup
		xw.Add(1)
		go func() {
			defer xw.Done()
			r := tr.NewRand(rnd.U64())
			cnt := map[string]int{}
			for i := 0; i < 300; i++ {
				if n := int(ncli.Load()); n > 0 {
					if v, ok := cliConns.Load(int64(1 + r.Intn(n))); ok {
						cc := v.(gnet.Conn)
						switch r.Intn(4) {
						case 0:
							_ = cc.AsyncWrite([]byte("late"), nil)
							cnt["api.AsyncWrite"]++
						case 1:
							_ = cc.Fd()
							cnt["api.Fd"]++
						case 2:
							_ = cc.SafeContext()
							cnt["api.SafeContext"]++
						case 3:
							_ = cc.Wake(nil)
							cnt["api.Wake"]++
						}
					}
				}
			}
			total.add(cnt)
		}()
		_ = cli.Stop()
		xw.Wait()
	}
	total.add(map[string]int{"cb.open": int(srv.opened.Load()), "cb.close": int(srv.closed.Load()), "cb.traffic": int(srv.traffic.Load()),
		"cb.tick": int(srv.ticks.Load()), "cb.async": int(srv.acb.Load()), "cb.exec": int(srv.execs.Load())})
	return res
}

// ccStart: the Engine handle is handed to user code in OnBoot; a goroutine started
// there calls CountConnections while the engine is still starting.
func ccStart(c cell) childResult {
	total := &apiCounts{m: map[string]int{}}
	for k := 0; k < 6; k++ {
		var stopFlag atomic.Bool
		done := make(chan struct{})
		var calls atomic.Int64
		srv := &stormSrv{boot: make(chan struct{})}
		srv.onBoot = func(eng gnet.Engine) {
			go func() {
				defer close(done)
				for !stopFlag.Load() {
					_ = eng.CountConnections()
					calls.Add(1)
				}
				ctx, cancel := context.WithTimeout(context.Background(), 5*time.Second)
				_ = eng.Stop(ctx)
				cancel()
			}()
			time.Sleep(2 * time.Millisecond)
		}
		dir := fmt.Sprintf("%s/b%d", c.Dir, k)
		_ = mkdir(dir)
		runErr := make(chan error, 1)
		go func() {
			runErr <- gnet.Run(srv, "unix://"+dir+"/s.sock", gnet.WithMulticore(true), gnet.WithNumEventLoop(c.Loops), gnet.WithLoadBalancing(lbOf(k%3)))
		}()
		time.Sleep(time.Duration(c.Millis/6+20) * time.Millisecond)
		stopFlag.Store(true)
		select {
		case <-done:
		case <-time.After(10 * time.Second):
			return childResult{Err: "CountConnections goroutine did not finish", Counts: total.m}
		}
		select {
		case <-runErr:
		case <-time.After(10 * time.Second):
			return childResult{Err: "engine did not stop", Counts: total.m}
		}
		total.add(map[string]int{"api.CountConnections": int(calls.Load()), "api.Stop": 1})
	}
	return childResult{Counts: total.m}
}
