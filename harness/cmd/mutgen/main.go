// mutgen enumerates small syntactic mutants of one Go source file (development aid for
// bin/mutsweep: which single-token changes of the code does a check notice?).
//
//	mutgen -count file.go          number of mutants
//	mutgen -k N file.go            the N-th mutant on stdout, its description on stderr
//
// Operators: comparison and arithmetic operator swaps, && / ||, negated if-condition,
// small integer literal +1, deletion of an assignment / call / inc-dec statement, `return`
// of the zero value left alone (no type information is used).
package main

import (
	"bytes"
	"flag"
	"fmt"
	"go/ast"
	"go/parser"
	"go/printer"
	"go/token"
	"os"
	"strconv"
)

type mutation struct {
	desc  string
	apply func()
	undo  func()
}

var swaps = map[token.Token][]token.Token{
	token.LSS: {token.LEQ}, token.LEQ: {token.LSS}, token.GTR: {token.GEQ}, token.GEQ: {token.GTR},
	token.EQL: {token.NEQ}, token.NEQ: {token.EQL},
	token.ADD: {token.SUB}, token.SUB: {token.ADD},
	token.LAND: {token.LOR}, token.LOR: {token.LAND},
	token.REM: {token.QUO}, token.AND: {token.OR}, token.SHL: {token.SHR}, token.SHR: {token.SHL},
}

func main() {
	count := flag.Bool("count", false, "")
	k := flag.Int("k", -1, "")
	flag.Parse()
	if flag.NArg() != 1 {
		fmt.Fprintln(os.Stderr, "usage: mutgen (-count | -k N) file.go")
		os.Exit(2)
	}
	fset := token.NewFileSet()
	f, err := parser.ParseFile(fset, flag.Arg(0), nil, parser.ParseComments)
	if err != nil {
		fmt.Fprintln(os.Stderr, err)
		os.Exit(2)
	}
	var muts []mutation
	pos := func(n ast.Node) string { return fmt.Sprintf("line %d", fset.Position(n.Pos()).Line) }
	src := func(n ast.Node) string {
		var b bytes.Buffer
		printer.Fprint(&b, fset, n)
		s := b.String()
		if len(s) > 70 {
			s = s[:70] + "..."
		}
		return s
	}
	ast.Inspect(f, func(n ast.Node) bool {
		switch v := n.(type) {
		case *ast.FuncDecl:
			if v.Body == nil {
				return false
			}
		case *ast.BinaryExpr:
			for _, t := range swaps[v.Op] {
				v, old, t := v, v.Op, t
				// string concatenation would not compile with '-': skip obvious literals
				if old == token.ADD {
					if l, ok := v.X.(*ast.BasicLit); ok && l.Kind == token.STRING {
						continue
					}
					if l, ok := v.Y.(*ast.BasicLit); ok && l.Kind == token.STRING {
						continue
					}
				}
				muts = append(muts, mutation{fmt.Sprintf("%s: %s -> %s in `%s`", pos(v), old, t, src(v)),
					func() { v.Op = t }, func() { v.Op = old }})
			}
		case *ast.IfStmt:
			v, old := v, v.Cond
			muts = append(muts, mutation{fmt.Sprintf("%s: negate if-condition `%s`", pos(v), src(old)),
				func() { v.Cond = &ast.UnaryExpr{Op: token.NOT, X: &ast.ParenExpr{X: old}} }, func() { v.Cond = old }})
		case *ast.BasicLit:
			if v.Kind == token.INT {
				if x, err := strconv.ParseInt(v.Value, 0, 64); err == nil && x >= 0 && x <= 4096 {
					v, old := v, v.Value
					muts = append(muts, mutation{fmt.Sprintf("%s: literal %s -> %d", pos(v), old, x+1),
						func() { v.Value = strconv.FormatInt(x+1, 10) }, func() { v.Value = old }})
				}
			}
		case *ast.BlockStmt:
			for i, s := range v.List {
				del := false
				switch st := s.(type) {
				case *ast.AssignStmt:
					del = st.Tok != token.DEFINE
				case *ast.ExprStmt, *ast.IncDecStmt:
					del = true
				}
				if del {
					v, i, s := v, i, s
					muts = append(muts, mutation{fmt.Sprintf("%s: delete statement `%s`", pos(s), src(s)),
						func() { v.List[i] = &ast.EmptyStmt{Semicolon: s.Pos(), Implicit: false} }, func() { v.List[i] = s }})
				}
			}
		}
		return true
	})
	if *count {
		fmt.Println(len(muts))
		return
	}
	if *k < 0 || *k >= len(muts) {
		fmt.Fprintln(os.Stderr, "no such mutant")
		os.Exit(2)
	}
	m := muts[*k]
	m.apply()
	fmt.Fprintln(os.Stderr, m.desc)
	if err := printer.Fprint(os.Stdout, fset, f); err != nil {
		fmt.Fprintln(os.Stderr, err)
		os.Exit(2)
	}
}
