(* C04: callback lifecycle and connection count of the event-loop model, for every
   input stream.  Corollaries of Proofs/LoopATop.v (product_holds). *)
From GV Require Import Lib.Trace Model.Loop Spec.LoopSpec
  Proofs.LoopInv Proofs.LoopAState Proofs.LoopATop.
Open Scope string_scope.
Open Scope list_scope.
Open Scope Z_scope.

Theorem count_matches : forall i t, run_history i = Some t -> count_ok t = true.
Proof.
  intros i t H. unfold count_ok. rewrite check_runs.
  assert (Hp := product_holds i t H). unfold pst0 in Hp.
  apply runs_pstep_count in Hp.
  destruct (runs count_step [] t); congruence.
Qed.

Theorem lifecycle_holds : forall i t, run_history i = Some t -> lifecycle_ok t = true.
Proof.
  intros i t H. unfold lifecycle_ok. rewrite check_runs.
  assert (Hp := product_holds i t H). unfold pst0 in Hp.
  apply runs_pstep_count, runs_count_lc in Hp.
  destruct (runs lc_step [] t); congruence.
Qed.

Theorem stale_async_write : forall fuel cid d cb w,
  c_opened (wc w cid) = false ->
  run_task fuel (TAsyncWrite cid d cb) w =
  (RErr, if cb then emit (obs "acb" [ASym "write"; AInt cid; ASym "closed"]) w else w).
Proof. intros fuel cid d cb w H. cbn [run_task]. rewrite H. reflexivity. Qed.

Theorem stale_wake_close : forall fuel cid w,
  c_opened (wc w cid) = false ->
  el_wake fuel cid w = (RNil, w) /\ (forall e, el_close (S fuel) cid e w = (RNil, w)).
Proof.
  intros fuel cid w H. split.
  - unfold el_wake. rewrite H. reflexivity.
  - intros e. rewrite LoopAUnfold.el_close_S. cbv zeta. rewrite H. reflexivity.
Qed.

(* non-vacuity: a run that accepts a socket, opens it, reads, writes partially with
   EAGAIN, is woken, and closes from the handler; both checkers hold and see callbacks *)
Definition ex_input : list line := [
  ("cfg", [AInt 0; AInt 0; AInt 64; AInt 3; AInt 1024; AInt 10]);
  ("accepted", [AInt 5]);
  ("wait", [AInt 3; AInt 1]);
  ("r", [ASym "epctl"; AInt 0]);
  ("h", [ASym "write"; ABytes [1; 2; 3]]);
  ("r", [ASym "wr"; AInt 3; AInt 1]);
  ("r", [ASym "epctl"; AInt 0]);
  ("hret", [ASym "none"]);
  ("r", [ASym "epctl"; AInt 0]);
  ("wait", [AInt 5; AInt 1]);
  ("r", [ASym "read"; AInt 2; ABytes [7; 8]]);
  ("h", [ASym "read"; AInt 2]);
  ("h", [ASym "elclose"]);
  ("hret", [ASym "none"]);
  ("r", [ASym "wr"; AInt 2; AInt 2]);
  ("r", [ASym "epctl"; AInt 0]);
  ("r", [ASym "close"; AInt 0]);
  ("hret", [ASym "none"]);
  ("wait", [])
].

Example ex_history_callbacks :
  match run_history ex_input with
  | Some t => (count_ok t, lifecycle_ok t,
               List.length (filter (fun e => match e with EOut ("cb", _) => true | _ => false end) t))
  | None => (false, false, O)
  end = (true, true, 3%nat).
Proof. vm_compute. reflexivity. Qed.

(* the checker is not trivially true: a traffic callback after close is rejected *)
Example ex_lifecycle_rejects :
  lifecycle_ok [EOut (obs "cb" [ASym "open"; AInt 0]);
                EOut (obs "cb" [ASym "close"; AInt 0; ASym "nil"]);
                EOut (obs "cb" [ASym "traffic"; AInt 0])] = false.
Proof. vm_compute. reflexivity. Qed.
