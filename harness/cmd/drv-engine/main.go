// drv-engine drives the real gnet engine (built from the current tree with the
// x/sys/unix import swapped for the vunix shim) through scripted life-cycle
// scenarios and writes what it did and what it saw as a trace for the extracted
// model of Model/Engine.v (family "engine").  Two foci share the driver:
//
//	-focus control   C19: control calls in every phase of the engine's life
//	-focus shutdown  C06: every source of shutdown at every moment
//
// The driver is an interpreter of op lines (see Model/Engine.v, "correspondence
// runner"); the generators and -replay both go through X.do.  After every op the
// harness waits until the engine is quiescent and reports the events of that
// window per thread, which is what the model predicts.
package main

import (
	"context"
	"fmt"
	"net"
	"os"
	"strings"
	"time"

	"golang.org/x/sys/unix"

	gnet "github.com/panjf2000/gnet/v2"

	"verifharness/tr"
)

type nopLogger struct{}

func (nopLogger) Debugf(string, ...any) {}
func (nopLogger) Infof(string, ...any)  {}
func (nopLogger) Warnf(string, ...any)  {}
func (nopLogger) Errorf(string, ...any) {}
func (nopLogger) Fatalf(string, ...any) {}

func b2s(b bool) string { return tr.B(b) }

func (c *caseCfg) header() []string {
	return []string{"client=" + b2s(c.client), "loops=" + tr.I(c.nloops), "reuseport=" + b2s(c.reuseport),
		"ticker=" + b2s(c.ticker), "listeners=" + tr.I(c.nlis), "proto=" + c.proto, "et=" + b2s(c.et), "users=" + tr.I(c.nusers)}
}

func cfgFrom(m map[string]string) caseCfg {
	c := caseCfg{client: m["client"] == "1", nloops: tr.CfgInt(m, "loops", 1), reuseport: m["reuseport"] == "1",
		ticker: m["ticker"] == "1", nlis: tr.CfgInt(m, "listeners", 1), proto: m["proto"], et: m["et"] == "1",
		nusers: tr.CfgInt(m, "users", 4)}
	if c.proto == "" {
		c.proto = "tcp"
	}
	if c.nloops < 1 {
		c.nloops = 1
	}
	if c.nlis < 1 {
		c.nlis = 1
	}
	return c
}

func (c *caseCfg) cfgOp() tr.Line {
	nlis := c.nlis
	if c.client {
		nlis = 0
	}
	return tr.L("cfg", b2s(c.client), tr.I(c.nloops), b2s(c.reactor()), b2s(c.ticker), tr.I(nlis), tr.I(c.nusers))
}

// ---------------------------------------------------------------- interpreter

func arg(l tr.Line, i int) string {
	if i < len(l.Args) {
		return l.Args[i]
	}
	return ""
}

func (x *X) findConn(cid int) *connRec {
	x.mu.Lock()
	defer x.mu.Unlock()
	for _, c := range x.conns {
		if c.cid == cid {
			return c
		}
	}
	return nil
}

func (x *X) newConnRec(h hres) *connRec {
	cr := &connRec{cid: -1, li: -1, tag: -1, openH: h}
	x.conns = append(x.conns, cr)
	return cr
}

// do executes one op on the implementation and returns the op line as it goes into
// the trace (observed policy inputs filled in) together with the obs lines of its window.
func (x *X) do(op tr.Line) (tr.Line, []tr.Line) {
	var direct []tr.Line
	out := op
	x.bump()
	switch op.Name {
	case "boot":
		x.boot(actOf(arg(op, 0)))
	case "pin", "release":
		on := op.Name == "pin"
		x.mu.Lock()
		switch arg(op, 0) {
		case "R:boot":
			if on {
				x.pinBoot = true
			} else if x.pinBoot {
				x.pinBoot = false
				close(x.relBoot)
			}
		case "R:onshutdown":
			if on {
				x.pinOnShutdown = true
			} else if x.pinOnShutdown {
				x.pinOnShutdown = false
				close(x.relOnShutdown)
			}
		case "R:closepollers":
			if on {
				x.pinClosePollers = true
			} else if x.pinClosePollers {
				x.pinClosePollers = false
				close(x.relClosePollers)
			}
		case "T":
			x.pinT = on
		case "L":
			x.pinL[op.Int(1)] = on
		}
		wasBoot := !on && arg(op, 0) == "R:boot"
		act := x.bootAct
		x.cond.Broadcast()
		x.mu.Unlock()
		if wasBoot {
			x.waitBooted(act)
		}
	case "connect":
		out = x.doConnect(op)
	case "traffic":
		x.doTraffic(op)
	case "peerclose":
		x.doPeerClose(op)
	case "datagram":
		out = x.doDatagram(op)
	case "tick":
		x.mu.Lock()
		x.tickQ = append(x.tickQ, actOf(arg(op, 0)))
		n := len(x.events)
		pinned := x.pinT
		x.cond.Broadcast()
		x.mu.Unlock()
		x.mu.Lock()
		alive := x.started && !x.returned
		x.mu.Unlock()
		if x.cfg.ticker && !pinned && alive && !x.cancelled() {
			x.waitFor(time.Second, func() bool { return len(x.tickQ) == 0 && len(x.events) > n })
		}
	case "call":
		out = x.doCall(op)
	case "expire":
		g := op.Int(0)
		x.mu.Lock()
		cancel := x.pendingStop[g]
		x.mu.Unlock()
		if cancel != nil {
			cancel()
			x.waitFor(time.Second, func() bool { return !x.busy[g] })
		}
	case "clientstop":
		if x.cli != nil {
			x.mu.Lock()
			already := x.rGoid == -1
			x.rGoid = -1
			x.mu.Unlock()
			if !already {
				x.request("client.stop")
				go func() {
					err := x.cli.Stop()
					x.mu.Lock()
					x.returned, x.retErr = true, err
					if err == nil {
						x.logLocked(rankR, []string{"R"}, false, "ret", "nil")
					} else {
						x.logLocked(rankR, []string{"R"}, false, "ret", "err")
					}
					x.mu.Unlock()
					x.done <- err
				}()
				x.mu.Lock()
				pins := x.anyPinLocked()
				x.mu.Unlock()
				if !pins {
					x.waitFor(3*time.Second, func() bool { return x.returned })
				}
			}
		}
	case "probe":
		x.settleAll()
		_, c, i, _ := gnet.VerifEngState(x.engine())
		n := x.engine().CountConnections()
		direct = append(direct, tr.L("probe", b2s(c), b2s(i), tr.I(n)))
	case "poke":
		x.poke()
	case "finish":
		direct = append(direct, x.finish()...)
	}
	x.settleAll()
	return out, append(direct, x.window(op.Name == "finish")...)
}

func (x *X) dialTarget() (string, string) {
	// connect to the first listener (all listeners are served by the same loops)
	return x.lisNet[0], x.lisAddr[0]
}

func (x *X) doConnect(op tr.Line) tr.Line {
	h := hresOf(arg(op, 1), arg(op, 2), arg(op, 3))
	// loop 99 = not observed: the model drops the op (no such loop)
	out := tr.L("connect", "99", actName(h.act), b2s(h.wfail), actName(h.cact))
	if x.cfg.client || x.cfg.proto == "udp" || len(x.lisNet) == 0 {
		return out
	}
	x.mu.Lock()
	ret := x.returned
	x.mu.Unlock()
	if ret {
		return out
	}
	nw, ad := x.dialTarget()
	d := net.Dialer{Timeout: time.Second}
	// the lock is held across the dial so that OnOpen (which takes it) finds the pending record
	x.mu.Lock()
	pc, err := d.Dial(nw, ad)
	if err != nil {
		x.mu.Unlock()
		return out
	}
	cr := x.newConnRec(h)
	cr.cid = x.nextCid
	x.nextCid++
	cr.peer = pc
	if pc.LocalAddr() != nil {
		cr.peerLocal = pc.LocalAddr().String()
	}
	x.pendingConn = append(x.pendingConn, cr)
	x.mu.Unlock()
	max := time.Second
	if x.cancelled() {
		max = 150 * time.Millisecond
	}
	x.waitFor(max, func() bool { return cr.entered > 0 })
	if h.wfail || h.act == gnet.Close {
		// the callback closes the connection: its OnClose belongs to this window
		x.waitFor(300*time.Millisecond, func() bool { return cr.closed > 0 || cr.entered == 0 || x.pinL[cr.li] })
	}
	x.mu.Lock()
	li := cr.li
	x.mu.Unlock()
	if li < 0 {
		li = 0
		if !x.cfg.reactor() {
			li = 99 // not observed: the kernel queued the connection on a listener whose loop is gone
		}
	}
	out.Args[0] = tr.I(li)
	return out
}

func (x *X) peerOf(cr *connRec) net.Conn {
	if cr.peer != nil {
		return cr.peer
	}
	if cr.c == nil || cr.c.LocalAddr() == nil {
		return nil
	}
	key := cr.c.LocalAddr().String()
	var pc net.Conn
	x.waitFor(300*time.Millisecond, func() bool { pc = x.auxConns[key]; return pc != nil })
	cr.peer = pc
	return pc
}

func (x *X) doTraffic(op tr.Line) {
	cr := x.findConn(op.Int(0))
	if cr == nil {
		return
	}
	h := hresOf(arg(op, 2), arg(op, 3), arg(op, 4))
	pc := x.peerOf(cr)
	if pc == nil {
		return
	}
	x.mu.Lock()
	cr.trafQ = append(cr.trafQ, h)
	n := cr.entered
	x.mu.Unlock()
	pc.SetWriteDeadline(time.Now().Add(time.Second))
	if _, err := pc.Write([]byte("ping")); err != nil {
		x.mu.Lock()
		cr.trafQ = cr.trafQ[:len(cr.trafQ)-1]
		x.mu.Unlock()
		return
	}
	x.waitFor(400*time.Millisecond, func() bool { return cr.entered > n || cr.closed > 0 })
	if h.wfail || h.act == gnet.Close {
		x.waitFor(300*time.Millisecond, func() bool { return cr.closed > 0 || cr.entered == n || x.pinL[cr.li] })
	}
}

func (x *X) doPeerClose(op tr.Line) {
	cr := x.findConn(op.Int(0))
	if cr == nil {
		return
	}
	pc := x.peerOf(cr)
	if pc == nil {
		return
	}
	x.mu.Lock()
	cr.cact = actOf(arg(op, 2))
	n := cr.entered
	x.mu.Unlock()
	pc.Close()
	x.waitFor(400*time.Millisecond, func() bool { return cr.entered > n || cr.closed > 0 })
}

func (x *X) doDatagram(op tr.Line) tr.Line {
	a := actOf(arg(op, 1))
	out := tr.L("datagram", "0", actName(a))
	if x.cfg.proto != "udp" || len(x.lisAddr) == 0 {
		return out
	}
	if x.udpPeer == nil {
		c, err := net.Dial("udp", x.lisAddr[0])
		if err != nil {
			return out
		}
		x.udpPeer = c
	}
	x.mu.Lock()
	x.datagramQ = append(x.datagramQ, a)
	n := len(x.events)
	x.mu.Unlock()
	x.udpPeer.Write([]byte("dgram"))
	li := 99 // not observed: the kernel handed the datagram to a loop that is gone
	x.waitFor(400*time.Millisecond, func() bool {
		for _, e := range x.events[n:] {
			if len(e.kind) > 0 && e.kind[0] == "datagram" {
				fmt.Sscan(e.thr[1], &li)
				return true
			}
		}
		return false
	})
	out.Args[0] = tr.I(li)
	return out
}

// poke: after Run returned, the peers keep talking to the (former) engine.
func (x *X) poke() {
	x.mu.Lock()
	conns := append([]*connRec(nil), x.conns...)
	x.mu.Unlock()
	for _, cr := range conns {
		if cr.peer != nil {
			cr.peer.SetWriteDeadline(time.Now().Add(20 * time.Millisecond))
			cr.peer.Write([]byte("poke"))
		}
	}
	if !x.cfg.client && len(x.lisNet) > 0 && x.cfg.proto != "udp" {
		d := net.Dialer{Timeout: 20 * time.Millisecond}
		if c, err := d.Dial(x.lisNet[0], x.lisAddr[0]); err == nil {
			c.Write([]byte("poke"))
			defer c.Close()
		}
	}
	if x.udpPeer != nil {
		x.udpPeer.Write([]byte("poke"))
	}
	time.Sleep(8 * time.Millisecond)
}

// ---------------------------------------------------------------- control calls

func (x *X) phaseBelief() string {
	alloc, cancelled, insd, loops := gnet.VerifEngState(x.engine())
	switch {
	case !alloc || x.cfg.client:
		return "empty"
	case insd:
		return "shutdown"
	case loops == 0:
		return "booting" // the handle exists, the event loops do not yet
	case cancelled:
		return "stopping"
	}
	return "running"
}

// expected result class of a call per the property's table (direct oracle of C19)
func (x *X) tableWant(fn string, phase string, args []string) string {
	base := map[string]string{"empty": "empty", "shutdown": "inshutdown"}[phase]
	if phase == "booting" {
		if fn == "register" {
			return "empty"
		}
		return ""
	}
	switch fn {
	case "validate", "dup", "duplistener", "register", "stop":
		if base != "" {
			return base
		}
	case "count":
		if base != "" {
			return "count -1"
		}
		return ""
	case "elregister", "elenroll", "execute":
		if phase == "shutdown" {
			return "inshutdown"
		}
	}
	switch fn {
	case "validate":
		return "nil"
	case "dup":
		if x.cfg.nlis > 1 {
			return "unsupported"
		}
		return "nil"
	case "duplistener":
		if args[0] == "1" {
			return "nil"
		}
		return "invalidaddr"
	case "register":
		if args[0] == "none" {
			return "invalidaddr"
		}
		return "nil"
	case "elregister":
		if args[1] == "1" {
			return "invalidaddr"
		}
		return "nil"
	case "elenroll":
		if args[1] == "1" {
			return "invalidconn"
		}
		return "nil"
	case "execute":
		if args[1] == "1" {
			return "nilrunnable"
		}
		return "nil"
	}
	return ""
}

func (x *X) doCall(op tr.Line) tr.Line {
	g := op.Int(0)
	fn := arg(op, 1)
	a := op.Args[2:]
	out := tr.L("call", append([]string{}, op.Args...)...)
	eng := x.engine()
	ch := x.user(g)
	x.mu.Lock()
	if x.busy[g] {
		x.mu.Unlock()
		rk, th := thrU(g)
		x.log(rk, th, false, "res", "disabled") // the goroutine is blocked in an earlier call
		return out
	}
	x.busy[g] = true
	neverStarted := x.returned && !x.cfg.client && x.haveEng
	x.mu.Unlock()
	if neverStarted {
		_, _, _, loops := gnet.VerifEngState(eng)
		neverStarted = loops == 0
	}
	phase := x.phaseBelief()
	check := func(got string) {
		want := x.tableWant(fn, phase, a)
		if neverStarted {
			// the handle of an engine whose Run returned from OnBoot: never started
			want = map[string]string{"validate": "empty", "dup": "empty", "duplistener": "empty", "register": "empty", "stop": "empty", "count": "count -1"}[fn]
			if want != "" && got != want {
				x.fail("control-table", fmt.Sprintf("never-started-handle fn=%s got=%s want=%s", fn, strings.ReplaceAll(got, " ", ""), strings.ReplaceAll(want, " ", "")),
					"the handle captured in OnBoot of a Run that returned without starting is not reported as empty")
			}
			return
		}
		if want != "" && got != want && x.phaseBelief() == phase {
			x.fail("control-table", fmt.Sprintf("fn=%s phase=%s got=%s want=%s", fn, phase, strings.ReplaceAll(got, " ", ""), strings.ReplaceAll(want, " ", "")), "result differs from the property's table")
		}
	}
	waitRes := true
	switch fn {
	case "validate":
		ch <- func() { c := classOf(eng.Validate()); check(c); x.res(g, c) }
	case "count":
		ch <- func() {
			n := eng.CountConnections()
			if n < 0 {
				check("count -1")
			}
			x.res(g, "count", tr.I(n))
		}
	case "dup":
		ch <- func() {
			fd, err := eng.Dup()
			if err == nil {
				unix.Close(fd)
			}
			c := classOf(err)
			check(c)
			x.res(g, c)
		}
	case "duplistener":
		ch <- func() {
			nw, ad := "tcp", "192.0.2.1:9"
			if arg(op, 2) == "1" && len(x.lisNet) > 0 {
				nw, ad = x.lisNet[len(x.lisNet)-1], x.lisAddr[len(x.lisAddr)-1]
			}
			fd, err := eng.DupListener(nw, ad)
			if err == nil {
				unix.Close(fd)
			}
			c := classOf(err)
			check(c)
			x.res(g, c)
		}
	case "register", "elregister", "elenroll":
		out, waitRes = x.doRegister(op, g, fn, eng, ch, check)
	case "execute":
		li := op.Int(2)
		x.mu.Lock()
		el := x.loopHandle[li]
		x.mu.Unlock()
		if el == nil {
			x.mu.Lock()
			x.busy[g] = false
			x.mu.Unlock()
			rk, th := thrU(g)
			x.log(rk, th, false, "res", "disabled")
			return out
		}
		n := op.Int(4)
		ch <- func() {
			var r gnet.Runnable
			if arg(op, 3) != "1" {
				r = verifRunnable{x, n}
			}
			c := classOf(el.Execute(context.Background(), r))
			check(c)
			x.res(g, c)
		}
	case "stop", "pkgstop":
		expired := arg(op, len(op.Args)-1) == "1"
		ctx, cancel := context.WithCancel(context.Background())
		if expired {
			cancel()
		}
		x.mu.Lock()
		x.pendingStop[g] = cancel
		x.mu.Unlock()
		pkgAddr := "tcp://192.0.2.1:9"
		if fn == "pkgstop" && arg(op, 2) == "1" && len(x.addrs) > 0 {
			pkgAddr = x.addrs[0]
		}
		willCancel := phase == "running" || phase == "stopping" || phase == "booting"
		if fn == "pkgstop" {
			willCancel = gnet.VerifEngInAllEngines(pkgAddr)
		}
		if willCancel {
			x.request(fn)
		}
		ch <- func() {
			var err error
			if fn == "stop" {
				err = eng.Stop(ctx)
			} else {
				err = gnet.Stop(ctx, pkgAddr)
			}
			c := classOf(err)
			_, _, insd, _ := gnet.VerifEngState(eng)
			if err == nil && !insd {
				x.fail("Stop", "nil-before-shutdown-complete", "Stop returned nil while inShutdown was not set")
			}
			if err == nil {
				// "Stop returns nil only after the engine has fully shut down": judged on the connections, not on
				// the engine's own flag -- every opened connection has had its OnClose and no callback is running
				x.mu.Lock()
				for _, cr := range x.conns {
					if cr.opened > cr.closed || cr.entered > cr.done {
						x.fails = append(x.fails, [3]string{"Stop", "nil-before-connections-closed",
							fmt.Sprintf("Stop returned nil while connection %d was still open or inside a callback (opened=%d closed=%d entered=%d done=%d)", cr.cid, cr.opened, cr.closed, cr.entered, cr.done)})
						break
					}
				}
				x.mu.Unlock()
			}
			if fn == "stop" {
				if c == "ctxerr" && !expired && ctx.Err() == nil {
					x.fail("Stop", "ctxerr-with-live-context", "")
				}
				if _, cancelled, _, _ := gnet.VerifEngState(eng); c == "ctxerr" && willCancel && !cancelled {
					// "returns the context's error if the context ends first, without cancelling the shutdown"
					x.fail("Stop", "ctxerr-without-shutdown", "Stop returned the context's error but the shutdown of the running engine was never started")
				}
				if phase == "empty" || phase == "shutdown" || neverStarted {
					check(c)
				}
			}
			x.mu.Lock()
			delete(x.pendingStop, g)
			x.mu.Unlock()
			x.res(g, c)
		}
		// a live-context Stop of a running engine returns when the shutdown is complete
		waitRes = expired || phase == "empty" || phase == "shutdown"
		if !waitRes && !settleSkip {
			x.waitFor(time.Second, func() bool { return !x.busy[g] || x.cancelled() })
		}
	case "dial":
		out, waitRes = x.doDial(op, g, ch)
	case "clistop":
		// Client.Stop from a user goroutine on a client the R goroutine has already stopped
		cli := x.ensureClient()
		x.mu.Lock()
		stopped := x.returned
		x.mu.Unlock()
		if cli == nil || !stopped {
			x.mu.Lock()
			x.busy[g] = false
			x.mu.Unlock()
			rk, th := thrU(g)
			x.log(rk, th, false, "res", "disabled")
			return out
		}
		ch <- func() { x.res(g, classOf(cli.Stop())) }
	default:
		x.mu.Lock()
		x.busy[g] = false
		x.mu.Unlock()
		return out
	}
	if waitRes && !settleSkip {
		x.waitFor(time.Second, func() bool { return !x.busy[g] })
	}
	return out
}

func (x *X) deadAddr() net.Addr {
	return &net.UnixAddr{Net: "unix", Name: fmt.Sprintf("/var/tmp/veng-none-%d.sock", os.Getpid())}
}

// register <tgt> <li> <dialok> <act> <wfail> <cact> | elregister/elenroll <li> <isnil> <dialok> <act> <wfail> <cact>
func (x *X) doRegister(op tr.Line, g int, fn string, eng gnet.Engine, ch chan userCmd, check func(string)) (tr.Line, bool) {
	out := tr.L("call", append([]string{}, op.Args...)...)
	x.ensureAux()
	var tgt string
	var liPos int
	var isnil, dialok bool
	if fn == "register" {
		tgt, liPos, dialok = arg(op, 2), 3, arg(op, 4) == "1"
	} else {
		liPos, isnil, dialok = 2, arg(op, 3) == "1", arg(op, 4) == "1"
		tgt = map[string]string{"elregister": "addr", "elenroll": "conn"}[fn]
	}
	h := hresOf(arg(op, 5), arg(op, 6), arg(op, 7))
	var el gnet.EventLoop
	if fn != "register" {
		x.mu.Lock()
		el = x.loopHandle[op.Int(liPos)]
		x.mu.Unlock()
		if el == nil {
			x.mu.Lock()
			x.busy[g] = false
			x.mu.Unlock()
			rk, th := thrU(g)
			x.log(rk, th, false, "res", "disabled")
			return out, false
		}
	}
	x.mu.Lock()
	cr := x.newConnRec(h)
	cr.tag = x.nextTag
	x.nextTag++
	x.byTag[cr.tag] = cr
	x.mu.Unlock()
	ctx := gnet.NewContext(context.Background(), cr.tag)
	var addr net.Addr
	var nc net.Conn
	switch tgt {
	case "addr":
		if dialok {
			addr = x.aux.Addr()
		} else {
			addr = x.deadAddr()
		}
		if fn == "register" {
			ctx = gnet.NewNetAddrContext(ctx, addr)
		}
	case "conn":
		if !isnil {
			c, err := net.Dial("tcp", x.aux.Addr().String())
			if err == nil {
				nc = c
				if !dialok {
					// a connection the caller has already closed: the worker cannot duplicate its descriptor,
					// the one result must be an error (same outcome as a failing dial)
					nc.Close()
				}
			}
		}
		if fn == "register" && nc != nil {
			ctx = gnet.NewNetConnContext(ctx, nc)
		}
	}
	resolved := make(chan struct{})
	accepted := false
	ch <- func() {
		var rch <-chan gnet.RegisteredResult
		var err error
		switch fn {
		case "register":
			rch, err = eng.Register(ctx)
		case "elregister":
			if isnil {
				rch, err = el.Register(ctx, nil)
			} else {
				rch, err = el.Register(ctx, addr)
			}
		case "elenroll":
			if isnil || nc == nil {
				rch, err = el.Enroll(ctx, nil)
			} else {
				rch, err = el.Enroll(ctx, nc)
			}
		}
		c := classOf(err)
		check(c)
		if err == nil && rch != nil {
			accepted = true
			x.mu.Lock()
			k := x.nWorkers
			x.nWorkers++
			if dialok {
				cr.cid = x.nextCid
				x.nextCid++
			}
			x.workerExpect[k] = true
			x.mu.Unlock()
			if x.cancelled() {
				// accepted while the engine was already shutting down
				x.mu.Lock()
				x.workerLate[k] = true
				x.mu.Unlock()
			}
			x.collect(k, rch)
		}
		x.res(g, c)
		close(resolved)
	}
	select {
	case <-resolved:
	case <-time.After(time.Second):
		return out, false
	}
	if !accepted {
		return out, false
	}
	x.mu.Lock()
	k := x.nWorkers - 1
	pins := x.anyPinLocked()
	x.mu.Unlock()
	// the result arrives unless the target loop is gone (known weak spot) or pinned
	max := 1500 * time.Millisecond
	if pins || x.cancelled() {
		max = 60 * time.Millisecond
	}
	x.waitFor(max, func() bool { return x.workerDone[k] || (cr.entered > 0 && pins) })
	x.mu.Lock()
	li := cr.li
	x.mu.Unlock()
	if li < 0 {
		li = 0
	}
	if fn == "register" {
		out.Args[liPos] = tr.I(li)
	}
	return out, false
}

// dial <li> <act> <wfail> <cact>: Client.Dial from goroutine g
func (x *X) doDial(op tr.Line, g int, ch chan userCmd) (tr.Line, bool) {
	out := tr.L("call", append([]string{}, op.Args...)...)
	if x.ensureClient() == nil {
		x.mu.Lock()
		x.busy[g] = false
		x.mu.Unlock()
		rk, th := thrU(g)
		x.log(rk, th, false, "res", "disabled")
		return out, false
	}
	x.ensureAux()
	h := hresOf(arg(op, 3), arg(op, 4), arg(op, 5))
	x.mu.Lock()
	// a client that was never started, or has been stopped, refuses the request: no connection identity is used up
	refused := !x.booted || x.returned
	x.mu.Unlock()
	if refused {
		ch <- func() {
			var err error
			if panicked, msg := tr.Guard(func() { _, err = x.cli.DialContext("tcp", x.aux.Addr().String(), nil) }); panicked {
				x.fail("control-table", "client-dial-panics", msg)
				x.res(g, "panic")
				return
			}
			x.res(g, classOf(err))
		}
		if !x.waitFor(time.Second, func() bool { return !x.busy[g] }) {
			x.fail("control-table", "client-dial-blocks", "Client.Dial on a client that is not running had not returned after 1 s")
		}
		return out, false
	}
	x.mu.Lock()
	cr := x.newConnRec(h)
	cr.tag = x.nextTag
	x.nextTag++
	x.byTag[cr.tag] = cr
	cr.cid = x.nextCid
	x.nextCid++
	pins := x.anyPinLocked()
	x.mu.Unlock()
	ch <- func() {
		_, err := x.cli.DialContext("tcp", x.aux.Addr().String(), cr.tag)
		x.res(g, classOf(err))
	}
	max := time.Second
	if pins || x.cancelled() {
		max = 60 * time.Millisecond
	}
	x.waitFor(max, func() bool { return !x.busy[g] || (cr.entered > 0 && pins) })
	x.mu.Lock()
	li := cr.li
	x.mu.Unlock()
	if li < 0 {
		li = 0
	}
	out.Args[2] = tr.I(li)
	return out, false
}

// ---------------------------------------------------------------- end of case, direct oracles

func (x *X) finish() []tr.Line {
	var out []tr.Line
	x.settleAll()
	x.mu.Lock()
	x.pinnedAtEnd = x.anyPinLocked()
	for k := 0; k < x.nWorkers; k++ {
		if !x.workerDone[k] {
			_, th := thrW(k)
			out = append(out, tr.L("ev", append(th, "result", "none")...))
		}
	}
	x.mu.Unlock()
	return out
}

// cleanup releases everything and forces the engine down (not part of the trace).
func (x *X) cleanup() {
	// let the pending channel-closure checks of delivered registration results finish (at most 200 ms each)
	cc := make(chan struct{})
	go func() { x.closeChecks.Wait(); close(cc) }()
	select {
	case <-cc:
	case <-time.After(500 * time.Millisecond):
	}
	x.mu.Lock()
	x.endEvents = len(x.events) // the oracles judge what happened before the harness tears the case down
	x.endWorkers = map[int]bool{}
	for k, v := range x.workerDone {
		x.endWorkers[k] = v
	}
	if !x.pinnedAtEnd {
		x.pinnedAtEnd = x.anyPinLocked()
	}
	x.caseOver = true
	if x.pinBoot {
		x.pinBoot = false
		close(x.relBoot)
	}
	if x.pinOnShutdown {
		x.pinOnShutdown = false
		close(x.relOnShutdown)
	}
	if x.pinClosePollers {
		x.pinClosePollers = false
		close(x.relClosePollers)
	}
	x.pinT = false
	for k := range x.pinL {
		x.pinL[k] = false
	}
	for _, c := range x.pendingStop {
		c()
	}
	booted := x.rGoid != 0
	ret := x.returned
	x.cond.Broadcast()
	x.mu.Unlock()
	if booted && !ret {
		if x.cfg.client {
			x.mu.Lock()
			stopping := x.rGoid == -1
			x.mu.Unlock()
			if !stopping && x.cli != nil {
				x.waitFor(time.Second, func() bool { return x.booted })
				go func() { x.cli.Stop() }()
			}
		} else {
			x.waitFor(2*time.Second, func() bool { return x.haveEng || x.returned })
			ctx, cancel := context.WithTimeout(context.Background(), 3*time.Second)
			eng := x.engine()
			go func() { eng.Stop(ctx); cancel() }()
			select {
			case <-x.done:
			case <-time.After(4 * time.Second):
			}
		}
	}
	for _, cr := range x.conns {
		if cr.peer != nil {
			cr.peer.Close()
		}
	}
	if x.aux != nil {
		x.aux.Close()
	}
	x.mu.Lock()
	for _, c := range x.auxConns {
		c.Close()
	}
	x.mu.Unlock()
	if x.udpPeer != nil {
		x.udpPeer.Close()
	}
	for _, ch := range x.users {
		close(ch)
	}
	for _, a := range x.lisAddr {
		if strings.HasPrefix(a, "/var/tmp/") {
			os.Remove(a)
		}
	}
}

// oracles evaluates the properties themselves on what was observed (no model involved).
func (x *X) oracles(w *tr.Writer) {
	x.mu.Lock()
	defer x.mu.Unlock()
	for _, f := range x.fails {
		w.Fail(f[0], f[1], f[2])
	}
	// ---- C06
	events := x.events[:x.endEvents]
	retIdx := -1
	nShutdown := 0
	for i, e := range events {
		if e.kind[0] == "ret" && retIdx < 0 {
			retIdx = i
		}
		if e.kind[0] == "shutdown" {
			nShutdown++
		}
	}
	if retIdx >= 0 {
		for _, e := range events[retIdx+1:] {
			if e.isCb {
				w.Fail("callback-after-return", strings.Join(e.kind[:1], ""), fmt.Sprintf("%v %v ran after Run/Stop had returned", e.thr, e.kind))
				break
			}
		}
		if events[retIdx].kind[1] != "nil" {
			w.Fail("Run", "returned-error", fmt.Sprint(x.retErr))
		}
		opens, closes := map[string]int{}, map[string]int{}
		for _, e := range events[:retIdx] {
			if e.kind[0] == "open" {
				opens[e.kind[1]]++
			}
			if e.kind[0] == "close" {
				closes[e.kind[1]]++
			}
		}
		for cid, n := range opens {
			if n != 1 || closes[cid] != 1 {
				w.Fail("close-before-return", fmt.Sprintf("opens=%d closes=%d", n, closes[cid]), "connection "+cid+" did not get exactly one OnClose before Run returned")
			}
		}
		wantSD := 0
		if x.cfg.client {
			wantSD = 1
		} else if x.haveEng {
			if _, _, _, loops := gnet.VerifEngState(x.eng); loops > 0 {
				wantSD = 1
			}
		}
		if nShutdown != wantSD {
			w.Fail("OnShutdown", fmt.Sprintf("count=%d want=%d", nShutdown, wantSD), "")
		}
	} else if nShutdown > 1 {
		w.Fail("OnShutdown", fmt.Sprintf("count=%d want<=1", nShutdown), "")
	}
	closes := map[string]int{}
	for _, e := range events {
		if e.kind[0] == "close" {
			closes[e.kind[1]]++
			if closes[e.kind[1]] > 1 {
				w.Fail("OnClose", "twice", "connection "+e.kind[1])
			}
		}
	}
	if len(x.requests) > 0 && retIdx < 0 && !x.pinnedAtEnd {
		src := x.requests[0]
		w.Fail("Run", "no-return source="+src, fmt.Sprintf("shutdown was requested (%v) but Run / Client.Stop had not returned when the case ended", x.requests))
	}
	// ---- C19
	for k := 0; k < x.nWorkers; k++ {
		if !x.endWorkers[k] {
			sig := "no-result"
			if x.workerLate[k] {
				sig = "no-result loop-exited-before-register-task"
			}
			w.Fail("Register", sig, fmt.Sprintf("registration %d was accepted but no RegisteredResult was delivered", k))
		}
	}
}
