package main

// focus "startfault" (oracle only, no model trace): an engine or client START that fails part-way.
// One of the descriptor-creating or registering system calls of the start sequence (epoll_create1,
// eventfd, the epoll_ctl ADDs of the wake-up descriptor and of the listeners) is made to fail; Run /
// Client.Start must return an error -- or, if the call index lies beyond the start sequence, the
// engine starts and is stopped again -- and in both cases nothing the framework created may be left
// open when it has returned (C07), and the Unix socket file is gone.

import (
	"context"
	"fmt"
	"net"
	"os"
	"runtime"
	"strings"
	"time"

	gnet "github.com/panjf2000/gnet/v2"
	"github.com/panjf2000/gnet/v2/pkg/vunix"

	"verifharness/tr"
)

type bootOnly struct {
	gnet.BuiltinEventEngine
	eng    gnet.Engine
	booted chan struct{}
}

func (b *bootOnly) OnBoot(e gnet.Engine) gnet.Action {
	b.eng = e
	close(b.booted)
	return gnet.None
}

func runStartFault(w *tr.Writer, seed uint64, idx int) {
	if idx%8 == 7 {
		runDialFail(w, seed, idx)
		return
	}
	if idx%4 == 3 {
		runStopRace(w, seed, idx)
		return
	}
	rnd := tr.NewRand(seed*1000033 + uint64(idx))
	proto := rnd.PickS([]string{"tcp", "tcp", "unix", "udp"})
	loops := rnd.Range(1, 3)
	reuseport := rnd.Chance(50)
	client := rnd.Chance(30)
	name := rnd.PickS([]string{"epoll_create1", "eventfd", "epoll_ctl", "socket"})
	index := rnd.Intn(2*loops + 3)
	if name == "socket" {
		index = rnd.Intn(4) // few sockets are created: the listeners, and in reuse-port mode one more set per further loop
	}
	if proto == "tcp" && !client && rnd.Chance(12) {
		// not an injected fault but a real one: a TCP keep-alive period below one second is refused by SetKeepAlive
		// after the first listener's socket has been opened (initListener must close it again)
		name, index = "keepalive", 0
	}
	kind := rnd.PickS([]string{"emfile", "enomem"})
	stopAfterFailedStart := rnd.Chance(75)
	if client {
		// a client creates no sockets when it starts: the calls that can fail are those of its pollers, one set per loop
		name = rnd.PickS([]string{"epoll_create1", "eventfd", "epoll_ctl"})
		index = rnd.Intn(loops + 1)
	}

	rec := newRecorder()
	rec.ledgerOn = true
	rec.startFault = &inject{name: name, index: index, kind: kind}
	vunix.SetHooks(rec)
	defer vunix.SetHooks(nil)

	var addr, unixPath string
	switch proto {
	case "unix":
		pcount++
		unixPath = fmt.Sprintf("/var/tmp/vloop-sf-%d-%d.sock", os.Getpid(), pcount)
		os.Remove(unixPath)
		defer os.Remove(unixPath)
		addr = "unix://" + unixPath
	case "udp":
		addr = fmt.Sprintf("udp://127.0.0.1:%d", freePort())
	default:
		addr = fmt.Sprintf("tcp://127.0.0.1:%d", freePort())
	}
	// a third of the server cases listen on two addresses (Rotate): the second one a Unix socket
	addr2, unixPath2 := "", ""
	if !client && rnd.Chance(33) {
		pcount++
		unixPath2 = fmt.Sprintf("/var/tmp/vloop-sf2-%d-%d.sock", os.Getpid(), pcount)
		os.Remove(unixPath2)
		defer os.Remove(unixPath2)
		addr2 = "unix://" + unixPath2
	}
	// and some of those a third one (tcp): a failure while the later listeners are created must release the earlier ones
	addr3 := ""
	if addr2 != "" && rnd.Chance(40) {
		addr3 = fmt.Sprintf("tcp://127.0.0.1:%d", freePort())
	}
	w.Case(fmt.Sprintf("SF%d", idx), "loopstart", "proto="+proto, "loops="+tr.I(loops), "reuseport="+tr.B(reuseport),
		"client="+tr.B(client), "fault="+name, "index="+tr.I(index), "kind="+kind, "focus=startfault", "seed="+tr.U64(seed), "idx="+tr.I(idx))
	if !client {
		// the model of the start sequence (Model/Start.v) is given the configuration and the failing call
		nlis := 1
		if addr2 != "" {
			nlis = 2
		}
		if addr3 != "" {
			nlis = 3
		}
		// (createListeners: SO_REUSEPORT mode is dropped when a Unix-domain address is among the listeners and
		// forced when a UDP address is)
		eff := proto == "udp" || (reuseport && proto != "unix" && addr2 == "")
		w.Op(tr.L("start", tr.B(eff), tr.I(loops), tr.I(nlis), name, tr.I(index)))
	}
	if client {
		w.Op(tr.L("cstart", tr.I(loops), name, tr.I(index)))
	}
	h := &bootOnly{booted: make(chan struct{})}
	done := make(chan error, 1)
	started := false
	if client {
		cli, err := gnet.NewClient(h, gnet.WithNumEventLoop(loops))
		if err == nil {
			err = cli.Start()
			if err == nil {
				started = true
				time.Sleep(2 * time.Millisecond)
				err = cli.Stop()
			} else if stopAfterFailedStart {
				// the usual clean-up of an application (a deferred Stop) after a Start that failed: it finds a
				// client whose pollers are closed already, and must not touch their descriptor numbers again
				_ = cli.Stop()
				w.Hist("startfault-stop-after-failed-start")
			}
		}
		done <- err
	} else {
		go func() {
			var extra []gnet.Option
			if name == "keepalive" {
				extra = append(extra, gnet.WithTCPKeepAlive(500*time.Millisecond))
			}
			if addr2 != "" {
				addrs := []string{addr, addr2}
				if addr3 != "" {
					addrs = append(addrs, addr3)
				}
				done <- gnet.Rotate(h, addrs, append(extra, gnet.WithNumEventLoop(loops), gnet.WithReusePort(reuseport))...)
				return
			}
			done <- gnet.Run(h, addr, append(extra, gnet.WithNumEventLoop(loops), gnet.WithReusePort(reuseport))...)
		}()
		select {
		case <-h.booted:
			// OnBoot runs before the loops are created: wait for Run to fail, or for the engine to be up
			select {
			case err := <-done:
				done <- err
			case <-time.After(30 * time.Millisecond):
				started = true
				ctx, cancel := context.WithTimeout(context.Background(), 3*time.Second)
				_ = h.eng.Stop(ctx)
				cancel()
			}
		case err := <-done:
			done <- err
		}
	}
	var err error
	select {
	case err = <-done:
	case <-time.After(5 * time.Second):
		// (the descriptor checks below are meaningless while Run is still running: only the stall is reported)
		w.Fail("engine-start", "run-did-not-return", "Run / Client.Start+Stop did not return within 5 s after a failing start")
		if os.Getenv("VERIF_STALL_DUMP") != "" {
			buf := make([]byte, 1<<20)
			n := runtime.Stack(buf, true)
			os.WriteFile(fmt.Sprintf("%s/stall-%d-%d.txt", os.Getenv("VERIF_STALL_DUMP"), os.Getpid(), idx), buf[:n], 0o644)
		}
		w.End()
		return
	}
	// nothing of the framework may still be polling once Run / Stop has returned: a goroutine left in
	// epoll_wait on the number of a closed poller takes the events of whoever gets that number next
	left := 0
	for try := 0; try < 50; try++ {
		buf := make([]byte, 1<<20)
		n := runtime.Stack(buf, true)
		left = strings.Count(string(buf[:n]), "netpoll.(*Poller).Polling")
		if left == 0 {
			break
		}
		time.Sleep(2 * time.Millisecond)
	}
	if left > 0 {
		w.Fail("fd-not-owned", "goroutine-left-polling", fmt.Sprintf("%d goroutine(s) of the framework are still inside Poller.Polling after Run / Client.Stop returned (start in which %s #%d %s)", left, name, index, kind))
	}
	rec.mu.Lock()
	{
		// what the descriptor ledger saw, in the model's terms (server and client starts alike)
		ret := "failed"
		if started {
			ret = "started"
		}
		w.Obs(tr.L("ret", ret))
		w.Obs(tr.L("created", tr.I(len(rec.sockets)), tr.I(len(rec.epfds)), tr.I(len(rec.efds))))
		w.Obs(tr.L("closes", tr.I(rec.nCloses)))
		w.Obs(tr.L("left", tr.I(len(rec.owned))))
		w.Obs(tr.L("strayclose", tr.I(rec.nStray)))
	}
	hit := rec.startFaultHit || (name == "keepalive" && !started)
	if name == "keepalive" && started {
		w.Fail("engine-start", "failure-swallowed", "a TCP keep-alive period that SetKeepAlive refuses did not make Run / Rotate fail")
	}
	if hit && !started && err == nil && !client {
		w.Fail("engine-start", "failure-swallowed", fmt.Sprintf("%s #%d failed with %s during start but Run returned nil", name, index, kind))
	}
	// C07: nothing the framework created is still open
	for fd, kindOf := range rec.owned {
		w.Fail("fd-leak", kindOf, fmt.Sprintf("descriptor %d (%s) still open after a start in which %s #%d %s (hit=%v, started=%v, err=%v)", fd, kindOf, name, index, kind, hit, started, err))
	}
	rec.mu.Unlock()
	flushFails(w, rec)
	for _, up := range []string{unixPath, unixPath2} {
		if up != "" && !client {
			if _, e := os.Lstat(up); e == nil {
				w.Fail("fd-leak", "unix-socket-file", "the listener's socket file still exists after Run / Rotate returned")
			}
		}
	}
	if hit {
		w.Tag("fault-injected")
		w.Hist("startfault-" + name)
	} else {
		w.Hist("startfault-not-reached")
	}
	if started {
		w.Hist("startfault-engine-started")
	}
	if addr2 != "" {
		w.Hist("startfault-rotate")
	}
	_ = net.IPv4zero
	w.End()
}
