//go:build verif

//verif:target export_verif_addr.go

package gnet

import (
	"errors"
	"net/url"
	"runtime"

	errorx "github.com/panjf2000/gnet/v2/pkg/errors"
	"github.com/panjf2000/gnet/v2/pkg/buffer/ring"
	"github.com/panjf2000/gnet/v2/internal/gfd"
)

// VerifParseProtoAddr runs the real parseProtoAddr and classifies its error.
// class: "" (no error), "invalid", "unsupported", "urlerr", "other".
func VerifParseProtoAddr(addr string) (scheme, endpoint, class string) {
	s, ep, err := parseProtoAddr(addr)
	if err == nil {
		return s, ep, ""
	}
	var ue *url.Error
	switch {
	case errors.Is(err, errorx.ErrInvalidNetworkAddress):
		class = "invalid"
	case errors.Is(err, errorx.ErrUnsupportedProtocol):
		class = "unsupported"
	case errors.As(err, &ue):
		class = "urlerr"
	default:
		class = "other"
	}
	return s, ep, class
}

func verifOpts(rbc, wbc, chunk int, et bool) []Option {
	return []Option{WithReadBufferCap(rbc), WithWriteBufferCap(wbc), WithEdgeTriggeredIOChunk(chunk), WithEdgeTriggeredIO(et)}
}

// VerifNormClient runs NewClient's option normalisation (no sockets are opened).
func VerifNormClient(rbc, wbc, chunk int, et bool) (int, int, int, bool, error) {
	cli, err := NewClient(&BuiltinEventEngine{}, verifOpts(rbc, wbc, chunk, et)...)
	if err != nil {
		return 0, 0, 0, false, err
	}
	if cli.eng != nil && cli.eng.turnOff != nil {
		cli.eng.turnOff() // release the context created by NewClient
	}
	o := cli.opts
	return o.ReadBufferCap, o.WriteBufferCap, o.EdgeTriggeredIOChunk, o.EdgeTriggeredIO, nil
}

// VerifNormServer runs createListeners' option normalisation with an empty
// address list (no listener is created).
func VerifNormServer(rbc, wbc, chunk int, et bool) (int, int, int, bool, error) {
	_, o, err := createListeners(nil, verifOpts(rbc, wbc, chunk, et)...)
	if err != nil {
		return 0, 0, 0, false, err
	}
	return o.ReadBufferCap, o.WriteBufferCap, o.EdgeTriggeredIOChunk, o.EdgeTriggeredIO, nil
}

// VerifDetermineEventLoops runs determineEventLoops; also reports runtime.NumCPU().
func VerifDetermineEventLoops(multicore bool, numEventLoop int) (n int, numCPU int) {
	return determineEventLoops(&Options{Multicore: multicore, NumEventLoop: numEventLoop}), runtime.NumCPU()
}

// VerifAddrConsts reports the constants the normalisation depends on.
func VerifAddrConsts() (maxStreamBufferCap, defaultBufferSize, eventLoopIndexMax int) {
	return MaxStreamBufferCap, ring.DefaultBufferSize, gfd.EventLoopIndexMax
}
