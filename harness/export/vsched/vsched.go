//go:build verif

//verif:target pkg/vsched/vsched.go

// Package vsched is a cooperative scheduler for *managed* goroutines.  It is
// compiled into the gnet module through the build overlay only (never
// committed to /repo).  Every scheduling point of a managed goroutine (an
// atomic operation routed through pkg/vatomic, or an explicit Point) blocks
// until the controlling goroutine grants it the next step, which makes the
// interleaving an input of the harness and the per-step observation a log.
// Goroutines that are not managed pass straight through.
//
// Control API (used by drivers):
//
//	s := vsched.New()
//	s.Spawn(tid)                       create managed goroutine tid (idle)
//	done := s.Start(tid, func(){...})  begin a call on tid; runs it up to its first
//	                                   scheduling point (done=false) or to completion
//	ev, done := s.Step(tid)            grant exactly one scheduling point; returns what it
//	                                   observed and whether the call returned after it
//	s.Busy(tid)                        call in flight (parked at a scheduling point)?
//	s.Panicked(tid)                    did the last call panic (and with what)?
//	s.Abort()                          let every parked goroutine run freely to the end of its call
//	s.Close()                          Abort + terminate the managed goroutines
//
// Shim API (used by vatomic / vunix style shims):
//
//	g := vsched.Current()              nil when the calling goroutine is unmanaged
//	g.Enter()                          block until granted
//	g.Exit(ev)                         record what the granted operation observed
package vsched

import (
	"fmt"
	"runtime"
	"sort"
	"sync"
	"sync/atomic"
	"time"
	"unsafe"
)

// Event is the observation of one granted scheduling point.
type Event struct {
	Tid  int
	Op   string         // "ld" "st" "cas" "add" "swap" or a shim-defined name
	Typ  string         // "ptr" "i32" "i64" "u32" "u64" "uptr"
	Addr unsafe.Pointer // the location operated on
	Old  int64          // cas: expected value
	New  int64          // cas/st/swap: new value; add: delta
	Val  int64          // ld: value read; add: resulting value; swap: previous value
	OldP unsafe.Pointer // pointer flavours of the same three
	NewP unsafe.Pointer
	ValP unsafe.Pointer
	Ok   bool // cas: swapped
	Aux  []string
}

const (
	stIdle int32 = iota
	stParked
	stRunning
)

const (
	noteParked = 1
	noteDone   = 2
)

// G is one managed goroutine.
type G struct {
	s        *Sched
	tid      int
	calls    chan func()
	grant    chan struct{}
	state    int32
	free     int32
	last     Event
	hasEv    bool
	panicked bool
	panicMsg string
}

// Sched controls a set of managed goroutines; at most one of them runs at
// any time, and only while the controller waits inside Start/Step/Abort.
type Sched struct {
	mu    sync.Mutex
	gs    map[int]*G
	notes chan int
	// StepTimeout bounds the wait for a granted goroutine to reach its next
	// scheduling point (a managed goroutine blocking elsewhere is a harness bug).
	StepTimeout time.Duration
	Hung        bool
}

var (
	nManaged int32 // number of registered managed goroutines (fast path when 0)
	regMu    sync.RWMutex
	registry = map[uint64]*G{}
)

func curGoid() uint64 {
	var buf [64]byte
	n := runtime.Stack(buf[:], false)
	// "goroutine 123 [running]:"
	var id uint64
	for i := 10; i < n; i++ {
		c := buf[i]
		if c < '0' || c > '9' {
			break
		}
		id = id*10 + uint64(c-'0')
	}
	return id
}

// Current returns the managed goroutine the caller runs on, or nil.
func Current() *G {
	if atomic.LoadInt32(&nManaged) == 0 {
		return nil
	}
	id := curGoid()
	regMu.RLock()
	g := registry[id]
	regMu.RUnlock()
	if g != nil && atomic.LoadInt32(&g.free) != 0 {
		return nil
	}
	return g
}

// Tid of a managed goroutine.
func (g *G) Tid() int { return g.tid }

// Enter blocks the managed goroutine until the controller grants it a step.
func (g *G) Enter() {
	atomic.StoreInt32(&g.state, stParked)
	g.s.notes <- noteParked
	<-g.grant
	atomic.StoreInt32(&g.state, stRunning)
}

// Exit records the observation of the step that was just granted.
func (g *G) Exit(ev Event) {
	ev.Tid = g.tid
	g.last = ev
	g.hasEv = true
}

// Point is a scheduling point for non-atomic operations (system-call shims).
func Point(op string, aux ...string) {
	if g := Current(); g != nil {
		g.Enter()
		g.Exit(Event{Op: op, Aux: aux})
	}
}

func New() *Sched {
	return &Sched{gs: map[int]*G{}, notes: make(chan int, 1), StepTimeout: 10 * time.Second}
}

// Spawn creates the managed goroutine tid; it idles until Start.
func (s *Sched) Spawn(tid int) {
	if _, ok := s.gs[tid]; ok {
		return
	}
	g := &G{s: s, tid: tid, calls: make(chan func()), grant: make(chan struct{})}
	s.gs[tid] = g
	ready := make(chan struct{})
	go func() {
		id := curGoid()
		regMu.Lock()
		registry[id] = g
		regMu.Unlock()
		atomic.AddInt32(&nManaged, 1)
		close(ready)
		for f := range g.calls {
			g.run(f)
			atomic.StoreInt32(&g.state, stIdle)
			s.notes <- noteDone
		}
		regMu.Lock()
		delete(registry, id)
		regMu.Unlock()
		atomic.AddInt32(&nManaged, -1)
		s.notes <- noteDone
	}()
	<-ready
}

func (g *G) run(f func()) {
	defer func() {
		if r := recover(); r != nil {
			g.panicked = true
			g.panicMsg = fmt.Sprint(r)
		}
	}()
	f()
}

func (s *Sched) wait() int {
	select {
	case n := <-s.notes:
		return n
	case <-time.After(s.StepTimeout):
		s.Hung = true
		return 0
	}
}

// Has reports whether tid was spawned.
func (s *Sched) Has(tid int) bool { _, ok := s.gs[tid]; return ok }

// Busy reports whether tid has a call in flight.
func (s *Sched) Busy(tid int) bool {
	g := s.gs[tid]
	return g != nil && atomic.LoadInt32(&g.state) != stIdle
}

// Panicked reports whether the last call of tid panicked.
func (s *Sched) Panicked(tid int) (bool, string) {
	g := s.gs[tid]
	if g == nil {
		return false, ""
	}
	return g.panicked, g.panicMsg
}

// Start begins call f on the idle goroutine tid and returns once it is
// parked at its first scheduling point (false) or has returned (true).
func (s *Sched) Start(tid int, f func()) (done bool) {
	g := s.gs[tid]
	if g == nil || s.Busy(tid) {
		panic("vsched: Start on a missing or busy goroutine")
	}
	g.panicked, g.panicMsg, g.hasEv = false, "", false
	atomic.StoreInt32(&g.state, stRunning)
	g.calls <- f
	return s.wait() != noteParked
}

// Step grants tid one scheduling point and waits until it is parked again or
// its call has returned.  ok=false when tid is not parked.
func (s *Sched) Step(tid int) (ev Event, done bool, ok bool) {
	g := s.gs[tid]
	if g == nil || atomic.LoadInt32(&g.state) != stParked {
		return Event{}, false, false
	}
	g.hasEv = false
	g.grant <- struct{}{}
	n := s.wait()
	return g.last, n != noteParked, true
}

// Abort lets every parked goroutine finish its call without further control.
func (s *Sched) Abort() {
	tids := make([]int, 0, len(s.gs))
	for tid := range s.gs {
		tids = append(tids, tid)
	}
	sort.Ints(tids) // deterministic order: replays must reproduce
	for _, tid := range tids {
		g := s.gs[tid]
		if atomic.LoadInt32(&g.state) == stParked {
			atomic.StoreInt32(&g.free, 1)
			g.grant <- struct{}{}
			s.wait()
			atomic.StoreInt32(&g.free, 0)
		}
	}
}

// Close aborts in-flight calls and terminates the managed goroutines.
func (s *Sched) Close() {
	s.Abort()
	if s.Hung {
		return // leak rather than block
	}
	for _, g := range s.gs {
		close(g.calls)
		s.wait()
	}
	s.gs = map[int]*G{}
}
