(* C01 inbound integrity, part 2: the procedures above the handler (el_read, el_open,
   registration, dispatch, task queues, polling) and the theorem. *)
From Coq Require Import Lia ZArith ZifyBool.
From GV Require Import Lib.Trace Model.Loop Spec.LoopSpec Proofs.LoopDataLib Proofs.LoopDataIn.
Open Scope string_scope.
Open Scope list_scope.
Open Scope Z_scope.

Definition ex_minus (ex : Z -> Prop) (c : Z) : Z -> Prop := fun x => ex x /\ x <> c.

Lemma RIn_ex_weaken : forall W (ex ex' : Z -> Prop) owed xa u x s,
  (forall c, ex c -> ex' c) -> RIn W ex owed xa u x s -> RIn W ex' owed xa u x s.
Proof.
  intros W ex ex' owed xa u x s Hex [R1 R2 R3 R4 R5 R6 R7 R8 R9]. constructor; auto.
Qed.

Lemma RIn_xa_drop : forall W ex owed xa u x s, RIn W ex owed xa u x s -> RIn W ex owed XNone u x s.
Proof. intros W ex owed xa u x s [R1 R2 R3 R4 R5 R6 R7 R8 R9]. constructor; auto. exact I. Qed.

Lemma RIn_xa_add : forall W ex owed xa u x s, RIn W ex owed XNone u x s -> xsem xa s -> RIn W ex owed xa u x s.
Proof. intros W ex owed xa u x s [R1 R2 R3 R4 R5 R6 R7 R8 R9] X. constructor; auto. Qed.

Lemma I_ex_weaken : forall W (ex ex' : Z -> Prop) owed xa w,
  (forall c, ex c -> ex' c) -> IINV (RIn W ex owed xa) w -> IINV (RIn W ex' owed xa) w.
Proof. intros. eapply Inv_weaken; [|eassumption]. intros [] x _ HR. eapply RIn_ex_weaken; eauto. Qed.

Lemma I_xa_drop : forall W ex owed xa w, IINV (RIn W ex owed xa) w -> IINV (RIn W ex owed XNone) w.
Proof. intros. eapply Inv_weaken; [|eassumption]. intros [] x _ HR. eapply RIn_xa_drop; eauto. Qed.

Lemma I_xa_add : forall W ex owed xa w, xsem xa (st w) -> IINV (RIn W ex owed XNone) w -> IINV (RIn W ex owed xa) w.
Proof. intros. eapply Inv_weaken; [|eassumption]. intros [] x _ HR. eapply RIn_xa_add; eauto. Qed.

(* el_close takes the connection out of every later obligation about c_buf *)
Lemma RIn_release_ex : forall W ex u x s cid,
  RIn (cid :: W) ex None XNone u x s ->
  RIn W (ex_minus ex cid) None XNone u x (setc s cid (c_release (getc s cid))).
Proof.
  intros W ex u x s cid HR.
  assert (Hc : zmem cid (i_closed x) = true) by (apply (ri_W _ _ _ _ _ _ _ HR); left; reflexivity).
  apply RIn_release in HR. destruct HR as [R1 R2 R3 R4 R5 R6 R7 R8 R9]. constructor; auto.
  intros cid0 L N. destruct (Z.eq_dec cid0 cid) as [->|Ne]; [unfold live in L; congruence|].
  apply R5; auto. intro Hx. apply N. split; assumption.
Qed.

Lemma el_close_strong : forall f cid e w r w' W ex,
  IINV (RI W ex) w -> el_close (S f) cid e w = (r, w') -> IINV (RI W (ex_minus ex cid)) w'.
Proof.
  intros f cid e w r w' W ex HI E. pose proof (MBI_all f) as M. cbn [el_close] in E.
  destruct (c_opened (wc w cid)) eqn:Eo; cbn [negb orb] in E.
  2:{ inversion E; subst. eapply Inv_weaken; [|exact HI]. intros [] x _ HR.
      destruct HR as [R1 R2 R3 R4 R5 R6 R7 R8 R9]. constructor; auto.
      intros cid0 L N. destruct (Z.eq_dec cid0 cid) as [->|Ne]; [apply (R7 _ L Eo)|].
      apply R5; auto. intro Hx. apply N. split; assumption. }
  destruct (alookup (c_fd (wc w cid)) (l_reg (st w))) as [rc|] eqn:Er.
  2:{ inversion E; subst. eapply Inv_weaken; [|exact HI]. intros [] x _ HR.
      destruct HR as [R1 R2 R3 R4 R5 R6 R7 R8 R9]. constructor; auto.
      intros cid0 L N. destruct (Z.eq_dec cid0 cid) as [->|Ne].
      - unfold wc in *. destruct (R6 _ Eo) as [A|[_ B]]; [congruence|]. apply R9 in B. unfold live in L. congruence.
      - apply R5; auto. intro Hx. apply N. split; assumption. }
  set (w2 := emit _ (with_st w _)) in E.
  assert (H2 : IINV (RI (cid :: W) ex) w2).
  { subst w2. eapply Inv_set_emit; [exact HI|reflexivity|].
    intros [] x _ HR. cbn [ustep]. cbn [in_step obs]. rewrite (ri_owed _ _ _ _ _ _ _ HR).
    eexists. split; [reflexivity|]. unfold wc in *. apply RIn_close; auto. congruence. }
  clearbody w2.
  destruct (handler f cid w2) as [[act rep] w3] eqn:Eh.
  pose proof (mb_handler _ M _ _ _ _ _ _ H2 Eh) as H3.
  pose proof (mb_drain _ M cid _ _ _ H3) as H4.
  set (w4 := close_drain f cid w3) in *. clearbody w4.
  assert (H5 : IINV (RI W (ex_minus ex cid)) (wsetc w4 cid (c_release (wc w4 cid)))).
  { eapply Inv_wsetc; [exact H4|]. intros [] x _ HR. apply RIn_release_ex. exact HR. }
  destruct (epctl "del" _ false false _) as [r0 w6] eqn:E6.
  pose proof (I_epctl _ _ _ _ _ _ _ _ _ _ _ H5 E6) as H6.
  destruct (sys "close" _ w6) as [k1 w7] eqn:E7.
  pose proof (I_sys _ _ _ _ _ _ _ _ _ H6 E7) as H7.
  destruct (match r0 with RNil => _ | _ => true end); [inversion E; subst; exact H7|].
  destruct act; [inversion E; subst; exact H7| |inversion E; subst; exact H7].
  eapply (mb_close _ M); eauto.
Qed.

(* a callback other than close/udp is announced while nothing is owed *)
Lemma I_cb_plain : forall W ex xa k cid rest w,
  sym_eqb k "close" || sym_eqb k "udp" = false ->
  IINV (RIn W ex None xa) w -> IINV (RIn W ex None xa) (emit (obs "cb" (ASym k :: AInt cid :: rest)) w).
Proof.
  intros W ex xa k cid rest w Hk HI. eapply Inv_emit; [exact HI|reflexivity|].
  intros [] x _ HR. cbn [ustep]. exists x. split; [|exact HR]. cbn [in_step obs].
  rewrite (ri_owed _ _ _ _ _ _ _ HR). rewrite Hk. reflexivity.
Qed.

(* the result decides how much of the invariant the caller gets back *)
Definition ex_of (r : res) : Z -> Prop := match r with RShutdown => ex_all | _ => ex_none end.

Lemma I_post : forall r w, IINV (RI [] ex_none) w -> IINV (RI [] (ex_of r)) w.
Proof. intros. eapply I_ex_weaken; [|eassumption]. intros c []. Qed.

(* a delivery: `g del`, the window, `cb traffic` *)
Lemma RIn_deliver : forall u x s cid data,
  RIn [] ex_none None (XOpen cid) u x s ->
  RIn [] (ex_one cid) (Some cid) XNone u
      (mkIn (aset cid (getd [] cid (i_rest x) ++ data) (i_rest x)) (i_closed x) (Some cid))
      (setc s cid (c_set_buf (getc s cid) data)).
Proof.
  intros u x s cid data [R1 R2 R3 R4 R5 R6 R7 R8 R9]. cbn [xsem] in R8.
  constructor; unfold live in *; cbn [setc l_reg l_next i_rest i_closed i_owed].
  - reflexivity.
  - intros cid0 L. rewrite getc_setc, getd_aset. destruct (Z.eqb_spec cid0 cid) as [->|N]; [|auto].
    cbn [c_set_buf c_in c_buf]. rewrite (R2 _ L). rewrite (R5 _ L) by (intros []). rewrite app_nil_r. reflexivity.
  - intros cid0. rewrite getc_setc. destruct (Z.eqb_spec cid0 cid) as [->|N]; auto.
  - exact R4.
  - intros cid0 L Nx. rewrite getc_setc. destruct (Z.eqb_spec cid0 cid) as [->|N]; [exfalso; apply Nx; reflexivity|].
    apply R5; auto.
  - intros cid0. rewrite getc_setc. destruct (Z.eqb_spec cid0 cid) as [->|N]; [|auto].
    cbn [c_set_buf c_opened c_fd]. auto.
  - intros cid0 L. rewrite getc_setc. destruct (Z.eqb_spec cid0 cid) as [->|N]; [|auto].
    cbn [c_set_buf c_opened]. congruence.
  - exact I.
  - exact R9.
Qed.

Lemma RIn_owed_clear : forall W ex c xa u x s,
  RIn W ex (Some c) xa u x s -> RIn W ex None xa u (mkIn (i_rest x) (i_closed x) None) s.
Proof. intros W ex c xa u x s [R1 R2 R3 R4 R5 R6 R7 R8 R9]. constructor; auto. Qed.

(* after the callback the window is appended to the inbound buffer *)
Lemma RIn_merge : forall u x s cid,
  RIn [] (ex_one cid) None XNone u x s ->
  RIn [] ex_none None XNone u x
      (setc s cid (c_set_buf (c_set_in (getc s cid) (c_in (getc s cid) ++ c_buf (getc s cid))) [])).
Proof.
  intros u x s cid [R1 R2 R3 R4 R5 R6 R7 R8 R9].
  constructor; unfold live in *; cbn [setc l_reg l_next].
  - exact R1.
  - intros cid0 L. rewrite getc_setc. destruct (Z.eqb_spec cid0 cid) as [->|N]; [|auto].
    cbn [c_set_buf c_set_in c_in c_buf]. rewrite app_nil_r. auto.
  - intros cid0. rewrite getc_setc. destruct (Z.eqb_spec cid0 cid) as [->|N]; auto.
  - exact R4.
  - intros cid0 L _. rewrite getc_setc. destruct (Z.eqb_spec cid0 cid) as [->|N]; [reflexivity|].
    apply R5; auto.
  - intros cid0. rewrite getc_setc. destruct (Z.eqb_spec cid0 cid) as [->|N]; [|auto].
    cbn [c_set_buf c_set_in c_opened c_fd]. auto.
  - intros cid0 L. rewrite getc_setc. destruct (Z.eqb_spec cid0 cid) as [->|N]; [|auto].
    cbn [c_set_buf c_set_in c_in c_buf c_opened]. intros Ho. destruct (R7 _ L Ho) as [-> ->]. auto.
  - exact I.
  - exact R9.
Qed.

Lemma el_read_inv : forall f cid recv w r w',
  IINV (RI [] ex_none) w -> recv = 0 \/ c_opened (wc w cid) = true ->
  el_read f cid recv w = (r, w') -> IINV (RI [] (ex_of r)) w'.
Proof.
  induction f as [|f IH]; intros cid recv w r w' HI Hpre E; cbn [el_read] in E.
  { inversion E; subst. dsync. }
  destruct (negb (c_opened (wc w cid)) && (recv =? 0)) eqn:Eg.
  { inversion E; subst. apply I_post. exact HI. }
  assert (Ho : c_opened (wc w cid) = true).
  { destruct Hpre as [->|Ho]; [|exact Ho]. rewrite Z.eqb_refl, andb_true_r in Eg. destruct (c_opened _); [reflexivity|discriminate]. }
  clear Eg Hpre.
  assert (HX : IINV (RIn [] ex_none None (XOpen cid)) w) by (apply I_xa_add; [exact Ho|exact HI]).
  destruct (sys "read" _ w) as [k w1] eqn:Es.
  pose proof (I_sys _ _ _ _ _ _ _ _ _ HX Es) as H1.
  assert (Hfail : forall r w', el_close (S f) cid false (ghost "fail" cid [] w1) = (r, w') -> IINV (RI [] (ex_of r)) w').
  { intros r0 w0 Ec. apply I_post. eapply (mb_close _ (MBI_all (S f))); [|exact Ec].
    apply I_emit; [oign|]. apply I_xa_drop in H1. exact H1. }
  destruct k as [n extra|e|].
  2:{ destruct (is_eagain e); [inversion E; subst; apply I_post; apply I_xa_drop in H1; exact H1|]. apply Hfail; exact E. }
  2:{ inversion E; subst. apply I_post. apply I_xa_drop in H1. exact H1. }
  destruct (n =? 0) eqn:En0; [apply Hfail; exact E|].
  destruct (negb (zlen _ =? n) || _) eqn:Ek; [inversion E; subst; dsync|].
  set (data := match extra with ABytes b :: _ => b | _ => [] end) in *.
  set (w3 := emit _ (wsetc (ghost "del" cid data w1) cid _)) in E.
  assert (H3 : IINV (RI [] (ex_one cid)) w3).
  { subst w3. eapply Inv_emit with (R := RIn [] (ex_one cid) (Some cid) XNone); [|reflexivity|].
    - unfold ghost. eapply Inv_emit_wsetc; [exact H1|reflexivity|].
      intros [] x _ HR. cbn [ustep]. cbn [in_step]. rewrite (ri_owed _ _ _ _ _ _ _ HR).
      eexists. split; [reflexivity|]. unfold wc. apply RIn_deliver. exact HR.
    - intros [] x _ HR. cbn [ustep]. cbn [in_step obs]. rewrite (ri_owed _ _ _ _ _ _ _ HR).
      rewrite Z.eqb_refl. cbn. eexists. split; [reflexivity|]. eapply RIn_owed_clear. exact HR. }
  clearbody w3.
  destruct (handler (S f) cid w3) as [[act rep] w4] eqn:Eh.
  pose proof (mb_handler _ (MBI_all (S f)) _ _ _ _ _ _ H3 Eh) as H4.
  destruct act.
  - (* None *)
    destruct (c_opened (wc w4 cid)) eqn:Eo4; cbn [negb] in E.
    2:{ inversion E; subst. eapply Inv_weaken; [|exact H4]. intros [] x _ HR.
        destruct HR as [R1 R2 R3 R4 R5 R6 R7 R8 R9]. constructor; auto.
        intros cid0 L _. destruct (Z.eq_dec cid0 cid) as [->|Ne]; [apply (R7 _ L Eo4)|].
        apply R5; auto. }
    set (w5 := wsetc w4 cid _) in E.
    assert (H5 : IINV (RI [] ex_none) w5).
    { subst w5. eapply Inv_wsetc; [exact H4|]. intros [] x _ HR. unfold wc. apply RIn_merge. exact HR. }
    assert (Ho5 : c_opened (wc w5 cid) = true).
    { subst w5. unfold wc, wsetc. cbn [st with_st]. rewrite getc_setc, Z.eqb_refl. exact Eo4. }
    clearbody w5.
    destruct (c_eof (wc w5 cid) || _).
    + eapply IH; [exact H5|right; exact Ho5|exact E].
    + destruct (l_et (st w5) && _).
      * apply I_post. eapply I_trigger; [| |exact E]; [reflexivity|]. apply I_emit; [oign|exact H5].
      * inversion E; subst. apply I_post. exact H5.
  - (* Close *)
    pose proof (el_close_strong _ _ _ _ _ _ _ _ H4 E) as H5.
    eapply I_ex_weaken; [|exact H5]. intros c [Hc Hn]. exfalso. apply Hn. exact Hc.
  - (* Shutdown *)
    inversion E; subst. eapply I_ex_weaken; [|exact H4]. intros; exact I.
Qed.

(* ------------------------------------------------------------------ *)
(* el_open *)

Lemma open_loop_inv : forall W ex cid k data w,
  IINV (RI W ex) w -> IINV (RI W ex) (snd (open_loop cid k data w)).
Proof.
  intros W ex cid. induction k as [|k IH]; intros data w HI; cbn [open_loop].
  { cbn [snd]. dsync. }
  destruct data as [|b0 l0].
  - destruct (sys_wr cid _ [] true w) as [kr w1] eqn:Es.
    pose proof (I_sys_wr _ _ _ _ _ _ _ _ _ _ _ HI Es) as H1.
    destruct kr as [? ?|e|]; [exact H1| |exact H1]. destruct (is_eagain e); exact H1.
  - set (data := b0 :: l0) in *. clearbody data.
    destruct (sys_wr cid _ data true w) as [kr w1] eqn:Es.
    pose proof (I_sys_wr _ _ _ _ _ _ _ _ _ _ _ HI Es) as H1.
    destruct kr as [n ?|e|]; [| |exact H1].
    + destruct (zdrop n data) as [|b1 l1]; [exact H1|]. apply IH. exact H1.
    + destruct (is_eagain e); [|exact H1]. cbn [snd]. apply I_wsetc_same; auto.
Qed.

Lemma RIn_opened : forall u x s cid,
  RIn [] ex_none None (XRegd cid) u x s ->
  RIn [] ex_none None XNone u x (setc s cid (c_set_opened (getc s cid) true)).
Proof.
  intros u x s cid [R1 R2 R3 R4 R5 R6 R7 R8 R9]. destruct R8 as [X1 X2].
  constructor; unfold live in *; cbn [setc l_reg l_next].
  - exact R1.
  - intros cid0 L. rewrite getc_setc. destruct (Z.eqb_spec cid0 cid) as [->|N]; cbn [c_set_opened c_in c_buf]; auto.
  - intros cid0. rewrite getc_setc. destruct (Z.eqb_spec cid0 cid) as [->|N]; auto.
  - exact R4.
  - intros cid0 L Nx. rewrite getc_setc. destruct (Z.eqb_spec cid0 cid) as [->|N]; [|auto].
    cbn [c_set_opened c_buf]. auto.
  - intros cid0. rewrite getc_setc. destruct (Z.eqb_spec cid0 cid) as [->|N]; [|auto].
    cbn [c_set_opened c_fd]. auto.
  - intros cid0 L. rewrite getc_setc. destruct (Z.eqb_spec cid0 cid) as [->|N]; [|auto].
    cbn [c_set_opened c_opened]. discriminate.
  - exact I.
  - exact R9.
Qed.

Lemma el_open_inv : forall fuel cid w r w',
  IINV (RIn [] ex_none None (XRegd cid)) w -> el_open fuel cid w = (r, w') -> IINV (RI [] ex_none) w'.
Proof.
  intros fuel cid w r w' HI E. rewrite el_open_eq in E. cbv zeta in E.
  pose proof (MBI_all fuel) as M.
  set (w2 := emit _ (wsetc w cid _)) in E.
  assert (H2 : IINV (RI [] ex_none) w2).
  { subst w2. eapply Inv_wsetc_emit; [exact HI|reflexivity|].
    intros [] x _ HR. cbn [ustep]. cbn [in_step obs]. rewrite (ri_owed _ _ _ _ _ _ _ HR). cbn.
    exists x. split; [reflexivity|]. unfold wc. apply RIn_opened. exact HR. }
  clearbody w2.
  destruct (handler fuel cid w2) as [[act reply] w3] eqn:Eh.
  pose proof (mb_handler _ M _ _ _ _ _ _ H2 Eh) as H3.
  destruct (negb (c_opened (wc w3 cid))).
  { destruct act; inversion E; subst; exact H3. }
  match type of E with (let '(ok, w4) := ?X in _) = _ => destruct X as [ok w4] eqn:E4 end.
  assert (H4 : IINV (RI [] ex_none) w4).
  { destruct reply as [data|]; [|inversion E4; subst; exact H3].
    set (w3' := if c_udp (wc w3 cid) then w3 else _) in E4.
    assert (H3' : IINV (RI [] ex_none) w3').
    { subst w3'. destruct (c_udp (wc w3 cid)); [exact H3|]. apply I_emit; [oign|exact H3]. }
    assert (Hwc : wc w3' cid = wc w3 cid).
    { subst w3'. destruct (c_udp (wc w3 cid)); [reflexivity|]. rewrite !wc_ghost. reflexivity. }
    clearbody w3'.
    destruct (c_udp (wc w3 cid) && negb (c_remote (wc w3 cid))).
    - destruct (sys "sendto" _ w3') as [k w5] eqn:Es.
      pose proof (I_sys _ _ _ _ _ _ _ _ _ H3' Es) as H5.
      destruct k; inversion E4; subst; exact H5.
    - destruct (match c_out (wc w3 cid) with [] => false | _ => true end).
      + inversion E4; subst.
        apply I_wsetc_same; rewrite ?Hwc; auto.
      + pose proof (open_loop_inv _ _ cid (S (List.length (inp w3'))) data w3' H3') as H5.
        rewrite E4 in H5. exact H5. }
  clear E4.
  destruct (negb ok); [eapply (mb_close _ M); eauto|].
  match type of E with (let '(r5, w5) := ?X in _) = _ => destruct X as [r5 w5] eqn:E5 end.
  assert (H5 : IINV (RI [] ex_none) w5).
  { destruct (c_out (wc w4 cid)); [inversion E5; subst; exact H4|].
    destruct (l_et (st w4)); [inversion E5; subst; exact H4|]. eapply I_epctl; eauto. }
  destruct r5; [|eapply (mb_close _ M); [exact H5|exact E]..].
  destruct act; try (inversion E; subst; exact H5).
  eapply (mb_close _ M); eauto.
Qed.

(* ------------------------------------------------------------------ *)
(* registration *)

Lemma RIn_set_reg : forall ex u x s cid fd,
  RIn [] ex None (XReg cid fd) u x s ->
  RIn [] ex None (XRegd cid) u x (set_reg s (aset fd cid (l_reg s))).
Proof.
  intros ex u x s cid fd [R1 R2 R3 R4 R5 R6 R7 R8 R9]. destruct R8 as (X1 & X2 & X3).
  constructor; unfold live in *; cbn [set_reg l_reg l_next]; auto.
  - intros cid0 Ho. rewrite getc_set_reg in *. rewrite alookup_aset.
    destruct (Z.eqb_spec (c_fd (getc s cid0)) fd) as [Ef|Nf]; [|auto].
    destruct (R6 _ Ho) as [A|[_ []]]. rewrite Ef in A. congruence.
  - cbn [xsem set_reg l_reg l_next]. rewrite getc_set_reg, X2, alookup_aset, Z.eqb_refl. auto.
Qed.

Lemma RIn_release_reg : forall ex u x s cid fd,
  RIn [] ex None (XReg cid fd) u x s ->
  RIn [] ex None XNone u x (setc s cid (c_release (getc s cid))).
Proof.
  intros ex u x s cid fd [R1 R2 R3 R4 R5 R6 R7 R8 R9]. destruct R8 as (X1 & X2 & X3).
  assert (Hrel : c_opened (c_release (getc s cid)) = false) by (unfold c_release; destruct (c_udp _); reflexivity).
  assert (Hno : live x cid -> c_opened (getc s cid) = false).
  { intros L. destruct (c_opened (getc s cid)) eqn:Eo; [|reflexivity].
    destruct (R6 _ Eo) as [A|[_ []]]. rewrite X2 in A. congruence. }
  assert (Hemp : live x cid -> c_in (c_release (getc s cid)) = [] /\ c_buf (c_release (getc s cid)) = []).
  { intros L. destruct (R7 _ L (Hno L)) as [A B]. unfold c_release. destruct (c_udp _); cbn [c_in c_buf]; auto. }
  constructor; unfold live in *; cbn [setc l_reg l_next].
  - exact R1.
  - intros cid0 L. rewrite getc_setc. destruct (Z.eqb_spec cid0 cid) as [->|N]; [|auto].
    destruct (Hemp L) as [-> ->]. destruct (R7 _ L (Hno L)) as [A B]. rewrite (R2 _ L), A, B. reflexivity.
  - intros cid0. rewrite getc_setc. destruct (Z.eqb_spec cid0 cid) as [->|N]; [congruence|auto].
  - exact R4.
  - intros cid0 L Nx. rewrite getc_setc. destruct (Z.eqb_spec cid0 cid) as [->|N]; [apply (Hemp L)|auto].
  - intros cid0. rewrite getc_setc. destruct (Z.eqb_spec cid0 cid) as [->|N]; [congruence|auto].
  - intros cid0 L. rewrite getc_setc. destruct (Z.eqb_spec cid0 cid) as [->|N]; [intros _; apply (Hemp L)|auto].
  - exact I.
  - exact R9.
Qed.

Lemma el_register0_inv : forall fuel cid w r w',
  IINV (RIn [] ex_none None (XLt cid)) w -> el_register0 fuel cid w = (r, w') -> IINV (RI [] ex_none) w'.
Proof.
  intros fuel cid w r w' HI E. unfold el_register0 in E.
  destruct (fd_in_use (st w) (c_fd (wc w cid))) eqn:Eu; [inversion E; subst; dsync|].
  set (fd := c_fd (wc w cid)) in *.
  assert (HX : IINV (RIn [] ex_none None (XReg cid fd)) w).
  { eapply Inv_weaken; [|exact HI]. intros [] x _ HR. apply RIn_xa_add; [eapply RIn_xa_drop; exact HR|].
    pose proof (ri_x _ _ _ _ _ _ _ HR) as X. cbn [xsem] in *. repeat split; auto.
    unfold fd_in_use in Eu. destruct (alookup fd (l_reg (st w))); [discriminate|reflexivity]. }
  destruct (epctl "add" fd _ _ w) as [r1 w1] eqn:Ee.
  pose proof (I_epctl _ _ _ _ _ _ _ _ _ _ _ HX Ee) as H1.
  assert (Hreg : IINV (RIn [] ex_none None (XRegd cid)) (with_st w1 (set_reg (st w1) (aset fd cid (l_reg (st w1)))))).
  { eapply Inv_with_st; [exact H1|]. intros [] x _ HR. apply RIn_set_reg. exact HR. }
  assert (Hfail : forall w2 k, sys "close" [AInt fd] w1 = (k, w2) ->
            IINV (RI [] ex_none) (wsetc w2 cid (c_release (wc w2 cid)))).
  { intros w2 k Es. pose proof (I_sys _ _ _ _ _ _ _ _ _ H1 Es) as H2.
    eapply Inv_wsetc; [exact H2|]. intros [] x _ HR. eapply RIn_release_reg. exact HR. }
  destruct r1.
  - destruct (c_udp (wc w cid) && c_remote (wc w cid)).
    + inversion E; subst. apply I_xa_drop in Hreg. exact Hreg.
    + eapply el_open_inv; eauto.
  - destruct (sys "close" _ w1) as [k w2] eqn:Es. inversion E; subst. eapply Hfail; eauto.
  - destruct (sys "close" _ w1) as [k w2] eqn:Es. inversion E; subst. eapply Hfail; eauto.
  - destruct (sys "close" _ w1) as [k w2] eqn:Es. inversion E; subst. eapply Hfail; eauto.
Qed.

Lemma el_wake_inv : forall fuel cid w r w',
  IINV (RI [] ex_none) w -> el_wake fuel cid w = (r, w') -> IINV (RI [] ex_none) w'.
Proof.
  intros fuel cid w r w' HI E. unfold el_wake in E. pose proof (MBI_all fuel) as M.
  destruct (negb _ || _); [inversion E; subst; exact HI|].
  assert (H1 : IINV (RI [] ex_none) (emit (obs "cb" [ASym "traffic"; AInt cid]) w))
    by (apply I_cb_plain; [reflexivity|exact HI]).
  destruct (handler fuel cid _) as [[act rep] w2] eqn:Eh.
  pose proof (mb_handler _ M _ _ _ _ _ _ H1 Eh) as H2.
  destruct act; try (inversion E; subst; exact H2). eapply (mb_close _ M); eauto.
Qed.

Lemma process_io_inv : forall fuel cid ev w r w',
  IINV (RI [] ex_none) w -> process_io fuel cid ev w = (r, w') -> IINV (RI [] (ex_of r)) w'.
Proof.
  intros fuel cid ev w r w' HI E. unfold process_io in E. pose proof (MBI_all fuel) as M.
  destruct (has ev (EV_ERR + EV_HUP + EV_RDHUP) && _).
  { apply I_post. eapply (mb_close _ M); [|exact E]. apply I_wsetc_same; auto. }
  match type of E with (let '(r1, w1) := ?X in _) = _ => destruct X as [r1 w1] eqn:E1 end.
  assert (H1 : IINV (RI [] ex_none) w1).
  { destruct (has ev (EV_OUT + EV_ERR + EV_HUP)); [|inversion E1; subst; exact HI]. eapply (mb_elwrite _ M); eauto. }
  destruct r1; try (inversion E; subst; apply I_post; exact H1).
  match type of E with (let '(r2, w2) := ?X in _) = _ => destruct X as [r2 w2] eqn:E2 end.
  assert (H2 : IINV (RI [] (ex_of r2)) w2).
  { destruct (has ev (EV_IN + EV_PRI + EV_ERR + EV_HUP)); [|inversion E2; subst; exact H1].
    eapply el_read_inv; [exact H1|left; reflexivity|exact E2]. }
  destruct r2; try (inversion E; subst; exact H2). cbn [ex_of] in H2.
  destruct (has ev EV_RDHUP && c_opened (wc w2 cid)); [|inversion E; subst; exact H2].
  destruct (negb (has ev EV_IN)).
  - apply I_post. eapply (mb_close _ M); eauto.
  - eapply el_read_inv; [|left; reflexivity|exact E]. apply I_wsetc_same; auto.
Qed.

(* ------------------------------------------------------------------ *)
(* datagrams: identities the inbound checker skips *)

Lemma RIn_skip : forall W ex xa u x s cid,
  RIn W ex None xa u x s -> RIn W ex None xa u (mkIn (i_rest x) (cid :: i_closed x) None) s.
Proof.
  intros W ex xa u x s cid [R1 R2 R3 R4 R5 R6 R7 R8 R9].
  assert (Hl : forall c, live (mkIn (i_rest x) (cid :: i_closed x) None) c -> live x c).
  { unfold live. cbn [i_closed]. intros c L. rewrite zmem_cons in L. apply orb_false_elim in L. tauto. }
  constructor; cbn [i_rest i_owed]; auto.
  intros c Hin. cbn [i_closed]. rewrite zmem_cons, (R9 _ Hin). apply orb_true_r.
Qed.

Lemma RIn_udp_fresh : forall u x s c,
  RIn [] ex_none None XNone u x s -> c_opened c = false ->
  RIn [l_next s] ex_none None XNone u (mkIn (i_rest x) (l_next s :: i_closed x) None)
      (set_next (setc s (l_next s) c) (l_next s + 1)).
Proof.
  intros u x s c [R1 R2 R3 R4 R5 R6 R7 R8 R9] Ho.
  constructor; unfold live in *; cbn [set_next setc l_next l_reg i_rest i_closed i_owed].
  - reflexivity.
  - intros cid L. rewrite zmem_cons in L. apply orb_false_elim in L. destruct L as [N L].
    rewrite getc_set_next, getc_setc, N. auto.
  - intros cid. rewrite getc_set_next, getc_setc.
    destruct (Z.eqb_spec cid (l_next s)) as [->|N]; [congruence|]. intros H. apply R3 in H. lia.
  - intros cid cb H. apply R4 in H. lia.
  - intros cid L Nx. rewrite zmem_cons in L. apply orb_false_elim in L. destruct L as [N L].
    rewrite getc_set_next, getc_setc, N. auto.
  - intros cid. rewrite getc_set_next, getc_setc.
    destruct (Z.eqb_spec cid (l_next s)) as [->|N]; [congruence|]. intros H.
    destruct (R6 _ H) as [A|[_ []]]. left. exact A.
  - intros cid L. rewrite zmem_cons in L. apply orb_false_elim in L. destruct L as [N L].
    rewrite getc_set_next, getc_setc, N. auto.
  - exact I.
  - intros cid [<-|[]]. rewrite zmem_cons, Z.eqb_refl. reflexivity.
Qed.

Lemma el_read_udp_inv : forall fuel fd is_listener w r w',
  IINV (RI [] ex_none) w -> el_read_udp fuel fd is_listener w = (r, w') -> IINV (RI [] ex_none) w'.
Proof.
  intros fuel fd is_listener w r w' HI E. unfold el_read_udp in E. pose proof (MBI_all fuel) as M.
  destruct (sys "recvfrom" _ w) as [k w1] eqn:Es.
  pose proof (I_sys _ _ _ _ _ _ _ _ _ HI Es) as H1.
  destruct k as [n extra|e|]; [|destruct (is_eagain e); inversion E; subst; exact H1|inversion E; subst; exact H1].
  destruct (negb _ || _ || _); [inversion E; subst; dsync|].
  set (data := match extra with ABytes b :: _ => b | _ => [] end) in *.
  destruct is_listener.
  - set (w3 := emit _ (with_st w1 _)) in E.
    assert (H3 : IINV (RI [l_next (st w1)] ex_none) w3).
    { subst w3. eapply Inv_set_emit; [exact H1|reflexivity|].
      intros [] x _ HR. cbn [ustep]. cbn [in_step obs]. rewrite (ri_owed _ _ _ _ _ _ _ HR). cbn.
      eexists. split; [reflexivity|]. apply RIn_udp_fresh; [exact HR|reflexivity]. }
    set (cid := l_next (st w1)) in *. clearbody w3.
    destruct (handler fuel cid w3) as [[act rep] w4] eqn:Eh.
    pose proof (mb_handler _ M _ _ _ _ _ _ H3 Eh) as H4.
    assert (H5 : IINV (RI [] ex_none) (wsetc w4 cid (c_release (wc w4 cid)))).
    { eapply Inv_wsetc; [exact H4|]. intros [] x _ HR. apply RIn_release. exact HR. }
    destruct act; inversion E; subst; exact H5.
  - destruct (alookup fd (l_reg (st w1))) as [cid|]; [|inversion E; subst; dsync].
    set (w3 := emit _ (wsetc (ghost "udpconn" cid [] w1) cid _)) in E.
    assert (H3 : IINV (RI [] ex_none) w3).
    { subst w3. apply I_cb_plain; [reflexivity|].
      unfold ghost. eapply Inv_emit_wsetc; [exact H1|reflexivity|].
      intros [] x _ HR. cbn [ustep]. cbn [in_step]. rewrite (ri_owed _ _ _ _ _ _ _ HR).
      eexists. split; [reflexivity|]. unfold wc.
      apply RIn_setc; [apply RIn_skip; exact HR|reflexivity|reflexivity|].
      unfold live. cbn [i_closed]. rewrite zmem_cons, Z.eqb_refl. discriminate. }
    clearbody w3.
    destruct (handler fuel cid w3) as [[act rep] w4] eqn:Eh.
    pose proof (mb_handler _ M _ _ _ _ _ _ H3 Eh) as H4.
    destruct act; inversion E; subst; exact H4.
Qed.

Lemma el_accept_inv : forall fuel lfd is_udp w r w',
  IINV (RI [] ex_none) w -> el_accept fuel lfd is_udp w = (r, w') -> IINV (RI [] ex_none) w'.
Proof.
  intros fuel lfd is_udp w r w' HI E. unfold el_accept in E.
  destruct is_udp; [eapply el_read_udp_inv; eauto|].
  destruct (sys "accept" _ w) as [k w1] eqn:Es.
  pose proof (I_sys _ _ _ _ _ _ _ _ _ HI Es) as H1.
  destruct k as [nfd extra|e|]; [|destruct (_ || _); inversion E; subst; exact H1|inversion E; subst; exact H1].
  destruct (fd_in_use (st w1) nfd); [inversion E; subst; dsync|].
  eapply el_register0_inv; [|exact E].
  eapply Inv_with_st; [exact H1|]. intros [] x _ HR.
  apply RIn_xa_add; [apply RIn_fresh; auto|]. cbn [xsem set_next l_next]. lia.
Qed.

Lemma dispatch_inv : forall fuel fd ev w r w',
  IINV (RI [] ex_none) w -> dispatch fuel fd ev w = (r, w') -> IINV (RI [] (ex_of r)) w'.
Proof.
  intros fuel fd ev w r w' HI E. unfold dispatch in E.
  destruct (alookup fd (l_reg (st w))) as [cid|].
  - destruct (polopt (st w) && c_udp (wc w cid)); [apply I_post; eapply el_read_udp_inv; eauto|].
    eapply process_io_inv; eauto.
  - apply I_post. destruct (alookup fd (l_listeners (st w))) as [is_udp|].
    + eapply el_accept_inv; eauto.
    + destruct (polopt (st w)); [inversion E; subst; exact HI|]. eapply I_epctl; eauto.
Qed.

(* ------------------------------------------------------------------ *)
(* tasks, events, polling *)

Definition xa_of (t : task) : xasrt := match t with TRegister cid _ => XLt cid | _ => XNone end.

Lemma run_task_inv : forall fuel t w r w',
  IINV (RIn [] ex_none None (xa_of t)) w -> run_task fuel t w = (r, w') -> IINV (RI [] (ex_of r)) w'.
Proof.
  intros fuel t w r w' HI E. pose proof (MBI_all fuel) as M.
  destruct t as [cid cb|cid d cb|cid sg cb|cid cb|cid cb|cid|cid| |]; cbn [run_task xa_of] in *.
  - destruct (el_register0 fuel cid w) as [r1 w1] eqn:E1.
    pose proof (el_register0_inv _ _ _ _ _ HI E1) as H1. inversion E; subst. apply I_post.
    destruct cb; [apply I_emit; [oign|exact H1]|exact H1].
  - destruct (negb (c_opened (wc w cid))).
    + inversion E; subst. apply I_post. destruct cb; [apply I_emit; [oign|exact HI]|exact HI].
    + destruct (conn_write fuel cid d w) as [[n ok] w1] eqn:E1.
      pose proof (mb_write _ M _ _ _ _ _ _ _ HI E1) as H1. inversion E; subst. apply I_post.
      destruct cb; [apply I_emit; [oign|exact H1]|exact H1].
  - destruct (negb (c_opened (wc w cid))).
    + inversion E; subst. apply I_post. destruct cb; [apply I_emit; [oign|exact HI]|exact HI].
    + destruct (conn_writev fuel cid sg w) as [[n ok] w1] eqn:E1.
      pose proof (mb_writev _ M _ _ _ _ _ _ _ HI E1) as H1. inversion E; subst. apply I_post.
      destruct cb; [apply I_emit; [oign|exact H1]|exact H1].
  - destruct (el_wake fuel cid w) as [r1 w1] eqn:E1.
    pose proof (el_wake_inv _ _ _ _ _ HI E1) as H1. inversion E; subst. apply I_post.
    destruct cb; [apply I_emit; [oign|exact H1]|exact H1].
  - destruct (el_close fuel cid true w) as [r1 w1] eqn:E1.
    pose proof (mb_close _ M _ _ _ _ _ _ _ HI E1) as H1. inversion E; subst. apply I_post.
    destruct cb; [apply I_emit; [oign|exact H1]|exact H1].
  - eapply el_read_inv; [exact HI|left; reflexivity|exact E].
  - apply I_post. eapply (mb_elwrite _ M); eauto.
  - inversion E; subst. apply I_post. apply I_emit; [oign|exact HI].
  - inversion E; subst. eapply I_ex_weaken; [|exact HI]. intros c [].
Qed.

Lemma RIn_dequeue : forall u x s t u' lo' f,
  RIn [] ex_none None XNone u x s -> In t (tasks s) ->
  (forall y, In y (u' ++ lo') -> In y (tasks s)) ->
  RIn [] ex_none None (xa_of t) u x (set_queues s u' lo' f).
Proof.
  intros u x s t u' lo' f HR Hin Hsub.
  assert (HX : xsem (xa_of t) (set_queues s u' lo' f)).
  { destruct t; cbn [xa_of xsem]; auto. cbn [set_queues l_next]. eapply (ri_task _ _ _ _ _ _ _ HR); eauto. }
  apply RIn_xa_add; [|exact HX].
  eapply RIn_frame; [exact HR| | | |]; auto.
Qed.

Lemma drain_urgent_inv : forall fuel w r w',
  IINV (RI [] ex_none) w -> drain_urgent fuel w = (r, w') -> IINV (RI [] (ex_of r)) w'.
Proof.
  induction fuel as [|f IH]; intros w r w' HI E; cbn [drain_urgent] in E.
  { inversion E; subst. dsync. }
  destruct (halt w); [inversion E; subst; apply I_post; exact HI|].
  destruct (l_urgent (st w)) as [|t rest] eqn:Eq; [inversion E; subst; apply I_post; exact HI|].
  set (w1 := with_st w _) in E.
  assert (H1 : IINV (RIn [] ex_none None (xa_of t)) w1).
  { subst w1. eapply Inv_with_st; [exact HI|]. intros [] x _ HR. apply RIn_dequeue; [exact HR| |].
    - unfold tasks. rewrite Eq. left. reflexivity.
    - intros y Hy. unfold tasks. rewrite Eq. apply in_app_iff in Hy. apply in_app_iff. cbn [In]. tauto. }
  clearbody w1.
  destruct (run_task f t w1) as [r1 w2] eqn:Er.
  pose proof (run_task_inv _ _ _ _ _ H1 Er) as H2.
  destruct r1; try (eapply IH; [exact H2|exact E]).
  inversion E; subst. exact H2.
Qed.

Lemma drain_low_inv : forall fuel k w r w',
  IINV (RI [] ex_none) w -> drain_low fuel k w = (r, w') -> IINV (RI [] (ex_of r)) w'.
Proof.
  induction fuel as [|f IH]; intros k w r w' HI E; cbn [drain_low] in E.
  { inversion E; subst. dsync. }
  destruct (halt w); [inversion E; subst; apply I_post; exact HI|].
  destruct (k <=? 0); [inversion E; subst; apply I_post; exact HI|].
  destruct (l_low (st w)) as [|t rest] eqn:Eq; [inversion E; subst; apply I_post; exact HI|].
  set (w1 := with_st w _) in E.
  assert (H1 : IINV (RIn [] ex_none None (xa_of t)) w1).
  { subst w1. eapply Inv_with_st; [exact HI|]. intros [] x _ HR. apply RIn_dequeue; [exact HR| |].
    - unfold tasks. rewrite Eq. apply in_app_iff. right. left. reflexivity.
    - intros y Hy. unfold tasks. rewrite Eq. apply in_app_iff in Hy. apply in_app_iff. cbn [In]. tauto. }
  clearbody w1.
  destruct (run_task f t w1) as [r1 w2] eqn:Er.
  pose proof (run_task_inv _ _ _ _ _ H1 Er) as H2.
  destruct r1; try (eapply IH; [exact H2|exact E]).
  inversion E; subst. exact H2.
Qed.

Lemma chores_inv : forall fuel w r w',
  IINV (RI [] ex_none) w -> chores fuel w = (r, w') -> IINV (RI [] (ex_of r)) w'.
Proof.
  intros fuel w r w' HI E. unfold chores in E.
  destruct (drain_urgent fuel w) as [r1 w1] eqn:E1.
  pose proof (drain_urgent_inv _ _ _ _ HI E1) as H1.
  assert (Hrest : r1 <> RShutdown ->
    match drain_low fuel (l_maxlow (st w1)) w1 with
    | (RShutdown, w2) => (RShutdown, w2)
    | (_, w2) =>
      let s := set_flag (st w2) false in
      match l_urgent s, l_low s with
      | [], [] => (RNil, with_st w2 s)
      | _, _ => let '(_, w3) := efd_write (S (List.length (inp w2))) (with_st w2 (set_flag s true)) in (RNil, w3)
      end
    end = (r, w') -> IINV (RI [] (ex_of r)) w').
  { intros Hne E2. assert (H1' : IINV (RI [] ex_none) w1) by (destruct r1; try exact H1; congruence).
    destruct (drain_low fuel _ w1) as [r2 w2] eqn:E3.
    pose proof (drain_low_inv _ _ _ _ _ H1' E3) as H2.
    assert (Hfin : r2 <> RShutdown ->
      (let s := set_flag (st w2) false in
       match l_urgent s, l_low s with
       | [], [] => (RNil, with_st w2 s)
       | _, _ => let '(_, w3) := efd_write (S (List.length (inp w2))) (with_st w2 (set_flag s true)) in (RNil, w3)
       end) = (r, w') -> IINV (RI [] (ex_of r)) w').
    { intros Hne2 E4. assert (H2' : IINV (RI [] ex_none) w2) by (destruct r2; try exact H2; congruence).
      cbv zeta in E4.
      assert (Hf : forall f, IINV (RI [] ex_none) (with_st w2 (set_flag (st w2) f))).
      { intros f. eapply Inv_with_st; [exact H2'|]. intros [] x _ HR. apply RIn_flag. exact HR. }
      assert (Hw : forall r3 w3, efd_write (S (List.length (inp w2))) (with_st w2 (set_flag (set_flag (st w2) false) true)) = (r3, w3) ->
                  IINV (RI [] ex_none) w3).
      { intros r3 w3 E5. eapply I_efd_write; [|exact E5]. apply (Hf true). }
      destruct (l_urgent (set_flag (st w2) false)); [destruct (l_low (set_flag (st w2) false))|].
      - inversion E4; subst. apply I_post. apply Hf.
      - destruct (efd_write _ _) as [r3 w3] eqn:E5. inversion E4; subst. apply I_post. eapply Hw; eauto.
      - destruct (efd_write _ _) as [r3 w3] eqn:E5. inversion E4; subst. apply I_post. eapply Hw; eauto. }
    destruct r2; try (apply Hfin; [discriminate|exact E2]).
    inversion E2; subst. exact H2. }
  destruct r1; try (apply Hrest; [discriminate|exact E]).
  inversion E; subst. exact H1.
Qed.

Lemma events_inv_n : forall fuel n evs, (List.length evs <= n)%nat -> forall b w r b' w',
  IINV (RI [] ex_none) w -> events fuel evs b w = (r, b', w') -> IINV (RI [] (ex_of r)) w'.
Proof.
  intros fuel. induction n as [|n IH]; intros evs Hlen b w r b' w' HI E.
  - destruct evs; [|cbn in Hlen; lia]. cbn [events] in E. inversion E; subst. apply I_post. exact HI.
  - destruct evs as [|[fd|?|?] [|[ev|?|?] rest]]; cbn [events] in E;
      try (inversion E; subst; apply I_post; exact HI).
    destruct (halt w); [inversion E; subst; apply I_post; exact HI|].
    assert (Hlt : (List.length rest <= n)%nat) by (cbn in Hlen; lia).
    destruct (fd =? l_efd (st w)); [eapply IH; eauto|].
    destruct (dispatch fuel fd ev w) as [r1 w1] eqn:Ed.
    pose proof (dispatch_inv _ _ _ _ _ _ HI Ed) as H1.
    destruct r1; try (eapply IH; [exact Hlt|exact H1|exact E]); inversion E; subst; exact H1.
Qed.

Lemma events_inv : forall fuel evs b w r b' w',
  IINV (RI [] ex_none) w -> events fuel evs b w = (r, b', w') -> IINV (RI [] (ex_of r)) w'.
Proof. intros. eapply events_inv_n; eauto. Qed.

Lemma close_conns_inv : forall fuel w,
  IINV (RI [] ex_all) w -> IINV (RI [] ex_all) (close_conns fuel w).
Proof.
  induction fuel as [|f IH]; intros w HI; [cbn; dsync|]. rewrite close_conns_eq.
  destruct (halt w); [exact HI|]. destruct (l_reg (st w)); [exact HI|].
  destruct (pull_gen true w) as [[[name args]|] w1] eqn:Ep.
  - pose proof (I_pull _ _ _ _ _ _ _ _ HI Ep) as H1.
    destruct (String.eqb name "pick"); [|dsync].
    destruct args as [|[cid|?|?] [|]]; try dsync.
    destruct (el_close f cid true w1) as [r2 w2] eqn:Ec.
    apply IH. eapply (mb_close _ (MBI_all f)); eauto.
  - eapply I_pull; eauto.
Qed.

Lemma polling_inv : forall fuel w,
  IINV (RI [] ex_none) w -> IINV (RI [] ex_all) (polling fuel w).
Proof.
  induction fuel as [|f IH]; intros w HI; [cbn; dsync|]. rewrite polling_eq. cbv zeta.
  assert (H00 : IINV (RI [] ex_none) (emit ("g", [ASym "count"; AInt (zlen (l_reg (st w))); ABytes []]) w))
    by (apply I_emit; [oign|exact HI]).
  set (wc0 := emit ("g", [ASym "count"; AInt (zlen (l_reg (st w))); ABytes []]) w) in *.
  pose proof (Inv_pending_ign ustep in_step tt _ _ (l_reg (st wc0)) wc0 ltac:(intros; oign) H00) as H0.
  unfold pending_fold in H0. clearbody wc0.
  destruct (pull _) as [[[name evs]|] w1] eqn:Ep.
  2:{ eapply I_ex_weaken; [|eapply I_pull; eauto]. intros; exact I. }
  pose proof (I_pull _ _ _ _ _ _ _ _ H0 Ep) as H1.
  destruct (String.eqb name "wait"); [|dsync].
  destruct (events f evs false w1) as [[r b] w2] eqn:Ee.
  pose proof (events_inv _ _ _ _ _ _ _ H1 Ee) as H2.
  assert (Hw : IINV (RI [] ex_all) w2) by (eapply I_ex_weaken; [|exact H2]; intros; exact I).
  assert (Hch : r <> RShutdown -> IINV (RI [] ex_all)
     (match chores f w2 with (RShutdown, w3) => close_conns f w3 | (_, w3) => polling f w3 end)).
  { intros Hne. assert (H2' : IINV (RI [] ex_none) w2) by (destruct r; try exact H2; congruence).
    destruct (chores f w2) as [r3 w3] eqn:Ec.
    pose proof (chores_inv _ _ _ _ H2' Ec) as H3.
    destruct r3; try (apply IH; exact H3). apply close_conns_inv. exact H3. }
  destruct r; try (apply close_conns_inv; exact Hw);
    (destruct b; [apply Hch; discriminate|apply IH; exact H2]).
Qed.

(* ------------------------------------------------------------------ *)
(* the theorem *)

Lemma RIn_init : forall s, l_conns s = [] -> l_reg s = [] -> l_urgent s = [] -> l_low s = [] ->
  RIn [] ex_none None XNone tt (mkIn [] [] None) s.
Proof.
  intros s Hc Hr Hu Hl.
  assert (Hg : forall cid, getc s cid = dummy_conn) by (intros; unfold getc; rewrite Hc; reflexivity).
  constructor; unfold live; cbn [i_rest i_closed i_owed]; intros; rewrite ?Hg in *; cbn in *; auto; try discriminate.
  all: try (unfold tasks in *; rewrite Hu, Hl in *; cbn in *; tauto).
Qed.

Theorem inbound_holds : forall i t, run_history i = Some t -> inbound_ok t = true.
Proof.
  intros i t E. unfold run_history in E. destruct (init_world i) as [w0|] eqn:Ei; [|discriminate].
  inversion E; subst t. clear E.
  destruct (init_world_spec _ _ Ei) as (Hlog & Hh & Hc & Hr & Hu & Hl & Hn).
  assert (H0 : IINV (RI [] ex_none) w0).
  { unfold Inv. rewrite Hlog. cbn [rev run]. right. apply RIn_init; assumption. }
  pose proof (polling_inv (init_fuel i) w0 H0) as HF.
  apply Inv_check in HF. unfold inbound_ok.
  eapply check_cstep; [exact HF|]. apply check_total. intros h e. discriminate.
Qed.
