#!/bin/bash
set -e
cd /verif/coq
sed -i 's/Definition EV_IN := 1\.  Definition EV_OUT := 4\./Definition EV_IN := 1.  Definition EV_PRI := 2.  Definition EV_OUT := 4./' Model/Loop.v
sed -i 's/(EV_IN + EV_OUT)/(EV_IN + EV_PRI + EV_OUT)/g; s/(EV_IN + EV_ERR + EV_HUP)/(EV_IN + EV_PRI + EV_ERR + EV_HUP)/g' Model/Loop.v Proofs/Loop*.v
sed -i 's/firstn 1024 /firstn iov_max /g' Model/Loop.v Proofs/Loop*.v
python3 - <<'P'
p='Model/Loop.v'; s=open(p).read()
if 'Definition iov_max' not in s:
    s=s.replace("(* the slice arithmetic of conn.writev after a partial writev(2) *)","(* iovMax of eventloop_unix.go (checked against the source by genloop) *)\nDefinition iov_max : nat := 1024.\n\n(* the slice arithmetic of conn.writev after a partial writev(2) *)",1)
    open(p,'w').write(s)
P
cp /var/tmp/pio/coq/Model/LoopPio.v Model/LoopPio.v
cp /var/tmp/pio/coq/Proofs/LoopPioSpec.v Proofs/LoopPioSpec.v
grep -q LoopPio project.d/loop.list || printf 'Model/LoopPio.v\nProofs/LoopPioSpec.v\n' >> project.d/loop.list
