(* Proofs for C11: linkedlist.Buffer (Model/LList.v) refines the FIFO byte
   queue of Spec/LListSpec.v. *)
From Coq Require Import Lia ZArith ZifyBool List.
From GV Require Import Lib.Trace Model.LList Spec.LListSpec.
Open Scope list_scope.
Open Scope Z_scope.

Ltac splits := repeat match goal with |- _ /\ _ => split end.

(* ------------------------------------------------------------------ *)
(* zlen / ztake / zdrop                                                *)

Lemma ztake_firstn {A} n (l : list A) : ztake n l = firstn (Z.to_nat n) l.
Proof.
  unfold ztake, zlen. destruct (n >=? Z.of_nat (List.length l)) eqn:E; auto.
  rewrite firstn_all2; auto. lia.
Qed.

Lemma zdrop_skipn {A} n (l : list A) : zdrop n l = skipn (Z.to_nat n) l.
Proof.
  unfold zdrop, zlen. destruct (n >=? Z.of_nat (List.length l)) eqn:E; auto.
  rewrite skipn_all2; auto. lia.
Qed.

Lemma zlen_nil {A} : zlen (@nil A) = 0. Proof. reflexivity. Qed.
Lemma zlen_cons {A} (x : A) l : zlen (x :: l) = zlen l + 1.
Proof. unfold zlen. cbn [List.length]. lia. Qed.
Lemma zlen_app {A} (a b : list A) : zlen (a ++ b) = zlen a + zlen b.
Proof. unfold zlen. rewrite app_length. lia. Qed.
Lemma zlen_nonneg {A} (l : list A) : 0 <= zlen l.
Proof. unfold zlen. lia. Qed.
Lemma zlen_map {A B} (g : A -> B) l : zlen (map g l) = zlen l.
Proof. unfold zlen. now rewrite map_length. Qed.
Lemma zlen_0_nil {A} (l : list A) : zlen l = 0 -> l = [].
Proof. destruct l; auto. rewrite zlen_cons. pose proof (zlen_nonneg l). lia. Qed.
Lemma zlen_pos {A} (l : list A) : l <> [] -> 0 < zlen l.
Proof. destruct l; [congruence|]. rewrite zlen_cons. pose proof (zlen_nonneg l). lia. Qed.

Lemma ztake_zdrop {A} n (l : list A) : ztake n l ++ zdrop n l = l.
Proof. rewrite ztake_firstn, zdrop_skipn. apply firstn_skipn. Qed.

Lemma ztake_all {A} n (l : list A) : zlen l <= n -> ztake n l = l.
Proof. intros. unfold ztake. destruct (n >=? zlen l) eqn:E; auto. lia. Qed.
Lemma zdrop_all {A} n (l : list A) : zlen l <= n -> zdrop n l = [].
Proof. intros. unfold zdrop. destruct (n >=? zlen l) eqn:E; auto. lia. Qed.
Lemma ztake_le0 {A} n (l : list A) : n <= 0 -> ztake n l = [].
Proof. intros. rewrite ztake_firstn. replace (Z.to_nat n) with 0%nat by lia. reflexivity. Qed.
Lemma zdrop_le0 {A} n (l : list A) : n <= 0 -> zdrop n l = l.
Proof. intros. rewrite zdrop_skipn. replace (Z.to_nat n) with 0%nat by lia. reflexivity. Qed.

Lemma zlen_ztake {A} n (l : list A) : 0 <= n -> zlen (ztake n l) = Z.min n (zlen l).
Proof. intros. rewrite ztake_firstn. unfold zlen. rewrite firstn_length. lia. Qed.
Lemma zlen_zdrop {A} n (l : list A) : 0 <= n -> zlen (zdrop n l) = zlen l - Z.min n (zlen l).
Proof. intros. rewrite zdrop_skipn. unfold zlen. rewrite skipn_length. lia. Qed.

Lemma ztake_app_l {A} n (a b : list A) : n <= zlen a -> ztake n (a ++ b) = ztake n a.
Proof.
  intros. rewrite !ztake_firstn. rewrite firstn_app.
  replace (Z.to_nat n - List.length a)%nat with 0%nat by (unfold zlen in *; lia).
  cbn [firstn]. now rewrite app_nil_r.
Qed.
Lemma ztake_app_r {A} n (a b : list A) : zlen a <= n -> ztake n (a ++ b) = a ++ ztake (n - zlen a) b.
Proof.
  intros. rewrite !ztake_firstn. rewrite firstn_app. unfold zlen in *.
  rewrite firstn_all2 by lia. f_equal. f_equal. lia.
Qed.
Lemma zdrop_app_l {A} n (a b : list A) : n <= zlen a -> zdrop n (a ++ b) = zdrop n a ++ b.
Proof.
  intros. rewrite !zdrop_skipn. rewrite skipn_app.
  replace (Z.to_nat n - List.length a)%nat with 0%nat by (unfold zlen in *; lia).
  reflexivity.
Qed.
Lemma zdrop_app_r {A} n (a b : list A) : zlen a <= n -> zdrop n (a ++ b) = zdrop (n - zlen a) b.
Proof.
  intros. rewrite !zdrop_skipn. rewrite skipn_app. unfold zlen in *.
  rewrite skipn_all2 by lia. cbn [app]. f_equal. lia.
Qed.

Lemma map_ztake {A B} (g : A -> B) n l : map g (ztake n l) = ztake n (map g l).
Proof. rewrite !ztake_firstn. symmetry. apply firstn_map. Qed.
Lemma map_zdrop {A B} (g : A -> B) n l : map g (zdrop n l) = zdrop n (map g l).
Proof. rewrite !zdrop_skipn. symmetry. apply skipn_map. Qed.

Lemma ztake_ztake_app {A} n k (l : list A) : 0 <= n -> 0 <= k ->
  ztake n l ++ ztake k (zdrop n l) = ztake (n + k) l.
Proof.
  intros. rewrite !ztake_firstn, zdrop_skipn.
  replace (Z.to_nat (n + k)) with (Z.to_nat n + Z.to_nat k)%nat by lia.
  generalize (Z.to_nat n) (Z.to_nat k). clear. intros a; revert l.
  induction a; intros l b; cbn [firstn skipn app Nat.add]; auto.
  destruct l; cbn [firstn skipn app]. { now rewrite firstn_nil. }
  f_equal. apply IHa.
Qed.
Lemma zdrop_zdrop {A} n k (l : list A) : 0 <= n -> 0 <= k ->
  zdrop k (zdrop n l) = zdrop (n + k) l.
Proof.
  intros. rewrite !zdrop_skipn.
  replace (Z.to_nat (n + k)) with (Z.to_nat n + Z.to_nat k)%nat by lia.
  generalize (Z.to_nat n) (Z.to_nat k). clear. intros a; revert l.
  induction a; intros l b; cbn [skipn Nat.add]; auto.
  destruct l; cbn [skipn]; auto. now destruct b.
Qed.

(* ------------------------------------------------------------------ *)
(* invariant, pop / pushFront / pushBack                               *)

Lemma inv_empty : inv empty_buffer.
Proof. unfold inv, content, empty_buffer; cbn. splits; auto. Qed.

Lemma inv_mk s r sz bt :
  inv (mkBuf (s :: r) sz bt) -> s <> [] /\ inv (mkBuf r (sz - 1) (bt - zlen s)).
Proof.
  unfold inv, content; cbn [segs size bytes List.concat]. intros (H1 & H2 & H3).
  rewrite zlen_cons in H1. rewrite zlen_app in H2. inversion H3; subst. splits; auto; lia.
Qed.

Lemma inv_pushFront s b : s <> [] -> inv b -> inv (pushFront s b) /\ content (pushFront s b) = s ++ content b.
Proof.
  unfold inv, content, pushFront; cbn [segs size bytes List.concat]. intros Hs (H1 & H2 & H3).
  rewrite zlen_cons, zlen_app. splits; auto; lia.
Qed.

Lemma inv_pushBack s b : s <> [] -> inv b -> inv (pushBack s b) /\ content (pushBack s b) = content b ++ s.
Proof.
  unfold inv, content, pushBack; cbn [segs size bytes]. intros Hs (H1 & H2 & H3).
  rewrite concat_app; cbn [List.concat]. rewrite app_nil_r, !zlen_app, zlen_cons, zlen_nil.
  splits; auto; try lia. apply Forall_app; split; auto.
Qed.

Lemma zdrop_nonempty {A} n (s : list A) : 0 <= n < zlen s -> zdrop n s <> [].
Proof.
  intros H E. assert (zlen (zdrop n s) = 0) by (rewrite E; reflexivity).
  rewrite zlen_zdrop in H0; lia.
Qed.

(* ------------------------------------------------------------------ *)
(* Read                                                                *)

Lemma read_loop_spec : forall fuel b want acc, fuel = segs b -> inv b -> 0 < want ->
  exists b', read_loop fuel b want acc = (acc ++ ztake want (content b), b') /\
             content b' = zdrop want (content b) /\ inv b'.
Proof.
  induction fuel as [|s r IH]; intros [ss sz bt] want acc Hf Hi Hw; cbn [segs] in Hf; subst ss.
  - exists (mkBuf [] sz bt). cbn [read_loop]. unfold content; cbn [segs List.concat].
    rewrite ztake_all, zdrop_all, app_nil_r by (rewrite ?zlen_nil; lia). auto.
  - cbn [read_loop pop segs size bytes].
    destruct (inv_mk _ _ _ _ Hi) as (Hs & Hi1).
    pose proof (zlen_pos s Hs) as Hp.
    unfold content at 1 3; cbn [segs List.concat].
    destruct (Z.min want (zlen s) <? zlen s) eqn:E.
    + assert (Z.min want (zlen s) = want) as -> by lia.
      destruct (inv_pushFront (zdrop want s) (mkBuf r (sz - 1) (bt - zlen s))) as (Hi2 & Hc2); auto.
      { apply zdrop_nonempty; lia. }
      rewrite ztake_app_l, zdrop_app_l by lia.
      eexists; splits; [reflexivity|rewrite Hc2; reflexivity|exact Hi2].
    + assert (Z.min want (zlen s) = zlen s) as -> by lia.
      rewrite (ztake_all (zlen s) s) by lia.
      rewrite ztake_app_r, zdrop_app_r by lia.
      destruct (want - zlen s =? 0) eqn:E2.
      * rewrite ztake_le0, zdrop_le0, app_nil_r by lia.
        eexists; splits; [reflexivity|reflexivity|exact Hi1].
      * destruct (IH (mkBuf r (sz - 1) (bt - zlen s)) (want - zlen s) (acc ++ s)) as (b' & E3 & Hc & Hi3);
          auto; try lia.
        exists b'. splits; auto.
        rewrite E3. unfold content; cbn [segs]. now rewrite app_assoc.
Qed.

Lemma Read_spec b n : inv b -> 0 <= n ->
  exists b', Read b n = ((zlen (ztake n (content b)),
                          (if (0 <? n) && (zlen (content b) =? 0) then EEOF else ENil),
                          ztake n (content b)), b') /\
             content b' = zdrop n (content b) /\ inv b'.
Proof.
  intros Hi Hn. unfold Read. destruct (n =? 0) eqn:E.
  - assert (n = 0) by lia; subst. exists b. rewrite ztake_le0, zdrop_le0 by lia. splits; auto.
  - destruct (read_loop_spec (segs b) b n [] eq_refl Hi) as (b' & E1 & Hc & Hi'); [lia|].
    rewrite E1. cbn [app]. exists b'. splits; auto.
    rewrite zlen_ztake by lia. pose proof (zlen_nonneg (content b)).
    replace (0 <? n) with true by lia. cbn [andb].
    destruct (zlen (content b) =? 0) eqn:E0, (Z.min n (zlen (content b)) =? 0) eqn:E3; auto; lia.
Qed.

(* ------------------------------------------------------------------ *)
(* Discard                                                             *)

Lemma discard_loop_spec : forall fuel b n d, fuel = segs b -> inv b -> 0 <= n ->
  exists b', discard_loop fuel b n d = (d + zlen (ztake n (content b)), b') /\
             content b' = zdrop n (content b) /\ inv b'.
Proof.
  induction fuel as [|s r IH]; intros [ss sz bt] n d Hf Hi Hn; cbn [segs] in Hf; subst ss.
  - exists (mkBuf [] sz bt). unfold content; cbn [segs List.concat discard_loop].
    rewrite ztake_all by (rewrite ?zlen_nil; lia). rewrite zdrop_all by (rewrite ?zlen_nil; lia).
    change (zlen (@nil sbyte)) with 0. rewrite Z.add_0_r.
    destruct (n =? 0); auto.
  - cbn [discard_loop pop segs size bytes].
    destruct (n =? 0) eqn:E0.
    { assert (n = 0) by lia; subst. rewrite ztake_le0, zdrop_le0 by lia. rewrite zlen_nil, Z.add_0_r.
      eexists; splits; [reflexivity|reflexivity|exact Hi]. }
    destruct (inv_mk _ _ _ _ Hi) as (Hs & Hi1).
    pose proof (zlen_pos s Hs) as Hp.
    unfold content at 1 3; cbn [segs List.concat].
    destruct (n <? zlen s) eqn:E.
    + destruct (inv_pushFront (zdrop n s) (mkBuf r (sz - 1) (bt - zlen s))) as (Hi2 & Hc2); auto.
      { apply zdrop_nonempty; lia. }
      rewrite ztake_app_l, zdrop_app_l by lia. rewrite zlen_ztake by lia.
      replace (Z.min n (zlen s)) with n by lia.
      eexists; splits; [reflexivity|rewrite Hc2; reflexivity|exact Hi2].
    + rewrite ztake_app_r, zdrop_app_r by lia.
      destruct (IH (mkBuf r (sz - 1) (bt - zlen s)) (n - zlen s) (d + zlen s)) as (b' & E3 & Hc & Hi3);
        auto; try lia.
      exists b'. splits; auto.
      rewrite E3. unfold content; cbn [segs]. rewrite zlen_app. f_equal. lia.
Qed.

Lemma Discard_spec b n : inv b ->
  exists b', Discard b n = (zlen (ztake n (content b)), b') /\
             content b' = zdrop n (content b) /\ inv b'.
Proof.
  intros Hi. unfold Discard. destruct (n <=? 0) eqn:E.
  - exists b. rewrite ztake_le0, zdrop_le0 by lia. splits; auto.
  - destruct (discard_loop_spec (segs b) b n 0 eq_refl Hi) as (b' & E1 & Hc & Hi'); [lia|].
    rewrite E1. exists b'. splits; auto.
Qed.

(* ------------------------------------------------------------------ *)
(* Peek / PeekWithBytes                                                *)

Lemma peek_loop_spec : forall ss maxb cum, 0 <= cum < maxb ->
  exists bss, peek_loop ss maxb cum = Ret bss /\
              List.concat bss = ztake (maxb - cum) (List.concat ss).
Proof.
  induction ss as [|s r IH]; intros maxb cum Hc; cbn [peek_loop List.concat].
  - exists []. rewrite ztake_all by (rewrite zlen_nil; lia). auto.
  - pose proof (zlen_nonneg s) as Hs.
    set (offset := if cum + zlen s >? maxb then maxb - cum else zlen s).
    assert (0 <= offset <= zlen s) as Ho by (subst offset; destruct (cum + zlen s >? maxb) eqn:E; lia).
    replace ((offset <? 0) || (offset >? zlen s)) with false by lia.
    destruct (cum + offset =? maxb) eqn:E1.
    + exists [ztake offset s]. cbn [List.concat]. rewrite app_nil_r.
      replace (maxb - cum) with offset by lia. rewrite ztake_app_l by lia. auto.
    + assert (offset = zlen s /\ cum + zlen s < maxb) as (Ho2 & Ho3)
        by (subst offset; destruct (cum + zlen s >? maxb) eqn:E; lia).
      clearbody offset.
      destruct (IH maxb (cum + offset)) as (t & Et & Hct); [lia|].
      rewrite Et. cbn [obind]. exists (ztake offset s :: t). cbn [List.concat].
      rewrite Hct, Ho2, ztake_all by lia. rewrite ztake_app_r by lia. split; auto.
      do 2 f_equal. lia.
Qed.

Lemma peek_limit_cases b n : inv b ->
  (peek_limit b n = Some MaxInt32 /\ (n <= 0 \/ n = MaxInt32)) \/
  (peek_limit b n = None /\ 0 < n /\ n <> MaxInt32 /\ zlen (content b) < n) \/
  (peek_limit b n = Some n /\ 0 < n <= zlen (content b) /\ n <> MaxInt32).
Proof.
  intros (_ & Hb & _). unfold peek_limit, Buffered. rewrite Hb.
  destruct ((n <=? 0) || (n =? MaxInt32)) eqn:E.
  - left. split; auto. lia.
  - destruct (n >? zlen (content b)) eqn:E2; [right; left|right; right]; splits; auto; lia.
Qed.

Lemma Peek_spec b n : inv b -> fifo_step id (content b) (BPeek n) (OutPeek (Peek b n)) (content b).
Proof.
  intros Hi. unfold Peek.
  destruct (peek_limit_cases b n Hi) as [(E & H)|[(E & H1 & H2 & H3)|(E & H1 & H2)]]; rewrite E.
  - destruct (peek_loop_spec (segs b) MaxInt32 0) as (bss & Eb & Hc); [unfold MaxInt32; lia|].
    rewrite Eb. cbn [obind]. apply FS_PeekAll; auto; now rewrite Hc, Z.sub_0_r.
  - now apply FS_PeekShort.
  - destruct (peek_loop_spec (segs b) n 0) as (bss & Eb & Hc); [lia|].
    rewrite Eb. cbn [obind]. apply FS_PeekPrefix; auto; now rewrite Hc, Z.sub_0_r.
Qed.

Lemma peekb_head_spec : forall bs maxb cum acc, 0 <= cum < maxb ->
  exists acc' cum' done, peekb_head bs maxb cum acc = Ret (acc', cum', done) /\
    List.concat acc' = List.concat acc ++ ztake (maxb - cum) (List.concat bs) /\
    (done = true -> maxb - cum <= zlen (List.concat bs)) /\
    (done = false -> cum' = cum + zlen (List.concat bs) /\ cum' < maxb).
Proof.
  induction bs as [|p r IH]; intros maxb cum acc Hc; cbn [peekb_head List.concat].
  - exists acc, cum, false. rewrite ztake_all, app_nil_r, zlen_nil by (rewrite zlen_nil; lia).
    splits; auto; try congruence. intros; lia.
  - pose proof (zlen_nonneg p) as Hp.
    destruct (zlen p >? 0) eqn:E0.
    2:{ assert (p = []) by (apply zlen_0_nil; lia). subst p. cbn [app]. apply IH; auto. }
    set (offset := if cum + zlen p >? maxb then maxb - cum else zlen p).
    assert (0 <= offset <= zlen p) as Ho by (subst offset; destruct (cum + zlen p >? maxb) eqn:E; lia).
    replace ((offset <? 0) || (offset >? zlen p)) with false by lia.
    destruct (cum + offset =? maxb) eqn:E1.
    + exists (acc ++ [ztake offset p]), (cum + offset), true.
      rewrite concat_app; cbn [List.concat]. rewrite app_nil_r.
      replace (maxb - cum) with offset by lia. rewrite ztake_app_l by lia.
      splits; auto; try congruence. intros _. rewrite zlen_app. pose proof (zlen_nonneg (List.concat r)). lia.
    + assert (offset = zlen p /\ cum + zlen p < maxb) as (Ho2 & Ho3)
        by (subst offset; destruct (cum + zlen p >? maxb) eqn:E; lia).
      clearbody offset.
      destruct (IH maxb (cum + offset) (acc ++ [ztake offset p])) as (acc' & cum' & done & Et & Hct & Hd1 & Hd2); [lia|].
      exists acc', cum', done. splits; auto.
      * rewrite Hct, concat_app; cbn [List.concat]. rewrite app_nil_r, Ho2, ztake_all by lia.
        rewrite ztake_app_r by lia. rewrite <- app_assoc. do 3 f_equal. lia.
      * intros Hd. specialize (Hd1 Hd). rewrite zlen_app. lia.
      * intros Hd. specialize (Hd2 Hd). rewrite zlen_app. lia.
Qed.

Lemma fold_total_len : forall (ss : list seg) t,
  fold_left (fun total p => total + zlen p) ss t = t + zlen (List.concat ss).
Proof.
  induction ss as [|s r IH]; intros t; cbn [fold_left List.concat].
  - rewrite zlen_nil. lia.
  - rewrite IH, zlen_app. lia.
Qed.

Lemma peekb_limit_cases b n (bs : list (list Z)) : inv b ->
  (peekb_limit b n (map (map Lit) bs) = Some MaxInt32 /\ (n <= 0 \/ n = MaxInt32)) \/
  (peekb_limit b n (map (map Lit) bs) = None /\ 0 < n /\ n <> MaxInt32 /\ zlen (List.concat bs) + zlen (content b) < n) \/
  (peekb_limit b n (map (map Lit) bs) = Some n /\ 0 < n <= zlen (List.concat bs) + zlen (content b) /\ n <> MaxInt32).
Proof.
  intros (_ & Hb & _). unfold peekb_limit, Buffered. rewrite fold_total_len, Hb.
  rewrite <- concat_map, zlen_map.
  destruct ((n <=? 0) || (n =? MaxInt32)) eqn:E.
  - left. split; auto. lia.
  - destruct (n >? zlen (content b) + zlen (List.concat bs)) eqn:E2; [right; left|right; right]; splits; auto; lia.
Qed.

Lemma PeekWithBytes_spec b n bs : inv b ->
  fifo_step id (content b) (BPeekB n bs) (OutPeek (PeekWithBytes b n (map (map Lit) bs))) (content b).
Proof.
  intros Hi. unfold PeekWithBytes.
  assert (Hl : List.concat (map (map Lit) bs) = lits id (List.concat bs)).
  { unfold lits. rewrite map_id. now rewrite concat_map. }
  assert (forall maxb, 0 < maxb ->
    exists bss, obind (peekb_head (map (map Lit) bs) maxb 0 [])
       (fun '(acc, cum, done) => if done then Ret (ENil, acc)
          else obind (peek_loop (segs b) maxb cum) (fun r => Ret (ENil, acc ++ r))) = Ret (ENil, bss) /\
       List.concat bss = ztake maxb (lits id (List.concat bs) ++ content b)) as Hmain.
  { intros maxb Hm.
    destruct (peekb_head_spec (map (map Lit) bs) maxb 0 []) as (acc & cum & done & E & Hc & Hd1 & Hd2); [lia|].
    rewrite E. cbn [obind]. rewrite Hl, Z.sub_0_r in *. cbn [List.concat app] in Hc.
    destruct done.
    - exists acc. split; auto. rewrite Hc. rewrite ztake_app_l; auto.
    - destruct Hd2 as (Hd2 & Hd3); auto.
      destruct (peek_loop_spec (segs b) maxb cum) as (t & Et & Hct); [pose proof (zlen_nonneg (lits id (List.concat bs))); lia|].
      rewrite Et. cbn [obind]. exists (acc ++ t). split; auto.
      rewrite concat_app, Hc, Hct. rewrite ztake_all by lia. rewrite ztake_app_r by lia.
      do 2 f_equal. lia. }
  destruct (peekb_limit_cases b n bs Hi) as [(E & H)|[(E & H1 & H2 & H3)|(E & H1 & H2)]]; rewrite E.
  - destruct (Hmain MaxInt32) as (bss & Eb & Hc); [unfold MaxInt32; lia|].
    rewrite Eb. apply FS_PeekBAll; auto.
  - now apply FS_PeekBShort.
  - destruct (Hmain n) as (bss & Eb & Hc); [lia|].
    rewrite Eb. apply FS_PeekBPrefix; auto.
Qed.

(* ------------------------------------------------------------------ *)
(* pushes, Pop                                                         *)

Lemma map_nonempty {A B} (g : A -> B) l : zlen l =? 0 = false -> map g l <> [].
Proof. destruct l; intros H; [cbn in H; discriminate|cbn; congruence]. Qed.

Lemma PushBack_spec b p : inv b -> inv (PushBack b p) /\ content (PushBack b p) = content b ++ map Lit p.
Proof.
  intros Hi. unfold PushBack. destruct (zlen p =? 0) eqn:E.
  - rewrite (zlen_0_nil p) by lia. cbn [map]. now rewrite app_nil_r.
  - apply inv_pushBack; auto. now apply map_nonempty.
Qed.

Lemma PushFront_spec b p : inv b -> inv (PushFront b p) /\ content (PushFront b p) = map Lit p ++ content b.
Proof.
  intros Hi. unfold PushFront. destruct (zlen p =? 0) eqn:E.
  - rewrite (zlen_0_nil p) by lia. cbn [map app]. auto.
  - apply inv_pushFront; auto. now apply map_nonempty.
Qed.

Lemma Append_spec b s : inv b -> inv (Append b s) /\ content (Append b s) = content b ++ s.
Proof.
  intros Hi. unfold Append. destruct (zlen s =? 0) eqn:E.
  - rewrite (zlen_0_nil s) by lia. now rewrite app_nil_r.
  - apply inv_pushBack; auto. intros ->. rewrite zlen_nil in E. lia.
Qed.

Lemma Pop_spec b : inv b ->
  (Pop b = (None, b) /\ content b = []) \/
  (exists s b', Pop b = (Some s, b') /\ s <> [] /\ content b = s ++ content b' /\ inv b').
Proof.
  destruct b as [[|s r] sz bt]; intros Hi; unfold Pop, pop; cbn [segs size bytes].
  - left. auto.
  - right. destruct (inv_mk _ _ _ _ Hi) as (Hs & Hi1). eexists _, _. splits; eauto.
Qed.

(* ------------------------------------------------------------------ *)
(* ReadFrom                                                            *)

Lemma script_ok_cons k e sc : script_ok ((k, e) :: sc) -> 0 <= k /\ script_ok sc.
Proof. intros H. inversion H; subst. auto. Qed.

Lemma readfrom_loop_spec : forall sc src b n, script_ok sc -> inv b ->
  exists b', readfrom_loop sc src b n =
             (Ret (n + zlen (fst (reader_run sc src)), snd (reader_run sc src)), b') /\
             content b' = content b ++ map Lit (fst (reader_run sc src)) /\ inv b'.
Proof.
  induction sc as [|[k e] rest IH]; intros src b n Hs Hi; cbn [readfrom_loop reader_run].
  - exists b. cbn [fst snd map]. rewrite zlen_nil, Z.add_0_r, app_nil_r. auto.
  - apply script_ok_cons in Hs. destruct Hs as (Hk & Hs).
    replace (k <? 0) with false by lia.
    set (m := Z.min k (Z.min minRead (zlen src))).
    assert (0 <= m) as Hm by (pose proof (zlen_nonneg src); unfold minRead in *; lia).
    set (b1 := if m >? 0 then pushBack (map Lit (ztake m src)) b else b).
    assert (inv b1 /\ content b1 = content b ++ map Lit (ztake m src)) as (Hi1 & Hc1).
    { subst b1. destruct (m >? 0) eqn:E.
      - apply inv_pushBack; auto. apply map_nonempty.
        rewrite zlen_ztake by lia. pose proof (zlen_nonneg src). unfold m, minRead in *. lia.
      - rewrite ztake_le0 by lia. cbn [map]. now rewrite app_nil_r. }
    destruct e; cbn [fst snd];
      try (exists b1; splits; auto; rewrite zlen_ztake by lia;
           do 3 f_equal; pose proof (zlen_nonneg src); unfold m, minRead in *; lia).
    destruct (IH (zdrop m src) b1 (n + m) Hs Hi1) as (b' & E & Hc & Hi').
    destruct (reader_run rest (zdrop m src)) as [d' e'] eqn:Er. cbn [fst snd] in *.
    exists b'. rewrite E. splits; auto.
    + rewrite zlen_app, zlen_ztake by lia. do 3 f_equal.
      pose proof (zlen_nonneg src). unfold m, minRead in *. lia.
    + rewrite Hc, Hc1, map_app, app_assoc. reflexivity.
Qed.

(* ------------------------------------------------------------------ *)
(* WriteTo                                                             *)

Lemma writeto_loop_spec : forall fuel sc b n wr, fuel = segs b -> script_ok sc -> inv b ->
  exists k e b', writeto_loop fuel sc b n wr = (Ret (n + k, e, wr ++ ztake k (content b)), b') /\
                 0 <= k <= zlen (content b) /\ (e = ENil -> k = zlen (content b)) /\
                 content b' = zdrop k (content b) /\ inv b'.
Proof.
  induction fuel as [|s r IH]; intros sc [ss sz bt] n wr Hf Hs Hi; cbn [segs] in Hf; subst ss.
  - exists 0, ENil, (mkBuf [] sz bt). cbn [writeto_loop]. unfold content; cbn [segs List.concat].
    rewrite ztake_le0, zdrop_le0, app_nil_r, Z.add_0_r by lia. change (zlen (@nil sbyte)) with 0. splits; auto; lia.
  - cbn [writeto_loop pop segs size bytes].
    destruct (inv_mk _ _ _ _ Hi) as (Hne & Hi1).
    pose proof (zlen_pos s Hne) as Hp.
    assert (exists k0 e0 rest, match sc with [] => (zlen s, ENil, []) | (k, e) :: r0 => (k, e, r0) end = (k0, e0, rest)
                               /\ 0 <= k0 /\ script_ok rest) as (k0 & e0 & rest & Esc & Hk0 & Hrest).
    { destruct sc as [|[k e] r0].
      - eexists _, _, _; splits; eauto. lia.
      - apply script_ok_cons in Hs. destruct Hs. eexists _, _, _; splits; eauto. }
    rewrite Esc. replace (k0 <? 0) with false by lia.
    set (m := Z.min k0 (zlen s)).
    assert (content (mkBuf (s :: r) sz bt) = s ++ content (mkBuf r (sz - 1) (bt - zlen s))) as Hcc by reflexivity.
    pose proof (zlen_nonneg (content (mkBuf r (sz - 1) (bt - zlen s)))) as Hrn.
    destruct (m <? zlen s) eqn:E.
    + destruct (inv_pushFront (zdrop m s) (mkBuf r (sz - 1) (bt - zlen s))) as (Hi2 & Hc2); auto.
      { apply zdrop_nonempty; lia. }
      eexists m, _, _. splits; [rewrite Hcc, ztake_app_l by lia; reflexivity| | | | |exact Hi2];
        rewrite ?Hcc, ?zlen_app; try lia.
      * intros He. destruct e0; discriminate.
      * rewrite Hc2, zdrop_app_l by lia. reflexivity.
    + assert (m = zlen s) as Hm by lia. rewrite Hm, (ztake_all (zlen s) s) by lia.
      destruct e0;
        try (eexists (zlen s), _, _;
             splits; [rewrite Hcc, ztake_app_l, ztake_all by lia; reflexivity| | | | |exact Hi1];
             rewrite ?Hcc, ?zlen_app; try lia;
             [ intros ?; discriminate | rewrite zdrop_app_r, zdrop_le0 by lia; reflexivity ]).
      destruct (IH rest (mkBuf r (sz - 1) (bt - zlen s)) (n + zlen s) (wr ++ s) eq_refl Hrest Hi1)
        as (k & e & b' & Ew & Hk & He & Hc & Hi').
      exists (zlen s + k), e, b'. rewrite Ew, Hcc, zlen_app. splits; auto; try lia.
      * rewrite ztake_app_r by lia. replace (zlen s + k - zlen s) with k by lia.
        rewrite <- app_assoc, Z.add_assoc. reflexivity.
      * intros H. specialize (He H). lia.
      * rewrite Hc, zdrop_app_r by lia. f_equal. lia.
Qed.

(* ------------------------------------------------------------------ *)
(* one operation: simulation of the FIFO spec, invariant preserved      *)

Lemma lits_id p : lits id p = map Lit p.
Proof. unfold lits. apply map_id. Qed.

Lemma bstep_refines b bo : inv b -> bop_ok bo ->
  fifo_step id (content b) bo (snd (bstep b bo)) (content (fst (bstep b bo))) /\ inv (fst (bstep b bo)).
Proof.
  intros Hi Hok. destruct bo; cbn [bstep bop_ok] in *.
  - destruct (PushBack_spec b p Hi) as (Hi' & Hc). cbn [fst snd]. rewrite Hc, <- lits_id. split; auto. constructor.
  - destruct (PushFront_spec b p Hi) as (Hi' & Hc). cbn [fst snd]. rewrite Hc, <- lits_id. split; auto. constructor.
  - destruct (Append_spec b s Hi) as (Hi' & Hc). cbn [fst snd]. rewrite Hc. split; auto.
    rewrite <- (map_id s) at 2. constructor.
  - destruct (Read_spec b n Hi Hok) as (b' & E & Hc & Hi'). rewrite E. cbn [fst snd]. rewrite Hc.
    split; auto. now constructor.
  - cbn [fst snd]. split; auto. now apply Peek_spec.
  - cbn [fst snd]. split; auto. now apply PeekWithBytes_spec.
  - destruct (Pop_spec b Hi) as [(E & Hc)|(s & b' & E & Hs & Hc & Hi')]; rewrite E; cbn [fst snd]; split; auto.
    + rewrite Hc. constructor.
    + rewrite Hc. now constructor.
  - destruct (Discard_spec b n Hi) as (b' & E & Hc & Hi'). rewrite E. cbn [fst snd]. rewrite Hc.
    split; auto. constructor.
  - unfold ReadFrom. destruct (readfrom_loop_spec script src b 0 Hok Hi) as (b' & E & Hc & Hi').
    rewrite E. cbn [fst snd]. rewrite Hc, <- lits_id, Z.add_0_l. split; auto. now constructor.
  - unfold WriteTo. destruct (writeto_loop_spec (segs b) script b 0 [] eq_refl Hok Hi) as (k & e & b' & E & Hk & He & Hc & Hi').
    rewrite E. cbn [fst snd app]. rewrite Hc, Z.add_0_l. split; auto. now constructor.
  - cbn [fst snd]. split; [|apply inv_empty]. constructor.
  - cbn [fst snd]. split; auto. unfold AllocNode.
    replace (if n <=? 0 then 0 else n) with (Z.max n 0) by (destruct (n <=? 0) eqn:E; lia). constructor.
  - cbn [fst snd]. split; auto. constructor.
Qed.

(* ------------------------------------------------------------------ *)
(* llist_refines_fifo: every finite operation list                     *)

Theorem llist_refines_fifo : forall bos b,
  inv b -> Forall bop_ok bos ->
  fifo_run id (content b) bos (fst (run_buffer bos b)) (content (snd (run_buffer bos b))) /\
  inv (snd (run_buffer bos b)).
Proof.
  induction bos as [|bo r IH]; intros b Hi Hok; cbn [run_buffer].
  - cbn [fst snd]. split; auto. constructor.
  - inversion Hok; subst.
    destruct (bstep_refines b bo Hi) as (Hs & Hi1); auto.
    destruct (bstep b bo) as [b1 o]. cbn [fst snd] in *.
    destruct (IH b1 Hi1) as (Hr & Hi2); auto.
    destruct (run_buffer r b1) as [os b2]. cbn [fst snd] in *.
    split; auto. econstructor; eauto.
Qed.

(* the same run seen through any reading f of the stored bytes *)
Lemma concat_map_map {A B} (g : A -> B) (ll : list (list A)) :
  List.concat (map (map g) ll) = map g (List.concat ll).
Proof. symmetry. apply concat_map. Qed.

Lemma fifo_step_map {A} (f : sbyte -> A) q bo o q' :
  fifo_step id q bo o q' -> fifo_step f (map f q) bo (map_out f o) (map f q').
Proof.
  intros H. inversion H; subst; cbn [map_out]; unfold lits in *;
    rewrite ?map_id, ?map_app, ?map_ztake, ?map_zdrop in *.
  - constructor.
  - constructor.
  - constructor.
  - rewrite <- (zlen_map f q), <- (zlen_map f (ztake n q)), map_ztake. now constructor.
  - apply FS_PeekAll; auto. rewrite concat_map_map, H1. apply map_ztake.
  - apply FS_PeekShort; auto. now rewrite zlen_map.
  - apply FS_PeekPrefix; auto. { now rewrite zlen_map. } rewrite concat_map_map, H2. apply map_ztake.
  - apply FS_PeekBAll; auto. rewrite concat_map_map, H1, map_ztake, map_app. reflexivity.
  - apply FS_PeekBShort; auto. now rewrite zlen_map.
  - apply FS_PeekBPrefix; auto. { now rewrite zlen_map. }
    rewrite concat_map_map, H2, map_ztake, map_app. reflexivity.
  - constructor.
  - constructor. intros E. apply map_eq_nil in E. auto.
  - rewrite <- (zlen_map f (ztake n q)), map_ztake. constructor.
  - now constructor.
  - rewrite <- (zlen_map f q) in *. now constructor.
  - constructor.
  - constructor.
  - constructor.
Qed.

Lemma fifo_run_map {A} (f : sbyte -> A) q bos os q' :
  fifo_run id q bos os q' -> fifo_run f (map f q) bos (map (map_out f) os) (map f q').
Proof.
  induction 1; cbn [map]; econstructor; eauto using fifo_step_map.
Qed.

(* ------------------------------------------------------------------ *)
(* caller memory: cells, mutate, deref                                 *)

Lemma set_nth_length {A} n (v : A) l : List.length (set_nth n v l) = List.length l.
Proof. revert n; induction l; intros [|n]; cbn; auto. Qed.

Lemma set_nth_other {A} n m (v d : A) l : n <> m -> nth m (set_nth n v l) d = nth m l d.
Proof. revert n m; induction l; intros [|n] [|m] H; cbn; auto; try congruence. Qed.

Lemma set_nth_same {A} n (v d : A) l : (n < List.length l)%nat -> nth n (set_nth n v l) d = v.
Proof. revert n; induction l; intros [|n] H; cbn in *; auto; try lia. apply IHl. lia. Qed.

Lemma mutate_length st c i v : List.length (mutate st c i v) = List.length st.
Proof.
  unfold mutate. destruct ((c <? 0) || (i <? 0)); auto.
  destruct (nth_error st (Z.to_nat c)) as [[k d]|]; auto. apply set_nth_length.
Qed.

Lemma mutate_kind st c i v c' : aliased_cell (mutate st c i v) c' = aliased_cell st c'.
Proof.
  unfold aliased_cell, mutate. destruct (c' <? 0) eqn:E'; auto.
  destruct ((c <? 0) || (i <? 0)) eqn:E; auto.
  destruct (nth_error st (Z.to_nat c)) as [[k d]|] eqn:En; auto.
  destruct (Nat.eq_dec (Z.to_nat c) (Z.to_nat c')) as [Heq|Hne].
  - rewrite <- Heq. rewrite set_nth_same by (apply nth_error_Some; congruence).
    rewrite (nth_error_nth _ _ _ En). reflexivity.
  - now rewrite set_nth_other.
Qed.

Lemma mutate_other st c i v c' : c' <> c -> cell_data (mutate st c i v) c' = cell_data st c'.
Proof.
  intros Hne. unfold cell_data, mutate. destruct (c' <? 0) eqn:E'; auto.
  destruct ((c <? 0) || (i <? 0)) eqn:E; auto.
  destruct (nth_error st (Z.to_nat c)) as [[k d]|] eqn:En; auto.
  rewrite set_nth_other; auto. lia.
Qed.

Lemma mutate_same st c i v :
  cell_data (mutate st c i v) c =
  if (c <? 0) || (i <? 0) then cell_data st c else set_nth (Z.to_nat i) v (cell_data st c).
Proof.
  unfold cell_data, mutate. destruct ((c <? 0) || (i <? 0)) eqn:E; auto.
  replace (c <? 0) with false by lia.
  destruct (nth_error st (Z.to_nat c)) as [[k d]|] eqn:En.
  - rewrite set_nth_same by (apply nth_error_Some; congruence).
    rewrite (nth_error_nth _ _ _ En). reflexivity.
  - rewrite nth_overflow by (apply nth_error_None; auto). cbn [snd]. now destruct (Z.to_nat i).
Qed.

(* every reference held by the queue points to a buffer given to Append *)
Definition refs_ok (st : store) (q : list sbyte) : Prop :=
  forall c i, In (Ref c i) q -> 0 <= c < zlen st /\ aliased_cell st c = true.

Definition winv (w : world) : Prop := inv (buf w) /\ refs_ok (cells w) (content (buf w)).

Lemma winv_init : winv init_world.
Proof. split; [apply inv_empty|]. intros c i []. Qed.

(* two memories that agree on every buffer given to Append read every
   well-formed queue alike *)
Definition agree (st1 st2 : store) : Prop :=
  forall c, 0 <= c < zlen st1 -> aliased_cell st1 c = true -> cell_data st1 c = cell_data st2 c.

Lemma deref_agree st1 st2 l : agree st1 st2 -> refs_ok st1 l -> map (deref st1) l = map (deref st2) l.
Proof.
  intros Ha Hr. apply map_ext_in. intros [z|c i] Hin; cbn [deref]; auto.
  destruct (Hr c i Hin) as (Hc & Hk). now rewrite (Ha c Hc Hk).
Qed.

Lemma cell_data_app st x c : 0 <= c < zlen st -> cell_data (st ++ [x]) c = cell_data st c.
Proof.
  intros H. unfold cell_data. replace (c <? 0) with false by lia.
  rewrite app_nth1; auto. unfold zlen in H. lia.
Qed.

Lemma aliased_cell_app st x c : 0 <= c < zlen st -> aliased_cell (st ++ [x]) c = aliased_cell st c.
Proof.
  intros H. unfold aliased_cell. replace (c <? 0) with false by lia.
  rewrite app_nth1; auto. unfold zlen in H. lia.
Qed.

Lemma aliased_cell_new st k d : aliased_cell (st ++ [(k, d)]) (zlen st) = k.
Proof.
  unfold aliased_cell, zlen. replace (Z.of_nat (List.length st) <? 0) with false by lia.
  rewrite Nat2Z.id, app_nth2, Nat.sub_diag by lia. reflexivity.
Qed.

Lemma agree_app st x : agree st (st ++ [x]).
Proof. intros c Hc _. now rewrite cell_data_app. Qed.

Lemma refs_ok_app st x q : refs_ok st q -> refs_ok (st ++ [x]) q.
Proof.
  intros H c i Hin. destruct (H c i Hin) as (Hc & Hk).
  rewrite zlen_app, aliased_cell_app; auto. change (zlen [x]) with 1. split; auto. lia.
Qed.

Lemma agree_mutate_copied st c i v : aliased_cell st c = false -> agree st (mutate st c i v).
Proof.
  intros Hk c' Hc' Hk'. rewrite mutate_other; auto. intros ->. congruence.
Qed.

Lemma refs_ok_mutate st c i v q : refs_ok st q -> refs_ok (mutate st c i v) q.
Proof.
  intros H c' i' Hin. destruct (H c' i' Hin) as (Hc & Hk).
  rewrite mutate_kind. unfold zlen in *. rewrite mutate_length. auto.
Qed.

Lemma In_refs c n x : In x (refs c n) -> exists i, x = Ref c i.
Proof. unfold refs. intros H. apply in_map_iff in H. destruct H as (i & <- & _). eauto. Qed.

(* where the bytes of the new queue come from *)
Definition bop_new (bo : bop) : list sbyte :=
  match bo with
  | BPushBack p | BPushFront p => map Lit p
  | BAppend s => s
  | BReadFrom src sc => map Lit (fst (reader_run sc src))
  | _ => []
  end.

Lemma In_ztake {A} n (l : list A) x : In x (ztake n l) -> In x l.
Proof. intros H. rewrite <- (ztake_zdrop n l). apply in_or_app. auto. Qed.
Lemma In_zdrop {A} n (l : list A) x : In x (zdrop n l) -> In x l.
Proof. intros H. rewrite <- (ztake_zdrop n l). apply in_or_app. auto. Qed.

Lemma fifo_step_incl q bo o q' x :
  fifo_step id q bo o q' -> In x q' -> In x q \/ In x (bop_new bo).
Proof.
  intros H Hin. inversion H; subst; cbn [bop_new]; unfold lits in *; rewrite ?map_id in *; auto;
    try (apply in_app_or in Hin; tauto);
    try (apply In_zdrop in Hin; tauto);
    try (left; apply in_or_app; auto; fail);
    try (destruct Hin; fail).
Qed.

(* all bytes that occur in an answer *)
Definition out_bytes {A} (o : out A) : list A :=
  match o with
  | OutRead _ _ bs => bs
  | OutPeek (Ret (_, bss)) => List.concat bss
  | OutPop (Some s) => s
  | OutWriteTo (Ret (_, _, bs)) => bs
  | _ => []
  end.

Lemma fifo_step_out_incl q bo o q' x :
  fifo_step id q bo o q' -> In x (out_bytes o) -> In x q \/ exists z, x = Lit z.
Proof.
  intros H Hin. inversion H; subst; cbn [out_bytes] in Hin; unfold lits in *; rewrite ?map_id in *;
    try (destruct Hin; fail);
    try (apply In_ztake in Hin; tauto);
    try (rewrite H1 in Hin || rewrite H2 in Hin; apply In_ztake in Hin; try tauto;
         apply in_app_or in Hin; destruct Hin as [Hin|Hin]; auto;
         apply in_map_iff in Hin; destruct Hin as (z & <- & _); eauto).
  left. apply in_or_app. auto.
Qed.

Lemma map_out_ext {A B} (f g : A -> B) (o : out A) :
  (forall x, In x (out_bytes o) -> f x = g x) -> map_out f o = map_out g o.
Proof.
  intros H. destruct o as [|n e bs|[[e bss]|]|[s|]| | |[[[n e] bs]|]|]; cbn [map_out out_bytes] in *; auto.
  - f_equal. now apply map_ext_in.
  - do 3 f_equal. apply map_ext_in. intros s Hs. apply map_ext_in. intros x Hx.
    apply H. apply in_concat. eauto.
  - do 2 f_equal. now apply map_ext_in.
  - do 3 f_equal. now apply map_ext_in.
Qed.

(* ------------------------------------------------------------------ *)
(* one caller-level operation                                          *)

Lemma lower_props st o : op_ok o -> is_mut o = false ->
  bop_ok (snd (lower st o)) /\ agree st (fst (lower st o)) /\
  (forall q, refs_ok st q -> refs_ok (fst (lower st o)) q) /\
  refs_ok (fst (lower st o)) (bop_new (snd (lower st o))).
Proof.
  intros Hok Hm. destruct o as [p|p|p|c i v|bo]; cbn [lower fst snd bop_new bop_ok is_mut] in *; try discriminate.
  - splits; auto using agree_app, refs_ok_app.
    intros c i Hin. apply in_map_iff in Hin. destruct Hin as (z & E & _). discriminate.
  - splits; auto using agree_app, refs_ok_app.
    intros c i Hin. apply in_map_iff in Hin. destruct Hin as (z & E & _). discriminate.
  - splits; auto using agree_app, refs_ok_app.
    intros c i Hin. apply In_refs in Hin. destruct Hin as (j & E). inversion E; subst.
    rewrite zlen_app, aliased_cell_new. change (zlen [(true, p)]) with 1.
    pose proof (zlen_nonneg st). split; auto. lia.
  - assert (agree st st) by (intros c _ _; reflexivity).
    destruct bo; cbn [op_ok bop_ok bop_new] in *; splits; auto; try tauto;
      try (intros c i []).
    intros c i Hin. apply in_map_iff in Hin. destruct Hin as (z & E & _). discriminate.
Qed.

Lemma refs_ok_step st q bo o q' :
  fifo_step id q bo o q' -> refs_ok st q -> refs_ok st (bop_new bo) -> refs_ok st q'.
Proof.
  intros Hs Hq Hn c i Hin. destruct (fifo_step_incl _ _ _ _ _ Hs Hin); eauto.
Qed.

Lemma world_step_refines w o : winv w -> op_ok o ->
  wfifo_step (cells w) (vcontent w) o (snd (step w o)) (cells (fst (step w o))) (vcontent (fst (step w o)))
  /\ winv (fst (step w o)).
Proof.
  intros (Hi & Hr) Hok. destruct (is_mut o) eqn:Hm.
  - destruct o as [| | |c i v|]; try discriminate.
    unfold step, vcontent. cbn [lower bstep map_out fst snd buf cells].
    split; [|split; auto; cbn [buf cells]; auto using refs_ok_mutate].
    destruct (aliased_cell (cells w) c) eqn:Hk.
    + apply WS_mut_aliased; auto. now rewrite !zlen_map.
    + rewrite <- (deref_agree (cells w) (mutate (cells w) c i v)); auto using agree_mutate_copied.
      now apply WS_mut_copied.
  - destruct (lower_props (cells w) o Hok Hm) as (Hbo & Hag & Hext & Hnew).
    destruct (bstep_refines (buf w) (snd (lower (cells w) o)) Hi Hbo) as (Hs & Hi').
    unfold step, vcontent. destruct (lower (cells w) o) as [st' bo] eqn:El. cbn [fst snd] in *.
    destruct (bstep (buf w) bo) as [b' so] eqn:Eb. cbn [fst snd buf cells] in *.
    split.
    + rewrite (deref_agree (cells w) st'); auto.
      replace st' with (fst (lower (cells w) o)) by now rewrite El.
      apply WS_op; auto. rewrite El. cbn [fst snd]. now apply fifo_step_map.
    + split; auto. eapply refs_ok_step; eauto.
Qed.

Theorem world_refines_fifo : forall os w, winv w -> Forall op_ok os ->
  wfifo_run (cells w) (vcontent w) os (fst (run_world os w))
            (cells (snd (run_world os w))) (vcontent (snd (run_world os w)))
  /\ winv (snd (run_world os w)).
Proof.
  induction os as [|o r IH]; intros w Hw Hok; cbn [run_world].
  - cbn [fst snd]. split; auto. constructor.
  - inversion Hok; subst.
    destruct (world_step_refines w o Hw) as (Hs & Hw1); auto.
    destruct (step w o) as [w1 x]. cbn [fst snd] in *.
    destruct (IH w1 Hw1) as (Hr & Hw2); auto.
    destruct (run_world r w1) as [xs w2]. cbn [fst snd] in *.
    split; auto. econstructor; eauto.
Qed.

(* ------------------------------------------------------------------ *)
(* counters, IsEmpty, ReadFrom                                         *)

Lemma vcontent_len w : zlen (vcontent w) = zlen (content (buf w)).
Proof. unfold vcontent. apply zlen_map. Qed.

Theorem llist_counters : forall os, Forall op_ok os ->
  let w := snd (run_world os init_world) in
  Buffered (buf w) = zlen (vcontent w) /\
  Buffered (buf w) = zlen (List.concat (segs (buf w))) /\
  Len (buf w) = zlen (segs (buf w)).
Proof.
  intros os Hok w. destruct (world_refines_fifo os init_world winv_init Hok) as (_ & (H1 & H2 & _) & _).
  fold w in H1, H2. unfold Buffered, Len. rewrite vcontent_len. auto.
Qed.

Lemma inv_isempty_iff b : inv b -> (IsEmpty b = true <-> Buffered b = 0).
Proof.
  intros (H1 & H2 & H3). unfold IsEmpty, Buffered. rewrite H2. unfold content.
  destruct (segs b) as [|s r]; cbn [List.concat].
  - split; auto.
  - inversion H3; subst. rewrite zlen_app. pose proof (zlen_pos s H4). pose proof (zlen_nonneg (List.concat r)).
    split; [discriminate|lia].
Qed.

Theorem llist_isempty_iff : forall os, Forall op_ok os ->
  let w := snd (run_world os init_world) in
  IsEmpty (buf w) = true <-> Buffered (buf w) = 0.
Proof.
  intros os Hok w. destruct (world_refines_fifo os init_world winv_init Hok) as (_ & Hi & _).
  now apply inv_isempty_iff.
Qed.

Theorem readfrom_stores_all : forall os src sc, Forall op_ok os -> script_ok sc ->
  let w := snd (run_world os init_world) in
  let w' := fst (step w (OBuf (BReadFrom src sc))) in
  let returned := fst (reader_run sc src) in
  snd (step w (OBuf (BReadFrom src sc))) = OutReadFrom (Ret (zlen returned, snd (reader_run sc src))) /\
  vcontent w' = vcontent w ++ returned /\
  Buffered (buf w') = Buffered (buf w) + zlen returned.
Proof.
  intros os src sc Hok Hsc w w' returned.
  destruct (world_refines_fifo os init_world winv_init Hok) as (_ & Hi & Hr). fold w in Hi, Hr.
  subst w'. unfold step, vcontent. cbn [lower bstep]. unfold ReadFrom.
  destruct (readfrom_loop_spec sc src (buf w) 0 Hsc Hi) as (b' & E & Hc & Hi').
  rewrite E. cbn [fst snd buf cells map_out]. rewrite Hc, map_app, map_map. cbn [deref]. rewrite map_id.
  splits; auto.
  destruct Hi as (_ & Hb & _), Hi' as (_ & Hb' & _). unfold Buffered. rewrite Hb, Hb', Hc, zlen_app, zlen_map.
  reflexivity.
Qed.

(* ------------------------------------------------------------------ *)
(* PushBack / PushFront copy: caller writes to such buffers are never   *)
(* visible -- simulation between two caller memories that differ only   *)
(* in buffers that were not given to Append                            *)

Definition sim_store (st1 st2 : store) : Prop :=
  map fst st1 = map fst st2 /\ agree st1 st2.

Lemma sim_length st1 st2 : sim_store st1 st2 -> zlen st1 = zlen st2.
Proof. intros (H & _). unfold zlen. now rewrite <- (map_length fst st1), H, map_length. Qed.

Lemma aliased_cell_kinds st1 st2 c : map fst st1 = map fst st2 -> aliased_cell st1 c = aliased_cell st2 c.
Proof.
  intros H. unfold aliased_cell. destruct (c <? 0); auto.
  rewrite <- (map_nth fst st1), <- (map_nth fst st2). now rewrite H.
Qed.

Lemma map_fst_set_nth : forall n (st : store) k d d', nth_error st n = Some (k, d) ->
  map fst (set_nth n (k, d') st) = map fst st.
Proof.
  induction n; intros [|[k0 d0] st] k d d' H; cbn in *; try discriminate.
  - inversion H; subst. reflexivity.
  - f_equal. eapply IHn; eauto.
Qed.

Lemma map_fst_mutate st c i v : map fst (mutate st c i v) = map fst st.
Proof.
  unfold mutate. destruct ((c <? 0) || (i <? 0)); auto.
  destruct (nth_error st (Z.to_nat c)) as [[k d]|] eqn:E; auto. eapply map_fst_set_nth; eauto.
Qed.

Lemma cell_data_new st x : cell_data (st ++ [x]) (zlen st) = snd x.
Proof.
  unfold cell_data, zlen. replace (Z.of_nat (List.length st) <? 0) with false by lia.
  rewrite Nat2Z.id, app_nth2, Nat.sub_diag by lia. reflexivity.
Qed.

Lemma sim_store_app st1 st2 x : sim_store st1 st2 -> sim_store (st1 ++ [x]) (st2 ++ [x]).
Proof.
  intros Hs. pose proof (sim_length _ _ Hs) as Hl. destruct Hs as (Hk & Ha). split.
  - now rewrite !map_app, Hk.
  - intros c Hc Hal. rewrite zlen_app in Hc. change (zlen [x]) with 1 in Hc.
    destruct (Z.eq_dec c (zlen st1)) as [->|Hne].
    + rewrite cell_data_new. rewrite Hl. now rewrite cell_data_new.
    + rewrite aliased_cell_app in Hal by lia. rewrite !cell_data_app by lia. apply Ha; auto. lia.
Qed.

Lemma sim_store_mutate st1 st2 c i v : sim_store st1 st2 -> sim_store (mutate st1 c i v) (mutate st2 c i v).
Proof.
  intros Hs. pose proof (sim_length _ _ Hs) as Hl. destruct Hs as (Hk & Ha). split.
  - now rewrite !map_fst_mutate.
  - intros c' Hc' Hal. rewrite mutate_kind in Hal. unfold zlen in Hc'. rewrite mutate_length in Hc'.
    destruct (Z.eq_dec c' c) as [->|Hne].
    + rewrite !mutate_same. rewrite (Ha c); auto.
    + rewrite !mutate_other; auto.
Qed.

Lemma sim_step w1 w2 o : winv w1 -> op_ok o -> buf w1 = buf w2 -> sim_store (cells w1) (cells w2) ->
  snd (step w1 o) = snd (step w2 o) /\
  buf (fst (step w1 o)) = buf (fst (step w2 o)) /\
  sim_store (cells (fst (step w1 o))) (cells (fst (step w2 o))).
Proof.
  intros (Hi & Hr) Hok Hb Hs. pose proof (sim_length _ _ Hs) as Hl.
  destruct (is_mut o) eqn:Hm.
  - destruct o as [| | |c i v|]; try discriminate.
    unfold step. cbn [lower bstep map_out fst snd buf cells]. splits; auto using sim_store_mutate.
  - destruct (lower_props (cells w1) o Hok Hm) as (Hbo & Hag & Hext & Hnew).
    assert (snd (lower (cells w1) o) = snd (lower (cells w2) o) /\
            sim_store (fst (lower (cells w1) o)) (fst (lower (cells w2) o))) as (Ebo & Hs').
    { destruct o; cbn [lower fst snd]; try rewrite Hl; auto using sim_store_app. discriminate. }
    destruct (bstep_refines (buf w1) (snd (lower (cells w1) o)) Hi Hbo) as (Hst & Hi').
    unfold step. rewrite <- Hb.
    destruct (lower (cells w1) o) as [st1' bo] eqn:E1. destruct (lower (cells w2) o) as [st2' bo2] eqn:E2.
    cbn [fst snd] in *. subst bo2.
    destruct (bstep (buf w1) bo) as [b' so]. cbn [fst snd buf cells] in *. splits; auto.
    apply map_out_ext. intros x Hx.
    destruct (fifo_step_out_incl _ _ _ _ x Hst Hx) as [Hin|(z & ->)]; auto.
    destruct x as [z|c i]; cbn [deref]; auto.
    destruct (Hext _ Hr c i Hin) as (Hc & Hk). destruct Hs' as (_ & Ha'). now rewrite (Ha' c Hc Hk).
Qed.

Lemma sim_run : forall os w1 w2, winv w1 -> Forall op_ok os -> buf w1 = buf w2 ->
  sim_store (cells w1) (cells w2) ->
  fst (run_world os w1) = fst (run_world os w2) /\
  buf (snd (run_world os w1)) = buf (snd (run_world os w2)) /\
  sim_store (cells (snd (run_world os w1))) (cells (snd (run_world os w2))) /\
  winv (snd (run_world os w1)).
Proof.
  induction os as [|o r IH]; intros w1 w2 Hw Hok Hb Hs; cbn [run_world].
  - cbn [fst snd]. auto.
  - inversion Hok; subst.
    destruct (sim_step w1 w2 o Hw) as (Eo & Hb1 & Hs1); auto.
    destruct (world_step_refines w1 o Hw) as (_ & Hw1); auto.
    destruct (step w1 o) as [w1' x1]. destruct (step w2 o) as [w2' x2]. cbn [fst snd] in *. subst x2.
    destruct (IH w1' w2' Hw1) as (Er & Hb2 & Hs2 & Hw2); auto.
    destruct (run_world r w1') as [xs1 w1'']. destruct (run_world r w2') as [xs2 w2'']. cbn [fst snd] in *.
    splits; auto. now f_equal.
Qed.

Lemma sim_vcontent w1 w2 : winv w1 -> buf w1 = buf w2 -> sim_store (cells w1) (cells w2) ->
  vcontent w1 = vcontent w2.
Proof.
  intros (_ & Hr) Hb (_ & Ha). unfold vcontent. rewrite <- Hb. now apply deref_agree.
Qed.

Lemma sim_store_mutate_copied st c i v : aliased_cell st c = false -> sim_store st (mutate st c i v).
Proof. intros H. split; [now rewrite map_fst_mutate|now apply agree_mutate_copied]. Qed.

(* the general form: any caller buffer that was not given to Append *)
Theorem copied_cell_writes_invisible : forall os c i v os2, Forall op_ok os -> Forall op_ok os2 ->
  let w := snd (run_world os init_world) in
  aliased_cell (cells w) c = false ->
  let wm := fst (step w (OMut c i v)) in
  buf wm = buf w /\ vcontent wm = vcontent w /\
  fst (run_world os2 wm) = fst (run_world os2 w) /\
  vcontent (snd (run_world os2 wm)) = vcontent (snd (run_world os2 w)).
Proof.
  intros os c i v os2 Hok Hok2 w Hk wm.
  destruct (world_refines_fifo os init_world winv_init Hok) as (_ & Hw). fold w in Hw.
  assert (buf w = buf wm) as Hb by reflexivity.
  assert (sim_store (cells w) (cells wm)) as Hs by (apply sim_store_mutate_copied; auto).
  destruct (sim_run os2 w wm Hw Hok2 Hb Hs) as (Eo & Hb2 & Hs2 & Hw2).
  splits; auto.
  - symmetry. now apply sim_vcontent.
  - symmetry. now apply sim_vcontent.
Qed.

(* the buffer passed to PushBack / PushFront is such a buffer, for ever *)
Lemma kinds_step w o : exists x, map fst (cells (fst (step w o))) = map fst (cells w) ++ x.
Proof.
  unfold step. destruct o; cbn [lower]; destruct (bstep (buf w) _); cbn [fst cells];
    rewrite ?map_app, ?map_fst_mutate; eauto; exists []; now rewrite app_nil_r.
Qed.

Lemma kinds_run : forall os w, exists x, map fst (cells (snd (run_world os w))) = map fst (cells w) ++ x.
Proof.
  induction os as [|o r IH]; intros w; cbn [run_world].
  - exists []. now rewrite app_nil_r.
  - destruct (kinds_step w o) as (x1 & E1). destruct (step w o) as [w1 y]. cbn [fst] in E1.
    destruct (IH w1) as (x2 & E2). destruct (run_world r w1) as [ys w2]. cbn [snd] in *.
    exists (x1 ++ x2). now rewrite E2, E1, app_assoc.
Qed.

Lemma aliased_cell_nth st c : 0 <= c -> aliased_cell st c = nth (Z.to_nat c) (map fst st) false.
Proof.
  intros H. unfold aliased_cell. replace (c <? 0) with false by lia.
  now rewrite <- (map_nth fst st).
Qed.

Lemma pushed_cell_copied (push : list Z -> op) p os w :
  push = OPushBack \/ push = OPushFront ->
  aliased_cell (cells (snd (run_world (push p :: os) w))) (zlen (cells w)) = false.
Proof.
  intros Hp. cbn [run_world].
  assert (map fst (cells (fst (step w (push p)))) = map fst (cells w) ++ [false]) as E1.
  { destruct Hp; subst push; unfold step; cbn [lower]; destruct (bstep (buf w) _); cbn [fst cells];
      now rewrite map_app. }
  destruct (step w (push p)) as [w1 y]. cbn [fst] in E1.
  destruct (kinds_run os w1) as (x & E2). destruct (run_world os w1) as [ys w2]. cbn [snd] in *.
  rewrite aliased_cell_nth by apply zlen_nonneg. rewrite E2, E1, <- app_assoc.
  unfold zlen. rewrite Nat2Z.id, app_nth2 by (rewrite map_length; lia).
  rewrite map_length, Nat.sub_diag. reflexivity.
Qed.

Lemma run_world_app_snd : forall a b w,
  snd (run_world (a ++ b) w) = snd (run_world b (snd (run_world a w))).
Proof.
  induction a as [|o r IH]; intros b w; cbn [app run_world snd]; auto.
  destruct (step w o) as [w1 y]. specialize (IH b w1).
  destruct (run_world (r ++ b) w1) as [ys w2]. destruct (run_world r w1) as [ys' w2'].
  cbn [snd] in *. exact IH.
Qed.

Theorem pushback_copies : forall (push : list Z -> op) os p os1 i v os2,
  push = OPushBack \/ push = OPushFront ->
  Forall op_ok os -> Forall op_ok os1 -> Forall op_ok os2 ->
  let w0 := snd (run_world os init_world) in
  let c := zlen (cells w0) in                         (* the caller's buffer holding p *)
  let w := snd (run_world (push p :: os1) w0) in      (* pushed, then anything *)
  let wm := fst (step w (OMut c i v)) in              (* the caller overwrites its buffer *)
  vcontent wm = vcontent w /\
  fst (run_world os2 wm) = fst (run_world os2 w) /\
  vcontent (snd (run_world os2 wm)) = vcontent (snd (run_world os2 w)).
Proof.
  intros push os p os1 i v os2 Hp Hok Hok1 Hok2 w0 c w wm.
  assert (w = snd (run_world (os ++ push p :: os1) init_world)) as Ew.
  { subst w w0. now rewrite run_world_app_snd. }
  assert (Forall op_ok (os ++ push p :: os1)) as Hall.
  { apply Forall_app. split; auto. constructor; auto. destruct Hp; subst push; exact I. }
  assert (aliased_cell (cells w) c = false) as Hk by (apply pushed_cell_copied; auto).
  rewrite Ew in Hk |- *. subst wm. rewrite Ew.
  destruct (copied_cell_writes_invisible (os ++ push p :: os1) c i v os2 Hall Hok2 Hk) as (_ & H1 & H2 & H3).
  auto.
Qed.

(* ------------------------------------------------------------------ *)
(* no panic with contract-respecting readers and writers               *)

Definition is_panic {A} (o : out A) : bool :=
  match o with
  | OutPeek Panic | OutReadFrom Panic | OutWriteTo Panic => true
  | _ => false
  end.

Lemma fifo_step_no_panic {A} (f : sbyte -> A) q bo o q' : fifo_step f q bo o q' -> is_panic o = false.
Proof. intros H. inversion H; reflexivity. Qed.

Theorem llist_no_panic : forall os, Forall op_ok os ->
  Forall (fun o => is_panic o = false) (fst (run_world os init_world)).
Proof.
  intros os Hok. destruct (world_refines_fifo os init_world winv_init Hok) as (Hr & _).
  induction Hr; constructor; auto.
  - inversion H; subst; auto. eapply fifo_step_no_panic; eauto.
  - apply IHHr. now inversion Hok.
Qed.

(* ------------------------------------------------------------------ *)
(* the operations spelled out on byte values                           *)

Lemma lits_deref st p : lits (deref st) p = p.
Proof. unfold lits. rewrite map_map. cbn [deref]. apply map_id. Qed.

Lemma map_nth_seq {A} (d : A) : forall l pre,
  map (fun i => nth i (pre ++ l) d) (seq (List.length pre) (List.length l)) = l.
Proof.
  induction l as [|x l IH]; intros pre; cbn [List.length seq map]; auto.
  rewrite app_nth2, Nat.sub_diag by lia. cbn [nth]. f_equal.
  specialize (IH (pre ++ [x])). rewrite app_length, <- app_assoc in IH. cbn [List.length app] in IH.
  now rewrite Nat.add_1_r in IH.
Qed.

Lemma deref_refs st k p : map (deref (st ++ [(k, p)])) (refs (zlen st) (List.length p)) = p.
Proof.
  unfold refs. rewrite map_map.
  transitivity (map (fun i => nth i ([] ++ p) 0) (seq (List.length (@nil Z)) (List.length p)));
    [|apply map_nth_seq].
  cbn [List.length app]. apply map_ext. intros i. cbn [deref].
  replace (Z.of_nat i <? 0) with false by lia. rewrite cell_data_new, Nat2Z.id. reflexivity.
Qed.

Lemma wfifo_step_nonmut st q o r st' q' : wfifo_step st q o r st' q' -> is_mut o = false ->
  fifo_step (deref (fst (lower st o))) q (snd (lower st o)) r q'.
Proof. intros H Hm. inversion H; subst; auto; discriminate. Qed.

Section Reachable.
Context (os : list op) (Hok : Forall op_ok os).
Let w := snd (run_world os init_world).
Let q := vcontent w.

Lemma reach_winv : winv w.
Proof. exact (proj2 (world_refines_fifo os init_world winv_init Hok)). Qed.

Lemma reach_buf_step bo : op_ok (OBuf bo) ->
  fifo_step (deref (cells w)) q bo (snd (step w (OBuf bo))) (vcontent (fst (step w (OBuf bo)))) /\
  cells (fst (step w (OBuf bo))) = cells w.
Proof.
  intros Hb. destruct (world_step_refines w (OBuf bo) reach_winv Hb) as (Hs & _).
  inversion Hs; subst. cbn [lower fst snd] in *. split; auto.
Qed.

Theorem read_exact n : 0 <= n ->
  snd (step w (OBuf (BRead n))) =
    OutRead (Z.min n (zlen q)) (if (0 <? n) && (zlen q =? 0) then EEOF else ENil) (ztake n q) /\
  vcontent (fst (step w (OBuf (BRead n)))) = zdrop n q.
Proof.
  intros Hn. destruct (reach_buf_step (BRead n) Hn) as (Hs & _).
  inversion Hs; subst. rewrite zlen_ztake by lia. auto.
Qed.

Theorem peek_exact n :
  exists e bss, snd (step w (OBuf (BPeek n))) = OutPeek (Ret (e, bss)) /\
    vcontent (fst (step w (OBuf (BPeek n)))) = q /\
    ((n <= 0 \/ n = MaxInt32) -> e = ENil /\ List.concat bss = ztake MaxInt32 q) /\
    (0 < n <= zlen q -> n <> MaxInt32 -> e = ENil /\ List.concat bss = ztake n q) /\
    (zlen q < n -> n <> MaxInt32 -> e = EShortBuf /\ bss = []).
Proof.
  destruct (reach_buf_step (BPeek n) I) as (Hs & _).
  pose proof (zlen_nonneg q) as Hq.
  inversion Hs; subst; eexists _, _; splits; eauto; intros; try lia; auto.
Qed.

Theorem pop_exact :
  (q = [] /\ snd (step w (OBuf BPop)) = OutPop None /\ vcontent (fst (step w (OBuf BPop))) = []) \/
  (exists s, s <> [] /\ snd (step w (OBuf BPop)) = OutPop (Some s) /\
             q = s ++ vcontent (fst (step w (OBuf BPop)))).
Proof.
  destruct (reach_buf_step BPop I) as (Hs & _).
  inversion Hs; subst.
  - left. auto.
  - right. exists s. auto.
Qed.

Theorem discard_exact n :
  snd (step w (OBuf (BDiscard n))) = OutDiscard (Z.max 0 (Z.min n (zlen q))) /\
  vcontent (fst (step w (OBuf (BDiscard n)))) = zdrop n q.
Proof.
  destruct (reach_buf_step (BDiscard n) I) as (Hs & _).
  inversion Hs; subst. split; auto. f_equal.
  destruct (Z.le_gt_cases n 0).
  - rewrite ztake_le0 by lia. pose proof (zlen_nonneg q). rewrite zlen_nil. lia.
  - rewrite zlen_ztake by lia. pose proof (zlen_nonneg q). lia.
Qed.

Theorem writeto_exact sc : script_ok sc ->
  exists k e, snd (step w (OBuf (BWriteTo sc))) = OutWriteTo (Ret (k, e, ztake k q)) /\
    vcontent (fst (step w (OBuf (BWriteTo sc)))) = zdrop k q /\
    0 <= k <= zlen q /\ (e = ENil -> k = zlen q).
Proof.
  intros Hsc. destruct (reach_buf_step (BWriteTo sc) Hsc) as (Hs & _).
  inversion Hs; subst. eexists _, _; splits; eauto; lia.
Qed.

Theorem push_exact p :
  vcontent (fst (step w (OPushBack p))) = q ++ p /\
  vcontent (fst (step w (OPushFront p))) = p ++ q /\
  vcontent (fst (step w (OAppend p))) = q ++ p.
Proof.
  splits.
  - destruct (world_step_refines w (OPushBack p) reach_winv I) as (Hs & _).
    apply wfifo_step_nonmut in Hs; [|reflexivity]. cbn [lower fst snd] in Hs.
    remember (vcontent (fst (step w (OPushBack p)))) as q'. clear Heqq'.
    inversion Hs; subst. now rewrite lits_deref.
  - destruct (world_step_refines w (OPushFront p) reach_winv I) as (Hs & _).
    apply wfifo_step_nonmut in Hs; [|reflexivity]. cbn [lower fst snd] in Hs.
    remember (vcontent (fst (step w (OPushFront p)))) as q'. clear Heqq'.
    inversion Hs; subst. now rewrite lits_deref.
  - destruct (world_step_refines w (OAppend p) reach_winv I) as (Hs & _).
    apply wfifo_step_nonmut in Hs; [|reflexivity]. cbn [lower fst snd] in Hs.
    remember (vcontent (fst (step w (OAppend p)))) as q'. clear Heqq'.
    inversion Hs; subst. now rewrite deref_refs.
Qed.

End Reachable.

(* ------------------------------------------------------------------ *)
(* the forms quoted in Properties/C11.v                                *)

Theorem llist_refines_fifo_empty : forall bos, Forall bop_ok bos ->
  fifo_run id [] bos (fst (run_buffer bos empty_buffer)) (content (snd (run_buffer bos empty_buffer))).
Proof. intros bos H. exact (proj1 (llist_refines_fifo bos empty_buffer inv_empty H)). Qed.

Theorem world_refines_fifo_init : forall os, Forall op_ok os ->
  wfifo_run [] [] os (fst (run_world os init_world))
            (cells (snd (run_world os init_world))) (vcontent (snd (run_world os init_world))).
Proof. intros os H. exact (proj1 (world_refines_fifo os init_world winv_init H)). Qed.
