MATH = "{repo}/pkg/math/math.go"

PROP = dict(
    gens=[dict(tool="genintfun", out="GenIntFun.v",
               args=[MATH + ":IsPowerOfTwo:IsPowerOfTwo", MATH + ":CeilToPowerOfTwo:CeilToPowerOfTwo",
                     MATH + ":FloorToPowerOfTwo:FloorToPowerOfTwo", MATH + ":ClosestPowerOfTwo:ClosestPowerOfTwo",
                     "{repo}/pkg/pool/byteslice/byteslice.go:index:bs_index"])],
    drivers=[dict(cmd="drv-arith", family="arith")],
    rule="inputs: every 2^k with neighbours (k=0..63), 3*2^k, negatives, an exhaustive small range, seeded random "
         "64-bit values of every magnitude, random GFD field tuples incl. field-width overflow; a case is a batch of "
         "inputs, non-trivial when it exercises one of the generator classes; distinct by hash of its op lines",
    trusted=["translator harness/cmd/genintfun (go/ast -> Gallina for straight-line integer functions)"],
    assumptions=["math/bits.Len* modelled as Z.log2+1"],
)
