// drv-race: dynamic side of property C05 (event-loop confinement and freedom
// from data races).
//
//	-mode confine   (family footprint) real multi-loop servers whose callbacks record
//	                the goroutine they run on; the brackets go to the model
//	                (run_footprint) which recomputes foreign / overlap / migration
//	                counts; the driver's own live monitor is the direct oracle.
//	-mode storm     (oracle only; the binary is built with -race) 8 goroutines call
//	                every operation the property lists as concurrency-safe on live
//	                connections during accept, traffic, ticker and engine start/stop;
//	                every race report whose stacks touch package gnet is a failure
//	                `data-race <func1>|<func2>`.
//
// All real work happens in child processes (same binary, -child): a crash or a
// race report never takes the trace writer down.  No fixed ports: unix sockets
// under a private directory in /var/tmp and kernel-assigned TCP/UDP ports.
package main

import (
	"encoding/json"
	"flag"
	"fmt"
	"os"
	"os/exec"
	"path/filepath"
	"sort"
	"strconv"
	"strings"
	"time"

	"verifharness/tr"
)

type cell struct {
	Name      string `json:"name"`
	ReusePort bool   `json:"reuseport"`
	ET        bool   `json:"et"`
	LB        int    `json:"lb"` // 0 rr, 1 least-connections, 2 source hash
	Loops     int    `json:"loops"`
	Seed      uint64 `json:"seed"`
	Millis    int    `json:"millis"`
	Scenario  string `json:"scenario"` // confine | udpcb | storm | ccstart
	Dir       string `json:"dir"`
}

type event struct {
	Kind string `json:"k"` // b | e
	Loop int    `json:"l"`
	Gid  int64  `json:"g"`
	Conn int    `json:"c"`
}

type childResult struct {
	Events     []event        `json:"events"`
	Foreign    int            `json:"foreign"`
	Overlaps   int            `json:"overlaps"`
	Migrations int            `json:"migrations"`
	Counts     map[string]int `json:"counts"`
	Err        string         `json:"err"`
	Detail     string         `json:"detail"`
}

func cellName(rp, et bool, lb int) string {
	return fmt.Sprintf("rp%s-et%s-lb%d", tr.B(rp), tr.B(et), lb)
}

func runChild(c cell, race bool, timeout time.Duration) (*childResult, []raceReport, string) {
	dir, err := os.MkdirTemp("/var/tmp", "drv-race-")
	if err != nil {
		return &childResult{Err: err.Error()}, nil, ""
	}
	defer os.RemoveAll(dir)
	c.Dir = dir
	cfg, _ := json.Marshal(c)
	res := filepath.Join(dir, "res.json")
	cmd := exec.Command(os.Args[0], "-child", string(cfg), "-res", res)
	cmd.Env = append(os.Environ(), "GNET_LOGGING_LEVEL=5")
	if race {
		cmd.Env = append(cmd.Env, "GORACE=halt_on_error=0 log_path="+filepath.Join(dir, "race"))
	}
	var outb strings.Builder
	cmd.Stdout, cmd.Stderr = &outb, &outb
	if err := cmd.Start(); err != nil {
		return &childResult{Err: err.Error()}, nil, ""
	}
	done := make(chan error, 1)
	go func() { done <- cmd.Wait() }()
	var werr error
	select {
	case werr = <-done:
	case <-time.After(timeout):
		_ = cmd.Process.Kill()
		werr = fmt.Errorf("child timed out after %v", timeout)
		<-done
	}
	r := &childResult{}
	if b, err := os.ReadFile(res); err == nil {
		_ = json.Unmarshal(b, r)
	} else if werr == nil {
		werr = fmt.Errorf("child wrote no result")
	}
	var reports []raceReport
	if race {
		files, _ := filepath.Glob(filepath.Join(dir, "race.*"))
		sort.Strings(files)
		for _, f := range files {
			if b, err := os.ReadFile(f); err == nil {
				reports = append(reports, parseRaceLog(string(b))...)
			}
		}
	}
	out := outb.String()
	if len(out) > 1<<18 { // keep the head: a crash prints the faulting goroutine first
		out = out[:1<<18]
	}
	if werr != nil && r.Err == "" {
		// exit status 66 is the race runtime's way of saying "races were reported"
		if ee, ok := werr.(*exec.ExitError); !(ok && ee.ExitCode() == 66 && race) {
			r.Err = werr.Error()
		}
	}
	return r, reports, out
}

var w *tr.Writer

func confineCase(id string, c cell) {
	w.Case(id, "footprint", "scenario="+c.Scenario, "cell="+c.Name, "loops="+tr.I(c.Loops), "seed="+tr.U64(c.Seed))
	w.Hist("cell/" + c.Name)
	r, _, out := runChild(c, false, 90*time.Second)
	if r.Err != "" {
		// an engine that cannot run is a harness problem, not a verdict: make it visible
		w.Fail("harness", "child-error", r.Err+" | "+tail(out, 3000))
		w.End()
		return
	}
	for _, e := range r.Events {
		w.Op(tr.L(e.Kind, tr.I(e.Loop), tr.I64(e.Gid), tr.I(e.Conn)))
	}
	w.Obs(tr.L("verdict", tr.I(r.Foreign), tr.I(r.Overlaps), tr.I(r.Migrations)))
	for k, v := range r.Counts {
		w.Stats.Hist["cb/"+k] += v
	}
	if len(r.Events) > 20 {
		w.Tag(c.Scenario + "/" + c.Name)
	}
	if r.Counts["loops"] > 1 {
		w.Tag("multi-loop")
	}
	if r.Counts["nested"] > 0 {
		w.Tag("nested-callback")
	}
	if r.Counts["cross-loop-overlap"] > 0 {
		w.Tag("loops-overlap")
	}
	switch {
	case c.Scenario == "udpcb" && r.Foreign > 0:
		w.Fail("callback-goroutine", "AsyncWrite-udp|callback-on-caller",
			fmt.Sprintf("the callback of AsyncWrite on a datagram connection ran on the calling goroutine (%d callbacks off the loop); %s", r.Foreign, r.Detail))
	case r.Foreign > 0 || r.Overlaps > 0 || r.Migrations > 0:
		w.Fail("confinement", fmt.Sprintf("foreign=%d|overlaps=%d|migrations=%d", min1(r.Foreign), min1(r.Overlaps), min1(r.Migrations)),
			fmt.Sprintf("callbacks left their loop's goroutine: foreign=%d overlaps=%d migrations=%d; %s", r.Foreign, r.Overlaps, r.Migrations, r.Detail))
	}
	w.End()
}

func tail(s string, n int) string {
	if len(s) > n {
		return s[len(s)-n:]
	}
	return s
}

// ccCrash: did the child die in the goroutine that was calling
// Engine.CountConnections -> baseLoadBalancer.iterate?  Returns the frames of the
// faulting goroutine (the first `goroutine N [running]:` block after the panic line).
func ccCrash(out string) (string, bool) {
	i := strings.Index(out, "panic: ")
	if j := strings.Index(out, "fatal error: "); j >= 0 && (i < 0 || j < i) {
		i = j
	}
	if i < 0 {
		return "", false
	}
	rest := out[i:]
	k := strings.Index(rest, "[running]:")
	if k < 0 {
		return "", false
	}
	blk := rest[k:]
	if e := strings.Index(blk, "\n\n"); e >= 0 {
		blk = blk[:e]
	}
	if !strings.Contains(blk, gnetPrefix+".Engine.CountConnections") || !strings.Contains(blk, "baseLoadBalancer).iterate") {
		return "", false
	}
	var fns []string
	for _, ln := range strings.Split(blk, "\n") {
		if strings.HasPrefix(ln, "\t") || strings.HasPrefix(ln, "[running]") || strings.TrimSpace(ln) == "" {
			continue
		}
		if p := strings.LastIndex(ln, "("); p > 0 {
			ln = ln[:p]
		}
		fns = append(fns, strings.TrimSpace(ln))
		if len(fns) == 8 {
			break
		}
	}
	head := rest
	if e := strings.Index(head, "\n"); e >= 0 {
		head = head[:e]
	}
	return head + " in " + strings.Join(fns, " < "), true
}

func min1(x int) int {
	if x > 0 {
		return 1
	}
	return 0
}

func stormCase(id string, c cell) {
	w.Case(id, "race", "scenario="+c.Scenario, "cell="+c.Name, "loops="+tr.I(c.Loops), "seed="+tr.U64(c.Seed), "millis="+tr.I(c.Millis))
	w.Op(tr.L(c.Scenario, c.Name, tr.U64(c.Seed), tr.I(c.Millis)))
	w.Hist("cell/" + c.Name)
	r, reports, out := runChild(c, true, time.Duration(c.Millis)*time.Millisecond*4+90*time.Second)
	for k, v := range r.Counts {
		w.Stats.Hist["call/"+k] += v
	}
	if r.Err != "" {
		if stack, ok := ccCrash(out); ok && c.Scenario == "ccstart" {
			// the cc-during-start race, observed as a crash instead of (or in addition to) a race
			// report: the torn read of the slice the engine is appending to yields a nil / wild
			// *eventloop.  Only this stack is attributed to the finding.
			w.Tag("race-crash")
			w.Fail("data-race-crash", "Engine.CountConnections|baseLoadBalancer.iterate|crash",
				"the child crashed inside Engine.CountConnections while the engine was starting ("+r.Err+"): "+stack)
		} else {
			w.Fail("harness", "child-error", r.Err+" | "+tail(out, 3000))
		}
	}
	calls := 0
	for k, v := range r.Counts {
		if strings.HasPrefix(k, "api.") {
			calls += v
		}
	}
	w.Obs(tr.L("storm", "calls", tr.I(min1(calls)), "reports", tr.I(len(reports))))
	if calls > 100 {
		w.Tag(c.Scenario + "/" + c.Name)
	}
	seen := map[string]bool{}
	for _, rep := range reports {
		site, sig := rep.classify()
		if site == "" || seen[site+sig] {
			continue
		}
		seen[site+sig] = true
		w.Tag("race-report")
		w.Fail(site, sig, rep.summary())
	}
	w.End()
}

func cells(rnd *tr.Rand, tier, scenario string, millis int) []cell {
	var out []cell
	add := func(rp, et bool, lb int) {
		out = append(out, cell{Name: cellName(rp, et, lb), ReusePort: rp, ET: et, LB: lb, Loops: 2 + rnd.Intn(3),
			Seed: rnd.U64(), Millis: millis, Scenario: scenario})
	}
	if tier == "thorough" {
		for _, rp := range []bool{false, true} {
			for _, et := range []bool{false, true} {
				for lb := 0; lb < 3; lb++ {
					add(rp, et, lb)
				}
			}
		}
		return out
	}
	// quick: 4 cells covering both start modes, both trigger modes and all balancers
	start := rnd.Intn(3)
	add(false, false, start%3)
	add(true, true, (start+1)%3)
	add(false, true, (start+2)%3)
	add(true, false, start%3)
	return out
}

func main() {
	seed := flag.Uint64("seed", 1, "")
	tier := flag.String("tier", "quick", "")
	out := flag.String("out", "trace.txt", "")
	stats := flag.String("stats", "", "")
	replay := flag.String("replay", "", "")
	mode := flag.String("mode", "confine", "confine | storm")
	light := flag.Bool("light", false, "quick tier: half the storm cells (second build variant)")
	child := flag.String("child", "", "")
	res := flag.String("res", "", "")
	flag.Parse()
	if *child != "" {
		childMain(*child, *res)
		return
	}
	w = tr.NewWriter(*out)
	rnd := tr.NewRand(*seed)
	if *replay != "" {
		for _, c := range tr.ReadCases(*replay) {
			sc := c.Cfg["scenario"]
			cl := cell{Name: c.Cfg["cell"], Scenario: sc, Loops: tr.CfgInt(c.Cfg, "loops", 3), Millis: tr.CfgInt(c.Cfg, "millis", 2500)}
			if s, err := strconv.ParseUint(c.Cfg["seed"], 10, 64); err == nil {
				cl.Seed = s
			}
			fmt.Sscanf(cl.Name, "rp%d-et%d-lb%d", new(int), new(int), &cl.LB)
			cl.ReusePort = strings.HasPrefix(cl.Name, "rp1")
			cl.ET = strings.Contains(cl.Name, "-et1")
			if c.Family == "race" && *mode == "storm" {
				stormCase(c.ID, cl)
			} else if c.Family == "footprint" && *mode == "confine" {
				confineCase(c.ID, cl)
			}
		}
		w.Close(*stats)
		return
	}
	switch *mode {
	case "confine":
		n := 0
		reps := 1
		if *tier == "thorough" {
			reps = 2
		}
		for rep := 0; rep < reps; rep++ {
			for _, c := range cells(rnd, *tier, "confine", 0) {
				n++
				confineCase(fmt.Sprintf("confine-%d", n), c)
			}
		}
		c := cell{Name: cellName(false, false, 0), Loops: 2, Seed: rnd.U64(), Scenario: "udpcb"}
		confineCase("udpcb-1", c)
	case "storm":
		millis := 2500
		reps := 1
		if *tier == "thorough" {
			millis, reps = 5000, 2
		}
		n := 0
		for rep := 0; rep < reps; rep++ {
			cs := cells(rnd, *tier, "storm", millis)
			if *light && *tier != "thorough" {
				cs = []cell{cs[1], cs[2]} // one cell per start mode, both edge-triggered variants of the registry paths
			}
			for _, c := range cs {
				n++
				stormCase(fmt.Sprintf("storm-%d", n), c)
			}
		}
		c := cell{Name: cellName(false, false, 0), Loops: 4, Seed: rnd.U64(), Millis: 300, Scenario: "ccstart"}
		stormCase("ccstart-1", c)
	default:
		fmt.Fprintln(os.Stderr, "unknown mode", *mode)
		os.Exit(2)
	}
	w.Close(*stats)
}
