(* Link between the event-loop model (Model/Loop.v, C01 / C02) and the buffer
   models (Model/Elastic.v, C10; over Model/Ring.v, C09 and Model/LList.v, C11).

   Model/Loop.v keeps a connection's inboundBuffer ([c_in]) and outboundBuffer
   ([c_out]) as plain FIFO byte lists and manipulates them with [++],
   [Loop.ztake], [Loop.zdrop], [Loop.zlen], [List.concat], [firstn iov_max] and
   [match .. with [] => ..].  In gnet they are an elastic.RingBuffer and an
   elastic.Buffer.  Every lemma below has the shape

       the abstract content of the real buffer model is the list L the loop
       model holds, and the representation invariant holds
       ->  the method of Model/Elastic.v the Go code calls at that point does not
           panic, returns what the loop model computes from L, keeps the
           invariant, and leaves the abstract content the loop model stores.

   The hypotheses are exactly those of the C10 theorem used (invariant, pool
   capacity >= 0, len <= 2^62, script_ok); nothing about the buffer internals is
   re-proved: every lemma is an instance of a theorem of Properties/C10.v plus
   list arithmetic.  The statements use the list primitives of Model/Loop.v
   ([Loop.zlen] ...); they are convertible with those of Spec/Fifo.v.

   Go call sites (connection_unix.go / eventloop_unix.go) -> lemma
     outboundBuffer.Write         conn.write, conn.open            link_out_write
     outboundBuffer.Writev        conn.writev                      link_out_writev
     outboundBuffer.Peek(-1|0)    eventloop.write / close          link_out_peek, link_out_flush_step
     outboundBuffer.Discard(n)    eventloop.write / close          link_out_discard, link_out_flush_step
     outboundBuffer.IsEmpty/Buffered                               link_out_buffered
     outboundBuffer.ReadFrom      conn.ReadFrom                    link_out_readfrom
     outboundBuffer.Reset/Release conn.release, processIO          link_out_reset_release
     inboundBuffer.Write          eventloop.read (leftover)        link_in_write
     inboundBuffer.Peek           conn.Peek                        link_in_peek
     inboundBuffer.Discard        conn.Discard                     link_in_discard
     inboundBuffer.Read           conn.Read, conn.Next             link_in_read
     inboundBuffer.WriteTo        conn.WriteTo                     link_in_writeto
     inboundBuffer.IsEmpty/Buffered                                link_in_buffered
     inboundBuffer.Reset/Done     conn.resetBuffer, conn.release   link_in_reset_done *)
From Coq Require Import Lia ZArith List Bool.
From GV Require Import Lib.Trace Spec.Fifo Proofs.FifoLemmas Model.Elastic Spec.ElasticSpec Properties.C10.
From GV Require Model.Ring Model.LList Model.Loop.
Import ListNotations.
Open Scope Z_scope.

(* ------------------------------------------------------------------ *)
(* the list primitives of the loop model are those of Spec/Fifo.v      *)

Lemma loop_zlen_same : @Loop.zlen = @zlen.
Proof. reflexivity. Qed.
Lemma loop_ztake_same : @Loop.ztake = @ztake.
Proof. reflexivity. Qed.
Lemma loop_zdrop_same : @Loop.zdrop = @zdrop.
Proof. reflexivity. Qed.

(* by rewriting, not by conversion: the kernel must never be asked to compare
   [firstn (Z.to_nat MaxInt32)] terms *)
Ltac fifo_names := rewrite ?loop_zlen_same, ?loop_ztake_same, ?loop_zdrop_same in *.

(* ------------------------------------------------------------------ *)
(* helpers: reading a method's result off the dispatcher equation      *)

Lemma omap_ret {A B} (f : A -> B) (o : outcome A) (y : B) :
  omap f o = Ret y -> exists a, o = Ret a /\ f a = y.
Proof. destruct o as [a|]; cbn; [intros [= <-]; exists a; auto|discriminate]. Qed.

(* a list with a known continuation inside L is the prefix of L of its own length *)
Lemma prefix_off {A} (x y L : list A) : (x ++ y)%list = L ->
  exists off, 0 <= off <= zlen L /\ x = ztake off L.
Proof.
  intros <-. exists (zlen x). split.
  - rewrite zlen_app. pose proof (zlen_nonneg x). pose proof (zlen_nonneg y). lia.
  - symmetry. apply ztake_app_exact.
Qed.

(* the first k segments of a segmented prefix of L are a prefix of L *)
Lemma concat_firstn_prefix (segs : list (list Z)) (M : Z) (L : list Z) (k : nat) :
  List.concat segs = ztake M L ->
  exists off, 0 <= off <= zlen L /\ List.concat (firstn k segs) = ztake off L.
Proof.
  intros H. apply (prefix_off _ (List.concat (skipn k segs) ++ zdrop M L)%list).
  rewrite app_assoc, <- concat_app, firstn_skipn, H. apply ztake_zdrop_id.
Qed.

Lemma fifo_is_empty_match (L : list Z) : fifo_is_empty L = match L with [] => true | _ :: _ => false end.
Proof. reflexivity. Qed.

(* ====================================================================== *)
(* outboundBuffer : elastic.Buffer  (C02)                                  *)

(* 1. conn.write / conn.open: outboundBuffer.Write(p) -- the loop model stores L ++ p *)
Lemma link_out_write : forall b L c p, binv b -> bcontent b = L -> 0 <= c -> Loop.zlen p <= 2^62 ->
  exists b', BWrite b c p = Ret (b', (Loop.zlen p, XNil)) /\ binv b' /\ bcontent b' = (L ++ p)%list.
Proof.
  intros b L c p Hi <- Hc Hp. fifo_names.
  destruct (C10_write_exact b c p Hi Hc Hp) as (b' & Hs & I & C).
  cbn [bstep] in Hs. apply omap_ret in Hs as ([b1 [n e]] & Ho & Hf). cbn in Hf. injection Hf as -> -> ->.
  exists b'. auto.
Qed.

(* 2. conn.writev: outboundBuffer.Writev(bs) -- the loop model stores L ++ concat bs *)
Lemma link_out_writev : forall b L c bs, binv b -> bcontent b = L -> 0 <= c ->
  Forall (fun x => Loop.zlen x <= 2^62) bs ->
  exists b', BWritev b c bs = Ret (b', (Loop.zlen (List.concat bs), XNil)) /\ binv b' /\
    bcontent b' = (L ++ List.concat bs)%list.
Proof.
  intros b L c bs Hi <- Hc Hp. fifo_names.
  destruct (C10_writev_exact b c bs Hi Hc Hp) as (b' & Hs & I & C).
  cbn [bstep] in Hs. apply omap_ret in Hs as ([b1 [n e]] & Ho & Hf). cbn in Hf. injection Hf as -> -> ->.
  exists b'. auto.
Qed.

(* 3a. outboundBuffer.Peek(n) leaves the buffer alone (it returns no buffer) and exposes
   the content in order: for every n the concatenation of the returned segments -- and of
   any first k of them (iov[:iovMax]) -- is a prefix [ztake off L] of L, which is what
   [sys_wr .. (c_out c) false] of the loop model offers to the kernel; for n <= 0
   (Peek(-1) in eventloop.write, Peek(0) in eventloop.close) it is all of L up to the
   MaxInt32 convention of the list part, for 0 < n <= len exactly the first n bytes. *)
Lemma link_out_peek : forall b L n, binv b -> bcontent b = L ->
  exists e segs, BPeek b n = Ret (e, segs) /\
    (forall k : nat, exists off, 0 <= off <= Loop.zlen L /\ List.concat (firstn k segs) = Loop.ztake off L) /\
    (exists off, 0 <= off <= Loop.zlen L /\ List.concat segs = Loop.ztake off L) /\
    (n <= 0 -> e = XNil /\ List.concat segs = Loop.ztake LList.MaxInt32 L /\
               (Loop.zlen L <= LList.MaxInt32 -> List.concat segs = L)) /\
    (0 < n <= Loop.zlen L -> n <> LList.MaxInt32 -> e = XNil /\ List.concat segs = Loop.ztake n L).
Proof.
  intros b L n Hi <-. fifo_names.
  destruct (C10_peek_exact b n Hi) as (e & segs & Hs & C1 & C2 & C3 & C4).
  cbn [bstep] in Hs. apply omap_ret in Hs as ([e1 segs1] & Ho & Hf). cbn in Hf. injection Hf as -> ->.
  exists e, segs. split; [exact Ho|].
  assert (HM : exists M, List.concat segs = ztake M (bcontent b)).
  { destruct (Z.eq_dec n LList.MaxInt32) as [E|NE].
    - exists LList.MaxInt32. apply C2. auto.
    - destruct (Z_le_gt_dec n 0) as [Hn|Hn].
      + exists LList.MaxInt32. apply C2. auto.
      + destruct (Z_le_gt_dec n (zlen (bcontent b))) as [Hl|Hl].
        * exists n. apply C1; [lia|exact NE].
        * exists 0. destruct (C4 ltac:(lia) NE) as (_ & ->). rewrite ztake_nonpos by lia. reflexivity. }
  destruct HM as (M & HM).
  assert (HK : forall k : nat, exists off, 0 <= off <= zlen (bcontent b) /\
                 List.concat (firstn k segs) = ztake off (bcontent b)).
  { intros k. exact (concat_firstn_prefix segs M (bcontent b) k HM). }
  splits.
  - exact HK.
  - destruct (HK (List.length segs)) as (off & Ho1 & Ho2). rewrite firstn_all in Ho2. exists off. auto.
  - intros Hn. destruct (C2 (or_introl Hn)) as (-> & Hc). splits; [reflexivity|exact Hc|].
    intros Hle. apply (C3 (or_introl Hn) Hle).
  - intros Hn NE. apply C1; assumption.
Qed.

(* 3b. outboundBuffer.Discard(n): the loop model stores [zdrop n L]; the reported count is
   n whenever 0 <= n <= len (the kernel never accepts more than it was offered) *)
Lemma link_out_discard : forall b L n, binv b -> bcontent b = L ->
  exists b' e, BDiscard b n = Ret (b', (Z.max 0 (Z.min n (Loop.zlen L)), e)) /\ binv b' /\
    bcontent b' = Loop.zdrop n L /\
    (0 <= n <= Loop.zlen L -> Z.max 0 (Z.min n (Loop.zlen L)) = n) /\
    (0 < n -> e = XNil).
Proof.
  intros b L n Hi <-. fifo_names.
  destruct (C10_discard_exact b n Hi) as (b' & e & Hs & I & C & _ & _ & E).
  cbn [bstep] in Hs. apply omap_ret in Hs as ([b1 [k e1]] & Ho & Hf). cbn in Hf. injection Hf as -> -> ->.
  exists b', e. splits; auto. lia.
Qed.

(* 3. one turn of the flush loop of eventloop.write (Peek(-1)) and of eventloop.close
   (Peek(0)): iov, _ := Peek(pk); iov = iov[:iovMax]; n := write(iov); Discard(n).
   What is offered to the kernel is a prefix of L (and there is at least one segment when L
   is not empty: iov[0] exists), and after the kernel took n bytes
   (0 <= n <= len L) the buffer holds [zdrop n L] -- el_write / close_drain of the loop model. *)
Lemma link_out_flush_step : forall b L pk n, binv b -> bcontent b = L -> pk <= 0 -> 0 <= n <= Loop.zlen L ->
  exists segs b' e, BPeek b pk = Ret (XNil, segs) /\
    (exists off, 0 <= off <= Loop.zlen L /\ List.concat (firstn Loop.iov_max segs) = Loop.ztake off L) /\
    (Loop.zlen L <= LList.MaxInt32 -> List.concat segs = L) /\
    (L <> [] -> segs <> []) /\
    BDiscard b n = Ret (b', (n, e)) /\ binv b' /\ bcontent b' = Loop.zdrop n L.
Proof.
  intros b L pk n Hi HL Hpk Hn.
  destruct (link_out_peek b L pk Hi HL) as (e & segs & Hp & Hk & _ & Hall & _).
  destruct (Hall Hpk) as (-> & Hcat & Hfull).
  destruct (link_out_discard b L n Hi HL) as (b' & e' & Hd & I & C & Hcnt & _).
  rewrite (Hcnt Hn) in Hd.
  exists segs, b', e'. split; [exact Hp|]. split; [apply Hk|]. split; [exact Hfull|].
  split; [|split; [exact Hd|split; [exact I|exact C]]].
  (* a non-empty buffer yields at least one segment: iov[0] of eventloop.write exists *)
  intros HN ->. apply HN. apply zlen_zero_nil. apply (f_equal zlen) in Hcat.
  rewrite loop_ztake_same, zlen_ztake in Hcat. change (zlen (List.concat [])) with 0 in Hcat.
  pose proof (zlen_nonneg L). unfold LList.MaxInt32 in Hcat. lia.
Qed.

(* 4. OutboundBuffered / the IsEmpty tests: [zlen (c_out c)] and [match c_out c with [] => ..] *)
Lemma link_out_buffered : forall b L, binv b -> bcontent b = L ->
  BBuffered b = Loop.zlen L /\
  BIsEmpty b = match L with [] => true | _ :: _ => false end /\
  (BIsEmpty b = true <-> L = []).
Proof.
  intros b L Hi <-. fifo_names.
  destruct (C10_buffered_isempty b Hi) as (H1 & H2 & _ & H4). splits; auto.
Qed.

(* 5. conn.ReadFrom: outboundBuffer.ReadFrom(r) appends exactly the k bytes the reader
   delivered ([d] of `h readfrom d` of the loop model is that delivery) and reports k = len d *)
Lemma link_out_readfrom : forall b L c src sc, binv b -> bcontent b = L -> 0 <= c -> script_ok sc ->
  exists b' k e, BReadFrom b c src sc = Ret (b', (k, e, Loop.zlen src - k)) /\ binv b' /\
    0 <= k <= Loop.zlen src /\ Loop.zlen (Loop.ztake k src) = k /\
    bcontent b' = (L ++ Loop.ztake k src)%list.
Proof.
  intros b L c src sc Hi <- Hc Hsc. fifo_names.
  destruct (C10_readfrom_exact b c src sc Hi Hc Hsc) as (b' & k & e & Hs & I & Hk & C).
  cbn [bstep] in Hs. apply omap_ret in Hs as ([b1 [[k1 e1] rem]] & Ho & Hf). cbn in Hf. injection Hf as -> -> -> ->.
  exists b', k, e. splits; auto; try lia. rewrite zlen_ztake. lia.
Qed.

(* 6. conn.release / processIO on a broken connection: Release (and Reset) give [] *)
Lemma link_out_reset_release : forall b m, binv b ->
  binv (BReset b m) /\ bcontent (BReset b m) = [] /\ binv (BRelease b) /\ bcontent (BRelease b) = [].
Proof. exact C10_reset_release_exact. Qed.

(* a fresh connection: the zero value / New has content [] *)
Lemma link_out_fresh : forall m, binv (mkB m None LList.empty_buffer) /\ bcontent (mkB m None LList.empty_buffer) = [].
Proof.
  intros m. destruct (C10_elastic_refines_fifo_from_any_state [] (mkB m None LList.empty_buffer)) as (b' & outs & Hr & I & _).
  - destruct (C10_elastic_refines_fifo m [] (Forall_nil _)) as (b & outs & Hr & I & _).
    cbn in Hr. injection Hr as <- _. exact I.
  - constructor.
  - cbn in Hr. injection Hr as <- _. split; [exact I|reflexivity].
Qed.

Theorem outbound_buffer_link :
  (forall b L c p, binv b -> bcontent b = L -> 0 <= c -> Loop.zlen p <= 2^62 ->
     exists b', BWrite b c p = Ret (b', (Loop.zlen p, XNil)) /\ binv b' /\ bcontent b' = (L ++ p)%list) /\
  (forall b L c bs, binv b -> bcontent b = L -> 0 <= c -> Forall (fun x => Loop.zlen x <= 2^62) bs ->
     exists b', BWritev b c bs = Ret (b', (Loop.zlen (List.concat bs), XNil)) /\ binv b' /\
       bcontent b' = (L ++ List.concat bs)%list) /\
  (forall b L n, binv b -> bcontent b = L ->
     exists e segs, BPeek b n = Ret (e, segs) /\
       (forall k : nat, exists off, 0 <= off <= Loop.zlen L /\ List.concat (firstn k segs) = Loop.ztake off L) /\
       (exists off, 0 <= off <= Loop.zlen L /\ List.concat segs = Loop.ztake off L) /\
       (n <= 0 -> e = XNil /\ List.concat segs = Loop.ztake LList.MaxInt32 L /\
                  (Loop.zlen L <= LList.MaxInt32 -> List.concat segs = L)) /\
       (0 < n <= Loop.zlen L -> n <> LList.MaxInt32 -> e = XNil /\ List.concat segs = Loop.ztake n L)) /\
  (forall b L n, binv b -> bcontent b = L ->
     exists b' e, BDiscard b n = Ret (b', (Z.max 0 (Z.min n (Loop.zlen L)), e)) /\ binv b' /\
       bcontent b' = Loop.zdrop n L /\
       (0 <= n <= Loop.zlen L -> Z.max 0 (Z.min n (Loop.zlen L)) = n) /\
       (0 < n -> e = XNil)) /\
  (forall b L pk n, binv b -> bcontent b = L -> pk <= 0 -> 0 <= n <= Loop.zlen L ->
     exists segs b' e, BPeek b pk = Ret (XNil, segs) /\
       (exists off, 0 <= off <= Loop.zlen L /\ List.concat (firstn Loop.iov_max segs) = Loop.ztake off L) /\
       (Loop.zlen L <= LList.MaxInt32 -> List.concat segs = L) /\
       (L <> [] -> segs <> []) /\
       BDiscard b n = Ret (b', (n, e)) /\ binv b' /\ bcontent b' = Loop.zdrop n L) /\
  (forall b L, binv b -> bcontent b = L ->
     BBuffered b = Loop.zlen L /\
     BIsEmpty b = match L with [] => true | _ :: _ => false end /\
     (BIsEmpty b = true <-> L = [])) /\
  (forall b L c src sc, binv b -> bcontent b = L -> 0 <= c -> script_ok sc ->
     exists b' k e, BReadFrom b c src sc = Ret (b', (k, e, Loop.zlen src - k)) /\ binv b' /\
       0 <= k <= Loop.zlen src /\ Loop.zlen (Loop.ztake k src) = k /\
       bcontent b' = (L ++ Loop.ztake k src)%list) /\
  (forall b m, binv b ->
     binv (BReset b m) /\ bcontent (BReset b m) = [] /\ binv (BRelease b) /\ bcontent (BRelease b) = []) /\
  (forall m, binv (mkB m None LList.empty_buffer) /\ bcontent (mkB m None LList.empty_buffer) = []).
Proof.
  splits.
  - exact link_out_write.
  - exact link_out_writev.
  - exact link_out_peek.
  - exact link_out_discard.
  - exact link_out_flush_step.
  - exact link_out_buffered.
  - exact link_out_readfrom.
  - exact link_out_reset_release.
  - exact link_out_fresh.
Qed.

(* ====================================================================== *)
(* inboundBuffer : elastic.RingBuffer  (C01)                               *)

(* 7. eventloop.read: inboundBuffer.Write(c.buffer) -- what the handler left of the read
   window is appended: the loop model stores [c_in ++ c_buf] *)
Lemma link_in_write : forall e L c p, ering_inv e -> rcontent e = L -> 0 <= c -> Loop.zlen p <= 2^62 ->
  exists e', RWrite e c p = Ret (e', (Loop.zlen p, XNil)) /\ ering_inv e' /\ rcontent e' = (L ++ p)%list.
Proof.
  intros e L c p Hi <- Hc Hp. fifo_names.
  destruct (C10_elastic_ring_step e (RoWrite c p) Hi (conj Hc Hp)) as (e' & x & Hs & I & Sp).
  cbn [rstep] in Hs. apply omap_ret in Hs as ([e1 [n er]] & Ho & Hf). cbn in Hf. injection Hf as -> <-.
  cbn [ering_op_spec] in Sp. destruct Sp as (-> & -> & C). exists e'. auto.
Qed.

(* 8a. conn.Peek: head, tail := inboundBuffer.Peek(n); head ++ tail is the first n bytes
   (conn.Peek only calls it with 0 < n); the buffer is untouched (no buffer is returned) *)
Lemma link_in_peek : forall e L n, ering_inv e -> rcontent e = L ->
  exists h t, RPeek e n = Ret (h, t) /\
    (h ++ t)%list = (if n <=? 0 then L else Loop.ztake n L) /\
    (0 < n -> (h ++ t)%list = Loop.ztake n L).
Proof.
  intros e L n Hi <-. fifo_names.
  destruct (C10_elastic_ring_step e (RoPeek n) Hi I) as (e' & x & Hs & _ & Sp).
  cbn [rstep] in Hs. apply omap_ret in Hs as ([h t] & Ho & Hf). cbn in Hf. injection Hf as <- <-.
  cbn [ering_op_spec] in Sp. destruct Sp as (C & _). unfold fifo_peek in C.
  exists h, t. splits; auto. intros Hn. rewrite C. destruct (Z.leb_spec n 0); [lia|reflexivity].
Qed.

(* 8b. conn.Discard: inboundBuffer.Discard(n) removes [ztake n L] and reports its length
   (n itself when 0 <= n <= len): the loop model stores [zdrop n (c_in c)] *)
Lemma link_in_discard : forall e L n, ering_inv e -> rcontent e = L ->
  exists e' er, RDiscard e n = Ret (e', (Loop.zlen (Loop.ztake n L), er)) /\ ering_inv e' /\
    rcontent e' = Loop.zdrop n L /\
    (0 <= n <= Loop.zlen L -> Loop.zlen (Loop.ztake n L) = n) /\
    (L <> [] -> er = XNil).
Proof.
  intros e L n Hi <-. fifo_names.
  destruct (C10_elastic_ring_step e (RoDiscard n) Hi I) as (e' & x & Hs & I' & Sp).
  cbn [rstep] in Hs. apply omap_ret in Hs as ([e1 [k er]] & Ho & Hf). cbn in Hf. injection Hf as -> <-.
  cbn [ering_op_spec fifo_take fst snd] in Sp. destruct Sp as (-> & C & E).
  exists e', er. splits; auto. intros Hn. rewrite zlen_ztake. lia.
Qed.

(* 9. conn.Read / conn.Next: inboundBuffer.Read(p) with len p = k returns the first
   min k (len L) bytes and keeps the rest: [a := ztake n (c_in c)], [in' := zdrop n (c_in c)] *)
Lemma link_in_read : forall e L k, ering_inv e -> rcontent e = L -> 0 <= k ->
  exists e' er, RRead e k = Ret (e', (Loop.ztake k L, Z.min k (Loop.zlen L), er)) /\ ering_inv e' /\
    rcontent e' = Loop.zdrop k L /\
    Loop.ztake k L = Loop.ztake (Z.min k (Loop.zlen L)) L /\
    L = (Loop.ztake k L ++ rcontent e')%list /\
    (L <> [] -> er = XNil).
Proof.
  intros e L k Hi <- Hk. fifo_names.
  destruct (C10_elastic_ring_step e (RoRead k) Hi Hk) as (e' & x & Hs & I' & Sp).
  cbn [rstep] in Hs. apply omap_ret in Hs as ([e1 [[d n] er]] & Ho & Hf). cbn in Hf. injection Hf as -> <-.
  cbn [ering_op_spec] in Sp. destruct Sp as (T & -> & E & _). unfold fifo_take in T. injection T as -> C.
  exists e', er. pose proof (zlen_nonneg (rcontent e)) as Hq.
  replace (Z.min k (zlen (rcontent e))) with (zlen (ztake k (rcontent e))) by (rewrite zlen_ztake; lia).
  splits; auto.
  - rewrite zlen_ztake. destruct (Z_le_gt_dec k (zlen (rcontent e))).
    + f_equal. lia.
    + rewrite !ztake_all by lia. reflexivity.
  - rewrite C. symmetry. apply ztake_zdrop_id.
Qed.

(* 10. conn.WriteTo: inboundBuffer.WriteTo(w).  Whatever the writer does (any script of
   counts and errors), what it received is the prefix of L of the reported length and the
   buffer keeps exactly the rest; a nil error means everything was taken.  This is the
   c_in part of `h writeto <lim>` of the loop model: [ztake lim (c_in c)] / [zdrop lim (c_in c)]. *)
Lemma link_in_writeto : forall e L sc, ering_inv e -> rcontent e = L ->
  exists e' o, RWriteTo e sc = Ret (e', o) /\ ering_inv e' /\
    0 <= Ring.wt_n o <= Loop.zlen L /\
    Ring.wt_recv o = Loop.ztake (Ring.wt_n o) L /\
    rcontent e' = Loop.zdrop (Ring.wt_n o) L /\
    (of_rerr (Ring.wt_err o) = XNil -> Ring.wt_n o = Loop.zlen L /\ Ring.wt_recv o = L /\ rcontent e' = []) /\
    (L = [] -> of_rerr (Ring.wt_err o) = XEmpty).
Proof.
  intros e L sc Hi <-. fifo_names.
  destruct (C10_elastic_ring_step e (RoWriteTo sc) Hi I) as (e' & x & Hs & I' & Sp).
  cbn [rstep] in Hs. apply omap_ret in Hs as ([e1 o] & Ho & Hf). cbn in Hf. injection Hf as -> <-.
  cbn [ering_op_spec] in Sp. destruct Sp as (T & Hn & E1 & E2). unfold fifo_take in T. injection T as R C.
  unfold fifo_len in Hn.
  exists e', o. split; [exact Ho|]. split; [exact I'|]. split; [exact Hn|]. split; [exact R|].
  split; [exact C|]. split; [|exact E2].
  intros He. specialize (E1 He). pose proof (zlen_nonneg (rcontent e)) as Hq.
  assert (Hall : Ring.wt_n o = zlen (rcontent e)).
  { rewrite C in E1. apply (f_equal zlen) in E1. rewrite zlen_zdrop in E1. cbn in E1. lia. }
  split; [exact Hall|]. split; [|exact E1]. rewrite R, Hall. apply ztake_all. lia.
Qed.

(* 11. InboundBuffered / the IsEmpty tests: [zlen (c_in c)] and [match c_in c with [] => ..] *)
Lemma link_in_buffered : forall e L, ering_inv e -> rcontent e = L ->
  RBuffered e = Loop.zlen L /\
  RIsEmpty e = match L with [] => true | _ :: _ => false end /\
  (RIsEmpty e = true <-> L = []).
Proof.
  intros e L Hi <-. fifo_names.
  destruct (C10_elastic_ring_step e RoBuffered Hi I) as (e1 & x1 & Hs1 & _ & Sp1).
  cbn [rstep] in Hs1. injection Hs1 as _ <-. cbn [ering_op_spec] in Sp1. destruct Sp1 as (B & _).
  destruct (C10_elastic_ring_step e RoIsEmpty Hi I) as (e2 & x2 & Hs2 & _ & Sp2).
  cbn [rstep] in Hs2. injection Hs2 as _ <-. cbn [ering_op_spec] in Sp2. destruct Sp2 as (E & _).
  splits; auto. rewrite E. destruct (rcontent e); cbn; split; auto; discriminate.
Qed.

(* 12. conn.resetBuffer (Discard of everything): Reset then Done; conn.release: Done --
   the loop model stores [] *)
Lemma link_in_reset_done : forall e, ering_inv e ->
  ering_inv (RReset e) /\ rcontent (RReset e) = [] /\
  ering_inv (RDone e) /\ rcontent (RDone e) = [] /\
  ering_inv (RDone (RReset e)) /\ rcontent (RDone (RReset e)) = [].
Proof.
  intros e Hi.
  destruct (C10_elastic_ring_step e RoReset Hi I) as (e1 & x1 & Hs1 & I1 & Sp1).
  cbn [rstep] in Hs1. injection Hs1 as <- <-. cbn [ering_op_spec] in Sp1.
  destruct (C10_elastic_ring_step e RoDone Hi I) as (e2 & x2 & Hs2 & I2 & Sp2).
  cbn [rstep] in Hs2. injection Hs2 as <- <-. cbn [ering_op_spec] in Sp2.
  destruct (C10_elastic_ring_step (RReset e) RoDone I1 I) as (e3 & x3 & Hs3 & I3 & Sp3).
  cbn [rstep] in Hs3. injection Hs3 as <- <-. cbn [ering_op_spec] in Sp3.
  splits; assumption.
Qed.

(* a fresh connection holds no ring: content [] *)
Lemma link_in_fresh : ering_inv None /\ rcontent None = [].
Proof. split; [exact I|reflexivity]. Qed.

(* ---- the read window next to the ring: the composite formulas of the loop model ---- *)
(* conn.Read / conn.Next with a buffer of n bytes when the ring is not empty: the ring
   gives a = ztake n L, the window B supplies ztake (n - len a) B; together they are the
   first n bytes of L ++ B (the loop model's `next`: [ztake n (c_in c ++ c_buf c)]),
   and conn.Peek builds the same bytes out of Peek(n) and c.buffer[:n - len L] *)
Lemma link_window_take : forall (L B : list Z) n, 0 <= n ->
  Loop.ztake n (L ++ B)%list = (Loop.ztake n L ++ Loop.ztake (n - Loop.zlen (Loop.ztake n L)) B)%list.
Proof.
  intros L B n Hn. fifo_names. pose proof (zlen_nonneg L) as Hq. rewrite zlen_ztake.
  destruct (Z_le_gt_dec n (zlen L)).
  - rewrite ztake_app_le by lia. replace (n - Z.min (Z.max 0 n) (zlen L)) with 0 by lia.
    rewrite (ztake_nonpos 0 B) by lia. rewrite app_nil_r. reflexivity.
  - rewrite ztake_app_ge by lia. rewrite (ztake_all n L) by lia. f_equal. f_equal. lia.
Qed.

Theorem inbound_buffer_link :
  (forall e L c p, ering_inv e -> rcontent e = L -> 0 <= c -> Loop.zlen p <= 2^62 ->
     exists e', RWrite e c p = Ret (e', (Loop.zlen p, XNil)) /\ ering_inv e' /\ rcontent e' = (L ++ p)%list) /\
  (forall e L n, ering_inv e -> rcontent e = L ->
     exists h t, RPeek e n = Ret (h, t) /\
       (h ++ t)%list = (if n <=? 0 then L else Loop.ztake n L) /\
       (0 < n -> (h ++ t)%list = Loop.ztake n L)) /\
  (forall e L n, ering_inv e -> rcontent e = L ->
     exists e' er, RDiscard e n = Ret (e', (Loop.zlen (Loop.ztake n L), er)) /\ ering_inv e' /\
       rcontent e' = Loop.zdrop n L /\
       (0 <= n <= Loop.zlen L -> Loop.zlen (Loop.ztake n L) = n) /\
       (L <> [] -> er = XNil)) /\
  (forall e L k, ering_inv e -> rcontent e = L -> 0 <= k ->
     exists e' er, RRead e k = Ret (e', (Loop.ztake k L, Z.min k (Loop.zlen L), er)) /\ ering_inv e' /\
       rcontent e' = Loop.zdrop k L /\
       Loop.ztake k L = Loop.ztake (Z.min k (Loop.zlen L)) L /\
       L = (Loop.ztake k L ++ rcontent e')%list /\
       (L <> [] -> er = XNil)) /\
  (forall e L sc, ering_inv e -> rcontent e = L ->
     exists e' o, RWriteTo e sc = Ret (e', o) /\ ering_inv e' /\
       0 <= Ring.wt_n o <= Loop.zlen L /\
       Ring.wt_recv o = Loop.ztake (Ring.wt_n o) L /\
       rcontent e' = Loop.zdrop (Ring.wt_n o) L /\
       (of_rerr (Ring.wt_err o) = XNil -> Ring.wt_n o = Loop.zlen L /\ Ring.wt_recv o = L /\ rcontent e' = []) /\
       (L = [] -> of_rerr (Ring.wt_err o) = XEmpty)) /\
  (forall e L, ering_inv e -> rcontent e = L ->
     RBuffered e = Loop.zlen L /\
     RIsEmpty e = match L with [] => true | _ :: _ => false end /\
     (RIsEmpty e = true <-> L = [])) /\
  (forall e, ering_inv e ->
     ering_inv (RReset e) /\ rcontent (RReset e) = [] /\
     ering_inv (RDone e) /\ rcontent (RDone e) = [] /\
     ering_inv (RDone (RReset e)) /\ rcontent (RDone (RReset e)) = []) /\
  (ering_inv None /\ rcontent None = []) /\
  (forall (L B : list Z) n, 0 <= n ->
     Loop.ztake n (L ++ B)%list = (Loop.ztake n L ++ Loop.ztake (n - Loop.zlen (Loop.ztake n L)) B)%list).
Proof.
  splits.
  - exact link_in_write.
  - exact link_in_peek.
  - exact link_in_discard.
  - exact link_in_read.
  - exact link_in_writeto.
  - exact link_in_buffered.
  - exact link_in_reset_done.
  - exact I.
  - reflexivity.
  - exact link_window_take.
Qed.

Print Assumptions outbound_buffer_link.
Print Assumptions inbound_buffer_link.
