PROP = dict(
    drivers=[dict(cmd="drv-lb", family="lb", netns=True)],
    rule="unit part (export VerifLB over fake event loops): round-robin k*N accepts for every N = 1..256 from a fresh "
         "counter and from a seeded random counter value, the counter around 2^64; least-connections on scripted count "
         "vectors (all equal, strictly decreasing/increasing, many ties, random, extreme int32, negative) for 32 sizes "
         "(thorough: every size); accept/close sequences for all three policies; source-addr-hash for every N = 1..256 on "
         "IPv4, IPv6, IPv6-with-zone, Unix-path, empty and binary address strings incl. repeats and a nil address; empty "
         "balancers; index/len/iterate; crc32 model vs hash/crc32 and hash() on 10^4 seeded strings. A case is one balancer "
         "script; non-trivial by generator class; distinct by hash of its op lines. Integration part: real servers "
         "(rr x 4 and 3 loops, lc x 3, hash x 5 on tcp4; hash x 4 and lc x 2 on unix): the export hook records the loop "
         "every eventLoops.next returned, every OnOpen/OnTraffic/OnClose records conn.loop.idx, c.EventLoop() and the "
         "goroutine id; 40 sequential (quiescent) + 200 concurrent connections each (oracle only).",
    trusted=["hash/crc32 is modelled bit by bit (validated against the real one on every run), not verified",
             "export harness/export/gnet_lb_export.go (fake event loops, next-recording wrapper installed in OnBoot)"],
    assumptions=["64-bit int (linux/amd64): int(uint32) is non-negative, so `-v` in hash() is dead code; with a 32-bit int "
                 "the hash code could be negative (Example C15_hash_int32_can_be_negative)",
                 "round-robin balance needs no wrap of the uint64 counter within the k*N accepts (c + k*N <= 2^64); at the "
                 "wrap the cycle is broken once unless N divides 2^64 (remark C15_rr_wrap_pow2 / C15_rr_wrap_breaks_cycle)",
                 "least-connections is stated for the count vector the scan reads (the counts are atomics updated by the "
                 "loops concurrently; a connection is counted when its loop has registered it, not when it is accepted)",
                 "'the loop a connection is assigned to is the loop on which all of its callbacks run' is proved in the "
                 "event-loop model (C01/C04/C05, conn_loop_fixed); here it is checked on live servers by the oracle"],
)
