(* C18, part 1: the fault checker as a three-valued fold over the history, the
   invariant scheme `Inv` (history so far accepted; if the run is live and the world
   not halted, checker state and model state are related), and one lemma per
   log primitive of Model/Loop.v (emit, desync, state change, pull, sys, sys_wr,
   the read(2) of el_read), specialised to `fault_step`.
   (The generic part follows the same scheme as Proofs/LoopInv.v; it is repeated
   here so that this development only depends on Model/ and Spec/.) *)
From GV Require Import Lib.Trace Model.Loop Spec.LoopSpec.
From Coq Require Import Lia.
Open Scope string_scope.
Open Scope list_scope.
Open Scope Z_scope.

Inductive status := Live (c : faultst) | Dead | Fail.

Definition fs0 : faultst := mkF false false [] [] false.

Fixpoint runs (c : faultst) (t : list ev) : status :=
  match t with
  | [] => Live c
  | e :: r => if is_desync e then Dead else
              match fault_step c e with Some c' => runs c' r | None => Fail end
  end.

Lemma runs_app : forall t1 t2 c,
  runs c (t1 ++ t2) = match runs c t1 with Live c' => runs c' t2 | Dead => Dead | Fail => Fail end.
Proof.
  induction t1 as [|e r IH]; intros t2 c; cbn [runs app]; [reflexivity|].
  destruct (is_desync e); [reflexivity|].
  destruct (fault_step c e); [apply IH|reflexivity].
Qed.

Lemma check_runs : forall t c,
  check fault_step c t = match runs c t with Fail => false | _ => true end.
Proof.
  induction t as [|e r IH]; intros c; cbn [runs check]; [reflexivity|].
  destruct (is_desync e); [reflexivity|].
  destruct (fault_step c e); [apply IH|reflexivity].
Qed.

Definition Inv (Rel : faultst -> lstate -> Prop) (w : world) : Prop :=
  match runs fs0 (rev (log w)) with
  | Fail => False
  | Dead => True
  | Live c => halt w = false -> Rel c (st w)
  end.

Definition AnyInv (w : world) : Prop := forall Rel, Inv Rel w.

Lemma Inv_good : forall Rel w, Inv Rel w -> fault_ok (rev (log w)) = true.
Proof.
  intros Rel w H. unfold fault_ok. fold fs0. rewrite check_runs. unfold Inv in H.
  destruct (runs fs0 (rev (log w))); tauto.
Qed.

Lemma Inv_weaken : forall (Rel Rel' : faultst -> lstate -> Prop) w,
  Inv Rel w -> (forall c, halt w = false -> Rel c (st w) -> Rel' c (st w)) -> Inv Rel' w.
Proof.
  unfold Inv; intros Rel Rel' w H Hi.
  destruct (runs fs0 (rev (log w))); auto.
Qed.

Lemma Inv_halted : forall (Rel : faultst -> lstate -> Prop) w,
  halt w = true -> Inv Rel w -> AnyInv w.
Proof.
  intros Rel w Hh H Rel'. apply (Inv_weaken Rel); auto. intros; congruence.
Qed.

Lemma Inv_world : forall (Rel Rel' : faultst -> lstate -> Prop) w w',
  Inv Rel w -> log w' = log w -> halt w' = halt w ->
  (forall c, halt w = false -> Rel c (st w) -> Rel' c (st w')) -> Inv Rel' w'.
Proof.
  unfold Inv; intros Rel Rel' w w' H Hl Hh Hi. rewrite Hl, Hh.
  destruct (runs fs0 (rev (log w))); auto.
Qed.

Lemma Inv_with_st : forall (Rel Rel' : faultst -> lstate -> Prop) w s',
  Inv Rel w -> (forall c, halt w = false -> Rel c (st w) -> Rel' c s') -> Inv Rel' (with_st w s').
Proof.
  intros Rel Rel' w s' H Hi. apply (Inv_world Rel Rel' w); auto.
Qed.

Lemma Inv_wsetc : forall (Rel Rel' : faultst -> lstate -> Prop) w cid c',
  Inv Rel w -> (forall c, Rel c (st w) -> Rel' c (setc (st w) cid c')) ->
  Inv Rel' (wsetc w cid c').
Proof. intros. unfold wsetc. eapply Inv_with_st; eauto. Qed.

Lemma Any_world : forall w w', AnyInv w -> log w' = log w -> halt w' = halt w -> AnyInv w'.
Proof.
  intros w w' H Hl Hh Rel. specialize (H (fun _ _ => False)).
  unfold Inv in *. rewrite Hl, Hh. destruct (runs fs0 (rev (log w))); tauto.
Qed.

Lemma Any_with_st : forall w s, AnyInv w -> AnyInv (with_st w s).
Proof. intros. eapply Any_world; eauto. Qed.

Lemma Any_wsetc : forall w cid c, AnyInv w -> AnyInv (wsetc w cid c).
Proof. intros. apply Any_with_st; auto. Qed.

Lemma Inv_emit : forall (Rel Rel' : faultst -> lstate -> Prop) w l,
  Inv Rel w -> is_desync (EOut l) = false ->
  (forall c, halt w = false -> Rel c (st w) ->
             exists c', fault_step c (EOut l) = Some c' /\ Rel' c' (st w)) ->
  Inv Rel' (emit l w).
Proof.
  intros Rel Rel' w l H Hd Hi. unfold emit.
  destruct (halt w) eqn:Hh; [eapply Inv_halted; eauto|].
  unfold Inv in *. cbn [log st halt]. cbn [rev]. rewrite runs_app.
  destruct (runs fs0 (rev (log w))) as [c| |]; auto.
  cbn [runs]. rewrite Hd.
  destruct (Hi c eq_refl (H Hh)) as [c' [Hs Hr]]. rewrite Hs. auto.
Qed.

Lemma Any_emit : forall w l, AnyInv w -> AnyInv (emit l w).
Proof.
  intros w l H Rel. specialize (H (fun _ _ => False)). unfold emit.
  destruct (halt w) eqn:Hh.
  - unfold Inv in *. destruct (runs fs0 (rev (log w))); auto. intros; congruence.
  - unfold Inv in *. cbn [log st halt rev]. rewrite runs_app.
    destruct (runs fs0 (rev (log w))); auto. exfalso; auto.
Qed.

Lemma Inv_desync : forall (Rel : faultst -> lstate -> Prop) w what,
  Inv Rel w -> AnyInv (desync what w).
Proof.
  intros Rel w what H Rel'. unfold desync, emit, stop.
  destruct (halt w) eqn:Hh.
  - unfold Inv in *. cbn [log halt st].
    destruct (runs fs0 (rev (log w))); auto. intros; congruence.
  - unfold Inv in *. cbn [log halt st]. cbn [rev]. rewrite runs_app.
    destruct (runs fs0 (rev (log w))); auto. exact I.
Qed.

Lemma Any_Inv : forall w Rel, AnyInv w -> Inv Rel w.
Proof. intros w Rel H. apply H. Qed.

(* an output the checker does not look at (anything that is not sys/wdata/g fail/
   g openreply*/cb traffic/cb close): accepted iff nothing is owed *)
Definition plain (l : line) : Prop :=
  is_desync (EOut l) = false /\
  forall c, fault_step c (EOut l) = if ft_owed c then None else Some c.

Lemma Inv_emit_plain : forall (Rel : faultst -> lstate -> Prop) w l,
  plain l -> (forall c s, Rel c s -> ft_owed c = false) ->
  Inv Rel w -> Inv Rel (emit l w).
Proof.
  intros Rel w l [Hd Hp] Ho H. eapply Inv_emit; [exact H|exact Hd|].
  intros c _ Hc. exists c. rewrite Hp, (Ho _ _ Hc). auto.
Qed.

(* ------------------------------------------------------------------ *)
(* input lines *)

Lemma fault_step_in_not_r : forall c nm args, nm <> "r" -> fault_step c (EIn (nm, args)) = Some c.
Proof.
  intros c nm args Hne. destruct nm as [|a nm]; [reflexivity|].
  destruct a as [[] [] [] [] [] [] [] []]; try reflexivity.
  destruct nm; [congruence|reflexivity].
Qed.

Lemma fault_step_in_total : forall c l, exists c', fault_step c (EIn l) = Some c'.
Proof.
  intros c [nm args]. destruct (String.eqb_spec nm "r") as [->|Hne].
  - destruct args as [|[z|b|s] args]; try (eexists; reflexivity).
    cbn. destruct (String.eqb_spec s "read") as [->|H1].
    + destruct args as [|[n|b|s2] rest]; try (eexists; reflexivity).
      destruct (ft_conn_call c); eexists; reflexivity.
    + destruct (String.eqb_spec s "wr") as [->|H2].
      * destruct args as [|[n|b|s2] rest]; try (eexists; reflexivity).
        destruct rest as [|[n2|b|s2] rest]; eexists; reflexivity.
      * exists c.
        destruct s as [|a s]; [reflexivity|].
        destruct a as [[] [] [] [] [] [] [] []]; try reflexivity.
        -- destruct s as [|a s]; [reflexivity|].
           destruct a as [[] [] [] [] [] [] [] []]; try reflexivity.
           destruct s; [congruence|reflexivity].
        -- destruct s as [|a s]; [reflexivity|].
           destruct a as [[] [] [] [] [] [] [] []]; try reflexivity.
           destruct s as [|a s]; [reflexivity|].
           destruct a as [[] [] [] [] [] [] [] []]; try reflexivity.
           destruct s as [|a s]; [reflexivity|].
           destruct a as [[] [] [] [] [] [] [] []]; try reflexivity.
           destruct s; [congruence|reflexivity].
  - rewrite fault_step_in_not_r; eauto.
Qed.

Lemma apply_async_not_r : forall s nm args s', apply_async s (nm, args) = Some s' -> nm <> "r".
Proof.
  intros s nm args s' H Heq. subst nm. cbn in H. discriminate.
Qed.

Lemma fault_step_async : forall c s l s', apply_async s l = Some s' -> fault_step c (EIn l) = Some c.
Proof.
  intros c s [nm args] s' H. apply fault_step_in_not_r. eapply apply_async_not_r; eauto.
Qed.

Lemma pull_from_ext : forall picks i s lg s' lg' o r,
  pull_from picks s lg i = (s', lg', o, r) -> exists d, lg' = d ++ lg.
Proof.
  induction i as [|l i IH]; intros s lg s' lg' o r H; cbn [pull_from] in H.
  - inversion H; subst. exists []; reflexivity.
  - destruct (apply_async s l) as [s1|].
    + apply IH in H. destruct H as [d Hd]. exists (d ++ [EIn l]). rewrite <- app_assoc. exact Hd.
    + destruct (negb picks && is_pick l).
      * eapply IH; eauto.
      * inversion H; subst. exists [EIn l]; reflexivity.
Qed.

(* a relation is stable when requests of other goroutines preserve it *)
Definition stable (Rel : faultst -> lstate -> Prop) : Prop :=
  forall c s l s', Rel c s -> apply_async s l = Some s' -> Rel c s'.

(* the relation after the line [l] has been consumed *)
Definition after (l : line) (Rel : faultst -> lstate -> Prop) : faultst -> lstate -> Prop :=
  fun c s => exists c0, fault_step c0 (EIn l) = Some c /\ Rel c0 s.

Section Pull.
Variable Rel : faultst -> lstate -> Prop.
Hypothesis Hst : stable Rel.

Lemma pull_from_inv : forall picks i s lg c s' lg' o r,
  pull_from picks s lg i = (s', lg', o, r) ->
  runs fs0 (rev lg) = Live c -> Rel c s ->
  exists c', runs fs0 (rev lg') = Live c' /\
             match o with Some l => after l Rel c' s' | None => True end.
Proof.
  induction i as [|l i IH]; intros s lg c s' lg' o r H Hr HR; cbn [pull_from] in H.
  - inversion H; subst. eauto.
  - destruct (apply_async s l) as [s1|] eqn:Ha.
    + eapply IH; [exact H| |exact (Hst _ _ _ _ HR Ha)].
      cbn [rev]. rewrite runs_app, Hr. cbn [runs is_desync].
      rewrite (fault_step_async c _ _ _ Ha). reflexivity.
    + destruct (negb picks && is_pick l).
      * eapply IH; eauto.
      * inversion H; subst.
        destruct (fault_step_in_total c l) as [c1 Hs1].
        exists c1. split; [|exists c; auto].
        cbn [rev]. rewrite runs_app, Hr. cbn [runs is_desync]. rewrite Hs1. reflexivity.
Qed.

Lemma Inv_pull_gen : forall picks w o w',
  Inv Rel w -> pull_gen picks w = (o, w') ->
  match o with
  | Some l => Inv (after l Rel) w'
  | None => AnyInv w'
  end.
Proof.
  intros picks w o w' H Hp. unfold pull_gen in Hp.
  destruct (halt w) eqn:Hh.
  - inversion Hp; subst. eapply Inv_halted; eauto.
  - destruct (pull_from picks (st w) (log w) (inp w)) as [[[s1 lg1] o1] r1] eqn:Hpf.
    destruct (pull_from_ext _ _ _ _ _ _ _ _ Hpf) as [d Hd].
    unfold Inv in H.
    destruct (runs fs0 (rev (log w))) as [c| |] eqn:Hr; [| |tauto].
    + destruct (pull_from_inv _ _ _ _ _ _ _ _ _ Hpf Hr (H Hh)) as [c1 [Hr1 HR1]].
      destruct o1 as [l|]; inversion Hp; subst.
      * unfold Inv. cbn [log st halt]. rewrite Hr1. intros _. exact HR1.
      * intros Rel'. unfold Inv. cbn [log st halt]. rewrite Hr1. intros; congruence.
    + assert (Hdead : runs fs0 (rev lg1) = Dead).
      { rewrite Hd, rev_app_distr, runs_app, Hr. reflexivity. }
      destruct o1 as [l|]; inversion Hp; subst.
      * unfold Inv. cbn [log]. rewrite Hdead. exact I.
      * intros Rel'. unfold Inv. cbn [log]. rewrite Hdead. exact I.
Qed.

Lemma Inv_pull : forall w o w',
  Inv Rel w -> pull w = (o, w') ->
  match o with Some l => Inv (after l Rel) w' | None => AnyInv w' end.
Proof. intros w o w'. apply Inv_pull_gen. Qed.

End Pull.

Lemma Any_pull_gen : forall picks w o w', AnyInv w -> pull_gen picks w = (o, w') -> AnyInv w'.
Proof.
  intros picks w o w' H Hp.
  assert (Hs : stable (fun _ _ => False)) by (intros c s l s' []).
  pose proof (Inv_pull_gen _ Hs picks w o w' (H _) Hp) as HP.
  destruct o as [l|]; [|exact HP].
  intros Rel'. eapply Inv_weaken; [exact HP|]. intros c _ [c0 [_ []]].
Qed.

(* lines that leave the checker state alone *)
Lemma after_not_r : forall nm args Rel c s, nm <> "r" -> after (nm, args) Rel c s -> Rel c s.
Proof.
  intros nm args Rel c s Hne [c0 [Hs HR]]. rewrite fault_step_in_not_r in Hs by exact Hne.
  inversion Hs; subst; exact HR.
Qed.

(* ------------------------------------------------------------------ *)
(* system calls other than the read/wr of a connection *)

Definition kres_of (n : Z) (rest : list arg) : kres :=
  if n <? 0 then match rest with ASym e :: _ => KErr e | _ => KErr "err" end
  else KOk n rest.

(* shape of sysret, whatever the checker *)
Lemma sysret_cases : forall name w k w',
  sysret name w = (k, w') ->
  (exists o w1, pull w = (o, w1) /\
     ((o = None /\ k = KNone /\ w' = w1) \/
      (exists l what, o = Some l /\ k = KNone /\ w' = desync what w1 /\ sym_eqb what "fuel" = false) \/
      (exists n rest, o = Some ("r", ASym name :: AInt n :: rest) /\ k = kres_of n rest /\ w' = w1))).
Proof.
  intros name w k w' Hs. unfold sysret in Hs.
  destruct (pull w) as [o w1] eqn:Hp. exists o, w1. split; [reflexivity|].
  destruct o as [l|]; [|inversion Hs; subst; auto].
  right. destruct l as [ln la].
  destruct (String.eqb_spec ln "r") as [->|Hne].
  - destruct la as [|[z|b|nm] la]; try solve [inversion Hs; subst; left; do 2 eexists; repeat split; reflexivity].
    destruct la as [|[n|b|s2] rest]; try solve [inversion Hs; subst; left; do 2 eexists; repeat split; reflexivity].
    destruct (sym_eqb nm name) eqn:Hnm; cbn [negb] in Hs.
    + apply String.eqb_eq in Hnm. subst nm. right. exists n, rest. unfold kres_of.
      destruct (n <? 0).
      * destruct rest as [|[z|b|e] rest']; inversion Hs; subst; auto.
      * inversion Hs; subst; auto.
    + inversion Hs; subst. left; do 2 eexists; repeat split; reflexivity.
  - left. exists (ln, la), "expected-r".
    assert (Hk : (k, w') = (KNone, desync "expected-r" w1)).
    { rewrite <- Hs. destruct ln as [|a ln]; [reflexivity|].
      destruct a as [[] [] [] [] [] [] [] []]; try reflexivity.
      destruct ln; [congruence|reflexivity]. }
    inversion Hk; subst. auto.
Qed.

(* a call whose `sys` line resets the call marker and whose result the checker ignores *)
Definition plain_sys (name : string) (args : list arg) : Prop :=
  (forall c, fault_step c (EOut (obs "sys" (ASym name :: args))) =
             if ft_owed c then None
             else Some (mkF false false (ft_doomed c) (ft_closed c) (ft_exempt c))) /\
  (forall c n rest, ft_conn_call c = false ->
             fault_step c (EIn ("r", ASym name :: AInt n :: rest)) = Some c).

(* relations that do not look at the call marker *)
Definition call_blind (Rel : faultst -> lstate -> Prop) : Prop :=
  forall c s b, Rel c s -> Rel (mkF b (ft_owed c) (ft_doomed c) (ft_closed c) (ft_exempt c)) s.

Definition not_owed (Rel : faultst -> lstate -> Prop) : Prop :=
  forall c s, Rel c s -> ft_owed c = false.

Lemma Inv_sys_plain : forall Rel name args w k w',
  plain_sys name args -> stable Rel -> call_blind Rel -> not_owed Rel ->
  Inv Rel w -> sys name args w = (k, w') ->
  (Inv Rel w' /\ exists n rest, k = kres_of n rest) \/ (k = KNone /\ AnyInv w').
Proof.
  intros Rel name args w k w' [Hout Hin] Hst Hcb Hno H Hs. unfold sys in Hs.
  pose (Rel1 := fun c s => Rel c s /\ ft_conn_call c = false).
  assert (H1 : Inv Rel1 (emit (obs "sys" (ASym name :: args)) w)).
  { eapply Inv_emit; [exact H|reflexivity|].
    intros c _ Hc. rewrite Hout, (Hno _ _ Hc). eexists. split; [reflexivity|].
    split; [|reflexivity].
    pose proof (Hcb _ _ false Hc) as Hc'. rewrite (Hno _ _ Hc) in Hc'. exact Hc'. }
  assert (Hst1 : stable Rel1).
  { intros c s l s' [Hc Hf] Ha. split; [eapply Hst; eauto|exact Hf]. }
  destruct (sysret_cases _ _ _ _ Hs) as [o [w1 [Hp Hc]]].
  pose proof (Inv_pull Rel1 Hst1 _ _ _ H1 Hp) as HP.
  destruct Hc as [[-> [-> ->]]|[[l [what [-> [-> [-> _]]]]]|[n [rest [-> [-> ->]]]]]].
  - right. split; [reflexivity|exact HP].
  - right. split; [reflexivity|]. eapply Inv_desync; eauto.
  - left. split; [|eauto]. eapply Inv_weaken; [exact HP|].
    intros c _ [c0 [Hs0 [HR Hf]]]. rewrite Hin in Hs0 by exact Hf.
    inversion Hs0; subst. exact HR.
Qed.

Lemma Any_sysret : forall name w k w', AnyInv w -> sysret name w = (k, w') -> AnyInv w'.
Proof.
  intros name w k w' H Hs.
  destruct (sysret_cases _ _ _ _ Hs) as [o [w1 [Hp Hc]]].
  pose proof (Any_pull_gen _ _ _ _ H Hp) as H1.
  destruct Hc as [[-> [-> ->]]|[[l [what [-> [-> [-> _]]]]]|[n [rest [-> [-> ->]]]]]]; auto.
  eapply Inv_desync. apply (H1 (fun _ _ => True)).
Qed.

Lemma Any_sys : forall name args w k w', AnyInv w -> sys name args w = (k, w') -> AnyInv w'.
Proof.
  intros name args w k w' H Hs. unfold sys in Hs.
  eapply Any_sysret; [|exact Hs]. apply Any_emit; exact H.
Qed.

Lemma Any_desync : forall w what, AnyInv w -> AnyInv (desync what w).
Proof. intros w what H. eapply Inv_desync. apply (H (fun _ _ => True)). Qed.
