(* Basic lemmas for the MS-queue proofs: thread maps, heap update, int32 wrap,
   list positions, and the per-thread history automaton. *)
From GV Require Import Lib.Trace Spec.AtomicQueue Model.MSQueue.
From Coq Require Import Lia Arith.
Open Scope Z_scope.
Open Scope list_scope.

Ltac splits := repeat match goal with |- _ /\ _ => split end.
Ltac inv H := inversion H; subst; clear H.

(* ---- thread maps ---- *)
Lemma get_nil : forall t, get_thread [] t = idle_thread.
Proof. intro t; unfold get_thread; destruct t; reflexivity. Qed.

Lemma get_set_same : forall ths t x, get_thread (set_thread ths t x) t = x.
Proof.
  intros ths t; revert ths; induction t as [|t IH]; intros ths x; destruct ths; cbn; try reflexivity.
  - apply (IH []).
  - apply IH.
Qed.

Lemma get_set_other : forall ths t t' x, t <> t' -> get_thread (set_thread ths t x) t' = get_thread ths t'.
Proof.
  intros ths t; revert ths; induction t as [|t IH]; intros ths t' x Hne; destruct ths, t'; cbn; try congruence; try reflexivity.
  - destruct t'; reflexivity.
  - specialize (IH [] t' x). unfold get_thread in *. rewrite IH by congruence. destruct t'; reflexivity.
  - apply IH; congruence.
Qed.

Lemma total_lag_nil_set : forall t x, fold_right (fun th a => lag th + a) 0 (set_thread [] t x) = lag x.
Proof. induction t; intro x; cbn; [lia|]. rewrite IHt. reflexivity. Qed.

Lemma total_lag_set : forall ths t x,
  fold_right (fun th a => lag th + a) 0 (set_thread ths t x) =
  fold_right (fun th a => lag th + a) 0 ths - lag (get_thread ths t) + lag x.
Proof.
  intros ths t; revert ths; induction t as [|t IH]; intros ths x; destruct ths; cbn.
  - lia.
  - unfold get_thread; cbn. lia.
  - rewrite total_lag_nil_set. unfold get_thread; cbn. destruct t; cbn; lia.
  - rewrite IH. unfold get_thread; cbn. lia.
Qed.

Lemma total_lag_idle : forall ths, (forall t, t_pc (get_thread ths t) = Idle) ->
  fold_right (fun th a => lag th + a) 0 ths = 0.
Proof.
  induction ths as [|th r IH]; intro H; cbn; [reflexivity|].
  rewrite IH. 2:{ intro t. apply (H (S t)). }
  specialize (H O). unfold get_thread in H; cbn in H. unfold lag. rewrite H. reflexivity.
Qed.

(* ---- heap update ---- *)
Lemma set_next_length : forall h p nx, List.length (set_next h p nx) = List.length h.
Proof. induction h; intros p nx; destruct p; cbn; auto. Qed.

Lemma set_next_same : forall h p nx nd, nth_error h p = Some nd ->
  nth_error (set_next h p nx) p = Some (mkNode (n_val nd) nx).
Proof.
  induction h; intros p nx nd H; destruct p; cbn in *; try discriminate.
  - inv H. reflexivity.
  - eauto.
Qed.

Lemma set_next_other : forall h p q nx, p <> q -> nth_error (set_next h p nx) q = nth_error h q.
Proof.
  induction h; intros p q nx Hne; destruct p, q; cbn; try reflexivity; try congruence.
  apply IHh; congruence.
Qed.

(* ---- int32 wrap ---- *)
Lemma wrap_i32_add : forall a b, wrap_i32 (wrap_i32 a + b) = wrap_i32 (a + b).
Proof.
  intros a b. unfold wrap_i32.
  replace ((a + 2147483648) mod 4294967296 - 2147483648 + b + 2147483648)
    with ((a + 2147483648) mod 4294967296 + b) by lia.
  rewrite Zplus_mod_idemp_l. f_equal. f_equal. lia.
Qed.

Lemma wrap_i32_small : forall a, -2147483648 <= a < 2147483648 -> wrap_i32 a = a.
Proof. intros a H. unfold wrap_i32. rewrite Z.mod_small by lia. lia. Qed.

(* ---- pointers and positions ---- *)
Lemma ptr_eqb_eq : forall a b, ptr_eqb a b = true <-> a = b.
Proof.
  intros [x|] [y|]; cbn; split; intro H; try discriminate; try reflexivity.
  - apply Nat.eqb_eq in H. congruence.
  - inv H. apply Nat.eqb_refl.
Qed.

Lemma ptr_eqb_neq : forall a b, ptr_eqb a b = false <-> a <> b.
Proof.
  intros a b. split; intro H.
  - intro E. apply ptr_eqb_eq in E. congruence.
  - destruct (ptr_eqb a b) eqn:E; [|reflexivity]. apply ptr_eqb_eq in E. contradiction.
Qed.

Lemma is_nil_true : forall p, is_nil p = true <-> p = None.
Proof. intros [x|]; cbn; split; congruence. Qed.

Lemma nodup_pos : forall (l : list nat) i j x, NoDup l ->
  nth_error l i = Some x -> nth_error l j = Some x -> i = j.
Proof.
  intros l i j x Hnd Hi Hj.
  eapply (proj1 (NoDup_nth_error l) Hnd).
  - apply nth_error_Some. congruence.
  - congruence.
Qed.

Lemma nth_error_app_l : forall (A : Type) (l l' : list A) i x,
  nth_error l i = Some x -> nth_error (l ++ l') i = Some x.
Proof.
  intros A l l' i x H. rewrite nth_error_app1; [exact H|]. apply nth_error_Some. congruence.
Qed.

Lemma nth_error_lt : forall (A : Type) (l : list A) i x, nth_error l i = Some x -> (i < List.length l)%nat.
Proof. intros A l i x H. apply nth_error_Some. congruence. Qed.

Lemma nth_error_snoc_last : forall (A : Type) (l : list A) x, nth_error (l ++ [x]) (List.length l) = Some x.
Proof. intros. rewrite nth_error_app2 by lia. rewrite Nat.sub_diag. reflexivity. Qed.

Lemma skipn_nth : forall (A : Type) (l : list A) i x,
  nth_error l i = Some x -> skipn i l = x :: skipn (S i) l.
Proof.
  intros A l; induction l as [|a l IH]; intros i x H; destruct i; cbn in *; try discriminate.
  - inv H. reflexivity.
  - rewrite (IH i x H). destruct l; reflexivity.
Qed.

Lemma skipn_app_le : forall (A : Type) (l l' : list A) i, (i <= List.length l)%nat ->
  skipn i (l ++ l') = skipn i l ++ l'.
Proof.
  intros A l l' i H. rewrite skipn_app. replace (i - List.length l)%nat with O by lia. reflexivity.
Qed.

(* ---- the per-thread automaton ---- *)
Lemma tphase_cons_other : forall t e log, ev_tid e <> t -> tphase t (e :: log) = tphase t log.
Proof. intros t e log H. cbn. apply Nat.eqb_neq in H. rewrite H. reflexivity. Qed.

Lemma tphase_cons_same : forall t e log, ev_tid e = t -> tphase t (e :: log) = phase_step (tphase t log) e.
Proof. intros t e log H. cbn. rewrite H, Nat.eqb_refl. reflexivity. Qed.

Lemma in_call_ids : forall log t n v, In (CallEnq t n v) log -> In n (call_ids log).
Proof.
  induction log as [|e log IH]; intros t n v H; [destruct H|].
  destruct H as [H|H].
  - subst e. cbn. apply in_or_app. right. left. reflexivity.
  - specialize (IH _ _ _ H). destruct e; cbn; auto. apply in_or_app. left. exact IH.
Qed.

Lemma nodup_snoc : forall (A : Type) (l : list A) x, NoDup (l ++ [x]) <-> NoDup l /\ ~ In x l.
Proof.
  intros A l x. split.
  - intro H. apply NoDup_remove in H. rewrite app_nil_r in H. exact H.
  - intros [H1 H2]. apply NoDup_rev in H1.
    rewrite <- (rev_involutive (l ++ [x])). apply NoDup_rev. rewrite rev_app_distr. cbn.
    constructor; [|exact H1]. rewrite <- in_rev. exact H2.
Qed.

Lemma call_ids_unique : forall log t1 t2 n v1 v2, NoDup (call_ids log) ->
  In (CallEnq t1 n v1) log -> In (CallEnq t2 n v2) log -> t1 = t2 /\ v1 = v2.
Proof.
  induction log as [|e log IH]; intros t1 t2 n v1 v2 Hnd H1 H2; [destruct H1|].
  assert (Hold : NoDup (call_ids log)).
  { destruct e; cbn in Hnd; auto. apply nodup_snoc in Hnd. tauto. }
  destruct H1 as [H1|H1], H2 as [H2|H2].
  - subst e. inv H2. auto.
  - subst e. cbn in Hnd. apply nodup_snoc in Hnd. exfalso. apply (proj2 Hnd). eapply in_call_ids; eauto.
  - subst e. cbn in Hnd. apply nodup_snoc in Hnd. exfalso. apply (proj2 Hnd). eapply in_call_ids; eauto.
  - eapply IH; eauto.
Qed.

Lemma tphase_called_in : forall t log n v, tphase t log = PEnqCalled n v -> In (CallEnq t n v) log.
Proof.
  intros t log; induction log as [|e log IH]; intros n v H; cbn in H; [discriminate|].
  destruct (Nat.eqb (ev_tid e) t) eqn:E.
  - apply Nat.eqb_eq in E.
    destruct (tphase t log) eqn:P, e; cbn in H; try discriminate;
      try (destruct seen_empty; discriminate).
    + cbn in E. inv H. left. reflexivity.
    + destruct (Nat.eqb id id0 && Z.eqb v0 v1)%bool; discriminate.
    + destruct seen_empty; [destruct r|]; discriminate.
    + destruct r; [destruct (Z.eqb v0 z)|]; discriminate.
  - right. apply IH. exact H.
Qed.

Lemma phase_step_bad : forall e, phase_step PBad e = PBad.
Proof. destruct e; reflexivity. Qed.

Lemma item_eqb_refl : forall a, item_eqb a a = true.
Proof. intros [n v]. unfold item_eqb. cbn. rewrite Nat.eqb_refl, Z.eqb_refl. reflexivity. Qed.

Lemma item_eqb_eq : forall a b, item_eqb a b = true -> a = b.
Proof.
  intros [n v] [m w]. unfold item_eqb. cbn. intro H. apply andb_prop in H. destruct H as [H1 H2].
  apply Nat.eqb_eq in H1. apply Z.eqb_eq in H2. congruence.
Qed.
