(* World-level lemmas for the C04/C07 invariant: every log/state primitive of the loop
   model preserves `Inv pstep c0 (RelX L P N F)`, where F is a local fact about the
   state that is stable under input consumption. *)
From GV Require Import Lib.Trace Model.Loop Spec.LoopSpec
  Proofs.LoopInv Proofs.LoopAState Proofs.LoopATrans.
From Coq Require Import Lia Permutation.
Open Scope string_scope.
Open Scope list_scope.
Open Scope Z_scope.

Definition RelXQ (L P N : list Z) (q : option (string * Z)) (F : phmap -> lstate -> Prop)
  : pst -> lstate -> Prop := fun c s => RelQ L P N q c s /\ F (fst c) s.
Definition RelX (L P N : list Z) (F : phmap -> lstate -> Prop) := RelXQ L P N None F.
Definition Stable (F : phmap -> lstate -> Prop) : Prop :=
  forall m s s', frame s s' -> F m s -> F m s'.
Definition Tr : phmap -> lstate -> Prop := fun _ _ => True.

Lemma st_emit : forall l w, st (emit l w) = st w.
Proof. intros. unfold emit. destruct (halt w); reflexivity. Qed.
Lemma st_ghost : forall what cid bs w, st (ghost what cid bs w) = st w.
Proof. intros. apply st_emit. Qed.
Lemma wc_emit : forall l w cid, wc (emit l w) cid = wc w cid.
Proof. intros. unfold wc. rewrite st_emit. reflexivity. Qed.
Lemma wc_ghost : forall what c bs w cid, wc (ghost what c bs w) cid = wc w cid.
Proof. intros. apply wc_emit. Qed.
Lemma halt_emit : forall l w, halt (emit l w) = halt w.
Proof. intros. unfold emit. destruct (halt w) eqn:E; [exact E|reflexivity]. Qed.

(* a fact about one (existing) connection record and the registry *)
Definition At (cid : Z) (G : conn -> list (Z * Z) -> Prop) : phmap -> lstate -> Prop :=
  fun _ s => cid < l_next s /\ G (getc s cid) (l_reg s).

Lemma Stable_Tr : Stable Tr.
Proof. intros m s s' _ _. exact I. Qed.

Lemma Stable_At : forall cid G, Stable (At cid G).
Proof.
  intros cid G m s s' Hf [H1 H2]. unfold frame in Hf.
  destruct Hf as (_ & _ & _ & _ & _ & _ & _ & Hr & Hn & Hg).
  split; [lia|]. rewrite Hr, Hg; auto.
Qed.

Lemma Stable_and : forall F G, Stable F -> Stable G -> Stable (fun m s => F m s /\ G m s).
Proof. intros F G HF HG m s s' Hf [H1 H2]. split; eauto. Qed.

#[export] Hint Resolve Stable_Tr Stable_At Stable_and : stable.

Lemma frame_enqueue_flag : forall s b t f, frame s (set_flag (enqueue s b t) f).
Proof. intros. apply frame_queues, frame_refl. Qed.

(* holders are existing connections; their descriptors are owned *)
Lemma holder_lt : forall L P N m s cid, Rst L P N m s -> holder L P s cid -> cid < l_next s.
Proof.
  intros L P N m s cid HR Hh. destruct (Z_lt_le_dec cid (l_next s)) as [Hl|Hl]; [exact Hl|exfalso].
  destruct (r_fresh _ _ _ _ _ HR _ Hl) as [H1 [H2 [H3 H4]]].
  destruct Hh as [Hh|[Hh|Hh]]; [congruence| |tauto].
  rewrite (r_L _ _ _ _ _ HR _ Hh) in H2. discriminate.
Qed.

Lemma Led_owns_holder : forall L P q cs s cid,
  Led L P q cs s -> holder L P s cid -> owns cs (c_fd (getc s cid)) = true.
Proof. intros. unfold owns. rewrite (l_own _ _ _ _ _ H _ H0). reflexivity. Qed.

Lemma Led_owns_efd : forall L P q cs s, Led L P q cs s -> owns cs (l_efd s) = true.
Proof.
  intros. unfold owns. rewrite (l_static _ _ _ _ _ H). unfold zmem at 2. cbn [existsb].
  rewrite Z.eqb_refl. apply Bool.orb_true_r.
Qed.

Lemma Led_owns_listener : forall L P q cs s fd,
  Led L P q cs s -> In fd (map fst (l_listeners s)) -> owns cs fd = true.
Proof.
  intros. unfold owns. rewrite (l_static _ _ _ _ _ H).
  assert (zmem fd (l_efd s :: map fst (l_listeners s)) = true) by (apply zmem_true; right; auto).
  rewrite H1. apply Bool.orb_true_r.
Qed.

Lemma alookup_in_keys : forall {A} k (v : A) m, alookup k m = Some v -> In k (map fst m).
Proof. intros. eapply alookup_some_in; eauto. Qed.

(* a final input line (not a request of another goroutine) outside a system call *)
Lemma RelQ_in_final : forall L P N m cs s l cs',
  RelQ L P N None (m, cs) s -> fd_step_stale cs (EIn l) = Some cs' ->
  RelQ L P N None (m, cs') s.
Proof.
  intros L P N m cs s [ln la] cs' [HR HF] Hs. split; [exact HR|]. cbn [fst snd] in *.
  destruct (f_dead cs) eqn:Hd.
  { assert (cs' = cs); [|subst; left; exact Hd].
    revert Hs. cbn. unfold fd_step. rewrite Hd. congruence. }
  destruct HF as [HF|HF]; [congruence|].
  destruct (String.eqb_spec ln "r") as [->|H1].
  - destruct la as [|[z|b|nm] la]; try (revert Hs; cbn; unfold fd_step; rewrite Hd; intros Hs; inversion Hs; subst; right; exact HF).
    destruct la as [|[n|b|s2] rest]; try (revert Hs; cbn; unfold fd_step; rewrite Hd; intros Hs; inversion Hs; subst; right; exact HF).
    rewrite fd_in_r, Hd in Hs. inversion Hs; subst. unfold fd_result.
    rewrite (l_last _ _ _ _ _ HF). right. exact HF.
  - destruct (String.eqb_spec ln "accepted") as [->|H2].
    + destruct la as [|[fd|b|nm] la]; try (revert Hs; cbn; unfold fd_step; rewrite Hd; intros Hs; inversion Hs; subst; right; exact HF).
      destruct la; [|revert Hs; cbn; unfold fd_step; rewrite Hd; intros Hs; inversion Hs; subst; right; exact HF].
      rewrite fd_in_accepted, Hd in Hs. inversion Hs; subst.
      destruct (Led_fresh _ _ _ _ _ fd Hd HF) as [Hx|[_ [Hx _]]]; [left|right]; exact Hx.
    + destruct (String.eqb_spec ln "enroll") as [->|H3].
      * destruct la as [|[fd|b|nm] la]; try (revert Hs; cbn; unfold fd_step; rewrite Hd; intros Hs; inversion Hs; subst; right; exact HF).
        rewrite fd_in_enroll, Hd in Hs. inversion Hs; subst.
        destruct (Led_fresh _ _ _ _ _ fd Hd HF) as [Hx|[_ [Hx _]]]; [left|right]; exact Hx.
      * destruct (String.eqb_spec ln "dial") as [->|H4].
        -- destruct la as [|[fd|b|nm] la]; try (revert Hs; cbn; unfold fd_step; rewrite Hd; intros Hs; inversion Hs; subst; right; exact HF).
           rewrite fd_in_dial, Hd in Hs. inversion Hs; subst.
           destruct (Led_fresh _ _ _ _ _ fd Hd HF) as [Hx|[_ [Hx _]]]; [left|right]; exact Hx.
        -- rewrite fd_in_other in Hs; auto. inversion Hs; subst. right. exact HF.
Qed.

Section World.
Variable c0 : pst.
Notation Iv := (Inv pstep c0).

Lemma Iv_Rel_X : forall L P N w, Iv (Rel L P N) w <-> Iv (RelX L P N Tr) w.
Proof.
  intros; split; intros H.
  - eapply Inv_weaken; [exact H|]. intros c _ Hc. split; [exact Hc|exact I].
  - eapply Inv_weaken; [exact H|]. intros c _ Hc. exact (proj1 Hc).
Qed.

Lemma Iv_X_Rel : forall L P N F w, Iv (RelX L P N F) w -> Iv (Rel L P N) w.
Proof. intros. eapply Inv_weaken; [exact H|]. intros c _ Hc. exact (proj1 Hc). Qed.

(* ---- emissions the checkers ignore ---- *)

Lemma I_quiet : forall R w l, quiet l -> is_desync (EOut l) = false ->
  Iv R w -> Iv R (emit l w).
Proof.
  intros R w l Hq Hd H. eapply Inv_emit; [exact H|exact Hd|].
  intros c _ Hc. exists c. split; [apply Hq|exact Hc].
Qed.

Lemma I_ghost : forall R w what cid bs, quiet_ghost what -> Iv R w -> Iv R (ghost what cid bs w).
Proof.
  intros R w what cid bs Hq H. unfold ghost. apply I_quiet; auto.
  apply quiet_g; auto.
Qed.

Lemma I_hr : forall R w vals, Iv R w -> Iv R (emit (obs "hr" vals) w).
Proof. intros. apply I_quiet; auto. apply quiet_hr. Qed.

(* ---- input ---- *)

Lemma Hasync_X : forall L P N q F, Stable F ->
  forall c s l s', RelXQ L P N q F c s -> apply_async s l = Some s' ->
  exists c', pstep c (EIn l) = Some c' /\ RelXQ L P N q F c' s'.
Proof.
  intros L P N q F HS c s l s' [HR HF] Ha.
  destruct (RelQ_async _ _ _ _ _ _ _ _ HR Ha) as [c' [H1 [H2 [H3 H4]]]].
  exists c'. split; [exact H1|]. split; [exact H2|]. rewrite H3. eapply HS; eauto.
Qed.

Lemma I_pull : forall L P N F picks w o w', Stable F ->
  Iv (RelX L P N F) w -> pull_gen picks w = (o, w') ->
  match o with Some _ => Iv (RelX L P N F) w' | None => forall R', Iv R' w' end.
Proof.
  intros L P N F picks w o w' HS H Hp.
  assert (HP := Inv_pull_gen pstep c0 (RelX L P N F) (fun _ => RelX L P N F)
                  (Hasync_X L P N None F HS)).
  assert (Hfin : forall c s l, RelX L P N F c s -> apply_async s l = None ->
            exists c', pstep c (EIn l) = Some c' /\ RelX L P N F c' s).
  { intros [m cs] s l [HR HF] _. destruct (pstep_in m cs l) as [cs' [H1 H2]].
    exists (m, cs'). split; [exact H2|]. split; [|exact HF].
    eapply RelQ_in_final; eauto. }
  specialize (HP Hfin picks w o w' H Hp). destruct o; exact HP.
Qed.

(* ---- system calls ---- *)

Lemma pstep_sys_fd : forall m cs a cs',
  fd_step_stale cs (EOut (obs "sys" a)) = Some cs' ->
  pstep (m, cs) (EOut (obs "sys" a)) = Some (m, cs').
Proof. intros m cs a cs' H. unfold pstep. cbn [fst snd]. rewrite H. reflexivity. Qed.

(* generic: the emission is accepted with the call pending; the result relation is RelF *)
Lemma I_sys_gen : forall L P N q0 F name fd args (RelF : Z -> list arg -> pst -> lstate -> Prop) w k w',
  Stable F -> Iv (RelXQ L P N q0 F) w ->
  (forall m cs, halt w = false -> RelXQ L P N q0 F (m, cs) (st w) ->
     exists cs', fd_step_stale cs (EOut (obs "sys" (ASym name :: args))) = Some cs' /\
                 FdR L P (Some (name, fd)) cs' (st w)) ->
  (forall m cs s n, RelXQ L P N (Some (name, fd)) F (m, cs) s ->
     RelF n (nil : list arg) (m, if f_dead cs then cs else fd_result cs n) s) ->
  (forall n rest rest' c s, RelF n rest c s -> RelF n rest' c s) ->
  sys name args w = (k, w') ->
  (exists n rest, k = kres_of n rest /\ Iv (RelF n rest) w') \/
  (k = KNone /\ forall R', Iv R' w').
Proof.
  intros L P N q0 F name fd args RelF w k w' HS H He Hres Hrest Hs.
  eapply (Inv_sys pstep c0 (RelXQ L P N (Some (name, fd)) F) RelF name
            (Hasync_X L P N (Some (name, fd)) F HS) pstep_in_total); [| exact H | | exact Hs].
  - intros [m cs] s nm n rest HR _.
    exists (m, if f_dead cs then cs else fd_result cs n). split.
    + unfold pstep. cbn [fst snd]. rewrite fd_in_r. reflexivity.
    + eapply Hrest. apply Hres. exact HR.
  - intros [m cs] Hh HR. destruct (He m cs Hh HR) as [cs' [H1 H2]].
    exists (m, cs'). split; [apply pstep_sys_fd; exact H1|].
    split; [split; [exact (proj1 (proj1 HR))|exact H2]|exact (proj2 HR)].
Qed.

Lemma I_sys_plain_q : forall L P N q0 F name fd args w k w',
  Stable F -> sym_eqb name "close" = false -> sym_eqb name "accept" = false ->
  Iv (RelXQ L P N q0 F) w ->
  (forall m cs, halt w = false -> RelXQ L P N q0 F (m, cs) (st w) ->
     exists cs', fd_step_stale cs (EOut (obs "sys" (ASym name :: args))) = Some cs' /\
                 FdR L P (Some (name, fd)) cs' (st w)) ->
  sys name args w = (k, w') -> Iv (RelX L P N F) w'.
Proof.
  intros L P N q0 F name fd args w k w' HS Hc Ha H He Hs.
  destruct (I_sys_gen L P N q0 F name fd args (fun _ _ => RelX L P N F) w k w' HS H He) as [[n [rest [_ HI]]]|[_ HI]]; auto.
  intros m cs s n [HR HF]. split; [|exact HF].
  eapply RelQ_plain_result; eauto.
Qed.

Lemma I_sys_plain : forall L P N F name fd args w k w',
  Stable F -> sym_eqb name "close" = false -> sym_eqb name "accept" = false ->
  Iv (RelX L P N F) w ->
  (forall m cs, halt w = false -> RelX L P N F (m, cs) (st w) ->
     exists cs', fd_step_stale cs (EOut (obs "sys" (ASym name :: args))) = Some cs' /\
                 FdR L P (Some (name, fd)) cs' (st w)) ->
  sys name args w = (k, w') -> Iv (RelX L P N F) w'.
Proof. intros. eapply I_sys_plain_q; eauto. Qed.

(* close(2) of the descriptor of a connection inside el_close / of a failed registration *)
Lemma I_sys_close_L : forall L P N F cid fd w k w',
  Stable F -> (forall m s, F m s -> c_opened (getc s cid) = false /\ c_fd (getc s cid) = fd) ->
  Iv (RelX (cid :: L) P N F) w -> sys "close" [AInt fd] w = (k, w') -> Iv (Rel L P N) w'.
Proof.
  intros L P N F cid fd w k w' HS HF H Hs.
  destruct (I_sys_gen (cid :: L) P N None F "close" fd [AInt fd] (fun _ _ => Rel L P N) w k w' HS H) as [[n [rest [_ HI]]]|[_ HI]]; auto.
  - intros m cs Hh [[HR HFd] HFF]. apply FdR_sys; [unfold sysname; cbn; tauto|exact HFd|].
    intros HL. destruct (HF _ _ HFF) as [_ <-]. eapply Led_owns_holder; [exact HL|].
    right; left; left; reflexivity.
  - intros m cs s n [HR HFF]. destruct (HF _ _ HFF) as [H1 H2].
    eapply RelQ_close_result_L; eauto.
Qed.

Lemma I_sys_close_P : forall L P N F cid fd w k w',
  Stable F -> (forall m s, F m s -> c_fd (getc s cid) = fd) ->
  Iv (RelX L (cid :: P) N F) w -> sys "close" [AInt fd] w = (k, w') -> Iv (Rel L P (cid :: N)) w'.
Proof.
  intros L P N F cid fd w k w' HS HF H Hs.
  destruct (I_sys_gen L (cid :: P) N None F "close" fd [AInt fd] (fun _ _ => Rel L P (cid :: N)) w k w' HS H) as [[n [rest [_ HI]]]|[_ HI]]; auto.
  - intros m cs Hh [[HR HFd] HFF]. apply FdR_sys; [unfold sysname; cbn; tauto|exact HFd|].
    intros HL. rewrite <- (HF _ _ HFF). eapply Led_owns_holder; [exact HL|].
    right; right; left; reflexivity.
  - intros m cs s n [HR HFF].
    eapply RelQ_close_result_P; eauto.
Qed.

Lemma I_sys_wr : forall L P N F cid fd src exact w k w',
  Stable F -> Iv (RelX L P N F) w ->
  (forall m cs, halt w = false -> RelX L P N F (m, cs) (st w) ->
     Led L P None cs (st w) -> owns cs fd = true) ->
  sys_wr cid fd src exact w = (k, w') -> Iv (RelX L P N F) w'.
Proof.
  intros L P N F cid fd src exact w k w' HS H Hg Hs.
  eapply (Inv_sys_wr pstep c0 (RelX L P N F) (RelXQ L P N (Some ("wr", fd)) F) (RelX L P N F)
            (Hasync_X L P N (Some ("wr", fd)) F HS) pstep_in_total); [| | | exact H | | exact Hs].
  - intros [m cs] s nm n rest [HR HF] _.
    exists (m, if f_dead cs then cs else fd_result cs n). split.
    + unfold pstep. cbn [fst snd]. rewrite fd_in_r. reflexivity.
    + split; [|exact HF]. eapply RelQ_plain_result; [| |exact HR]; reflexivity.
  - intros c b. apply quiet_wdata.
  - intros c what cid' b Hw. apply quiet_g. unfold quiet_ghost. cbn [In].
    destruct Hw as [->|[->| ->]]; tauto.
  - intros [m cs] Hh HR.
    destruct (FdR_sys L P cs (st w) "wr" fd [] ) as [cs' [H1 H2]].
    + unfold sysname; cbn; tauto.
    + exact (proj2 (proj1 HR)).
    + intros HL. eapply Hg; eauto.
    + exists (m, cs'). split; [apply pstep_sys_fd; exact H1|].
      split; [split; [exact (proj1 (proj1 HR))|exact H2]|exact (proj2 HR)].
Qed.

Lemma I_epctl : forall L P N F op fd rw et w r w',
  Stable F -> In op ["add"; "mod"; "del"] -> Iv (RelX L P N F) w ->
  (forall m cs, halt w = false -> RelX L P N F (m, cs) (st w) -> op <> "del" ->
     Led L P None cs (st w) -> owns cs fd = true) ->
  epctl op fd rw et w = (r, w') -> Iv (RelX L P N F) w'.
Proof.
  intros L P N F op fd rw et w r w' HS Hop H Hg He. unfold epctl in He.
  destruct (sys "epctl" [ASym op; AInt fd; bool_arg rw; bool_arg et] w) as [k w1] eqn:Hs.
  assert (HI : Iv (RelX L P N F) w1).
  { eapply (I_sys_plain L P N F "epctl" fd); [exact HS|reflexivity|reflexivity|exact H| |exact Hs].
    intros m cs Hh HR. apply FdR_epctl; [exact Hop|exact (proj2 (proj1 HR))|].
    intros Hne HL. eapply Hg; eauto. }
  destruct k; inversion He; subst; exact HI.
Qed.

(* system calls on the eventfd *)
Lemma I_sys_efd : forall L P N F name args w k w',
  Stable F -> name = "write" \/ name = "read" -> Iv (RelX L P N F) w ->
  sys name (AInt (l_efd (st w)) :: args) w = (k, w') -> Iv (RelX L P N F) w'.
Proof.
  intros L P N F name args w k w' HS Hn H Hs.
  eapply (I_sys_plain L P N F name (l_efd (st w))); [exact HS| | |exact H| |exact Hs];
    try (destruct Hn; subst; reflexivity).
  intros m cs Hh HR. apply FdR_sys; [unfold sysname; cbn; destruct Hn; subst; tauto|exact (proj2 (proj1 HR))|].
  intros HL. eapply Led_owns_efd; eauto.
Qed.

Lemma I_efd_write : forall L P N F, Stable F -> forall fuel w,
  Iv (RelX L P N F) w -> Iv (RelX L P N F) (snd (efd_write fuel w)).
Proof.
  intros L P N F HS. induction fuel as [|f IH]; intros w H; cbn [efd_write].
  - cbn [snd]. eapply Inv_desync; eauto.
  - destruct (sys "write" [AInt (l_efd (st w))] w) as [k w1] eqn:Hs.
    assert (H1 : Iv (RelX L P N F) w1)
      by (eapply (I_sys_efd L P N F "write" []); [exact HS|left; reflexivity|exact H|exact Hs]).
    destruct k as [n ex|e|]; cbn [snd]; auto.
    destruct (is_eagain e); cbn [snd]; auto.
    destruct (sys "read" [AInt (l_efd (st w1))] w1) as [k2 w2] eqn:Hs2.
    apply IH. eapply (I_sys_efd L P N F "read" []); [exact HS|right; reflexivity|exact H1|exact Hs2].
Qed.

Lemma I_trigger : forall L P N F b t w, Stable F -> plain_task t ->
  Iv (RelX L P N F) w -> Iv (RelX L P N F) (snd (trigger b t w)).
Proof.
  intros L P N F b t w HS Ht H. unfold trigger.
  destruct (l_flag (enqueue (st w) b t)).
  - cbn [snd]. eapply Inv_with_st; [exact H|]. intros c _ [HR HF]. split.
    + apply RelQ_enqueue; auto.
    + eapply HS; [|exact HF]. apply (frame_queues (st w) (st w) b t (l_flag (enqueue (st w) b t))).
      apply frame_refl.
  - apply I_efd_write; auto. eapply Inv_with_st; [exact H|]. intros c _ [HR HF]. split.
    + apply RelQ_set_flag, RelQ_enqueue; auto.
    + eapply HS; [|exact HF]. apply frame_enqueue_flag.
Qed.

(* ---- state updates ---- *)

Lemma I_wsetc_X : forall L P N (F : phmap -> lstate -> Prop) w cid c',
  c_fd c' = c_fd (wc w cid) -> c_udp c' = c_udp (wc w cid) ->
  c_remote c' = c_remote (wc w cid) -> c_opened c' = c_opened (wc w cid) ->
  (forall m, F m (st w) -> F m (setc (st w) cid c')) ->
  Iv (RelX L P N F) w -> Iv (RelX L P N F) (wsetc w cid c').
Proof.
  intros L P N F w cid c' H1 H2 H3 H4 HF H. eapply Inv_wsetc; [exact H|].
  intros c _ [HR HFF]. split; [|apply HF; exact HFF].
  apply RelQ_setc_same; auto.
Qed.

Lemma I_wsetc : forall L P N w cid c',
  c_fd c' = c_fd (wc w cid) -> c_udp c' = c_udp (wc w cid) ->
  c_remote c' = c_remote (wc w cid) -> c_opened c' = c_opened (wc w cid) ->
  Iv (Rel L P N) w -> Iv (Rel L P N) (wsetc w cid c').
Proof.
  intros L P N w cid c' H1 H2 H3 H4 H. eapply Inv_wsetc; [exact H|].
  intros c _ HR. apply RelQ_setc_same; auto.
Qed.

Lemma At_setc : forall cid (G : conn -> list (Z * Z) -> Prop) (m : phmap) s c', G c' (l_reg s) -> At cid G m s -> At cid G m (setc s cid c').
Proof.
  intros cid G m s c' HG [H1 H2]. split; [exact H1|].
  rewrite getc_setc, Z.eqb_refl. exact HG.
Qed.

(* an open connection exists and can carry a fact *)
Lemma I_assert_At : forall L P N w cid (G : conn -> list (Z * Z) -> Prop),
  Iv (Rel L P N) w -> (halt w = false -> holder L P (st w) cid) ->
  G (wc w cid) (l_reg (st w)) -> Iv (RelX L P N (At cid G)) w.
Proof.
  intros L P N w cid G H Hh HG. eapply Inv_weaken; [exact H|].
  intros c Hf HR. split; [exact HR|]. split; [|exact HG].
  eapply holder_lt; [exact (proj1 HR)|auto].
Qed.

End World.
