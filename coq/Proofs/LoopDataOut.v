(* C02 outbound integrity: the history of every run of the event-loop model satisfies
   the outbound checker.  Invariant: for every connection the checker does not skip, its
   [rest] is c_out of the model at procedure boundaries; inside the write loops it is the
   data of the operation not yet handed over (side assertion OXP). *)
From Coq Require Import Lia ZArith ZifyBool.
From GV Require Import Lib.Trace Model.Loop Spec.LoopSpec Proofs.LoopDataLib.
Open Scope string_scope.
Open Scope list_scope.
Open Scope Z_scope.

Definition ustep (u : unit) (e : ev) : option unit := Some u.

Notation OINV := (Inv ustep out_step tt (mkOut [] [])).

Definition olive (x : outst) (cid : Z) : Prop := zmem cid (o_closed x) = false.

(* side assertions *)
Inductive oxa :=
| OXNone
| OXOpen (cid : Z)
| OXReg (cid fd : Z)
| OXLt (cid : Z)
| OXRegd (cid : Z)
| OXUdp (cid : Z)
| OXP (cid : Z) (rv ov : list Z)      (* inside a write: checker rest and c_out of cid *)
| OXFalse.                            (* unreachable *)

Definition oxsem (xa : oxa) (x : outst) (s : lstate) : Prop :=
  match xa with
  | OXNone => True
  | OXOpen cid => c_opened (getc s cid) = true
  | OXReg cid fd => cid < l_next s /\ c_fd (getc s cid) = fd /\ alookup fd (l_reg s) = None /\
                    c_udp (getc s cid) && c_remote (getc s cid) = false
  | OXLt cid => cid < l_next s /\ c_udp (getc s cid) && c_remote (getc s cid) = false
  | OXRegd cid => cid < l_next s /\ alookup (c_fd (getc s cid)) (l_reg s) = Some cid /\
                  c_udp (getc s cid) && c_remote (getc s cid) = false
  | OXUdp cid => cid < l_next s /\ c_udp (getc s cid) = true
  | OXP cid rv ov => cid < l_next s /\ (olive x cid -> getd [] cid (o_rest x) = rv /\ c_out (getc s cid) = ov /\
                       (c_opened (getc s cid) = true \/ c_udp (getc s cid) = true))
  | OXFalse => False
  end.

Definition sp_of (xa : oxa) : option Z := match xa with OXP cid _ _ => Some cid | _ => None end.

(* what is known of a connection whose callback is in progress: a datagram identity (never
   opened), or a connection that stays open until its close is announced *)
Definition hsem (b : bool) (x : outst) (s : lstate) (c : Z) : Prop :=
  if b then c_udp (getc s c) = true /\ c_opened (getc s c) = false
  else olive x c -> c_opened (getc s c) = true \/ c_udp (getc s c) = true.

Lemma hsem_same : forall b x x' s s' c,
  c_opened (getc s' c) = c_opened (getc s c) -> c_udp (getc s' c) = c_udp (getc s c) ->
  (olive x' c -> olive x c) -> hsem b x s c -> hsem b x' s' c.
Proof. intros b x x' s s' c Ho Hu Hl. unfold hsem. rewrite Ho, Hu. destruct b; auto. Qed.

(* W: connections inside el_close; hs: connections whose callback is in progress *)
Record ROut (W : list Z) (hs : list (Z * bool)) (xa : oxa) (u : unit) (x : outst) (s : lstate) : Prop := mkROut {
  ro_rest : forall cid, olive x cid -> sp_of xa <> Some cid ->
      getd [] cid (o_rest x) = c_out (getc s cid);
  ro_opn : forall cid, c_opened (getc s cid) = true -> cid < l_next s;
  ro_task : forall cid cb, In (TRegister cid cb) (tasks s) ->
      cid < l_next s /\ c_udp (getc s cid) && c_remote (getc s cid) = false;
  ro_fresh : forall cid, l_next s <= cid -> c_out (getc s cid) = [];
  ro_reg : forall cid, c_opened (getc s cid) = true ->
      alookup (c_fd (getc s cid)) (l_reg s) = Some cid \/
      (alookup (c_fd (getc s cid)) (l_reg s) = None /\ In cid W);
  ro_reglt : forall fd cid, alookup fd (l_reg s) = Some cid -> cid < l_next s;
  ro_nop : forall cid, olive x cid -> c_opened (getc s cid) = false -> c_udp (getc s cid) = false ->
      c_out (getc s cid) = [];
  ro_W : forall cid, In cid W -> zmem cid (o_closed x) = true;
  ro_hs : forall cid b, In (cid, b) hs -> cid < l_next s /\ hsem b x s cid;
  ro_x : oxsem xa x s;
  ro_ur : forall cid, c_opened (getc s cid) = true -> c_udp (getc s cid) && c_remote (getc s cid) = false;
  ro_regop : forall fd cid, alookup fd (l_reg s) = Some cid -> olive x cid ->
      c_opened (getc s cid) = true \/ xa = OXRegd cid
}.

Lemma out_step_in : forall x l, out_step x (EIn l) = Some x.
Proof. reflexivity. Qed.

Lemma ROut_in_ign : forall W hs xa, in_ign ustep out_step (fun _ => True) (ROut W hs xa).
Proof. intros W hs xa h x s l h' x' _ HR E1 E2. inversion E1. rewrite out_step_in in E2. inversion E2. subst. exact HR. Qed.

Lemma ROut_frame : forall W hs xa u x s s',
  ROut W hs xa u x s ->
  (forall cid, getc s' cid = getc s cid) -> l_reg s' = l_reg s -> l_next s' = l_next s ->
  (forall cid cb, In (TRegister cid cb) (tasks s') -> In (TRegister cid cb) (tasks s)) ->
  ROut W hs xa u x s'.
Proof.
  intros W hs xa u x s s' [R1 R2 R3 R4 R5 R6 R7 R8 R9 R10 R11 R12] Hc Hr Hn Ht.
  constructor; intros; rewrite ?Hc, ?Hr, ?Hn in *; eauto.
  - match goal with Hin : In _ hs |- _ => destruct (R9 _ _ Hin) as [A B] end. split; [exact A|].
    eapply hsem_same; [| | |exact B]; auto; rewrite Hc; reflexivity.
  - destruct xa; cbn [oxsem] in *; rewrite ?Hc, ?Hr, ?Hn; auto.
Qed.

Lemma ROut_enq : forall W hs xa, enq_ok (ROut W hs xa).
Proof.
  intros W hs xa h x s b t HR Ht. eapply ROut_frame; [exact HR| | | |].
  - intros. apply getc_enqueue.
  - apply l_reg_enqueue.
  - apply l_next_enqueue.
  - intros cid cb Hin. apply tasks_enqueue in Hin. destruct Hin as [E|Hin]; [subst t; cbn in Ht; discriminate Ht|exact Hin].
Qed.

Lemma ROut_flag : forall W hs xa, flag_ok (ROut W hs xa).
Proof. intros W hs xa h x s f HR. eapply ROut_frame; [exact HR| | | |]; auto. Qed.

(* a fresh connection at l_next *)
Lemma ROut_fresh : forall W hs xa u x s c,
  ROut W hs xa u x s -> c_opened c = false -> c_out c = [] ->
  ROut W hs xa u x (set_next (setc s (l_next s) c) (l_next s + 1)).
Proof.
  intros W hs xa u x s c [R1 R2 R3 R4 R5 R6 R7 R8 R9 R10 R11 R12] Ho Hout.
  constructor; cbn [set_next setc l_next l_reg].
  - intros cid L Hsp. rewrite getc_set_next, getc_setc.
    destruct (Z.eqb_spec cid (l_next s)) as [->|N]; [|auto].
    rewrite Hout. rewrite R1 by assumption. apply R4. lia.
  - intros cid. rewrite getc_set_next, getc_setc.
    destruct (Z.eqb_spec cid (l_next s)) as [->|N]; [lia|]. intros H. apply R2 in H. lia.
  - intros cid cb H. destruct (R3 _ _ H) as [A B]. rewrite getc_set_next, getc_setc.
    destruct (Z.eqb_spec cid (l_next s)) as [->|N]; [lia|]. split; [lia|exact B].
  - intros cid H. rewrite getc_set_next, getc_setc.
    destruct (Z.eqb_spec cid (l_next s)) as [->|N]; [exact Hout|]. apply R4. lia.
  - intros cid. rewrite getc_set_next, getc_setc.
    destruct (Z.eqb_spec cid (l_next s)) as [->|N]; [congruence|]. auto.
  - intros fd cid H. apply R6 in H. lia.
  - intros cid. rewrite getc_set_next, getc_setc. destruct (Z.eqb_spec cid (l_next s)) as [->|N]; auto.
  - exact R8.
  - intros cid b Hin. destruct (R9 _ _ Hin) as [A B]. split; [lia|].
    eapply hsem_same; [| | |exact B]; auto; rewrite getc_set_next, getc_setc;
      destruct (Z.eqb_spec cid (l_next s)) as [->|N]; try lia; reflexivity.
  - destruct xa as [|cid|cid fd|cid|cid|cid|cid rv ov|]; cbn [oxsem] in *; cbn [set_next setc l_next l_reg];
      rewrite ?getc_set_next, ?getc_setc; auto.
    + destruct (Z.eqb_spec cid (l_next s)) as [->|N]; [|exact R10]. apply R2 in R10. lia.
    + destruct R10 as (A & B & C & D). destruct (Z.eqb_spec cid (l_next s)) as [->|N]; [lia|]. repeat split; auto. lia.
    + destruct R10 as (A & B). destruct (Z.eqb_spec cid (l_next s)) as [->|N]; [lia|]. split; [lia|exact B].
    + destruct R10 as (A & B). destruct (Z.eqb_spec cid (l_next s)) as [->|N]; [lia|]. split; [lia|exact B].
    + destruct R10 as (A & B). destruct (Z.eqb_spec cid (l_next s)) as [->|N]; [lia|]. split; [lia|exact B].
    + destruct R10 as (A & B). destruct (Z.eqb_spec cid (l_next s)) as [->|N]; [lia|]. split; [lia|exact B].
  - intros cid. rewrite getc_set_next, getc_setc. destruct (Z.eqb_spec cid (l_next s)) as [->|N]; [congruence|auto].
  - intros fd cid H L. rewrite getc_set_next, getc_setc.
    destruct (Z.eqb_spec cid (l_next s)) as [->|N]; [apply R6 in H; lia|eauto].
Qed.

Lemma ROut_pull_ok : forall W hs xa, pull_ok ustep out_step (ROut W hs xa).
Proof.
  intros W hs xa. split.
  - intros. rewrite out_step_in. discriminate.
  - intros h x s l s' h' x' HR Ea _ Es. rewrite out_step_in in Es. inversion Es; subst x'.
    destruct h, h'.
    apply apply_async_cases in Ea. destruct Ea as [(b & t & Ht & ->)|(b & c & cb & Hc & ->)].
    + apply ROut_flag. apply ROut_enq; assumption.
    + destruct Hc as (Ho & _ & Hout & _ & Hur).
      pose proof (ROut_fresh _ _ _ _ _ _ c HR Ho Hout) as HF.
      destruct HF as [R1 R2 R3 R4 R5 R6 R7 R8 R9 R10 R11 R12].
      constructor; intros; rewrite ?getc_set_flag, ?getc_enqueue in *; cbn [set_flag set_queues l_reg l_next] in *;
        rewrite ?l_reg_enqueue, ?l_next_enqueue in *; eauto.
      * rewrite tasks_set_flag in H. apply tasks_enqueue in H. destruct H as [H|H].
        { inversion H; subst. cbn [set_next l_next]. split; [lia|]. rewrite getc_set_next, getc_setc, Z.eqb_refl. exact Hur. }
        { apply R3 in H. exact H. }
      * destruct (R9 _ _ H) as [A B]. split; [exact A|].
        eapply hsem_same; [| | |exact B]; auto; rewrite getc_set_flag, getc_enqueue; reflexivity.
      * destruct xa; cbn [oxsem] in *; rewrite ?getc_set_flag, ?getc_enqueue; cbn [set_flag set_queues l_reg l_next];
          rewrite ?l_reg_enqueue, ?l_next_enqueue; auto.
Qed.

(* ------------------------------------------------------------------ *)
(* primitives *)

Notation RO W hs := (ROut W hs OXNone).

Ltac oign := split; [reflexivity | intros ? ?; split; reflexivity].

Lemma O_emit : forall W hs xa l w, out_ign ustep out_step l ->
  OINV (ROut W hs xa) w -> OINV (ROut W hs xa) (emit l w).
Proof. intros. apply Inv_emit_ign; assumption. Qed.

Lemma O_pull : forall W hs xa picks w o w',
  OINV (ROut W hs xa) w -> pull_gen picks w = (o, w') -> OINV (ROut W hs xa) w'.
Proof. intros. eapply Inv_pull_ign; eauto using ROut_pull_ok, ROut_in_ign. Qed.

Lemma O_sys : forall W hs xa name args w k w',
  OINV (ROut W hs xa) w -> sys name args w = (k, w') -> OINV (ROut W hs xa) w'.
Proof.
  intros. eapply (Inv_sys ustep out_step tt _ (fun _ => True)); eauto using ROut_pull_ok, ROut_in_ign. oign.
Qed.

Lemma O_epctl : forall W hs xa op fd rw et w r w',
  OINV (ROut W hs xa) w -> epctl op fd rw et w = (r, w') -> OINV (ROut W hs xa) w'.
Proof.
  intros. eapply (Inv_epctl ustep out_step tt _ (fun _ => True)); eauto using ROut_pull_ok, ROut_in_ign. oign.
Qed.

Lemma O_trigger : forall W hs xa b t w r w', is_reg_task t = false ->
  OINV (ROut W hs xa) w -> trigger b t w = (r, w') -> OINV (ROut W hs xa) w'.
Proof.
  intros. eapply (Inv_trigger ustep out_step tt _ (fun _ => True));
    eauto using ROut_pull_ok, ROut_in_ign, ROut_enq, ROut_flag; intros; oign.
Qed.

Lemma O_efd_write : forall W hs xa fuel w r w',
  OINV (ROut W hs xa) w -> efd_write fuel w = (r, w') -> OINV (ROut W hs xa) w'.
Proof.
  intros. eapply (Inv_efd_write ustep out_step tt _ (fun _ => True));
    eauto using ROut_pull_ok, ROut_in_ign; intros; oign.
Qed.

Lemma O_desync : forall R R' what w, OINV R w -> OINV R' (desync what w).
Proof. intros. apply Inv_dead. eapply Inv_desync. eassumption. Qed.

Lemma O_dead : forall R w, OINV RF w -> OINV R w.
Proof. intros. apply Inv_dead. assumption. Qed.

Ltac dsync := eapply O_desync; eassumption.

(* one connection changes; its c_out, opened, udp and fd do not, or it is skipped *)
Lemma ROut_setc : forall W hs xa u x s cid c',
  ROut W hs xa u x s ->
  c_fd c' = c_fd (getc s cid) -> c_opened c' = c_opened (getc s cid) -> c_udp c' = c_udp (getc s cid) ->
  c_remote c' = c_remote (getc s cid) ->
  c_out c' = c_out (getc s cid) ->
  ROut W hs xa u x (setc s cid c').
Proof.
  intros W hs xa u x s cid c' [R1 R2 R3 R4 R5 R6 R7 R8 R9 R10 R11 R12] Hf Ho Hu Hre Hout.
  constructor; cbn [setc l_next l_reg].
  - intros cid0 L Hsp. rewrite getc_setc. destruct (Z.eqb_spec cid0 cid) as [->|N]; [|auto]. rewrite Hout. auto.
  - intros cid0. rewrite getc_setc. destruct (Z.eqb_spec cid0 cid) as [->|N]; [|auto]. rewrite Ho. auto.
  - intros c cb H. destruct (R3 _ _ H) as [A B]. split; [exact A|]. rewrite getc_setc.
    destruct (Z.eqb_spec c cid) as [->|N]; [rewrite Hu, Hre|]; exact B.
  - intros cid0 H. rewrite getc_setc. destruct (Z.eqb_spec cid0 cid) as [->|N]; [|auto]. rewrite Hout. auto.
  - intros cid0. rewrite getc_setc. destruct (Z.eqb_spec cid0 cid) as [->|N]; [|auto]. rewrite Ho, Hf. auto.
  - exact R6.
  - intros cid0 L. rewrite getc_setc. destruct (Z.eqb_spec cid0 cid) as [->|N]; [|auto]. rewrite Ho, Hu, Hout. auto.
  - exact R8.
  - intros cid0 b Hin. destruct (R9 _ _ Hin) as [A B]. split; [exact A|].
    eapply hsem_same; [| | |exact B]; auto; rewrite getc_setc; destruct (Z.eqb_spec cid0 cid) as [->|N]; auto.
  - destruct xa as [|c0|c0 fd|c0|c0|c0|c0 rv ov|]; cbn [oxsem] in *; cbn [setc l_next l_reg]; rewrite ?getc_setc; auto;
      destruct (Z.eqb_spec c0 cid) as [->|N]; rewrite ?Ho, ?Hf, ?Hu, ?Hre, ?Hout; auto.
  - intros c. rewrite getc_setc. destruct (Z.eqb_spec c cid) as [->|N]; [|auto]. rewrite Ho, Hu, Hre. auto.
  - intros fd c H L. rewrite getc_setc. destruct (Z.eqb_spec c cid) as [->|N]; [|eauto]. rewrite Ho. eauto.
Qed.

Lemma O_wsetc_same : forall W hs xa w cid c',
  c_fd c' = c_fd (wc w cid) -> c_opened c' = c_opened (wc w cid) -> c_udp c' = c_udp (wc w cid) ->
  c_remote c' = c_remote (wc w cid) ->
  c_out c' = c_out (wc w cid) ->
  OINV (ROut W hs xa) w -> OINV (ROut W hs xa) (wsetc w cid c').
Proof.
  intros W hs xa w cid c' Hf Ho Hu Hre Hout HI. eapply Inv_wsetc; [exact HI|].
  intros [] x _ HR. apply ROut_setc; auto.
Qed.

(* handler-visible values: only OutboundBuffered is checked *)
Lemma O_hr_other : forall W hs xa call cid vals w, call <> "outbuf" ->
  OINV (ROut W hs xa) w -> OINV (ROut W hs xa) (emit (obs "hr" (AInt cid :: ASym call :: vals)) w).
Proof.
  intros W hs xa call cid vals w Hc HI. apply O_emit; [|exact HI].
  split; [reflexivity|]. intros h x. split; [reflexivity|].
  cbn [out_step obs]. destruct vals as [|[v|?|?] [|]]; try reflexivity.
  all: crack_goal ltac:(first [reflexivity|congruence]).
Qed.

Lemma O_hr_outbuf : forall W hs cid w,
  OINV (RO W hs) w ->
  OINV (RO W hs) (emit (obs "hr" [AInt cid; ASym "outbuf"; AInt (zlen (c_out (wc w cid)))]) w).
Proof.
  intros W hs cid w HI. eapply Inv_emit; [exact HI|reflexivity|].
  intros [] x _ HR. cbn [ustep]. exists x. split; [|exact HR]. unfold wc. cbn [out_step obs].
  destruct (zmem cid (o_closed x)) eqn:Ez; [reflexivity|].
  rewrite (ro_rest _ _ _ _ _ _ HR cid Ez) by discriminate. rewrite Z.eqb_refl. reflexivity.
Qed.

(* ------------------------------------------------------------------ *)
(* sys_wr: the kernel takes a front of what is pending *)

Lemma zmem_cons : forall x y l, zmem x (y :: l) = (x =? y) || zmem x l.
Proof. reflexivity. Qed.

Lemma ztake_ztake : forall A n m (l : list A), n <= m -> ztake n (ztake m l) = ztake n l.
Proof. intros. unfold ztake. rewrite firstn_firstn. f_equal. lia. Qed.

(* more connections skipped: harmless *)
Lemma ROut_skip : forall W hs xa u x s cid,
  ROut W hs xa u x s -> ROut W hs OXNone u (mkOut (o_rest x) (cid :: o_closed x)) s
  \/ True.
Proof. auto. Qed.

Lemma ROut_fail : forall W hs cid rv ov u x s,
  ROut W hs (OXP cid rv ov) u x s -> ROut W hs OXNone u (mkOut (o_rest x) (cid :: o_closed x)) s.
Proof.
  intros W hs cid rv ov u x s [R1 R2 R3 R4 R5 R6 R7 R8 R9 R10 R11 R12].
  assert (Hl : forall c, olive (mkOut (o_rest x) (cid :: o_closed x)) c -> c <> cid /\ olive x c).
  { unfold olive. cbn [o_closed]. intros c L. rewrite zmem_cons in L. apply orb_false_elim in L.
    destruct L as [A B]. split; [lia|exact B]. }
  constructor; cbn [o_rest sp_of]; auto.
  - intros c L _. destruct (Hl _ L) as [N L']. apply R1; [exact L'|]. cbn [sp_of]. congruence.
  - intros c L. destruct (Hl _ L) as [N L']. auto.
  - intros c Hin. cbn [o_closed]. rewrite zmem_cons, (R8 _ Hin). apply orb_true_r.
  - intros c b Hin. destruct (R9 _ _ Hin) as (A & B). split; [exact A|].
    eapply hsem_same; [| | |exact B]; auto. intros L. apply (Hl _ L).
  - exact I.
  - intros fd c H L. destruct (Hl _ L) as [_ L']. destruct (R12 _ _ H L') as [Hop|Hx]; [left; exact Hop|discriminate Hx].
Qed.

Lemma ROut_hand : forall W hs cid rv ov u x s r',
  ROut W hs (OXP cid rv ov) u x s ->
  ROut W hs (OXP cid r' ov) u (mkOut (aset cid r' (o_rest x)) (o_closed x)) s.
Proof.
  intros W hs cid rv ov u x s r' [R1 R2 R3 R4 R5 R6 R7 R8 R9 R10 R11 R12].
  constructor; unfold olive in *; cbn [o_rest o_closed sp_of] in *; auto.
  - intros c L Hsp. rewrite getd_aset. destruct (Z.eqb_spec c cid) as [->|N]; [congruence|]. auto.
  - cbn [oxsem] in *. unfold olive. cbn [o_rest o_closed]. destruct R10 as (A & B). split; [exact A|].
    intros L. destruct (B L) as (B1 & B2 & B3). rewrite getd_aset, Z.eqb_refl. auto.
  - intros fd c H L. destruct (R12 _ _ H L) as [Hop|Hx]; [left; exact Hop|discriminate Hx].
Qed.

Lemma O_sys_wr : forall W hs cid fd src exact rv ov tail w k w',
  rv = src ++ tail ->
  OINV (ROut W hs (OXP cid rv ov)) w -> sys_wr cid fd src exact w = (k, w') ->
  match k with
  | KOk n _ => 0 <= n /\ OINV (ROut W hs (OXP cid (zdrop n rv) ov)) w'
  | KErr e => if is_eagain e then OINV (ROut W hs (OXP cid rv ov)) w' else OINV (RO W hs) w'
  | KNone => OINV RF w'
  end.
Proof.
  intros W hs cid fd src exact rv ov tail w k w' Hrv HI E. rewrite sys_wr_eq in E.
  assert (HI0 : OINV (ROut W hs (OXP cid rv ov)) (emit (obs "sys" [ASym "wr"; AInt fd]) w))
    by (apply O_emit; [oign|exact HI]).
  destruct (pull _) as [[[nm0 args]|] w1] eqn:Ep.
  2:{ inversion E; subst.
      pose proof (Inv_pull ustep out_step tt _ _ _ _ _ (ROut_pull_ok _ _ _) HI0 Ep) as HA. exact HA. }
  pose proof (O_pull _ _ _ _ _ _ _ HI0 Ep) as H1.
  destruct (String.eqb nm0 "r"); [|inversion E; subst; eapply Inv_desync; exact H1].
  destruct args as [|[?|?|nm] [|[off|?|?] [|[n|?|?] rest]]];
    try (inversion E; subst; eapply Inv_desync; exact H1).
  destruct (negb (sym_eqb nm "wr")); [inversion E; subst; eapply Inv_desync; exact H1|].
  destruct ((off <? 0) || (zlen src <? off) || (off <? n)) eqn:Ec;
    [inversion E; subst; eapply Inv_desync; exact H1|].
  cbv zeta in E.
  set (offered := if exact then src else ztake off src) in E.
  assert (H2 : OINV (ROut W hs (OXP cid rv ov)) (emit (obs "wdata" [ABytes offered]) w1))
    by (apply O_emit; [oign|exact H1]).
  assert (Hfail : OINV (RO W hs) (ghost "fail" cid [] (emit (obs "wdata" [ABytes offered]) w1))).
  { unfold ghost. eapply Inv_emit; [exact H2|reflexivity|].
    intros [] x _ HR. cbn [ustep]. cbn [out_step]. eexists. split; [reflexivity|]. eapply ROut_fail. exact HR. }
  destruct (n <? 0) eqn:En.
  - destruct rest as [|[?|?|e] ?]; inversion E; subst; try exact Hfail.
    destruct (is_eagain e); [apply O_emit; [oign|exact H2]|exact Hfail].
  - inversion E; subst. split; [lia|].
    assert (Hb : ztake n offered = ztake n src).
    { subst offered. destruct exact; [reflexivity|]. apply ztake_ztake. lia. }
    rewrite Hb. unfold ghost. eapply Inv_emit; [exact H2|reflexivity|].
    intros [] x _ HR. cbn [ustep]. cbn [out_step].
    destruct (zmem cid (o_closed x)) eqn:Ez.
    + exists x. split; [reflexivity|].
      destruct HR as [R1 R2 R3 R4 R5 R6 R7 R8 R9 R10 R11 R12]. constructor; auto.
      * cbn [oxsem] in *. unfold olive. split; [tauto|congruence].
      * intros fd0 c H L. destruct (R12 _ _ H L) as [Hop|Hx]; [left; exact Hop|discriminate Hx].
    + destruct (ro_x _ _ _ _ _ _ HR) as (A & BC). destruct (BC Ez) as (B & C & D). rewrite B.
      assert (Hp : ztake n src = ztake n (src ++ tail)).
      { rewrite ztake_app. rewrite (ztake_neg _ (n - zlen src)) by lia. rewrite app_nil_r. reflexivity. }
      assert (Hpre : is_prefix (ztake n src) (src ++ tail) = true) by (rewrite Hp; apply is_prefix_ztake).
      rewrite Hpre.
      eexists. split; [reflexivity|].
      replace (zlen (ztake n src)) with n by (rewrite zlen_ztake; lia).
      eapply ROut_hand. exact HR.
Qed.

(* ------------------------------------------------------------------ *)
(* entering and leaving a write *)

Lemma ROut_pend_enter : forall W hs u x s cid,
  ROut W hs OXNone u x s -> cid < l_next s ->
  (olive x cid -> c_opened (getc s cid) = true \/ c_udp (getc s cid) = true) ->
  ROut W hs (OXP cid (c_out (getc s cid)) (c_out (getc s cid))) u x s.
Proof.
  intros W hs u x s cid [R1 R2 R3 R4 R5 R6 R7 R8 R9 R10 R11 R12] Hlt Hop. constructor; auto.
  - intros c L _. apply R1; [exact L|discriminate].
  - cbn [oxsem]. split; [exact Hlt|]. intros L. repeat split; auto. apply R1; [exact L|discriminate].
  - intros fd0 c0 H0 L0. destruct (R12 _ _ H0 L0) as [Hop0|Hx0]; [left; exact Hop0|discriminate Hx0].
Qed.

Lemma ROut_pend_leave : forall W hs cid rv u x s,
  ROut W hs (OXP cid rv rv) u x s -> ROut W hs OXNone u x s.
Proof.
  intros W hs cid rv u x s [R1 R2 R3 R4 R5 R6 R7 R8 R9 R10 R11 R12]. constructor; auto.
  - intros c L _. destruct (Z.eq_dec c cid) as [->|N].
    + destruct R10 as (A & B). destruct (B L) as (B1 & B2 & B3). congruence.
    + apply R1; [exact L|]. cbn [sp_of]. congruence.
  - exact I.
  - intros fd0 c0 H0 L0. destruct (R12 _ _ H0 L0) as [Hop0|Hx0]; [left; exact Hop0|discriminate Hx0].
Qed.

Lemma ROut_pend_set : forall W hs cid rv ov u x s c',
  ROut W hs (OXP cid rv ov) u x s ->
  c_fd c' = c_fd (getc s cid) -> c_opened c' = c_opened (getc s cid) -> c_udp c' = c_udp (getc s cid) ->
  c_remote c' = c_remote (getc s cid) ->
  (c_out (getc s cid) = ov -> c_out c' = rv) ->
  ROut W hs OXNone u x (setc s cid c').
Proof.
  intros W hs cid rv ov u x s c' [R1 R2 R3 R4 R5 R6 R7 R8 R9 R10 R11 R12] Hf Ho Hu Hre Hout.
  destruct R10 as (A & B).
  constructor; cbn [setc l_next l_reg sp_of].
  - intros c L _. rewrite getc_setc. destruct (Z.eqb_spec c cid) as [->|N].
    + destruct (B L) as (B1 & B2 & B3). rewrite (Hout B2). exact B1.
    + apply R1; [exact L|]. cbn [sp_of]. congruence.
  - intros c. rewrite getc_setc. destruct (Z.eqb_spec c cid) as [->|N]; [|auto]. rewrite Ho. auto.
  - intros c cb H. destruct (R3 _ _ H) as [A0 B0]. split; [exact A0|]. rewrite getc_setc.
    destruct (Z.eqb_spec c cid) as [->|N]; [rewrite Hu, Hre|]; exact B0.
  - intros c H. rewrite getc_setc. destruct (Z.eqb_spec c cid) as [->|N]; [lia|auto].
  - intros c. rewrite getc_setc. destruct (Z.eqb_spec c cid) as [->|N]; [|auto]. rewrite Ho, Hf. auto.
  - exact R6.
  - intros c L. rewrite getc_setc. destruct (Z.eqb_spec c cid) as [->|N]; [|auto].
    rewrite Ho, Hu. intros E1 E2. destruct (B L) as (_ & _ & [B3|B3]); congruence.
  - exact R8.
  - intros c b Hin. destruct (R9 _ _ Hin) as [A0 B0]. split; [exact A0|].
    eapply hsem_same; [| | |exact B0]; auto; rewrite getc_setc; destruct (Z.eqb_spec c cid) as [->|N]; auto.
  - exact I.
  - intros c. rewrite getc_setc. destruct (Z.eqb_spec c cid) as [->|N]; [|auto]. rewrite Ho, Hu, Hre. auto.
  - intros fd c H L. rewrite getc_setc. destruct (R12 _ _ H L) as [Hop|Hx]; [|discriminate Hx].
    left. destruct (Z.eqb_spec c cid) as [->|N]; [rewrite Ho|]; exact Hop.
Qed.

(* a submission: `g sub` *)
Lemma ROut_sub : forall W hs u x s cid d,
  ROut W hs OXNone u x s -> cid < l_next s ->
  (olive x cid -> c_opened (getc s cid) = true \/ c_udp (getc s cid) = true) ->
  ROut W hs (OXP cid (c_out (getc s cid) ++ d) (c_out (getc s cid))) u
       (mkOut (aset cid (getd [] cid (o_rest x) ++ d) (o_rest x)) (o_closed x)) s.
Proof.
  intros W hs u x s cid d HR Hlt Hop.
  pose proof (ROut_pend_enter _ _ _ _ _ cid HR Hlt Hop) as HP.
  pose proof (ROut_hand _ _ _ _ _ _ _ _ (c_out (getc s cid) ++ d) HP) as HH.
  destruct HR as [R1 _ _ _ _ _ _ _ _ _ _ _].
  destruct HH as [H1 H2 H3 H4 H5 H6 H7 H8 H9 H10 H11 H12]. constructor; auto.
  - intros c L Hsp. unfold olive in *. cbn [o_rest o_closed sp_of] in *. rewrite getd_aset.
    destruct (Z.eqb_spec c cid) as [->|N]; [congruence|]. apply R1; [exact L|discriminate].
  - cbn [oxsem] in *. unfold olive in *. cbn [o_rest o_closed] in *. destruct H10 as (A & B). split; [exact A|].
    intros L. destruct (B L) as (B1 & B2 & B3). rewrite getd_aset, Z.eqb_refl. repeat split; auto.
    f_equal. apply R1; [exact L|discriminate].
Qed.

Lemma O_sub : forall W hs cid d w,
  (forall u x, ROut W hs OXNone u x (st w) -> cid < l_next (st w) /\
      (olive x cid -> c_opened (wc w cid) = true \/ c_udp (wc w cid) = true)) ->
  OINV (RO W hs) w ->
  OINV (ROut W hs (OXP cid (c_out (wc w cid) ++ d) (c_out (wc w cid)))) (ghost "sub" cid d w).
Proof.
  intros W hs cid d w Hp HI. unfold ghost. eapply Inv_emit; [exact HI|reflexivity|].
  intros [] x _ HR. cbn [ustep]. cbn [out_step]. eexists. split; [reflexivity|].
  destruct (Hp _ _ HR) as [A B]. unfold wc in *. apply ROut_sub; auto.
Qed.

Lemma O_pend_set : forall W hs cid rv ov w c',
  c_fd c' = c_fd (wc w cid) -> c_opened c' = c_opened (wc w cid) -> c_udp c' = c_udp (wc w cid) ->
  c_remote c' = c_remote (wc w cid) ->
  (c_out (wc w cid) = ov -> c_out c' = rv) ->
  OINV (ROut W hs (OXP cid rv ov)) w -> OINV (RO W hs) (wsetc w cid c').
Proof.
  intros W hs cid rv ov w c' Hf Ho Hu Hre Hout HI. eapply Inv_wsetc; [exact HI|].
  intros [] x _ HR. eapply ROut_pend_set; eauto.
Qed.

Lemma O_pend_leave : forall W hs cid rv w,
  OINV (ROut W hs (OXP cid rv rv)) w -> OINV (RO W hs) w.
Proof. intros. eapply Inv_weaken; [|eassumption]. intros [] x _ HR. eapply ROut_pend_leave; eauto. Qed.

Lemma O_pend_enter : forall W hs cid w,
  (forall u x, ROut W hs OXNone u x (st w) -> cid < l_next (st w) /\
      (olive x cid -> c_opened (wc w cid) = true \/ c_udp (wc w cid) = true)) ->
  OINV (RO W hs) w -> OINV (ROut W hs (OXP cid (c_out (wc w cid)) (c_out (wc w cid)))) w.
Proof.
  intros W hs cid w Hp HI. eapply Inv_weaken; [|exact HI]. intros [] x _ HR.
  destruct (Hp _ _ HR) as [A B]. unfold wc in *. apply ROut_pend_enter; auto.
Qed.

(* the slice arithmetic of writev *)
Lemma concat_drop_sent : forall segs n, 0 <= n -> List.concat (drop_sent n segs) = zdrop n (List.concat segs).
Proof.
  induction segs as [|s r IH]; intros n Hn; cbn [drop_sent List.concat].
  - rewrite zdrop_nil. reflexivity.
  - pose proof (zlen_nonneg _ s). rewrite zdrop_app. destruct (n <? zlen s) eqn:E.
    + cbn [List.concat]. rewrite (zdrop_neg _ (n - zlen s)) by lia. reflexivity.
    + rewrite IH by lia. rewrite (zdrop_all _ n s) by lia. reflexivity.
Qed.

Lemma concat_firstn_prefix : forall (segs : list (list Z)) k,
  exists tail, List.concat segs = List.concat (firstn k segs) ++ tail.
Proof.
  intros segs k. exists (List.concat (skipn k segs)).
  rewrite <- concat_app, firstn_skipn. reflexivity.
Qed.

(* ------------------------------------------------------------------ *)
(* the mutually recursive procedures *)

Record MBO (f : nat) : Prop := mkMBO {
  mo_close : forall cid e w r w' W hs, OINV (RO W hs) w -> el_close f cid e w = (r, w') -> OINV (RO W hs) w';
  mo_drain : forall cid b w W hs, In (cid, b) hs -> OINV (RO W hs) w -> OINV (RO W hs) (close_drain f cid w);
  mo_write : forall cid d w r w' W hs, OINV (RO W hs) w -> conn_write f cid d w = (r, w') -> OINV (RO W hs) w';
  mo_wloop : forall cid d n w r w' W hs, OINV (ROut W hs (OXP cid d [])) w ->
      conn_write_loop f cid d n w = (r, w') -> OINV (RO W hs) w';
  mo_wvloop : forall cid sg n w r w' W hs, OINV (ROut W hs (OXP cid (List.concat sg) [])) w ->
      conn_writev_loop f cid sg n w = (r, w') -> OINV (RO W hs) w';
  mo_writev : forall cid sg w r w' W hs, OINV (RO W hs) w -> conn_writev f cid sg w = (r, w') -> OINV (RO W hs) w';
  mo_elwrite : forall cid sent w r w' W hs, OINV (RO W hs) w -> el_write f cid sent w = (r, w') -> OINV (RO W hs) w';
  mo_handler : forall cid b w r w' W hs, In (cid, b) hs -> OINV (RO W hs) w -> handler f cid w = (r, w') -> OINV (RO W hs) w';
  mo_hcall : forall cid b call args w W hs, In (cid, b) hs -> OINV (RO W hs) w -> OINV (RO W hs) (hcall f cid call args w)
}.

Lemma ROut_hs_weaken : forall W hs hs' xa u x s,
  (forall c, In c hs' -> In c hs) -> ROut W hs xa u x s -> ROut W hs' xa u x s.
Proof. intros W hs hs' xa u x s Hsub [R1 R2 R3 R4 R5 R6 R7 R8 R9 R10 R11 R12]. constructor; auto. Qed.

Lemma O_hs_weaken : forall W hs hs' xa w,
  (forall c, In c hs' -> In c hs) -> OINV (ROut W hs xa) w -> OINV (ROut W hs' xa) w.
Proof. intros. eapply Inv_weaken; [|eassumption]. intros [] x _ HR. eapply ROut_hs_weaken; eauto. Qed.

Lemma O_hs_add : forall W hs t w, c_opened (wc w t) = true ->
  OINV (RO W hs) w -> OINV (RO W ((t, false) :: hs)) w.
Proof.
  intros W hs t w Ho HI. eapply Inv_weaken; [|exact HI]. intros [] x _ HR.
  destruct HR as [R1 R2 R3 R4 R5 R6 R7 R8 R9 R10 R11 R12]. constructor; auto.
  intros c b [E|Hin]; [inversion E; subst|eauto]. unfold wc in *. split; [auto|]. intros _. left. exact Ho.
Qed.

Lemma ROut_close : forall W hs u x s cid e,
  ROut W hs OXNone u x s ->
  c_opened (getc s cid) = true -> alookup (c_fd (getc s cid)) (l_reg s) <> None ->
  exists x', out_step x (EOut (obs "cb" [ASym "close"; AInt cid; e])) = Some x' /\
  ROut (cid :: W) ((cid, false) :: hs) OXNone u x' (set_reg s (aremove (c_fd (getc s cid)) (l_reg s))).
Proof.
  intros W hs u x s cid e [R1 R2 R3 R4 R5 R6 R7 R8 R9 R10 R11 R12] Ho Hr.
  eexists. split; [reflexivity|].
  assert (Hl : forall c, olive (mkOut (o_rest x) (cid :: o_closed x)) c -> c <> cid /\ olive x c).
  { unfold olive. cbn [o_closed]. intros c L. rewrite zmem_cons in L. apply orb_false_elim in L.
    destruct L as [A B]. split; [lia|exact B]. }
  constructor; cbn [set_reg l_reg l_next o_rest sp_of].
  - intros c L _. rewrite getc_set_reg. destruct (Hl _ L) as [_ L']. apply R1; [exact L'|discriminate].
  - intros c. rewrite getc_set_reg. auto.
  - intros c cb H. rewrite getc_set_reg. apply (R3 _ _ H).
  - intros c. rewrite getc_set_reg. auto.
  - intros c. rewrite getc_set_reg. intros Ho0. rewrite alookup_aremove.
    destruct (Z.eqb_spec (c_fd (getc s c)) (c_fd (getc s cid))) as [Ef|Nf].
    + right. split; [reflexivity|].
      destruct (R5 _ Ho0) as [A|[A B]]; [|right; exact B].
      destruct (R5 _ Ho) as [C|[C _]]; [|congruence].
      rewrite Ef in A. rewrite A in C. inversion C. left. reflexivity.
    + destruct (R5 _ Ho0) as [A|[A B]]; [left; exact A|right; split; [exact A|right; exact B]].
  - intros fd c. rewrite alookup_aremove. destruct (fd =? _); [discriminate|]. apply R6.
  - intros c L. rewrite getc_set_reg. destruct (Hl _ L) as [_ L']. auto.
  - intros c [<-|Hin]; cbn [o_closed]; rewrite zmem_cons; [rewrite Z.eqb_refl; reflexivity|].
    rewrite (R8 _ Hin). apply orb_true_r.
  - intros c b Hin. destruct Hin as [E|Hin].
    + inversion E; subst. split; [auto|]. intros L. destruct (Hl _ L) as [N _]. congruence.
    + destruct (R9 _ _ Hin) as (A & B). split; [exact A|].
      eapply hsem_same; [| | |exact B]; auto. intros L. apply (Hl _ L).
  - exact I.
  - intros c. rewrite getc_set_reg. auto.
  - intros fd c. rewrite alookup_aremove, getc_set_reg. destruct (fd =? _); [discriminate|].
    intros H L. destruct (Hl _ L) as [_ L']. destruct (R12 _ _ H L') as [Hop|Hx]; [left; exact Hop|discriminate Hx].
Qed.

Lemma ROut_release : forall W hs u x s cid b0,
  ROut (cid :: W) ((cid, b0) :: hs) OXNone u x s ->
  ROut W hs OXNone u x (setc s cid (c_release (getc s cid))).
Proof.
  intros W hs u x s cid b0 [R1 R2 R3 R4 R5 R6 R7 R8 R9 R10 R11 R12].
  assert (Hc : zmem cid (o_closed x) = true) by (apply R8; left; reflexivity).
  assert (Hlt : cid < l_next s) by (apply (R9 cid b0); left; reflexivity).
  assert (Hud : c_udp (c_release (getc s cid)) = c_udp (getc s cid)) by (unfold c_release; destruct (c_udp (getc s cid)) eqn:Eu; cbn [c_udp]; congruence).
  assert (Hrel : c_opened (c_release (getc s cid)) = false) by (unfold c_release; destruct (c_udp (getc s cid)); reflexivity).
  constructor; unfold olive in *; cbn [setc l_reg l_next sp_of].
  - intros c L Hsp. rewrite getc_setc. destruct (Z.eqb_spec c cid) as [->|N]; [congruence|auto].
  - intros c. rewrite getc_setc. destruct (Z.eqb_spec c cid) as [->|N]; [congruence|auto].
  - intros c cb H. destruct (R3 _ _ H) as [A B]. split; [exact A|]. rewrite getc_setc.
    destruct (Z.eqb_spec c cid) as [->|N]; [|exact B].
    unfold c_release. destruct (c_udp (getc s cid)) eqn:Eu; cbn [c_udp c_remote]; rewrite ?Eu; [exact B|reflexivity].
  - intros c H. rewrite getc_setc. destruct (Z.eqb_spec c cid) as [->|N]; [lia|auto].
  - intros c. rewrite getc_setc. destruct (Z.eqb_spec c cid) as [->|N]; [congruence|].
    intros Ho0. destruct (R5 _ Ho0) as [A|[A [B|B]]]; [left; exact A|congruence|right; auto].
  - exact R6.
  - intros c L. rewrite getc_setc. destruct (Z.eqb_spec c cid) as [->|N]; [congruence|auto].
  - intros c Hin. apply R8. right. exact Hin.
  - intros c b Hin. destruct (R9 c b (or_intror Hin)) as (A & B). split; [exact A|].
    unfold hsem in *. rewrite getc_setc. destruct (Z.eqb_spec c cid) as [->|N]; [|exact B].
    rewrite Hud, Hrel. destruct b; [tauto|intros L; congruence].
  - exact I.
  - intros c. rewrite getc_setc. destruct (Z.eqb_spec c cid) as [->|N]; [congruence|auto].
  - intros fd c H L. rewrite getc_setc. destruct (Z.eqb_spec c cid) as [->|N]; [congruence|eauto].
Qed.

Ltac chain_next :=
  match goal with |- context [if sym_eqb ?c ?lit then _ else _] =>
    let E := fresh "Ec" in destruct (sym_eqb c lit) eqn:E;
    [apply String.eqb_eq in E; subst c|] end.
Ltac hro := apply O_hr_other; [discriminate|].

Lemma hs_facts : forall W hs cid b w, In (cid, b) hs ->
  forall u x, ROut W hs OXNone u x (st w) -> cid < l_next (st w) /\
      (olive x cid -> c_opened (wc w cid) = true \/ c_udp (wc w cid) = true).
Proof.
  intros W hs cid b w Hin u x HR. destruct (ro_hs _ _ _ _ _ _ HR _ _ Hin) as (A & B).
  split; [exact A|]. intros L. unfold wc, hsem in *. destruct b; [right; tauto|auto].
Qed.

Lemma opened_facts : forall W hs cid w, c_opened (wc w cid) = true ->
  forall u x, ROut W hs OXNone u x (st w) -> cid < l_next (st w) /\
      (olive x cid -> c_opened (wc w cid) = true \/ c_udp (wc w cid) = true).
Proof. intros W hs cid w Ho u x HR. split; [exact (ro_opn _ _ _ _ _ _ HR _ Ho)|auto]. Qed.

Lemma hcall_S : forall f, MBO f -> forall cid b call args w W hs, In (cid, b) hs ->
  OINV (RO W hs) w -> OINV (RO W hs) (hcall (S f) cid call args w).
Proof.
  intros f M cid b call args w W hs Hin HI. cbn [hcall].
  chain_next.
  { destruct args as [|[n|?|?] [|]]; try dsync.
    destruct (c_in (wc w cid)); [hro; apply O_wsetc_same; auto|].
    destruct (_ =? n); hro; apply O_wsetc_same; auto. }
  chain_next.
  { destruct args as [|[n|?|?] [|]]; try dsync.
    destruct (n >? _); [hro; exact HI|]. hro; apply O_wsetc_same; auto. }
  chain_next.
  { destruct args as [|[n|?|?] [|]]; try dsync. destruct (n >? _); hro; exact HI. }
  chain_next.
  { destruct args as [|[n|?|?] [|]]; try dsync.
    destruct (_ || _); [hro; apply O_wsetc_same; auto|].
    destruct (c_in (wc w cid)); [hro; apply O_wsetc_same; auto|].
    destruct (n <? _); hro; apply O_wsetc_same; auto. }
  chain_next.
  { (* writeto *)
    destruct (_ || _); [hro; apply O_wsetc_same; auto|].
    destruct (_ <? _); hro; apply O_wsetc_same; auto. }
  chain_next.
  { hro. exact HI. }
  chain_next.
  { apply O_hr_outbuf. exact HI. }
  chain_next.
  { (* write *)
    destruct args as [|[?|d|?] [|]]; try dsync.
    destruct (c_udp (wc w cid)).
    - destruct (_ && _); [hro; exact HI|].
      destruct (sys "sendto" _ w) as [k w1] eqn:Es.
      pose proof (O_sys _ _ _ _ _ _ _ _ HI Es) as H1.
      destruct k; hro; exact H1.
    - destruct (conn_write f cid d w) as [[n ok] w1] eqn:Ew.
      hro. eapply (mo_write _ M); eauto. }
  chain_next.
  { destruct (c_udp (wc w cid)); [hro; exact HI|].
    destruct (conn_writev f cid (segs_of args) w) as [[n ok] w1] eqn:Ew.
    hro. eapply (mo_writev _ M); eauto. }
  chain_next.
  { (* flush *)
    destruct (c_udp (wc w cid)); [hro; exact HI|].
    destruct (negb _); [hro; exact HI|].
    destruct (el_write f cid 0 w) as [r w1] eqn:Ew.
    pose proof (mo_elwrite _ M _ _ _ _ _ _ _ HI Ew) as H1.
    destruct r; try (hro; exact H1).
    destruct (_ && _); [|hro; exact H1].
    destruct (epctl "mod" _ true false w1) as [r2 w2] eqn:Ee.
    hro. eapply O_epctl; eauto. }
  chain_next.
  { (* readfrom *)
    destruct args as [|[?|d|?] [|]]; try dsync.
    hro. eapply O_pend_set; [| | | | |apply O_sub; [apply (hs_facts _ _ _ _ _ Hin)|exact HI]];
      rewrite ?wc_ghost; auto. }
  chain_next.
  { (* asyncwrite *)
    destruct args as [|[?|d|?] [|cb [|]]]; try dsync.
    destruct (c_udp (wc w cid)).
    - set (w0 := if negb (c_remote (wc w cid)) && negb (c_opened (wc w cid)) then _ else w).
      assert (H0 : OINV (RO W hs) w0).
      { subst w0. destruct (_ && _); [apply O_emit; [oign|exact HI]|exact HI]. }
      destruct (sys "sendto" _ w0) as [k w1] eqn:Es.
      pose proof (O_sys _ _ _ _ _ _ _ _ H0 Es) as H1.
      hro. destruct (flag_of cb); [apply O_emit; [oign|exact H1]|exact H1].
    - destruct (trigger false _ w) as [r w1] eqn:Et.
      hro. eapply O_trigger; [|exact HI|exact Et]; reflexivity. }
  chain_next.
  { destruct args as [|cb segs]; try dsync.
    destruct (c_udp (wc w cid)); [hro; exact HI|].
    destruct (trigger false _ w) as [r w1] eqn:Et.
    hro. eapply O_trigger; [|exact HI|exact Et]; reflexivity. }
  chain_next.
  { destruct args as [|cb [|]]; try dsync.
    destruct (trigger true _ w) as [r w1] eqn:Et.
    hro. eapply O_trigger; [|exact HI|exact Et]; reflexivity. }
  chain_next.
  { destruct args as [|cb [|]]; try dsync.
    destruct (trigger true _ w) as [r w1] eqn:Et.
    hro. eapply O_trigger; [|exact HI|exact Et]; reflexivity. }
  chain_next.
  { destruct (el_close f _ true w) as [r w1] eqn:Ecl.
    hro. eapply (mo_close _ M); eauto. }
  chain_next.
  { destruct args as [|[t|?|?] [|[?|?|call'] args']]; try dsync.
    destruct (c_opened (wc w t)) eqn:Eo; [|dsync].
    eapply O_hs_weaken with (hs := (t, false) :: hs); [intros c Hc; right; exact Hc|].
    eapply (mo_hcall _ M); [left; reflexivity|]. apply O_hs_add; assumption. }
  dsync.
Qed.

Lemma el_close_S : forall f, MBO f -> forall cid e w r w' W hs,
  OINV (RO W hs) w -> el_close (S f) cid e w = (r, w') -> OINV (RO W hs) w'.
Proof.
  intros f M cid e w r w' W hs HI E. cbn [el_close] in E.
  destruct (c_opened (wc w cid)) eqn:Eo; cbn [negb orb] in E; [|inversion E; subst; exact HI].
  destruct (alookup (c_fd (wc w cid)) (l_reg (st w))) as [rc|] eqn:Er; [|inversion E; subst; exact HI].
  set (w2 := emit _ (with_st w _)) in E.
  assert (H2 : OINV (RO (cid :: W) ((cid, false) :: hs)) w2).
  { subst w2. eapply Inv_set_emit; [exact HI|reflexivity|].
    intros [] x _ HR. cbn [ustep]. unfold wc in *. apply ROut_close; auto. congruence. }
  clearbody w2.
  destruct (handler f cid w2) as [[act rep] w3] eqn:Eh.
  assert (Hin : In (cid, false) ((cid, false) :: hs)) by (left; reflexivity).
  pose proof (mo_handler _ M _ _ _ _ _ _ _ Hin H2 Eh) as H3.
  pose proof (mo_drain _ M cid _ _ _ _ Hin H3) as H4.
  set (w4 := close_drain f cid w3) in *. clearbody w4.
  assert (H5 : OINV (RO W hs) (wsetc w4 cid (c_release (wc w4 cid)))).
  { eapply Inv_wsetc; [exact H4|]. intros [] x _ HR. eapply ROut_release. exact HR. }
  destruct (epctl "del" _ false false _) as [r0 w6] eqn:E6.
  pose proof (O_epctl _ _ _ _ _ _ _ _ _ _ H5 E6) as H6.
  destruct (sys "close" _ w6) as [k1 w7] eqn:E7.
  pose proof (O_sys _ _ _ _ _ _ _ _ H6 E7) as H7.
  destruct (match r0 with RNil => _ | _ => true end); [inversion E; subst; exact H7|].
  destruct act; [inversion E; subst; exact H7| |inversion E; subst; exact H7].
  eapply (mo_close _ M); eauto.
Qed.

Lemma close_drain_S : forall f, MBO f -> forall cid b w W hs, In (cid, b) hs ->
  OINV (RO W hs) w -> OINV (RO W hs) (close_drain (S f) cid w).
Proof.
  intros f M cid b w W hs Hin HI. cbn [close_drain].
  destruct (c_out (wc w cid)) as [|b0 l0] eqn:Eout; [exact HI|]. rewrite <- Eout.
  pose proof (O_pend_enter _ _ _ _ (hs_facts _ _ _ _ _ Hin) HI) as HP.
  destruct (sys_wr cid _ _ false w) as [k w1] eqn:Es.
  pose proof (O_sys_wr _ _ _ _ _ _ _ _ [] _ _ _ (eq_sym (app_nil_r _)) HP Es) as H1.
  destruct k as [n extra|e|].
  - destruct H1 as [Hn H1]. eapply (mo_drain _ M); [exact Hin|].
    eapply O_pend_set; [| | | | |exact H1]; auto. intros ->. reflexivity.
  - destruct (is_eagain e); [eapply O_pend_leave; exact H1|exact H1].
  - apply O_dead. exact H1.
Qed.

Lemma conn_write_loop_S : forall f, MBO f -> forall cid d n w r w' W hs,
  OINV (ROut W hs (OXP cid d [])) w -> conn_write_loop (S f) cid d n w = (r, w') -> OINV (RO W hs) w'.
Proof.
  intros f M cid d n w r w' W hs HI E. cbn [conn_write_loop] in E.
  destruct (sys_wr cid _ d true w) as [k w1] eqn:Es.
  pose proof (O_sys_wr _ _ _ _ _ _ _ _ [] _ _ _ (eq_sym (app_nil_r _)) HI Es) as H1.
  destruct k as [sent extra|e|].
  - destruct H1 as [Hn H1].
    destruct (zdrop sent d) as [|b0 l0] eqn:Ed; [inversion E; subst; eapply O_pend_leave; exact H1|]. rewrite <- Ed in *.
    destruct (l_et (st w)).
    + eapply (mo_wloop _ M); eauto.
    + destruct (epctl "mod" _ true false _) as [r3 w3] eqn:E3. inversion E; subst.
      eapply O_epctl; [|exact E3]. eapply O_pend_set; [| | | | |exact H1]; auto.
      cbn [c_set_out c_out]. intros ->. reflexivity.
  - destruct (is_eagain e); [|inversion E; subst; exact H1].
    assert (H2 : OINV (RO W hs) (wsetc w1 cid (c_set_out (wc w1 cid) (c_out (wc w1 cid) ++ d)))).
    { eapply O_pend_set; [| | | | |exact H1]; auto. cbn [c_set_out c_out]. intros ->. reflexivity. }
    destruct (l_et (st w)); [inversion E; subst; exact H2|].
    destruct (epctl "mod" _ true false _) as [r3 w3] eqn:E3. inversion E; subst.
    eapply O_epctl; eauto.
  - inversion E; subst. apply O_dead. exact H1.
Qed.

Lemma conn_writev_loop_S : forall f, MBO f -> forall cid sg n w r w' W hs,
  OINV (ROut W hs (OXP cid (List.concat sg) [])) w ->
  conn_writev_loop (S f) cid sg n w = (r, w') -> OINV (RO W hs) w'.
Proof.
  intros f M cid sg n w r w' W hs HI E. cbn [conn_writev_loop] in E.
  destruct (sys_wr cid _ _ true w) as [k w1] eqn:Es.
  destruct (concat_firstn_prefix sg 1024) as [tail Ht].
  pose proof (O_sys_wr _ _ _ _ _ _ _ _ tail _ _ _ Ht HI Es) as H1.
  destruct k as [sent extra|e|].
  - destruct H1 as [Hn H1]. rewrite <- (concat_drop_sent sg sent Hn) in H1.
    destruct (List.concat (drop_sent sent sg)) as [|b0 l0] eqn:Ed; [inversion E; subst; eapply O_pend_leave; exact H1|].
    rewrite <- Ed in *.
    destruct (l_et (st w)).
    + eapply (mo_wvloop _ M); eauto.
    + destruct (epctl "mod" _ true false _) as [r3 w3] eqn:E3. inversion E; subst.
      eapply O_epctl; [|exact E3]. eapply O_pend_set; [| | | | |exact H1]; auto.
      cbn [c_set_out c_out]. intros ->. reflexivity.
  - destruct (is_eagain e); [|inversion E; subst; exact H1].
    assert (H2 : OINV (RO W hs) (wsetc w1 cid (c_set_out (wc w1 cid) (c_out (wc w1 cid) ++ List.concat sg)))).
    { eapply O_pend_set; [| | | | |exact H1]; auto. cbn [c_set_out c_out]. intros ->. reflexivity. }
    destruct (l_et (st w)); [inversion E; subst; exact H2|].
    destruct (epctl "mod" _ true false _) as [r3 w3] eqn:E3. inversion E; subst.
    eapply O_epctl; eauto.
  - inversion E; subst. apply O_dead. exact H1.
Qed.

Lemma conn_write_S : forall f, MBO f -> forall cid d w r w' W hs,
  OINV (RO W hs) w -> conn_write (S f) cid d w = (r, w') -> OINV (RO W hs) w'.
Proof.
  intros f M cid d w r w' W hs HI E. cbn [conn_write] in E.
  destruct (c_opened (wc w cid)) eqn:Eo; cbn [negb] in E; [|inversion E; subst; exact HI].
  pose proof (O_sub _ _ _ d _ (opened_facts _ _ _ _ Eo) HI) as H1.
  destruct (c_out (wc w cid)) as [|b0 l0] eqn:Eout.
  - cbn [app] in H1.
    destruct (conn_write_loop f cid d (zlen d) _) as [[rn ok] w1] eqn:El.
    pose proof (mo_wloop _ M _ _ _ _ _ _ _ _ H1 El) as H2.
    destruct ok; [inversion E; subst; exact H2|].
    destruct (el_close f cid false w1) as [r2 w2] eqn:Ec. inversion E; subst.
    eapply (mo_close _ M); eauto.
  - inversion E; subst. eapply O_pend_set; [| | | | |exact H1]; rewrite ?wc_ghost; auto.
Qed.

Lemma conn_writev_S : forall f, MBO f -> forall cid sg w r w' W hs,
  OINV (RO W hs) w -> conn_writev (S f) cid sg w = (r, w') -> OINV (RO W hs) w'.
Proof.
  intros f M cid sg w r w' W hs HI E. cbn [conn_writev] in E.
  destruct (c_opened (wc w cid)) eqn:Eo; cbn [negb] in E; [|inversion E; subst; exact HI].
  pose proof (O_sub _ _ _ (List.concat sg) _ (opened_facts _ _ _ _ Eo) HI) as H1.
  destruct (c_out (wc w cid)) as [|b0 l0] eqn:Eout.
  - cbn [app] in H1. destruct sg as [|s0 sg'].
    + inversion E; subst. cbn [List.concat] in H1. eapply O_pend_leave. exact H1.
    + destruct (conn_writev_loop f cid _ _ _) as [[rn ok] w1] eqn:El.
      pose proof (mo_wvloop _ M _ _ _ _ _ _ _ _ H1 El) as H2.
      destruct ok; [inversion E; subst; exact H2|].
      destruct (el_close f cid false w1) as [r2 w2] eqn:Ec. inversion E; subst.
      eapply (mo_close _ M); eauto.
  - inversion E; subst. eapply O_pend_set; [| | | | |exact H1]; rewrite ?wc_ghost; auto.
Qed.

Lemma el_write_S : forall f, MBO f -> forall cid sent w r w' W hs,
  OINV (RO W hs) w -> el_write (S f) cid sent w = (r, w') -> OINV (RO W hs) w'.
Proof.
  intros f M cid sent w r w' W hs HI E. cbn [el_write] in E.
  destruct (c_opened (wc w cid)) eqn:Eo; cbn [negb] in E; [|inversion E; subst; exact HI].
  destruct (c_out (wc w cid)) as [|b0 l0] eqn:Eout; [inversion E; subst; exact HI|]. rewrite <- Eout in E.
  pose proof (O_pend_enter _ _ _ _ (opened_facts _ _ _ _ Eo) HI) as HP.
  destruct (sys_wr cid _ _ false w) as [k w1] eqn:Es.
  pose proof (O_sys_wr _ _ _ _ _ _ _ _ [] _ _ _ (eq_sym (app_nil_r _)) HP Es) as H1.
  destruct k as [n extra|e|].
  - destruct H1 as [Hn H1].
    assert (H2 : OINV (RO W hs) (wsetc w1 cid (c_set_out (wc w1 cid) (zdrop n (c_out (wc w1 cid)))))).
    { eapply O_pend_set; [| | | | |exact H1]; auto. cbn [c_set_out c_out]. intros ->. reflexivity. }
    destruct (zdrop n (c_out (wc w1 cid))) as [|b1 l1] eqn:Ed.
    + destruct (l_et (st w)); [inversion E; subst; exact H2|]. eapply O_epctl; eauto.
    + rewrite <- Ed in *. destruct (l_et (st w)); [|inversion E; subst; exact H2].
      destruct (_ <? _).
      * eapply (mo_elwrite _ M); eauto.
      * eapply O_trigger; [| |exact E]; [reflexivity|]. apply O_emit; [oign|exact H2].
  - destruct (is_eagain e).
    + inversion E; subst. eapply O_pend_leave. exact H1.
    + eapply (mo_close _ M); eauto.
  - inversion E; subst. apply O_dead. exact H1.
Qed.

Lemma handler_S : forall f, MBO f -> forall cid b w r w' W hs, In (cid, b) hs ->
  OINV (RO W hs) w -> handler (S f) cid w = (r, w') -> OINV (RO W hs) w'.
Proof.
  intros f M cid b w r w' W hs Hin HI E. rewrite handler_eq in E.
  destruct (pull w) as [[[name args]|] w1] eqn:Ep.
  - pose proof (O_pull _ _ _ _ _ _ _ HI Ep) as H1.
    destruct (String.eqb name "hret").
    { destruct args; inversion E; subst; [dsync|exact H1]. }
    destruct (String.eqb name "h"); [|inversion E; subst; dsync].
    destruct args as [|[?|?|call] args']; try (inversion E; subst; dsync).
    eapply (mo_handler _ M); [exact Hin| |exact E]. eapply (mo_hcall _ M); eassumption.
  - inversion E; subst. eapply O_pull; eauto.
Qed.

Lemma MBO_all : forall f, MBO f.
Proof.
  induction f as [|f IH].
  - constructor; intros; cbn in *;
      try match goal with E : (_, _) = (_, _) |- _ => inversion E; subst end; dsync.
  - constructor.
    + apply el_close_S; exact IH.
    + apply close_drain_S; exact IH.
    + apply conn_write_S; exact IH.
    + apply conn_write_loop_S; exact IH.
    + apply conn_writev_loop_S; exact IH.
    + apply conn_writev_S; exact IH.
    + apply el_write_S; exact IH.
    + apply handler_S; exact IH.
    + apply hcall_S; exact IH.
Qed.
