PROP = dict(
    drivers=[dict(cmd="drv-msqueue", family="msqueue",
                  swaps=[["pkg/queue/lock_free_queue.go",
                          [["sync/atomic", "atomic \"github.com/panjf2000/gnet/v2/pkg/vatomic\""]]]])],
    rule="a case is one schedule: 2..5 managed goroutines run scripted Enqueue/Dequeue calls on the real queue "
         "(sync/atomic swapped for the vatomic shim), one atomic operation per granted step; schedules are seeded "
         "random (with stickiness), PCT-style priority schedules (depth 1..4), and every schedule with a bounded "
         "number of preemptions for 2 goroutines x 2 operations (quick: bound 1 for one script pair, thorough: "
         "bound 2 for all 16 script pairs, empty and pre-filled queue); every case ends with Length/IsEmpty and a "
         "managed drain; the model replays the same schedule and must predict every atomic observation (location "
         "class, nodes named by allocation order, CAS outcome) and every result; plus unmanaged stress runs with "
         "real goroutines judged by the direct oracle only; non-trivial = a failed CAS, a helped tail, a retry or an "
         "empty result occurred; distinct by hash of the op lines",
    trusted=["shims harness/export/vatomic (sync/atomic wrappers) and harness/export/vsched (cooperative scheduler), "
             "overlaid as pkg/vatomic and pkg/vsched; import swap of sync/atomic in a scratch copy of lock_free_queue.go",
             "harness/export/queue_lfq_export.go (addresses of head/tail/length and offset of node.next)",
             "dedicated FIFO-queue linearizability checker in drv-msqueue (direct oracle only)"],
    assumptions=["sync/atomic is sequentially consistent (Go memory model); an interleaving of single atomic operations is the unit of concurrency",
                 "the garbage collector never recycles a node that is still reachable from a goroutine (fresh allocation, no ABA)",
                 "Enqueue is never called with a nil *Task (a nil task is indistinguishable from 'empty' at Dequeue)",
                 "the int32 length counter does not overflow: fewer than 2^31 tasks are queued (stated as a hypothesis of length_quiescent)"],
)
