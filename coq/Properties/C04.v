(* C04 -- per-connection callback lifecycle: open once, close once, nothing after
   close.  Statements only; proofs in Proofs/LoopLifecycle.v. *)
From GV Require Import Lib.Trace Model.Loop Spec.LoopSpec Proofs.LoopLifecycle.
From Coq Require Import Permutation.
From GV Require Spec.FinMap Model.Registry Proofs.LoopAState.
From GV Require Import Proofs.LoopRegistryLink.
Open Scope Z_scope.

(* For EVERY input stream (kernel results, handler scripts with any API calls
   -- including closes from inside callbacks and calls on other connections --,
   asynchronous requests arriving at any point, shutdown, faults): the sequence
   of callbacks of every connection is a prefix of  OnOpen . OnTraffic* . OnClose. *)
Theorem C04_lifecycle : forall i t, run_history i = Some t -> lifecycle_ok t = true.
Proof. exact lifecycle_holds. Qed.
Print Assumptions C04_lifecycle.

(* requests that reach a closed connection: an asynchronous write completes with the
   closed-connection error and performs no system call; Wake and Close are no-ops *)
Theorem C04_stale_async_write : forall fuel cid d cb w,
  c_opened (wc w cid) = false ->
  run_task fuel (TAsyncWrite cid d cb) w =
  (RErr, if cb then emit (obs "acb" [ASym "write"; AInt cid; ASym "closed"]) w else w).
Proof. exact stale_async_write. Qed.
Print Assumptions C04_stale_async_write.

Theorem C04_stale_wake_close : forall fuel cid w,
  c_opened (wc w cid) = false ->
  el_wake fuel cid w = (RNil, w) /\ (forall e, el_close (S fuel) cid e w = (RNil, w)).
Proof. exact stale_wake_close. Qed.
Print Assumptions C04_stale_wake_close.

(* whenever the loop is between events, the registry holds exactly the connections that
   have been opened and not yet closed (Engine.CountConnections reads its size) *)
Theorem C04_count_matches : forall i t, run_history i = Some t -> count_ok t = true.
Proof. exact count_matches. Qed.
Print Assumptions C04_count_matches.

(* What licenses the association list [l_reg] of Model/Loop.v.  In gnet the registry of an
   event loop is connStore: a Go map plus a counter (conn_map.go) or, with the gc_opt build
   tag, the compacting 256 x 65536 matrix (conn_matrix.go); Model/Loop.v holds it as an
   association list fd -> cid and works on it with alookup (dispatch, the guards of el_close /
   el_wake, fd_in_use), aset (el_register0), aremove (el_close), zlen (the `g count` marker =
   Engine.CountConnections, checked by C04_count_matches) and close_conns (closes the registered
   connections one by one in the order of the `pick` lines until the list is []).
   For BOTH registry models of C14 (Model/Registry.v): if the registry represents the list R the
   loop model holds ([map_rep] / [mat_rep]: getConn is [alookup _ R], loadCount is [zlen R], keys
   and values of R distinct, representation invariant -- for the matrix [matrix_inv]), then
   addConn of a fresh descriptor and connection / delConn of a registered connection / the
   iteration of closeConns (visitor removes the visited connection) does not panic and leaves a
   registry that represents [aset fd cid R] / [aremove fd R] / []; the visit list of that
   iteration is a duplicate-free enumeration of the registered connections, and the orders in
   which close_conns can empty the list ([empties_by]) are exactly such enumerations.
   Matrix variant: for all ROW > 0, COL > 1, and registration only while fewer than ROW * COL
   connections are registered -- AT capacity addConn drops the connection silently and the
   registry does NOT become [aset fd cid R] (fourth matrix clause; C14_matrix_add_at_capacity_drops).
   The last three clauses discharge the side conditions from the loop model: under the relation
   [Rst] that Proofs/LoopATop.v maintains along every run, keys and values of [l_reg] are
   distinct, a registration that passed the [fd_in_use] guard is of a fresh descriptor and a
   fresh connection, and the entry el_close removes is the closing connection's.
   Each clause is an instance of a theorem of Properties/C14.v / of the per-operation simulation
   lemmas behind C14_map_registry_refines_map (Proofs/LoopRegistryLink.v). *)
Theorem C04_registry_link :
  (* --- conn_map.go --- *)
  map_rep Registry.mp_init [] /\
  (forall st reg, map_rep st reg ->
     (forall fd, Registry.mp_get st fd = Loop.alookup fd reg) /\
     (forall fd, (match Registry.mp_get st fd with Some _ => true | None => false end) =
                 (match Loop.alookup fd reg with Some _ => true | None => false end)) /\
     Registry.mp_load st = Loop.zlen reg) /\
  (forall st reg id fd, map_rep st reg -> Loop.alookup fd reg = None -> ~ In id (map snd reg) ->
     map_rep (Registry.mp_add st id fd) (Loop.aset fd id reg) /\
     Registry.mp_load (Registry.mp_add st id fd) = Loop.zlen reg + 1) /\
  (forall st reg id fd, map_rep st reg -> Loop.alookup fd reg = Some id ->
     exists st', Registry.mp_del st id = Ret st' /\ map_rep st' (Loop.aremove fd reg) /\
       Registry.mp_load st' = Loop.zlen reg - 1) /\
  (forall st reg m k, map_rep st reg -> (forall fd, FinMap.del_pred m k fd = true) ->
     exists st' vis, Registry.mp_iterate st m k (-1) = Ret (st', vis) /\ map_rep st' [] /\
       NoDup vis /\ Permutation vis (map snd reg) /\ empties_by reg vis) /\
  (* --- conn_matrix.go --- *)
  (forall ROW COL, 0 < ROW -> 1 < COL ->
     mat_rep ROW COL Registry.mx_init [] /\
     (forall st reg, mat_rep ROW COL st reg ->
        (forall fd, Registry.mx_get st fd = Loop.alookup fd reg) /\
        (forall fd, (match Registry.mx_get st fd with Some _ => true | None => false end) =
                    (match Loop.alookup fd reg with Some _ => true | None => false end)) /\
        Registry.mx_load ROW st = Loop.zlen reg) /\
     (forall st reg id fd, mat_rep ROW COL st reg -> Loop.zlen reg < ROW * COL ->
        Loop.alookup fd reg = None -> ~ In id (map snd reg) ->
        mat_rep ROW COL (Registry.mx_add ROW COL st id fd) (Loop.aset fd id reg) /\
        Registry.mx_load ROW (Registry.mx_add ROW COL st id fd) = Loop.zlen reg + 1) /\
     (forall st reg id fd, mat_rep ROW COL st reg -> Loop.zlen reg = ROW * COL ->
        Loop.alookup fd reg = None ->
        (forall fd', Registry.mx_get (Registry.mx_add ROW COL st id fd) fd' = Loop.alookup fd' reg) /\
        Registry.mx_get (Registry.mx_add ROW COL st id fd) fd = None /\
        Loop.alookup fd (Loop.aset fd id reg) = Some id /\
        Registry.mx_load ROW (Registry.mx_add ROW COL st id fd) = Loop.zlen reg) /\
     (forall st reg id fd, mat_rep ROW COL st reg -> Loop.alookup fd reg = Some id ->
        exists st', Registry.mx_del ROW COL st id = Ret st' /\ mat_rep ROW COL st' (Loop.aremove fd reg) /\
          Registry.mx_load ROW st' = Loop.zlen reg - 1) /\
     (forall st reg m k, mat_rep ROW COL st reg -> (forall fd, FinMap.del_pred m k fd = true) ->
        exists st' vis, Registry.mx_iterate ROW COL st m k (-1) = Ret (st', vis) /\ mat_rep ROW COL st' [] /\
          NoDup vis /\ Permutation vis (map snd reg) /\ empties_by reg vis)) /\
  (* --- the emptying orders of close_conns are exactly the visit lists --- *)
  (forall reg vis, NoDup (map fst reg) -> NoDup (map snd reg) ->
     (empties_by reg vis <-> NoDup vis /\ Permutation vis (map snd reg))) /\
  (* --- the side conditions hold in the loop model --- *)
  (forall L P N m s, LoopAState.Rst L P N m s ->
     NoDup (map fst (Loop.l_reg s)) /\ NoDup (map snd (Loop.l_reg s))) /\
  (forall L P N m s cid, LoopAState.Rst L P N m s ->
     Loop.fd_in_use s (Loop.c_fd (Loop.getc s cid)) = false ->
     Loop.alookup (Loop.c_fd (Loop.getc s cid)) (Loop.l_reg s) = None /\
     ~ In cid (map snd (Loop.l_reg s))) /\
  (forall L P N m s cid x, LoopAState.Rst L P N m s ->
     Loop.c_opened (Loop.getc s cid) = true ->
     Loop.alookup (Loop.c_fd (Loop.getc s cid)) (Loop.l_reg s) = Some x -> x = cid).
Proof. exact registry_link. Qed.
Print Assumptions C04_registry_link.

(* Non-vacuity: a concrete run with three callbacks satisfies both checkers, and the lifecycle checker is not
   trivially true (a traffic callback after the close is rejected). *)
Example C04_nonvacuous :
  match run_history LoopLifecycle.ex_input with
  | Some t => (count_ok t, lifecycle_ok t,
               List.length (filter (fun e => match e with EOut ("cb", _) => true | _ => false end) t))
  | None => (false, false, O)
  end = (true, true, 3%nat) /\
  lifecycle_ok [EOut (obs "cb" [ASym "open"; AInt 0]);
                EOut (obs "cb" [ASym "close"; AInt 0; ASym "nil"]);
                EOut (obs "cb" [ASym "traffic"; AInt 0])] = false.
Proof. split; [exact LoopLifecycle.ex_history_callbacks|exact LoopLifecycle.ex_lifecycle_rejects]. Qed.
Print Assumptions C04_nonvacuous.
