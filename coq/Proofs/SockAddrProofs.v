(* Proofs about Model/SockAddr.v (property C17). *)
From Coq Require Import Lia ZArith ZifyBool List Bool.
From GV Require Import Lib.Trace Model.SockAddr.
Import ListNotations.
Close Scope string_scope.
Open Scope list_scope.
Open Scope Z_scope.

Ltac splits := repeat match goal with |- _ /\ _ => split end.

(* ------------------------------------------------------------------ *)
(* basic list facts                                                     *)

Lemma zlen_nonneg : forall l, 0 <= zlen l.
Proof. intros; unfold zlen; lia. Qed.

Lemma zlen_app : forall a b, zlen (a ++ b) = zlen a + zlen b.
Proof. intros; unfold zlen; rewrite app_length; lia. Qed.

Lemma zlen_cons : forall x l, zlen (x :: l) = 1 + zlen l.
Proof. intros; unfold zlen; cbn [List.length]; lia. Qed.

Lemma zlen_nil : zlen [] = 0.
Proof. reflexivity. Qed.

Lemma bytes_eqb_refl : forall a, bytes_eqb a a = true.
Proof. induction a as [|x a IH]; cbn; [reflexivity|]. rewrite Z.eqb_refl, IH; reflexivity. Qed.

Lemma bytes_eqb_eq : forall a b, bytes_eqb a b = true <-> a = b.
Proof.
  induction a as [|x a IH]; destruct b as [|y b]; cbn; split; intros H; try reflexivity; try discriminate.
  - apply andb_true_iff in H as [H1 H2]. apply Z.eqb_eq in H1. apply IH in H2. subst; reflexivity.
  - inversion H; subst. rewrite Z.eqb_refl. cbn. apply IH; reflexivity.
Qed.

Lemma bytes_eqb_neq : forall a b, bytes_eqb a b = false <-> a <> b.
Proof.
  intros a b; split; intros H.
  - intros E. apply bytes_eqb_eq in E. congruence.
  - destruct (bytes_eqb a b) eqn:E; [|reflexivity]. apply bytes_eqb_eq in E. contradiction.
Qed.

Lemma is_empty_true : forall l, is_empty l = true <-> l = [].
Proof. destruct l; cbn; split; intros; try reflexivity; discriminate. Qed.

Lemma is_empty_false : forall l, is_empty l = false <-> l <> [].
Proof. destruct l; cbn; split; intros H; try reflexivity; try discriminate; congruence. Qed.

Lemma copy_arr_exact : forall n l, List.length l = n -> copy_arr n l = l.
Proof.
  intros n l H. unfold copy_arr. rewrite firstn_app, H, Nat.sub_diag. cbn [firstn].
  rewrite app_nil_r. rewrite <- H. apply firstn_all.
Qed.

Lemma copy_arr_length : forall n l, List.length (copy_arr n l) = n.
Proof.
  intros n l. unfold copy_arr. rewrite firstn_length, app_length, repeat_length. lia.
Qed.

Lemma set_nth_app : forall pre x suf v, set_nth (pre ++ x :: suf) (List.length pre) v = pre ++ v :: suf.
Proof. induction pre as [|p pre IH]; intros; cbn; [reflexivity|]. rewrite IH; reflexivity. Qed.

Lemma zset_app : forall pre x suf v, zset (pre ++ x :: suf) (zlen pre) v = pre ++ v :: suf.
Proof. intros. unfold zset, zlen. rewrite Nat2Z.id. apply set_nth_app. Qed.

Lemma zdrop_app_len : forall a b, zdrop (zlen a) (a ++ b) = b.
Proof.
  intros. unfold zdrop, zlen. rewrite Nat2Z.id. rewrite skipn_app, Nat.sub_diag, skipn_all. reflexivity.
Qed.

Lemma zdrop_0 : forall l, zdrop 0 l = l.
Proof. reflexivity. Qed.

(* ------------------------------------------------------------------ *)
(* net.IP.To4 / To16 / Equal                                            *)

Lemma to4_len4 : forall ip, zlen ip = 4 -> to4 ip = Some ip.
Proof. intros ip H. unfold to4. rewrite H. reflexivity. Qed.

Lemma to16_len4 : forall ip, zlen ip = 4 -> to16 ip = Some (v4_prefix ++ ip).
Proof. intros ip H. unfold to16. rewrite H. reflexivity. Qed.

Lemma to16_len16 : forall ip, zlen ip = 16 -> to16 ip = Some ip.
Proof. intros ip H. unfold to16. rewrite H. reflexivity. Qed.

Lemma to4_mapped : forall ip4, zlen ip4 = 4 -> to4 (v4_prefix ++ ip4) = Some ip4.
Proof.
  intros ip4 H. unfold to4. rewrite zlen_app, H. cbn.
  reflexivity.
Qed.

Lemma to4_invalid : forall ip, zlen ip <> 4 -> zlen ip <> 16 -> to4 ip = None.
Proof.
  intros ip H4 H16. unfold to4.
  destruct (Z.eqb_spec (zlen ip) 4); [contradiction|].
  destruct (Z.eqb_spec (zlen ip) 16); [contradiction|]. reflexivity.
Qed.

Lemma to16_invalid : forall ip, zlen ip <> 4 -> zlen ip <> 16 -> to16 ip = None.
Proof.
  intros ip H4 H16. unfold to16.
  destruct (Z.eqb_spec (zlen ip) 4); [contradiction|].
  destruct (Z.eqb_spec (zlen ip) 16); [contradiction|]. reflexivity.
Qed.

Lemma len16_destruct : forall ip : bytes, zlen ip = 16 ->
  exists a0 a1 a2 a3 a4 a5 a6 a7 a8 a9 a10 a11 a12 a13 a14 a15,
    ip = [a0;a1;a2;a3;a4;a5;a6;a7;a8;a9;a10;a11;a12;a13;a14;a15].
Proof.
  intros ip H. unfold zlen in H.
  do 16 (destruct ip as [|? ip]; [cbn in H; lia|]).
  destruct ip; [|cbn in H; lia].
  do 16 eexists; reflexivity.
Qed.

(* what To4 returns: the address itself (4 bytes) or the tail of a v4-mapped one *)
Lemma to4_some : forall ip r, to4 ip = Some r ->
  (zlen ip = 4 /\ r = ip) \/ (zlen ip = 16 /\ ip = v4_prefix ++ r /\ zlen r = 4).
Proof.
  intros ip r H. unfold to4 in H.
  destruct (Z.eqb_spec (zlen ip) 4) as [E4|N4].
  - inversion H; subst; left; split; [assumption|reflexivity].
  - destruct (Z.eqb_spec (zlen ip) 16) as [E16|N16]; [|cbn in H; discriminate].
    right. destruct (len16_destruct ip E16) as
      (a0&a1&a2&a3&a4&a5&a6&a7&a8&a9&a10&a11&a12&a13&a14&a15&->).
    unfold ztake, zdrop, znth, all_zero in H.
    change (Z.to_nat 10) with 10%nat in H. change (Z.to_nat 11) with 11%nat in H.
    change (Z.to_nat 12) with 12%nat in H.
    cbn [firstn skipn nth forallb] in H.
    destruct (a0 =? 0) eqn:Z0; [|discriminate].
    destruct (a1 =? 0) eqn:Z1; [|discriminate].
    destruct (a2 =? 0) eqn:Z2; [|discriminate].
    destruct (a3 =? 0) eqn:Z3; [|discriminate].
    destruct (a4 =? 0) eqn:Z4; [|discriminate].
    destruct (a5 =? 0) eqn:Z5; [|discriminate].
    destruct (a6 =? 0) eqn:Z6; [|discriminate].
    destruct (a7 =? 0) eqn:Z7; [|discriminate].
    destruct (a8 =? 0) eqn:Z8; [|discriminate].
    destruct (a9 =? 0) eqn:Z9; [|discriminate].
    cbn in H.
    destruct (a10 =? 255) eqn:Z10; [|discriminate].
    destruct (a11 =? 255) eqn:Z11; [|discriminate].
    cbn in H. inversion H; subst r.
    apply Z.eqb_eq in Z0, Z1, Z2, Z3, Z4, Z5, Z6, Z7, Z8, Z9, Z10, Z11. subst.
    splits; reflexivity.
Qed.

Lemma ip_equal_refl : forall ip, ip_equal ip ip = true.
Proof. intros. unfold ip_equal. rewrite Z.eqb_refl. apply bytes_eqb_refl. Qed.

Lemma ztake12_mapped : forall l, ztake 12 (v4_prefix ++ l) = v4_prefix.
Proof. reflexivity. Qed.
Lemma zdrop12_mapped : forall l, zdrop 12 (v4_prefix ++ l) = l.
Proof. reflexivity. Qed.

Lemma ip_equal_4_mapped : forall ip4, zlen ip4 = 4 -> ip_equal ip4 (v4_prefix ++ ip4) = true.
Proof.
  intros ip4 H. unfold ip_equal. rewrite ztake12_mapped, zdrop12_mapped, !bytes_eqb_refl.
  rewrite zlen_app, H. reflexivity.
Qed.

Lemma ip_equal_mapped_4 : forall ip4, zlen ip4 = 4 -> ip_equal (v4_prefix ++ ip4) ip4 = true.
Proof.
  intros ip4 H. unfold ip_equal. rewrite ztake12_mapped, zdrop12_mapped, !bytes_eqb_refl.
  rewrite zlen_app, H. reflexivity.
Qed.

(* ------------------------------------------------------------------ *)
(* itod / dtoi                                                          *)

(* the decimal digits of v, most significant first (ASCII) *)
Fixpoint digs (fuel : nat) (v : Z) : bytes :=
  match fuel with
  | O => []
  | S f => if v >? 0 then digs f (v / 10) ++ [v mod 10 + 48] else []
  end.

Definition is_digit (c : Z) : Prop := 48 <= c <= 57.

(* value of a digit string, the usual Horner scheme *)
Definition dec_value (l : bytes) : Z := fold_left (fun a c => a * 10 + (c - 48)) l 0.

Lemma pow10_pos : forall k : nat, 0 < 10 ^ Z.of_nat k.
Proof. intros. apply Z.pow_pos_nonneg; lia. Qed.

Lemma pow10_S : forall k : nat, 10 ^ Z.of_nat (S k) = 10 * 10 ^ Z.of_nat k.
Proof. intros. rewrite Nat2Z.inj_succ, Z.pow_succ_r by lia. reflexivity. Qed.

Lemma digs_length : forall fuel (k : nat) v, 0 <= v < 10 ^ Z.of_nat k -> (List.length (digs fuel v) <= k)%nat.
Proof.
  induction fuel as [|f IH]; intros k v Hv; cbn [digs]; [cbn; lia|].
  destruct (Z.gtb_spec v 0) as [Hp|Hn]; [|cbn; lia].
  destruct k as [|k]; [cbn in Hv; lia|].
  rewrite app_length. cbn [List.length].
  rewrite pow10_S in Hv.
  assert (H10 : 0 <= v / 10 < 10 ^ Z.of_nat k).
  { pose proof (pow10_pos k). split; [apply Z.div_pos; lia|]. apply Z.div_lt_upper_bound; lia. }
  specialize (IH k (v / 10) H10). lia.
Qed.

Lemma digs_all_digits : forall fuel v, 0 <= v -> Forall is_digit (digs fuel v).
Proof.
  induction fuel as [|f IH]; intros v Hv; cbn [digs]; [constructor|].
  destruct (Z.gtb_spec v 0); [|constructor].
  apply Forall_app; split.
  - apply IH. apply Z.div_pos; lia.
  - constructor; [|constructor]. unfold is_digit. pose proof (Z.mod_pos_bound v 10). lia.
Qed.

Lemma dec_value_snoc : forall l c, dec_value (l ++ [c]) = dec_value l * 10 + (c - 48).
Proof. intros. unfold dec_value. rewrite fold_left_app. reflexivity. Qed.

Lemma digs_value : forall fuel v, 0 <= v < 10 ^ Z.of_nat fuel -> dec_value (digs fuel v) = v.
Proof.
  induction fuel as [|f IH]; intros v Hv; cbn [digs].
  - cbn in Hv. cbn. lia.
  - destruct (Z.gtb_spec v 0) as [Hp|Hn]; [|cbn; lia].
    rewrite dec_value_snoc. rewrite pow10_S in Hv. pose proof (pow10_pos f).
    rewrite IH.
    + pose proof (Z.div_mod v 10). lia.
    + split; [apply Z.div_pos; lia|]. apply Z.div_lt_upper_bound; lia.
Qed.

(* no leading zero: the first digit of a positive number is not '0' *)
Lemma digs_head : forall fuel v, 0 < v < 10 ^ Z.of_nat fuel ->
  exists c rest, digs fuel v = c :: rest /\ 49 <= c <= 57.
Proof.
  induction fuel as [|f IH]; intros v Hv.
  - cbn in Hv. lia.
  - cbn [digs]. destruct (Z.gtb_spec v 0) as [Hp|Hn]; [|lia].
    rewrite pow10_S in Hv. pose proof (pow10_pos f).
    destruct (Z.eq_dec (v / 10) 0) as [E|NE].
    + rewrite E. destruct f; cbn [digs].
      * exists (v mod 10 + 48), []. split; [reflexivity|].
        pose proof (Z.div_mod v 10). pose proof (Z.mod_pos_bound v 10). lia.
      * cbn. exists (v mod 10 + 48), []. split; [reflexivity|].
        pose proof (Z.div_mod v 10). pose proof (Z.mod_pos_bound v 10). lia.
    + assert (H10 : 0 < v / 10 < 10 ^ Z.of_nat f).
      { assert (0 <= v / 10) by (apply Z.div_pos; lia).
        split; [lia|]. apply Z.div_lt_upper_bound; lia. }
      destruct (IH _ H10) as (c & rest & E & Hc). rewrite E.
      exists c, (rest ++ [v mod 10 + 48]). split; [reflexivity|assumption].
Qed.

(* more fuel than digits changes nothing *)
Lemma digs_fuel : forall f1 f2 v, 0 <= v < 10 ^ Z.of_nat f1 -> (f1 <= f2)%nat -> digs f2 v = digs f1 v.
Proof.
  induction f1 as [|f1 IH]; intros f2 v Hv Hle.
  - cbn in Hv. assert (v = 0) by lia. subst. destruct f2; reflexivity.
  - destruct f2 as [|f2]; [lia|]. cbn [digs].
    destruct (Z.gtb_spec v 0) as [Hp|Hn]; [|reflexivity].
    rewrite pow10_S in Hv. pose proof (pow10_pos f1).
    rewrite (IH f2 (v / 10)); [reflexivity| |lia].
    split; [apply Z.div_pos; lia|]. apply Z.div_lt_upper_bound; lia.
Qed.

(* loop invariant of itod: the digits are written right-aligned into pre, suf is untouched *)
Lemma itod_loop_spec : forall fuel pre suf v,
  0 <= v < 10 ^ Z.of_nat fuel ->
  (List.length (digs fuel v) <= List.length pre)%nat ->
  exists pre0 junk,
    pre = pre0 ++ junk /\ List.length junk = List.length (digs fuel v) /\
    itod_loop fuel (pre ++ suf) (zlen pre - 1) v = Ret (pre0 ++ digs fuel v ++ suf, zlen pre0 - 1).
Proof.
  induction fuel as [|f IH]; intros pre suf v Hv Hlen.
  - cbn in Hv. assert (v = 0) by lia. subst v. cbn.
    exists pre, []. rewrite app_nil_r. splits; reflexivity.
  - cbn [digs itod_loop] in *.
    destruct (Z.gtb_spec v 0) as [Hp|Hn].
    + rewrite app_length in Hlen. cbn [List.length] in Hlen.
      destruct (exists_last (l := pre)) as (pre' & x & ->).
      { intros ->. cbn in Hlen. lia. }
      rewrite app_length in Hlen. cbn [List.length] in Hlen.
      rewrite zlen_app, zlen_cons, zlen_nil.
      replace (zlen pre' + (1 + 0) - 1) with (zlen pre') by lia.
      assert (Hb : (zlen pre' <? 0) || (zlen ((pre' ++ [x]) ++ suf) <=? zlen pre') = false).
      { pose proof (zlen_nonneg pre'). pose proof (zlen_nonneg suf).
        rewrite !zlen_app, zlen_cons, zlen_nil. lia. }
      rewrite Hb. rewrite <- app_assoc. cbn [app]. rewrite zset_app.
      rewrite pow10_S in Hv. pose proof (pow10_pos f).
      assert (H10 : 0 <= v / 10 < 10 ^ Z.of_nat f).
      { split; [apply Z.div_pos; lia|]. apply Z.div_lt_upper_bound; lia. }
      assert (Hw : wrapu8 (v mod 10 + 48) = v mod 10 + 48).
      { unfold wrapu8. pose proof (Z.mod_pos_bound v 10). apply Z.mod_small. lia. }
      rewrite Hw.
      destruct (IH pre' ((v mod 10 + 48) :: suf) (v / 10) H10) as (pre0 & junk & E1 & E2 & E3); [lia|].
      exists pre0, (junk ++ [x]). splits.
      * rewrite E1, <- app_assoc. reflexivity.
      * rewrite !app_length. cbn [List.length]. lia.
      * replace (zlen pre' - 1 + 1 - 1) with (zlen pre' - 1) by lia.
        rewrite E3. rewrite <- !app_assoc. reflexivity.
    + assert (v = 0) by lia. subst v. exists pre, []. rewrite app_nil_r. splits; reflexivity.
Qed.

Lemma pow10_32_big : 2 ^ 64 < 10 ^ Z.of_nat 32.
Proof. vm_compute. reflexivity. Qed.

(* itod on any pooled buffer of 32 bytes returns exactly the decimal digits *)
Lemma itod_buf_spec : forall buf v, List.length buf = 32%nat -> 0 < v < 2 ^ 64 ->
  itod_buf buf v = Ret (digs 33 v).
Proof.
  intros buf v Hl Hv. unfold itod_buf.
  destruct (Z.eqb_spec v 0); [lia|].
  pose proof pow10_32_big as Hb.
  assert (Hv33 : 0 <= v < 10 ^ Z.of_nat 33).
  { split; [lia|]. rewrite pow10_S. pose proof (pow10_pos 32). lia. }
  assert (Hlen : (List.length (digs 33 v) <= List.length buf)%nat).
  { rewrite Hl. apply digs_length. lia. }
  rewrite Hl.
  destruct (itod_loop_spec 33 buf [] v Hv33 Hlen) as (pre0 & junk & E1 & E2 & E3).
  rewrite app_nil_r in E3. rewrite E3. cbn [obind fst snd].
  replace (zlen pre0 - 1 + 1) with (zlen pre0) by lia.
  rewrite app_nil_r. rewrite zdrop_app_len. reflexivity.
Qed.

Lemma itod_spec : forall v, 0 < v < 2 ^ 64 -> itod v = Ret (digs 33 v).
Proof. intros. unfold itod. apply itod_buf_spec; [reflexivity|assumption]. Qed.

(* the contents of the pooled buffer never reach the result *)
Lemma itod_buf_irrelevant : forall b1 b2 v, List.length b1 = 32%nat -> List.length b2 = 32%nat ->
  0 <= v < 2 ^ 64 -> itod_buf b1 v = itod_buf b2 v.
Proof.
  intros b1 b2 v H1 H2 Hv. destruct (Z.eq_dec v 0) as [->|N]; [reflexivity|].
  rewrite !itod_buf_spec by (assumption || lia). reflexivity.
Qed.

Lemma itod_never_panics : forall v, 0 <= v < 2 ^ 64 -> exists s, itod v = Ret s.
Proof.
  intros v Hv. destruct (Z.eq_dec v 0) as [->|N]; [eexists; reflexivity|].
  eexists. apply itod_spec. lia.
Qed.

(* itod v is THE canonical decimal numeral of v *)
Lemma itod_decimal : forall v, 0 < v < 2 ^ 64 ->
  exists c rest, itod v = Ret (c :: rest) /\ 49 <= c <= 57 /\ Forall is_digit (c :: rest) /\
                 dec_value (c :: rest) = v.
Proof.
  intros v Hv. rewrite itod_spec by assumption.
  pose proof pow10_32_big.
  assert (Hv33 : 0 < v < 10 ^ Z.of_nat 33).
  { split; [lia|]. rewrite pow10_S. pose proof (pow10_pos 32). lia. }
  destruct (digs_head 33 v Hv33) as (c & rest & E & Hc).
  exists c, rest. rewrite <- E.
  split; [reflexivity|]. split; [exact Hc|]. split.
  - apply digs_all_digits; lia.
  - apply digs_value; lia.
Qed.

(* dtoi reads the digits back, one loop iteration per digit *)
Lemma dtoi_loop_digs : forall fuel v rest i0,
  0 <= v < big -> v < 10 ^ Z.of_nat fuel ->
  dtoi_loop (digs fuel v ++ rest) 0 i0 = dtoi_loop rest v (i0 + zlen (digs fuel v)).
Proof.
  induction fuel as [|f IH]; intros v rest i0 Hv Hf.
  - cbn in Hf. assert (v = 0) by lia. subst. cbn. rewrite Z.add_0_r. reflexivity.
  - cbn [digs]. destruct (Z.gtb_spec v 0) as [Hp|Hn].
    + rewrite pow10_S in Hf. pose proof (pow10_pos f).
      assert (H10 : 0 <= v / 10 < big).
      { split; [apply Z.div_pos; lia|]. apply Z.div_lt_upper_bound; lia. }
      assert (H10f : v / 10 < 10 ^ Z.of_nat f) by (apply Z.div_lt_upper_bound; lia).
      rewrite <- app_assoc. cbn [app].
      rewrite (IH (v / 10) ((v mod 10 + 48) :: rest) i0 H10 H10f).
      cbn [dtoi_loop].
      pose proof (Z.mod_pos_bound v 10). pose proof (Z.div_mod v 10).
      replace ((48 <=? v mod 10 + 48) && (v mod 10 + 48 <=? 57)) with true by lia.
      replace (v / 10 * 10 + (v mod 10 + 48 - 48)) with v by lia.
      replace (v >=? big) with false by lia.
      rewrite zlen_app, zlen_cons, zlen_nil. f_equal. lia.
    + assert (v = 0) by lia. subst. cbn. rewrite Z.add_0_r. reflexivity.
Qed.

Lemma big_lt_pow10 : big < 10 ^ Z.of_nat 33.
Proof. vm_compute. reflexivity. Qed.

Theorem itod_dtoi : forall v, 0 < v < big ->
  exists s, itod v = Ret s /\ dtoi s 0 = (v, zlen s, true).
Proof.
  intros v Hv. exists (digs 33 v). split.
  - apply itod_spec. unfold big in Hv. split; [lia|]. apply Z.lt_trans with big; [unfold big; lia|]. vm_compute; reflexivity.
  - unfold dtoi. rewrite zdrop_0.
    pose proof big_lt_pow10.
    rewrite <- (app_nil_r (digs 33 v)) at 1.
    rewrite dtoi_loop_digs by lia. cbn [dtoi_loop]. rewrite Z.add_0_l.
    destruct (digs_head 33 v) as (c & rest & E & _); [lia|].
    destruct (Z.eqb_spec (zlen (digs 33 v)) 0) as [E0|]; [|reflexivity].
    rewrite E, zlen_cons in E0. pose proof (zlen_nonneg rest). lia.
Qed.

(* at and above `big` the early return of dtoi fires: the number is read as 0 *)
Lemma dtoi_loop_overflow : forall l n i, big <= n -> Forall is_digit l ->
  l <> [] -> fst (fst (dtoi_loop l n i)) = 0 /\ snd (dtoi_loop l n i) = false.
Proof.
  intros l n i Hn Hd Hne. destruct l as [|c l]; [contradiction|].
  inversion Hd as [|? ? Hc _]; subst. unfold is_digit in Hc. cbn [dtoi_loop].
  replace ((48 <=? c) && (c <=? 57)) with true by lia.
  replace (n * 10 + (c - 48) >=? big) with true by (unfold big in *; lia).
  split; reflexivity.
Qed.

(* the code before the fix returned buf[i:], one byte too many *)
Definition itod_buf_before_fix (buf : bytes) (v : Z) : outcome bytes :=
  if v =? 0 then Ret [48]
  else obind (itod_loop (S (List.length buf)) buf (zlen buf - 1) v)
             (fun r => Ret (zdrop (snd r) (fst r))).

(* witness of the defect repaired by the fix: commit in known_findings.d/C17.json:
   zone index 9999 is rendered as "\0009999" and read back as 0 *)
Lemma itod_before_fix_refuted :
  exists v, 0 < v < big /\
    itod_buf_before_fix pool32 v = Ret [0; 57; 57; 57; 57] /\
    dtoi [0; 57; 57; 57; 57] 0 = (0, 0, false).
Proof. exists 9999. splits; try (unfold big; lia); vm_compute; reflexivity. Qed.

(* ------------------------------------------------------------------ *)
(* interface table, zones                                               *)

Lemma Ret_inj : forall (A : Type) (a b : A), Ret a = Ret b -> a = b.
Proof. intros A a b H. injection H as H. exact H. Qed.
Arguments Ret_inj {A a b} _.

Lemma by_name_in : forall tbl n i, by_name tbl n = Some i -> In (n, i) tbl.
Proof.
  induction tbl as [|[n0 i0] t IH]; intros n i H; cbn in H; [discriminate|].
  destruct (bytes_eqb n0 n) eqn:E.
  - apply bytes_eqb_eq in E. inversion H; subst. left; reflexivity.
  - right. apply IH; assumption.
Qed.

Lemma by_index_in : forall tbl n i, by_index tbl i = Some n -> In (n, i) tbl.
Proof.
  induction tbl as [|[n0 i0] t IH]; intros n i H; cbn in H; [discriminate|].
  destruct (Z.eqb_spec i0 i) as [E|N].
  - inversion H; subst. left; reflexivity.
  - right. apply IH; assumption.
Qed.

Lemma by_name_by_index : forall tbl n i, NoDup (map snd tbl) ->
  by_name tbl n = Some i -> by_index tbl i = Some n.
Proof.
  induction tbl as [|[n0 i0] t IH]; intros n i Hnd H; cbn in H; [discriminate|].
  cbn [map snd] in Hnd. inversion Hnd as [|? ? Hnotin Hnd']; subst.
  cbn [by_index]. destruct (bytes_eqb n0 n) eqn:E.
  - apply bytes_eqb_eq in E. inversion H; subst. rewrite Z.eqb_refl. reflexivity.
  - destruct (Z.eqb_spec i0 i) as [Ei|Ni].
    + exfalso. subst i0. apply Hnotin. apply by_name_in in H.
      change i with (snd (n, i)). apply in_map. assumption.
    + apply IH; assumption.
Qed.

Lemma by_index_by_name : forall tbl n i, NoDup (map fst tbl) ->
  by_index tbl i = Some n -> by_name tbl n = Some i.
Proof.
  induction tbl as [|[n0 i0] t IH]; intros n i Hnd H; cbn in H; [discriminate|].
  cbn [map fst] in Hnd. inversion Hnd as [|? ? Hnotin Hnd']; subst.
  cbn [by_name]. destruct (Z.eqb_spec i0 i) as [Ei|Ni].
  - inversion H; subst. rewrite bytes_eqb_refl. reflexivity.
  - destruct (bytes_eqb n0 n) eqn:E.
    + exfalso. apply bytes_eqb_eq in E. subst n0. apply Hnotin. apply by_index_in in H.
      change n with (fst (n, i)). apply in_map. assumption.
    + apply IH; assumption.
Qed.

Lemma valid_tbl_entry : forall tbl n i, valid_tbl tbl -> In (n, i) tbl -> n <> [] /\ 0 < i < 4294967296.
Proof.
  intros tbl n i (_ & _ & Hf) Hin. rewrite Forall_forall in Hf. apply (Hf (n, i) Hin).
Qed.

Lemma wrapu32_small : forall z, 0 <= z < 4294967296 -> wrapu32 z = z.
Proof. intros. unfold wrapu32. apply Z.mod_small. lia. Qed.

(* "" <-> 0 *)
Lemma zone_roundtrip_empty : forall tbl, zone_to_string tbl (wrapu32 (zone_to_int tbl [])) = Ret [].
Proof. reflexivity. Qed.

(* a name of the table goes to its index and comes back *)
Theorem zone_roundtrip_name : forall tbl z idx, valid_tbl tbl -> by_name tbl z = Some idx ->
  zone_to_int tbl z = idx /\ zone_to_string tbl (wrapu32 (zone_to_int tbl z)) = Ret z.
Proof.
  intros tbl z idx Hv Hn.
  destruct (valid_tbl_entry tbl z idx Hv (by_name_in _ _ _ Hn)) as [Hne Hr].
  assert (Hi : zone_to_int tbl z = idx).
  { unfold zone_to_int, interface_by_name. apply is_empty_false in Hne. rewrite Hne, Hn. reflexivity. }
  split; [assumption|]. rewrite Hi, wrapu32_small by lia.
  unfold zone_to_string, interface_by_index.
  replace (idx =? 0) with false by lia. replace (idx <=? 0) with false by lia.
  destruct Hv as (_ & Hnd & _). rewrite (by_name_by_index _ _ _ Hnd Hn). reflexivity.
Qed.

(* a decimal index below `big` that names no interface (neither as a name nor as an index) *)
Theorem zone_roundtrip_index : forall tbl v z, 0 < v < big -> itod v = Ret z ->
  by_name tbl z = None -> by_index tbl v = None ->
  zone_to_int tbl z = v /\ zone_to_string tbl (wrapu32 (zone_to_int tbl z)) = Ret z.
Proof.
  intros tbl v z Hv Hz Hn Hi.
  destruct (itod_dtoi v Hv) as (s & Hs & Hd). rewrite Hz in Hs. apply Ret_inj in Hs. subst s.
  assert (Hne : z <> []).
  { intros ->. vm_compute in Hd. discriminate. }
  assert (Hzi : zone_to_int tbl z = v).
  { unfold zone_to_int, interface_by_name. apply is_empty_false in Hne. rewrite Hne, Hn, Hd. reflexivity. }
  split; [assumption|]. unfold big in Hv. rewrite Hzi, wrapu32_small by lia.
  unfold zone_to_string, interface_by_index.
  replace (v =? 0) with false by lia. replace (v <=? 0) with false by lia.
  rewrite Hi. assumption.
Qed.

(* the zones the property quantifies over *)
Inductive zone_ok (tbl : list iface) : bytes -> Prop :=
| ZNone : zone_ok tbl []
| ZName : forall z idx, by_name tbl z = Some idx -> zone_ok tbl z
| ZIndex : forall v z, 0 < v < big -> itod v = Ret z -> by_name tbl z = None -> by_index tbl v = None ->
           zone_ok tbl z.

Lemma zone_ok_roundtrip : forall tbl z, valid_tbl tbl -> zone_ok tbl z ->
  zone_to_string tbl (wrapu32 (zone_to_int tbl z)) = Ret z.
Proof.
  intros tbl z Hv [| z' idx Hn | v z' Hr Hz Hn Hi].
  - reflexivity.
  - apply (zone_roundtrip_name tbl z' idx Hv Hn).
  - apply (zone_roundtrip_index tbl v z' Hr Hz Hn Hi).
Qed.

(* the other direction: index -> string -> index *)
Theorem zone_id_roundtrip_name : forall tbl idx name, valid_tbl tbl -> by_index tbl idx = Some name ->
  zone_to_string tbl idx = Ret name /\ zone_to_int tbl name = idx.
Proof.
  intros tbl idx name Hv Hi.
  destruct (valid_tbl_entry tbl name idx Hv (by_index_in _ _ _ Hi)) as [Hne Hr].
  destruct Hv as (Hndn & _ & _).
  split.
  - unfold zone_to_string, interface_by_index.
    replace (idx =? 0) with false by lia. replace (idx <=? 0) with false by lia. rewrite Hi. reflexivity.
  - unfold zone_to_int, interface_by_name. apply is_empty_false in Hne. rewrite Hne.
    rewrite (by_index_by_name _ _ _ Hndn Hi). reflexivity.
Qed.

Theorem zone_id_roundtrip_free : forall tbl v, 0 < v < big -> by_index tbl v = None ->
  (forall z, itod v = Ret z -> by_name tbl z = None) ->
  exists z, zone_to_string tbl v = Ret z /\ zone_to_int tbl z = v.
Proof.
  intros tbl v Hv Hi Hn.
  destruct (itod_dtoi v Hv) as (s & Hs & Hd). exists s.
  destruct (zone_roundtrip_index tbl v s Hv Hs (Hn s Hs) Hi) as [H1 _].
  split; [|assumption].
  unfold zone_to_string, interface_by_index.
  replace (v =? 0) with false by lia. replace (v <=? 0) with false by lia. rewrite Hi. assumption.
Qed.

(* the documented limit (copied from package net): an index >= big without an
   interface is printed correctly by itod but read back as 0 by dtoi *)
Theorem zone_index_ge_big_dropped : forall tbl v z, big <= v < 2 ^ 64 -> itod v = Ret z ->
  by_name tbl z = None -> zone_to_int tbl z = 0.
Proof.
  intros tbl v z Hv Hz Hn.
  assert (Hv64 : 0 < v < 2 ^ 64) by (unfold big in Hv; lia).
  rewrite (itod_spec v Hv64) in Hz. apply Ret_inj in Hz. subst z.
  pose proof pow10_32_big.
  assert (Hv33 : 0 < v < 10 ^ Z.of_nat 33).
  { unfold big in Hv. split; [lia|]. rewrite pow10_S. pose proof (pow10_pos 32). lia. }
  destruct (digs_head 33 v Hv33) as (c & rest & E & Hc).
  unfold zone_to_int, interface_by_name. rewrite Hn, E. cbn [is_empty]. rewrite <- E.
  (* split the numeral at the first prefix whose value reaches big *)
  unfold dtoi. rewrite zdrop_0.
  assert (G : forall fuel w rest' i0, 0 <= w -> w < 10 ^ Z.of_nat fuel -> big <= w ->
              fst (fst (dtoi_loop (digs fuel w ++ rest') 0 i0)) = 0 /\ snd (dtoi_loop (digs fuel w ++ rest') 0 i0) = false).
  { induction fuel as [|f IH]; intros w rest' i0 Hw0 Hwf Hwb.
    - cbn in Hwf. unfold big in Hwb. lia.
    - cbn [digs]. destruct (Z.gtb_spec w 0) as [Hp|Hn0]; [|unfold big in Hwb; lia].
      rewrite pow10_S in Hwf. pose proof (pow10_pos f).
      assert (H10f : w / 10 < 10 ^ Z.of_nat f) by (apply Z.div_lt_upper_bound; lia).
      assert (H100 : 0 <= w / 10) by (apply Z.div_pos; lia).
      rewrite <- app_assoc. cbn [app].
      destruct (Z_lt_ge_dec (w / 10) big) as [Hlt|Hge].
      + rewrite (dtoi_loop_digs f (w / 10) ((w mod 10 + 48) :: rest') i0) by lia.
        cbn [dtoi_loop].
        pose proof (Z.mod_pos_bound w 10). pose proof (Z.div_mod w 10).
        replace ((48 <=? w mod 10 + 48) && (w mod 10 + 48 <=? 57)) with true by lia.
        replace (w / 10 * 10 + (w mod 10 + 48 - 48)) with w by lia.
        replace (w >=? big) with true by lia. split; reflexivity.
      + apply IH; lia. }
  rewrite <- (app_nil_r (digs 33 v)).
  destruct (G 33%nat v [] 0) as [G1 G2]; try lia.
  destruct (dtoi_loop (digs 33 v ++ []) 0 0) as [[n i] ok] eqn:EL.
  cbn [fst snd] in G1, G2. subst n ok. reflexivity.
Qed.

Definition zone_index_roundtrip_full : Prop :=
  forall tbl v z, 0 < v < 4294967296 -> itod v = Ret z -> by_name tbl z = None -> by_index tbl v = None ->
    zone_to_string tbl (wrapu32 (zone_to_int tbl z)) = Ret z.

Lemma zone_index_roundtrip_full_refuted : ~ zone_index_roundtrip_full.
Proof.
  intros H. specialize (H [] 16777215 [49;54;55;55;55;50;49;53]).
  assert (C : zone_to_string [] (wrapu32 (zone_to_int [] [49;54;55;55;55;50;49;53])) = Ret [49;54;55;55;55;50;49;53]).
  { apply H; try reflexivity. lia. }
  vm_compute in C. discriminate.
Qed.

(* ------------------------------------------------------------------ *)
(* net.Addr -> unix.Sockaddr -> net.Addr                                *)

Lemma na2sa_mk : forall tbl k ip port zone,
  net_addr_to_sockaddr tbl (Some (mk_na k ip port zone)) = Ret (ip_to_sockaddr tbl ip port zone).
Proof. intros; destruct k; reflexivity. Qed.

Lemma back_sa4 : forall tbl k port addr,
  back k tbl (Some (SA4 port addr)) = Ret (Some (mk_na k (Some addr) port [])).
Proof. intros; destruct k; reflexivity. Qed.

Lemma back_sa6 : forall tbl k port zone addr z,
  zone_to_string tbl zone = Ret z ->
  back k tbl (Some (SA6 port zone addr)) = Ret (Some (mk_na k (Some addr) port z)).
Proof. intros tbl k port zone addr z H; destruct k; cbn; rewrite H; reflexivity. Qed.

Lemma zlen_length : forall l (n : nat), zlen l = Z.of_nat n -> List.length l = n.
Proof. intros l n H. unfold zlen in H. lia. Qed.

(* IPv4, no zone: exact *)
Theorem roundtrip_v4 : forall tbl k ip port, zlen ip = 4 ->
  net_addr_to_sockaddr tbl (Some (mk_na k (Some ip) port [])) = Ret (Some (SA4 port ip)) /\
  back k tbl (Some (SA4 port ip)) = Ret (Some (mk_na k (Some ip) port [])).
Proof.
  intros tbl k ip port H. split; [|apply back_sa4].
  rewrite na2sa_mk. unfold ip_to_sockaddr. rewrite (to4_len4 ip H). cbn [is_empty].
  rewrite copy_arr_exact by (apply zlen_length; exact H). reflexivity.
Qed.

(* IPv6 proper (not v4-mapped), any admissible zone: exact *)
Theorem roundtrip_v6 : forall tbl k ip port zone, valid_tbl tbl -> zlen ip = 16 -> to4 ip = None ->
  zone_ok tbl zone ->
  net_addr_to_sockaddr tbl (Some (mk_na k (Some ip) port zone))
    = Ret (Some (SA6 port (wrapu32 (zone_to_int tbl zone)) ip)) /\
  back k tbl (Some (SA6 port (wrapu32 (zone_to_int tbl zone)) ip)) = Ret (Some (mk_na k (Some ip) port zone)).
Proof.
  intros tbl k ip port zone Hv H16 H4 Hz. split.
  - rewrite na2sa_mk. unfold ip_to_sockaddr. rewrite H4, (to16_len16 ip H16).
    rewrite copy_arr_exact by (apply zlen_length; exact H16). reflexivity.
  - apply back_sa6. apply zone_ok_roundtrip; assumption.
Qed.

(* ::ffff:a.b.c.d without zone becomes the IPv4 sockaddr a.b.c.d and comes back as the
   4-byte address: the same address in the sense of net.IP.Equal, not the same bytes *)
Theorem roundtrip_v4in6 : forall tbl k ip4 port, zlen ip4 = 4 ->
  net_addr_to_sockaddr tbl (Some (mk_na k (Some (v4_prefix ++ ip4)) port [])) = Ret (Some (SA4 port ip4)) /\
  back k tbl (Some (SA4 port ip4)) = Ret (Some (mk_na k (Some ip4) port [])) /\
  ip_equal ip4 (v4_prefix ++ ip4) = true.
Proof.
  intros tbl k ip4 port H. splits; [|apply back_sa4|apply ip_equal_4_mapped; assumption].
  rewrite na2sa_mk. unfold ip_to_sockaddr. rewrite (to4_mapped ip4 H). cbn [is_empty].
  rewrite copy_arr_exact by (apply zlen_length; exact H). reflexivity.
Qed.

(* an IPv4 address (either representation) WITH a zone travels as the v4-mapped IPv6
   sockaddr and comes back in 16-byte form with the zone intact *)
Theorem roundtrip_v4_zone : forall tbl k ip ip4 port zone, valid_tbl tbl -> to4 ip = Some ip4 ->
  zone <> [] -> zone_ok tbl zone ->
  net_addr_to_sockaddr tbl (Some (mk_na k (Some ip) port zone))
    = Ret (Some (SA6 port (wrapu32 (zone_to_int tbl zone)) (v4_prefix ++ ip4))) /\
  back k tbl (Some (SA6 port (wrapu32 (zone_to_int tbl zone)) (v4_prefix ++ ip4)))
    = Ret (Some (mk_na k (Some (v4_prefix ++ ip4)) port zone)) /\
  ip_equal (v4_prefix ++ ip4) ip = true.
Proof.
  intros tbl k ip ip4 port zone Hv H4 Hne Hz.
  assert (Hl4 : zlen ip4 = 4 /\ to16 ip = Some (v4_prefix ++ ip4) /\ ip_equal (v4_prefix ++ ip4) ip = true).
  { destruct (to4_some ip ip4 H4) as [[E ->]|(E & -> & E4)].
    - splits; [assumption|apply to16_len4; assumption|apply ip_equal_mapped_4; assumption].
    - splits; [assumption|apply to16_len16; assumption|apply ip_equal_refl]. }
  destruct Hl4 as (Hl4 & H16 & Heq).
  splits; [| |assumption].
  - rewrite na2sa_mk. unfold ip_to_sockaddr. rewrite H4. apply is_empty_false in Hne. rewrite Hne, H16.
    rewrite copy_arr_exact; [reflexivity|].
    assert (Hn4 : List.length ip4 = 4%nat) by (apply zlen_length; exact Hl4).
    rewrite app_length, Hn4. reflexivity.
  - apply back_sa6. apply zone_ok_roundtrip; assumption.
Qed.

(* a nil IP (wildcard) *)
Theorem roundtrip_nil_ip : forall tbl k port,
  net_addr_to_sockaddr tbl (Some (mk_na k None port [])) = Ret (Some (SA4 port [0;0;0;0])) /\
  back k tbl (Some (SA4 port [0;0;0;0])) = Ret (Some (mk_na k (Some [0;0;0;0]) port [])).
Proof. intros; destruct k; split; reflexivity. Qed.

(* *net.IPAddr carries no port: it converts like the TCP address with port 0 *)
Theorem ipaddr_as_port0 : forall tbl ip zone,
  net_addr_to_sockaddr tbl (Some (NIP ip zone)) = net_addr_to_sockaddr tbl (Some (NTCP ip 0 zone)).
Proof. reflexivity. Qed.

(* Unix-domain: the name survives for the three supported networks; the network
   itself is reported as the socket type and comes back as "unix" *)
Theorem roundtrip_unix : forall tbl name net,
  net = net_unix \/ net = net_unixgram \/ net = net_unixpacket ->
  net_addr_to_sockaddr tbl (Some (NUnix name net)) = Ret (Some (SAUnix name)) /\
  sockaddr_to_tcp_or_unix tbl (Some (SAUnix name)) = Ret (Some (NUnix name net_unix)) /\
  snd (unix_addr_to_sockaddr name net) =
    (if bytes_eqb net net_unix then SOCK_STREAM else if bytes_eqb net net_unixgram then SOCK_DGRAM else SOCK_SEQPACKET).
Proof.
  intros tbl name net [ -> | [ -> | -> ] ]; splits; reflexivity.
Qed.

(* invalid IP length: nil, for every zone, port and entry point; never a panic *)
Theorem invalid_ip_none : forall tbl ip port zone, zlen ip <> 4 -> zlen ip <> 16 ->
  ip_to_sockaddr tbl (Some ip) port zone = None /\
  net_addr_to_sockaddr tbl (Some (NTCP (Some ip) port zone)) = Ret None /\
  net_addr_to_sockaddr tbl (Some (NUDP (Some ip) port zone)) = Ret None /\
  net_addr_to_sockaddr tbl (Some (NIP (Some ip) zone)) = Ret None.
Proof.
  intros tbl ip port zone H4 H16.
  assert (E : forall p, ip_to_sockaddr tbl (Some ip) p zone = None).
  { intros p. unfold ip_to_sockaddr. rewrite (to4_invalid ip H4 H16), (to16_invalid ip H4 H16). reflexivity. }
  splits; cbn [net_addr_to_sockaddr]; rewrite ?E; reflexivity.
Qed.

(* and conversely: a valid length always converts *)
Theorem valid_ip_some : forall tbl ip port zone, zlen ip = 4 \/ zlen ip = 16 ->
  exists sa, ip_to_sockaddr tbl (Some ip) port zone = Some sa.
Proof.
  intros tbl ip port zone [H|H]; unfold ip_to_sockaddr.
  - rewrite (to4_len4 ip H), (to16_len4 ip H). destruct (is_empty zone); eexists; reflexivity.
  - rewrite (to16_len16 ip H). destruct (to4 ip); [destruct (is_empty zone)|]; eexists; reflexivity.
Qed.

Theorem unsupported_net_none : forall tbl name net,
  net <> net_unix -> net <> net_unixgram -> net <> net_unixpacket ->
  unix_addr_to_sockaddr name net = (None, 0) /\
  net_addr_to_sockaddr tbl (Some (NUnix name net)) = Ret None.
Proof.
  intros tbl name net H1 H2 H3.
  assert (E : unix_addr_to_sockaddr name net = (None, 0)).
  { unfold unix_addr_to_sockaddr.
    apply bytes_eqb_neq in H1, H2, H3. rewrite H1, H2, H3. reflexivity. }
  split; [assumption|]. cbn [net_addr_to_sockaddr]. rewrite E. reflexivity.
Qed.

Theorem foreign_types_none : forall tbl,
  net_addr_to_sockaddr tbl (Some NOther) = Ret None /\
  net_addr_to_sockaddr tbl None = Ret None /\
  sockaddr_to_tcp_or_unix tbl (Some SAOther) = Ret None /\
  sockaddr_to_tcp_or_unix tbl None = Ret None /\
  sockaddr_to_udp tbl (Some SAOther) = Ret None /\
  sockaddr_to_udp tbl None = Ret None /\
  (forall name, sockaddr_to_udp tbl (Some (SAUnix name)) = Ret None).
Proof. intros; splits; reflexivity. Qed.

(* the only panic of NetAddrToSockaddr is the typed nil pointer *)
Theorem na2sa_no_panic : forall tbl a, a <> Some NNilPtr -> exists r, net_addr_to_sockaddr tbl a = Ret r.
Proof.
  intros tbl [[ | | | | | ]|] H; try (eexists; reflexivity). contradiction.
Qed.

(* the converse conversions never panic on a well-formed sockaddr (ZoneId is a uint32) *)
Theorem sa2na_no_panic : forall tbl k sa,
  (forall p z a, sa = Some (SA6 p z a) -> 0 <= z < 4294967296) ->
  exists r, back k tbl sa = Ret r.
Proof.
  intros tbl k sa Hz.
  destruct sa as [[p a|p z a|n|]|]; try (destruct k; eexists; reflexivity).
  specialize (Hz p z a eq_refl).
  assert (exists s, zone_to_string tbl z = Ret s) as [s Hs].
  { unfold zone_to_string. destruct (z =? 0); [eexists; reflexivity|].
    destruct (interface_by_index tbl z); [eexists; reflexivity|]. apply itod_never_panics. lia. }
  eexists. apply back_sa6. eassumption.
Qed.

(* ------------------------------------------------------------------ *)
(* unix.Sockaddr -> net.Addr -> unix.Sockaddr  (c.SendTo(c.RemoteAddr()))  *)

Theorem sa_roundtrip_v4 : forall tbl k port addr, zlen addr = 4 ->
  exists na, back k tbl (Some (SA4 port addr)) = Ret (Some na) /\
             net_addr_to_sockaddr tbl (Some na) = Ret (Some (SA4 port addr)).
Proof.
  intros tbl k port addr H. eexists. split; [apply back_sa4|]. apply roundtrip_v4. assumption.
Qed.

(* admissible zone ids: 0, an index of the table, or a free index below big whose numeral is no interface name *)
Inductive zone_id_ok (tbl : list iface) : Z -> Prop :=
| ZI0 : zone_id_ok tbl 0
| ZIName : forall idx name, by_index tbl idx = Some name -> zone_id_ok tbl idx
| ZIFree : forall v, 0 < v < big -> by_index tbl v = None -> (forall z, itod v = Ret z -> by_name tbl z = None) ->
           zone_id_ok tbl v.

Lemma zone_id_ok_roundtrip : forall tbl zid, valid_tbl tbl -> zone_id_ok tbl zid ->
  exists z, zone_to_string tbl zid = Ret z /\ wrapu32 (zone_to_int tbl z) = zid /\ (zid <> 0 -> z <> []).
Proof.
  intros tbl zid Hv [|idx name Hi|v Hr Hi Hn].
  - exists []. splits; [reflexivity|reflexivity|congruence].
  - destruct (zone_id_roundtrip_name tbl idx name Hv Hi) as [H1 H2].
    destruct (valid_tbl_entry tbl name idx Hv (by_index_in _ _ _ Hi)) as [Hne Hr].
    exists name. splits; [assumption|rewrite H2; apply wrapu32_small; lia|intros _; assumption].
  - destruct (zone_id_roundtrip_free tbl v Hr Hi Hn) as (z & H1 & H2).
    exists z. splits; [assumption|rewrite H2; apply wrapu32_small; unfold big in Hr; lia|].
    intros _ ->. cbn in H2. lia.
Qed.

Theorem sa_roundtrip_v6 : forall tbl k port zid addr, valid_tbl tbl -> zlen addr = 16 ->
  zone_id_ok tbl zid -> (to4 addr = None \/ zid <> 0) ->
  exists na, back k tbl (Some (SA6 port zid addr)) = Ret (Some na) /\
             net_addr_to_sockaddr tbl (Some na) = Ret (Some (SA6 port zid addr)).
Proof.
  intros tbl k port zid addr Hv H16 Hz Hor.
  destruct (zone_id_ok_roundtrip tbl zid Hv Hz) as (z & Hs & Hi & Hne).
  exists (mk_na k (Some addr) port z). split; [apply back_sa6; assumption|].
  rewrite na2sa_mk. unfold ip_to_sockaddr.
  rewrite (to16_len16 addr H16), copy_arr_exact by (apply zlen_length; exact H16).
  destruct Hor as [H4|Hnz].
  - rewrite H4, Hi. reflexivity.
  - specialize (Hne Hnz). apply is_empty_false in Hne. rewrite Hne, Hi.
    destruct (to4 addr); reflexivity.
Qed.

(* the one lossy case in this direction: a v4-mapped IPv6 sockaddr without zone
   comes back as the IPv4 sockaddr of the embedded address *)
Theorem sa_roundtrip_v4mapped : forall tbl k port ip4, zlen ip4 = 4 ->
  exists na, back k tbl (Some (SA6 port 0 (v4_prefix ++ ip4))) = Ret (Some na) /\
             net_addr_to_sockaddr tbl (Some na) = Ret (Some (SA4 port ip4)).
Proof.
  intros tbl k port ip4 H. exists (mk_na k (Some (v4_prefix ++ ip4)) port []).
  split; [apply back_sa6; reflexivity|]. apply roundtrip_v4in6. assumption.
Qed.

Theorem sa_roundtrip_unix : forall tbl name,
  exists na, sockaddr_to_tcp_or_unix tbl (Some (SAUnix name)) = Ret (Some na) /\
             net_addr_to_sockaddr tbl (Some na) = Ret (Some (SAUnix name)).
Proof. intros. eexists. split; reflexivity. Qed.

(* ------------------------------------------------------------------ *)
(* listen side: the sockaddr that is bound denotes the reported address  *)

Theorem listen_v4 : forall tbl proto ip ip4 port zone, to4 ip = Some ip4 ->
  listen_sockaddr tbl proto ip port zone = Some (AF_INET, SA4 port ip4, false).
Proof.
  intros tbl proto ip ip4 port zone H4.
  destruct (to4_some ip ip4 H4) as [[E ->]|(E & -> & E4)].
  - unfold listen_sockaddr. rewrite H4. cbn [Z.eqb Pos.eqb]. unfold ip_to_sockaddr_inet4.
    rewrite E. cbn [Z.eqb]. rewrite H4. rewrite copy_arr_exact by (apply zlen_length; exact E). reflexivity.
  - unfold listen_sockaddr. rewrite H4. cbn [Z.eqb Pos.eqb]. unfold ip_to_sockaddr_inet4.
    rewrite E. cbn [Z.eqb]. rewrite H4. rewrite copy_arr_exact by (apply zlen_length; exact E4). reflexivity.
Qed.

Theorem listen_v6 : forall tbl proto ip port zone, zlen ip = 16 -> to4 ip = None ->
  listen_sockaddr tbl proto ip port zone =
    Some (AF_INET6,
          SA6 port (match interface_by_name tbl zone with Some idx => wrapu32 idx | None => 0 end) ip,
          true).
Proof.
  intros tbl proto ip port zone H16 H4.
  unfold listen_sockaddr. rewrite H4, (to16_len16 ip H16). cbn [Z.eqb Pos.eqb].
  unfold ip_to_sockaddr_inet6. rewrite H16. cbn [Z.eqb orb].
  assert (Hne : ip_equal ip ipv4zero = false).
  { unfold ip_equal. change (zlen ipv4zero) with 16. rewrite H16. cbn [Z.eqb Pos.eqb].
    apply bytes_eqb_neq. intros ->. vm_compute in H4. discriminate. }
  rewrite Hne, (to16_len16 ip H16), copy_arr_exact by (apply zlen_length; exact H16).
  destruct (interface_by_name tbl zone); reflexivity.
Qed.

(* ------------------------------------------------------------------ *)
(* what the lifetime clause needs from the conversion                  *)

(* Only a non-zero zone id consults the interface table: for every other
   sockaddr the reported address does not depend on the (mutable) OS table. *)
Theorem conversion_table_independent : forall tbl1 tbl2 k sa,
  (forall p z a, sa = Some (SA6 p z a) -> z = 0) ->
  back k tbl1 sa = back k tbl2 sa.
Proof.
  intros tbl1 tbl2 k sa H.
  destruct sa as [[p a|p z a|n|]|]; try (destruct k; reflexivity).
  rewrite (H p z a eq_refl). destruct k; reflexivity.
Qed.

(* A store of per-connection addresses written at open (conversion of the
   accepted sockaddr + the listener address) and erased at release: operations
   on OTHER connections never change what a connection reports. *)
Inductive conn_op :=
| COpen (id : Z) (listener : option netaddr) (sa : option sockaddr)
| CClose (id : Z).

Definition op_id (o : conn_op) : Z := match o with COpen id _ _ => id | CClose id => id end.

Definition addr_store := list (Z * (option netaddr * outcome (option netaddr))).

Fixpoint store_remove (id : Z) (st : addr_store) : addr_store :=
  match st with
  | [] => []
  | (i, v) :: t => if i =? id then store_remove id t else (i, v) :: store_remove id t
  end.

Fixpoint store_lookup (id : Z) (st : addr_store) : option (option netaddr * outcome (option netaddr)) :=
  match st with
  | [] => None
  | (i, v) :: t => if i =? id then Some v else store_lookup id t
  end.

Definition store_step (tbl : list iface) (st : addr_store) (o : conn_op) : addr_store :=
  match o with
  | COpen id l sa => (id, (l, sockaddr_to_tcp_or_unix tbl sa)) :: store_remove id st
  | CClose id => store_remove id st
  end.

Lemma store_lookup_remove_other : forall id id' st, id' <> id ->
  store_lookup id (store_remove id' st) = store_lookup id st.
Proof.
  induction st as [|[i v] t IH]; intros Hne; cbn; [reflexivity|].
  destruct (Z.eqb_spec i id') as [E|N].
  - subst i. rewrite IH by assumption. destruct (Z.eqb_spec id' id); [contradiction|reflexivity].
  - cbn. destruct (Z.eqb_spec i id); [reflexivity|]. apply IH; assumption.
Qed.

Theorem store_open_reports : forall tbl st id l sa,
  store_lookup id (store_step tbl st (COpen id l sa)) = Some (l, sockaddr_to_tcp_or_unix tbl sa).
Proof. intros. cbn. rewrite Z.eqb_refl. reflexivity. Qed.

Theorem store_churn_stable : forall tbl ops st id,
  Forall (fun o => op_id o <> id) ops ->
  store_lookup id (fold_left (store_step tbl) ops st) = store_lookup id st.
Proof.
  intros tbl ops. induction ops as [|o ops IH]; intros st id Hf; [reflexivity|].
  inversion Hf as [|? ? Ho Hrest]; subst. cbn [fold_left]. rewrite IH by assumption.
  destruct o as [id' l sa|id']; cbn [op_id] in Ho; cbn [store_step store_lookup].
  - destruct (Z.eqb_spec id' id); [contradiction|]. apply store_lookup_remove_other; assumption.
  - apply store_lookup_remove_other; assumption.
Qed.

(* ------------------------------------------------------------------ *)
(* explicit instances used by Properties/C17.v                          *)

Theorem roundtrip_v6_nozone : forall tbl k ip port, zlen ip = 16 -> to4 ip = None ->
  net_addr_to_sockaddr tbl (Some (mk_na k (Some ip) port [])) = Ret (Some (SA6 port 0 ip)) /\
  back k tbl (Some (SA6 port 0 ip)) = Ret (Some (mk_na k (Some ip) port [])).
Proof.
  intros tbl k ip port H16 H4. split.
  - rewrite na2sa_mk. unfold ip_to_sockaddr. rewrite H4, (to16_len16 ip H16).
    rewrite copy_arr_exact by (apply zlen_length; exact H16). reflexivity.
  - apply back_sa6. reflexivity.
Qed.

Theorem roundtrip_v6_zone_name : forall tbl k ip port zone idx, valid_tbl tbl ->
  zlen ip = 16 -> to4 ip = None -> by_name tbl zone = Some idx ->
  net_addr_to_sockaddr tbl (Some (mk_na k (Some ip) port zone)) = Ret (Some (SA6 port idx ip)) /\
  back k tbl (Some (SA6 port idx ip)) = Ret (Some (mk_na k (Some ip) port zone)).
Proof.
  intros tbl k ip port zone idx Hv H16 H4 Hn.
  destruct (roundtrip_v6 tbl k ip port zone Hv H16 H4 (ZName tbl zone idx Hn)) as [A B].
  destruct (zone_roundtrip_name tbl zone idx Hv Hn) as [Hi _].
  destruct (valid_tbl_entry tbl zone idx Hv (by_name_in _ _ _ Hn)) as [_ Hr].
  rewrite Hi, wrapu32_small in A, B by lia. split; assumption.
Qed.

Theorem roundtrip_v6_zone_index : forall tbl k ip port v zone, valid_tbl tbl ->
  zlen ip = 16 -> to4 ip = None ->
  0 < v < big -> itod v = Ret zone -> by_name tbl zone = None -> by_index tbl v = None ->
  net_addr_to_sockaddr tbl (Some (mk_na k (Some ip) port zone)) = Ret (Some (SA6 port v ip)) /\
  back k tbl (Some (SA6 port v ip)) = Ret (Some (mk_na k (Some ip) port zone)).
Proof.
  intros tbl k ip port v zone Hv H16 H4 Hr Hz Hn Hi.
  destruct (roundtrip_v6 tbl k ip port zone Hv H16 H4 (ZIndex tbl v zone Hr Hz Hn Hi)) as [A B].
  destruct (zone_roundtrip_index tbl v zone Hr Hz Hn Hi) as [Hzi _].
  unfold big in Hr. rewrite Hzi, wrapu32_small in A, B by lia. split; assumption.
Qed.

Theorem roundtrip_v4_zone_name : forall tbl k ip ip4 port zone idx, valid_tbl tbl ->
  to4 ip = Some ip4 -> by_name tbl zone = Some idx ->
  net_addr_to_sockaddr tbl (Some (mk_na k (Some ip) port zone)) = Ret (Some (SA6 port idx (v4_prefix ++ ip4))) /\
  back k tbl (Some (SA6 port idx (v4_prefix ++ ip4))) = Ret (Some (mk_na k (Some (v4_prefix ++ ip4)) port zone)) /\
  ip_equal (v4_prefix ++ ip4) ip = true.
Proof.
  intros tbl k ip ip4 port zone idx Hv H4 Hn.
  destruct (valid_tbl_entry tbl zone idx Hv (by_name_in _ _ _ Hn)) as [Hne Hr].
  destruct (roundtrip_v4_zone tbl k ip ip4 port zone Hv H4 Hne (ZName tbl zone idx Hn)) as (A & B & C).
  destruct (zone_roundtrip_name tbl zone idx Hv Hn) as [Hi _].
  rewrite Hi, wrapu32_small in A, B by lia. splits; assumption.
Qed.

(* ports: the conversion never touches the port, whatever its value *)
Theorem port_preserved : forall tbl ip port zone sa,
  ip_to_sockaddr tbl ip port zone = Some sa ->
  match sa with SA4 p _ => p = port | SA6 p _ _ => p = port | _ => False end.
Proof.
  intros tbl ip port zone sa H. unfold ip_to_sockaddr in H.
  destruct ip as [ip|].
  - destruct (match to4 ip with Some ip4 => if is_empty zone then Some ip4 else None | None => None end).
    + inversion H; reflexivity.
    + destruct (to16 ip); inversion H; reflexivity.
  - destruct (negb (is_empty zone)); inversion H; reflexivity.
Qed.

Theorem port_preserved_back : forall tbl k sa na,
  back k tbl (Some sa) = Ret (Some na) ->
  match sa, na with
  | SA4 p _, NTCP _ q _ | SA4 p _, NUDP _ q _ | SA6 p _ _, NTCP _ q _ | SA6 p _ _, NUDP _ q _ => p = q
  | SAUnix n, NUnix m _ => n = m
  | _, _ => False
  end.
Proof.
  intros tbl k sa na H.
  destruct sa as [p a|p z a|n|]; destruct k; cbn in H.
  all: try (apply Ret_inj in H; inversion H; subst; reflexivity).
  all: try (destruct (zone_to_string tbl z); cbn in H; [apply Ret_inj in H; inversion H; subst; reflexivity|discriminate]).
  all: try discriminate.
  all: apply Ret_inj in H; discriminate.
Qed.

Theorem sa_roundtrip_v6_nozone : forall tbl k port addr, valid_tbl tbl -> zlen addr = 16 -> to4 addr = None ->
  exists na, back k tbl (Some (SA6 port 0 addr)) = Ret (Some na) /\
             net_addr_to_sockaddr tbl (Some na) = Ret (Some (SA6 port 0 addr)).
Proof.
  intros tbl k port addr Hv H16 H4.
  exact (sa_roundtrip_v6 tbl k port 0 addr Hv H16 (ZI0 tbl) (or_introl H4)).
Qed.

Theorem sa_roundtrip_v6_zone_name : forall tbl k port idx name addr, valid_tbl tbl -> zlen addr = 16 ->
  by_index tbl idx = Some name -> idx <> 0 ->
  exists na, back k tbl (Some (SA6 port idx addr)) = Ret (Some na) /\
             net_addr_to_sockaddr tbl (Some na) = Ret (Some (SA6 port idx addr)).
Proof.
  intros tbl k port idx name addr Hv H16 Hi Hnz.
  exact (sa_roundtrip_v6 tbl k port idx addr Hv H16 (ZIName tbl idx name Hi) (or_intror Hnz)).
Qed.

(* ------------------------------------------------------------------ *)
(* values handed out stay what they were (runner level) and the pooled *)
(* buffer of itod is never given back                                   *)

Lemma sockaddr_step_kept : forall st l, exists ext, sa_kept (sockaddr_step st l) = sa_kept st ++ ext.
Proof.
  intros st l. unfold sockaddr_step.
  destruct (sym_eqb (fst l) "if").
  { destruct (snd l) as [|[ | |] [|[ | |] [|? ?]]]; exists []; rewrite app_nil_r; reflexivity. }
  destruct (sym_eqb (fst l) "ifrename").
  { destruct (snd l) as [|[ | |] [|[ | |] [|? ?]]]; exists []; rewrite app_nil_r; reflexivity. }
  destruct (sym_eqb (fst l) "keep").
  { destruct (keep_lines (sa_tbl st) (snd l)) as [ls|]; [exists [ls]; reflexivity|exists []; rewrite app_nil_r; reflexivity]. }
  destruct (sym_eqb (fst l) "keepz").
  { destruct (keepz_lines (sa_tbl st) (snd l)) as [ls|]; [exists [ls]; reflexivity|exists []; rewrite app_nil_r; reflexivity]. }
  destruct (sym_eqb (fst l) "churn"); [exists []; rewrite app_nil_r; reflexivity|].
  destruct (sym_eqb (fst l) "recheck").
  { destruct (snd l) as [|[ | |] [|? ?]]; exists []; rewrite app_nil_r; reflexivity. }
  exists []; rewrite app_nil_r; reflexivity.
Qed.

(* whatever happens after a value was kept (conversions, churn, further keeps, …):
   re-reading it yields the value that was handed out *)
Theorem kept_stable : forall ops st i d, (i < List.length (sa_kept st))%nat ->
  nth i (sa_kept (fold_left sockaddr_step ops st)) d = nth i (sa_kept st) d.
Proof.
  induction ops as [|l ops IH]; intros st i d Hi; [reflexivity|].
  cbn [fold_left]. destruct (sockaddr_step_kept st l) as [ext E].
  rewrite IH by (rewrite E, app_length; lia).
  rewrite E. apply app_nth1. assumption.
Qed.

(* sockaddr.go takes exactly one buffer from the byte-slice pool (in itod) and never
   returns one: the zone string keeps exclusive ownership of its backing buffer *)
Theorem pool_sites_no_put : forall fn callee a d, In (fn, callee, a, d) pool_sites ->
  fn = "itod"%string /\ callee = "Get"%string /\ d = false.
Proof.
  intros fn callee a d [H|[]]. inversion H; subst. repeat split; reflexivity.
Qed.
