(* C09 proofs, part 2: one simulation lemma per in-memory operation. *)
From Coq Require Import Lia ZArith ZifyBool List Bool.
From GV Require Import Lib.Trace Model.Arith Model.Ring Spec.Fifo Spec.RingSpec Proofs.FifoLemmas Proofs.ArithProofs Proofs.RingBase.
Import ListNotations.
Open Scope Z_scope.

Lemma ztake_clip (n : Z) (l : list Z) : ztake (if zlen l >? n then n else zlen l) l = ztake n l.
Proof.
  rewrite Z.gtb_ltb. destruct (Z.ltb_spec n (zlen l)); [reflexivity|].
  rewrite !ztake_all; trivial; lia.
Qed.

Lemma zdrop_clip (n : Z) (l : list Z) : zdrop (if zlen l >? n then n else zlen l) l = zdrop n l.
Proof.
  rewrite Z.gtb_ltb. destruct (Z.ltb_spec n (zlen l)); [reflexivity|].
  rewrite !zdrop_all; trivial; lia.
Qed.

Lemma nonempty_bounds rb : ring_inv rb -> is_empty rb = false ->
  0 <= r rb < size rb /\ 0 <= w rb < size rb /\ zlen (buf rb) = size rb.
Proof. intros Hi E. inv_destr Hi. destruct (Hnemp E). lia. Qed.

Lemma buffered_nonempty rb : ring_inv rb -> is_empty rb = false ->
  Buffered rb = (if r rb <? w rb then w rb - r rb else size rb - r rb + w rb) /\ 0 < Buffered rb.
Proof.
  intros Hi E. destruct (nonempty_bounds rb Hi E) as (Hr & Hw & Hl).
  unfold Buffered. rewrite E. repeat bdestr; lia.
Qed.

(* the slices through which the first m buffered bytes are reached *)
Lemma front_slices rb m : ring_inv rb -> is_empty rb = false -> 0 <= m <= Buffered rb ->
  (r rb < w rb -> slice (buf rb) (r rb) (r rb + m) = Ret (ztake m (content rb))) /\
  (w rb <= r rb -> r rb + m <= size rb -> slice (buf rb) (r rb) (r rb + m) = Ret (ztake m (content rb))) /\
  (w rb <= r rb -> size rb < r rb + m ->
     slice (buf rb) (r rb) (zlen (buf rb)) = Ret (zdrop (r rb) (buf rb)) /\
     slice (buf rb) 0 (m - (size rb - r rb)) = Ret (ztake (m - (size rb - r rb)) (buf rb)) /\
     zdrop (r rb) (buf rb) ++ ztake (m - (size rb - r rb)) (buf rb) = ztake m (content rb)).
Proof.
  intros Hi E Hm. destruct (nonempty_bounds rb Hi E) as (Hr & Hw & Hl).
  destruct (buffered_nonempty rb Hi E) as (Hb & _). splits.
  - intros Hlt. destruct (Z.ltb_spec (r rb) (w rb)); [|lia].
    rewrite slice_ok by lia. replace (r rb + m - r rb) with m by lia.
    rewrite front_contig by (trivial; lia). reflexivity.
  - intros Hge Hfit. rewrite slice_ok by lia. replace (r rb + m - r rb) with m by lia.
    rewrite front_wrap1 by (trivial; lia). reflexivity.
  - intros Hge Hout. destruct (Z.ltb_spec (r rb) (w rb)); [lia|]. splits.
    + apply slice_from_ok. lia.
    + apply slice_to_ok. lia.
    + apply front_wrap2; trivial; lia.
Qed.

(* every "advance r by n, Reset when r meets w" of the code is [adv] *)
Lemma adv_alt rb n r' : ring_inv rb -> is_empty rb = false -> 0 <= n <= Buffered rb ->
  (n = 0 -> r rb <> w rb) -> r' = (r rb + n) mod size rb ->
  (if r (set_r rb r') =? w (set_r rb r') then Reset (set_r rb r') else set_r rb r') = adv rb n.
Proof.
  intros Hi E Hn H0 Hr'. destruct (nonempty_bounds rb Hi E) as (Hr & Hw & Hl).
  unfold adv, set_r, Reset; cbn [buf size r w is_empty]. subst r'.
  assert (Hc : ((r rb + n) mod size rb =? w rb) = (n =? Buffered rb)).
  { destruct (buffered_nonempty rb Hi E) as (Hb & _). rewrite Hb in *.
    destruct (Z.ltb_spec (r rb) (w rb)).
    - rewrite Z.mod_small by lia. repeat bdestr; lia.
    - destruct (Z_lt_ge_dec (r rb + n) (size rb)) as [Hin|Hout].
      + rewrite Z.mod_small by lia. repeat bdestr; lia.
      + rewrite mod_wrap by lia. repeat bdestr; lia. }
  rewrite Hc. destruct (n =? Buffered rb); reflexivity.
Qed.

(* ---- Bytes ---- *)
Lemma Bytes_spec rb : ring_inv rb -> Bytes rb = Ret (content rb).
Proof.
  intros Hi. unfold Bytes, content. destruct (is_empty rb) eqn:E; [reflexivity|].
  destruct (nonempty_bounds rb Hi E) as (Hr & Hw & Hl).
  destruct (Z.eqb_spec (w rb) (r rb)) as [Heq|Hne].
  - rewrite slice_from_ok by lia. cbn [obind]. rewrite slice_to_ok by lia. cbn [obind].
    destruct (Z.ltb_spec (r rb) (w rb)); [lia|]. reflexivity.
  - rewrite Z.gtb_ltb. destruct (Z.ltb_spec (r rb) (w rb)).
    + rewrite slice_ok by lia. reflexivity.
    + rewrite slice_from_ok by lia. cbn [obind].
      destruct (Z.eqb_spec (w rb) 0) as [H0|H0]; cbn [negb].
      * rewrite H0. rewrite (ztake_nonpos 0) by lia. rewrite app_nil_r. reflexivity.
      * rewrite slice_to_ok by lia. reflexivity.
Qed.

(* ---- Peek ---- *)
Lemma Peek_spec rb n : ring_inv rb ->
  exists h t, Peek rb n = Ret (h, t) /\
    h ++ t = (if n <=? 0 then content rb else ztake n (content rb)).
Proof.
  intros Hi. unfold Peek. destruct (is_empty rb) eqn:E.
  - exists [], []. split; [reflexivity|].
    assert (Hc : content rb = []) by (unfold content; rewrite E; reflexivity).
    rewrite Hc, ztake_nil. destruct (n <=? 0); reflexivity.
  - destruct (nonempty_bounds rb Hi E) as (Hr & Hw & Hl).
    destruct (buffered_nonempty rb Hi E) as (Hb & Hbpos).
    pose proof (buffered_content rb Hi) as Hbc.
    destruct (Z.leb_spec n 0) as [Hn|Hn].
    + (* peekAll *)
      unfold peekAll. rewrite E. unfold content. rewrite E. rewrite Z.gtb_ltb.
      destruct (Z.ltb_spec (r rb) (w rb)).
      * rewrite slice_ok by lia. cbn [obind]. eexists _, _. split; [reflexivity|]. apply app_nil_r.
      * rewrite slice_from_ok by lia. cbn [obind].
        destruct (Z.eqb_spec (w rb) 0) as [H0|H0]; cbn [negb].
        -- eexists _, _. split; [reflexivity|]. rewrite H0, (ztake_nonpos 0) by lia. reflexivity.
        -- rewrite slice_to_ok by lia. cbn [obind]. eexists _, _. split; reflexivity.
    + rewrite Z.gtb_ltb. destruct (Z.ltb_spec (r rb) (w rb)) as [Hlt|Hge].
      * (* contiguous *)
        rewrite <- (ztake_clip n (content rb)). rewrite <- Hbc, Hb.
        set (m := if w rb - r rb >? n then n else w rb - r rb).
        assert (Hm : 0 <= m <= Buffered rb) by (subst m; rewrite Hb; bdestr; bdestr; lia).
        destruct (front_slices rb m Hi E Hm) as (F1 & _ & _).
        rewrite F1 by lia. cbn [obind]. eexists _, _. split; [reflexivity|]. apply app_nil_r.
      * rewrite <- (ztake_clip n (content rb)). rewrite <- Hbc, Hb.
        set (m := if size rb - r rb + w rb >? n then n else size rb - r rb + w rb).
        assert (Hm : 0 <= m <= Buffered rb) by (subst m; rewrite Hb; bdestr; bdestr; lia).
        destruct (front_slices rb m Hi E Hm) as (_ & F2 & F3).
        destruct (Z.leb_spec (r rb + m) (size rb)) as [Hfit|Hout].
        -- rewrite F2 by lia. cbn [obind]. eexists _, _. split; [reflexivity|]. apply app_nil_r.
        -- destruct (F3 ltac:(lia) ltac:(lia)) as (S1 & S2 & S3).
           rewrite S1. cbn [obind]. rewrite S2. cbn [obind].
           eexists _, _. split; [reflexivity|]. exact S3.
Qed.

(* ---- Reset ---- *)
Lemma Reset_spec rb : ring_inv rb -> ring_inv (Reset rb) /\ content (Reset rb) = [].
Proof.
  intros Hi. pose proof (size_nonneg rb Hi). inv_destr Hi. split; [|reflexivity].
  unfold ring_inv, Reset; cbn [buf size r w is_empty]. splits; try lia; try discriminate.
Qed.

Lemma Reset_set_r rb x : Reset (set_r rb x) = Reset rb.
Proof. reflexivity. Qed.

(* ---- Read ---- *)
Lemma Read_spec rb plen : ring_inv rb -> 0 <= plen ->
  exists rb' d e, Read rb plen = Ret (rb', (d, zlen d, e)) /\
    d = ztake plen (content rb) /\ ring_inv rb' /\ content rb' = zdrop plen (content rb) /\
    buf rb' = buf rb /\ size rb' = size rb /\
    e = (if (0 <? plen) && is_empty rb then EEmpty else ENil).
Proof.
  intros Hi Hp. unfold Read.
  destruct (Z.eqb_spec plen 0) as [H0|H0].
  - subst plen. exists rb, [], ENil. rewrite ztake_nonpos, zdrop_nonpos by lia. splits; trivial.
  - destruct (Z.ltb_spec 0 plen); [|lia]. cbn [andb].
    destruct (is_empty rb) eqn:E.
    + assert (Hc : content rb = []) by (unfold content; rewrite E; reflexivity).
      exists rb, [], EEmpty. rewrite Hc, ztake_nil, zdrop_nil. splits; trivial.
    + destruct (nonempty_bounds rb Hi E) as (Hr & Hw & Hl).
      destruct (buffered_nonempty rb Hi E) as (Hb & Hbpos).
      pose proof (buffered_content rb Hi) as Hbc.
      rewrite <- (ztake_clip plen (content rb)), <- (zdrop_clip plen (content rb)). rewrite <- Hbc, Hb.
      rewrite Z.gtb_ltb. destruct (Z.ltb_spec (r rb) (w rb)) as [Hlt|Hge].
      * set (n := if w rb - r rb >? plen then plen else w rb - r rb).
        assert (Hn : 0 < n <= Buffered rb) by (subst n; rewrite Hb; bdestr; bdestr; lia).
        destruct (front_slices rb n Hi E ltac:(lia)) as (F1 & _ & _).
        rewrite F1 by lia. cbn [obind].
        rewrite (adv_alt rb n (r rb + n) Hi E) by (try lia; rewrite Z.mod_small; lia).
        destruct (adv_spec rb n Hi E ltac:(lia)) as (Ai & Ac & Ab & As).
        assert (Hz : zlen (ztake n (content rb)) = n) by (zlen_norm; rewrite <- Hbc; lia).
        exists (adv rb n), (ztake n (content rb)), ENil. rewrite Hz. splits; trivial.
      * set (n := if size rb - r rb + w rb >? plen then plen else size rb - r rb + w rb).
        assert (Hn : 0 < n <= Buffered rb) by (subst n; rewrite Hb; bdestr; bdestr; lia).
        destruct (front_slices rb n Hi E ltac:(lia)) as (_ & F2 & F3).
        destruct (adv_spec rb n Hi E ltac:(lia)) as (Ai & Ac & Ab & As).
        assert (Hz : zlen (ztake n (content rb)) = n) by (zlen_norm; rewrite <- Hbc; lia).
        destruct (Z.leb_spec (r rb + n) (size rb)) as [Hfit|Hout].
        -- rewrite F2 by lia. cbn [obind]. rewrite gorem_ok by lia. cbn [obind].
           rewrite (adv_alt rb n _ Hi E) by (try lia; reflexivity).
           exists (adv rb n), (ztake n (content rb)), ENil. rewrite Hz. splits; trivial.
        -- destruct (F3 ltac:(lia) ltac:(lia)) as (S1 & S2 & S3).
           rewrite S1. cbn [obind]. rewrite S2. cbn [obind]. rewrite S3.
           rewrite gorem_ok by lia. cbn [obind].
           rewrite (adv_alt rb n _ Hi E) by (try lia; reflexivity).
           exists (adv rb n), (ztake n (content rb)), ENil. rewrite Hz. splits; trivial.
Qed.

(* ---- ReadByte ---- *)
Lemma ReadByte_spec rb : ring_inv rb ->
  exists rb' b e, ReadByte rb = Ret (rb', (b, e)) /\ ring_inv rb' /\
    match content rb with
    | [] => e = EEmpty /\ content rb' = []
    | x :: t => b = x /\ e = ENil /\ content rb' = t
    end.
Proof.
  intros Hi. unfold ReadByte. destruct (is_empty rb) eqn:E.
  - assert (Hc : content rb = []) by (unfold content; rewrite E; reflexivity).
    exists rb, 0, EEmpty. rewrite Hc. splits; trivial.
  - destruct (nonempty_bounds rb Hi E) as (Hr & Hw & Hl).
    destruct (buffered_nonempty rb Hi E) as (Hb & Hbpos).
    unfold index. destruct (Z.leb_spec 0 (r rb)); [|lia]. destruct (Z.ltb_spec (r rb) (zlen (buf rb))); [|lia].
    cbn [andb obind].
    assert (Hr2 : (if r (set_r rb (r rb + 1)) =? size (set_r rb (r rb + 1))
                   then set_r (set_r rb (r rb + 1)) 0 else set_r rb (r rb + 1))
                  = set_r rb ((r rb + 1) mod size rb)).
    { unfold set_r; cbn [buf size r w is_empty]. destruct (Z.eqb_spec (r rb + 1) (size rb)) as [He|He].
      - rewrite He, Z.mod_same by lia. reflexivity.
      - rewrite Z.mod_small by lia. reflexivity. }
    rewrite Hr2. rewrite (adv_alt rb 1 _ Hi E) by (try lia; reflexivity).
    destruct (adv_spec rb 1 Hi E ltac:(lia)) as (Ai & Ac & Ab & As).
    eexists _, _, _. splits; try reflexivity; trivial.
    assert (Hf : ztake 1 (content rb) = [znth (r rb) (buf rb)]).
    { rewrite <- znth_zdrop by lia.
      destruct (Z.ltb_spec (r rb) (w rb)).
      - rewrite front_contig; trivial; lia.
      - rewrite front_wrap1; trivial; lia. }
    rewrite Ac. destruct (content rb) as [|x t].
    + rewrite ztake_nil in Hf. discriminate.
    + rewrite ztake_1_cons in Hf. inversion Hf. splits; reflexivity.
Qed.

(* ---- Discard ---- *)
Lemma Discard_spec rb n : ring_inv rb ->
  exists rb', Discard rb n = Ret (rb', (zlen (ztake n (content rb)), ENil)) /\ ring_inv rb' /\
    content rb' = zdrop n (content rb).
Proof.
  intros Hi. unfold Discard. pose proof (buffered_content rb Hi) as Hbc.
  destruct (Z.leb_spec n 0) as [Hn|Hn].
  - exists rb. rewrite ztake_nonpos, zdrop_nonpos by lia. splits; trivial.
  - destruct (Z.ltb_spec n (Buffered rb)) as [Hlt|Hge].
    + assert (E : is_empty rb = false).
      { destruct (is_empty rb) eqn:E; [|reflexivity]. unfold Buffered in Hlt. rewrite E in Hlt.
        inv_destr Hi. destruct (Hemp E) as [Hr Hw]. rewrite Hr, Hw in Hlt. cbn in Hlt. lia. }
      destruct (nonempty_bounds rb Hi E) as (Hr & Hw & Hl).
      rewrite gorem_ok by lia. cbn [obind].
      destruct (adv_spec rb n Hi E ltac:(lia)) as (Ai & Ac & _).
      unfold adv in Ai, Ac. destruct (Z.eqb_spec n (Buffered rb)); [lia|].
      eexists. splits; [|exact Ai|exact Ac]. do 3 f_equal. zl.
    + destruct (Reset_spec rb Hi) as (Ri & Rc).
      eexists. splits; [|exact Ri|]. 
      * do 3 f_equal. zl.
      * rewrite Rc. symmetry. apply zdrop_all. lia.
Qed.

(* ---- New ---- *)
Lemma New_spec n : int64 n -> n <= 4611686018427387904 ->
  exists rb, New n = Ret rb /\ ring_inv rb /\ content rb = [] /\ n <= size rb.
Proof.
  intros Hr Hle. unfold New. destruct (Z.eqb_spec n 0) as [H0|H0].
  - eexists. splits; [reflexivity| |reflexivity|cbn; lia].
    unfold ring_inv; cbn. splits; try lia; try discriminate; try reflexivity.
  - destruct (ceil_spec n Hr) as (_ & Hok). destruct (Hok Hle) as (sz & Hc & k & Hk & Hsz & Hmax & _).
    rewrite Hc. cbn [obind]. eexists. splits; [reflexivity| |reflexivity|cbn [size]; lia].
    unfold ring_inv; cbn [buf size r w is_empty]. splits; try lia; try discriminate.
    unfold zeros. rewrite zlen_repeat. lia.
Qed.

(* ---- grow ---- *)
Lemma grow_loop_spec n c : 4 <= n -> c <= 2 * n ->
  let n' := grow_loop grow_fuel n c in n <= n' /\ c <= n'.
Proof.
  intros Hn Hc. unfold grow_fuel. cbn [grow_loop].
  repeat match goal with
  | |- context [(0 <? ?a) && (?a <? ?b)] =>
      let H1 := fresh in let H2 := fresh in
      destruct (Z.ltb_spec 0 a) as [H1|H1]; destruct (Z.ltb_spec a b) as [H2|H2]; cbn [andb];
      try (exfalso; Z.div_mod_to_equations; lia); try (Z.div_mod_to_equations; lia)
  end.
Qed.

Lemma grow_policy_spec n c : 0 <= n -> 0 < c -> (n = 0 -> c <= 4611686018427387904) ->
  exists c', grow_policy n c = Ret c' /\ c <= c' /\ n <= c'.
Proof.
  intros Hn Hc Hbig. unfold grow_policy, DefaultBufferSize, bufferGrowThreshold.
  destruct (Z.eqb_spec n 0) as [H0|H0].
  - destruct (Z.leb_spec c 1024).
    + eexists. splits; [reflexivity|lia|lia].
    + assert (Hr : int64 c) by (unfold int64; specialize (Hbig H0); lia).
      destruct (ceil_spec c Hr) as (_ & Hok). destruct (Hok (Hbig H0)) as (sz & Hce & k & Hk & Hsz & Hmax & _).
      exists sz. splits; [exact Hce|lia|lia].
  - destruct (Z.leb_spec c (n + n)).
    + destruct (Z.ltb_spec n 4096).
      * eexists. splits; [reflexivity|lia|lia].
      * pose proof (grow_loop_spec n c ltac:(lia) ltac:(lia)) as (G1 & G2). cbn zeta in G1, G2.
        rewrite Z.gtb_ltb. destruct (Z.ltb_spec 0 (grow_loop grow_fuel n c)); [|lia].
        eexists. splits; [reflexivity|lia|lia].
    + eexists. splits; [reflexivity|lia|lia].
Qed.

Lemma grow_spec rb c : ring_inv rb -> Buffered rb < c -> (size rb = 0 -> c <= 4611686018427387904) ->
  exists rb', grow rb c = Ret rb' /\ ring_inv rb' /\ content rb' = content rb /\
    c <= size rb' /\ size rb <= size rb'.
Proof.
  intros Hi Hc Hbig. pose proof (size_nonneg rb Hi) as Hs.
  pose proof (buffered_content rb Hi) as Hbc.
  pose proof (accounting rb Hi) as (_ & Hb0 & _).
  destruct (grow_policy_spec (size rb) c Hs ltac:(lia) Hbig) as (c' & Hp & Hc1 & Hc2).
  unfold grow. rewrite Hp. cbn [obind].
  assert (Hpg : pool_get c' = zeros c') by (unfold pool_get; destruct (Z.leb_spec c' 0); [lia|reflexivity]).
  rewrite Hpg.
  assert (Hzl : zlen (zeros c') = c') by (unfold zeros; rewrite zlen_repeat; lia).
  rewrite Hzl.
  destruct (Read_spec rb c' Hi ltac:(lia)) as (rb1 & d & e & HR & Hd & Hi1 & Hc1' & _).
  rewrite HR. cbn [obind].
  assert (Hdc : d = content rb) by (rewrite Hd; apply ztake_all; lia).
  assert (Hc1n : content rb1 = []) by (rewrite Hc1'; apply zdrop_all; lia).
  eexists. split; [reflexivity|].
  rewrite Z.gtb_ltb. destruct (Z.ltb_spec 0 (Buffered rb)) as [Hpos|Hzero].
  - splits; try (cbn [size]; lia).
    + unfold ring_inv; cbn [buf size r w is_empty]. splits; try lia; try discriminate.
      rewrite Hdc. zlen_norm. rewrite Hzl. lia.
    + unfold content at 1; cbn [buf size r w is_empty].
      destruct (Z.ltb_spec 0 (Buffered rb)); [|lia].
      rewrite zdrop_nonpos by lia. rewrite Z.sub_0_r, Hbc, <- Hdc. apply ztake_app_exact.
  - assert (E1 : is_empty rb1 = true) by (apply content_nil_iff; assumption).
    rewrite E1. splits; try (cbn [size]; lia).
    + unfold ring_inv; cbn [buf size r w is_empty]. splits; try lia; try discriminate.
      rewrite Hdc. zlen_norm. rewrite Hzl. lia.
    + unfold content at 1; cbn [buf size r w is_empty]. symmetry. apply zlen_zero_nil. lia.
Qed.

(* ---- Write ---- *)
Lemma available_eq rb : ring_inv rb -> Available rb = size rb - Buffered rb.
Proof. intros Hi. pose proof (accounting rb Hi) as (H & _). unfold Cap in H. lia. Qed.

(* the three copy shapes of Write, on a buffer with enough room *)
Lemma Write_room rb p : ring_inv rb -> 0 < zlen p <= Available rb ->
  exists rb',
    (if w rb >=? r rb then
       let c1 := size rb - w rb in
       if c1 >=? zlen p then
         obind (copy_at (buf rb) (w rb) (zlen (buf rb)) p) (fun '(b, _) =>
         Ret (set_w (set_buf rb b) (w rb + zlen p)))
       else
         obind (slice p 0 c1) (fun p1 =>
         obind (copy_at (buf rb) (w rb) (zlen (buf rb)) p1) (fun '(b, _) =>
         let c2 := zlen p - c1 in
         obind (slice p c1 (zlen p)) (fun p2 =>
         obind (copy_at b 0 (zlen b) p2) (fun '(b, _) =>
         Ret (set_w (set_buf rb b) c2)))))
     else
       obind (copy_at (buf rb) (w rb) (zlen (buf rb)) p) (fun '(b, _) =>
       Ret (set_w (set_buf rb b) (w rb + zlen p)))) = Ret rb' /\
    let rb'' := set_nonempty (if w rb' =? size rb' then set_w rb' 0 else rb') in
    ring_inv rb'' /\ content rb'' = content rb ++ p.
Proof.
  intros Hi Hn. pose proof (size_nonneg rb Hi) as Hs.
  pose proof (available_eq rb Hi) as Hav. pose proof (accounting rb Hi) as (_ & Hb0 & Ha0 & _).
  assert (Hsz : 0 < size rb) by lia.
  assert (Hbounds : 0 <= r rb < size rb /\ 0 <= w rb < size rb /\ zlen (buf rb) = size rb).
  { destruct (is_empty rb) eqn:E; [|apply nonempty_bounds; assumption].
    inv_destr Hi. destruct (Hemp E) as [-> ->]. lia. }
  destruct Hbounds as (Hr & Hw & Hl).
  assert (Hfull : r rb = w rb -> is_empty rb = true).
  { intros Hrw. destruct (is_empty rb) eqn:E; [reflexivity|].
    unfold Available in Hn. rewrite E in Hn. destruct (Z.eqb_spec (r rb) (w rb)); lia. }
  rewrite Z.geb_leb. destruct (Z.leb_spec (r rb) (w rb)) as [Hrw|Hwr].
  - (* free space: buf[w:] then buf[:r] *)
    assert (Havail : Available rb = size rb - w rb + r rb).
    { unfold Available. destruct (Z.eqb_spec (r rb) (w rb)) as [Heq|Hne].
      - rewrite (Hfull Heq). lia.
      - destruct (Z.ltb_spec (w rb) (r rb)); lia. }
    cbn zeta. rewrite Z.geb_leb. destruct (Z.leb_spec (zlen p) (size rb - w rb)) as [Hfit|Hsplit].
    + rewrite copy_at_ok by lia. cbn [obind]. eexists. split; [reflexivity|]. cbn zeta.
      assert (Heq : set_nonempty (if w (set_w (set_buf rb (ztake (w rb) (buf rb) ++ p ++ zdrop (w rb + zlen p) (buf rb))) (w rb + zlen p))
                                     =? size (set_w (set_buf rb (ztake (w rb) (buf rb) ++ p ++ zdrop (w rb + zlen p) (buf rb))) (w rb + zlen p))
                                  then set_w (set_w (set_buf rb (ztake (w rb) (buf rb) ++ p ++ zdrop (w rb + zlen p) (buf rb))) (w rb + zlen p)) 0
                                  else set_w (set_buf rb (ztake (w rb) (buf rb) ++ p ++ zdrop (w rb + zlen p) (buf rb))) (w rb + zlen p))
                    = put1 rb p).
      { unfold put1, set_nonempty, set_w, set_buf; cbn [buf size r w is_empty].
        destruct (Z.ltb_spec 0 (zlen p)); [|lia].
        destruct (Z.eqb_spec (w rb + zlen p) (size rb)) as [He|He]; cbn [buf size r w is_empty].
        - rewrite He, Z.mod_same by lia. reflexivity.
        - rewrite Z.mod_small by lia. reflexivity. }
      rewrite Heq. apply put1_spec; trivial; try lia. left. splits; trivial; lia.
    + assert (Hp1 : slice p 0 (size rb - w rb) = Ret (ztake (size rb - w rb) p)) by (apply slice_to_ok; lia).
      rewrite Hp1. cbn [obind].
      set (p1 := ztake (size rb - w rb) p).
      assert (Hp1l : zlen p1 = size rb - w rb) by (subst p1; zl).
      rewrite copy_at_ok by lia. cbn [obind].
      set (b1 := ztake (w rb) (buf rb) ++ p1 ++ zdrop (w rb + zlen p1) (buf rb)).
      assert (Hb1l : zlen b1 = size rb) by (subst b1; zl).
      assert (Hp2 : slice p (size rb - w rb) (zlen p) = Ret (zdrop (size rb - w rb) p)) by (apply slice_from_ok; lia).
      rewrite Hp2. cbn [obind].
      set (p2 := zdrop (size rb - w rb) p).
      assert (Hp2l : zlen p2 = zlen p - (size rb - w rb)) by (subst p2; zl).
      rewrite copy_at_ok by lia. cbn [obind]. eexists. split; [reflexivity|]. cbn zeta.
      (* two contiguous stores *)
      destruct (put1_spec rb p1 Hi Hsz ltac:(lia)) as (I1 & C1); [left; splits; trivial; lia|].
      assert (Hput1 : put1 rb p1 = mkRing b1 (size rb) (r rb) 0 false).
      { unfold put1. fold b1. rewrite Hp1l. replace (w rb + (size rb - w rb)) with (size rb) by lia.
        rewrite Z.mod_same by lia. destruct (Z.ltb_spec 0 (size rb - w rb)); [|lia]. reflexivity. }
      rewrite Hput1 in I1, C1.
      destruct (put1_spec _ p2 I1 Hsz ltac:(lia)) as (I2 & C2); [right; cbn [buf size r w is_empty]; lia|].
      assert (Heq : set_nonempty (if w (set_w (set_buf rb (ztake 0 b1 ++ p2 ++ zdrop (0 + zlen p2) b1)) (zlen p - (size rb - w rb)))
                                     =? size (set_w (set_buf rb (ztake 0 b1 ++ p2 ++ zdrop (0 + zlen p2) b1)) (zlen p - (size rb - w rb)))
                                  then set_w (set_w (set_buf rb (ztake 0 b1 ++ p2 ++ zdrop (0 + zlen p2) b1)) (zlen p - (size rb - w rb))) 0
                                  else set_w (set_buf rb (ztake 0 b1 ++ p2 ++ zdrop (0 + zlen p2) b1)) (zlen p - (size rb - w rb)))
                    = put1 (mkRing b1 (size rb) (r rb) 0 false) p2).
      { unfold put1, set_nonempty, set_w, set_buf; cbn [buf size r w is_empty].
        destruct (Z.ltb_spec 0 (zlen p2)); [|lia].
        destruct (Z.eqb_spec (zlen p - (size rb - w rb)) (size rb)) as [He|He]; [lia|]; cbn [buf size r w is_empty].
        rewrite Z.add_0_l, Z.mod_small by lia. rewrite Hp2l. reflexivity. }
      rewrite Heq. split; [exact I2|]. rewrite C2, C1, <- app_assoc. f_equal.
      subst p1 p2. apply ztake_zdrop_id.
  - (* free space: buf[w:r) *)
    assert (Havail : Available rb = r rb - w rb).
    { unfold Available. destruct (Z.eqb_spec (r rb) (w rb)); [lia|].
      destruct (Z.ltb_spec (w rb) (r rb)); lia. }
    rewrite copy_at_ok by lia. cbn [obind]. eexists. split; [reflexivity|]. cbn zeta.
    assert (Heq : set_nonempty (if w (set_w (set_buf rb (ztake (w rb) (buf rb) ++ p ++ zdrop (w rb + zlen p) (buf rb))) (w rb + zlen p))
                                   =? size (set_w (set_buf rb (ztake (w rb) (buf rb) ++ p ++ zdrop (w rb + zlen p) (buf rb))) (w rb + zlen p))
                                then set_w (set_w (set_buf rb (ztake (w rb) (buf rb) ++ p ++ zdrop (w rb + zlen p) (buf rb))) (w rb + zlen p)) 0
                                else set_w (set_buf rb (ztake (w rb) (buf rb) ++ p ++ zdrop (w rb + zlen p) (buf rb))) (w rb + zlen p))
                  = put1 rb p).
    { unfold put1, set_nonempty, set_w, set_buf; cbn [buf size r w is_empty].
      destruct (Z.ltb_spec 0 (zlen p)); [|lia].
      destruct (Z.eqb_spec (w rb + zlen p) (size rb)) as [He|He]; [lia|]; cbn [buf size r w is_empty].
      rewrite Z.mod_small by lia. reflexivity. }
    rewrite Heq. apply put1_spec; trivial; try lia. right. lia.
Qed.

Lemma Write_spec rb p : ring_inv rb -> zlen p <= 4611686018427387904 ->
  exists rb', Write rb p = Ret (rb', (zlen p, ENil)) /\ ring_inv rb' /\ content rb' = content rb ++ p.
Proof.
  intros Hi Hbig. unfold Write. cbn zeta.
  destruct (Z.eqb_spec (zlen p) 0) as [H0|H0].
  - exists rb. rewrite (zlen_zero_nil p H0) at 3. rewrite app_nil_r. splits; trivial.
  - pose proof (zlen_nonneg p) as Hp0.
    pose proof (available_eq rb Hi) as Hav. pose proof (accounting rb Hi) as (_ & Hb0 & Ha0 & _).
    assert (Hg : exists rb1, (if zlen p >? Available rb then grow rb (size rb + zlen p - Available rb) else Ret rb) = Ret rb1 /\
                   ring_inv rb1 /\ content rb1 = content rb /\ zlen p <= Available rb1).
    { rewrite Z.gtb_ltb. destruct (Z.ltb_spec (Available rb) (zlen p)) as [Hlt|Hge].
      - destruct (grow_spec rb (size rb + zlen p - Available rb) Hi ltac:(lia) ltac:(lia)) as (rb1 & G & I1 & C1 & S1 & S2).
        exists rb1. splits; trivial.
        rewrite (available_eq rb1 I1), (buffered_content rb1 I1), C1, <- (buffered_content rb Hi). lia.
      - exists rb. splits; trivial. }
    destruct Hg as (rb1 & G & I1 & C1 & Hroom). rewrite G. cbn [obind].
    destruct (Write_room rb1 p I1 ltac:(lia)) as (rb2 & W & I2 & C2).
    cbn zeta in W. rewrite W. cbn [obind]. eexists. split; [reflexivity|]. cbn zeta in I2, C2.
    rewrite <- C1. split; assumption.
Qed.

(* ---- WriteByte ---- *)
Lemma WriteByte_spec rb c : ring_inv rb ->
  exists rb', WriteByte rb c = Ret (rb', ENil) /\ ring_inv rb' /\ content rb' = content rb ++ [c].
Proof.
  intros Hi. unfold WriteByte.
  pose proof (available_eq rb Hi) as Hav. pose proof (accounting rb Hi) as (_ & Hb0 & Ha0 & _).
  assert (Hg : exists rb1, (if Available rb <? 1 then grow rb (size rb + 1) else Ret rb) = Ret rb1 /\
                 ring_inv rb1 /\ content rb1 = content rb /\ 1 <= Available rb1).
  { destruct (Z.ltb_spec (Available rb) 1) as [Hlt|Hge].
    - destruct (grow_spec rb (size rb + 1) Hi ltac:(lia) ltac:(lia)) as (rb1 & G & I1 & C1 & S1 & S2).
      exists rb1. splits; trivial.
      rewrite (available_eq rb1 I1), (buffered_content rb1 I1), C1, <- (buffered_content rb Hi). lia.
    - exists rb. splits; trivial. }
  destruct Hg as (rb1 & G & I1 & C1 & Hroom). rewrite G. cbn [obind]. rewrite <- C1.
  clear G Hav Hb0 Ha0 C1 Hi rb. rename rb1 into rb, I1 into Hi.
  pose proof (size_nonneg rb Hi) as Hs.
  pose proof (available_eq rb Hi) as Hav. pose proof (accounting rb Hi) as (_ & Hb0 & Ha0 & _).
  assert (Hsz : 0 < size rb) by lia.
  assert (Hbounds : 0 <= r rb < size rb /\ 0 <= w rb < size rb /\ zlen (buf rb) = size rb).
  { destruct (is_empty rb) eqn:E; [|apply nonempty_bounds; assumption].
    inv_destr Hi. destruct (Hemp E) as [-> ->]. lia. }
  destruct Hbounds as (Hr & Hw & Hl).
  assert (Hfull : r rb = w rb -> is_empty rb = true).
  { intros Hrw. destruct (is_empty rb) eqn:E; [reflexivity|].
    unfold Available in Hroom. rewrite E in Hroom. destruct (Z.eqb_spec (r rb) (w rb)); lia. }
  assert (Hz1 : zlen [c] = 1) by reflexivity.
  rewrite copy_at_ok by lia. cbn [obind]. eexists. split; [reflexivity|].
  assert (Heq : set_nonempty (if w (set_w (set_buf rb (ztake (w rb) (buf rb) ++ [c] ++ zdrop (w rb + zlen [c]) (buf rb))) (w rb + 1))
                                 =? size (set_w (set_buf rb (ztake (w rb) (buf rb) ++ [c] ++ zdrop (w rb + zlen [c]) (buf rb))) (w rb + 1))
                              then set_w (set_w (set_buf rb (ztake (w rb) (buf rb) ++ [c] ++ zdrop (w rb + zlen [c]) (buf rb))) (w rb + 1)) 0
                              else set_w (set_buf rb (ztake (w rb) (buf rb) ++ [c] ++ zdrop (w rb + zlen [c]) (buf rb))) (w rb + 1))
                = put1 rb [c]).
  { unfold put1, set_nonempty, set_w, set_buf; cbn [buf size r w is_empty]. rewrite Hz1.
    destruct (Z.ltb_spec 0 1); [|lia].
    destruct (Z.eqb_spec (w rb + 1) (size rb)) as [He|He]; cbn [buf size r w is_empty].
    - rewrite He, Z.mod_same by lia. reflexivity.
    - rewrite Z.mod_small by lia. reflexivity. }
  rewrite Heq. apply put1_spec; trivial; try lia.
  destruct (Z_le_gt_dec (r rb) (w rb)).
  - left. splits; trivial; lia.
  - right. unfold Available in Hroom. destruct (Z.eqb_spec (r rb) (w rb)); [lia|].
    destruct (Z.ltb_spec (w rb) (r rb)); lia.
Qed.
