(* C16 — address parsing and option normalisation are total and exact.
   Statements only; proofs live in Proofs/AddrProofs.v.  The model
   (Model/Addr.v) is a transcription of gnet.parseProtoAddr on top of the Go
   1.23.5 net/url.Parse / path.Join code path; the predicates host_ok,
   grammar_hostb, scheme_ok, path_ok are boolean functions on byte strings
   defined in Spec/AddrGrammar.v.  :// is [58; 47; 47]. *)
From GV Require Import Lib.Trace Model.Arith Model.Addr Spec.AddrGrammar Proofs.ArithProofs Proofs.AddrProofs.
Open Scope Z_scope.
Open Scope list_scope.

(* every byte string: never a panic; a url.Parse error is passed on; otherwise
   the invalid-address error exactly for an empty scheme / an empty host or a
   non-empty path on tcp*/udp* / nothing after unix://, the unsupported-protocol
   error exactly for any other non-empty scheme, and a success carries one of
   the seven schemes and a non-empty endpoint (the host for tcp*/udp*, the
   cleaned joined path for unix) *)
Theorem C16_parse_total_classified : forall a : bytes,
  parse_proto_addr a <> PPanic /\
  ((url_parse (escape_pct a) = RErr /\ parse_proto_addr a = PErr EUrl) \/
   (exists u, url_parse (escape_pct a) = ROk u /\
     (parse_proto_addr a = PErr EInvalid <->
        u_scheme u = [] \/
        (In (u_scheme u) inet_schemes /\ (u_host u = [] \/ u_path u <> [])) \/
        (u_scheme u = s_unix /\ u_host u = [] /\ u_path u = [])) /\
     (parse_proto_addr a = PErr EUnsupported <->
        u_scheme u <> [] /\ ~ In (u_scheme u) (s_unix :: inet_schemes)) /\
     parse_proto_addr a <> PErr EUrl /\
     (forall s ep, parse_proto_addr a = POk s ep ->
        s = u_scheme u /\ In s (s_unix :: inet_schemes) /\ ep <> [] /\
        (In s inet_schemes -> ep = u_host u /\ u_path u = []) /\
        (s = s_unix -> ep = path_join (u_host u) (u_path u))))).
Proof. exact parse_total_classified. Qed.
Print Assumptions C16_parse_total_classified.

Theorem C16_parse_result_shape : forall a : bytes,
  (exists e, parse_proto_addr a = PErr e) \/
  (exists s ep, parse_proto_addr a = POk s ep /\ In s (s_unix :: inet_schemes) /\ ep <> []).
Proof. exact parse_result_shape. Qed.
Print Assumptions C16_parse_result_shape.

(* an address without ':' has no scheme: invalid-address (or a url.Parse error) *)
Theorem C16_parse_missing_scheme : forall a : bytes, ~ In 58 a ->
  parse_proto_addr a = PErr EInvalid \/ parse_proto_addr a = PErr EUrl.
Proof. exact parse_no_colon. Qed.
Print Assumptions C16_parse_missing_scheme.

(* endpoint exactly as written, widest form: any scheme spelling whose lower
   case is one of the six inet schemes, any non-empty host[:port] made of bytes
   url.Parse accepts literally in a host (all non-ASCII bytes, alphanumerics,
   -._~ !$&'()*+,;= :[]<> double-quote, and '%' anywhere) with an optional :digits after
   the last ']' (bracketed) or the last ':' (otherwise) *)
Theorem C16_parse_exact_inet : forall s h : bytes,
  In (lower s) inet_schemes -> host_ok h = true ->
  parse_proto_addr (s ++ [58; 47; 47] ++ h) = POk (lower s) h.
Proof. exact parse_exact_inet. Qed.
Print Assumptions C16_parse_exact_inet.

(* the grammar of the statement is inside host_ok:
   reg-name | IPv4 | [ IPv6 [ % zone ] ] , optional : port *)
Theorem C16_grammar_in_host_ok : forall h : bytes, grammar_hostb h = true -> host_ok h = true.
Proof. exact grammar_host_ok. Qed.
Print Assumptions C16_grammar_in_host_ok.

Theorem C16_parse_exact_inet_grammar : forall s h : bytes,
  In (lower s) inet_schemes -> grammar_hostb h = true ->
  parse_proto_addr (s ++ [58; 47; 47] ++ h) = POk (lower s) h.
Proof. exact parse_exact_inet_grammar. Qed.
Print Assumptions C16_parse_exact_inet_grammar.

(* empty endpoint or a path on tcp*/udp*: the invalid-address error *)
Theorem C16_parse_inet_invalid : forall s h p : bytes,
  In (lower s) inet_schemes -> host_ok0 h = true -> path_ok p = true ->
  h = [] \/ p <> [] ->
  parse_proto_addr (s ++ [58; 47; 47] ++ h ++ p) = PErr EInvalid.
Proof. exact parse_inet_invalid. Qed.
Print Assumptions C16_parse_inet_invalid.

(* unix: the cleaned path *)
Theorem C16_parse_unix_clean : forall s h p : bytes,
  lower s = s_unix -> host_ok0 h = true -> path_ok p = true ->
  parse_proto_addr (s ++ [58; 47; 47] ++ h ++ p) =
  if is_nil h && is_nil p then PErr EInvalid else POk s_unix (path_join h p).
Proof. exact parse_unix_clean. Qed.
Print Assumptions C16_parse_unix_clean.

Theorem C16_parse_unix_clean_concat : forall s h p : bytes,
  lower s = s_unix -> host_ok0 h = true -> path_ok p = true -> h ++ p <> [] ->
  parse_proto_addr (s ++ [58; 47; 47] ++ h ++ p) = POk s_unix (path_clean (h ++ p)).
Proof. exact parse_unix_clean_concat. Qed.
Print Assumptions C16_parse_unix_clean_concat.

Theorem C16_path_clean_nonempty : forall p : bytes, path_clean p <> [].
Proof. exact path_clean_nonempty. Qed.
Print Assumptions C16_path_clean_nonempty.

(* any other well-formed scheme: the unsupported-protocol error *)
Theorem C16_parse_unsupported : forall s h p : bytes,
  scheme_ok s = true -> ~ In (lower s) (s_unix :: inet_schemes) ->
  host_ok0 h = true -> path_ok p = true ->
  parse_proto_addr (s ++ [58; 47; 47] ++ h ++ p) = PErr EUnsupported.
Proof. exact parse_unsupported. Qed.
Print Assumptions C16_parse_unsupported.

(* Read/WriteBufferCap: partial — the request must not exceed 2^62 (above it no
   int power of two exists and the code panics: C16_cap_normalised_refuted) *)
Theorem C16_cap_normalised_partial : forall req,
  -9223372036854775808 <= req < 9223372036854775808 -> req <= 4611686018427387904 ->
  exists r, norm_cap 65536 req = Ret r /\
    (exists k, 0 <= k /\ r = 2^k) /\ req <= r /\ 1024 <= r /\
    (req <= 0 -> r = 65536) /\
    (0 < req -> forall j, 0 <= j -> Z.max req 1024 <= 2^j -> r <= 2^j).
Proof. exact cap_normalised_partial. Qed.
Print Assumptions C16_cap_normalised_partial.

Theorem C16_cap_normalised_refuted :
  exists req, (-9223372036854775808 <= req < 9223372036854775808) /\ norm_cap 65536 req = Panic.
Proof. exact cap_normalised_refuted. Qed.
Print Assumptions C16_cap_normalised_refuted.

Theorem C16_cap_full_statement_false : ~ cap_normalised_full_statement.
Proof. exact cap_normalised_full_statement_false. Qed.
Print Assumptions C16_cap_full_statement_false.

Theorem C16_cap_panics_above : forall req,
  -9223372036854775808 <= req < 9223372036854775808 -> 4611686018427387904 < req ->
  norm_cap 65536 req = Panic.
Proof. exact cap_panics_above. Qed.
Print Assumptions C16_cap_panics_above.

(* EdgeTriggeredIOChunk, same bound *)
Theorem C16_chunk_normalised_partial : forall chunk et,
  -9223372036854775808 <= chunk < 9223372036854775808 -> chunk <= 4611686018427387904 ->
  (0 < chunk -> exists r, norm_chunk chunk et = Ret (r, true) /\
                          (exists k, 0 <= k /\ r = 2^k) /\ chunk <= r /\
                          forall j, 0 <= j -> Z.max chunk 2 <= 2^j -> r <= 2^j) /\
  (chunk <= 0 -> et = true -> norm_chunk chunk et = Ret (1048576, true)) /\
  (chunk <= 0 -> et = false -> norm_chunk chunk et = Ret (chunk, false)).
Proof. exact chunk_normalised_partial. Qed.
Print Assumptions C16_chunk_normalised_partial.

Theorem C16_chunk_panics_above : forall chunk et,
  -9223372036854775808 <= chunk < 9223372036854775808 -> 4611686018427387904 < chunk ->
  norm_chunk chunk et = Panic.
Proof. exact chunk_panics_above. Qed.
Print Assumptions C16_chunk_panics_above.

(* the three options together, in source order *)
Theorem C16_normalise_ok : forall rbc wbc chunk et,
  -9223372036854775808 <= rbc < 9223372036854775808 ->
  -9223372036854775808 <= wbc < 9223372036854775808 ->
  -9223372036854775808 <= chunk < 9223372036854775808 ->
  rbc <= 4611686018427387904 -> wbc <= 4611686018427387904 -> chunk <= 4611686018427387904 ->
  exists r w c e, normalise 65536 rbc wbc chunk et = Ret (r, w, c, e) /\
    norm_cap 65536 rbc = Ret r /\ norm_cap 65536 wbc = Ret w /\ norm_chunk chunk et = Ret (c, e).
Proof. exact normalise_ok. Qed.
Print Assumptions C16_normalise_ok.

(* number of event loops: 1..256 according to Multicore / NumEventLoop *)
Theorem C16_loops_clamped : forall numcpu multicore n, 1 <= numcpu ->
  let r := determine_event_loops numcpu multicore n in
  1 <= r <= 256 /\
  (0 < n -> r = Z.min n 256) /\
  (n <= 0 -> multicore = true -> r = Z.min numcpu 256) /\
  (n <= 0 -> multicore = false -> r = 1).
Proof. exact loops_clamped. Qed.
Print Assumptions C16_loops_clamped.

(* ---- non-vacuity: concrete instances, evaluated by the kernel ---- *)
(* udp://[ff02::3%lo0]:9991  (the example in gnet.go) *)
Example C16_ex_zone :
  grammar_hostb [91;102;102;48;50;58;58;51;37;108;111;48;93;58;57;57;57;49] = true /\
  parse_proto_addr ([117;100;112] ++ [58;47;47] ++ [91;102;102;48;50;58;58;51;37;108;111;48;93;58;57;57;57;49])
  = POk s_udp [91;102;102;48;50;58;58;51;37;108;111;48;93;58;57;57;57;49].
Proof. split; vm_compute; reflexivity. Qed.
(* TCP6://[fe80::1%25%2525]:80 : zone made of '%', digits and 25 *)
Example C16_ex_zone_pct :
  grammar_hostb [91;102;101;56;48;58;58;49;37;50;53;37;50;53;50;53;93;58;56;48] = true /\
  In (lower [84;67;80;54]) inet_schemes /\
  parse_proto_addr ([84;67;80;54] ++ [58;47;47] ++ [91;102;101;56;48;58;58;49;37;50;53;37;50;53;50;53;93;58;56;48])
  = POk s_tcp6 [91;102;101;56;48;58;58;49;37;50;53;37;50;53;50;53;93;58;56;48].
Proof. split; [|split]; vm_compute; auto 10. Qed.
(* tcp://a%41b:80 : '%' outside a zone also survives (host_ok, not in the grammar) *)
Example C16_ex_pct_host :
  host_ok [97;37;52;49;98;58;56;48] = true /\ grammar_hostb [97;37;52;49;98;58;56;48] = false /\
  parse_proto_addr ([116;99;112] ++ [58;47;47] ++ [97;37;52;49;98;58;56;48]) = POk s_tcp [97;37;52;49;98;58;56;48].
Proof. repeat split; vm_compute; reflexivity. Qed.
(* unix://tmp/../a//b/./c/ -> a/b/c ; unix:/// -> / ; unix:// -> invalid *)
Example C16_ex_unix :
  host_ok0 [116;109;112] = true /\ path_ok [47;46;46;47;97;47;47;98;47;46;47;99;47] = true /\
  parse_proto_addr (s_unix ++ [58;47;47] ++ [116;109;112] ++ [47;46;46;47;97;47;47;98;47;46;47;99;47])
  = POk s_unix [97;47;98;47;99] /\
  parse_proto_addr (s_unix ++ [58;47;47] ++ [] ++ [47]) = POk s_unix [47] /\
  parse_proto_addr (s_unix ++ [58;47;47] ++ [] ++ []) = PErr EInvalid.
Proof. repeat split; vm_compute; reflexivity. Qed.
(* tcp://h:80/x invalid; http://h unsupported; host:80 unsupported (scheme = host);
   127.0.0.1:80 url error; localhost invalid *)
Example C16_ex_errors :
  parse_proto_addr [116;99;112;58;47;47;104;58;56;48;47;120] = PErr EInvalid /\
  parse_proto_addr [104;116;116;112;58;47;47;104] = PErr EUnsupported /\
  parse_proto_addr [104;111;115;116;58;56;48] = PErr EUnsupported /\
  parse_proto_addr [49;50;55;46;48;46;48;46;49;58;56;48] = PErr EUrl /\
  parse_proto_addr [108;111;99;97;108;104;111;115;116] = PErr EInvalid.
Proof. repeat split; vm_compute; reflexivity. Qed.
Example C16_ex_norm :
  normalise 65536 0 1025 3 false = Ret (65536, 2048, 4, true) /\
  normalise 65536 1 1024 0 true = Ret (1024, 1024, 1048576, true) /\
  normalise 65536 (-5) 65537 (-1) false = Ret (65536, 131072, -1, false) /\
  normalise 65536 4611686018427387905 0 0 false = Panic /\
  determine_event_loops 16 true 0 = 16 /\ determine_event_loops 16 true 1000 = 256 /\
  determine_event_loops 1024 true (-1) = 256 /\ determine_event_loops 16 false 0 = 1.
Proof. repeat split; vm_compute; reflexivity. Qed.
