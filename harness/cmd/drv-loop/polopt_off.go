//go:build !poll_opt

package main

// built against the default poller (poller_epoll_default.go, reactor_default.go)
const pollOpt = false
