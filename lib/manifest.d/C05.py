CHECK = dict(
    engine="footprint", design_ref="4 / C05",
    text="proof, partial - the Go memory model, completeness of the static footprint and absence of races inside dependencies are "
         "assumed. Proved once and for all (Coq, all executions = all interleavings of any number of goroutines, objects and "
         "steps): an execution of memory accesses (thread, location, read/write/atomic) and synchronisation edges in which every "
         "access is made by the current ghost owner, and ownership is given up only at the owner's synchronisation releases, has no "
         "data race (race_free_sound); and every execution that conforms to a footprint table the executable checker "
         "race_free_table accepts - each access an instance of a table access of the thread's role, made by the creator before "
         "publication or happening-after it, single-goroutine roles touching their own objects - satisfies that discipline "
         "(table_sound). The table (fields read/written, atomic marking, ownership, guards, per thread role: every concurrency-safe "
         "API function, worker closures, loop, acceptor, ticker, engine goroutine), the list of ALL writers of every field, the "
         "user-callback sites and the Trigger'ed functions are re-extracted from the current source with go/types on every run and "
         "Coq re-checks race_free_table gen_writers exceptions gen_footprint = true, gen_writers = justified_writers (field classes "
         "are computed from it; conn.loop has constructor writers only), writers_cover, exceptions_all_used (closed, tight "
         "exception list) and confined_sites (callbacks are invoked only by loop-thread code). Confinement on the loop model: every "
         "cb/acb/exec event an engine execution attributes to goroutine k comes from loop k's one sequential polling run, the "
         "projection on k equals that run's history (serial, schedule independent), different loops may overlap (witness). Dynamic "
         "search: goroutine identity and overlap of every callback on real multi-loop engines compared with the model's runner, "
         "and an API storm under the race detector for both connection registries.",
    note="Two deviations are recorded as known findings: Engine.CountConnections racing with engine start when the Engine handle "
         "taken in OnBoot is used immediately (confirmed by the race detector; a _refuted execution is proved racy), and the "
         "AsyncWrite callback of datagram connections running on the caller's goroutine (documented by gnet). One race introduced "
         "by an earlier fix (AsyncWrite on connected UDP reading c.opened) was found and is fixed in /repo (fb8bd3f). Eleven "
         "accesses are accepted through hand-justified exceptions (unreachable error path of accept0, eventfd overflow scratch "
         "buffer, fields assigned before the reader goroutine is started). Instance confinement of loops, the translator and the "
         "race detector are trusted; poll_opt variant, Engine.Register/Dup, Client.Enroll are out of scope.",
    technique="Coq proof (happens-before/ownership invariant; table soundness by construction of the ghost owner) + go/types "
              "footprint translator with per-run Coq obligations + goroutine-identity traces against the extracted model + race-detector storm",
)
ENGINE = dict(name="footprint", path="coq/Model/FootprintCore.v", serves_properties=["C05"],
              kind_free_text="execution/happens-before/ownership theory, footprint-table checker and writers data "
                             "(Model/Footprint.v) + genfootprint translator + drv-race (confinement monitor, -race storm)")
