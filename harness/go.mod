module verifharness

go 1.20

require (
	github.com/panjf2000/gnet/v2 v2.0.0
	golang.org/x/sys v0.30.0
)

require (
	github.com/panjf2000/ants/v2 v2.12.1 // indirect
	go.uber.org/multierr v1.11.0 // indirect
	go.uber.org/zap v1.28.0 // indirect
	golang.org/x/sync v0.11.0 // indirect
	gopkg.in/natefinch/lumberjack.v2 v2.2.1 // indirect
)

replace github.com/panjf2000/gnet/v2 => /repo
