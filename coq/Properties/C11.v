(* C11 — placeholder while the machinery is being built *)
From GV Require Import Lib.Trace Model.LList.
