(* What each ring.Buffer operation must do, stated on the abstract FIFO content
   (Spec/Fifo.v) only: [ring_op_spec q o x q'] relates the content before, the
   operation, its observable result and the content after.  ReadFrom / WriteTo
   are relations (how much a reader delivers or a writer accepts is their
   choice); everything else is a function of the content. *)
From GV Require Import Lib.Trace Model.Ring Spec.Fifo.
Open Scope Z_scope.

(* ---- representation invariant and abstraction function of the model ---- *)
Definition ring_inv (rb : ring) : Prop :=
  zlen (buf rb) = size rb /\ 0 <= r rb /\ 0 <= w rb /\
  (is_empty rb = true -> r rb = 0 /\ w rb = 0) /\
  (is_empty rb = false -> r rb < size rb /\ w rb < size rb).

Definition content (rb : ring) : fifo :=
  if is_empty rb then [] else
  if r rb <? w rb then ztake (w rb - r rb) (zdrop (r rb) (buf rb))
  else (zdrop (r rb) (buf rb) ++ ztake (w rb) (buf rb))%list.

(* arguments a Go caller can supply: len(p) >= 0, and no slice of 2^62 bytes or more *)
Definition op_wf (o : op) : Prop :=
  match o with
  | OWrite p | OWriteString p => zlen p <= 4611686018427387904
  | ORead n => 0 <= n
  | _ => True
  end.

Definition ring_op_spec (q : fifo) (o : op) (x : out) (q' : fifo) : Prop :=
  match o, x with
  | OWrite p, RWrite n e | OWriteString p, RWrite n e =>
      n = zlen p /\ e = ENil /\ q' = fifo_push q p
  | OWriteByte c, RWriteByte e => e = ENil /\ q' = fifo_push q [c]
  | ORead n, RRead d k e =>
      (d, q') = fifo_take q n /\ k = zlen d /\
      e = (if (0 <? n) && fifo_is_empty q then EEmpty else ENil)
  | OReadByte, RReadByte b e =>
      match q with
      | [] => e = EEmpty /\ q' = []
      | x :: t => b = x /\ e = ENil /\ q' = t
      end
  | OPeek n, RPeek h t => (h ++ t)%list = (if n <=? 0 then q else fifo_peek q n) /\ q' = q
  | ODiscard n, RDiscard k e => e = ENil /\ k = zlen (fst (fifo_take q n)) /\ q' = snd (fifo_take q n)
  | OBytes, RBytes d => d = q /\ q' = q
  | OReadFrom src _, RReadFrom o =>
      (* exactly the k bytes the reader delivered are appended, k is reported *)
      exists k, 0 <= k <= zlen src /\ rf_n o = k /\ rf_src o = zdrop k src /\
                q' = fifo_push q (ztake k src)
  | OWriteTo _, RWriteTo o =>
      (* exactly the n bytes the writer accepted are consumed, n is reported;
         success means everything was flushed *)
      (wt_recv o, q') = fifo_take q (wt_n o) /\ 0 <= wt_n o <= fifo_len q /\
      (wt_err o = ENil -> q' = []) /\ (q = [] -> wt_err o = EEmpty)
  | OReset, RUnit => q' = []
  | OBuffered, RInt z => z = fifo_len q /\ q' = q
  | OIsEmpty, RBool b => b = fifo_is_empty q /\ q' = q
  | OAvailable, RInt _ | OCap, RInt _ | OLen, RInt _ => q' = q
  | OIsFull, RBool _ => q' = q
  | _, _ => False
  end.

Inductive fifo_run : fifo -> list op -> list out -> fifo -> Prop :=
| fifo_run_nil q : fifo_run q [] [] q
| fifo_run_cons q o x q1 ops xs q2 :
    ring_op_spec q o x q1 -> fifo_run q1 ops xs q2 -> fifo_run q (o :: ops) (x :: xs) q2.
