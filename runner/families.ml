(* family name -> extracted run function *)
let table : (string * (Model.line list -> Model.line list)) list = [
  ("arith", Model.run_arith);
]
