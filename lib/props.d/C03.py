_VATOMIC = [["sync/atomic", "atomic \"github.com/panjf2000/gnet/v2/pkg/vatomic\""]]
_VSYS = [["golang.org/x/sys/unix", "unix \"github.com/panjf2000/gnet/v2/pkg/vsys\""]]

PROP = dict(
    drivers=[
        dict(cmd="drv-wakeup", family="wakeup", shrink=False,
             unix_swap=["pkg/netpoll/poller_epoll_default.go"],
             swaps=[["pkg/netpoll/poller_epoll_default.go", _VATOMIC],
                    ["pkg/queue/lock_free_queue.go", _VATOMIC]]),
        dict(cmd="drv-wakeup", family="wakeup", variant="opt", tags="verif poll_opt", shrink=False,
             unix_swap=["pkg/netpoll/poller_epoll_ultimate.go"],
             swaps=[["pkg/netpoll/poller_epoll_ultimate.go", _VATOMIC],
                    ["pkg/queue/lock_free_queue.go", _VATOMIC],
                    ["pkg/netpoll/syscall_epoll_generic_linux.go", _VSYS]]),
    ],
    rule="WIP",
    trusted=[], assumptions=[],
)
