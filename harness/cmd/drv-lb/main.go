// drv-lb drives load_balancer.go (C15) through the export VerifLB: balancers
// over 1..256 fake event loops with scripted connection counts, accept/close
// sequences, address strings of every shape, the round-robin counter near
// 2^64, crc32 against hash/crc32 — and writes the trace consumed by the
// extracted model (family "lb").  integration.go runs real servers and checks
// that the loop `next` returned is the loop on which every callback runs.
package main

import (
	"flag"
	"fmt"
	"hash/crc32"
	"net"
	"strconv"
	"strings"

	gnet "github.com/panjf2000/gnet/v2"

	"verifharness/tr"
)

var w *tr.Writer

type strAddr string

func (strAddr) Network() string  { return "verif" }
func (s strAddr) String() string { return string(s) }

// interpreter state: the balancer under test + the oracle's own bookkeeping
type state struct {
	pol     string
	lb      *gnet.VerifLB
	n       int
	rrPrev  int    // previous round-robin pick (-1: none)
	rrClean bool   // no setctr since the previous pick
	rrExp   uint64 // the 64-bit counter value the harness expects (what it set, plus the picks since)
	tally   []int
	hashMap map[string]int
}

var st *state

func newState(pol string) {
	p := map[string]gnet.LoadBalancing{"rr": gnet.RoundRobin, "lc": gnet.LeastConnections, "hash": gnet.SourceAddrHash}[pol]
	st = &state{pol: pol, lb: gnet.VerifNewLB(p), rrPrev: -1, hashMap: map[string]int{}}
}

func parseAddr(tok string) net.Addr {
	if tok == "nil" {
		return nil
	}
	return strAddr(tr.L("", tok).Bytes(0))
}

// the property evaluated directly on the implementation
func oracleNext(op string, addrTok string, pos, idx int, panicked bool, ctrBefore uint64) {
	bad := func(sig, detail string) {
		w.Fail("next", "policy="+st.pol+" "+sig, fmt.Sprintf("%s n=%d %s", op, st.n, detail))
	}
	if st.n == 0 {
		return // no loop registered: outside the statement (size >= 1)
	}
	if panicked {
		if st.pol == "hash" && addrTok == "nil" {
			return // a nil net.Addr is not "an address"
		}
		bad("panic", addrTok)
		return
	}
	if pos < 0 || pos >= st.n {
		bad("not-a-registered-loop", fmt.Sprintf("pos=%d", pos))
		return
	}
	if pos != idx {
		bad("idx-field-differs", fmt.Sprintf("pos=%d idx=%d", pos, idx))
	}
	switch st.pol {
	case "rr":
		// cyclic: successor of the previous pick (unless the counter was scripted or wrapped in between)
		// (the excuse is the wrap of a 64-bit counter, judged on the harness's own count, not on what the
		// implementation's counter reads: a narrower counter that wraps earlier is not excused)
		if st.rrPrev >= 0 && st.rrClean && st.rrExp != 0 {
			if pos != (st.rrPrev+1)%st.n {
				bad("not-cyclic", fmt.Sprintf("prev=%d got=%d", st.rrPrev, pos))
			}
		}
		st.rrExp++
		if want := int(ctrBefore % uint64(st.n)); pos != want {
			bad("not-counter-mod-size", fmt.Sprintf("ctr=%d got=%d", ctrBefore, pos))
		}
		st.rrPrev, st.rrClean = pos, true
	case "lc":
		c := st.lb.Count(pos)
		for i := 0; i < st.n; i++ {
			if st.lb.Count(i) < c {
				bad("not-minimal", fmt.Sprintf("picked %d (count %d) but loop %d has %d", pos, c, i, st.lb.Count(i)))
				break
			}
		}
	case "hash":
		s := string(tr.L("", addrTok).Bytes(0))
		if prev, ok := st.hashMap[s]; ok && prev != pos {
			bad("same-address-different-loop", strconv.Quote(s))
		}
		st.hashMap[s] = pos
		if want := int(crc32.ChecksumIEEE([]byte(s))) % st.n; pos != want {
			bad("not-crc32-mod-size", strconv.Quote(s))
		}
	}
}

func exec(name string, a []string) {
	l := tr.L(name, a...)
	switch name {
	case "new":
		w.Op(l)
		newState(a[0])
	case "reg":
		w.Op(l)
		idx := st.lb.Register()
		st.n++
		st.tally = append(st.tally, 0)
		st.hashMap = map[string]int{} // the assignment is a function of the address for a FIXED set of loops
		st.rrClean = false
		w.Obs(tr.L("idx", tr.I(idx), tr.I(st.lb.Len())))
		if idx != st.n-1 || st.lb.Len() != st.n {
			w.Fail("register", "idx-or-len", fmt.Sprintf("idx=%d len=%d after %d registrations", idx, st.lb.Len(), st.n))
		}
	case "cnt":
		w.Op(l)
		if i := l.Int(0); i >= 0 && i < st.n {
			st.lb.SetCount(i, int32(l.Int(1)))
		}
	case "setctr":
		w.Op(l)
		c, _ := strconv.ParseUint(a[0], 10, 64)
		st.lb.SetRRCounter(c)
		st.rrClean = false
		st.rrExp = c
	case "next", "accept":
		w.Op(l)
		addr := parseAddr(a[0])
		ctr, _ := st.lb.RRCounter()
		var pos, idx int
		p, _ := tr.Guard(func() { pos, idx = st.lb.Next(addr) })
		if p {
			w.Obs(tr.L("el", "panic"))
		} else {
			w.Obs(tr.L("el", tr.I(pos)))
		}
		oracleNext(name, a[0], pos, idx, p, ctr)
		if !p && name == "accept" && pos >= 0 && pos < st.n {
			st.lb.SetCount(pos, st.lb.Count(pos)+1)
			st.tally[pos]++
		}
	case "close":
		w.Op(l)
		if i := l.Int(0); i >= 0 && i < st.n {
			st.lb.SetCount(i, st.lb.Count(i)-1)
		}
	case "index":
		w.Op(l)
		var r int
		p, _ := tr.Guard(func() { r = st.lb.Index(l.Int(0)) })
		switch {
		case p:
			w.Obs(tr.L("ix", "panic"))
		case r < 0:
			w.Obs(tr.L("ix", "nil"))
		default:
			w.Obs(tr.L("ix", tr.I(r)))
		}
		if i := l.Int(0); !p && i >= 0 && i < st.n && r != i {
			w.Fail("index", "wrong-loop", fmt.Sprintf("index(%d)=%d", i, r))
		}
	case "len":
		w.Op(l)
		w.Obs(tr.L("len", tr.I(st.lb.Len())))
	case "iter":
		w.Op(l)
		vis, agree := st.lb.Iterate(l.Int(0))
		args := make([]string, len(vis))
		for i, v := range vis {
			args[i] = tr.I(v)
		}
		w.Obs(tr.L("it", args...))
		if !agree {
			w.Fail("iterate", "index-differs-from-el.idx", "")
		}
	case "crc":
		w.Op(l)
		w.Obs(tr.L("crc", tr.U64(uint64(crc32.ChecksumIEEE(l.Bytes(0))))))
	case "hash":
		w.Op(l)
		h := gnet.VerifHash(string(l.Bytes(0)))
		w.Obs(tr.L("h", tr.I(h)))
		if h < 0 || h != int(crc32.ChecksumIEEE(l.Bytes(0))) {
			w.Fail("hash", "negative-or-not-crc32", strconv.Quote(string(l.Bytes(0))))
		}
	case "balance":
		// oracle directive (the model ignores it): after k*N accepts every loop must have received exactly k
		w.Op(l)
		k := l.Int(0)
		for i, t := range st.tally {
			if t != k {
				w.Fail("next", "policy=rr not-balanced", fmt.Sprintf("loop %d received %d of %d*%d accepts", i, t, k, st.n))
				break
			}
		}
	case "int":
		w.Op(l)
		runScenario(a[0], 150, tr.NewRand(15))
	default:
		panic("unknown op " + name)
	}
}

// ---------------------------------------------------------------- generator

var cid int

func newCase(tag string) {
	cid++
	w.Case(fmt.Sprintf("lb%d", cid), "lb")
	w.Tag(tag)
}

func setup(pol string, n int) {
	exec("new", []string{pol})
	for i := 0; i < n; i++ {
		exec("reg", nil)
	}
}

func randAddr(r *tr.Rand) string {
	switch r.Intn(10) {
	case 0, 1, 2:
		return (&net.TCPAddr{IP: net.IP(r.Bytes(4)), Port: r.Intn(65536)}).String()
	case 3, 4:
		return (&net.TCPAddr{IP: net.IP(r.Bytes(16)), Port: r.Intn(65536)}).String()
	case 5:
		ip := net.IP(r.Bytes(16))
		ip[0], ip[1] = 0xfe, 0x80
		return (&net.TCPAddr{IP: ip, Port: r.Intn(65536), Zone: []string{"eth0", "lo", "4", "9999", "wlan0.1"}[r.Intn(5)]}).String()
	case 6:
		return (&net.UnixAddr{Name: string(randPath(r)), Net: "unix"}).String()
	case 7:
		return ""
	case 8:
		return string(r.Bytes(r.Intn(40)))
	default:
		return (&net.UDPAddr{IP: net.IPv4(127, 0, 0, 1), Port: 1024 + r.Intn(8)}).String()
	}
}

func randPath(r *tr.Rand) []byte {
	n := r.Pick([]int{0, 1, 2, 5, 17, 64, 107})
	b := make([]byte, n)
	for i := range b {
		b[i] = byte("abcdefghijklmnopqrstuvwxyz/._-@"[r.Intn(31)])
	}
	return b
}

func sizes(tier string) []int {
	if tier == "thorough" {
		out := make([]int, 256)
		for i := range out {
			out[i] = i + 1
		}
		return out
	}
	return []int{1, 2, 3, 4, 5, 6, 7, 8, 9, 10, 12, 15, 16, 17, 24, 31, 32, 33, 48, 63, 64, 65, 96, 100, 127, 128, 129, 192, 200, 250, 255, 256}
}

func generate(seed uint64, tier string) {
	r := tr.NewRand(seed)
	mult := 1
	if tier == "thorough" {
		mult = 10
	}
	// 1. round robin: k*N accepts from a fresh balancer and from a random counter; every size 1..256
	for n := 1; n <= 256; n++ {
		newCase("rr-balanced")
		setup("rr", n)
		k := 1 + r.Intn(3)
		for i := 0; i < k*n; i++ {
			exec("accept", []string{"nil"})
		}
		exec("balance", []string{tr.I(k)})
		// then from an arbitrary counter value
		exec("new", []string{"rr"})
		for i := 0; i < n; i++ {
			exec("reg", nil)
		}
		c := r.U64() >> uint(r.Intn(64))
		if c > 1<<63 {
			c = 1 << 63
		}
		exec("setctr", []string{tr.U64(c)})
		for i := 0; i < k*n; i++ {
			exec("accept", []string{tr.X([]byte(randAddr(r)))})
		}
		exec("balance", []string{tr.I(k)})
		exec("len", nil)
		exec("iter", []string{"0"})
		exec("iter", []string{tr.I(1 + r.Intn(n))})
		for _, i := range []int{0, n - 1, n, n + 1, r.Intn(n), 1 << 40} {
			exec("index", []string{tr.I(i)})
		}
		exec("index", []string{"-1"})
		w.Hist(fmt.Sprintf("rr-size-%03d", n))
		w.End()
	}
	// 1b. the counter around 2^64
	for _, n := range []int{1, 2, 3, 4, 5, 7, 8, 16, 100, 255, 256} {
		newCase("rr-wrap")
		setup("rr", n)
		exec("setctr", []string{tr.U64(1<<64 - 1 - uint64(r.Intn(5)))})
		for i := 0; i < 12; i++ {
			exec("next", []string{"nil"})
		}
		exec("setctr", []string{tr.U64(1<<64 - 1)})
		exec("next", []string{"nil"})
		exec("next", []string{"nil"})
		w.Hist("rr-wrap")
		w.End()
	}
	// 1c. the counter around the widths a narrower counter type would have (2^16, 2^31, 2^32, 2^63):
	// the cycle must not notice them
	for _, n := range []int{3, 5, 7, 100, 255} {
		for _, bit := range []uint{16, 31, 32, 63} {
			newCase("rr-width")
			setup("rr", n)
			exec("setctr", []string{tr.U64(1<<bit - 1 - uint64(r.Intn(5)))})
			for i := 0; i < 12; i++ {
				exec("next", []string{"nil"})
			}
			w.Hist("rr-width")
			w.End()
		}
	}
	// 2. least connections: scripted count vectors
	for _, n := range sizes(tier) {
		newCase("lc-vectors")
		setup("lc", n)
		for rep := 0; rep < 12*mult; rep++ {
			mode := r.Intn(7)
			base := r.Intn(1000)
			for i := 0; i < n; i++ {
				var c int
				switch mode {
				case 0:
					c = base // all equal: first loop
				case 1:
					c = base + n - i // strictly decreasing: last loop
				case 2:
					c = base + i // increasing
				case 3:
					c = r.Intn(3) // many ties
				case 4:
					c = r.Intn(1 << 20)
				case 5:
					c = []int{0, 1<<31 - 1, 1 << 30}[r.Intn(3)]
				default:
					c = r.Intn(5) - 2 // negative counts cannot happen but the comparison is signed
				}
				exec("cnt", []string{tr.I(i), tr.I(c)})
			}
			if mode == 3 && n > 1 {
				exec("cnt", []string{tr.I(r.Intn(n)), "-1"})
			}
			exec("next", []string{"nil"})
			exec("next", []string{tr.X([]byte(randAddr(r)))})
			w.Hist(fmt.Sprintf("lc-mode-%d", mode))
		}
		w.End()
	}
	// 2b. accept/close sequences under least connections and round robin
	for rep := 0; rep < 30*mult; rep++ {
		pol := []string{"lc", "lc", "rr", "hash"}[r.Intn(4)]
		n := 1 + r.Intn(12)
		if r.Chance(20) {
			n = r.Pick([]int{16, 64, 256})
		}
		newCase("accept-close-" + pol)
		setup(pol, n)
		open := []int{}
		for step := 0; step < 300; step++ {
			if len(open) > 0 && r.Chance(40) {
				j := r.Intn(len(open))
				exec("close", []string{tr.I(open[j])})
				open = append(open[:j], open[j+1:]...)
				continue
			}
			a := tr.X([]byte(randAddr(r)))
			prevTally := append([]int(nil), st.tally...)
			exec("accept", []string{a})
			for i := range st.tally {
				if st.tally[i] != prevTally[i] {
					open = append(open, i)
				}
			}
		}
		w.Hist("accept-close-" + pol)
		w.End()
	}
	// 3. source address hash: every size 1..256 x address shapes; same address again later
	for n := 1; n <= 256; n++ {
		newCase("hash-addresses")
		setup("hash", n)
		addrs := []string{"", "127.0.0.1:80", "[::1]:80", "[fe80::fc:ff:fe00:1%eth0]:8080", "[fe80::1%4]:1", "/var/tmp/s.sock", "@abstract", "\x00", "a"}
		for k := 0; k < 40*mult; k++ {
			addrs = append(addrs, randAddr(r))
		}
		for _, a := range addrs {
			exec("next", []string{tr.X([]byte(a))})
		}
		for k := 0; k < 20; k++ {
			exec("next", []string{tr.X([]byte(addrs[r.Intn(len(addrs))]))})
		}
		exec("next", []string{"nil"})
		w.Hist(fmt.Sprintf("hash-size-%03d", n))
		w.End()
	}
	// 4. no loop registered: every policy panics, index/len/iterate do not
	newCase("empty-balancer")
	for _, pol := range []string{"rr", "lc", "hash"} {
		exec("new", []string{pol})
		exec("len", nil)
		exec("iter", []string{"0"})
		exec("index", []string{"0"})
		exec("index", []string{"-1"})
		exec("next", []string{"nil"})
		exec("next", []string{tr.X([]byte("127.0.0.1:1"))})
	}
	w.End()
	// 5. crc32 model vs hash/crc32, and hash() itself
	total := 10000 * mult
	for i := 0; i < total; {
		newCase("crc32")
		for j := 0; j < 500 && i < total; j++ {
			var b []byte
			switch r.Intn(4) {
			case 0:
				b = []byte(randAddr(r))
			case 1:
				b = r.Bytes(r.Intn(8))
			case 2:
				b = r.Bytes(r.Intn(200))
			default:
				b = []byte(strings.Repeat(string(rune('a'+r.Intn(26))), r.Intn(64)))
			}
			exec("crc", []string{tr.X(b)})
			exec("hash", []string{tr.X(b)})
			w.Hist(fmt.Sprintf("crc-len-%03d", len(b)/16*16))
			i++
		}
		w.End()
	}
}

func replay(path string) {
	for _, c := range tr.ReadCases(path) {
		w.Case(c.ID, "lb")
		w.Tag("replay")
		newState("rr")
		for _, op := range c.Ops {
			if p, msg := tr.Guard(func() { exec(op.Name, op.Args) }); p {
				w.Fail("replay", "driver-panic op="+op.Name, msg)
			}
		}
		w.End()
	}
}

func main() {
	seed := flag.Uint64("seed", 1, "")
	tier := flag.String("tier", "quick", "")
	out := flag.String("out", "trace.txt", "")
	stats := flag.String("stats", "", "")
	rep := flag.String("replay", "", "")
	noint := flag.Bool("nointegration", false, "skip the live-server part")
	flag.Parse()
	w = tr.NewWriter(*out)
	defer w.Close(*stats)
	newState("rr")
	if *rep != "" {
		replay(*rep)
		return
	}
	generate(*seed, *tier)
	if !*noint {
		integration(*seed, *tier)
	}
}
