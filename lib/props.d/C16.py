PROP = dict(
    gens=[dict(tool="gennorm", out="GenNorm.v", args=["{repo}"])],
    drivers=[dict(cmd="drv-addr", family="addr", netns=True)],
    rule="inputs: listen addresses, 70 % from a grammar (seven schemes in lower/mixed case, unknown / empty / malformed "
         "schemes, odd separators; hosts: reg-names, IPv4, bracketed IPv6 with and without zones incl. zones made of '%', "
         "digits and '25', bare IPv6, empty hosts, hosts with '%'; ports present / absent / empty / non-numeric; inet "
         "addresses with a path; unix paths with '..', '.', '//', trailing slashes, relative paths; userinfo, query, "
         "fragment) and 30 % byte-level mutations of those (insert / delete / flip / replace / duplicate / truncate with "
         "'%', '#', '?', '@', '[', ']', ':', control bytes, non-UTF-8) plus pure noise; option values: <=0, 1, 1023, 1024, "
         "1025, 64Ki+-1, every 2^k and 2^k+-1 up to 2^62, 2^62+1, MaxInt, random magnitudes, through NewClient and "
         "createListeners; NumEventLoop/Multicore combinations around 0, NumCPU, 256. A case is a batch of inputs, "
         "non-trivial when it reaches one of the generator / outcome classes; distinct by hash of its op lines",
    trusted=["translator harness/cmd/gennorm (go/ast -> Gallina for the option-normalisation switches, determineEventLoops, "
             "the constants and the scheme tables of parseProtoAddr)",
             "net/url.Parse, path.Join/Clean (Go 1.23.5) are modelled by hand (Model/Addr.v), not verified; the direct "
             "oracle uses the real url.Parse / path.Join as reference for the classification clause"],
    assumptions=["the theorems are about a transcription of the Go 1.23.5 net/url and path code restricted to Scheme/Host/Path; "
                 "a disagreement with the real url.Parse is a correspondence failure that means the model must be repaired",
                 "MaxStreamBufferCap has its initial value 65536 (it is an exported variable)",
                 "runtime.NumCPU() >= 1",
                 "math.CeilToPowerOfTwo as proved in C20 (ceil_spec)"],
)
