(* Proofs for C16 about the model in Model/Addr.v *)
From GV Require Import Lib.Trace Model.Arith Model.Addr Spec.AddrGrammar Proofs.ArithProofs.
From Coq Require Import Lia ZArith Bool List.
Import ListNotations.
Open Scope Z_scope.

Ltac zb :=
  repeat match goal with
  | H : (_ && _) = true |- _ => apply andb_true_iff in H; destruct H
  | H : (_ || _) = false |- _ => apply orb_false_iff in H; destruct H
  | H : negb _ = true |- _ => apply negb_true_iff in H
  | H : negb _ = false |- _ => apply negb_false_iff in H
  | H : (_ =? _) = true |- _ => apply Z.eqb_eq in H
  | H : (_ =? _) = false |- _ => apply Z.eqb_neq in H
  | H : (_ <=? _) = true |- _ => apply Z.leb_le in H
  | H : (_ <=? _) = false |- _ => apply Z.leb_gt in H
  | H : (_ <? _) = true |- _ => apply Z.ltb_lt in H
  | H : (_ <? _) = false |- _ => apply Z.ltb_ge in H
  end.

(* decide every comparison of the goal that involves the variable-free side *)
Ltac cmp :=
  repeat match goal with
  | |- context [?a =? ?b] => destruct (Z.eqb_spec a b); try lia
  | |- context [?a <=? ?b] => destruct (Z.leb_spec a b); try lia
  | |- context [?a <? ?b] => destruct (Z.ltb_spec a b); try lia
  end.

(* ------------------------------------------------------------------ *)
(* generic list / strings lemmas *)

Lemma bytes_eqb_eq a : forall b, bytes_eqb a b = true <-> a = b.
Proof.
  induction a as [|x a IH]; intros [|y b]; cbn; split; intros H; try congruence; try discriminate.
  - apply andb_true_iff in H. destruct H as [H1 H2]. apply Z.eqb_eq in H1. apply IH in H2. congruence.
  - inversion H; subst. rewrite Z.eqb_refl. cbn. apply IH. reflexivity.
Qed.

Lemma bytes_eqb_refl a : bytes_eqb a a = true.
Proof. apply bytes_eqb_eq. reflexivity. Qed.

Lemma is_nil_true a : is_nil a = true <-> a = [].
Proof. destruct a; cbn; split; congruence. Qed.

Lemma is_nil_false a : is_nil a = false <-> a <> [].
Proof. destruct a; cbn; split; congruence. Qed.

Lemma mem_In c l : mem c l = true <-> In c l.
Proof.
  unfold mem. rewrite existsb_exists. split.
  - intros (x & Hx & E). apply Z.eqb_eq in E. subst. assumption.
  - intros H. exists c. split; [assumption|apply Z.eqb_refl].
Qed.

Lemma mem_false_notin c l : mem c l = false <-> ~ In c l.
Proof.
  rewrite <- mem_In. destruct (mem c l); split; intros H; try congruence; try discriminate.
  all: try (exfalso; apply H; reflexivity).
  all: try (intros H2; discriminate).
Qed.

Lemma cut_notin sep s : ~ In sep s -> cut sep s = (s, [], false).
Proof.
  induction s as [|c t IH]; intros H; cbn; [reflexivity|].
  destruct (Z.eqb_spec c sep) as [->|Hne]; [exfalso; apply H; left; reflexivity|].
  rewrite IH; [reflexivity|]. intros Hin; apply H; right; assumption.
Qed.

Lemma cut_app_found sep a b : ~ In sep a -> cut sep (a ++ sep :: b) = (a, b, true).
Proof.
  induction a as [|c t IH]; intros H; cbn.
  - rewrite Z.eqb_refl. reflexivity.
  - destruct (Z.eqb_spec c sep) as [->|Hne]; [exfalso; apply H; left; reflexivity|].
    rewrite IH; [reflexivity|]. intros Hin; apply H; right; assumption.
Qed.

Lemma split_last_some sep s b a : split_last sep s = Some (b, a) -> s = b ++ sep :: a.
Proof.
  revert b a. induction s as [|c t IH]; intros b a H; cbn in H; [discriminate|].
  destruct (split_last sep t) as [[b' a']|] eqn:E.
  - inversion H; subst. cbn. f_equal. apply IH. reflexivity.
  - destruct (Z.eqb_spec c sep) as [->|]; [|discriminate]. inversion H; subst. reflexivity.
Qed.

Lemma split_last_none sep s : split_last sep s = None <-> ~ In sep s.
Proof.
  induction s as [|c t IH]; cbn; [tauto|].
  destruct (split_last sep t) as [[b a]|] eqn:E.
  - split; [discriminate|]. intros H. exfalso. apply H. right.
    apply split_last_some in E. rewrite E. apply in_or_app. right. left. reflexivity.
  - destruct (Z.eqb_spec c sep) as [->|Hne].
    + split; [discriminate|]. intros H; exfalso; apply H; left; reflexivity.
    + split; [|reflexivity]. intros _ [H|H]; [congruence|]. apply IH in H; [assumption|reflexivity].
Qed.

Lemma count_notin c s : ~ In c s -> count c s = 0.
Proof.
  induction s as [|x t IH]; intros H; cbn; [reflexivity|].
  destruct (Z.eqb_spec x c) as [->|]; [exfalso; apply H; left; reflexivity|].
  apply IH. intros Hin; apply H; right; assumption.
Qed.

(* ------------------------------------------------------------------ *)
(* escape_pct *)

Lemma escape_pct_app a b : escape_pct (a ++ b) = escape_pct a ++ escape_pct b.
Proof.
  induction a as [|c t IH]; cbn; [reflexivity|].
  destruct (c =? 37); cbn; rewrite IH; reflexivity.
Qed.

Lemma escape_pct_id s : ~ In 37 s -> escape_pct s = s.
Proof.
  induction s as [|c t IH]; intros H; cbn; [reflexivity|].
  destruct (Z.eqb_spec c 37) as [->|]; [exfalso; apply H; left; reflexivity|].
  f_equal. apply IH. intros Hin; apply H; right; assumption.
Qed.

Lemma escape_pct_in c s : c <> 37 -> c <> 50 -> c <> 53 -> (In c (escape_pct s) <-> In c s).
Proof.
  intros H1 H2 H3. induction s as [|x t IH]; cbn; [tauto|].
  destruct (Z.eqb_spec x 37) as [->|]; cbn; rewrite IH; intuition lia.
Qed.

Lemma escape_pct_nil s : escape_pct s = [] <-> s = [].
Proof.
  destruct s as [|c t]; cbn; [tauto|]. destruct (c =? 37); split; discriminate.
Qed.

Lemma split_last_escape sep s : sep <> 37 -> sep <> 50 -> sep <> 53 ->
  split_last sep (escape_pct s) =
  match split_last sep s with
  | Some (b, a) => Some (escape_pct b, escape_pct a)
  | None => None
  end.
Proof.
  intros H1 H2 H3. induction s as [|c t IH]; [reflexivity|].
  cbn [escape_pct split_last]. destruct (Z.eqb_spec c 37) as [->|Hc].
  - cbn [split_last]. rewrite IH. destruct (split_last sep t) as [[b a]|].
    + cbn [escape_pct]. rewrite Z.eqb_refl. reflexivity.
    + destruct (Z.eqb_spec 53 sep); [lia|]. destruct (Z.eqb_spec 50 sep); [lia|].
      destruct (Z.eqb_spec 37 sep); [lia|]. reflexivity.
  - cbn [split_last]. rewrite IH. destruct (split_last sep t) as [[b a]|].
    + cbn [escape_pct]. destruct (Z.eqb_spec c 37); [lia|]. reflexivity.
    + destruct (c =? sep); reflexivity.
Qed.

Lemma split_pct25_escape s :
  split_pct25 (escape_pct s) =
  match cut 37 s with
  | (p, q, true) => Some (escape_pct p, escape_pct (37 :: q))
  | (_, _, false) => None
  end.
Proof.
  induction s as [|c t IH]; [reflexivity|].
  cbn [escape_pct cut]. destruct (Z.eqb_spec c 37) as [->|Hc].
  - cbn. reflexivity.
  - cbn [split_pct25]. rewrite IH.
    assert (Hs : starts_pct25 (c :: escape_pct t) = false).
    { unfold starts_pct25. destruct (escape_pct t) as [|x [|y r]]; try reflexivity.
      destruct (Z.eqb_spec c 37); [lia|]. reflexivity. }
    rewrite Hs. destruct (cut 37 t) as [[p q] [|]]; cbn.
    + destruct (Z.eqb_spec c 37); [lia|]. reflexivity.
    + reflexivity.
Qed.

(* ------------------------------------------------------------------ *)
(* unescape after the pre-escape *)

Lemma unesc_do_escape s : unesc_do (escape_pct s) = Ret s.
Proof.
  induction s as [|c t IH]; [reflexivity|]. cbn [escape_pct].
  destruct (Z.eqb_spec c 37) as [->|Hc].
  - cbn [unesc_do]. rewrite Z.eqb_refl. rewrite IH. reflexivity.
  - cbn [unesc_do]. destruct (Z.eqb_spec c 37); [lia|]. rewrite IH. reflexivity.
Qed.


Lemma unesc_ok_escape_host m s : is_hostmode m = true ->
  forallb host_byte_ok s = true -> unesc_ok m (escape_pct s) = true.
Proof.
  intros Hm. induction s as [|c t IH]; intros H; [reflexivity|].
  cbn [forallb] in H. apply andb_true_iff in H. destruct H as [Hc Ht].
  cbn [escape_pct]. destruct (Z.eqb_spec c 37) as [->|Hne].
  - cbn [unesc_ok]. rewrite Z.eqb_refl.
    replace (ishex 50 && ishex 53) with true by reflexivity. cbn [negb].
    replace ((50 =? 50) && (53 =? 53)) with true by reflexivity. cbn [negb].
    rewrite !andb_false_r. rewrite andb_false_l.
    destruct m; apply IH; assumption.
  - cbn [unesc_ok]. destruct (Z.eqb_spec c 37); [lia|].
    destruct (c =? 43); [apply IH; assumption|].
    rewrite Hm. cbn [andb]. unfold host_byte_ok in Hc.
    destruct (Z.eqb_spec c 37); [lia|]. cbn [orb] in Hc.
    destruct (Z.leb_spec 128 c) as [Hge|Hlt].
    + destruct (Z.ltb_spec c 128); [lia|]. cbn [andb]. apply IH; assumption.
    + cbn [orb] in Hc. apply negb_true_iff in Hc. rewrite Hc. rewrite andb_false_r.
      apply IH; assumption.
Qed.

Lemma unesc_ok_escape_other m s : is_hostmode m = false -> unesc_ok m (escape_pct s) = true.
Proof.
  intros Hm. induction s as [|c t IH]; [reflexivity|].
  cbn [escape_pct]. destruct (Z.eqb_spec c 37) as [->|Hne].
  - cbn [unesc_ok]. rewrite Z.eqb_refl.
    replace (ishex 50 && ishex 53) with true by reflexivity. cbn [negb].
    destruct m; try discriminate; cbn [andb]; apply IH.
  - cbn [unesc_ok]. destruct (Z.eqb_spec c 37); [lia|].
    rewrite Hm. cbn [andb]. destruct (c =? 43); apply IH.
Qed.

Lemma unescape_escape_host m s : is_hostmode m = true ->
  forallb host_byte_ok s = true -> unescape m (escape_pct s) = ROk s.
Proof.
  intros Hm H. unfold unescape. rewrite unesc_ok_escape_host by assumption.
  rewrite unesc_do_escape. reflexivity.
Qed.

Lemma unescape_escape_other m s : is_hostmode m = false -> unescape m (escape_pct s) = ROk s.
Proof.
  intros Hm. unfold unescape. rewrite unesc_ok_escape_other by assumption.
  rewrite unesc_do_escape. reflexivity.
Qed.

(* the second pass never reaches its unguarded index once the first pass accepted *)
Lemma unesc_do_no_panic m : forall s, unesc_ok m s = true -> exists r, unesc_do s = Ret r.
Proof.
  assert (G : forall n s, (List.length s <= n)%nat -> unesc_ok m s = true -> exists r, unesc_do s = Ret r).
  { induction n as [|n IH]; intros s Hl H.
    - destruct s; [exists []; reflexivity|cbn in Hl; lia].
    - destruct s as [|c t]; [exists []; reflexivity|].
      cbn [unesc_ok unesc_do] in *. destruct (c =? 37).
      + destruct t as [|h1 [|h2 t']]; try discriminate.
        assert (Ht : unesc_ok m t' = true).
        { destruct (negb (ishex h1 && ishex h2)); [discriminate|].
          repeat match type of H with (if ?b then false else _) = true => destruct b; [discriminate|] end.
          assumption. }
        destruct (IH t' ltac:(cbn in Hl; lia) Ht) as (r & ->). eexists; reflexivity.
      + assert (Ht : unesc_ok m t = true).
        { destruct (c =? 43); [assumption|].
          match type of H with (if ?b then false else _) = true => destruct b; [discriminate|] end.
          assumption. }
        destruct (IH t ltac:(cbn in Hl; lia) Ht) as (r & ->). eexists; reflexivity. }
  intros s. apply (G (List.length s)). lia.
Qed.

Lemma unescape_no_panic m s : unescape m s <> RPanic.
Proof.
  unfold unescape. destruct (unesc_ok m s) eqn:E; [|discriminate].
  destruct (unesc_do_no_panic m s E) as (r & ->). discriminate.
Qed.

(* ------------------------------------------------------------------ *)
(* byte-class facts *)

Lemma host_byte_ok_facts c : host_byte_ok c = true ->
  is_ctl c = false /\ c <> 35 /\ c <> 63 /\ c <> 47 /\ c <> 64 /\ c <> 32.
Proof.
  unfold host_byte_ok, is_ctl. intros H.
  destruct (Z.eq_dec c 37) as [E|Hne]; [subst c; cbn; repeat split; lia|].
  apply Z.eqb_neq in Hne. rewrite Hne in H. apply Z.eqb_neq in Hne.
  cbn [orb] in H. destruct (Z.leb_spec 128 c) as [Hge|Hlt].
  - repeat split; lia.
  - cbn [orb] in H. apply negb_true_iff in H.
    assert (G : c < 32 \/ c = 127 \/ c = 35 \/ c = 63 \/ c = 47 \/ c = 64 \/ c = 32 ->
                should_escape_host c = true).
    { intros Hc. unfold should_escape_host, is_alnum, is_alpha, is_lower, is_upper, is_digit, mem, existsb.
      cmp; reflexivity. }
    repeat split; try (intros ->; rewrite G in H by lia; discriminate).
    cmp; try reflexivity; rewrite G in H by lia; discriminate.
Qed.

Lemma forallb_host_notin s c : forallb host_byte_ok s = true ->
  host_byte_ok c = false -> ~ In c s.
Proof.
  intros H Hc Hin. rewrite forallb_forall in H. apply H in Hin. congruence.
Qed.

Lemma forallb_digit_no37 t : forallb is_digit t = true -> ~ In 37 t.
Proof.
  intros H Hin. rewrite forallb_forall in H. apply H in Hin. discriminate.
Qed.

Lemma valid_port_escape cp : valid_optional_port cp = true -> escape_pct cp = cp.
Proof.
  destruct cp as [|c t]; [reflexivity|]. cbn [valid_optional_port]. intros H. zb. subst c.
  apply escape_pct_id. intros [Hx|Hx]; [lia|]. revert Hx. apply forallb_digit_no37. assumption.
Qed.

(* ------------------------------------------------------------------ *)
(* parse_host on a pre-escaped, acceptable host *)



Lemma has_prefix1_escape c s : c <> 37 -> has_prefix1 c (escape_pct s) = has_prefix1 c s.
Proof.
  intros Hc. destruct s as [|x t]; [reflexivity|]. cbn [escape_pct].
  destruct (Z.eqb_spec x 37) as [->|]; cbn [has_prefix1]; [|reflexivity].
  destruct (Z.eqb_spec 37 c); [lia|reflexivity].
Qed.

Lemma forallb_app_l {A} (f : A -> bool) a b : forallb f (a ++ b) = true -> forallb f a = true.
Proof. rewrite forallb_app. intros H. apply andb_true_iff in H. tauto. Qed.
Lemma forallb_app_r {A} (f : A -> bool) a b : forallb f (a ++ b) = true -> forallb f b = true.
Proof. rewrite forallb_app. intros H. apply andb_true_iff in H. tauto. Qed.

Lemma cut_some sep s p q : cut sep s = (p, q, true) -> s = p ++ sep :: q.
Proof.
  revert p q. induction s as [|c t IH]; intros p q H; cbn in H; [discriminate|].
  destruct (Z.eqb_spec c sep) as [->|].
  - inversion H; subst. reflexivity.
  - destruct (cut sep t) as [[b a] f] eqn:E. inversion H; subst. cbn. f_equal. apply IH. reflexivity.
Qed.

Lemma parse_host_escape h : host_ok0 h = true -> parse_host (escape_pct h) = ROk h.
Proof.
  unfold host_ok0. intros H. apply andb_true_iff in H. destruct H as [Hb Hs].
  assert (Hplain : unescape EncHost (escape_pct h) = ROk h)
    by (apply unescape_escape_host; [reflexivity|assumption]).
  unfold parse_host. rewrite has_prefix1_escape by lia.
  destruct (has_prefix1 91 h).
  - rewrite split_last_escape by lia.
    destruct (split_last 93 h) as [[before cp]|] eqn:E; [|discriminate].
    rewrite (valid_port_escape cp Hs), Hs. cbn [negb].
    pose proof (split_last_some _ _ _ _ E) as Eh.
    rewrite split_pct25_escape.
    destruct (cut 37 before) as [[p q] [|]] eqn:Ec; [|exact Hplain].
    pose proof (cut_some _ _ _ _ Ec) as Eb.
    assert (Hall : forallb host_byte_ok (p ++ (37 :: q) ++ 93 :: cp) = true).
    { rewrite app_assoc. cbn [app]. rewrite <- Eb, <- Eh. assumption. }
    rewrite (unescape_escape_host EncHost p) by
      (try reflexivity; eapply forallb_app_l; exact Hall).
    cbn [rbind].
    rewrite (unescape_escape_host EncZone (37 :: q)) by
      (try reflexivity; eapply forallb_app_l; eapply forallb_app_r; exact Hall).
    cbn [rbind].
    replace (93 :: cp) with (escape_pct (93 :: cp)).
    2:{ cbn [escape_pct]. destruct (Z.eqb_spec 93 37); [lia|]. rewrite valid_port_escape by assumption. reflexivity. }
    rewrite (unescape_escape_host EncHost (93 :: cp)) by
      (try reflexivity; eapply forallb_app_r; eapply forallb_app_r; exact Hall).
    cbn [rbind]. f_equal. rewrite Eh, Eb. rewrite <- app_assoc. reflexivity.
  - rewrite split_last_escape by lia.
    destruct (split_last 58 h) as [[before after]|] eqn:E; [|exact Hplain].
    rewrite (escape_pct_id after) by (apply forallb_digit_no37; assumption).
    cbn [valid_optional_port]. rewrite Z.eqb_refl, Hs. exact Hplain.
Qed.

(* ------------------------------------------------------------------ *)
(* url_parse on  scheme "://" host path *)



Lemma scheme_scan_tail t rest : forallb scheme_char t = true ->
  scheme_scan false (t ++ 58 :: rest) = Some (Some (t, rest)).
Proof.
  induction t as [|c t IH]; intros H.
  - cbn. reflexivity.
  - cbn [forallb] in H. apply andb_true_iff in H. destruct H as [Hc Ht].
    cbn [app scheme_scan]. rewrite (IH Ht).
    destruct (is_alpha c) eqn:Ea; [reflexivity|].
    unfold scheme_char, is_alnum in Hc. rewrite Ea in Hc. cbn [orb] in Hc.
    rewrite Hc. reflexivity.
Qed.

Lemma scheme_scan_ok s rest : scheme_ok s = true ->
  scheme_scan true (s ++ 58 :: rest) = Some (Some (s, rest)).
Proof.
  destruct s as [|c t]; [discriminate|]. cbn [scheme_ok]. intros H.
  apply andb_true_iff in H. destruct H as [Hc Ht].
  cbn [app scheme_scan]. rewrite Hc. rewrite scheme_scan_tail by assumption. reflexivity.
Qed.

Lemma scheme_char_facts c : scheme_char c = true ->
  is_ctl c = false /\ c <> 35 /\ c <> 37 /\ c <> 42.
Proof.
  unfold scheme_char, is_alnum, is_alpha, is_lower, is_upper, is_digit, is_ctl. intros H.
  repeat split; lia.
Qed.

Lemma scheme_ok_chars s : scheme_ok s = true -> forallb scheme_char s = true.
Proof.
  destruct s as [|c t]; [discriminate|]. cbn. intros H. zb.
  apply andb_true_iff. split; [|assumption]. unfold scheme_char, is_alnum. rewrite H. reflexivity.
Qed.


Lemma existsb_false_forall {A} (f : A -> bool) l :
  (forall x, In x l -> f x = false) -> existsb f l = false.
Proof.
  induction l as [|x t IH]; intros H; [reflexivity|]. cbn.
  rewrite (H x (or_introl eq_refl)). apply IH. intros y Hy. apply H. right. assumption.
Qed.

Lemma lower_nil s : lower s = [] <-> s = [].
Proof. destruct s; cbn; split; congruence. Qed.

Theorem url_parse_constructed s h p :
  scheme_ok s = true -> host_ok0 h = true -> path_ok p = true ->
  url_parse (escape_pct (s ++ [58; 47; 47] ++ h ++ p)) = ROk (mkurl (lower s) h p).
Proof.
  intros Hs Hh Hp.
  pose proof (scheme_ok_chars s Hs) as Hsc.
  assert (Hhb : forallb host_byte_ok h = true).
  { unfold host_ok0 in Hh. apply andb_true_iff in Hh. tauto. }
  unfold path_ok in Hp. apply andb_true_iff in Hp. destruct Hp as [Hp0 Hpb].
  rewrite forallb_forall in Hsc, Hhb, Hpb.
  (* the pre-escape leaves scheme and "://" alone *)
  assert (Es : escape_pct s = s).
  { apply escape_pct_id. intros Hin. apply Hsc in Hin. apply scheme_char_facts in Hin. lia. }
  rewrite !escape_pct_app, Es. change (escape_pct [58; 47; 47]) with [58; 47; 47].
  set (eh := escape_pct h). set (ep := escape_pct p).
  assert (Hin_eh : forall c, In c eh -> c = 50 \/ c = 53 \/ In c h).
  { intros c Hc. destruct (Z.eq_dec c 50); [tauto|]. destruct (Z.eq_dec c 53); [tauto|].
    destruct (Z.eq_dec c 37) as [->|].
    - right; right. unfold eh in Hc. clear -Hc. induction h as [|x t IH]; cbn in Hc; [tauto|].
      destruct (Z.eqb_spec x 37) as [->|]; [left; reflexivity|].
      destruct Hc as [Hc|Hc]; [lia|]. right. apply IH. assumption.
    - right; right. apply (escape_pct_in c h); assumption. }
  assert (Hin_ep : forall c, In c ep -> c = 50 \/ c = 53 \/ In c p).
  { intros c Hc. destruct (Z.eq_dec c 50); [tauto|]. destruct (Z.eq_dec c 53); [tauto|].
    destruct (Z.eq_dec c 37) as [->|].
    - right; right. unfold ep in Hc. clear -Hc. induction p as [|x t IH]; cbn in Hc; [tauto|].
      destruct (Z.eqb_spec x 37) as [->|]; [left; reflexivity|].
      destruct Hc as [Hc|Hc]; [lia|]. right. apply IH. assumption.
    - right; right. apply (escape_pct_in c p); assumption. }
  assert (Hbyte : forall c, In c (s ++ [58; 47; 47] ++ eh ++ ep) ->
                            is_ctl c = false /\ c <> 35 /\ c <> 63).
  { intros c Hc. rewrite !in_app_iff in Hc. destruct Hc as [Hc|[Hc|[Hc|Hc]]].
    - apply Hsc in Hc. pose proof (scheme_char_facts c Hc) as F.
      unfold scheme_char, is_alnum, is_alpha, is_lower, is_upper, is_digit in Hc.
      repeat split; try tauto. intros ->. cbn in Hc. discriminate.
    - cbn in Hc. destruct Hc as [<-|[<-|[<-|[]]]]; cbn; repeat split; lia.
    - apply Hin_eh in Hc. destruct Hc as [->|[->|Hc]]; [cbn; repeat split; lia..|].
      apply Hhb in Hc. apply host_byte_ok_facts in Hc. tauto.
    - apply Hin_ep in Hc. destruct Hc as [->|[->|Hc]]; [cbn; repeat split; lia..|].
      apply Hpb in Hc. unfold path_byte_ok in Hc. zb. repeat split; assumption. }
  unfold url_parse.
  rewrite cut_notin by (intros Hc; apply Hbyte in Hc; lia).
  cbn [is_nil rbind]. unfold url_parse_nofrag.
  rewrite existsb_false_forall by (intros c Hc; apply Hbyte in Hc; tauto).
  assert (Hstar : bytes_eqb (s ++ [58; 47; 47] ++ eh ++ ep) [42] = false).
  { destruct s as [|c [|d t]]; try discriminate.
    - cbn. rewrite andb_false_r. reflexivity.
    - cbn. rewrite andb_false_r. reflexivity. }
  rewrite Hstar.
  change (s ++ [58; 47; 47] ++ eh ++ ep) with (s ++ 58 :: ([47; 47] ++ eh ++ ep)).
  rewrite scheme_scan_ok by assumption.
  assert (Hn63 : ~ In 63 ([47; 47] ++ eh ++ ep)).
  { intros Hc. assert (Hc' : In 63 (s ++ [58; 47; 47] ++ eh ++ ep)).
    { apply in_or_app. right. right. exact Hc. }
    apply Hbyte in Hc'. lia. }
  rewrite (count_notin 63) by assumption.
  change (0 =? 1) with false. rewrite andb_false_r.
  rewrite cut_notin by assumption. cbn [fst].
  cbn [app has_prefix1]. change (47 =? 47) with true. cbn [negb andb].
  assert (Hsl : is_nil (lower s) = false).
  { apply is_nil_false. rewrite lower_nil. destruct s; [discriminate|congruence]. }
  rewrite Hsl. cbn [negb orb andb].
  (* authority / path split *)
  assert (Hn47 : ~ In 47 eh).
  { intros Hc. apply Hin_eh in Hc. destruct Hc as [Hc|[Hc|Hc]]; try lia.
    apply Hhb in Hc. apply host_byte_ok_facts in Hc. lia. }
  assert (Hcut : cut 47 (eh ++ ep) = (eh, match ep with [] => [] | _ :: t => t end, negb (is_nil ep))
                 /\ (if negb (is_nil ep) then 47 :: match ep with [] => [] | _ :: t => t end else []) = ep).
  { apply orb_true_iff in Hp0. destruct Hp0 as [Hp0|Hp0].
    - apply is_nil_true in Hp0. subst p. unfold ep. cbn [escape_pct]. rewrite app_nil_r.
      rewrite cut_notin by assumption. split; reflexivity.
    - destruct p as [|x t]; [discriminate|]. cbn in Hp0. apply Z.eqb_eq in Hp0. subst x.
      unfold ep. cbn [escape_pct]. change (47 =? 37) with false. cbn iota.
      rewrite cut_app_found by assumption. split; reflexivity. }
  destruct Hcut as [Hcut Hrest]. rewrite Hcut. rewrite Hrest.
  (* no userinfo *)
  unfold parse_authority.
  assert (Hn64 : split_last 64 eh = None).
  { apply split_last_none. intros Hc. apply Hin_eh in Hc. destruct Hc as [Hc|[Hc|Hc]]; try lia.
    apply Hhb in Hc. apply host_byte_ok_facts in Hc. lia. }
  rewrite Hn64. unfold eh. rewrite parse_host_escape by assumption. cbn [rbind].
  unfold ep. rewrite unescape_escape_other by reflexivity. reflexivity.
Qed.

(* ------------------------------------------------------------------ *)
(* path.Clean never returns the empty string *)

Definition cs_inv (st : cstate) : Prop := c_w st = Z.of_nat (List.length (c_out st)).

Lemma backtrack_inv out : forall w d, w = Z.of_nat (List.length out) -> out <> [] ->
  snd (backtrack out w d) = Z.of_nat (List.length (fst (backtrack out w d))).
Proof.
  induction out as [|x r IH]; intros w d Hw Hne; [congruence|].
  cbn [backtrack]. cbn [List.length] in Hw.
  destruct ((w - 1 >? d) && negb (x =? 47)) eqn:E.
  - destruct r as [|y r'].
    + cbn [backtrack fst snd List.length] in *. lia.
    + apply IH; [cbn [List.length] in *; lia|discriminate].
  - cbn [fst snd]. lia.
Qed.

Lemma cs_append_inv st c : cs_inv st -> cs_inv (cs_append st c).
Proof. unfold cs_inv, cs_append. cbn. intros ->. lia. Qed.

Lemma clean_go_inv rooted : forall p in_elem st, cs_inv st -> cs_inv (clean_go rooted in_elem p st).
Proof.
  assert (G : forall n p, (List.length p <= n)%nat -> forall in_elem st, cs_inv st ->
                          cs_inv (clean_go rooted in_elem p st)).
  { induction n as [|n IH]; intros p Hl in_elem st Hst.
    - destruct p; [exact Hst|cbn in Hl; lia].
    - destruct p as [|c t]; [exact Hst|]. cbn [List.length] in Hl.
      assert (Ht : (List.length t <= n)%nat) by lia.
      cbn [clean_go]. destruct in_elem.
      + destruct (c =? 47); apply IH; auto using cs_append_inv.
      + destruct (c =? 47); [apply IH; assumption|].
        match goal with |- context [if ?b then _ else _] => destruct b end; [apply IH; assumption|].
        match goal with |- context [if ?b then _ else _] => destruct b end.
        * destruct t as [|d t2]; [assumption|].
          assert (Ht2 : (List.length t2 <= n)%nat) by (cbn in Ht; lia).
          destruct (c_w st >? c_dotdot st) eqn:Ew.
          -- destruct (backtrack (c_out st) (c_w st) (c_dotdot st)) as [o w] eqn:Eb.
             apply IH; [assumption|]. unfold cs_inv. cbn [c_out c_w].
             unfold cs_inv in Hst.
             destruct (c_out st) as [|x r] eqn:E0.
             { cbn in Eb. inversion Eb; subst. exact Hst. }
             pose proof (backtrack_inv (x :: r) (c_w st) (c_dotdot st) Hst ltac:(discriminate)) as Hb.
             rewrite Eb in Hb. exact Hb.
          -- destruct (negb rooted); [|apply IH; assumption].
             apply IH; [assumption|]. unfold cs_inv. cbn [c_out c_w].
             apply cs_append_inv. apply cs_append_inv. destruct (c_w st >? 0); auto using cs_append_inv.
        * apply IH; [assumption|]. apply cs_append_inv.
          match goal with |- context [if ?b then _ else _] => destruct b end; auto using cs_append_inv. }
  intros p. apply (G (List.length p)). lia.
Qed.

Theorem path_clean_nonempty p : path_clean p <> [].
Proof.
  unfold path_clean. destruct p as [|c t]; [discriminate|].
  set (st := if c =? 47 then clean_go true false t (mkcs [47] 1 1)
             else clean_go false false (c :: t) (mkcs [] 0 0)).
  assert (Hst : cs_inv st).
  { unfold st. destruct (c =? 47); apply clean_go_inv; reflexivity. }
  destruct (Z.eqb_spec (c_w st) 0) as [E|E]; [discriminate|].
  unfold cs_inv in Hst. intros Hr.
  assert (c_out st = []) by (destruct (c_out st); [reflexivity|cbn in Hr; apply app_eq_nil in Hr; destruct Hr; discriminate]).
  rewrite H in Hst. cbn in Hst. lia.
Qed.

Lemma path_join_nil a b : path_join a b = [] <-> a = [] /\ b = [].
Proof.
  unfold path_join. destruct a as [|x a'], b as [|y b']; split; intros H;
    try (exfalso; revert H; apply path_clean_nonempty); try tauto;
    destruct H; discriminate.
Qed.

(* ------------------------------------------------------------------ *)
(* url_parse never panics *)

Lemma rbind_no_panic {A B} (r : res A) (f : A -> res B) :
  r <> RPanic -> (forall a, f a <> RPanic) -> rbind r f <> RPanic.
Proof. destruct r; cbn; intros H1 H2; auto; congruence. Qed.

Lemma parse_host_no_panic h : parse_host h <> RPanic.
Proof.
  unfold parse_host. destruct (has_prefix1 91 h).
  - destruct (split_last 93 h) as [[b cp]|]; [|discriminate].
    destruct (negb (valid_optional_port cp)); [discriminate|].
    destruct (split_pct25 b) as [[h1 z]|]; [|apply unescape_no_panic].
    repeat (apply rbind_no_panic; [apply unescape_no_panic|intros ?]). discriminate.
  - destruct (split_last 58 h) as [[b a]|]; [|apply unescape_no_panic].
    destruct (negb _); [discriminate|apply unescape_no_panic].
Qed.

Lemma parse_authority_no_panic a : parse_authority a <> RPanic.
Proof.
  unfold parse_authority. destruct (split_last 64 a) as [[u hp]|]; [|apply parse_host_no_panic].
  apply rbind_no_panic; [apply parse_host_no_panic|intros host].
  destruct (negb (valid_userinfo u)); [discriminate|].
  destruct (negb (contains 58 u)).
  - apply rbind_no_panic; [apply unescape_no_panic|intros ?; discriminate].
  - destruct (cut 58 u) as [[un pw] f].
    repeat (apply rbind_no_panic; [apply unescape_no_panic|intros ?]). discriminate.
Qed.

Lemma url_parse_no_panic raw : url_parse raw <> RPanic.
Proof.
  unfold url_parse. destruct (cut 35 raw) as [[u frag] f].
  apply rbind_no_panic.
  - unfold url_parse_nofrag. destruct (existsb is_ctl u); [discriminate|].
    destruct (bytes_eqb u [42]); [discriminate|].
    destruct (scheme_scan true u) as [gs|]; [|discriminate].
    destruct (match gs with Some (s, r) => (s, r) | None => ([], u) end) as [scheme0 rest0].
    cbv zeta.
    match goal with |- context [negb (has_prefix1 47 ?r)] => set (rest1 := r) end.
    destruct (negb (has_prefix1 47 rest1) && negb (is_nil (lower scheme0))); [discriminate|].
    destruct (negb (has_prefix1 47 rest1) && contains 58 (fst (fst (cut 47 rest1)))); [discriminate|].
    assert (Hfin : forall host rest, rbind (unescape EncPath rest)
                     (fun p => ROk (mkurl (lower scheme0) host p)) <> RPanic).
    { intros host rest. apply rbind_no_panic; [apply unescape_no_panic|intros ?; discriminate]. }
    destruct rest1 as [|s1 [|s2 after]]; try apply Hfin.
    match goal with |- context [if ?b then _ else _] => destruct b end; [|apply Hfin].
    destruct (cut 47 after) as [[authority tail] found].
    apply rbind_no_panic; [apply parse_authority_no_panic|intros host; apply Hfin].
  - intros url. destruct (is_nil frag); [discriminate|].
    apply rbind_no_panic; [apply unescape_no_panic|intros ?; discriminate].
Qed.

(* ------------------------------------------------------------------ *)
(* parse_total_classified *)


Lemma is_inet_scheme_In s : is_inet_scheme s = true <-> In s inet_schemes.
Proof.
  unfold is_inet_scheme. rewrite existsb_exists. split.
  - intros (x & Hx & E). apply bytes_eqb_eq in E. subst. assumption.
  - intros H. exists s. split; [assumption|apply bytes_eqb_refl].
Qed.

Lemma unix_not_inet : ~ In s_unix inet_schemes.
Proof. cbn. intuition discriminate. Qed.

Lemma nil_not_inet : ~ In [] inet_schemes.
Proof. cbn. intuition discriminate. Qed.

Lemma dispatch_cases u :
  (u_scheme u = [] /\ dispatch u = PErr EInvalid) \/
  (In (u_scheme u) inet_schemes /\ (u_host u = [] \/ u_path u <> []) /\ dispatch u = PErr EInvalid) \/
  (In (u_scheme u) inet_schemes /\ u_host u <> [] /\ u_path u = [] /\
     dispatch u = POk (u_scheme u) (u_host u)) \/
  (u_scheme u = s_unix /\ u_host u = [] /\ u_path u = [] /\ dispatch u = PErr EInvalid) \/
  (u_scheme u = s_unix /\ ~ (u_host u = [] /\ u_path u = []) /\
     path_join (u_host u) (u_path u) <> [] /\
     dispatch u = POk (u_scheme u) (path_join (u_host u) (u_path u))) \/
  (u_scheme u <> [] /\ ~ In (u_scheme u) seven_schemes /\ dispatch u = PErr EUnsupported).
Proof.
  unfold dispatch, seven_schemes.
  destruct (is_nil (u_scheme u)) eqn:En.
  { apply is_nil_true in En. left. tauto. }
  apply is_nil_false in En. right.
  destruct (is_inet_scheme (u_scheme u)) eqn:Ei.
  { apply is_inet_scheme_In in Ei.
    destruct (is_nil (u_host u)) eqn:Eh; cbn [orb].
    - apply is_nil_true in Eh. left. tauto.
    - apply is_nil_false in Eh. destruct (is_nil (u_path u)) eqn:Ep; cbn [negb].
      + apply is_nil_true in Ep. right. left. tauto.
      + apply is_nil_false in Ep. left. tauto. }
  assert (Hni : ~ In (u_scheme u) inet_schemes).
  { intros H. apply is_inet_scheme_In in H. congruence. }
  right. right.
  destruct (bytes_eqb (u_scheme u) s_unix) eqn:Eu.
  { apply bytes_eqb_eq in Eu.
    destruct (is_nil (path_join (u_host u) (u_path u))) eqn:Ej.
    - apply is_nil_true in Ej. apply path_join_nil in Ej. left. tauto.
    - apply is_nil_false in Ej. right. left. repeat split; try assumption.
      intros H. apply Ej. apply path_join_nil. assumption. }
  right. right. repeat split; try assumption.
  intros [H|H]; [|tauto]. symmetry in H. apply bytes_eqb_eq in H. congruence.
Qed.

Ltac dsolve := try congruence; try discriminate;
  try (exfalso; match goal with
       | H : ?x = _, H2 : In ?x inet_schemes |- _ => rewrite H in H2; tauto
       end).

Theorem dispatch_classified u :
  dispatch u <> PPanic /\
  (dispatch u = PErr EInvalid <->
     u_scheme u = [] \/
     (In (u_scheme u) inet_schemes /\ (u_host u = [] \/ u_path u <> [])) \/
     (u_scheme u = s_unix /\ u_host u = [] /\ u_path u = [])) /\
  (dispatch u = PErr EUnsupported <-> u_scheme u <> [] /\ ~ In (u_scheme u) seven_schemes) /\
  dispatch u <> PErr EUrl /\
  (forall s ep, dispatch u = POk s ep ->
     s = u_scheme u /\ In s seven_schemes /\ ep <> [] /\
     (In s inet_schemes -> ep = u_host u /\ u_path u = []) /\
     (s = s_unix -> ep = path_join (u_host u) (u_path u))).
Proof.
  pose proof unix_not_inet as Hu. pose proof nil_not_inet as Hn.
  assert (Hun : s_unix <> []) by discriminate.
  destruct (dispatch_cases u) as [(Hs & ->)|[(Hs & Hc & ->)|[(Hs & Hh & Hp & ->)|[(Hs & Hh & Hp & ->)|[(Hs & Hc & Hj & ->)|(Hs & Hc & ->)]]]]];
    unfold seven_schemes in *; cbn [In] in *;
    (split; [discriminate|]);
    (split; [try (rewrite Hs in * ); intuition dsolve|]);
    (split; [try (rewrite Hs in * ); intuition dsolve|]);
    (split; [discriminate|]);
    intros s ep E; try discriminate E; inversion E; subst;
    try (rewrite Hs in * ); intuition dsolve.
Qed.

Theorem parse_total_classified a :
  parse_proto_addr a <> PPanic /\
  ((url_parse (escape_pct a) = RErr /\ parse_proto_addr a = PErr EUrl) \/
   (exists u, url_parse (escape_pct a) = ROk u /\
     (parse_proto_addr a = PErr EInvalid <->
        u_scheme u = [] \/
        (In (u_scheme u) inet_schemes /\ (u_host u = [] \/ u_path u <> [])) \/
        (u_scheme u = s_unix /\ u_host u = [] /\ u_path u = [])) /\
     (parse_proto_addr a = PErr EUnsupported <->
        u_scheme u <> [] /\ ~ In (u_scheme u) seven_schemes) /\
     parse_proto_addr a <> PErr EUrl /\
     (forall s ep, parse_proto_addr a = POk s ep ->
        s = u_scheme u /\ In s seven_schemes /\ ep <> [] /\
        (In s inet_schemes -> ep = u_host u /\ u_path u = []) /\
        (s = s_unix -> ep = path_join (u_host u) (u_path u))))).
Proof.
  unfold parse_proto_addr.
  pose proof (url_parse_no_panic (escape_pct a)) as Hnp.
  destruct (url_parse (escape_pct a)) as [u| |] eqn:E; [| |congruence].
  - pose proof (dispatch_classified u) as (H1 & H2 & H3 & H4 & H5).
    split; [assumption|]. right. exists u. split; [reflexivity|].
    split; [exact H2|]. split; [exact H3|]. split; [exact H4|exact H5].
  - split; [discriminate|]. left. split; reflexivity.
Qed.

Corollary parse_result_shape a :
  (exists e, parse_proto_addr a = PErr e) \/
  (exists s ep, parse_proto_addr a = POk s ep /\ In s seven_schemes /\ ep <> []).
Proof.
  pose proof (parse_total_classified a) as [Hnp [[_ H]|(u & _ & _ & _ & _ & H)]].
  - left. eexists; exact H.
  - destruct (parse_proto_addr a) as [s ep|e|] eqn:E.
    + right. exists s, ep. split; [reflexivity|]. destruct (H s ep eq_refl) as (_ & H2 & H3 & _). tauto.
    + left. eexists; reflexivity.
    + congruence.
Qed.

(* ------------------------------------------------------------------ *)
(* schemes written in any letter case *)


Lemma scheme_char_lower c : scheme_char (lowerc c) = true -> scheme_char c = true.
Proof.
  unfold lowerc. destruct (is_upper c) eqn:E; [|auto]. intros _.
  unfold scheme_char, is_alnum, is_alpha, is_lower, is_upper, is_digit in *. lia.
Qed.

Lemma is_alpha_lower c : is_alpha (lowerc c) = true -> is_alpha c = true.
Proof.
  unfold lowerc. destruct (is_upper c) eqn:E; [|auto]. intros _.
  unfold is_alpha, is_lower, is_upper in *. lia.
Qed.

Lemma scheme_ok_lower s : scheme_ok (lower s) = true -> scheme_ok s = true.
Proof.
  destruct s as [|c t]; [discriminate|]. cbn [lower map scheme_ok]. intros H.
  apply andb_true_iff in H. destruct H as [Hc Ht]. apply andb_true_iff. split.
  - apply is_alpha_lower. exact Hc.
  - clear Hc. induction t as [|d t IH]; [reflexivity|]. cbn [map forallb] in *.
    apply andb_true_iff in Ht. destruct Ht as [Hd Ht]. apply andb_true_iff. split.
    + apply scheme_char_lower. exact Hd.
    + apply IH. exact Ht.
Qed.

Lemma seven_scheme_ok s : In (lower s) seven_schemes -> scheme_ok s = true.
Proof.
  intros H. apply scheme_ok_lower. cbn in H.
  repeat (destruct H as [H|H]; [rewrite <- H; reflexivity|]). destruct H.
Qed.

(* ------------------------------------------------------------------ *)
(* the "endpoint exactly as written" theorems *)

Lemma parse_constructed s h p :
  scheme_ok s = true -> host_ok0 h = true -> path_ok p = true ->
  parse_proto_addr (s ++ [58; 47; 47] ++ h ++ p) = dispatch (mkurl (lower s) h p).
Proof.
  intros Hs Hh Hp. unfold parse_proto_addr. rewrite url_parse_constructed by assumption. reflexivity.
Qed.

Theorem parse_exact_inet s h :
  In (lower s) inet_schemes -> host_ok h = true ->
  parse_proto_addr (s ++ [58; 47; 47] ++ h) = POk (lower s) h.
Proof.
  intros Hs Hh. unfold host_ok in Hh. apply andb_true_iff in Hh. destruct Hh as [Hne Hh].
  apply negb_true_iff in Hne.
  rewrite <- (app_nil_r h) at 1.
  rewrite parse_constructed; try assumption; try reflexivity.
  2:{ apply seven_scheme_ok. right. assumption. }
  unfold dispatch. cbn [u_scheme u_host u_path].
  assert (Hl : is_nil (lower s) = false).
  { apply is_nil_false. intros E. rewrite E in Hs. exact (nil_not_inet Hs). }
  rewrite Hl. apply is_inet_scheme_In in Hs. rewrite Hs, Hne. reflexivity.
Qed.

Theorem parse_inet_invalid s h p :
  In (lower s) inet_schemes -> host_ok0 h = true -> path_ok p = true ->
  h = [] \/ p <> [] ->
  parse_proto_addr (s ++ [58; 47; 47] ++ h ++ p) = PErr EInvalid.
Proof.
  intros Hs Hh Hp Hc.
  rewrite parse_constructed; try assumption.
  2:{ apply seven_scheme_ok. right. assumption. }
  unfold dispatch. cbn [u_scheme u_host u_path].
  assert (Hl : is_nil (lower s) = false).
  { apply is_nil_false. intros E. rewrite E in Hs. exact (nil_not_inet Hs). }
  rewrite Hl. apply is_inet_scheme_In in Hs. rewrite Hs.
  destruct Hc as [->|Hc]; [reflexivity|].
  apply is_nil_false in Hc. rewrite Hc. rewrite orb_true_r. reflexivity.
Qed.

Theorem parse_unix_clean s h p :
  lower s = s_unix -> host_ok0 h = true -> path_ok p = true ->
  parse_proto_addr (s ++ [58; 47; 47] ++ h ++ p) =
  if is_nil h && is_nil p then PErr EInvalid else POk s_unix (path_join h p).
Proof.
  intros Hs Hh Hp.
  rewrite parse_constructed; try assumption.
  2:{ apply seven_scheme_ok. left. symmetry. assumption. }
  unfold dispatch. cbn [u_scheme u_host u_path]. rewrite Hs.
  change (is_nil s_unix) with false. change (is_inet_scheme s_unix) with false.
  rewrite bytes_eqb_refl.
  destruct (is_nil (path_join h p)) eqn:E.
  - apply is_nil_true in E. apply path_join_nil in E. destruct E as [-> ->]. reflexivity.
  - destruct (is_nil h && is_nil p) eqn:E2; [|reflexivity].
    apply andb_true_iff in E2. destruct E2 as [E2 E3].
    apply is_nil_true in E2, E3. subst. discriminate.
Qed.

Theorem parse_unsupported s h p :
  scheme_ok s = true -> ~ In (lower s) seven_schemes -> host_ok0 h = true -> path_ok p = true ->
  parse_proto_addr (s ++ [58; 47; 47] ++ h ++ p) = PErr EUnsupported.
Proof.
  intros Hs Hn Hh Hp.
  rewrite parse_constructed by assumption.
  pose proof (dispatch_classified (mkurl (lower s) h p)) as (_ & _ & H3 & _).
  apply H3. cbn [u_scheme]. split; [|assumption].
  rewrite lower_nil. destruct s; [discriminate|discriminate].
Qed.

(* ------------------------------------------------------------------ *)
(* an address without ':' has no scheme: the result is an error that is not
   "unsupported protocol" *)

Lemma scheme_scan_no_colon s : ~ In 58 s -> forall f, scheme_scan f s = Some None.
Proof.
  induction s as [|c t IH]; intros H f; [reflexivity|].
  cbn [scheme_scan].
  assert (Ht : ~ In 58 t) by (intros Hin; apply H; right; assumption).
  rewrite (IH Ht).
  destruct (is_alpha c); [reflexivity|].
  destruct (is_digit c || (c =? 43) || (c =? 45) || (c =? 46)); [destruct f; reflexivity|].
  destruct (Z.eqb_spec c 58) as [->|]; [exfalso; apply H; left; reflexivity|reflexivity].
Qed.

Lemma cut_before_incl sep s : forall c, In c (fst (fst (cut sep s))) -> In c s.
Proof.
  induction s as [|x t IH]; intros c H; cbn in *; [assumption|].
  destruct (x =? sep); [destruct H|].
  destruct (cut sep t) as [[b a] f]. cbn in *. destruct H as [H|H]; [left; assumption|right; apply IH; assumption].
Qed.

Lemma url_parse_nofrag_no_colon raw : ~ In 58 raw ->
  match url_parse_nofrag raw with ROk u => u_scheme u = [] | _ => True end.
Proof.
  intros H. unfold url_parse_nofrag.
  destruct (existsb is_ctl raw); [exact I|].
  destruct (bytes_eqb raw [42]); [reflexivity|].
  rewrite scheme_scan_no_colon by assumption. cbv zeta. cbn [lower map is_nil negb].
  rewrite andb_false_r.
  match goal with |- context [negb (has_prefix1 47 ?r)] => set (rest1 := r) end.
  destruct (negb (has_prefix1 47 rest1) && contains 58 (fst (fst (cut 47 rest1)))); [exact I|].
  assert (Hfin : forall host rest,
            match rbind (unescape EncPath rest) (fun p => ROk (mkurl [] host p)) with
            | ROk u => u_scheme u = [] | _ => True end).
  { intros host rest. destruct (unescape EncPath rest); cbn; auto. }
  destruct rest1 as [|s1 [|s2 after]]; try apply Hfin.
  match goal with |- context [if ?b then _ else _] => destruct b end; [|apply Hfin].
  destruct (cut 47 after) as [[authority tail] found].
  destruct (parse_authority authority); cbn [rbind]; auto; apply Hfin.
Qed.

Theorem parse_no_colon a : ~ In 58 a ->
  parse_proto_addr a = PErr EInvalid \/ parse_proto_addr a = PErr EUrl.
Proof.
  intros H. unfold parse_proto_addr.
  pose proof (url_parse_no_panic (escape_pct a)) as Hnp.
  unfold url_parse in *.
  assert (He : ~ In 58 (escape_pct a)) by (rewrite escape_pct_in by lia; assumption).
  pose proof (cut_before_incl 35 (escape_pct a)) as Hinc.
  destruct (cut 35 (escape_pct a)) as [[u frag] f]. cbn [fst] in Hinc.
  assert (Hu : ~ In 58 u) by (intros Hin; apply He; apply Hinc; assumption).
  pose proof (url_parse_nofrag_no_colon u Hu) as Hs.
  destruct (url_parse_nofrag u) as [url| |]; cbn [rbind] in *.
  - destruct (is_nil frag).
    + left. unfold dispatch. rewrite Hs. reflexivity.
    + destruct (unescape EncFragment frag); cbn [rbind] in *.
      * left. unfold dispatch. rewrite Hs. reflexivity.
      * right. reflexivity.
      * congruence.
  - right. reflexivity.
  - congruence.
Qed.

(* ------------------------------------------------------------------ *)
(* the grammar of the statement:
     host = reg-name | IPv4address | "[" IPv6address [ "%" zone ] "]"
     endpoint = host [ ":" *DIGIT ]
   is inside host_ok *)



Lemma host_byte_ok_alt c :
  host_byte_ok c = (c =? 37) || (128 <=? c) ||
    (is_alnum c || mem c [33; 36; 38; 39; 40; 41; 42; 43; 44; 59; 61; 58; 91; 93; 60; 62; 34]
     || mem c [45; 95; 46; 126]).
Proof.
  unfold host_byte_ok, should_escape_host.
  destruct (is_alnum c); destruct (mem c [33; 36; 38; 39; 40; 41; 42; 43; 44; 59; 61; 58; 91; 93; 60; 62; 34]);
    destruct (mem c [45; 95; 46; 126]); reflexivity.
Qed.

Ltac byteclass :=
  unfold reg_name_char, ipv6_char, zone_char, ishex, is_alnum, is_alpha, is_lower, is_upper,
    is_digit, mem, existsb in *.

Lemma reg_name_char_ok c : reg_name_char c = true -> host_byte_ok c = true /\ c <> 91 /\ c <> 58.
Proof. rewrite host_byte_ok_alt. byteclass. lia. Qed.

Lemma ipv6_char_ok c : ipv6_char c = true -> host_byte_ok c = true /\ c <> 93 /\ c <> 37.
Proof. rewrite host_byte_ok_alt. byteclass. lia. Qed.

Lemma zone_char_ok c : zone_char c = true -> host_byte_ok c = true /\ c <> 93.
Proof. rewrite host_byte_ok_alt. byteclass. lia. Qed.

Lemma digit_ok c : is_digit c = true -> host_byte_ok c = true /\ c <> 58 /\ c <> 93.
Proof. rewrite host_byte_ok_alt. byteclass. lia. Qed.

Lemma forallb_impl {A} (f g : A -> bool) l :
  (forall x, f x = true -> g x = true) -> forallb f l = true -> forallb g l = true.
Proof.
  intros H. induction l as [|x t IH]; [reflexivity|]. cbn. intros H2.
  apply andb_true_iff in H2. destruct H2 as [Hx Ht]. rewrite (H x Hx), (IH Ht). reflexivity.
Qed.

Lemma forallb_notin {A} (f : A -> bool) l c : forallb f l = true -> f c = false -> ~ In c l.
Proof. intros H Hc Hin. rewrite forallb_forall in H. apply H in Hin. congruence. Qed.

Lemma split_last_app sep b a : ~ In sep a -> split_last sep (b ++ sep :: a) = Some (b, a).
Proof.
  intros H. induction b as [|c t IH]; cbn [app split_last].
  - apply split_last_none in H. rewrite H. rewrite Z.eqb_refl. reflexivity.
  - rewrite IH. reflexivity.
Qed.

Lemma cut_not_found sep s p q : cut sep s = (p, q, false) -> p = s /\ ~ In sep s.
Proof.
  revert p q. induction s as [|c t IH]; intros p q H; cbn in H.
  - inversion H. split; [reflexivity|intros []].
  - destruct (Z.eqb_spec c sep); [discriminate|].
    destruct (cut sep t) as [[b a] f] eqn:E. inversion H; subst.
    destruct (IH b q eq_refl) as [-> Hn]. split; [reflexivity|]. intros [Hc|Hc]; [congruence|tauto].
Qed.

Lemma cut_found_notin sep s p q : cut sep s = (p, q, true) -> ~ In sep p.
Proof.
  revert p q. induction s as [|c t IH]; intros p q H; cbn in H; [discriminate|].
  destruct (Z.eqb_spec c sep).
  - inversion H. intros [].
  - destruct (cut sep t) as [[b a] f] eqn:E. inversion H; subst.
    intros [Hc|Hc]; [congruence|]. eapply IH; [reflexivity|exact Hc].
Qed.

Lemma valid_port_bytes cp : valid_optional_port cp = true ->
  forallb host_byte_ok cp = true /\ ~ In 93 cp.
Proof.
  destruct cp as [|c t]; [split; [reflexivity|intros []]|].
  cbn [valid_optional_port]. intros H. apply andb_true_iff in H. destruct H as [Hc Ht].
  apply Z.eqb_eq in Hc. subst c. split.
  - cbn [forallb]. apply andb_true_iff. split; [reflexivity|].
    eapply forallb_impl; [|exact Ht]. intros x Hx. apply digit_ok in Hx. tauto.
  - intros [Hc|Hc]; [lia|]. rewrite forallb_forall in Ht. apply Ht in Hc. apply digit_ok in Hc. lia.
Qed.

Theorem grammar_host_ok h : grammar_hostb h = true -> host_ok h = true.
Proof.
  destruct h as [|c t]; [discriminate|]. unfold grammar_hostb.
  destruct (Z.eqb_spec c 91) as [->|Hc].
  - destruct (split_last 93 t) as [[inner cp]|] eqn:E; [|discriminate].
    intros H. apply andb_true_iff in H. destruct H as [Hcp H].
    pose proof (split_last_some _ _ _ _ E) as Et.
    destruct (valid_port_bytes cp Hcp) as [Hcpb Hcp93].
    unfold host_ok, host_ok0. cbn [is_nil negb andb has_prefix1]. rewrite Z.eqb_refl.
    cbn [split_last]. rewrite E. rewrite Hcp. rewrite andb_true_r.
    subst t. cbn [forallb]. change (host_byte_ok 91) with true. cbn [andb].
    rewrite forallb_app. cbn [forallb]. change (host_byte_ok 93) with true. rewrite Hcpb.
    cbn [andb]. rewrite andb_true_r.
    destruct (cut 37 inner) as [[lit z] found] eqn:Ec.
    apply andb_true_iff in H. destruct H as [H Hz]. apply andb_true_iff in H. destruct H as [_ Hlit].
    assert (Hl : forallb host_byte_ok lit = true).
    { eapply forallb_impl; [|exact Hlit]. intros x Hx. apply ipv6_char_ok in Hx. tauto. }
    destruct found.
    + apply cut_some in Ec. subst inner. rewrite forallb_app. rewrite Hl. cbn [andb forallb].
      change (host_byte_ok 37) with true. cbn [andb].
      apply andb_true_iff in Hz. destruct Hz as [_ Hz].
      eapply forallb_impl; [|exact Hz]. intros x Hx. apply zone_char_ok in Hx. tauto.
    + apply cut_not_found in Ec. destruct Ec as [<- _]. exact Hl.
  - destruct (cut 58 (c :: t)) as [[name port] found] eqn:Ec.
    intros H. apply andb_true_iff in H. destruct H as [H Hport].
    apply andb_true_iff in H. destruct H as [Hne Hname].
    unfold host_ok, host_ok0. cbn [is_nil negb andb has_prefix1].
    destruct (Z.eqb_spec c 91); [lia|].
    assert (Hnb : forallb host_byte_ok name = true).
    { eapply forallb_impl; [|exact Hname]. intros x Hx. apply reg_name_char_ok in Hx. tauto. }
    assert (Hpb : forallb host_byte_ok port = true).
    { eapply forallb_impl; [|exact Hport]. intros x Hx. apply digit_ok in Hx. tauto. }
    destruct found.
    + pose proof (cut_some _ _ _ _ Ec) as Eh. rewrite Eh.
      rewrite split_last_app.
      2:{ eapply forallb_notin; [exact Hport|reflexivity]. }
      rewrite Hport. rewrite andb_true_r. rewrite forallb_app. rewrite Hnb. cbn [forallb andb].
      change (host_byte_ok 58) with true. exact Hpb.
    + apply cut_not_found in Ec. destruct Ec as [-> Hn58].
      apply split_last_none in Hn58. rewrite Hn58. rewrite andb_true_r. exact Hnb.
Qed.

Corollary parse_exact_inet_grammar s h :
  In (lower s) inet_schemes -> grammar_hostb h = true ->
  parse_proto_addr (s ++ [58; 47; 47] ++ h) = POk (lower s) h.
Proof. intros Hs Hh. apply parse_exact_inet; [assumption|apply grammar_host_ok; assumption]. Qed.

(* ------------------------------------------------------------------ *)
(* option normalisation *)


Theorem cap_normalised_partial req : int64 req -> req <= 4611686018427387904 ->
  exists r, norm_cap max_stream_buffer_cap req = Ret r /\
    pow2 r /\ req <= r /\ 1024 <= r /\
    (req <= 0 -> r = 65536) /\
    (0 < req -> forall j, 0 <= j -> Z.max req 1024 <= 2^j -> r <= 2^j).
Proof.
  intros Hr Hle. unfold norm_cap, max_stream_buffer_cap, default_buffer_size.
  destruct (Z.leb_spec req 0) as [H0|H0].
  - exists 65536. split; [reflexivity|]. split; [exists 16; split; [lia|reflexivity]|].
    repeat split; try lia.
  - destruct (Z.leb_spec req 1024) as [H1|H1].
    + exists 1024. split; [reflexivity|]. split; [exists 10; split; [lia|reflexivity]|].
      repeat split; intros; lia.
    + destruct (ceil_spec req Hr) as [_ Hc]. destruct (Hc Hle) as (r & -> & k & Hk & -> & Hge & Hmin).
      exists (2^k). split; [reflexivity|]. split; [exists k; split; [assumption|reflexivity]|].
      repeat split; intros; try lia. apply Hmin; lia.
Qed.

Theorem cap_panics_above req : int64 req -> 4611686018427387904 < req ->
  norm_cap max_stream_buffer_cap req = Panic.
Proof.
  intros Hr Hgt. unfold norm_cap, default_buffer_size.
  destruct (Z.leb_spec req 0); [lia|]. destruct (Z.leb_spec req 1024); [lia|].
  destruct (ceil_spec req Hr) as [Hp _]. apply Hp. lia.
Qed.

(* the statement of the property without the representability bound is false:
   witness 2^62+1 (replayed on the implementation in corpus/C16/cap_above_2pow62.trace) *)
Theorem cap_normalised_refuted :
  exists req, int64 req /\ norm_cap max_stream_buffer_cap req = Panic.
Proof. exists 4611686018427387905. split; [unfold int64; lia|vm_compute; reflexivity]. Qed.

Corollary cap_normalised_full_statement_false : ~ cap_normalised_full_statement.
Proof.
  intros H. destruct cap_normalised_refuted as (req & Hr & E).
  destruct (H req Hr) as (r & E2 & _). congruence.
Qed.

Theorem chunk_normalised_partial chunk et : int64 chunk -> chunk <= 4611686018427387904 ->
  (0 < chunk -> exists r, norm_chunk chunk et = Ret (r, true) /\ pow2 r /\ chunk <= r /\
                          forall j, 0 <= j -> Z.max chunk 2 <= 2^j -> r <= 2^j) /\
  (chunk <= 0 -> et = true -> norm_chunk chunk et = Ret (1048576, true)) /\
  (chunk <= 0 -> et = false -> norm_chunk chunk et = Ret (chunk, false)).
Proof.
  intros Hr Hle. unfold norm_chunk, default_et_chunk. repeat split.
  - intros H0. destruct (Z.gtb_spec chunk 0); [|lia].
    destruct (ceil_spec chunk Hr) as [_ Hc]. destruct (Hc Hle) as (r & -> & k & Hk & -> & Hge & Hmin).
    cbn [obind]. exists (2^k). split; [reflexivity|]. split; [exists k; split; [assumption|reflexivity]|].
    split; [lia|]. intros j Hj Hm. apply Hmin; assumption.
  - intros H0 ->. destruct (Z.gtb_spec chunk 0); [lia|]. reflexivity.
  - intros H0 ->. destruct (Z.gtb_spec chunk 0); [lia|]. reflexivity.
Qed.

Theorem chunk_panics_above chunk et : int64 chunk -> 4611686018427387904 < chunk ->
  norm_chunk chunk et = Panic.
Proof.
  intros Hr Hgt. unfold norm_chunk. destruct (Z.gtb_spec chunk 0); [|lia].
  destruct (ceil_spec chunk Hr) as [Hp _]. rewrite Hp by lia. reflexivity.
Qed.

Theorem loops_clamped numcpu multicore n : 1 <= numcpu ->
  let r := determine_event_loops numcpu multicore n in
  1 <= r <= 256 /\
  (0 < n -> r = Z.min n 256) /\
  (n <= 0 -> multicore = true -> r = Z.min numcpu 256) /\
  (n <= 0 -> multicore = false -> r = 1).
Proof.
  intros Hc. unfold determine_event_loops, event_loop_index_max. cbv zeta.
  destruct multicore; destruct (Z.gtb_spec n 0);
    repeat match goal with |- context [?a >? ?b] => destruct (Z.gtb_spec a b) end;
    repeat split; intros; try lia; try discriminate.
Qed.

(* the whole normalisation in source order *)
Theorem normalise_ok rbc wbc chunk et :
  int64 rbc -> int64 wbc -> int64 chunk ->
  rbc <= 4611686018427387904 -> wbc <= 4611686018427387904 -> chunk <= 4611686018427387904 ->
  exists r w c e, normalise max_stream_buffer_cap rbc wbc chunk et = Ret (r, w, c, e) /\
    norm_cap max_stream_buffer_cap rbc = Ret r /\
    norm_cap max_stream_buffer_cap wbc = Ret w /\
    norm_chunk chunk et = Ret (c, e).
Proof.
  intros H1 H2 H3 H4 H5 H6. unfold normalise.
  destruct (cap_normalised_partial rbc H1 H4) as (r & Er & _).
  destruct (cap_normalised_partial wbc H2 H5) as (w & Ew & _).
  destruct (chunk_normalised_partial chunk et H3 H6) as (Hc1 & Hc2 & Hc3).
  assert (Hc : exists c e, norm_chunk chunk et = Ret (c, e)).
  { destruct (Z_lt_le_dec 0 chunk) as [Hp|Hp].
    - destruct (Hc1 Hp) as (c & E & _). eauto.
    - destruct et; [rewrite (Hc2 Hp eq_refl)|rewrite (Hc3 Hp eq_refl)]; eauto. }
  destruct Hc as (c & e & Ec). exists r, w, c, e. rewrite Ec, Er, Ew. cbn. repeat split; reflexivity.
Qed.

(* ------------------------------------------------------------------ *)
(* path.Join(host, path) = path.Clean(host ++ path): the extra '/' that Join
   inserts in front of a rooted path is an empty path element *)

Lemma clean_go_double_slash rooted : forall a r in_elem st,
  clean_go rooted in_elem (a ++ 47 :: 47 :: r) st = clean_go rooted in_elem (a ++ 47 :: r) st.
Proof.
  assert (G : forall n a, (List.length a <= n)%nat -> forall r in_elem st,
    clean_go rooted in_elem (a ++ 47 :: 47 :: r) st = clean_go rooted in_elem (a ++ 47 :: r) st).
  { induction n as [|n IH]; intros a Hl r in_elem st.
    - destruct a; [|cbn in Hl; lia]. cbn [app clean_go]. change (47 =? 47) with true. cbn iota.
      destruct in_elem; cbn [clean_go]; change (47 =? 47) with true; reflexivity.
    - destruct a as [|c a']; [apply (IH [] ltac:(cbn; lia))|].
      cbn [List.length] in Hl. assert (Hl' : (List.length a' <= n)%nat) by lia.
      cbn [app clean_go]. destruct in_elem.
      + destruct (c =? 47); apply IH; assumption.
      + destruct (c =? 47); [apply IH; assumption|].
        (* the two look-ahead tests read the same bytes *)
        destruct a' as [|x a''].
        * cbn [app]. change (47 =? 47) with true. change (47 =? 46) with false.
          rewrite !andb_false_r. rewrite !andb_true_r.
          assert (E : match r with [] => 47 =? 46 | e :: _ => false && (e =? 47) end = false)
            by (destruct r; reflexivity).
          cbn [andb] in *.
          destruct (c =? 46).
          -- apply (IH [] ltac:(cbn; lia)).
          -- destruct r; cbn [andb]; apply (IH [] ltac:(cbn; lia)).
        * cbn [app].
          match goal with |- (if ?b then _ else _) = _ => destruct b end; [apply (IH (x :: a'')); assumption|].
          assert (E : match a'' ++ 47 :: 47 :: r with [] => x =? 46 | e :: _ => (x =? 46) && (e =? 47) end =
                      match a'' ++ 47 :: r with [] => x =? 46 | e :: _ => (x =? 46) && (e =? 47) end)
            by (destruct a''; reflexivity).
          rewrite E.
          assert (Hl2 : (List.length a'' <= n)%nat) by (cbn in Hl'; lia).
          match goal with |- (if ?b then _ else _) = _ => destruct b end.
          -- destruct (c_w st >? c_dotdot st).
             ++ destruct (backtrack (c_out st) (c_w st) (c_dotdot st)). apply IH; assumption.
             ++ destruct (negb rooted); apply IH; assumption.
          -- apply (IH (x :: a'')); assumption. }
  intros a. apply (G (List.length a)). lia.
Qed.

Lemma path_join_clean h p : ~ In 47 h -> (p = [] \/ has_prefix1 47 p = true) ->
  h ++ p <> [] -> path_join h p = path_clean (h ++ p).
Proof.
  intros Hh Hp Hne. unfold path_join.
  destruct h as [|c h'], p as [|d p']; try reflexivity.
  - exfalso. apply Hne. reflexivity.
  - rewrite app_nil_r. reflexivity.
  - destruct Hp as [Hp|Hp]; [discriminate|]. cbn in Hp. apply Z.eqb_eq in Hp. subst d.
    cbn [app]. unfold path_clean.
    destruct (Z.eqb_spec c 47) as [->|Hc]; [exfalso; apply Hh; left; reflexivity|].
    change (c :: h' ++ 47 :: 47 :: p') with ((c :: h') ++ 47 :: 47 :: p').
    change (c :: h' ++ 47 :: p') with ((c :: h') ++ 47 :: p').
    rewrite clean_go_double_slash. reflexivity.
Qed.

Lemma host_ok0_no_slash h : host_ok0 h = true -> ~ In 47 h.
Proof.
  unfold host_ok0. intros H. apply andb_true_iff in H. destruct H as [H _].
  intros Hin. rewrite forallb_forall in H. apply H in Hin. apply host_byte_ok_facts in Hin. lia.
Qed.

Theorem parse_unix_clean_concat s h p :
  lower s = s_unix -> host_ok0 h = true -> path_ok p = true -> h ++ p <> [] ->
  parse_proto_addr (s ++ [58; 47; 47] ++ h ++ p) = POk s_unix (path_clean (h ++ p)).
Proof.
  intros Hs Hh Hp Hne. rewrite parse_unix_clean by assumption.
  destruct (is_nil h && is_nil p) eqn:E.
  - apply andb_true_iff in E. destruct E as [E1 E2]. apply is_nil_true in E1, E2. subst. exfalso. apply Hne. reflexivity.
  - f_equal. apply path_join_clean; [apply host_ok0_no_slash; assumption| |assumption].
    unfold path_ok in Hp. apply andb_true_iff in Hp. destruct Hp as [Hp _].
    apply orb_true_iff in Hp. destruct Hp as [Hp|Hp]; [left; apply is_nil_true; assumption|right; assumption].
Qed.
