(* C18: the two theorems consumed by Properties/C18.v.
   fault_holds      -- Proofs/LoopFaultBase.v, LoopFaultRel.v, LoopFaultProcs.v, LoopFaultTop.v
   engine_survives  -- Proofs/LoopFuel.v *)
From GV Require Import Lib.Trace Model.Loop Spec.LoopSpec.
From GV Require Export Proofs.LoopFaultTop Proofs.LoopFuel.
Open Scope string_scope.
Open Scope Z_scope.

(* non-vacuity: a run with an accepted connection, a read, a failing write (EPIPE) that dooms
   the connection, OnClose with an error, and a second connection whose read hits EOF *)
Definition fault_example : list line :=
  [("cfg", [AInt 0; AInt 0; AInt 64; AInt 3; AInt 10; AInt 10]);
   ("accepted", [AInt 7]);
   ("accepted", [AInt 8]);
   ("wait", [AInt 3; AInt 1]);
   ("r", [ASym "epctl"; AInt 0]);
   ("hret", [ASym "none"]);
   ("r", [ASym "epctl"; AInt 0]);
   ("hret", [ASym "none"; ABytes [1; 2]]);
   ("r", [ASym "wr"; AInt 2; AInt 1]);
   ("r", [ASym "wr"; AInt 1; AInt (-1); ASym "eagain"]);
   ("r", [ASym "epctl"; AInt 0]);
   ("wait", [AInt 7; AInt 1; AInt 8; AInt 1]);
   ("r", [ASym "read"; AInt 3; ABytes [9; 9; 9]]);
   ("h", [ASym "write"; ABytes [5; 6]]);
   ("r", [ASym "wr"; AInt 2; AInt (-1); ASym "epipe"]);
   ("hret", [ASym "none"]);
   ("r", [ASym "epctl"; AInt 0]);
   ("r", [ASym "close"; AInt 0]);
   ("hret", [ASym "none"]);
   ("r", [ASym "read"; AInt 0]);
   ("hret", [ASym "none"]);
   ("r", [ASym "wr"; AInt 1; AInt (-1); ASym "econnreset"]);
   ("r", [ASym "epctl"; AInt 0]);
   ("r", [ASym "close"; AInt 0]);
   ("wait", [])].

Example fault_example_runs :
  match run_history fault_example with
  | Some t => (fault_ok t, fuel_ok t,
               List.length (filter (fun e => match e with EOut ("g", ASym "fail" :: _) => true | _ => false end) t),
               existsb is_desync t)
  | None => (false, false, O, true)
  end = (true, true, 3%nat, false).
Proof. vm_compute. reflexivity. Qed.

(* model v2: the OnOpen reply cannot be written (EPIPE): the connection is doomed and
   el.open closes it at once with an error *)
Definition fault_example_open : list line :=
  [("cfg", [AInt 0; AInt 0; AInt 64; AInt 3; AInt 10; AInt 10]);
   ("accepted", [AInt 7]);
   ("wait", [AInt 3; AInt 1]);
   ("r", [ASym "epctl"; AInt 0]);
   ("hret", [ASym "none"; ABytes [1; 2]]);
   ("r", [ASym "wr"; AInt 2; AInt (-1); ASym "epipe"]);
   ("hret", [ASym "none"]);
   ("r", [ASym "epctl"; AInt 0]);
   ("r", [ASym "close"; AInt 0]);
   ("wait", [])].

Example fault_example_open_runs :
  match run_history fault_example_open with
  | Some t => (fault_ok t, fuel_ok t,
               existsb (fun e => match e with EOut ("cb", [ASym "close"; AInt 0; ASym "err"]) => true | _ => false end) t,
               existsb is_desync t)
  | None => (false, false, false, true)
  end = (true, true, true, false).
Proof. vm_compute. reflexivity. Qed.
