(* Proofs for C16 about the model in Model/Addr.v *)
From GV Require Import Lib.Trace Model.Arith Model.Addr Proofs.ArithProofs.
From Coq Require Import Lia ZArith Bool List.
Import ListNotations.
Open Scope Z_scope.

Ltac zb :=
  repeat match goal with
  | H : (_ && _) = true |- _ => apply andb_true_iff in H; destruct H
  | H : (_ || _) = false |- _ => apply orb_false_iff in H; destruct H
  | H : negb _ = true |- _ => apply negb_true_iff in H
  | H : negb _ = false |- _ => apply negb_false_iff in H
  | H : (_ =? _) = true |- _ => apply Z.eqb_eq in H
  | H : (_ =? _) = false |- _ => apply Z.eqb_neq in H
  | H : (_ <=? _) = true |- _ => apply Z.leb_le in H
  | H : (_ <=? _) = false |- _ => apply Z.leb_gt in H
  | H : (_ <? _) = true |- _ => apply Z.ltb_lt in H
  | H : (_ <? _) = false |- _ => apply Z.ltb_ge in H
  end.

(* decide every comparison of the goal that involves the variable-free side *)
Ltac cmp :=
  repeat match goal with
  | |- context [?a =? ?b] => destruct (Z.eqb_spec a b); try lia
  | |- context [?a <=? ?b] => destruct (Z.leb_spec a b); try lia
  | |- context [?a <? ?b] => destruct (Z.ltb_spec a b); try lia
  end.

(* ------------------------------------------------------------------ *)
(* generic list / strings lemmas *)

Lemma bytes_eqb_eq a : forall b, bytes_eqb a b = true <-> a = b.
Proof.
  induction a as [|x a IH]; intros [|y b]; cbn; split; intros H; try congruence; try discriminate.
  - apply andb_true_iff in H. destruct H as [H1 H2]. apply Z.eqb_eq in H1. apply IH in H2. congruence.
  - inversion H; subst. rewrite Z.eqb_refl. cbn. apply IH. reflexivity.
Qed.

Lemma bytes_eqb_refl a : bytes_eqb a a = true.
Proof. apply bytes_eqb_eq. reflexivity. Qed.

Lemma is_nil_true a : is_nil a = true <-> a = [].
Proof. destruct a; cbn; split; congruence. Qed.

Lemma is_nil_false a : is_nil a = false <-> a <> [].
Proof. destruct a; cbn; split; congruence. Qed.

Lemma mem_In c l : mem c l = true <-> In c l.
Proof.
  unfold mem. rewrite existsb_exists. split.
  - intros (x & Hx & E). apply Z.eqb_eq in E. subst. assumption.
  - intros H. exists c. split; [assumption|apply Z.eqb_refl].
Qed.

Lemma mem_false_notin c l : mem c l = false <-> ~ In c l.
Proof.
  rewrite <- mem_In. destruct (mem c l); split; intros H; try congruence; try discriminate.
  all: try (exfalso; apply H; reflexivity).
  all: try (intros H2; discriminate).
Qed.

Lemma cut_notin sep s : ~ In sep s -> cut sep s = (s, [], false).
Proof.
  induction s as [|c t IH]; intros H; cbn; [reflexivity|].
  destruct (Z.eqb_spec c sep) as [->|Hne]; [exfalso; apply H; left; reflexivity|].
  rewrite IH; [reflexivity|]. intros Hin; apply H; right; assumption.
Qed.

Lemma cut_app_found sep a b : ~ In sep a -> cut sep (a ++ sep :: b) = (a, b, true).
Proof.
  induction a as [|c t IH]; intros H; cbn.
  - rewrite Z.eqb_refl. reflexivity.
  - destruct (Z.eqb_spec c sep) as [->|Hne]; [exfalso; apply H; left; reflexivity|].
    rewrite IH; [reflexivity|]. intros Hin; apply H; right; assumption.
Qed.

Lemma split_last_some sep s b a : split_last sep s = Some (b, a) -> s = b ++ sep :: a.
Proof.
  revert b a. induction s as [|c t IH]; intros b a H; cbn in H; [discriminate|].
  destruct (split_last sep t) as [[b' a']|] eqn:E.
  - inversion H; subst. cbn. f_equal. apply IH. reflexivity.
  - destruct (Z.eqb_spec c sep) as [->|]; [|discriminate]. inversion H; subst. reflexivity.
Qed.

Lemma split_last_none sep s : split_last sep s = None <-> ~ In sep s.
Proof.
  induction s as [|c t IH]; cbn; [tauto|].
  destruct (split_last sep t) as [[b a]|] eqn:E.
  - split; [discriminate|]. intros H. exfalso. apply H. right.
    apply split_last_some in E. rewrite E. apply in_or_app. right. left. reflexivity.
  - destruct (Z.eqb_spec c sep) as [->|Hne].
    + split; [discriminate|]. intros H; exfalso; apply H; left; reflexivity.
    + split; [|reflexivity]. intros _ [H|H]; [congruence|]. apply IH in H; [assumption|reflexivity].
Qed.

Lemma count_notin c s : ~ In c s -> count c s = 0.
Proof.
  induction s as [|x t IH]; intros H; cbn; [reflexivity|].
  destruct (Z.eqb_spec x c) as [->|]; [exfalso; apply H; left; reflexivity|].
  apply IH. intros Hin; apply H; right; assumption.
Qed.

(* ------------------------------------------------------------------ *)
(* escape_pct *)

Lemma escape_pct_app a b : escape_pct (a ++ b) = escape_pct a ++ escape_pct b.
Proof.
  induction a as [|c t IH]; cbn; [reflexivity|].
  destruct (c =? 37); cbn; rewrite IH; reflexivity.
Qed.

Lemma escape_pct_id s : ~ In 37 s -> escape_pct s = s.
Proof.
  induction s as [|c t IH]; intros H; cbn; [reflexivity|].
  destruct (Z.eqb_spec c 37) as [->|]; [exfalso; apply H; left; reflexivity|].
  f_equal. apply IH. intros Hin; apply H; right; assumption.
Qed.

Lemma escape_pct_in c s : c <> 37 -> c <> 50 -> c <> 53 -> (In c (escape_pct s) <-> In c s).
Proof.
  intros H1 H2 H3. induction s as [|x t IH]; cbn; [tauto|].
  destruct (Z.eqb_spec x 37) as [->|]; cbn; rewrite IH; intuition lia.
Qed.

Lemma escape_pct_nil s : escape_pct s = [] <-> s = [].
Proof.
  destruct s as [|c t]; cbn; [tauto|]. destruct (c =? 37); split; discriminate.
Qed.

Lemma split_last_escape sep s : sep <> 37 -> sep <> 50 -> sep <> 53 ->
  split_last sep (escape_pct s) =
  match split_last sep s with
  | Some (b, a) => Some (escape_pct b, escape_pct a)
  | None => None
  end.
Proof.
  intros H1 H2 H3. induction s as [|c t IH]; [reflexivity|].
  cbn [escape_pct split_last]. destruct (Z.eqb_spec c 37) as [->|Hc].
  - cbn [split_last]. rewrite IH. destruct (split_last sep t) as [[b a]|].
    + cbn [escape_pct]. rewrite Z.eqb_refl. reflexivity.
    + destruct (Z.eqb_spec 53 sep); [lia|]. destruct (Z.eqb_spec 50 sep); [lia|].
      destruct (Z.eqb_spec 37 sep); [lia|]. reflexivity.
  - cbn [split_last]. rewrite IH. destruct (split_last sep t) as [[b a]|].
    + cbn [escape_pct]. destruct (Z.eqb_spec c 37); [lia|]. reflexivity.
    + destruct (c =? sep); reflexivity.
Qed.

Lemma split_pct25_escape s :
  split_pct25 (escape_pct s) =
  match cut 37 s with
  | (p, q, true) => Some (escape_pct p, escape_pct (37 :: q))
  | (_, _, false) => None
  end.
Proof.
  induction s as [|c t IH]; [reflexivity|].
  cbn [escape_pct cut]. destruct (Z.eqb_spec c 37) as [->|Hc].
  - cbn. reflexivity.
  - cbn [split_pct25]. rewrite IH.
    assert (Hs : starts_pct25 (c :: escape_pct t) = false).
    { unfold starts_pct25. destruct (escape_pct t) as [|x [|y r]]; try reflexivity.
      destruct (Z.eqb_spec c 37); [lia|]. reflexivity. }
    rewrite Hs. destruct (cut 37 t) as [[p q] [|]]; cbn.
    + destruct (Z.eqb_spec c 37); [lia|]. reflexivity.
    + reflexivity.
Qed.

(* ------------------------------------------------------------------ *)
(* unescape after the pre-escape *)

Lemma unesc_do_escape s : unesc_do (escape_pct s) = Ret s.
Proof.
  induction s as [|c t IH]; [reflexivity|]. cbn [escape_pct].
  destruct (Z.eqb_spec c 37) as [->|Hc].
  - cbn [unesc_do]. rewrite Z.eqb_refl. rewrite IH. reflexivity.
  - cbn [unesc_do]. destruct (Z.eqb_spec c 37); [lia|]. rewrite IH. reflexivity.
Qed.

(* a byte that url.unescape accepts literally in host / zone mode, or '%' *)
Definition host_byte_ok (c : Z) : bool :=
  (c =? 37) || (128 <=? c) || negb (should_escape_host c).

Lemma unesc_ok_escape_host m s : is_hostmode m = true ->
  forallb host_byte_ok s = true -> unesc_ok m (escape_pct s) = true.
Proof.
  intros Hm. induction s as [|c t IH]; intros H; [reflexivity|].
  cbn [forallb] in H. apply andb_true_iff in H. destruct H as [Hc Ht].
  cbn [escape_pct]. destruct (Z.eqb_spec c 37) as [->|Hne].
  - cbn [unesc_ok]. rewrite Z.eqb_refl.
    replace (ishex 50 && ishex 53) with true by reflexivity. cbn [negb].
    replace ((50 =? 50) && (53 =? 53)) with true by reflexivity. cbn [negb].
    rewrite !andb_false_r. rewrite andb_false_l.
    destruct m; apply IH; assumption.
  - cbn [unesc_ok]. destruct (Z.eqb_spec c 37); [lia|].
    destruct (c =? 43); [apply IH; assumption|].
    rewrite Hm. cbn [andb]. unfold host_byte_ok in Hc.
    destruct (Z.eqb_spec c 37); [lia|]. cbn [orb] in Hc.
    destruct (Z.leb_spec 128 c) as [Hge|Hlt].
    + destruct (Z.ltb_spec c 128); [lia|]. cbn [andb]. apply IH; assumption.
    + cbn [orb] in Hc. apply negb_true_iff in Hc. rewrite Hc. rewrite andb_false_r.
      apply IH; assumption.
Qed.

Lemma unesc_ok_escape_other m s : is_hostmode m = false -> unesc_ok m (escape_pct s) = true.
Proof.
  intros Hm. induction s as [|c t IH]; [reflexivity|].
  cbn [escape_pct]. destruct (Z.eqb_spec c 37) as [->|Hne].
  - cbn [unesc_ok]. rewrite Z.eqb_refl.
    replace (ishex 50 && ishex 53) with true by reflexivity. cbn [negb].
    destruct m; try discriminate; cbn [andb]; apply IH.
  - cbn [unesc_ok]. destruct (Z.eqb_spec c 37); [lia|].
    rewrite Hm. cbn [andb]. destruct (c =? 43); apply IH.
Qed.

Lemma unescape_escape_host m s : is_hostmode m = true ->
  forallb host_byte_ok s = true -> unescape m (escape_pct s) = ROk s.
Proof.
  intros Hm H. unfold unescape. rewrite unesc_ok_escape_host by assumption.
  rewrite unesc_do_escape. reflexivity.
Qed.

Lemma unescape_escape_other m s : is_hostmode m = false -> unescape m (escape_pct s) = ROk s.
Proof.
  intros Hm. unfold unescape. rewrite unesc_ok_escape_other by assumption.
  rewrite unesc_do_escape. reflexivity.
Qed.

(* the second pass never reaches its unguarded index once the first pass accepted *)
Lemma unesc_do_no_panic m : forall s, unesc_ok m s = true -> exists r, unesc_do s = Ret r.
Proof.
  assert (G : forall n s, (List.length s <= n)%nat -> unesc_ok m s = true -> exists r, unesc_do s = Ret r).
  { induction n as [|n IH]; intros s Hl H.
    - destruct s; [exists []; reflexivity|cbn in Hl; lia].
    - destruct s as [|c t]; [exists []; reflexivity|].
      cbn [unesc_ok unesc_do] in *. destruct (c =? 37).
      + destruct t as [|h1 [|h2 t']]; try discriminate.
        assert (Ht : unesc_ok m t' = true).
        { destruct (negb (ishex h1 && ishex h2)); [discriminate|].
          repeat match type of H with (if ?b then false else _) = true => destruct b; [discriminate|] end.
          assumption. }
        destruct (IH t' ltac:(cbn in Hl; lia) Ht) as (r & ->). eexists; reflexivity.
      + assert (Ht : unesc_ok m t = true).
        { destruct (c =? 43); [assumption|].
          match type of H with (if ?b then false else _) = true => destruct b; [discriminate|] end.
          assumption. }
        destruct (IH t ltac:(cbn in Hl; lia) Ht) as (r & ->). eexists; reflexivity. }
  intros s. apply (G (List.length s)). lia.
Qed.

Lemma unescape_no_panic m s : unescape m s <> RPanic.
Proof.
  unfold unescape. destruct (unesc_ok m s) eqn:E; [|discriminate].
  destruct (unesc_do_no_panic m s E) as (r & ->). discriminate.
Qed.

(* ------------------------------------------------------------------ *)
(* byte-class facts *)

Lemma host_byte_ok_facts c : host_byte_ok c = true ->
  is_ctl c = false /\ c <> 35 /\ c <> 63 /\ c <> 47 /\ c <> 64 /\ c <> 32.
Proof.
  unfold host_byte_ok, is_ctl. intros H.
  destruct (Z.eq_dec c 37) as [E|Hne]; [subst c; cbn; repeat split; lia|].
  apply Z.eqb_neq in Hne. rewrite Hne in H. apply Z.eqb_neq in Hne.
  cbn [orb] in H. destruct (Z.leb_spec 128 c) as [Hge|Hlt].
  - repeat split; lia.
  - cbn [orb] in H. apply negb_true_iff in H.
    assert (G : c < 32 \/ c = 127 \/ c = 35 \/ c = 63 \/ c = 47 \/ c = 64 \/ c = 32 ->
                should_escape_host c = true).
    { intros Hc. unfold should_escape_host, is_alnum, is_alpha, is_lower, is_upper, is_digit, mem, existsb.
      cmp; reflexivity. }
    repeat split; try (intros ->; rewrite G in H by lia; discriminate).
    cmp; try reflexivity; rewrite G in H by lia; discriminate.
Qed.

Lemma forallb_host_notin s c : forallb host_byte_ok s = true ->
  host_byte_ok c = false -> ~ In c s.
Proof.
  intros H Hc Hin. rewrite forallb_forall in H. apply H in Hin. congruence.
Qed.

Lemma forallb_digit_no37 t : forallb is_digit t = true -> ~ In 37 t.
Proof.
  intros H Hin. rewrite forallb_forall in H. apply H in Hin. discriminate.
Qed.

Lemma valid_port_escape cp : valid_optional_port cp = true -> escape_pct cp = cp.
Proof.
  destruct cp as [|c t]; [reflexivity|]. cbn [valid_optional_port]. intros H. zb. subst c.
  apply escape_pct_id. intros [Hx|Hx]; [lia|]. revert Hx. apply forallb_digit_no37. assumption.
Qed.

(* ------------------------------------------------------------------ *)
(* parse_host on a pre-escaped, acceptable host *)

(* host[:port] accepted literally by url.parseHost: acceptable bytes, and the
   port position (after the last ']' of a bracketed host, after the last ':'
   otherwise) holds an optional ':' digits *)
Definition host_ok0 (h : bytes) : bool :=
  forallb host_byte_ok h &&
  if has_prefix1 91 h then
    match split_last 93 h with
    | Some (_, cp) => valid_optional_port cp
    | None => false
    end
  else
    match split_last 58 h with
    | Some (_, after) => forallb is_digit after
    | None => true
    end.

Definition host_ok (h : bytes) : bool := negb (is_nil h) && host_ok0 h.

Lemma has_prefix1_escape c s : c <> 37 -> has_prefix1 c (escape_pct s) = has_prefix1 c s.
Proof.
  intros Hc. destruct s as [|x t]; [reflexivity|]. cbn [escape_pct].
  destruct (Z.eqb_spec x 37) as [->|]; cbn [has_prefix1]; [|reflexivity].
  destruct (Z.eqb_spec 37 c); [lia|reflexivity].
Qed.

Lemma forallb_app_l {A} (f : A -> bool) a b : forallb f (a ++ b) = true -> forallb f a = true.
Proof. rewrite forallb_app. intros H. apply andb_true_iff in H. tauto. Qed.
Lemma forallb_app_r {A} (f : A -> bool) a b : forallb f (a ++ b) = true -> forallb f b = true.
Proof. rewrite forallb_app. intros H. apply andb_true_iff in H. tauto. Qed.

Lemma cut_some sep s p q : cut sep s = (p, q, true) -> s = p ++ sep :: q.
Proof.
  revert p q. induction s as [|c t IH]; intros p q H; cbn in H; [discriminate|].
  destruct (Z.eqb_spec c sep) as [->|].
  - inversion H; subst. reflexivity.
  - destruct (cut sep t) as [[b a] f] eqn:E. inversion H; subst. cbn. f_equal. apply IH. reflexivity.
Qed.

Lemma parse_host_escape h : host_ok0 h = true -> parse_host (escape_pct h) = ROk h.
Proof.
  unfold host_ok0. intros H. apply andb_true_iff in H. destruct H as [Hb Hs].
  assert (Hplain : unescape EncHost (escape_pct h) = ROk h)
    by (apply unescape_escape_host; [reflexivity|assumption]).
  unfold parse_host. rewrite has_prefix1_escape by lia.
  destruct (has_prefix1 91 h).
  - rewrite split_last_escape by lia.
    destruct (split_last 93 h) as [[before cp]|] eqn:E; [|discriminate].
    rewrite (valid_port_escape cp Hs), Hs. cbn [negb].
    pose proof (split_last_some _ _ _ _ E) as Eh.
    rewrite split_pct25_escape.
    destruct (cut 37 before) as [[p q] [|]] eqn:Ec; [|exact Hplain].
    pose proof (cut_some _ _ _ _ Ec) as Eb.
    assert (Hall : forallb host_byte_ok (p ++ (37 :: q) ++ 93 :: cp) = true).
    { rewrite app_assoc. cbn [app]. rewrite <- Eb, <- Eh. assumption. }
    rewrite (unescape_escape_host EncHost p) by
      (try reflexivity; eapply forallb_app_l; exact Hall).
    cbn [rbind].
    rewrite (unescape_escape_host EncZone (37 :: q)) by
      (try reflexivity; eapply forallb_app_l; eapply forallb_app_r; exact Hall).
    cbn [rbind].
    replace (93 :: cp) with (escape_pct (93 :: cp)).
    2:{ cbn [escape_pct]. destruct (Z.eqb_spec 93 37); [lia|]. rewrite valid_port_escape by assumption. reflexivity. }
    rewrite (unescape_escape_host EncHost (93 :: cp)) by
      (try reflexivity; eapply forallb_app_r; eapply forallb_app_r; exact Hall).
    cbn [rbind]. f_equal. rewrite Eh, Eb. rewrite <- app_assoc. reflexivity.
  - rewrite split_last_escape by lia.
    destruct (split_last 58 h) as [[before after]|] eqn:E; [|exact Hplain].
    rewrite (escape_pct_id after) by (apply forallb_digit_no37; assumption).
    cbn [valid_optional_port]. rewrite Z.eqb_refl, Hs. exact Hplain.
Qed.

(* ------------------------------------------------------------------ *)
(* url_parse on  scheme "://" host path *)

Definition scheme_char (c : Z) : bool := is_alnum c || (c =? 43) || (c =? 45) || (c =? 46).

(* [a-zA-Z][a-zA-Z0-9+.-]* *)
Definition scheme_ok (s : bytes) : bool :=
  match s with
  | [] => false
  | c :: t => is_alpha c && forallb scheme_char t
  end.

Lemma scheme_scan_tail t rest : forallb scheme_char t = true ->
  scheme_scan false (t ++ 58 :: rest) = Some (Some (t, rest)).
Proof.
  induction t as [|c t IH]; intros H.
  - cbn. reflexivity.
  - cbn [forallb] in H. apply andb_true_iff in H. destruct H as [Hc Ht].
    cbn [app scheme_scan]. rewrite (IH Ht).
    destruct (is_alpha c) eqn:Ea; [reflexivity|].
    unfold scheme_char, is_alnum in Hc. rewrite Ea in Hc. cbn [orb] in Hc.
    rewrite Hc. reflexivity.
Qed.

Lemma scheme_scan_ok s rest : scheme_ok s = true ->
  scheme_scan true (s ++ 58 :: rest) = Some (Some (s, rest)).
Proof.
  destruct s as [|c t]; [discriminate|]. cbn [scheme_ok]. intros H.
  apply andb_true_iff in H. destruct H as [Hc Ht].
  cbn [app scheme_scan]. rewrite Hc. rewrite scheme_scan_tail by assumption. reflexivity.
Qed.

Lemma scheme_char_facts c : scheme_char c = true ->
  is_ctl c = false /\ c <> 35 /\ c <> 37 /\ c <> 42.
Proof.
  unfold scheme_char, is_alnum, is_alpha, is_lower, is_upper, is_digit, is_ctl. intros H.
  repeat split; lia.
Qed.

Lemma scheme_ok_chars s : scheme_ok s = true -> forallb scheme_char s = true.
Proof.
  destruct s as [|c t]; [discriminate|]. cbn. intros H. zb.
  apply andb_true_iff. split; [|assumption]. unfold scheme_char, is_alnum. rewrite H. reflexivity.
Qed.

(* path part: empty or rooted, without control bytes, '?' and '#' *)
Definition path_byte_ok (c : Z) : bool := negb (is_ctl c) && negb (c =? 35) && negb (c =? 63).
Definition path_ok (p : bytes) : bool :=
  (is_nil p || has_prefix1 47 p) && forallb path_byte_ok p.

Lemma existsb_false_forall {A} (f : A -> bool) l :
  (forall x, In x l -> f x = false) -> existsb f l = false.
Proof.
  induction l as [|x t IH]; intros H; [reflexivity|]. cbn.
  rewrite (H x (or_introl eq_refl)). apply IH. intros y Hy. apply H. right. assumption.
Qed.

Lemma lower_nil s : lower s = [] <-> s = [].
Proof. destruct s; cbn; split; congruence. Qed.

Theorem url_parse_constructed s h p :
  scheme_ok s = true -> host_ok0 h = true -> path_ok p = true ->
  url_parse (escape_pct (s ++ [58; 47; 47] ++ h ++ p)) = ROk (mkurl (lower s) h p).
Proof.
  intros Hs Hh Hp.
  pose proof (scheme_ok_chars s Hs) as Hsc.
  assert (Hhb : forallb host_byte_ok h = true).
  { unfold host_ok0 in Hh. apply andb_true_iff in Hh. tauto. }
  unfold path_ok in Hp. apply andb_true_iff in Hp. destruct Hp as [Hp0 Hpb].
  rewrite forallb_forall in Hsc, Hhb, Hpb.
  (* the pre-escape leaves scheme and "://" alone *)
  assert (Es : escape_pct s = s).
  { apply escape_pct_id. intros Hin. apply Hsc in Hin. apply scheme_char_facts in Hin. lia. }
  rewrite !escape_pct_app, Es. change (escape_pct [58; 47; 47]) with [58; 47; 47].
  set (eh := escape_pct h). set (ep := escape_pct p).
  assert (Hin_eh : forall c, In c eh -> c = 50 \/ c = 53 \/ In c h).
  { intros c Hc. destruct (Z.eq_dec c 50); [tauto|]. destruct (Z.eq_dec c 53); [tauto|].
    destruct (Z.eq_dec c 37) as [->|].
    - right; right. unfold eh in Hc. clear -Hc. induction h as [|x t IH]; cbn in Hc; [tauto|].
      destruct (Z.eqb_spec x 37) as [->|]; [left; reflexivity|].
      destruct Hc as [Hc|Hc]; [lia|]. right. apply IH. assumption.
    - right; right. apply (escape_pct_in c h); assumption. }
  assert (Hin_ep : forall c, In c ep -> c = 50 \/ c = 53 \/ In c p).
  { intros c Hc. destruct (Z.eq_dec c 50); [tauto|]. destruct (Z.eq_dec c 53); [tauto|].
    destruct (Z.eq_dec c 37) as [->|].
    - right; right. unfold ep in Hc. clear -Hc. induction p as [|x t IH]; cbn in Hc; [tauto|].
      destruct (Z.eqb_spec x 37) as [->|]; [left; reflexivity|].
      destruct Hc as [Hc|Hc]; [lia|]. right. apply IH. assumption.
    - right; right. apply (escape_pct_in c p); assumption. }
  assert (Hbyte : forall c, In c (s ++ [58; 47; 47] ++ eh ++ ep) ->
                            is_ctl c = false /\ c <> 35 /\ c <> 63).
  { intros c Hc. rewrite !in_app_iff in Hc. destruct Hc as [Hc|[Hc|[Hc|Hc]]].
    - apply Hsc in Hc. pose proof (scheme_char_facts c Hc) as F.
      unfold scheme_char, is_alnum, is_alpha, is_lower, is_upper, is_digit in Hc.
      repeat split; try tauto. intros ->. cbn in Hc. discriminate.
    - cbn in Hc. destruct Hc as [<-|[<-|[<-|[]]]]; cbn; repeat split; lia.
    - apply Hin_eh in Hc. destruct Hc as [->|[->|Hc]]; [cbn; repeat split; lia..|].
      apply Hhb in Hc. apply host_byte_ok_facts in Hc. tauto.
    - apply Hin_ep in Hc. destruct Hc as [->|[->|Hc]]; [cbn; repeat split; lia..|].
      apply Hpb in Hc. unfold path_byte_ok in Hc. zb. repeat split; assumption. }
  unfold url_parse.
  rewrite cut_notin by (intros Hc; apply Hbyte in Hc; lia).
  cbn [is_nil rbind]. unfold url_parse_nofrag.
  rewrite existsb_false_forall by (intros c Hc; apply Hbyte in Hc; tauto).
  assert (Hstar : bytes_eqb (s ++ [58; 47; 47] ++ eh ++ ep) [42] = false).
  { destruct s as [|c [|d t]]; try discriminate.
    - cbn. rewrite andb_false_r. reflexivity.
    - cbn. rewrite andb_false_r. reflexivity. }
  rewrite Hstar.
  change (s ++ [58; 47; 47] ++ eh ++ ep) with (s ++ 58 :: ([47; 47] ++ eh ++ ep)).
  rewrite scheme_scan_ok by assumption.
  assert (Hn63 : ~ In 63 ([47; 47] ++ eh ++ ep)).
  { intros Hc. assert (Hc' : In 63 (s ++ [58; 47; 47] ++ eh ++ ep)).
    { apply in_or_app. right. right. exact Hc. }
    apply Hbyte in Hc'. lia. }
  rewrite (count_notin 63) by assumption.
  change (0 =? 1) with false. rewrite andb_false_r.
  rewrite cut_notin by assumption. cbn [fst].
  cbn [app has_prefix1]. change (47 =? 47) with true. cbn [negb andb].
  assert (Hsl : is_nil (lower s) = false).
  { apply is_nil_false. rewrite lower_nil. destruct s; [discriminate|congruence]. }
  rewrite Hsl. cbn [negb orb andb].
  (* authority / path split *)
  assert (Hn47 : ~ In 47 eh).
  { intros Hc. apply Hin_eh in Hc. destruct Hc as [Hc|[Hc|Hc]]; try lia.
    apply Hhb in Hc. apply host_byte_ok_facts in Hc. lia. }
  assert (Hcut : cut 47 (eh ++ ep) = (eh, match ep with [] => [] | _ :: t => t end, negb (is_nil ep))
                 /\ (if negb (is_nil ep) then 47 :: match ep with [] => [] | _ :: t => t end else []) = ep).
  { apply orb_true_iff in Hp0. destruct Hp0 as [Hp0|Hp0].
    - apply is_nil_true in Hp0. subst p. unfold ep. cbn [escape_pct]. rewrite app_nil_r.
      rewrite cut_notin by assumption. split; reflexivity.
    - destruct p as [|x t]; [discriminate|]. cbn in Hp0. apply Z.eqb_eq in Hp0. subst x.
      unfold ep. cbn [escape_pct]. change (47 =? 37) with false. cbn iota.
      rewrite cut_app_found by assumption. split; reflexivity. }
  destruct Hcut as [Hcut Hrest]. rewrite Hcut. rewrite Hrest.
  (* no userinfo *)
  unfold parse_authority.
  assert (Hn64 : split_last 64 eh = None).
  { apply split_last_none. intros Hc. apply Hin_eh in Hc. destruct Hc as [Hc|[Hc|Hc]]; try lia.
    apply Hhb in Hc. apply host_byte_ok_facts in Hc. lia. }
  rewrite Hn64. unfold eh. rewrite parse_host_escape by assumption. cbn [rbind].
  unfold ep. rewrite unescape_escape_other by reflexivity. reflexivity.
Qed.

(* ------------------------------------------------------------------ *)
(* path.Clean never returns the empty string *)

Definition cs_inv (st : cstate) : Prop := c_w st = Z.of_nat (List.length (c_out st)).

Lemma backtrack_inv out : forall w d, w = Z.of_nat (List.length out) -> out <> [] ->
  snd (backtrack out w d) = Z.of_nat (List.length (fst (backtrack out w d))).
Proof.
  induction out as [|x r IH]; intros w d Hw Hne; [congruence|].
  cbn [backtrack]. cbn [List.length] in Hw.
  destruct ((w - 1 >? d) && negb (x =? 47)) eqn:E.
  - destruct r as [|y r'].
    + cbn [backtrack fst snd List.length] in *. lia.
    + apply IH; [cbn [List.length] in *; lia|discriminate].
  - cbn [fst snd]. lia.
Qed.

Lemma cs_append_inv st c : cs_inv st -> cs_inv (cs_append st c).
Proof. unfold cs_inv, cs_append. cbn. intros ->. lia. Qed.

Lemma clean_go_inv rooted : forall p in_elem st, cs_inv st -> cs_inv (clean_go rooted in_elem p st).
Proof.
  assert (G : forall n p, (List.length p <= n)%nat -> forall in_elem st, cs_inv st ->
                          cs_inv (clean_go rooted in_elem p st)).
  { induction n as [|n IH]; intros p Hl in_elem st Hst.
    - destruct p; [exact Hst|cbn in Hl; lia].
    - destruct p as [|c t]; [exact Hst|]. cbn [List.length] in Hl.
      assert (Ht : (List.length t <= n)%nat) by lia.
      cbn [clean_go]. destruct in_elem.
      + destruct (c =? 47); apply IH; auto using cs_append_inv.
      + destruct (c =? 47); [apply IH; assumption|].
        match goal with |- context [if ?b then _ else _] => destruct b end; [apply IH; assumption|].
        match goal with |- context [if ?b then _ else _] => destruct b end.
        * destruct t as [|d t2]; [assumption|].
          assert (Ht2 : (List.length t2 <= n)%nat) by (cbn in Ht; lia).
          destruct (c_w st >? c_dotdot st) eqn:Ew.
          -- destruct (backtrack (c_out st) (c_w st) (c_dotdot st)) as [o w] eqn:Eb.
             apply IH; [assumption|]. unfold cs_inv. cbn [c_out c_w].
             unfold cs_inv in Hst.
             destruct (c_out st) as [|x r] eqn:E0.
             { cbn in Eb. inversion Eb; subst. exact Hst. }
             pose proof (backtrack_inv (x :: r) (c_w st) (c_dotdot st) Hst ltac:(discriminate)) as Hb.
             rewrite Eb in Hb. exact Hb.
          -- destruct (negb rooted); [|apply IH; assumption].
             apply IH; [assumption|]. unfold cs_inv. cbn [c_out c_w].
             apply cs_append_inv. apply cs_append_inv. destruct (c_w st >? 0); auto using cs_append_inv.
        * apply IH; [assumption|]. apply cs_append_inv.
          match goal with |- context [if ?b then _ else _] => destruct b end; auto using cs_append_inv. }
  intros p. apply (G (List.length p)). lia.
Qed.

Theorem path_clean_nonempty p : path_clean p <> [].
Proof.
  unfold path_clean. destruct p as [|c t]; [discriminate|].
  set (st := if c =? 47 then clean_go true false t (mkcs [47] 1 1)
             else clean_go false false (c :: t) (mkcs [] 0 0)).
  assert (Hst : cs_inv st).
  { unfold st. destruct (c =? 47); apply clean_go_inv; reflexivity. }
  destruct (Z.eqb_spec (c_w st) 0) as [E|E]; [discriminate|].
  unfold cs_inv in Hst. intros Hr.
  assert (c_out st = []) by (destruct (c_out st); [reflexivity|cbn in Hr; apply app_eq_nil in Hr; destruct Hr; discriminate]).
  rewrite H in Hst. cbn in Hst. lia.
Qed.

Lemma path_join_nil a b : path_join a b = [] <-> a = [] /\ b = [].
Proof.
  unfold path_join. destruct a as [|x a'], b as [|y b']; split; intros H;
    try (exfalso; revert H; apply path_clean_nonempty); try tauto;
    destruct H; discriminate.
Qed.

(* ------------------------------------------------------------------ *)
(* url_parse never panics *)

Lemma rbind_no_panic {A B} (r : res A) (f : A -> res B) :
  r <> RPanic -> (forall a, f a <> RPanic) -> rbind r f <> RPanic.
Proof. destruct r; cbn; intros H1 H2; auto; congruence. Qed.

Lemma parse_host_no_panic h : parse_host h <> RPanic.
Proof.
  unfold parse_host. destruct (has_prefix1 91 h).
  - destruct (split_last 93 h) as [[b cp]|]; [|discriminate].
    destruct (negb (valid_optional_port cp)); [discriminate|].
    destruct (split_pct25 b) as [[h1 z]|]; [|apply unescape_no_panic].
    repeat (apply rbind_no_panic; [apply unescape_no_panic|intros ?]). discriminate.
  - destruct (split_last 58 h) as [[b a]|]; [|apply unescape_no_panic].
    destruct (negb _); [discriminate|apply unescape_no_panic].
Qed.

Lemma parse_authority_no_panic a : parse_authority a <> RPanic.
Proof.
  unfold parse_authority. destruct (split_last 64 a) as [[u hp]|]; [|apply parse_host_no_panic].
  apply rbind_no_panic; [apply parse_host_no_panic|intros host].
  destruct (negb (valid_userinfo u)); [discriminate|].
  destruct (negb (contains 58 u)).
  - apply rbind_no_panic; [apply unescape_no_panic|intros ?; discriminate].
  - destruct (cut 58 u) as [[un pw] f].
    repeat (apply rbind_no_panic; [apply unescape_no_panic|intros ?]). discriminate.
Qed.

Lemma url_parse_no_panic raw : url_parse raw <> RPanic.
Proof.
  unfold url_parse. destruct (cut 35 raw) as [[u frag] f].
  apply rbind_no_panic.
  - unfold url_parse_nofrag. destruct (existsb is_ctl u); [discriminate|].
    destruct (bytes_eqb u [42]); [discriminate|].
    destruct (scheme_scan true u) as [gs|]; [|discriminate].
    destruct (match gs with Some (s, r) => (s, r) | None => ([], u) end) as [scheme0 rest0].
    cbv zeta.
    match goal with |- context [negb (has_prefix1 47 ?r)] => set (rest1 := r) end.
    destruct (negb (has_prefix1 47 rest1) && negb (is_nil (lower scheme0))); [discriminate|].
    destruct (negb (has_prefix1 47 rest1) && contains 58 (fst (fst (cut 47 rest1)))); [discriminate|].
    assert (Hfin : forall host rest, rbind (unescape EncPath rest)
                     (fun p => ROk (mkurl (lower scheme0) host p)) <> RPanic).
    { intros host rest. apply rbind_no_panic; [apply unescape_no_panic|intros ?; discriminate]. }
    destruct rest1 as [|s1 [|s2 after]]; try apply Hfin.
    match goal with |- context [if ?b then _ else _] => destruct b end; [|apply Hfin].
    destruct (cut 47 after) as [[authority tail] found].
    apply rbind_no_panic; [apply parse_authority_no_panic|intros host; apply Hfin].
  - intros url. destruct (is_nil frag); [discriminate|].
    apply rbind_no_panic; [apply unescape_no_panic|intros ?; discriminate].
Qed.

(* ------------------------------------------------------------------ *)
(* parse_total_classified *)

Definition seven_schemes : list bytes := s_unix :: inet_schemes.

Lemma is_inet_scheme_In s : is_inet_scheme s = true <-> In s inet_schemes.
Proof.
  unfold is_inet_scheme. rewrite existsb_exists. split.
  - intros (x & Hx & E). apply bytes_eqb_eq in E. subst. assumption.
  - intros H. exists s. split; [assumption|apply bytes_eqb_refl].
Qed.

Lemma unix_not_inet : ~ In s_unix inet_schemes.
Proof. cbn. intuition discriminate. Qed.

Theorem dispatch_classified u :
  dispatch u <> PPanic /\
  (dispatch u = PErr EInvalid <->
     u_scheme u = [] \/
     (In (u_scheme u) inet_schemes /\ (u_host u = [] \/ u_path u <> [])) \/
     (u_scheme u = s_unix /\ u_host u = [] /\ u_path u = [])) /\
  (dispatch u = PErr EUnsupported <-> u_scheme u <> [] /\ ~ In (u_scheme u) seven_schemes) /\
  dispatch u <> PErr EUrl /\
  (forall s ep, dispatch u = POk s ep ->
     s = u_scheme u /\ In s seven_schemes /\ ep <> [] /\
     (In s inet_schemes -> ep = u_host u /\ u_path u = []) /\
     (s = s_unix -> ep = path_join (u_host u) (u_path u))).
Proof.
  unfold dispatch, seven_schemes.
  destruct (is_nil (u_scheme u)) eqn:En.
  { apply is_nil_true in En. rewrite En. repeat split; try discriminate; try tauto.
    intros [H _]. congruence. }
  apply is_nil_false in En.
  destruct (is_inet_scheme (u_scheme u)) eqn:Ei.
  { apply is_inet_scheme_In in Ei.
    assert (Hnu : u_scheme u <> s_unix) by (intros E; rewrite E in Ei; exact (unix_not_inet Ei)).
    destruct (is_nil (u_host u)) eqn:Eh; cbn [orb].
    - apply is_nil_true in Eh. repeat split; try discriminate; try tauto.
      intros [_ H]. exfalso. apply H. right. assumption.
    - apply is_nil_false in Eh. destruct (is_nil (u_path u)) eqn:Ep; cbn [negb].
      + apply is_nil_true in Ep. repeat split; try discriminate.
        * intros [H|[[_ [H|H]]|[H _]]]; congruence.
        * intros [_ H]. exfalso. apply H. right. assumption.
        * inversion H; reflexivity.
        * inversion H; subst. right. assumption.
        * inversion H; subst. assumption.
        * inversion H; reflexivity.
        * assumption.
        * intros E. inversion H; subst. congruence.
      + apply is_nil_false in Ep. repeat split; try discriminate; try tauto.
        intros [_ H]. exfalso. apply H. right. assumption. }
  assert (Hni : ~ In (u_scheme u) inet_schemes).
  { intros H. apply is_inet_scheme_In in H. congruence. }
  destruct (bytes_eqb (u_scheme u) s_unix) eqn:Eu.
  { apply bytes_eqb_eq in Eu.
    destruct (is_nil (path_join (u_host u) (u_path u))) eqn:Ej.
    - apply is_nil_true in Ej. pose proof Ej as Ej2. apply path_join_nil in Ej2.
      repeat split; try discriminate; try tauto.
      intros [_ H]. apply H. left. congruence.
    - apply is_nil_false in Ej.
      repeat split; try discriminate.
      + intros [H|[[H _]|[_ H]]]; try tauto. apply Ej. apply path_join_nil. assumption.
      + intros [_ H]. exfalso. apply H. left. congruence.
      + inversion H; reflexivity.
      + inversion H; subst. left. congruence.
      + inversion H; subst. assumption.
      + inversion H; subst. intros Hi. tauto.
      + inversion H; subst. intros Hi. tauto.
      + inversion H; reflexivity. }
  assert (Hnu : u_scheme u <> s_unix).
  { intros E. apply bytes_eqb_eq in E. congruence. }
  repeat split; try discriminate; try tauto.
  - intros [H|[[H _]|[H _]]]; congruence.
  - intros [H|H]; [congruence|tauto].
Qed.

Theorem parse_total_classified a :
  parse_proto_addr a <> PPanic /\
  ((url_parse (escape_pct a) = RErr /\ parse_proto_addr a = PErr EUrl) \/
   (exists u, url_parse (escape_pct a) = ROk u /\
     (parse_proto_addr a = PErr EInvalid <->
        u_scheme u = [] \/
        (In (u_scheme u) inet_schemes /\ (u_host u = [] \/ u_path u <> [])) \/
        (u_scheme u = s_unix /\ u_host u = [] /\ u_path u = [])) /\
     (parse_proto_addr a = PErr EUnsupported <->
        u_scheme u <> [] /\ ~ In (u_scheme u) seven_schemes) /\
     parse_proto_addr a <> PErr EUrl /\
     (forall s ep, parse_proto_addr a = POk s ep ->
        s = u_scheme u /\ In s seven_schemes /\ ep <> [] /\
        (In s inet_schemes -> ep = u_host u /\ u_path u = []) /\
        (s = s_unix -> ep = path_join (u_host u) (u_path u))))).
Proof.
  unfold parse_proto_addr.
  pose proof (url_parse_no_panic (escape_pct a)) as Hnp.
  destruct (url_parse (escape_pct a)) as [u| |] eqn:E; [| |congruence].
  - pose proof (dispatch_classified u) as (H1 & H2 & H3 & H4 & H5).
    split; [assumption|]. right. exists u. repeat split; try assumption; try apply H2; try apply H3.
    all: try (intros; eapply H5; eassumption).
  - split; [discriminate|]. left. split; reflexivity.
Qed.

Corollary parse_result_shape a :
  (exists e, parse_proto_addr a = PErr e) \/
  (exists s ep, parse_proto_addr a = POk s ep /\ In s seven_schemes /\ ep <> []).
Proof.
  pose proof (parse_total_classified a) as [Hnp [[_ H]|(u & _ & _ & _ & _ & H)]].
  - left. eexists; exact H.
  - destruct (parse_proto_addr a) as [s ep|e|] eqn:E.
    + right. exists s, ep. split; [reflexivity|]. destruct (H s ep eq_refl) as (_ & H2 & H3 & _). tauto.
    + left. eexists; reflexivity.
    + congruence.
Qed.
