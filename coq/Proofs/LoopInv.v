(* Generic infrastructure for proving that the history of a run of Model/Loop.v
   satisfies a trace checker `check step c0`:
   - `runs`: the checker as a three-valued fold (Live state / Dead = accepted after a
     desync / Fail), with the append lemma;
   - `Inv Rel w`: the history so far has not failed and, if the run is still live and
     the world not halted, the checker state is related to the model state by `Rel`;
   - one lemma per log/state primitive of the model (emit, desync, with_st, pull_gen,
     sysret, sys, sys_wr), parameterised by the relations before/after.
   Nothing here depends on a particular checker. *)
From GV Require Import Lib.Trace Model.Loop Spec.LoopSpec.
From Coq Require Import Lia.
Open Scope string_scope.
Open Scope list_scope.
Open Scope Z_scope.

Inductive status (CS : Type) := Live (c : CS) | Dead | Fail.
Arguments Live {CS} c.
Arguments Dead {CS}.
Arguments Fail {CS}.

Section Runs.
Context {CS : Type}.
Variable step : CS -> ev -> option CS.

Fixpoint runs (c : CS) (t : list ev) : status CS :=
  match t with
  | [] => Live c
  | e :: r => if is_desync e then Dead else
              match step c e with Some c' => runs c' r | None => Fail end
  end.

Lemma runs_app : forall t1 t2 c,
  runs c (t1 ++ t2) = match runs c t1 with Live c' => runs c' t2 | Dead => Dead | Fail => Fail end.
Proof.
  induction t1 as [|e r IH]; intros t2 c; cbn [runs app]; [reflexivity|].
  destruct (is_desync e); [reflexivity|].
  destruct (step c e); [apply IH|reflexivity].
Qed.

Lemma check_runs : forall t c,
  check step c t = match runs c t with Fail => false | _ => true end.
Proof.
  induction t as [|e r IH]; intros c; cbn [runs check]; [reflexivity|].
  destruct (is_desync e); [reflexivity|].
  destruct (step c e); [apply IH|reflexivity].
Qed.

Variable c0 : CS.

Definition Inv (Rel : CS -> lstate -> Prop) (w : world) : Prop :=
  match runs c0 (rev (log w)) with
  | Fail => False
  | Dead => True
  | Live c => halt w = false -> Rel c (st w)
  end.

Lemma Inv_good : forall Rel w, Inv Rel w -> check step c0 (rev (log w)) = true.
Proof.
  intros Rel w H. rewrite check_runs. unfold Inv in H.
  destruct (runs c0 (rev (log w))); tauto.
Qed.

Lemma Inv_weaken : forall (Rel Rel' : CS -> lstate -> Prop) w,
  Inv Rel w -> (forall c, halt w = false -> Rel c (st w) -> Rel' c (st w)) -> Inv Rel' w.
Proof.
  unfold Inv; intros Rel Rel' w H Hi.
  destruct (runs c0 (rev (log w))); auto.
Qed.

Lemma Inv_halted : forall (Rel Rel' : CS -> lstate -> Prop) w,
  halt w = true -> Inv Rel w -> Inv Rel' w.
Proof.
  intros Rel Rel' w Hh H. apply (Inv_weaken Rel); auto. intros; congruence.
Qed.

(* a fact about the current state joins the relation *)
Lemma Inv_assert : forall (Rel : CS -> lstate -> Prop) (P : lstate -> Prop) w,
  Inv Rel w -> P (st w) -> Inv (fun c s => Rel c s /\ P s) w.
Proof.
  intros Rel P w H HP. apply (Inv_weaken Rel); auto.
Qed.

Lemma Inv_world : forall (Rel Rel' : CS -> lstate -> Prop) w w',
  Inv Rel w -> log w' = log w -> halt w' = halt w ->
  (forall c, halt w = false -> Rel c (st w) -> Rel' c (st w')) -> Inv Rel' w'.
Proof.
  unfold Inv; intros Rel Rel' w w' H Hl Hh Hi. rewrite Hl, Hh.
  destruct (runs c0 (rev (log w))); auto.
Qed.

Lemma Inv_with_st : forall (Rel Rel' : CS -> lstate -> Prop) w s',
  Inv Rel w -> (forall c, halt w = false -> Rel c (st w) -> Rel' c s') -> Inv Rel' (with_st w s').
Proof.
  intros Rel Rel' w s' H Hi. apply (Inv_world Rel Rel' w); auto.
Qed.

Lemma Inv_wsetc : forall (Rel Rel' : CS -> lstate -> Prop) w cid c',
  Inv Rel w -> (forall c, halt w = false -> Rel c (st w) -> Rel' c (setc (st w) cid c')) ->
  Inv Rel' (wsetc w cid c').
Proof. intros. unfold wsetc. eapply Inv_with_st; eauto. Qed.

Lemma Inv_emit : forall (Rel Rel' : CS -> lstate -> Prop) w l,
  Inv Rel w -> is_desync (EOut l) = false ->
  (forall c, halt w = false -> Rel c (st w) ->
             exists c', step c (EOut l) = Some c' /\ Rel' c' (st w)) ->
  Inv Rel' (emit l w).
Proof.
  intros Rel Rel' w l H Hd Hi. unfold emit.
  destruct (halt w) eqn:Hh; [eapply Inv_halted; eauto|].
  unfold Inv in *. cbn [log st halt]. cbn [rev]. rewrite runs_app.
  destruct (runs c0 (rev (log w))) as [c| |]; auto.
  cbn [runs]. rewrite Hd.
  destruct (Hi c eq_refl (H Hh)) as [c' [Hs Hr]]. rewrite Hs. auto.
Qed.

(* state change immediately followed by an emission, as one step *)
Lemma Inv_st_emit : forall (Rel Rel' : CS -> lstate -> Prop) w s' l,
  Inv Rel w -> is_desync (EOut l) = false ->
  (forall c, halt w = false -> Rel c (st w) ->
             exists c', step c (EOut l) = Some c' /\ Rel' c' s') ->
  Inv Rel' (emit l (with_st w s')).
Proof.
  intros Rel Rel' w s' l H Hd Hi.
  apply (Inv_emit (fun c s => exists c', step c (EOut l) = Some c' /\ Rel' c' s)).
  - eapply Inv_with_st; eauto.
  - exact Hd.
  - intros c _ Hc. exact Hc.
Qed.

Lemma Inv_desync : forall (Rel Rel' : CS -> lstate -> Prop) w what,
  Inv Rel w -> Inv Rel' (desync what w).
Proof.
  intros Rel Rel' w what H. unfold desync, emit, stop.
  destruct (halt w) eqn:Hh.
  - unfold Inv in *. cbn [log halt st].
    destruct (runs c0 (rev (log w))); auto. intros; congruence.
  - unfold Inv in *. cbn [log halt st]. cbn [rev]. rewrite runs_app.
    destruct (runs c0 (rev (log w))); auto. exact I.
Qed.

(* ---- pulling input ---- *)

Lemma pull_from_ext : forall picks i s lg s' lg' o r,
  pull_from picks s lg i = (s', lg', o, r) -> exists d, lg' = d ++ lg.
Proof.
  induction i as [|l i IH]; intros s lg s' lg' o r H; cbn [pull_from] in H.
  - inversion H; subst. exists []; reflexivity.
  - destruct (apply_async s l) as [s1|].
    + apply IH in H. destruct H as [d Hd]. exists (d ++ [EIn l]). rewrite <- app_assoc. exact Hd.
    + destruct (negb picks && is_pick l).
      * eapply IH; eauto.
      * inversion H; subst. exists [EIn l]; reflexivity.
Qed.

Section Pull.
Variable Rel : CS -> lstate -> Prop.
Variable RelF : line -> CS -> lstate -> Prop.
Hypothesis Hasync : forall c s l s', Rel c s -> apply_async s l = Some s' ->
  exists c', step c (EIn l) = Some c' /\ Rel c' s'.
Hypothesis Hfinal : forall c s l, Rel c s -> apply_async s l = None ->
  exists c', step c (EIn l) = Some c' /\ RelF l c' s.

Lemma pull_from_inv : forall picks i s lg c s' lg' o r,
  pull_from picks s lg i = (s', lg', o, r) ->
  runs c0 (rev lg) = Live c -> Rel c s ->
  exists c', runs c0 (rev lg') = Live c' /\
             match o with Some l => RelF l c' s' | None => True end.
Proof.
  induction i as [|l i IH]; intros s lg c s' lg' o r H Hr HR; cbn [pull_from] in H.
  - inversion H; subst. eauto.
  - destruct (apply_async s l) as [s1|] eqn:Ha.
    + destruct (Hasync _ _ _ _ HR Ha) as [c1 [Hs1 HR1]].
      eapply IH; [exact H| |exact HR1].
      cbn [rev]. rewrite runs_app, Hr. cbn [runs is_desync]. rewrite Hs1. reflexivity.
    + destruct (negb picks && is_pick l).
      * eapply IH; eauto.
      * inversion H; subst.
        destruct (Hfinal _ _ _ HR Ha) as [c1 [Hs1 HR1]].
        exists c1. split; [|exact HR1].
        cbn [rev]. rewrite runs_app, Hr. cbn [runs is_desync]. rewrite Hs1. reflexivity.
Qed.

Lemma Inv_pull_gen : forall picks w o w',
  Inv Rel w -> pull_gen picks w = (o, w') ->
  match o with
  | Some l => Inv (RelF l) w'
  | None => forall Rel', Inv Rel' w'
  end.
Proof.
  intros picks w o w' H Hp. unfold pull_gen in Hp.
  destruct (halt w) eqn:Hh.
  - inversion Hp; subst. intros Rel'. eapply Inv_halted; eauto.
  - destruct (pull_from picks (st w) (log w) (inp w)) as [[[s1 lg1] o1] r1] eqn:Hpf.
    destruct (pull_from_ext _ _ _ _ _ _ _ _ Hpf) as [d Hd].
    unfold Inv in H.
    destruct (runs c0 (rev (log w))) as [c| |] eqn:Hr; [| |tauto].
    + destruct (pull_from_inv _ _ _ _ _ _ _ _ _ Hpf Hr (H Hh)) as [c1 [Hr1 HR1]].
      destruct o1 as [l|]; inversion Hp; subst.
      * unfold Inv. cbn [log st halt]. rewrite Hr1. intros _. exact HR1.
      * intros Rel'. unfold Inv. cbn [log st halt]. rewrite Hr1. intros; congruence.
    + assert (Hdead : runs c0 (rev lg1) = Dead).
      { rewrite Hd, rev_app_distr, runs_app, Hr. reflexivity. }
      destruct o1 as [l|]; inversion Hp; subst.
      * unfold Inv. cbn [log]. rewrite Hdead. exact I.
      * intros Rel'. unfold Inv. cbn [log]. rewrite Hdead. exact I.
Qed.

End Pull.

(* ---- system-call results ---- *)

(* the kernel result a well-formed `r` line stands for *)
Definition kres_of (n : Z) (rest : list arg) : kres :=
  if n <? 0 then match rest with ASym e :: _ => KErr e | _ => KErr "err" end
  else KOk n rest.

Section Sys.
Variable Rel1 : CS -> lstate -> Prop.                 (* after the `sys` line, before the result *)
Variable RelF : Z -> list arg -> CS -> lstate -> Prop.   (* after the result line r <name> n rest *)
Variable name : string.
Hypothesis Hasync : forall c s l s', Rel1 c s -> apply_async s l = Some s' ->
  exists c', step c (EIn l) = Some c' /\ Rel1 c' s'.
Hypothesis Hin_total : forall c l, exists c', step c (EIn l) = Some c'.
Hypothesis Hres : forall c s nm n rest, Rel1 c s -> sym_eqb nm name = true ->
  exists c', step c (EIn ("r", ASym nm :: AInt n :: rest)) = Some c' /\ RelF n rest c' s.

Definition RF (l : line) (c : CS) (s : lstate) : Prop :=
  match l with
  | ("r", ASym nm :: AInt n :: rest) => sym_eqb nm name = true -> RelF n rest c s
  | _ => True
  end.

Lemma not_r_RF : forall ln la c s, ln <> "r" -> RF (ln, la) c s.
Proof.
  intros ln la c s Hne. unfold RF. destruct ln as [|a ln]; [exact I|].
  destruct a as [[] [] [] [] [] [] [] []]; try exact I.
  destruct ln; [congruence|exact I].
Qed.

Lemma Inv_pull_r : forall w o w1,
  Inv Rel1 w -> pull w = (o, w1) ->
  match o with Some l => Inv (RF l) w1 | None => forall Rel', Inv Rel' w1 end.
Proof.
  intros w o w1 H Hp. unfold pull in Hp.
  refine (Inv_pull_gen Rel1 RF Hasync _ false w o w1 H Hp).
  intros c s l HR _.
  destruct (Hin_total c l) as [c' Hc'].
  destruct l as [ln la].
  destruct (String.eqb_spec ln "r") as [->|Hne].
  - destruct la as [|[z|b|nm] la]; try (exists c'; split; [exact Hc'|exact I]).
    destruct la as [|[n|b|s2] rest]; try (exists c'; split; [exact Hc'|exact I]).
    destruct (sym_eqb nm name) eqn:Hnm.
    + destruct (Hres c s nm n rest HR Hnm) as [c2 [Hc2 HR2]].
      exists c2. split; [exact Hc2|]. intros _. exact HR2.
    + exists c'. split; [exact Hc'|]. cbn. intros; congruence.
  - exists c'. split; [exact Hc'|]. apply not_r_RF; auto.
Qed.

Lemma Inv_sysret : forall w k w',
  Inv Rel1 w -> sysret name w = (k, w') ->
  (exists n rest, k = kres_of n rest /\ Inv (RelF n rest) w') \/
  (k = KNone /\ forall Rel', Inv Rel' w').
Proof.
  intros w k w' H Hs. unfold sysret in Hs.
  destruct (pull w) as [o w1] eqn:Hp.
  assert (HP := Inv_pull_r w o w1 H Hp).
  destruct o as [l|].
  - destruct l as [ln la].
    destruct (String.eqb_spec ln "r") as [->|Hne].
    + destruct la as [|[z|b|nm] la];
        try (inversion Hs; subst; right; split; [reflexivity|]; intros; eapply Inv_desync; eauto).
      destruct la as [|[n|b|s2] rest];
        try (inversion Hs; subst; right; split; [reflexivity|]; intros; eapply Inv_desync; eauto).
      destruct (sym_eqb nm name) eqn:Hnm; cbn [negb] in Hs.
      * left. exists n, rest. unfold kres_of.
        unfold RF in HP.
        assert (HI : Inv (RelF n rest) w1).
        { eapply Inv_weaken; [exact HP|]. intros c _ Hc. exact (Hc Hnm). }
        destruct (n <? 0).
        -- destruct rest as [|[z|b|e] rest']; inversion Hs; subst; auto.
        -- inversion Hs; subst; auto.
      * inversion Hs; subst. right. split; [reflexivity|]. intros; eapply Inv_desync; eauto.
    + right.
      assert (Hk : (k, w') = (KNone, desync "expected-r" w1)).
      { rewrite <- Hs. destruct ln as [|a ln]; [reflexivity|].
        destruct a as [[] [] [] [] [] [] [] []]; try reflexivity.
        destruct ln; [congruence|reflexivity]. }
      inversion Hk; subst. split; [reflexivity|]. intros; eapply Inv_desync; eauto.
  - inversion Hs; subst. right. split; [reflexivity|]. exact HP.
Qed.

Variable Rel0 : CS -> lstate -> Prop.

Lemma Inv_sys : forall args w k w',
  Inv Rel0 w ->
  (forall c, halt w = false -> Rel0 c (st w) ->
     exists c', step c (EOut (obs "sys" (ASym name :: args))) = Some c' /\ Rel1 c' (st w)) ->
  sys name args w = (k, w') ->
  (exists n rest, k = kres_of n rest /\ Inv (RelF n rest) w') \/
  (k = KNone /\ forall Rel', Inv Rel' w').
Proof.
  intros args w k w' H He Hs. unfold sys in Hs.
  eapply Inv_sysret; [|exact Hs].
  eapply Inv_emit; [exact H|reflexivity|exact He].
Qed.

End Sys.

(* a data-writing call: the relation after the result line does not depend on the result *)
Section SysWr.
Variable Rel0 Rel1 RelW : CS -> lstate -> Prop.
Hypothesis Hasync : forall c s l s', Rel1 c s -> apply_async s l = Some s' ->
  exists c', step c (EIn l) = Some c' /\ Rel1 c' s'.
Hypothesis Hin_total : forall c l, exists c', step c (EIn l) = Some c'.
Hypothesis Hres : forall c s nm n rest, Rel1 c s -> sym_eqb nm "wr" = true ->
  exists c', step c (EIn ("r", ASym nm :: AInt n :: rest)) = Some c' /\ RelW c' s.
Hypothesis Hwdata : forall c b, step c (EOut (obs "wdata" [ABytes b])) = Some c.
Hypothesis Hghost : forall c what cid b, what = "fail" \/ what = "hand" \/ what = "eagain" ->
  step c (EOut ("g", [ASym what; AInt cid; ABytes b])) = Some c.

Lemma Inv_quiet_wdata : forall w b, Inv RelW w -> Inv RelW (emit (obs "wdata" [ABytes b]) w).
Proof.
  intros w b H. eapply Inv_emit; [exact H|reflexivity|].
  intros c _ Hc. exists c. split; [apply Hwdata|exact Hc].
Qed.

Lemma Inv_quiet_ghost : forall w what cid b, what = "fail" \/ what = "hand" \/ what = "eagain" ->
  Inv RelW w -> Inv RelW (ghost what cid b w).
Proof.
  intros w what cid b Hw H. unfold ghost. eapply Inv_emit; [exact H| |].
  - destruct Hw as [->|[->| ->]]; reflexivity.
  - intros c _ Hc. exists c. split; [apply Hghost; exact Hw|exact Hc].
Qed.

Lemma Inv_sys_wr : forall cid fd src exact w k w',
  Inv Rel0 w ->
  (forall c, halt w = false -> Rel0 c (st w) ->
     exists c', step c (EOut (obs "sys" [ASym "wr"; AInt fd])) = Some c' /\ Rel1 c' (st w)) ->
  sys_wr cid fd src exact w = (k, w') -> Inv RelW w'.
Proof.
  intros cid fd src exact w k w' H He Hs. unfold sys_wr in Hs.
  assert (H1 : Inv Rel1 (emit (obs "sys" [ASym "wr"; AInt fd]) w)).
  { eapply Inv_emit; [exact H|reflexivity|exact He]. }
  destruct (pull (emit (obs "sys" [ASym "wr"; AInt fd]) w)) as [o w1] eqn:Hp.
  assert (HP := Inv_pull_r Rel1 (fun _ _ => RelW) "wr" Hasync Hin_total Hres _ o w1 H1 Hp).
  destruct o as [l|].
  - destruct l as [ln la].
    destruct (String.eqb_spec ln "r") as [->|Hne].
    + destruct la as [|[z|b|nm] la];
        try (inversion Hs; subst; eapply Inv_desync; eauto).
      destruct la as [|[off|b|s2] la];
        try (inversion Hs; subst; eapply Inv_desync; eauto).
      destruct la as [|[n|b|s2] rest];
        try (inversion Hs; subst; eapply Inv_desync; eauto).
      destruct (sym_eqb nm "wr") eqn:Hnm; cbn [negb] in Hs;
        [|inversion Hs; subst; eapply Inv_desync; eauto].
      destruct ((off <? 0) || (zlen src <? off) || (off <? n));
        [inversion Hs; subst; eapply Inv_desync; eauto|].
      assert (HI : Inv RelW w1).
      { eapply Inv_weaken; [exact HP|]. intros c _ Hc. exact (Hc Hnm). }
      destruct (n <? 0).
      * destruct rest as [|[z|b|e] rest']; inversion Hs; subst;
          try (apply Inv_quiet_ghost; [auto|]; apply Inv_quiet_wdata; exact HI).
        destruct (is_eagain e);
          apply Inv_quiet_ghost; [auto| |auto|]; apply Inv_quiet_wdata; exact HI.
      * inversion Hs; subst. apply Inv_quiet_ghost; [auto|]; apply Inv_quiet_wdata; exact HI.
    + assert (Hk : (k, w') = (KNone, desync "expected-r-wr" w1)).
      { rewrite <- Hs. destruct ln as [|a ln]; [reflexivity|].
        destruct a as [[] [] [] [] [] [] [] []]; try reflexivity.
        destruct ln; [congruence|reflexivity]. }
      inversion Hk; subst. eapply Inv_desync; eauto.
  - inversion Hs; subst. apply HP.
Qed.

End SysWr.

End Runs.

(* ------------------------------------------------------------------ *)
(* what input consumption can do to the state: the frame *)

Definition frame (s s' : lstate) : Prop :=
  l_et s' = l_et s /\ l_chunk s' = l_chunk s /\ l_bufcap s' = l_bufcap s /\
  l_efd s' = l_efd s /\ l_thr s' = l_thr s /\ l_maxlow s' = l_maxlow s /\
  l_listeners s' = l_listeners s /\ l_reg s' = l_reg s /\
  l_next s <= l_next s' /\
  forall cid, cid < l_next s -> getc s' cid = getc s cid.

Lemma frame_refl : forall s, frame s s.
Proof. intros s. unfold frame. repeat split; auto; lia. Qed.

(* association lists *)
Lemma alookup_aremove : forall {A} k k' (m : list (Z * A)),
  alookup k' (aremove k m) = if k' =? k then None else alookup k' m.
Proof.
  induction m as [|[k0 v] m IH]; cbn [alookup aremove].
  - destruct (k' =? k); reflexivity.
  - destruct (k =? k0) eqn:E1.
    + rewrite IH. destruct (k' =? k) eqn:E2; [reflexivity|].
      assert (k' =? k0 = false) by lia. rewrite H. reflexivity.
    + cbn [alookup]. rewrite IH. destruct (k' =? k0) eqn:E3; [|reflexivity].
      assert (k' =? k = false) by lia. rewrite H. reflexivity.
Qed.

Lemma alookup_aset : forall {A} k k' (v : A) (m : list (Z * A)),
  alookup k' (aset k v m) = if k' =? k then Some v else alookup k' m.
Proof.
  intros. unfold aset. cbn [alookup]. destruct (k' =? k) eqn:E; [reflexivity|].
  rewrite alookup_aremove, E. reflexivity.
Qed.

Lemma getc_setc : forall s k c cid, getc (setc s k c) cid = if cid =? k then c else getc s cid.
Proof.
  intros. unfold getc, setc. cbn [l_conns]. rewrite alookup_aset.
  destruct (cid =? k); reflexivity.
Qed.

Lemma frame_new_conn : forall s c, frame s (set_next (setc s (l_next s) c) (l_next s + 1)).
Proof.
  intros s c. unfold frame, set_next. cbn. repeat split; auto; try lia.
  intros cid Hc. unfold getc. cbn [l_conns]. rewrite alookup_aset.
  assert (cid =? l_next s = false) by lia. rewrite H. reflexivity.
Qed.
