(* C08 UDP datagram fidelity, part 2: the procedures above the handler -- in particular
   el_read_udp, where a datagram becomes a callback on a fresh identity -- and the theorem.
   Part 1 (the relation, the mutually recursive procedures) is LoopUdpBlock.v. *)
From Coq Require Import Lia ZArith ZifyBool.
From GV Require Import Lib.Trace Model.Loop Spec.LoopSpec Proofs.LoopDataLib Proofs.LoopUdpBlock.
Open Scope string_scope.
Open Scope list_scope.
Open Scope Z_scope.

Section WithListeners.
Variable ls : list Z.

Notation UINV := (Inv ustep (udp_step ls) tt (mkU None None [] None)).
Notation RT := (RU UTop None).

Ltac uoign := apply udp_out_ign; [reflexivity|reflexivity|intros; reflexivity].
Ltac dsync := eapply U_desync; eassumption.

Lemma T_setc : forall w t c', UINV RT w -> UINV RT (wsetc w t c').
Proof. intros. eapply Inv_wsetc; [eassumption|]. intros h x _ HR. apply RU_setc_other; [discriminate|exact HR]. Qed.

Lemma T_cb : forall k cid rest w, String.eqb k "udp" = false ->
  UINV RT w -> UINV RT (emit (obs "cb" (ASym k :: AInt cid :: rest)) w).
Proof. intros. apply (U_cb ls UTop); assumption. Qed.

Lemma T_handler : forall fuel cid w r w', UINV RT w -> handler fuel cid w = (r, w') -> UINV RT w'.
Proof. intros fuel cid w r w' HI E. exact (mu_handler ls _ (MBU_all ls fuel) _ _ _ _ UTop I HI E). Qed.

Lemma T_sys : forall name args w k w', name <> "recvfrom" -> name <> "sendto" ->
  UINV RT w -> sys name args w = (k, w') -> UINV RT w'.
Proof. intros. eapply U_sys; eauto. Qed.

Lemma el_read_inv : forall f cid recv w r w',
  UINV RT w -> el_read f cid recv w = (r, w') -> UINV RT w'.
Proof.
  induction f as [|f IH]; intros cid recv w r w' HI E; cbn [el_read] in E.
  { inversion E; subst. dsync. }
  destruct (negb (c_opened (wc w cid)) && (recv =? 0)); [inversion E; subst; exact HI|].
  destruct (sys "read" _ w) as [k w1] eqn:Es.
  assert (H1 : UINV RT w1) by (eapply T_sys; [| |exact HI|exact Es]; discriminate).
  assert (Hfail : forall r w', el_close (S f) cid false (ghost "fail" cid [] w1) = (r, w') -> UINV RT w').
  { intros r0 w0 Ec. eapply (mu_close ls _ (MBU_all ls (S f))); [|exact Ec]. apply U_emit; [uoign|exact H1]. }
  destruct k as [n extra|e|].
  2:{ destruct (is_eagain e); [inversion E; subst; exact H1|]. eapply Hfail; exact E. }
  2:{ inversion E; subst. exact H1. }
  destruct (n =? 0); [eapply Hfail; exact E|].
  destruct (negb (zlen _ =? n) || _); [inversion E; subst; dsync|].
  set (data := match extra with ABytes b :: _ => b | _ => [] end) in *.
  set (w3 := emit _ (wsetc (ghost "del" cid data w1) cid _)) in E.
  assert (H3 : UINV RT w3).
  { subst w3. apply T_cb; [reflexivity|]. apply T_setc. apply U_emit; [uoign|exact H1]. }
  clearbody w3.
  destruct (handler (S f) cid w3) as [[act rep] w4] eqn:Eh.
  pose proof (T_handler _ _ _ _ _ H3 Eh) as H4.
  destruct act.
  - destruct (negb (c_opened (wc w4 cid))); [inversion E; subst; exact H4|].
    set (w5 := wsetc w4 cid _) in E.
    assert (H5 : UINV RT w5) by (subst w5; apply T_setc; exact H4).
    clearbody w5.
    destruct (c_eof (wc w5 cid) || _).
    + eapply IH; eauto.
    + destruct (l_et (st w5) && _).
      * eapply U_trigger; [| |exact E]; [reflexivity|]. apply U_emit; [uoign|exact H5].
      * inversion E; subst. exact H5.
  - eapply (mu_close ls _ (MBU_all ls (S f))); eauto.
  - inversion E; subst. exact H4.
Qed.

Lemma open_loop_inv : forall cid k data w, UINV RT w -> UINV RT (snd (open_loop cid k data w)).
Proof.
  intros cid. induction k as [|k IH]; intros data w HI; cbn [open_loop].
  { cbn [snd]. dsync. }
  destruct data as [|b0 l0].
  - destruct (sys_wr cid _ [] true w) as [kr w1] eqn:Es.
    pose proof (U_sys_wr ls _ _ _ _ _ _ _ _ HI Es) as H1.
    destruct kr as [? ?|e|]; [exact H1| |exact H1]. destruct (is_eagain e); exact H1.
  - set (data := b0 :: l0) in *. clearbody data.
    destruct (sys_wr cid _ data true w) as [kr w1] eqn:Es.
    pose proof (U_sys_wr ls _ _ _ _ _ _ _ _ HI Es) as H1.
    destruct kr as [n ?|e|]; [| |exact H1].
    + destruct (zdrop n data) as [|b1 l1]; [exact H1|]. apply IH. exact H1.
    + destruct (is_eagain e); [|exact H1]. cbn [snd]. apply T_setc. exact H1.
Qed.

Lemma el_open_inv : forall fuel cid w r w', UINV RT w -> el_open fuel cid w = (r, w') -> UINV RT w'.
Proof.
  intros fuel cid w r w' HI E. rewrite el_open_eq in E. cbv zeta in E.
  set (w2 := emit _ (wsetc w cid _)) in E.
  assert (H2 : UINV RT w2) by (subst w2; apply T_cb; [reflexivity|]; apply T_setc; exact HI).
  clearbody w2.
  destruct (handler fuel cid w2) as [[act reply] w3] eqn:Eh.
  pose proof (T_handler _ _ _ _ _ H2 Eh) as H3.
  destruct (negb (c_opened (wc w3 cid))).
  { destruct act; inversion E; subst; exact H3. }
  match type of E with (let '(ok, w4) := ?X in _) = _ => destruct X as [ok w4] eqn:E4 end.
  assert (H4 : UINV RT w4).
  { destruct reply as [data|]; [|inversion E4; subst; exact H3].
    set (w3' := if c_udp (wc w3 cid) then w3 else _) in E4.
    assert (H3' : UINV RT w3').
    { subst w3'. destruct (c_udp (wc w3 cid)); [exact H3|]. apply U_emit; [uoign|exact H3]. }
    clearbody w3'.
    destruct (c_udp (wc w3 cid) && negb (c_remote (wc w3 cid))).
    - destruct (sys "sendto" _ w3') as [k w5] eqn:Es.
      pose proof (U_sendto_none ls _ _ _ _ _ H3' Es) as H5.
      destruct k; inversion E4; subst; exact H5.
    - destruct (match c_out (wc w3 cid) with [] => false | _ => true end).
      + inversion E4; subst. apply T_setc. exact H3'.
      + pose proof (open_loop_inv cid (S (List.length (inp w3'))) data w3' H3') as H5.
        rewrite E4 in H5. exact H5. }
  clear E4.
  destruct (negb ok); [eapply (mu_close ls _ (MBU_all ls fuel)); eauto|].
  match type of E with (let '(r5, w5) := ?X in _) = _ => destruct X as [r5 w5] eqn:E5 end.
  assert (H5 : UINV RT w5).
  { destruct (c_out (wc w4 cid)); [inversion E5; subst; exact H4|].
    destruct (l_et (st w4)); [inversion E5; subst; exact H4|]. eapply U_epctl; eauto. }
  destruct r5; [|eapply (mu_close ls _ (MBU_all ls fuel)); [exact H5|exact E]..].
  destruct act; try (inversion E; subst; exact H5).
  eapply (mu_close ls _ (MBU_all ls fuel)); eauto.
Qed.

Lemma T_with_st_reg : forall w r, UINV RT w -> UINV RT (with_st w (set_reg (st w) r)).
Proof. intros. apply U_with_st; auto; cbn; lia. Qed.

Lemma el_register0_inv : forall fuel cid w r w',
  UINV RT w -> el_register0 fuel cid w = (r, w') -> UINV RT w'.
Proof.
  intros fuel cid w r w' HI E. unfold el_register0 in E.
  destruct (fd_in_use (st w) (c_fd (wc w cid))); [inversion E; subst; dsync|].
  destruct (epctl "add" _ _ _ w) as [r1 w1] eqn:Ee.
  pose proof (U_epctl ls _ _ _ _ _ _ _ _ HI Ee) as H1.
  assert (Hfail : forall w2 k, sys "close" [AInt (c_fd (wc w cid))] w1 = (k, w2) ->
            UINV RT (wsetc w2 cid (c_release (wc w2 cid)))).
  { intros w2 k Es. apply T_setc. eapply T_sys; [| |exact H1|exact Es]; discriminate. }
  destruct r1.
  - destruct (c_udp (wc w cid) && c_remote (wc w cid)).
    + inversion E; subst. apply T_with_st_reg. exact H1.
    + eapply el_open_inv; [|exact E]. apply T_with_st_reg. exact H1.
  - destruct (sys "close" _ w1) as [k w2] eqn:Es. inversion E; subst. eapply Hfail; eauto.
  - destruct (sys "close" _ w1) as [k w2] eqn:Es. inversion E; subst. eapply Hfail; eauto.
  - destruct (sys "close" _ w1) as [k w2] eqn:Es. inversion E; subst. eapply Hfail; eauto.
Qed.

Lemma el_wake_inv : forall fuel cid w r w', UINV RT w -> el_wake fuel cid w = (r, w') -> UINV RT w'.
Proof.
  intros fuel cid w r w' HI E. unfold el_wake in E.
  destruct (negb _ || _); [inversion E; subst; exact HI|].
  assert (H1 : UINV RT (emit (obs "cb" [ASym "traffic"; AInt cid]) w)) by (apply T_cb; [reflexivity|exact HI]).
  destruct (handler fuel cid _) as [[act rep] w2] eqn:Eh.
  pose proof (T_handler _ _ _ _ _ H1 Eh) as H2.
  destruct act; try (inversion E; subst; exact H2). eapply (mu_close ls _ (MBU_all ls fuel)); eauto.
Qed.

Lemma process_io_inv : forall fuel cid ev w r w', UINV RT w -> process_io fuel cid ev w = (r, w') -> UINV RT w'.
Proof.
  intros fuel cid ev w r w' HI E. unfold process_io in E. pose proof (MBU_all ls fuel) as M.
  destruct (has ev (EV_ERR + EV_HUP + EV_RDHUP) && _).
  { eapply (mu_close ls _ M); [|exact E]. apply T_setc. exact HI. }
  match type of E with (let '(r1, w1) := ?X in _) = _ => destruct X as [r1 w1] eqn:E1 end.
  assert (H1 : UINV RT w1).
  { destruct (has ev (EV_OUT + EV_ERR + EV_HUP)); [|inversion E1; subst; exact HI]. eapply (mu_elwrite ls _ M); eauto. }
  destruct r1; try (inversion E; subst; exact H1).
  match type of E with (let '(r2, w2) := ?X in _) = _ => destruct X as [r2 w2] eqn:E2 end.
  assert (H2 : UINV RT w2).
  { destruct (has ev (EV_IN + EV_PRI + EV_ERR + EV_HUP)); [|inversion E2; subst; exact H1]. eapply el_read_inv; eauto. }
  destruct r2; try (inversion E; subst; exact H2).
  destruct (has ev EV_RDHUP && c_opened (wc w2 cid)); [|inversion E; subst; exact H2].
  destruct (negb (has ev EV_IN)).
  - eapply (mu_close ls _ M); eauto.
  - eapply el_read_inv; [|exact E]. apply T_setc. exact H2.
Qed.

(* ------------------------------------------------------------------ *)
(* a datagram arrives on a listener *)

Lemma zmem_cons : forall x y l, zmem x (y :: l) = (x =? y) || zmem x l.
Proof. reflexivity. Qed.

Definition RPend (d : list Z) (a : arg) (u : unit) (x : udpst) (s : lstate) : Prop :=
  u_pending x = Some (d, [a]) /\ u_cur x = None /\ u_want_send x = None /\
  (forall c, zmem c (u_seen x) = true -> c < l_next s).

Lemma udp_step0_recv : forall x n rest,
  udp_step0 ls x (EIn ("r", ASym "recvfrom" :: AInt n :: rest)) =
  match rest with
  | ABytes d :: src => if 0 <=? n then Some (mkU (Some (d, src)) (u_cur x) (u_seen x) None) else Some x
  | _ => Some x
  end.
Proof. intros. destruct rest as [|[?|?|?] ?]; reflexivity. Qed.

Lemma U_recvfrom : forall args w k w',
  UINV RT w -> sys "recvfrom" args w = (k, w') ->
  match k with
  | KOk n extra => UINV (fun u x s => forall d a, extra = [ABytes d; a] -> RPend d a u x s) w'
  | KErr _ => UINV RT w'
  | KNone => UINV RF w'
  end.
Proof.
  intros args w k w' HI E. unfold sys in E. rewrite sysret_eq in E.
  assert (H0 : UINV RT (emit (obs "sys" (ASym "recvfrom" :: args)) w)).
  { apply U_emit; [|exact HI]. apply udp_out_ign; [reflexivity|reflexivity|]. intros x. cbn [obs udp_step0].
    destruct args as [|[?|?|?] [|[?|?|?] [|? [|]]]]; reflexivity. }
  destruct (pull _) as [[[nm0 args0]|] w1] eqn:Ep.
  2:{ inversion E; subst. exact (Inv_pull ustep (udp_step ls) tt _ _ _ _ _ (RU_pull_ok ls UTop) H0 Ep). }
  pose proof (Inv_pull ustep (udp_step ls) tt _ _ _ _ _ (RU_pull_ok ls UTop) H0 Ep) as HA. cbn [after_pull] in HA.
  destruct (String.eqb_spec nm0 "r") as [->|N]; [|inversion E; subst; eapply Inv_desync; exact HA].
  destruct args0 as [|[?|?|nm] [|[n|?|?] rest]]; try (inversion E; subst; eapply Inv_desync; exact HA).
  unfold sym_eqb in E. destruct (String.eqb_spec nm "recvfrom") as [->|N]; cbn [negb] in E;
    [|inversion E; subst; eapply Inv_desync; exact HA].
  assert (Hstep : forall x x', u_cur x = None ->
            udp_step ls x (EIn ("r", ASym "recvfrom" :: AInt n :: rest)) = Some x' ->
            x' = match rest with
                 | ABytes d :: src => if 0 <=? n then mkU (Some (d, src)) (u_cur x) (u_seen x) None else x
                 | _ => x end).
  { intros x x' Hc Es. rewrite udp_step_in in Es by reflexivity. rewrite Hc, udp_step0_recv in Es.
    destruct rest as [|[?|?|?] ?]; try (inversion Es; reflexivity). destruct (0 <=? n); inversion Es; reflexivity. }
  destruct (n <? 0) eqn:En.
  - assert (H1 : UINV RT w1).
    { eapply Inv_weaken; [|exact HA]. intros h' x' _ (h & x & HR & _ & _ & Es). destruct h, h'.
      pose proof (ru_mode _ _ _ _ _ HR) as Hc. cbn [msem] in Hc.
      rewrite (Hstep _ _ Hc Es). destruct rest as [|[?|?|?] ?]; try exact HR.
      replace (0 <=? n) with false by lia. exact HR. }
    destruct rest as [|[?|?|e] ?]; inversion E; subst; exact H1.
  - inversion E; subst. eapply Inv_weaken; [|exact HA].
    intros h' x' _ (h & x & HR & _ & _ & Es) d a ->. destruct h, h'.
    pose proof HR as [R1 R2 R3 R4]. cbn [msem] in R4.
    rewrite (Hstep _ _ R4 Es). replace (0 <=? n) with true by lia.
    unfold RPend. cbn [mkU u_pending u_cur u_want_send u_seen]. auto.
Qed.

Lemma el_read_udp_inv : forall fuel fd is_listener w r w',
  UINV RT w -> el_read_udp fuel fd is_listener w = (r, w') -> UINV RT w'.
Proof.
  intros fuel fd is_listener w r w' HI E. unfold el_read_udp in E.
  destruct (sys "recvfrom" _ w) as [k w1] eqn:Es.
  pose proof (U_recvfrom _ _ _ _ HI Es) as H1.
  destruct k as [n extra|e|];
    [|destruct (is_eagain e); inversion E; subst; exact H1|inversion E; subst; apply U_dead; exact H1].
  destruct (negb _ || _ || _) eqn:Emon; [inversion E; subst; dsync|].
  destruct extra as [|[?|d|?] [|a [|]]]; try discriminate Emon.
  destruct is_listener.
  2:{ (* a connected datagram socket: the pending datagram is dropped from the checker's view *)
      destruct (alookup fd (l_reg (st w1))) as [cid|]; [|inversion E; subst; dsync].
      set (w3 := emit _ (wsetc (ghost "udpconn" cid [] w1) cid _)) in E.
      assert (H3 : UINV RT w3).
      { subst w3. apply T_cb; [reflexivity|]. apply T_setc. unfold ghost.
        eapply Inv_emit; [exact H1|reflexivity|].
        intros [] x _ HR. cbn [ustep]. destruct (HR d a eq_refl) as (P1 & P2 & P3 & P4).
        rewrite udp_step_noncb by reflexivity. rewrite P2. cbn [udp_step0].
        eexists. split; [reflexivity|].
        constructor; cbn [mkU u_pending u_cur u_want_send u_seen u_depth msem]; auto. }
      clearbody w3.
      destruct (handler fuel cid w3) as [[act rep] w4] eqn:Eh.
      pose proof (T_handler _ _ _ _ _ H3 Eh) as H4.
      destruct act; inversion E; subst; exact H4. }
  set (cid := l_next (st w1)) in *.
  set (w3 := emit _ (with_st w1 _)) in E.
  assert (H3 : UINV (RU (UCb cid O) None) w3).
  { subst w3. eapply Inv_set_emit; [exact H1|reflexivity|].
    intros [] x _ HR. cbn [ustep]. destruct (HR d a eq_refl) as (P1 & P2 & P3 & P4).
    unfold obs. rewrite udp_step_cb. rewrite P2. cbn [udp_step0]. rewrite P1.
    destruct (zmem cid (u_seen x)) eqn:Ez; [apply P4 in Ez; subst cid; lia|].
    cbn [List.length Nat.eqb]. eexists. split; [reflexivity|].
    constructor; cbn [mkU u_pending u_cur u_want_send u_seen u_depth msem set_next setc l_next].
    - reflexivity.
    - reflexivity.
    - intros c Hc. rewrite zmem_cons in Hc. apply orb_true_iff in Hc. destruct Hc as [Hc|Hc].
      + apply Z.eqb_eq in Hc. subst c cid. lia.
      + apply P4 in Hc. lia.
    - rewrite getc_set_next, getc_setc, Z.eqb_refl. cbn [c_in c_buf c_udp c_remote c_opened app].
      repeat split; auto. subst cid. lia. }
  clearbody w3.
  destruct (handler fuel cid w3) as [[act rep] w4] eqn:Eh.
  pose proof (mu_handler ls _ (MBU_all ls fuel) _ _ _ _ (UCb cid O) eq_refl H3 Eh) as H4. cbn [pop] in H4.
  assert (H5 : UINV RT (wsetc w4 cid (c_release (wc w4 cid)))) by (apply T_setc; exact H4).
  destruct act; inversion E; subst; exact H5.
Qed.

Lemma el_accept_inv : forall fuel lfd is_udp w r w',
  UINV RT w -> el_accept fuel lfd is_udp w = (r, w') -> UINV RT w'.
Proof.
  intros fuel lfd is_udp w r w' HI E. unfold el_accept in E.
  destruct is_udp; [eapply el_read_udp_inv; eauto|].
  destruct (sys "accept" _ w) as [k w1] eqn:Es.
  assert (H1 : UINV RT w1) by (eapply T_sys; [| |exact HI|exact Es]; discriminate).
  destruct k as [nfd extra|e|]; [|destruct (_ || _); inversion E; subst; exact H1|inversion E; subst; exact H1].
  destruct (fd_in_use (st w1) nfd); [inversion E; subst; dsync|].
  eapply el_register0_inv; [|exact E].
  eapply Inv_with_st; [exact H1|]. intros h x _ HR. apply RU_fresh. exact HR.
Qed.

Lemma dispatch_inv : forall fuel fd ev w r w', UINV RT w -> dispatch fuel fd ev w = (r, w') -> UINV RT w'.
Proof.
  intros fuel fd ev w r w' HI E. unfold dispatch in E.
  destruct (alookup fd (l_reg (st w))) as [cid|].
  - destruct (polopt (st w) && c_udp (wc w cid)); [eapply el_read_udp_inv; eauto|].
    eapply process_io_inv; eauto.
  - destruct (alookup fd (l_listeners (st w))) as [is_udp|].
    + eapply el_accept_inv; eauto.
    + destruct (polopt (st w)); [inversion E; subst; exact HI|]. eapply U_epctl; eauto.
Qed.

Lemma run_task_inv : forall fuel t w r w', UINV RT w -> run_task fuel t w = (r, w') -> UINV RT w'.
Proof.
  intros fuel t w r w' HI E. pose proof (MBU_all ls fuel) as M.
  destruct t as [cid cb|cid d cb|cid sg cb|cid cb|cid cb|cid|cid| |]; cbn [run_task] in *.
  - destruct (el_register0 fuel cid w) as [r1 w1] eqn:E1.
    pose proof (el_register0_inv _ _ _ _ _ HI E1) as H1. inversion E; subst.
    destruct cb; [apply U_emit; [uoign|exact H1]|exact H1].
  - destruct (negb (c_opened (wc w cid))).
    + inversion E; subst. destruct cb; [apply U_emit; [uoign|exact HI]|exact HI].
    + destruct (conn_write fuel cid d w) as [[n ok] w1] eqn:E1.
      pose proof (mu_write ls _ M _ _ _ _ _ _ HI E1) as H1. inversion E; subst.
      destruct cb; [apply U_emit; [uoign|exact H1]|exact H1].
  - destruct (negb (c_opened (wc w cid))).
    + inversion E; subst. destruct cb; [apply U_emit; [uoign|exact HI]|exact HI].
    + destruct (conn_writev fuel cid sg w) as [[n ok] w1] eqn:E1.
      pose proof (mu_writev ls _ M _ _ _ _ _ _ HI E1) as H1. inversion E; subst.
      destruct cb; [apply U_emit; [uoign|exact H1]|exact H1].
  - destruct (el_wake fuel cid w) as [r1 w1] eqn:E1.
    pose proof (el_wake_inv _ _ _ _ _ HI E1) as H1. inversion E; subst.
    destruct cb; [apply U_emit; [uoign|exact H1]|exact H1].
  - destruct (el_close fuel cid true w) as [r1 w1] eqn:E1.
    pose proof (mu_close ls _ M _ _ _ _ _ _ HI E1) as H1. inversion E; subst.
    destruct cb; [apply U_emit; [uoign|exact H1]|exact H1].
  - eapply el_read_inv; eauto.
  - eapply (mu_elwrite ls _ M); eauto.
  - inversion E; subst. apply U_emit; [uoign|exact HI].
  - inversion E; subst. exact HI.
Qed.

Lemma T_queues : forall w u lo f, UINV RT w -> UINV RT (with_st w (set_queues (st w) u lo f)).
Proof. intros. apply U_with_st; auto; cbn; lia. Qed.

Lemma drain_urgent_inv : forall fuel w r w', UINV RT w -> drain_urgent fuel w = (r, w') -> UINV RT w'.
Proof.
  induction fuel as [|f IH]; intros w r w' HI E; cbn [drain_urgent] in E.
  { inversion E; subst. dsync. }
  destruct (halt w); [inversion E; subst; exact HI|].
  destruct (l_urgent (st w)) as [|t rest]; [inversion E; subst; exact HI|].
  destruct (run_task f t _) as [r1 w2] eqn:Er.
  pose proof (run_task_inv _ _ _ _ _ (T_queues _ _ _ _ HI) Er) as H2.
  destruct r1; try (eapply IH; [exact H2|exact E]). inversion E; subst. exact H2.
Qed.

Lemma drain_low_inv : forall fuel k w r w', UINV RT w -> drain_low fuel k w = (r, w') -> UINV RT w'.
Proof.
  induction fuel as [|f IH]; intros k w r w' HI E; cbn [drain_low] in E.
  { inversion E; subst. dsync. }
  destruct (halt w); [inversion E; subst; exact HI|].
  destruct (k <=? 0); [inversion E; subst; exact HI|].
  destruct (l_low (st w)) as [|t rest]; [inversion E; subst; exact HI|].
  destruct (run_task f t _) as [r1 w2] eqn:Er.
  pose proof (run_task_inv _ _ _ _ _ (T_queues _ _ _ _ HI) Er) as H2.
  destruct r1; try (eapply IH; [exact H2|exact E]). inversion E; subst. exact H2.
Qed.

Lemma chores_inv : forall fuel w r w', UINV RT w -> chores fuel w = (r, w') -> UINV RT w'.
Proof.
  intros fuel w r w' HI E. unfold chores in E.
  destruct (drain_urgent fuel w) as [r1 w1] eqn:E1.
  pose proof (drain_urgent_inv _ _ _ _ HI E1) as H1.
  assert (Hrest :
    match drain_low fuel (l_maxlow (st w1)) w1 with
    | (RShutdown, w2) => (RShutdown, w2)
    | (_, w2) =>
      let s := set_flag (st w2) false in
      match l_urgent s, l_low s with
      | [], [] => (RNil, with_st w2 s)
      | _, _ => let '(_, w3) := efd_write (S (List.length (inp w2))) (with_st w2 (set_flag s true)) in (RNil, w3)
      end
    end = (r, w') -> UINV RT w').
  { intros E2. destruct (drain_low fuel _ w1) as [r2 w2] eqn:E3.
    pose proof (drain_low_inv _ _ _ _ _ H1 E3) as H2.
    assert (Hfin :
      (let s := set_flag (st w2) false in
       match l_urgent s, l_low s with
       | [], [] => (RNil, with_st w2 s)
       | _, _ => let '(_, w3) := efd_write (S (List.length (inp w2))) (with_st w2 (set_flag s true)) in (RNil, w3)
       end) = (r, w') -> UINV RT w').
    { intros E4. cbv zeta in E4.
      assert (Hf : forall f, UINV RT (with_st w2 (set_flag (st w2) f))) by (intros; apply T_queues; exact H2).
      assert (Hw : forall r3 w3, efd_write (S (List.length (inp w2))) (with_st w2 (set_flag (set_flag (st w2) false) true)) = (r3, w3) ->
                  UINV RT w3).
      { intros r3 w3 E5. eapply U_efd_write; [|exact E5]. apply (Hf true). }
      destruct (l_urgent (set_flag (st w2) false)); [destruct (l_low (set_flag (st w2) false))|].
      - inversion E4; subst. apply Hf.
      - destruct (efd_write _ _) as [r3 w3] eqn:E5. inversion E4; subst. eapply Hw; eauto.
      - destruct (efd_write _ _) as [r3 w3] eqn:E5. inversion E4; subst. eapply Hw; eauto. }
    destruct r2; try (apply Hfin; exact E2). inversion E2; subst. exact H2. }
  destruct r1; try (apply Hrest; exact E). inversion E; subst. exact H1.
Qed.

Lemma events_inv_n : forall fuel n evs, (List.length evs <= n)%nat -> forall b w r b' w',
  UINV RT w -> events fuel evs b w = (r, b', w') -> UINV RT w'.
Proof.
  intros fuel. induction n as [|n IH]; intros evs Hlen b w r b' w' HI E.
  - destruct evs; [|cbn in Hlen; lia]. cbn [events] in E. inversion E; subst. exact HI.
  - destruct evs as [|[fd|?|?] [|[ev|?|?] rest]]; cbn [events] in E; try (inversion E; subst; exact HI).
    destruct (halt w); [inversion E; subst; exact HI|].
    assert (Hlt : (List.length rest <= n)%nat) by (cbn in Hlen; lia).
    destruct (fd =? l_efd (st w)); [eapply IH; eauto|].
    destruct (dispatch fuel fd ev w) as [r1 w1] eqn:Ed.
    pose proof (dispatch_inv _ _ _ _ _ _ HI Ed) as H1.
    destruct r1; try (eapply IH; [exact Hlt|exact H1|exact E]); inversion E; subst; exact H1.
Qed.

(* a pulled line that must carry a given name *)
Lemma T_pull_named : forall picks w name args w' lit,
  lit <> "r" -> lit <> "h" -> lit <> "hret" ->
  UINV RT w -> pull_gen picks w = (Some (name, args), w') ->
  (String.eqb name lit = true -> UINV RT w') /\ (forall R what, UINV R (desync what w')).
Proof.
  intros picks w name args w' lit N1 N2 N3 HI E.
  pose proof (Inv_pull_gen ustep (udp_step ls) tt _ _ picks w _ w' (RU_pull_ok ls UTop) HI E) as HA.
  cbn [after_pull] in HA. split.
  - intros En. apply String.eqb_eq in En. subst name.
    eapply Inv_after_in; [apply (RU_in_ign ls)| |exact HA].
    unfold plain_in. cbn [fst snd]. repeat split; auto. intros Er. congruence.
  - intros R what. eapply U_desync. exact HA.
Qed.

Lemma close_conns_inv : forall fuel w, UINV RT w -> UINV RT (close_conns fuel w).
Proof.
  induction fuel as [|f IH]; intros w HI; [cbn; dsync|]. rewrite close_conns_eq.
  destruct (halt w); [exact HI|]. destruct (l_reg (st w)); [exact HI|].
  destruct (pull_gen true w) as [[[name args]|] w1] eqn:Ep.
  - destruct (T_pull_named _ _ _ _ _ "pick" ltac:(discriminate) ltac:(discriminate) ltac:(discriminate) HI Ep) as [Hn Hd].
    destruct (String.eqb name "pick"); [|apply Hd].
    destruct args as [|[cid|?|?] [|]]; try apply Hd.
    destruct (el_close f cid true w1) as [r2 w2] eqn:Ec.
    apply IH. eapply (mu_close ls _ (MBU_all ls f)); [|exact Ec]. apply Hn. reflexivity.
  - eapply U_pull_none; eauto.
Qed.

Lemma polling_inv : forall fuel w, UINV RT w -> UINV RT (polling fuel w).
Proof.
  induction fuel as [|f IH]; intros w HI; [cbn; dsync|]. rewrite polling_eq. cbv zeta.
  assert (H00 : UINV RT (emit ("g", [ASym "count"; AInt (zlen (l_reg (st w))); ABytes []]) w))
    by (apply U_emit; [uoign|exact HI]).
  set (wc0 := emit ("g", [ASym "count"; AInt (zlen (l_reg (st w))); ABytes []]) w) in *.
  pose proof (Inv_pending_ign ustep (udp_step ls) tt _ _ (l_reg (st wc0)) wc0 ltac:(intros; uoign) H00) as H0.
  unfold pending_fold in H0. clearbody wc0.
  destruct (pull _) as [[[name evs]|] w1] eqn:Ep.
  2:{ eapply U_pull_none; eauto. }
  destruct (T_pull_named _ _ _ _ _ "wait" ltac:(discriminate) ltac:(discriminate) ltac:(discriminate) H0 Ep) as [Hn Hd].
  destruct (String.eqb name "wait"); [|apply Hd].
  pose proof (Hn eq_refl) as H1.
  destruct (events f evs false w1) as [[r b] w2] eqn:Ee.
  pose proof (events_inv_n _ _ _ (le_n _) _ _ _ _ _ H1 Ee) as H2.
  assert (Hch : UINV RT
     (match chores f w2 with (RShutdown, w3) => close_conns f w3 | (_, w3) => polling f w3 end)).
  { destruct (chores f w2) as [r3 w3] eqn:Ec.
    pose proof (chores_inv _ _ _ _ H2 Ec) as H3.
    destruct r3; try (apply IH; exact H3). apply close_conns_inv. exact H3. }
  destruct r; try (apply close_conns_inv; exact H2);
    (destruct b; [apply Hch|apply IH; exact H2]).
Qed.

End WithListeners.

(* ------------------------------------------------------------------ *)
(* the theorem *)

Theorem udp_holds : forall i t, run_history i = Some t -> udp_ok (statics i) t = true.
Proof.
  intros i t E. unfold run_history in E. destruct (init_world i) as [w0|] eqn:Ei; [|discriminate].
  inversion E; subst t. clear E.
  destruct (init_world_spec _ _ Ei) as (Hlog & Hh & Hc & Hr & Hu & Hl & Hn).
  set (ls := statics i).
  assert (H0 : Inv ustep (udp_step ls) tt (mkU None None [] None) (RU UTop None) w0).
  { unfold Inv. rewrite Hlog. cbn [rev run]. right. constructor; cbn; auto. discriminate. }
  pose proof (polling_inv ls (init_fuel i) w0 H0) as HF.
  apply Inv_check in HF. unfold udp_ok.
  eapply check_cstep; [exact HF|]. apply check_total. intros h e. discriminate.
Qed.
