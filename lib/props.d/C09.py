PROP = dict(
    drivers=[dict(cmd="drv-ring", family="ring")],
    rule="a case is one operation sequence (1..60 ops over New/Write/WriteString/WriteByte/Read/ReadByte/Peek/Discard/"
         "Bytes/ReadFrom/WriteTo/Reset, accessors observed after every op) from initial sizes {0,1,2,3,64,1000,1024,4096,"
         "8192,random}; argument sizes from {0,1,avail-1,avail,avail+1,cap-1,cap,cap+1,511..513,4095..4097,buffered-1,"
         "buffered,buffered+1,random}; scripted readers/writers with short transfers, data+EOF, error after partial "
         "transfer and (0,nil); non-trivial when it wraps around, grows, becomes exactly full, or sees a short/failing "
         "reader or writer; distinct by hash of its op lines",
    trusted=["scripted io.Reader/io.Writer semantics implemented twice (Go driver, Model/Ring.v reader_read/writer_write)"],
    assumptions=["the byteslice pool returns a slice of exactly the requested length whose stale content is never observed "
                 "(modelled as zeros)",
                 "int arithmetic does not overflow (sizes far below 2^62); Go slice upper bounds are checked against len in "
                 "the model (stricter than cap)"],
)
