(* The inductive invariant of the wake-up protocol (DESIGN Appendix A.5):
   K /\ I0 /\ I1 /\ G_W /\ G_chkU, stated on the abstract view of a state, the
   abstract steps that preserve it, and the proof that every step of the model
   (every producer step, every loop step, the loop's re-entrant Trigger calls,
   environment steps) is one of those abstract steps.  Unbounded producers,
   requests, batch limit. *)
From GV Require Import Lib.Trace Lib.Interleave Model.Wakeup Proofs.WakeupBase.
From Coq Require Import Lia Arith ZifyBool.
Open Scope Z_scope.
Open Scope list_scope.

(* ---- the invariant on views ---- *)
Definition AInv (v : aview) : Prop :=
  (a_flag v = 0 \/ a_flag v = 1) /\
  (* K: C13's length_lag, one dequeuer *)
  a_lenU v = a_nU v - a_p1U v + a_dU v /\
  a_lenL v = a_nL v - a_p1L v + a_dL v /\
  (* I0: only the loop resets the flag *)
  (a_cls v = KWr -> a_flag v = 1) /\
  (* I1: a set flag is backed by a pending edge, a thread that still has to write, or the loop not having stored 0 yet *)
  (a_flag v = 1 -> a_E v = true \/ 0 < a_p3 v \/ a_cls v = KWr \/ a_cls v = KB) /\
  (* G_W *)
  (a_cls v = KW -> a_flag v = 0 -> 0 < a_nU v + a_nL v ->
     a_E v = true \/ 0 < a_p1U v + a_p1L v + a_p2 v + a_p3 v) /\
  (* G_chkU *)
  (a_cls v = KChkU -> a_flag v = 0 -> 0 < a_nL v ->
     a_E v = true \/ 0 < a_p1U v + a_p1L v + a_p2 v + a_p3 v).

(* ---- abstract steps ---- *)
Inductive astep : aview -> aview -> Prop :=
| A_nop : forall v, astep v v
| A_linkU : forall f E nU nL lU lL a b c d dU dL k,
    astep (mkA f E nU nL lU lL a b c d dU dL k) (mkA f E (nU + 1) nL lU lL (a + 1) b c d dU dL k)
| A_linkL : forall f E nU nL lU lL a b c d dU dL k,
    astep (mkA f E nU nL lU lL a b c d dU dL k) (mkA f E nU (nL + 1) lU lL a (b + 1) c d dU dL k)
| A_countU : forall f E nU nL lU lL a b c d dU dL k,
    astep (mkA f E nU nL lU lL a b c d dU dL k) (mkA f E nU nL (lU + 1) lL (a - 1) b (c + 1) d dU dL k)
| A_countL : forall f E nU nL lU lL a b c d dU dL k,
    astep (mkA f E nU nL lU lL a b c d dU dL k) (mkA f E nU nL lU (lL + 1) a (b - 1) (c + 1) d dU dL k)
| A_caswin : forall E nU nL lU lL a b c d dU dL k,
    astep (mkA 0 E nU nL lU lL a b c d dU dL k) (mkA 1 E nU nL lU lL a b (c - 1) (d + 1) dU dL k)
| A_caslose : forall f E nU nL lU lL a b c d dU dL k, f <> 0 ->
    astep (mkA f E nU nL lU lL a b c d dU dL k) (mkA f E nU nL lU lL a b (c - 1) d dU dL k)
| A_writeok : forall f E nU nL lU lL a b c d dU dL k,
    astep (mkA f E nU nL lU lL a b c d dU dL k) (mkA f true nU nL lU lL a b c (d - 1) dU dL k)
| A_drop : forall f E E' nU nL lU lL a b c d dU dL k, (0 < d \/ k = KWr) -> (E' = true -> E = true) ->
    astep (mkA f E nU nL lU lL a b c d dU dL k) (mkA f E' nU nL lU lL a b c d dU dL k)
| A_raise : forall f E nU nL lU lL a b c d dU dL k,
    astep (mkA f E nU nL lU lL a b c d dU dL k) (mkA f true nU nL lU lL a b c d dU dL k)
| A_wait : forall f E nU nL lU lL a b c d dU dL,
    astep (mkA f E nU nL lU lL a b c d dU dL KW) (mkA f false nU nL lU lL a b c d dU dL (if E then KB else KW))
| A_unlinkU : forall f E nU nL lU lL a b c d,
    astep (mkA f E nU nL lU lL a b c d 0 0 KB) (mkA f E (nU - 1) nL lU lL a b c d 1 0 KB)
| A_unlinkL : forall f E nU nL lU lL a b c d,
    astep (mkA f E nU nL lU lL a b c d 0 0 KB) (mkA f E nU (nL - 1) lU lL a b c d 0 1 KB)
| A_decU : forall f E nU nL lU lL a b c d,
    astep (mkA f E nU nL lU lL a b c d 1 0 KB) (mkA f E nU nL (lU - 1) lL a b c d 0 0 KB)
| A_decL : forall f E nU nL lU lL a b c d,
    astep (mkA f E nU nL lU lL a b c d 0 1 KB) (mkA f E nU nL lU (lL - 1) a b c d 0 0 KB)
| A_store : forall f E nU nL lU lL a b c d dU dL,
    astep (mkA f E nU nL lU lL a b c d dU dL KB) (mkA 0 E nU nL lU lL a b c d dU dL KChkL)
| A_chkL : forall f E nU nL lU lL a b c d dU dL,
    astep (mkA f E nU nL lU lL a b c d dU dL KChkL) (mkA f E nU nL lU lL a b c d dU dL (if lL =? 0 then KChkU else KCas))
| A_chkU : forall f E nU nL lU lL a b c d dU dL,
    astep (mkA f E nU nL lU lL a b c d dU dL KChkU) (mkA f E nU nL lU lL a b c d dU dL (if lU =? 0 then KW else KCas))
| A_ccaswin : forall E nU nL lU lL a b c d dU dL,
    astep (mkA 0 E nU nL lU lL a b c d dU dL KCas) (mkA 1 E nU nL lU lL a b c d dU dL KWr)
| A_ccaslose : forall f E nU nL lU lL a b c d dU dL, f <> 0 ->
    astep (mkA f E nU nL lU lL a b c d dU dL KCas) (mkA f E nU nL lU lL a b c d dU dL KW)
| A_cwrite : forall f E nU nL lU lL a b c d dU dL,
    astep (mkA f E nU nL lU lL a b c d dU dL KWr) (mkA f true nU nL lU lL a b c d dU dL KW).

Lemma astep_preserves : forall v v', WF v -> WF v' -> AInv v -> astep v v' -> AInv v'.
Proof.
  intros v v' W W' I S.
  destruct S; unfold AInv, WF in *;
    cbn [a_flag a_E a_nU a_nL a_lenU a_lenL a_p1U a_p1L a_p2 a_p3 a_dU a_dL a_cls] in *;
    unfold KW, KB, KChkL, KChkU, KCas, KWr in *;
    try exact I.
  all: destruct I as (F & KU & KL & I0 & I1 & GW & GC).
  all: destruct W as (W1 & W2 & W3 & W4 & W5 & W6 & W7 & W8 & W9).
  all: destruct W' as (V1 & V2 & V3 & V4 & V5 & V6 & V7 & V8 & V9).
  all: clear V7 V8 V9 W7 W8.
  all: try (destruct F as [F|F]; try subst f; try discriminate F).
  all: try (destruct E; [|]); try (destruct E'; [|]).
  all: try match goal with |- context [if ?b then _ else _] => destruct b eqn:? end.
  all: splits.
  all: intros; lia.
Qed.

(* ---- the concrete steps are abstract steps ---- *)

(* a state update that leaves con alone leaves d and the class alone *)
Lemma d_cls_con : forall s s', con s' = con s ->
  d_q QU s' = d_q QU s /\ d_q QL s' = d_q QL s /\ cls_of s' = cls_of s.
Proof. intros s s' H. unfold d_q, cls_of. rewrite H. auto. Qed.

Lemma sane_add_len : forall s q d s1 v, add_len s q d = (s1, v) -> g_ovf (w_gh s1) = false ->
  g_ovf (w_gh s) = false /\ v = qlen q (w_sh s) + d /\
  w_sh s1 = sh_qlen (w_sh s) q (qlen q (w_sh s) + d) /\ trigs s1 = trigs s /\ con s1 = con s /\
  w_env s1 = w_env s /\ g_fault (w_gh s1) = g_fault (w_gh s).
Proof.
  intros s q d s1 v H Ho. unfold add_len in H. inv H. cbn in Ho.
  apply orb_false_elim in Ho. destruct Ho as [Ho1 Ho2]. apply negb_false_iff in Ho2.
  rewrite (wrap32_small _ Ho2). cbn. splits; auto.
Qed.

Ltac view_eq := unfold view; cbn [w_sh trigs con set_sh set_trig set_trigs set_con set_gh set_env set_cpc
  flag eff_edge edge efd_cnt itemsU itemsL lenU lenL sh_items sh_qlen sh_flag sh_efd items qlen].

Lemma eff_edge_write : forall x x1, efd_write x = (x1, WOk) -> 0 <= efd_cnt x ->
  eff_edge x1 = true /\ itemsU x1 = itemsU x /\ itemsL x1 = itemsL x /\ lenU x1 = lenU x /\ lenL x1 = lenL x /\
  flag x1 = flag x /\ 0 <= efd_cnt x1.
Proof.
  intros x x1 H Hc. unfold efd_write in H. destruct (efd_cnt x + 1 >? efd_max); [discriminate|]. inv H.
  unfold eff_edge; cbn. splits; auto; lia.
Qed.

Lemma efd_write_res : forall x, snd (efd_write x) = WOk \/ (snd (efd_write x) = WAgain /\ fst (efd_write x) = x).
Proof. intro x. unfold efd_write. destruct (efd_cnt x + 1 >? efd_max); cbn; auto. Qed.

Lemma efd_read_frame : forall x x1 v, efd_read x = (x1, v) ->
  itemsU x1 = itemsU x /\ itemsL x1 = itemsL x /\ lenU x1 = lenU x /\ lenL x1 = lenL x /\ flag x1 = flag x /\
  (eff_edge x1 = true -> eff_edge x = true) /\ (0 <= efd_cnt x -> 0 <= efd_cnt x1).
Proof.
  intros x x1 v H. unfold efd_read in H. destruct (efd_cnt x =? 0) eqn:E; inv H; cbn; splits; auto.
  - unfold eff_edge; cbn. rewrite andb_false_r. discriminate.
  - lia.
Qed.

(* the eventfd counter never goes negative *)
Definition cnt_ok (s : wstate) : Prop := 0 <= efd_cnt (w_sh s).

Lemma mkA_eq : forall f f' E E' nU nU' nL nL' lU lU' lL lL' a a' b b' c c' d d' dU dU' dL dL' k k',
  f = f' -> E = E' -> nU = nU' -> nL = nL' -> lU = lU' -> lL = lL' -> a = a' -> b = b' -> c = c' -> d = d' ->
  dU = dU' -> dL = dL' -> k = k' ->
  mkA f E nU nL lU lL a b c d dU dL k = mkA f' E' nU' nL' lU' lL' a' b' c' d' dU' dL' k'.
Proof. intros; subst; reflexivity. Qed.

Lemma astep_eq : forall v v1 v2, astep v v1 -> v1 = v2 -> astep v v2.
Proof. intros v v1 v2 H E. subst. exact H. Qed.

(* compute the fields of the view of an updated state *)
Ltac vnorm :=
  unfold n_p1, n_p2, n_p3, d_q, cls_of;
  cbn [trigs w_sh con w_env w_gh set_gh set_sh set_con set_env set_trig set_trigs set_cpc sh_items sh_qlen sh_flag sh_efd
       items qlen flag eff_edge edge efd_cnt itemsU itemsL lenU lenL].

Ltac vfields Eth :=
  unfold view; apply mkA_eq;
  rewrite ?n_p1_set, ?n_p2_set, ?n_p3_set;
  vnorm; rewrite ?Eth;
  unfold w_p1, w_p2, w_p3; cbn [t_pc idle_trig];
  rewrite ?zlen_app1;
  first [lia | reflexivity | idtac].

(* one scheduling point of a Trigger call *)
Lemma trig_step_astep : forall s t c s1 o done,
  trig_step s t c = (s1, o, done) -> sane s1 -> cnt_ok s ->
  sane s /\ cnt_ok s1 /\ con s1 = con s /\ w_env s1 = w_env s /\
  (done = true -> t_pc (get_trig (trigs s1) t) = TIdle) /\
  (forall t', t' <> t -> get_trig (trigs s1) t' = get_trig (trigs s) t') /\
  astep (view s) (view s1).
Proof.
  intros s t c s1 o done H [So Sf] Hc. unfold trig_step in H.
  destruct (get_trig (trigs s) t) as [p x] eqn:Eth. cbn [t_pc t_task] in H.
  destruct p as [| |q|q| | |]; destruct c as [order| | |sp|v|k sc|k l];
    try (inv H; splits; [split; assumption|exact Hc|reflexivity|reflexivity|discriminate|reflexivity|apply A_nop]).
  - (* TLen *)
    inv H. splits; [split; assumption|exact Hc|reflexivity|reflexivity|discriminate| |].
    + intros t' Hne. cbn. apply get_put_other; congruence.
    + eapply astep_eq; [apply A_nop|]. vfields Eth.
  - (* TEnq: link *)
    inv H. sane_simpl So. sane_simpl Sf.
    splits; [split; assumption|unfold cnt_ok; cbn; destruct q; exact Hc|reflexivity|reflexivity|discriminate| |].
    + intros t' Hne. cbn. apply get_put_other; congruence.
    + destruct q.
      * eapply astep_eq; [unfold view; apply A_linkU|]. vfields Eth.
      * eapply astep_eq; [unfold view; apply A_linkL|]. vfields Eth.
  - (* TCnt: count *)
    destruct (add_len s q 1) as [s2 v] eqn:Ea. inv H.
    cbn [set_trig set_trigs w_gh] in So, Sf.
    destruct (sane_add_len _ _ _ _ _ Ea So) as (So0 & Ev & Esh & Etr & Econ & Eenv & Ef).
    splits; [split; [exact So0|rewrite <- Ef; exact Sf]| | | |discriminate| |].
    + unfold cnt_ok. cbn. rewrite Esh. destruct q; exact Hc.
    + cbn. exact Econ.
    + cbn. exact Eenv.
    + intros t' Hne. cbn. rewrite Etr. apply get_put_other; congruence.
    + destruct q.
      * eapply astep_eq; [unfold view; apply A_countU|].
        unfold view; apply mkA_eq; rewrite ?n_p1_set, ?n_p2_set, ?n_p3_set; vnorm; rewrite ?Etr, ?Esh, ?Econ, ?Eth;
          unfold w_p1, w_p2, w_p3; cbn [t_pc sh_qlen qlen flag eff_edge edge efd_cnt itemsU itemsL lenU lenL];
          first [lia | reflexivity | idtac].
      * eapply astep_eq; [unfold view; apply A_countL|].
        unfold view; apply mkA_eq; rewrite ?n_p1_set, ?n_p2_set, ?n_p3_set; vnorm; rewrite ?Etr, ?Esh, ?Econ, ?Eth;
          unfold w_p1, w_p2, w_p3; cbn [t_pc sh_qlen qlen flag eff_edge edge efd_cnt itemsU itemsL lenU lenL];
          first [lia | reflexivity | idtac].
  - (* TCas *)
    destruct (flag (w_sh s) =? 0) eqn:Ef; inv H.
    + splits; [split; assumption|exact Hc|reflexivity|reflexivity|discriminate| |].
      * intros t' Hne. cbn. apply get_put_other; congruence.
      * assert (F0 : flag (w_sh s) = 0) by lia.
        eapply astep_eq; [unfold view; rewrite F0; apply A_caswin|]. vfields Eth.
    + sane_simpl So. sane_simpl Sf.
      splits; [split; assumption|exact Hc|reflexivity|reflexivity| | |].
      * intros _. unfold ret_trig. cbn [trigs set_trig set_trigs set_gh set_sh]. rewrite get_put_same. reflexivity.
      * intros t' Hne. cbn. apply get_put_other; congruence.
      * eapply astep_eq; [unfold view; apply A_caslose; lia|]. unfold ret_trig. vfields Eth.
  - (* TWr, step *)
    destruct (efd_write (w_sh s)) as [x1 r] eqn:Ew.
    destruct (efd_write_res (w_sh s)) as [R|[R R']]; rewrite Ew in *; cbn [fst snd] in *; subst r.
    + inv H. sane_simpl So. sane_simpl Sf.
      destruct (eff_edge_write _ _ Ew Hc) as (E1 & E2 & E3 & E4 & E5 & E6 & E7).
      splits; [split; assumption|exact E7|reflexivity|reflexivity| | |].
      * intros _. unfold ret_trig. cbn [trigs set_trig set_trigs set_gh set_sh]. rewrite get_put_same. reflexivity.
      * intros t' Hne. cbn. apply get_put_other; congruence.
      * eapply astep_eq; [unfold view; apply A_writeok|]. unfold ret_trig.
        unfold view; apply mkA_eq; rewrite ?n_p1_set, ?n_p2_set, ?n_p3_set;
          unfold n_p1, n_p2, n_p3, d_q, cls_of;
          cbn [trigs w_sh con w_env w_gh set_gh set_sh set_con set_env set_trig set_trigs set_cpc];
          rewrite ?Eth, ?E1, ?E2, ?E3, ?E4, ?E5, ?E6;
          unfold w_p1, w_p2, w_p3; cbn [t_pc idle_trig]; first [lia | reflexivity | idtac].
    + inv H. splits; [split; assumption|exact Hc|reflexivity|reflexivity|discriminate| |].
      * intros t' Hne. cbn. apply get_put_other; congruence.
      * eapply astep_eq; [apply A_nop|]. vfields Eth.
  - (* TWr, fault: excluded *)
    inv H. sane_simpl Sf. discriminate.
  - (* TRd *)
    destruct (efd_read (w_sh s)) as [x1 v] eqn:Er. inv H.
    destruct (efd_read_frame _ _ _ Er) as (E2 & E3 & E4 & E5 & E6 & E1 & E7).
    splits; [split; assumption|exact (E7 Hc)|reflexivity|reflexivity|discriminate| |].
    + intros t' Hne. cbn. apply get_put_other; congruence.
    + eapply astep_eq; [unfold view; eapply (A_drop _ _ (eff_edge x1)); [|exact E1]|].
      * left. pose proof (tot_ge w_p3 (trigs s) t nn_p3 z_p3) as G. rewrite Eth in G.
        unfold w_p3 in G at 1; cbn in G. unfold n_p3. lia.
      * unfold view; apply mkA_eq; rewrite ?n_p1_set, ?n_p2_set, ?n_p3_set;
          unfold n_p1, n_p2, n_p3, d_q, cls_of;
          cbn [trigs w_sh con w_env w_gh set_gh set_sh set_con set_env set_trig set_trigs set_cpc];
          rewrite ?Eth, ?E2, ?E3, ?E4, ?E5, ?E6;
          unfold w_p1, w_p2, w_p3; cbn [t_pc idle_trig]; first [lia | reflexivity | idtac].
Qed.

(* ---- the event loop's own steps ---- *)
Lemma has_efd_app : forall a b, has_efd (a ++ b) = has_efd a || has_efd b.
Proof. intros. unfold has_efd. apply existsb_app. Qed.

Lemma has_efd_io : forall l, has_efd (io_evs l) = false.
Proof. induction l as [|e r IH]; [reflexivity|]. cbn. exact IH. Qed.

Lemma has_efd_arrange : forall order pend eff, has_efd (arrange order pend eff) = eff.
Proof.
  intros order pend eff. unfold arrange. destruct eff; [|apply has_efd_io].
  destruct (efd_pos order) as [n|].
  - rewrite has_efd_app. cbn. apply orb_true_r.
  - rewrite has_efd_app. cbn. apply orb_true_r.
Qed.

Lemma loop_ok_intro : forall s, loop_idle s -> c_chores (con s) = false -> loop_ok s.
Proof. intros s H1 H2. split; [intros _; exact H1|]. unfold chores_ok. rewrite H2. discriminate. Qed.

Ltac vnormc :=
  vnorm;
  cbn [c_pc c_msec c_todo c_evs c_chores c_phase c_low c_held
       c_set_pc c_set_msec c_set_todo c_set_evs c_set_chores c_set_phase c_set_low c_set_held].

(* rewrite the source view using the loop's program counter *)
Ltac src Epc :=
  let V := fresh "Vs" in
  match goal with |- astep (view ?s) _ =>
    assert (V : view s = mkA (flag (w_sh s)) (eff_edge (w_sh s)) (zlen (itemsU (w_sh s))) (zlen (itemsL (w_sh s)))
                             (lenU (w_sh s)) (lenL (w_sh s)) (n_p1 QU s) (n_p1 QL s) (n_p2 s) (n_p3 s)
                             (d_q QU s) (d_q QL s) (cls_of s)) by reflexivity;
    unfold d_q, cls_of in V; rewrite Epc in V; cbv iota beta in V; rewrite V; clear V
  end.

Ltac tgt := unfold view; apply mkA_eq; vnormc; rewrite ?zlen_cons; first [lia | reflexivity | idtac].

Ltac tgtE Epc := unfold view; apply mkA_eq; vnormc; rewrite ?Epc, ?zlen_cons; first [lia | reflexivity | idtac].

Lemma cons_step_astep : forall s c s1 o,
  cons_step s c = (s1, o) -> sane s1 -> cnt_ok s -> loop_ok s ->
  sane s /\ cnt_ok s1 /\ loop_ok s1 /\ astep (view s) (view s1).
Proof.
  intros s c s1 o H [So Sf] Hc [Li Lc]. unfold cons_step in H.
  destruct (c_pc (con s)) as [ |q|q|q| | | | | | | ] eqn:Epc.
  11: { (* CTrig: a Trigger call made by the loop thread itself *)
    destruct (trig_step s O c) as [[s2 o2] done] eqn:Et.
    destruct done.
    - destruct (resume s2) as [s3 o3] eqn:Er. injection H as Hs Ho. subst s1 o.
      (* facts about resume need idleness of the loop's slot, which trig_step gives once we know s2 is sane *)
      assert (Fr : forall (Hi : loop_idle s2) (Hp : c_chores (con s2) = true -> c_phase (con s2) = PhEvents),
                 g_ovf (w_gh s3) = g_ovf (w_gh s2) /\ g_fault (w_gh s3) = g_fault (w_gh s2)).
      { intros Hi Hp. pose proof (resume_frame s2 Hi Hp) as R. cbn zeta in R. rewrite Er in R. cbn [fst] in R.
        destruct R as (_ & _ & _ & C & D & _). split; assumption. }
      (* the Trigger call returned: its last step cannot have raised a flag after the fact, so go through
         trig_step with the flags of s3 *)
      assert (Hd : t_pc (get_trig (trigs s2) O) = TIdle /\ con s2 = con s).
      { unfold trig_step in Et. destruct (get_trig (trigs s) O) as [p x] eqn:Eth. cbn [t_pc t_task] in Et.
        destruct p as [| |q|q| | |]; destruct c as [order| | |sp|v|k sc|k l]; try discriminate Et;
          repeat match type of Et with
                 | context [efd_write ?a] => destruct (efd_write a) as [? []]
                 | context [efd_read ?a] => destruct (efd_read a)
                 | context [if ?b then _ else _] => destruct b
                 end; try discriminate Et; inv Et; unfold ret_trig; cbn [trigs con set_trig set_trigs set_gh set_sh]; rewrite get_put_same; auto. }
      destruct Hd as [Hi2 Econ].
      assert (Hp2 : c_chores (con s2) = true -> c_phase (con s2) = PhEvents).
      { rewrite Econ. intro X. apply (Lc X). }
      destruct (Fr Hi2 Hp2) as [Fo Ff].
      assert (S2 : sane s2) by (split; [rewrite <- Fo; exact So|rewrite <- Ff; exact Sf]).
      destruct (trig_step_astep _ _ _ _ _ _ Et S2 Hc) as (S0 & C2 & _ & _ & _ & _ & AS).
      pose proof (resume_frame s2 Hi2 Hp2) as R. cbn zeta in R. rewrite Er in R. cbn [fst] in R.
      destruct R as (L0 & A & B & C & D & E & F & G & I & J1 & J2 & K).
      splits; [exact S0|unfold cnt_ok; rewrite A; exact C2|exact L0|].
      eapply astep_eq; [exact AS|].
      unfold view; apply mkA_eq; rewrite ?A, ?E, ?F, ?G, ?I, ?J1, ?J2, ?K; try reflexivity;
        unfold d_q, cls_of; rewrite Econ, Epc; reflexivity.
    - injection H as Hs Ho. subst s1 o.
      destruct (trig_step_astep _ _ _ _ _ _ Et (conj So Sf) Hc) as (S0 & C2 & Econ & _ & _ & _ & AS).
      splits; [exact S0|exact C2| |exact AS].
      split; [rewrite Econ, Epc; intro X; congruence|rewrite Econ; exact Lc]. }
  all: try (assert (Hidle : loop_idle s) by (apply Li; discriminate)).
  all: try (assert (Hch : c_chores (con s) = false)
             by (destruct (c_chores (con s)) eqn:X; [destruct (Lc X); congruence|reflexivity])).
  all: destruct c as [order| | |sp|v|k sc|k l];
    try (inv H; splits; [split; assumption|exact Hc
                        |first [apply loop_ok_intro; [exact Hidle|exact Hch] | split; assumption]|apply A_nop]).
  - (* CWait: epoll_wait *)
    set (evs := arrange order (io_pend (w_env s)) (eff_edge (w_sh s))) in *.
    set (s0 := set_env (set_sh s (sh_efd (w_sh s) (efd_cnt (w_sh s)) false)) (e_set_io (w_env s) [])) in *.
    assert (HE : has_efd evs = eff_edge (w_sh s)) by apply has_efd_arrange.
    destruct evs as [|e r] eqn:Eevs.
    + inv H. cbn in HE.
      splits; [split; assumption|exact Hc| |].
      * apply loop_ok_intro; [exact Hidle|exact Hch].
      * src Epc. eapply astep_eq; [apply A_wait|]. rewrite <- HE. tgtE Epc.
    + set (s2 := set_con s0 (c_set_phase (c_set_msec (con s) 0) PhEvents)) in *.
      assert (Hi2 : loop_idle s2) by exact Hidle.
      pose proof (run_evs_frame (e :: r) s2 Hi2) as R. cbn zeta in R.
      destruct (run_evs (e :: r) s2) as [s3 o3] eqn:Er. inv H. cbn [fst] in R.
      destruct R as (L0 & A & B & C & D & E & F & G & I & J1 & J2 & K).
      splits.
      * split; [change (g_ovf (w_gh s2) = false); rewrite <- C; exact So|change (g_fault (w_gh s2) = false); rewrite <- D; exact Sf].
      * unfold cnt_ok. rewrite A. exact Hc.
      * exact L0.
      * src Epc. eapply astep_eq; [apply A_wait|].
        unfold view; apply mkA_eq; rewrite ?A, ?E, ?F, ?G, ?I, ?J1, ?J2, ?K; try reflexivity.
        unfold s2, s0; cbn [con set_con c_chores c_set_phase c_set_msec]. rewrite Hch, HE. reflexivity.
  - (* CDeq: unlink or empty *)
    destruct (items q (w_sh s)) as [|x r] eqn:Eit; inv H.
    + splits; [split; assumption|exact Hc|apply loop_ok_intro; [exact Hidle|exact Hch]|].
      src Epc. eapply astep_eq; [apply A_nop|]. tgt.
    + splits; [split; assumption| |apply loop_ok_intro; [exact Hidle|exact Hch]|].
      * unfold cnt_ok. cbn. destruct q; exact Hc.
      * src Epc. destruct q; cbn [items] in Eit.
        -- eapply astep_eq; [apply A_unlinkU|]. unfold view; apply mkA_eq; vnormc; rewrite ?Eit, ?zlen_cons;
             first [lia | reflexivity | idtac].
        -- eapply astep_eq; [apply A_unlinkL|]. unfold view; apply mkA_eq; vnormc; rewrite ?Eit, ?zlen_cons;
             first [lia | reflexivity | idtac].
  - (* CEmp, tau: Dequeue returns nil *)
    assert (G : forall s', (s' = set_con s (c_set_pc (c_set_low (con s) 0) (CDeq QL)) \/
                            s' = set_con s (c_set_pc (c_set_low (con s) 0) CStore) \/ s' = set_cpc s CStore) ->
                loop_ok s' /\ astep (view s) (view s')).
    { intros s' Hs'. split.
      - apply loop_ok_intro; destruct Hs' as [X|[X|X]]; subst s'; try exact Hidle; exact Hch.
      - src Epc. eapply astep_eq; [apply A_nop|]. destruct Hs' as [X|[X|X]]; subst s'; tgt. }
    destruct q.
    + destruct (0 <? e_max (w_env s)); inv H;
        (splits; [split; assumption|exact Hc| |]; [eapply G|eapply G]; auto).
    + inv H. splits; [split; assumption|exact Hc| |]; [eapply G|eapply G]; auto.
  - (* CDec: decount, then the task runs *)
    destruct (add_len s q (-1)) as [s2 v] eqn:Ea.
    assert (Hi2 : loop_idle s2).
    { unfold add_len in Ea. inv Ea. exact Hidle. }
    assert (Hc2 : c_chores (con s2) = false).
    { unfold add_len in Ea. inv Ea. exact Hch. }
    pose proof (exec_task_frame s2 q (c_held (con s)) Hi2 Hc2) as R. cbn zeta in R.
    destruct (exec_task s2 q (c_held (con s))) as [s3 o3] eqn:Ex. inv H. cbn [fst] in R.
    destruct R as (L0 & A & C & D & E & F & G & I & J1 & J2 & K).
    rewrite C in So. rewrite D in Sf.
    destruct (sane_add_len _ _ _ _ _ Ea So) as (So0 & Ev & Esh & Etr & Econ & Eenv & Ef).
    splits.
    + split; [exact So0|rewrite <- Ef; exact Sf].
    + unfold cnt_ok. rewrite A, Esh. destruct q; exact Hc.
    + exact L0.
    + src Epc.
      rewrite (n_p1_trigs s s2 QU Etr) in E. rewrite (n_p1_trigs s s2 QL Etr) in F.
      rewrite (n_p2_trigs s s2 Etr) in G. rewrite (n_p3_trigs s s2 Etr) in I.
      destruct q.
      * eapply astep_eq; [apply A_decU|].
        unfold view; apply mkA_eq; rewrite ?A, ?E, ?F, ?G, ?I, ?J1, ?J2, ?K, ?Esh;
          cbn [sh_qlen qlen flag eff_edge edge efd_cnt itemsU itemsL lenU lenL]; first [reflexivity | clear; lia].
      * eapply astep_eq; [apply A_decL|].
        unfold view; apply mkA_eq; rewrite ?A, ?E, ?F, ?G, ?I, ?J1, ?J2, ?K, ?Esh;
          cbn [sh_qlen qlen flag eff_edge edge efd_cnt itemsU itemsL lenU lenL]; first [reflexivity | clear; lia].
  - (* CStore *)
    inv H. splits; [split; assumption|exact Hc|apply loop_ok_intro; [exact Hidle|exact Hch]|].
    src Epc. eapply astep_eq; [apply A_store|]. tgt.
  - (* CChkL *)
    inv H. splits; [split; assumption|exact Hc|apply loop_ok_intro; [exact Hidle|exact Hch]|].
    src Epc. eapply astep_eq; [apply A_chkL|].
    unfold view; apply mkA_eq; vnormc; try reflexivity; destruct (lenL (w_sh s) =? 0); reflexivity.
  - (* CChkU *)
    inv H. splits; [split; assumption|exact Hc|apply loop_ok_intro; [exact Hidle|exact Hch]|].
    src Epc. eapply astep_eq; [apply A_chkU|].
    unfold view; apply mkA_eq; vnormc; try reflexivity; destruct (lenU (w_sh s) =? 0); reflexivity.
  - (* CCas *)
    destruct (flag (w_sh s) =? 0) eqn:Ef; inv H.
    + splits; [split; assumption|exact Hc|apply loop_ok_intro; [exact Hidle|exact Hch]|].
      src Epc. assert (F0 : flag (w_sh s) = 0) by lia. rewrite F0.
      eapply astep_eq; [apply A_ccaswin|]. tgt.
    + splits; [split; assumption|exact Hc|apply loop_ok_intro; [exact Hidle|exact Hch]|].
      src Epc. eapply astep_eq; [apply A_ccaslose; lia|]. tgt.
  - (* CWr *)
    destruct (efd_write (w_sh s)) as [x1 r] eqn:Ew.
    destruct (efd_write_res (w_sh s)) as [R|[R R']]; rewrite Ew in *; cbn [fst snd] in *; subst r.
    + inv H. destruct (eff_edge_write _ _ Ew Hc) as (E1 & E2 & E3 & E4 & E5 & E6 & E7).
      splits; [split; assumption|exact E7|apply loop_ok_intro; [exact Hidle|exact Hch]|].
      src Epc. eapply astep_eq; [apply A_cwrite|].
      unfold view; apply mkA_eq; vnormc; rewrite ?E1, ?E2, ?E3, ?E4, ?E5, ?E6; reflexivity.
    + inv H. splits; [split; assumption|exact Hc|apply loop_ok_intro; [exact Hidle|exact Hch]|].
      src Epc. eapply astep_eq; [apply A_nop|]. tgt.
  - (* CWr, fault: excluded *)
    inv H. sane_simpl Sf. cbn in Sf. discriminate.
  - (* CRd *)
    destruct (efd_read (w_sh s)) as [x1 v] eqn:Er. inv H.
    destruct (efd_read_frame _ _ _ Er) as (E2 & E3 & E4 & E5 & E6 & E1 & E7).
    splits; [split; assumption|exact (E7 Hc)|apply loop_ok_intro; [exact Hidle|exact Hch]|].
    src Epc. eapply astep_eq; [eapply (A_drop _ _ (eff_edge x1)); [right; reflexivity|exact E1]|].
    unfold view; apply mkA_eq; vnormc; rewrite ?E2, ?E3, ?E4, ?E5, ?E6; reflexivity.
Qed.

(* ---- every step of the model ---- *)
Definition winv (s : wstate) : Prop := cnt_ok s /\ loop_ok s /\ AInv (view s).

Lemma view_counts_eq : forall s s',
  w_sh s' = w_sh s -> n_p1 QU s' = n_p1 QU s -> n_p1 QL s' = n_p1 QL s -> n_p2 s' = n_p2 s -> n_p3 s' = n_p3 s ->
  con s' = con s -> view s' = view s.
Proof.
  intros s s' A B C D E F. unfold view. destruct (d_cls_con s s' F) as (G & H & I).
  rewrite A, B, C, D, E, G, H, I. reflexivity.
Qed.

Lemma wstep_astep : forall s t c s1 o,
  wstep s t c = (s1, o) -> sane s1 -> cnt_ok s -> loop_ok s ->
  sane s /\ cnt_ok s1 /\ loop_ok s1 /\ astep (view s) (view s1).
Proof.
  intros s t c s1 o H S1 Hc Lk. unfold wstep in H.
  assert (Prod : forall t', (let '(s2, o2, _) := trig_step s (S t') c in (s2, o2)) = (s1, o) ->
            sane s /\ cnt_ok s1 /\ loop_ok s1 /\ astep (view s) (view s1)).
  { intros t' H'. destruct (trig_step s (S t') c) as [[s2 o2] done] eqn:Et. inv H'.
    destruct (trig_step_astep _ _ _ _ _ _ Et S1 Hc) as (S0 & C2 & Econ & _ & _ & Oth & AS).
    splits; [exact S0|exact C2| |exact AS].
    destruct Lk as [Li Lc]. split; [|rewrite Econ; exact Lc].
    rewrite Econ. intro X. unfold loop_idle. rewrite Oth by discriminate. apply Li. exact X. }
  destruct c as [order| | |sp|v|k sc|k l].
  - destruct t; [apply (cons_step_astep _ _ _ _ H S1 Hc Lk)|apply (Prod _ H)].
  - destruct t; [apply (cons_step_astep _ _ _ _ H S1 Hc Lk)|apply (Prod _ H)].
  - destruct t; [apply (cons_step_astep _ _ _ _ H S1 Hc Lk)|apply (Prod _ H)].
  - (* CStart *)
    destruct t as [|t']; [inv H; splits; [exact S1|exact Hc|exact Lk|apply A_nop]|].
    destruct (t_pc (get_trig (trigs s) (S t'))) eqn:Epc;
      try (inv H; splits; [exact S1|exact Hc|exact Lk|apply A_nop]).
    pose proof (start_trig_frame s (S t') sp) as Fr. cbn zeta in Fr.
    assert (Hpre : pre_link (t_pc (get_trig (trigs s) (S t')))) by (rewrite Epc; exact I).
    pose proof (start_trig_counts s (S t') sp Hpre) as Cn. cbn zeta in Cn.
    rewrite H in Fr, Cn. cbn [fst] in Fr, Cn.
    destruct Fr as (A & B & C & D & E & F). destruct Cn as (G & J & K & L).
    destruct S1 as [So Sf]. splits.
    + split; [rewrite <- D; exact So|rewrite <- E; exact Sf].
    + unfold cnt_ok. rewrite A. exact Hc.
    + destruct Lk as [Li Lc]. split; [|rewrite B; exact Lc].
      rewrite B. intro X. unfold loop_idle. rewrite F. rewrite get_put_other by discriminate. apply Li. exact X.
    + eapply astep_eq; [apply A_nop|]. symmetry. apply view_counts_eq; assumption.
  - (* CPreload *)
    unfold env_step in H.
    destruct ((0 <? v) && (efd_cnt (w_sh s) + v <=? efd_max)) eqn:Ev; inv H;
      [|splits; [exact S1|exact Hc|exact Lk|apply A_nop]].
    splits; [exact S1| |exact Lk|].
    + clear Prod. unfold cnt_ok in *. cbn [w_sh set_sh efd_cnt sh_efd]. lia.
    + eapply astep_eq; [unfold view; apply A_raise|].
      unfold view; apply mkA_eq; vnorm; try reflexivity.
      clear Prod. unfold eff_edge; cbn [edge efd_cnt sh_efd]. unfold cnt_ok in Hc. lia.
  - (* CIo *)
    unfold env_step in H.
    destruct ((k <? 0) || existsb (fun e => Z.eqb (fst e) k) (io_pend (w_env s))); inv H;
      splits; try exact S1; try exact Hc; try exact Lk; apply A_nop.
  - (* CScript *)
    unfold env_step in H. inv H. splits; try exact S1; try exact Hc; try exact Lk; apply A_nop.
Qed.

(* the two flags that put a run outside the property are never lowered *)
Definition fl_le (s s1 : wstate) : Prop :=
  (g_ovf (w_gh s) = true -> g_ovf (w_gh s1) = true) /\ (g_fault (w_gh s) = true -> g_fault (w_gh s1) = true).

Lemma fl_refl : forall s, fl_le s s. Proof. intro s; split; auto. Qed.
Lemma fl_trans : forall a b c, fl_le a b -> fl_le b c -> fl_le a c.
Proof. intros a b c [A B] [C D]. split; auto. Qed.
Lemma fl_eq : forall s s1, g_ovf (w_gh s1) = g_ovf (w_gh s) -> g_fault (w_gh s1) = g_fault (w_gh s) -> fl_le s s1.
Proof. intros s s1 A B. split; congruence. Qed.

Lemma start_trig_fl : forall s t sp, fl_le s (fst (start_trig s t sp)).
Proof. intros. apply fl_eq; reflexivity. Qed.

Lemma run_evs_fl : forall evs s, fl_le s (fst (run_evs evs s)).
Proof.
  induction evs as [|e r IH]; intro s.
  - cbn. destruct (c_chores (con s)); apply fl_eq; reflexivity.
  - destruct e as [|k sc]; cbn [run_evs].
    + eapply fl_trans; [|apply IH]. apply fl_eq; reflexivity.
    + destruct (lookup_script (scripts (w_env s)) sc) as [|sp todo].
      * specialize (IH s). destruct (run_evs r s). exact IH.
      * match goal with |- context [start_trig ?a ?b ?c] => pose proof (start_trig_fl a b c) as P;
          destruct (start_trig a b c) end. eapply fl_trans; [|exact P]. apply fl_eq; reflexivity.
Qed.

Lemma resume_fl : forall s, fl_le s (fst (resume s)).
Proof.
  intro s. unfold resume. destruct (c_todo (con s)) as [|sp todo].
  - destruct (c_phase (con s)); [apply run_evs_fl|apply fl_eq; reflexivity|].
    destruct (c_low (con s) <? e_max (w_env s)); apply fl_eq; reflexivity.
  - match goal with |- context [start_trig ?a ?b ?c] => pose proof (start_trig_fl a b c) as P end.
    eapply fl_trans; [|exact P]. apply fl_eq; reflexivity.
Qed.

Lemma exec_task_fl : forall s q x, fl_le s (fst (exec_task s q x)).
Proof.
  intros s q x. unfold exec_task.
  destruct (sp_kind (tk_spec x)) as [|c|c]; [|destruct (zmem c (closed (w_env s)))|];
    match goal with |- context [resume ?a] => pose proof (resume_fl a) as P; destruct (resume a) end;
    (eapply fl_trans; [|exact P]); apply fl_eq; reflexivity.
Qed.

Lemma add_len_fl : forall s q d, fl_le s (fst (add_len s q d)).
Proof. intros. unfold add_len; cbn. split; cbn; intro H; [rewrite H; reflexivity|exact H]. Qed.

Lemma trig_step_fl : forall s t c, fl_le s (fst (fst (trig_step s t c))).
Proof.
  intros s t c. unfold trig_step. destruct (get_trig (trigs s) t) as [p x]. cbn [t_pc t_task].
  destruct p as [| |q|q| | |]; destruct c as [order| | |sp|v|k sc|k l]; cbn [fst]; try apply fl_refl.
  - apply fl_eq; reflexivity.
  - apply fl_eq; cbn; [apply gh_link_ovf|apply gh_link_fault].
  - pose proof (add_len_fl s q 1) as P. destruct (add_len s q 1). cbn [fst] in *.
    eapply fl_trans; [exact P|]. apply fl_eq; reflexivity.
  - destruct (flag (w_sh s) =? 0); cbn [fst]; apply fl_eq; reflexivity.
  - destruct (efd_write (w_sh s)) as [x1 []]; cbn [fst]; apply fl_eq; reflexivity.
  - split; cbn; auto.
  - destruct (efd_read (w_sh s)). cbn [fst]. apply fl_eq; reflexivity.
Qed.

Lemma cons_step_fl : forall s c, fl_le s (fst (cons_step s c)).
Proof.
  intros s c. unfold cons_step.
  destruct (c_pc (con s)) as [ |q|q|q| | | | | | | ].
  11: { pose proof (trig_step_fl s O c) as P. destruct (trig_step s O c) as [[s2 o2] done]. cbn [fst] in P.
        destruct done; [|exact P]. pose proof (resume_fl s2) as Q. destruct (resume s2). cbn [fst] in *.
        eapply fl_trans; eassumption. }
  all: destruct c as [order| | |sp|v|k sc|k l]; cbn [fst]; try apply fl_refl.
  - match goal with |- context [match ?e with [] => _ | _ :: _ => _ end] => destruct e eqn:Ee end.
    + apply fl_eq; reflexivity.
    + match goal with |- context [run_evs ?a ?b] => pose proof (run_evs_fl a b) as P; destruct (run_evs a b) end.
      cbn [fst] in *. eapply fl_trans; [|exact P]. apply fl_eq; reflexivity.
  - destruct (items q (w_sh s)); apply fl_eq; reflexivity.
  - destruct q; [destruct (0 <? e_max (w_env s))|]; apply fl_eq; reflexivity.
  - pose proof (add_len_fl s q (-1)) as P. destruct (add_len s q (-1)) as [s2 v]. cbn [fst] in P.
    pose proof (exec_task_fl s2 q (c_held (con s))) as Q. destruct (exec_task s2 q (c_held (con s))). cbn [fst] in *.
    eapply fl_trans; eassumption.
  - apply fl_eq; reflexivity.
  - apply fl_eq; reflexivity.
  - apply fl_eq; reflexivity.
  - destruct (flag (w_sh s) =? 0); apply fl_eq; reflexivity.
  - destruct (efd_write (w_sh s)) as [x1 []]; apply fl_eq; reflexivity.
  - split; cbn; auto.
  - destruct (efd_read (w_sh s)). apply fl_eq; reflexivity.
Qed.

Lemma wstep_fl : forall s t c, fl_le s (fst (wstep s t c)).
Proof.
  intros s t c. unfold wstep.
  assert (P : forall t', fl_le s (fst (let '(s1, o, _) := trig_step s (S t') c in (s1, o)))).
  { intro t'. pose proof (trig_step_fl s (S t') c) as Q. destruct (trig_step s (S t') c) as [[s2 o2] d]. exact Q. }
  destruct c as [order| | |sp|v|k sc|k l].
  - destruct t; [apply cons_step_fl|apply P].
  - destruct t; [apply cons_step_fl|apply P].
  - destruct t; [apply cons_step_fl|apply P].
  - destruct t; [apply fl_refl|]. destruct (t_pc (get_trig (trigs s) (S t))); try apply fl_refl. apply start_trig_fl.
  - unfold env_step. destruct ((0 <? v) && (efd_cnt (w_sh s) + v <=? efd_max)); apply fl_eq; reflexivity.
  - unfold env_step. destruct ((k <? 0) || existsb (fun e => Z.eqb (fst e) k) (io_pend (w_env s))); apply fl_eq; reflexivity.
  - apply fl_eq; reflexivity.
Qed.

Lemma sane_back : forall s t c s1 o, wstep s t c = (s1, o) -> sane s1 -> sane s.
Proof.
  intros s t c s1 o H [So Sf]. pose proof (wstep_fl s t c) as [A B]. rewrite H in A, B. cbn [fst] in A, B.
  split.
  - destruct (g_ovf (w_gh s)); [rewrite A in So by reflexivity; discriminate|reflexivity].
  - destruct (g_fault (w_gh s)); [rewrite B in Sf by reflexivity; discriminate|reflexivity].
Qed.

Lemma AInv_init : forall thr max, AInv (view (init_state thr max)).
Proof. intros. unfold AInv, view; cbn. unfold KW, KB, KChkL, KChkU, KCas, KWr. lia. Qed.

Theorem winv_reachable : forall s, reachable wk_init wk_step s -> sane s -> winv s.
Proof.
  intros s R. induction R as [s [thr [max Hi]]|s l s' R IH Hs]; intro Sn.
  - subst s. unfold winv. splits.
    + unfold cnt_ok, init_state. cbn [w_sh efd_cnt]. lia.
    + apply loop_ok_intro; reflexivity.
    + apply AInv_init.
  - destruct l as [[t c] o]. unfold wk_step in Hs. cbn [fst snd] in Hs.
    pose proof (sane_back _ _ _ _ _ Hs Sn) as Sb.
    destruct (IH Sb) as (Hc & Lk & AI).
    destruct (wstep_astep _ _ _ _ _ Hs Sn Hc Lk) as (_ & C1 & L1 & AS).
    unfold winv. splits; [exact C1|exact L1|].
    eapply astep_preserves; [apply wf_view|apply wf_view|exact AI|exact AS].
Qed.
