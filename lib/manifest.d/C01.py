CHECK = dict(
    engine="loop", design_ref="4 / the connection and event-loop model (C01)",
    text="""Coq theorem inbound_ok over every input stream of the loop model: handler-visible bytes are the front of the delivered-unconsumed stream, counts match, every delivery is offered at once; theorem in_progress_ok: in edge-triggered mode a read that filled its buffer is followed up (read again, queued read task or close) before the loop waits again; conn.processIO regenerated from the source on every run and proved equal to the model's dispatch for every event mask (genloop); plus per-run replay of real engine traces and the peer-level stream oracle.""",
    note="Proof is about the hand-written model coq/Model/Loop.v (kernel, handler and other goroutines are universally quantified inputs); "
         "the tie to /repo is the per-run trace correspondence through the vunix shim. Kernel stream semantics assumed (monitors in the model state the contract). Runs cover the default, gc_opt and poll_opt builds, server and client side, 1-4 loops (loop 0 modelled, the others judged by the direct oracles).",
    technique="Coq invariant proofs over a big-step interpreter of the event loop + executable trace checkers + differential replay of real engine runs",
)
ENGINE = dict(name="loop", path="coq/Model/Loop.v", serves_properties=["C01"],
              kind_free_text="Gallina model of one event loop (connection_unix/eventloop_unix/processIO/accept/task queues) + Spec/LoopSpec.v checkers + drv-loop + vunix shim")
