(* Generic trace runner: feeds the `op` lines of each case to the extracted
   model of the requested family and prints the `obs` lines it predicts. *)
module S = Stdlib.String
module L = Stdlib.List
type str = S.t
open Model

let rec coq_string_of (s : str) (i : int) : Model.string =
  if i >= S.length s then EmptyString
  else
    let c = Char.code s.[i] in
    let b k = (c lsr k) land 1 = 1 in
    String (Ascii (b 0, b 1, b 2, b 3, b 4, b 5, b 6, b 7), coq_string_of s (i + 1))

let ocaml_string_of (s : Model.string) : str =
  let buf = Buffer.create 16 in
  let rec go = function
    | EmptyString -> ()
    | String (Ascii (b0, b1, b2, b3, b4, b5, b6, b7), r) ->
        let v b k = if b then 1 lsl k else 0 in
        Buffer.add_char buf
          (Char.chr (v b0 0 + v b1 1 + v b2 2 + v b3 3 + v b4 4 + v b5 5 + v b6 6 + v b7 7));
        go r
  in
  go s; Buffer.contents buf

(* decimal string <-> Z through Coq's own Decimal conversion *)
let uint_of_string (s : str) (start : int) : uint =
  let rec go i acc =
    if i < start then acc
    else
      let acc' = match s.[i] with
        | '0' -> D0 acc | '1' -> D1 acc | '2' -> D2 acc | '3' -> D3 acc | '4' -> D4 acc
        | '5' -> D5 acc | '6' -> D6 acc | '7' -> D7 acc | '8' -> D8 acc | '9' -> D9 acc
        | _ -> failwith ("bad int " ^ s) in
      go (i - 1) acc'
  in
  go (S.length s - 1) Nil

let z_of_string (s : str) : z =
  if S.length s > 0 && s.[0] = '-' then Z.of_int (Neg (uint_of_string s 1))
  else Z.of_int (Pos (uint_of_string s 0))

let string_of_uint (u : uint) : str =
  let buf = Buffer.create 20 in
  let rec go = function
    | Nil -> ()
    | D0 r -> Buffer.add_char buf '0'; go r | D1 r -> Buffer.add_char buf '1'; go r
    | D2 r -> Buffer.add_char buf '2'; go r | D3 r -> Buffer.add_char buf '3'; go r
    | D4 r -> Buffer.add_char buf '4'; go r | D5 r -> Buffer.add_char buf '5'; go r
    | D6 r -> Buffer.add_char buf '6'; go r | D7 r -> Buffer.add_char buf '7'; go r
    | D8 r -> Buffer.add_char buf '8'; go r | D9 r -> Buffer.add_char buf '9'; go r
  in
  go u;
  if Buffer.length buf = 0 then "0" else Buffer.contents buf

let string_of_z (x : z) : str =
  match Z.to_int x with
  | Pos u -> string_of_uint u
  | Neg u -> "-" ^ string_of_uint u

(* small ints as Z without going through strings *)
let small = Array.init 256 (fun i -> z_of_string (string_of_int i))

let int_of_z (x : z) : int = int_of_string (string_of_z x)

let hexval c = match c with
  | '0'..'9' -> Char.code c - 48
  | 'a'..'f' -> Char.code c - 87
  | _ -> failwith "bad hex"

let bytes_of_hex (s : str) : z list =
  (* s starts with 'x' *)
  let n = (S.length s - 1) / 2 in
  let rec go i acc =
    if i < 0 then acc
    else go (i - 1) (small.(hexval s.[1 + 2*i] * 16 + hexval s.[2 + 2*i]) :: acc)
  in
  go (n - 1) []

let is_int_token (s : str) =
  let n = S.length s in
  n > 0 &&
  (let st = if s.[0] = '-' then 1 else 0 in
   n > st &&
   (let ok = ref true in
    for i = st to n - 1 do
      if s.[i] < '0' || s.[i] > '9' then ok := false
    done; !ok))

let is_hex_token (s : str) =
  let n = S.length s in
  n >= 1 && s.[0] = 'x' && n mod 2 = 1 &&
  (let ok = ref true in
   for i = 1 to n - 1 do
     match s.[i] with '0'..'9' | 'a'..'f' -> () | _ -> ok := false
   done; !ok)

let arg_of_token (t : str) : arg =
  if is_int_token t then AInt (z_of_string t)
  else if is_hex_token t then ABytes (bytes_of_hex t)
  else ASym (coq_string_of t 0)

let hexdigits = "0123456789abcdef"

let token_of_arg (a : arg) : str =
  match a with
  | AInt x -> string_of_z x
  | ABytes bs ->
      let buf = Buffer.create 64 in
      Buffer.add_char buf 'x';
      L.iter (fun b ->
        let v = int_of_z b in
        Buffer.add_char buf hexdigits.[(v lsr 4) land 15];
        Buffer.add_char buf hexdigits.[v land 15]) bs;
      Buffer.contents buf
  | ASym s -> ocaml_string_of s

let split_ws (s : str) : str list =
  L.filter (fun x -> x <> "") (S.split_on_char ' ' s)

let families : (str * (line list -> line list)) list = Families.table

let () =
  let fam = Sys.argv.(1) in
  let run = try L.assoc fam families with Not_found -> failwith ("unknown family " ^ fam) in
  let cur : line list ref = ref [] in
  let out = Buffer.create 65536 in
  (try
    while true do
      let l = input_line stdin in
      match split_ws l with
      | "case" :: _ -> cur := []; Buffer.add_string out l; Buffer.add_char out '\n'
      | "op" :: name :: args ->
          cur := (coq_string_of name 0, L.map arg_of_token args) :: !cur
      | "end" :: _ ->
          let res = run (L.rev !cur) in
          L.iter (fun (name, args) ->
            Buffer.add_string out "obs ";
            Buffer.add_string out (ocaml_string_of name);
            L.iter (fun a -> Buffer.add_char out ' '; Buffer.add_string out (token_of_arg a)) args;
            Buffer.add_char out '\n') res;
          Buffer.add_string out l; Buffer.add_char out '\n';
          print_string (Buffer.contents out); Buffer.clear out;
          cur := []
      | _ -> ()
    done
  with End_of_file -> ());
  print_string (Buffer.contents out)
