(* C02 outbound integrity, part 2: the procedures above the handler and the theorem. *)
From Coq Require Import Lia ZArith ZifyBool.
From GV Require Import Lib.Trace Model.Loop Spec.LoopSpec Proofs.LoopDataLib Proofs.LoopDataOut.
Open Scope string_scope.
Open Scope list_scope.
Open Scope Z_scope.

Notation R0 := (ROut [] [] OXNone).

Lemma ROut_xa_drop : forall W hs xa u x s, sp_of xa = None -> (forall c, xa <> OXRegd c) ->
  ROut W hs xa u x s -> ROut W hs OXNone u x s.
Proof.
  intros W hs xa u x s Hsp Hn [R1 R2 R3 R4 R5 R6 R7 R8 R9 R10 R11 R12]. constructor; auto.
  - intros c L _. apply R1; [exact L|]. rewrite Hsp. discriminate.
  - exact I.
  - intros fd c H L. destruct (R12 _ _ H L) as [Hop|Hx]; [left; exact Hop|]. exfalso. eapply Hn; eauto.
Qed.

Lemma ROut_xa_add : forall W hs xa u x s, sp_of xa = None ->
  ROut W hs OXNone u x s -> oxsem xa x s -> ROut W hs xa u x s.
Proof.
  intros W hs xa u x s Hsp [R1 R2 R3 R4 R5 R6 R7 R8 R9 R10 R11 R12] X. constructor; auto.
  - intros c L _. apply R1; [exact L|discriminate].
  - intros fd c H L. destruct (R12 _ _ H L) as [Hop|Hx]; [left; exact Hop|discriminate Hx].
Qed.

Lemma O_xa_drop : forall W hs xa w, sp_of xa = None -> (forall c, xa <> OXRegd c) ->
  OINV (ROut W hs xa) w -> OINV (ROut W hs OXNone) w.
Proof. intros. eapply Inv_weaken; [|eassumption]. intros [] x _ HR. eapply ROut_xa_drop; eauto. Qed.

Lemma O_xa_add : forall W hs xa w, sp_of xa = None ->
  (forall u x, ROut W hs OXNone u x (st w) -> oxsem xa x (st w)) ->
  OINV (ROut W hs OXNone) w -> OINV (ROut W hs xa) w.
Proof. intros. eapply Inv_weaken; [|eassumption]. intros [] x _ HR. eapply ROut_xa_add; eauto. Qed.

(* a failure marker: one more connection skipped *)
Lemma ROut_skip : forall W hs u x s cid,
  ROut W hs OXNone u x s -> ROut W hs OXNone u (mkOut (o_rest x) (cid :: o_closed x)) s.
Proof.
  intros W hs u x s cid HR.
  destruct HR as [R1 R2 R3 R4 R5 R6 R7 R8 R9 R10 R11 R12].
  assert (Hl : forall c, olive (mkOut (o_rest x) (cid :: o_closed x)) c -> olive x c).
  { unfold olive. cbn [o_closed]. intros c L. rewrite zmem_cons in L. apply orb_false_elim in L. tauto. }
  constructor; cbn [o_rest]; auto.
  - intros c Hin. cbn [o_closed]. rewrite zmem_cons, (R8 _ Hin). apply orb_true_r.
  - intros c b Hin. destruct (R9 _ _ Hin) as (A & B). split; [exact A|].
    eapply hsem_same; [| | |exact B]; auto.
  - intros fd c H L. apply Hl in L. eauto.
Qed.

Lemma O_fail : forall W hs cid w, OINV (RO W hs) w -> OINV (RO W hs) (ghost "fail" cid [] w).
Proof.
  intros W hs cid w HI. unfold ghost. eapply Inv_emit; [exact HI|reflexivity|].
  intros [] x _ HR. cbn [ustep]. cbn [out_step]. eexists. split; [reflexivity|]. apply ROut_skip. exact HR.
Qed.

Lemma O_hs_add_x : forall W hs t w,
  OINV (ROut W hs (OXOpen t)) w -> OINV (RO W ((t, false) :: hs)) w.
Proof.
  intros W hs t w HI. eapply Inv_weaken; [|exact HI]. intros [] x _ HR.
  pose proof (ro_x _ _ _ _ _ _ HR) as Ho. cbn [oxsem] in Ho.
  apply ROut_xa_drop in HR; [|reflexivity|intros c; discriminate].
  destruct HR as [R1 R2 R3 R4 R5 R6 R7 R8 R9 R10 R11 R12]. constructor; auto.
  intros c b [E|Hin]; [inversion E; subst|eauto]. split; [auto|]. intros _. left. exact Ho.
Qed.

Lemma O_hs_drop : forall W hs xa w, OINV (ROut W hs xa) w -> OINV (ROut W [] xa) w.
Proof. intros. eapply O_hs_weaken; [|eassumption]. intros c []. Qed.

Lemma el_read_inv : forall f cid recv w r w',
  OINV R0 w -> recv = 0 \/ c_opened (wc w cid) = true ->
  el_read f cid recv w = (r, w') -> OINV R0 w'.
Proof.
  induction f as [|f IH]; intros cid recv w r w' HI Hpre E; cbn [el_read] in E.
  { inversion E; subst. dsync. }
  destruct (negb (c_opened (wc w cid)) && (recv =? 0)) eqn:Eg.
  { inversion E; subst. exact HI. }
  assert (Ho : c_opened (wc w cid) = true).
  { destruct Hpre as [->|Ho]; [|exact Ho]. rewrite Z.eqb_refl, andb_true_r in Eg. destruct (c_opened _); [reflexivity|discriminate]. }
  clear Eg Hpre.
  assert (HX : OINV (ROut [] [] (OXOpen cid)) w) by (apply O_xa_add; [reflexivity|intros; exact Ho|exact HI]).
  destruct (sys "read" _ w) as [k w1] eqn:Es.
  pose proof (O_sys _ _ _ _ _ _ _ _ HX Es) as H1.
  assert (H1' : OINV R0 w1) by (eapply (O_xa_drop _ _ (OXOpen cid)); [reflexivity|intros c; discriminate|exact H1]).
  assert (Hfail : forall r w', el_close (S f) cid false (ghost "fail" cid [] w1) = (r, w') -> OINV R0 w').
  { intros r0 w0 Ec. eapply (mo_close _ (MBO_all (S f))); [|exact Ec]. apply O_fail. exact H1'. }
  destruct k as [n extra|e|].
  2:{ destruct (is_eagain e); [inversion E; subst; exact H1'|]. eapply Hfail; exact E. }
  2:{ inversion E; subst. exact H1'. }
  destruct (n =? 0) eqn:En0; [eapply Hfail; exact E|].
  destruct (negb (zlen _ =? n) || _) eqn:Ek; [inversion E; subst; dsync|].
  set (data := match extra with ABytes b :: _ => b | _ => [] end) in *.
  set (w3 := emit _ (wsetc (ghost "del" cid data w1) cid _)) in E.
  assert (H3 : OINV (RO [] [(cid, false)]) w3).
  { apply O_hs_add_x. subst w3. apply O_emit; [oign|]. apply O_wsetc_same; rewrite ?wc_ghost; auto.
    apply O_emit; [oign|exact H1]. }
  clearbody w3.
  destruct (handler (S f) cid w3) as [[act rep] w4] eqn:Eh.
  assert (Hin : In (cid, false) [(cid, false)]) by (left; reflexivity).
  pose proof (mo_handler _ (MBO_all (S f)) _ _ _ _ _ _ _ Hin H3 Eh) as H4.
  apply O_hs_drop in H4.
  destruct act.
  - destruct (c_opened (wc w4 cid)) eqn:Eo4; cbn [negb] in E; [|inversion E; subst; exact H4].
    set (w5 := wsetc w4 cid _) in E.
    assert (H5 : OINV R0 w5) by (subst w5; apply O_wsetc_same; auto).
    assert (Ho5 : c_opened (wc w5 cid) = true).
    { subst w5. unfold wc, wsetc. cbn [st with_st]. rewrite getc_setc, Z.eqb_refl. exact Eo4. }
    clearbody w5.
    destruct (c_eof (wc w5 cid) || _).
    + eapply IH; [exact H5|right; exact Ho5|exact E].
    + destruct (l_et (st w5) && _).
      * eapply O_trigger; [| |exact E]; [reflexivity|]. apply O_emit; [oign|exact H5].
      * inversion E; subst. exact H5.
  - eapply (mo_close _ (MBO_all (S f))); eauto.
  - inversion E; subst. exact H4.
Qed.

(* ------------------------------------------------------------------ *)
(* el_open *)

Lemma open_loop_inv : forall W hs cid k data w,
  OINV (ROut W hs (OXP cid data [])) w -> OINV (RO W hs) (snd (open_loop cid k data w)).
Proof.
  intros W hs cid. induction k as [|k IH]; intros data w HI; cbn [open_loop].
  { cbn [snd]. dsync. }
  destruct data as [|b0 l0].
  - destruct (sys_wr cid _ [] true w) as [kr w1] eqn:Es.
    pose proof (O_sys_wr W hs cid _ [] true [] [] [] _ _ _ eq_refl HI Es) as H1.
    destruct kr as [n ?|e|]; cbn [snd].
    + destruct H1 as [_ H1]. rewrite zdrop_nil in H1. eapply O_pend_leave; exact H1.
    + destruct (is_eagain e); cbn [snd]; [eapply O_pend_leave; exact H1|exact H1].
    + apply O_dead. exact H1.
  - set (data := b0 :: l0) in *. clearbody data.
    destruct (sys_wr cid _ data true w) as [kr w1] eqn:Es.
    pose proof (O_sys_wr _ _ _ _ _ _ _ _ [] _ _ _ (eq_sym (app_nil_r _)) HI Es) as H1.
    destruct kr as [n ?|e|].
    + destruct H1 as [_ H1]. destruct (zdrop n data) as [|b1 l1] eqn:Ed.
      * cbn [snd]. eapply O_pend_leave; exact H1.
      * apply IH. exact H1.
    + destruct (is_eagain e); cbn [snd]; [|exact H1].
      eapply O_pend_set; [| | | | |exact H1]; auto. cbn [c_set_out c_out]. intros ->. reflexivity.
    + cbn [snd]. apply O_dead. exact H1.
Qed.

Lemma ROut_opened : forall u x s cid,
  ROut [] [] (OXRegd cid) u x s ->
  ROut [] [] OXNone u x (setc s cid (c_set_opened (getc s cid) true)).
Proof.
  intros u x s cid [R1 R2 R3 R4 R5 R6 R7 R8 R9 R10 R11 R12]. destruct R10 as (X1 & X2 & X3).
  constructor; cbn [setc l_reg l_next sp_of].
  - intros c L _. rewrite getc_setc. destruct (Z.eqb_spec c cid) as [->|N]; cbn [c_set_opened c_out];
      (apply R1; [exact L|discriminate]).
  - intros c. rewrite getc_setc. destruct (Z.eqb_spec c cid) as [->|N]; auto.
  - intros c cb H. destruct (R3 _ _ H) as [A B]. split; [exact A|]. rewrite getc_setc.
    destruct (Z.eqb_spec c cid) as [->|N]; exact B.
  - intros c H. rewrite getc_setc. destruct (Z.eqb_spec c cid) as [->|N]; cbn [c_set_opened c_out]; auto.
  - intros c. rewrite getc_setc. destruct (Z.eqb_spec c cid) as [->|N]; [|auto].
    cbn [c_set_opened c_fd]. auto.
  - exact R6.
  - intros c L. rewrite getc_setc. destruct (Z.eqb_spec c cid) as [->|N]; [|auto].
    cbn [c_set_opened c_opened]. discriminate.
  - exact R8.
  - intros c b [].
  - exact I.
  - intros c. rewrite getc_setc. destruct (Z.eqb_spec c cid) as [->|N]; [|auto].
    cbn [c_set_opened c_udp c_remote]. auto.
  - intros fd c H L. rewrite getc_setc. destruct (Z.eqb_spec c cid) as [->|N]; [left; reflexivity|].
    destruct (R12 _ _ H L) as [Hop|Hx]; [left; exact Hop|]. inversion Hx. congruence.
Qed.

Lemma wc_wsetc : forall w cid c, wc (wsetc w cid c) cid = c.
Proof. intros. unfold wc, wsetc. cbn [st with_st]. rewrite getc_setc, Z.eqb_refl. reflexivity. Qed.

(* an impossible state: every later obligation is void *)
Lemma O_absurd : forall W hs xa xa' w,
  (forall u x, ROut W hs xa u x (st w) -> False) -> OINV (ROut W hs xa) w -> OINV (ROut W hs xa') w.
Proof. intros W hs xa xa' w Hf HI. eapply Inv_weaken; [|exact HI]. intros [] x _ HR. exfalso. eapply Hf; eauto. Qed.

Lemma el_open_inv : forall fuel cid w r w',
  OINV (ROut [] [] (OXRegd cid)) w -> el_open fuel cid w = (r, w') -> OINV R0 w'.
Proof.
  intros fuel cid w r w' HI E. rewrite el_open_eq in E. cbv zeta in E.
  pose proof (MBO_all fuel) as M.
  set (w2 := emit _ (wsetc w cid _)) in E.
  assert (H2 : OINV R0 w2).
  { subst w2. eapply Inv_wsetc_emit; [exact HI|reflexivity|].
    intros [] x _ HR. cbn [ustep]. exists x. split; [reflexivity|]. unfold wc. apply ROut_opened. exact HR. }
  assert (Ho2 : c_opened (wc w2 cid) = true) by (subst w2; rewrite wc_emit, wc_wsetc; reflexivity).
  clearbody w2.
  destruct (handler fuel cid w2) as [[act reply] w3] eqn:Eh.
  assert (Hin : In (cid, false) [(cid, false)]) by (left; reflexivity).
  pose proof (mo_handler _ M _ _ _ _ _ _ _ Hin (O_hs_add _ _ _ _ Ho2 H2) Eh) as H3.
  apply O_hs_drop in H3.
  destruct (c_opened (wc w3 cid)) eqn:Eo3; cbn [negb] in E.
  2:{ destruct act; inversion E; subst; exact H3. }
  match type of E with (let '(ok, w4) := ?X in _) = _ => destruct X as [ok w4] eqn:E4 end.
  assert (H4 : OINV R0 w4).
  { destruct reply as [data|]; [|inversion E4; subst; exact H3].
    destruct (c_udp (wc w3 cid)) eqn:Eu.
    - (* datagram socket: the reply is one sendto *)
      destruct (c_remote (wc w3 cid)) eqn:Er; cbn [negb andb] in E4.
      + (* opened, udp and remote: excluded by the invariant *)
        assert (HF : OINV (ROut [] [] OXFalse) w3).
        { eapply O_absurd; [|exact H3]. intros u x HR.
          pose proof (ro_ur _ _ _ _ _ _ HR cid Eo3) as Hur. unfold wc in *. rewrite Eu, Er in Hur. discriminate. }
        destruct (c_out (wc w3 cid)).
        * pose proof (open_loop_inv [] [] cid (S (List.length (inp w3))) data w3) as HL.
          rewrite E4 in HL. apply HL. eapply O_absurd; [|exact HF]. intros u x HR. exact (ro_x _ _ _ _ _ _ HR).
        * inversion E4; subst. eapply Inv_wsetc; [exact HF|]. intros [] x _ HR. destruct (ro_x _ _ _ _ _ _ HR).
      + destruct (sys "sendto" _ w3) as [k w5] eqn:Es.
        pose proof (O_sys _ _ _ _ _ _ _ _ H3 Es) as H5.
        destruct k; inversion E4; subst; exact H5.
    - cbn [andb] in E4.
      pose proof (O_sub _ _ _ data _ (opened_facts _ _ _ _ Eo3) H3) as HS.
      pose proof HS as HS'.
      set (w3' := ghost "sub" cid data w3) in *.
      assert (Hwc : wc w3' cid = wc w3 cid) by (subst w3'; rewrite !wc_ghost; reflexivity).
      clearbody w3'.
      destruct (c_out (wc w3 cid)) as [|b0 l0] eqn:Eout.
      + cbn [app] in HS'.
        pose proof (open_loop_inv [] [] cid (S (List.length (inp w3'))) data w3' HS') as HL.
        rewrite E4 in HL. exact HL.
      + inversion E4; subst. eapply O_pend_set; [| | | | |exact HS']; rewrite ?Hwc; auto. }
  clear E4.
  destruct (negb ok); [eapply (mo_close _ M); eauto|].
  match type of E with (let '(r5, w5) := ?X in _) = _ => destruct X as [r5 w5] eqn:E5 end.
  assert (H5 : OINV R0 w5).
  { destruct (c_out (wc w4 cid)); [inversion E5; subst; exact H4|].
    destruct (l_et (st w4)); [inversion E5; subst; exact H4|]. eapply O_epctl; eauto. }
  destruct r5; [|eapply (mo_close _ M); [exact H5|exact E]..].
  destruct act; try (inversion E; subst; exact H5).
  eapply (mo_close _ M); eauto.
Qed.

(* ------------------------------------------------------------------ *)
(* registration *)

Lemma ROut_set_reg : forall u x s cid fd,
  ROut [] [] (OXReg cid fd) u x s ->
  ROut [] [] (OXRegd cid) u x (set_reg s (aset fd cid (l_reg s))).
Proof.
  intros u x s cid fd [R1 R2 R3 R4 R5 R6 R7 R8 R9 R10 R11 R12]. destruct R10 as (X1 & X2 & X3 & X4).
  constructor; cbn [set_reg l_reg l_next sp_of]; auto.
  - intros c Ho. rewrite getc_set_reg in *. rewrite alookup_aset.
    destruct (Z.eqb_spec (c_fd (getc s c)) fd) as [Ef|Nf]; [|auto].
    destruct (R5 _ Ho) as [A|[_ []]]. rewrite Ef in A. congruence.
  - intros fd0 c. rewrite alookup_aset. destruct (fd0 =? fd); [intros E; inversion E; subst; exact X1|apply R6].
  - cbn [oxsem set_reg l_reg l_next]. rewrite getc_set_reg, X2, alookup_aset, Z.eqb_refl. auto.
  - intros fd0 c. rewrite alookup_aset, getc_set_reg. destruct (fd0 =? fd).
    + intros E _. inversion E; subst. right. reflexivity.
    + intros H L. destruct (R12 _ _ H L) as [Hop|Hx]; [left; exact Hop|discriminate Hx].
Qed.

Lemma ROut_release_reg : forall u x s cid fd,
  ROut [] [] (OXReg cid fd) u x s ->
  ROut [] [] OXNone u x (setc s cid (c_release (getc s cid))).
Proof.
  intros u x s cid fd [R1 R2 R3 R4 R5 R6 R7 R8 R9 R10 R11 R12]. destruct R10 as (X1 & X2 & X3 & X4).
  assert (Hrel : c_opened (c_release (getc s cid)) = false) by (unfold c_release; destruct (c_udp (getc s cid)); reflexivity).
  assert (Hno : c_opened (getc s cid) = false).
  { destruct (c_opened (getc s cid)) eqn:Eo; [|reflexivity].
    destruct (R5 _ Eo) as [A|[_ []]]. rewrite X2 in A. congruence. }
  assert (Hout : olive x cid -> c_out (c_release (getc s cid)) = c_out (getc s cid)).
  { intros L. unfold c_release. destruct (c_udp (getc s cid)) eqn:Eu; cbn [c_out]; [reflexivity|].
    symmetry. apply R7; auto. }
  constructor; cbn [setc l_reg l_next sp_of].
  - intros c L _. rewrite getc_setc. destruct (Z.eqb_spec c cid) as [->|N]; [rewrite (Hout L)|];
      (apply R1; [exact L|discriminate]).
  - intros c. rewrite getc_setc. destruct (Z.eqb_spec c cid) as [->|N]; [congruence|auto].
  - intros c cb H. destruct (R3 _ _ H) as [A B]. split; [exact A|]. rewrite getc_setc.
    destruct (Z.eqb_spec c cid) as [->|N]; [|exact B].
    unfold c_release. destruct (c_udp (getc s cid)) eqn:Eu; cbn [c_udp c_remote]; rewrite ?Eu; [exact B|reflexivity].
  - intros c H. rewrite getc_setc. destruct (Z.eqb_spec c cid) as [->|N]; [lia|auto].
  - intros c. rewrite getc_setc. destruct (Z.eqb_spec c cid) as [->|N]; [congruence|auto].
  - exact R6.
  - intros c L. rewrite getc_setc. destruct (Z.eqb_spec c cid) as [->|N]; [|auto].
    intros _ Hu. rewrite (Hout L). apply R7; auto.
    unfold c_release in Hu. destruct (c_udp (getc s cid)) eqn:Eu; cbn [c_udp] in Hu; congruence.
  - exact R8.
  - intros c b [].
  - exact I.
  - intros c. rewrite getc_setc. destruct (Z.eqb_spec c cid) as [->|N]; [congruence|auto].
  - intros fd0 c H L. rewrite getc_setc. destruct (R12 _ _ H L) as [Hop|Hx]; [|discriminate Hx].
    destruct (Z.eqb_spec c cid) as [->|N]; [congruence|left; exact Hop].
Qed.

Lemma el_register0_inv : forall fuel cid w r w',
  OINV (ROut [] [] (OXLt cid)) w -> el_register0 fuel cid w = (r, w') -> OINV R0 w'.
Proof.
  intros fuel cid w r w' HI E. unfold el_register0 in E.
  destruct (fd_in_use (st w) (c_fd (wc w cid))) eqn:Eu; [inversion E; subst; dsync|].
  set (fd := c_fd (wc w cid)) in *.
  destruct (c_udp (wc w cid) && c_remote (wc w cid)) eqn:Eur.
  - (* excluded by the invariant: every step below is void *)
    assert (HF : OINV (ROut [] [] OXFalse) w).
    { eapply O_absurd; [|exact HI]. intros u x HR. pose proof (ro_x _ _ _ _ _ _ HR) as [_ X]. unfold wc in *. congruence. }
    destruct (epctl "add" fd _ _ w) as [r1 w1] eqn:Ee.
    pose proof (O_epctl _ _ _ _ _ _ _ _ _ _ HF Ee) as H1.
    assert (Hany : forall s', OINV R0 (with_st w1 s')).
    { intros s'. eapply Inv_with_st; [exact H1|]. intros [] x _ HR. destruct (ro_x _ _ _ _ _ _ HR). }
    destruct r1; [inversion E; subst; apply Hany| | |];
      (destruct (sys "close" _ w1) as [k w2] eqn:Es; inversion E; subst;
       pose proof (O_sys _ _ _ _ _ _ _ _ H1 Es) as H2;
       eapply Inv_wsetc; [exact H2|]; intros [] x _ HR; destruct (ro_x _ _ _ _ _ _ HR)).
  - assert (HX : OINV (ROut [] [] (OXReg cid fd)) w).
    { eapply Inv_weaken; [|exact HI]. intros [] x _ HR.
      pose proof (ro_x _ _ _ _ _ _ HR) as [X1 X2].
      apply ROut_xa_add; [reflexivity|eapply (ROut_xa_drop _ _ (OXLt cid)); [reflexivity|intros c; discriminate|exact HR]|].
      cbn [oxsem]. repeat split; auto.
      unfold fd_in_use in Eu. destruct (alookup fd (l_reg (st w))); [discriminate|reflexivity]. }
    destruct (epctl "add" fd _ _ w) as [r1 w1] eqn:Ee.
    pose proof (O_epctl _ _ _ _ _ _ _ _ _ _ HX Ee) as H1.
    assert (Hreg : OINV (ROut [] [] (OXRegd cid)) (with_st w1 (set_reg (st w1) (aset fd cid (l_reg (st w1)))))).
    { eapply Inv_with_st; [exact H1|]. intros [] x _ HR. apply ROut_set_reg. exact HR. }
    assert (Hfail : forall w2 k, sys "close" [AInt fd] w1 = (k, w2) ->
              OINV R0 (wsetc w2 cid (c_release (wc w2 cid)))).
    { intros w2 k Es. pose proof (O_sys _ _ _ _ _ _ _ _ H1 Es) as H2.
      eapply Inv_wsetc; [exact H2|]. intros [] x _ HR. eapply ROut_release_reg. exact HR. }
    destruct r1.
    + eapply el_open_inv; eauto.
    + destruct (sys "close" _ w1) as [k w2] eqn:Es. inversion E; subst. eapply Hfail; eauto.
    + destruct (sys "close" _ w1) as [k w2] eqn:Es. inversion E; subst. eapply Hfail; eauto.
    + destruct (sys "close" _ w1) as [k w2] eqn:Es. inversion E; subst. eapply Hfail; eauto.
Qed.

Lemma el_wake_inv : forall fuel cid w r w',
  OINV R0 w -> el_wake fuel cid w = (r, w') -> OINV R0 w'.
Proof.
  intros fuel cid w r w' HI E. unfold el_wake in E. pose proof (MBO_all fuel) as M.
  destruct (c_opened (wc w cid)) eqn:Eo; cbn [negb orb] in E; [|inversion E; subst; exact HI].
  destruct (match alookup _ _ with None => true | Some _ => false end); [inversion E; subst; exact HI|].
  assert (H1 : OINV (RO [] [(cid, false)]) (emit (obs "cb" [ASym "traffic"; AInt cid]) w)).
  { apply O_emit; [oign|]. apply O_hs_add; assumption. }
  destruct (handler fuel cid _) as [[act rep] w2] eqn:Eh.
  assert (Hin : In (cid, false) [(cid, false)]) by (left; reflexivity).
  pose proof (mo_handler _ M _ _ _ _ _ _ _ Hin H1 Eh) as H2. apply O_hs_drop in H2.
  destruct act; try (inversion E; subst; exact H2). eapply (mo_close _ M); eauto.
Qed.

(* ------------------------------------------------------------------ *)
(* processIO: an error event drops the outbound buffer and closes at once *)

Lemma ROut_setc_dead : forall W hs u x s cid c',
  ROut W hs OXNone u x s -> zmem cid (o_closed x) = true ->
  c_fd c' = c_fd (getc s cid) -> c_opened c' = c_opened (getc s cid) -> c_udp c' = c_udp (getc s cid) ->
  c_remote c' = c_remote (getc s cid) -> c_out c' = [] ->
  ROut W hs OXNone u x (setc s cid c').
Proof.
  intros W hs u x s cid c' [R1 R2 R3 R4 R5 R6 R7 R8 R9 R10 R11 R12] Hz Hf Ho Hu Hre Hout.
  constructor; unfold olive in *; cbn [setc l_next l_reg sp_of].
  - intros c L Hsp. rewrite getc_setc. destruct (Z.eqb_spec c cid) as [->|N]; [congruence|auto].
  - intros c. rewrite getc_setc. destruct (Z.eqb_spec c cid) as [->|N]; [|auto]. rewrite Ho. auto.
  - intros c cb H. destruct (R3 _ _ H) as [A B]. split; [exact A|]. rewrite getc_setc.
    destruct (Z.eqb_spec c cid) as [->|N]; [rewrite Hu, Hre|]; exact B.
  - intros c H. rewrite getc_setc. destruct (Z.eqb_spec c cid) as [->|N]; [exact Hout|auto].
  - intros c. rewrite getc_setc. destruct (Z.eqb_spec c cid) as [->|N]; [|auto]. rewrite Ho, Hf. auto.
  - exact R6.
  - intros c L. rewrite getc_setc. destruct (Z.eqb_spec c cid) as [->|N]; [congruence|auto].
  - exact R8.
  - intros c b Hin. destruct (R9 _ _ Hin) as [A B]. split; [exact A|].
    eapply hsem_same; [| | |exact B]; auto; rewrite getc_setc; destruct (Z.eqb_spec c cid) as [->|N]; auto.
  - exact I.
  - intros c. rewrite getc_setc. destruct (Z.eqb_spec c cid) as [->|N]; [|auto]. rewrite Ho, Hu, Hre. auto.
  - intros fd c H L. rewrite getc_setc. destruct (Z.eqb_spec c cid) as [->|N]; [congruence|eauto].
Qed.

Lemma with_st_with_st : forall w a b, with_st (with_st w a) b = with_st w b.
Proof. reflexivity. Qed.

Lemma setc_set_reg : forall s cid c r, set_reg (setc s cid c) r = setc (set_reg s r) cid c.
Proof. reflexivity. Qed.

Lemma el_close_hole : forall fuel fd cid e w r w',
  alookup fd (l_reg (st w)) = Some cid ->
  OINV R0 w ->
  el_close fuel cid e (wsetc w cid (c_set_out (wc w cid) [])) = (r, w') -> OINV R0 w'.
Proof.
  intros fuel fd cid e w r w' Hreg HI E.
  set (c' := c_set_out (wc w cid) []) in *.
  destruct fuel as [|f]; cbn [el_close] in E.
  { inversion E; subst. apply Inv_dead. eapply Inv_desync.
    eapply Inv_wsetc with (R' := fun _ _ _ => True); [exact HI|auto]. }
  pose proof (MBO_all f) as M.
  rewrite wc_wsetc in E. unfold wsetc at 1 2 in E. cbn [st with_st] in E.
  change (c_opened c') with (c_opened (wc w cid)) in E. change (c_fd c') with (c_fd (wc w cid)) in E.
  cbn [setc l_reg] in E.
  assert (Hnoop : (c_opened (wc w cid) = false \/ alookup (c_fd (wc w cid)) (l_reg (st w)) = None) ->
                  OINV R0 (wsetc w cid c')).
  { intros Hg. eapply Inv_wsetc; [exact HI|]. intros [] x _ HR. unfold wc in *.
    destruct (zmem cid (o_closed x)) eqn:Ez; [apply ROut_setc_dead; auto|].
    exfalso. destruct (ro_regop _ _ _ _ _ _ HR _ _ Hreg Ez) as [Hop|Hx]; [|discriminate Hx].
    destruct (ro_reg _ _ _ _ _ _ HR _ Hop) as [A|[_ []]]. destruct Hg; congruence. }
  destruct (c_opened (wc w cid)) eqn:Eo; cbn [negb orb] in E; [|inversion E; subst; apply Hnoop; auto].
  destruct (alookup (c_fd (wc w cid)) (l_reg (st w))) as [rc|] eqn:Er; [|inversion E; subst; apply Hnoop; auto].
  set (w2 := emit _ _) in E.
  assert (H2 : OINV (RO [cid] [(cid, false)]) w2).
  { subst w2. unfold wsetc. rewrite with_st_with_st. cbn [st with_st].
    change (l_reg (setc (st w) cid c')) with (l_reg (st w)).
    eapply Inv_set_emit; [exact HI|reflexivity|].
    intros [] x _ HR. cbn [ustep]. unfold wc in *.
    destruct (ROut_close _ _ _ _ _ cid (err_sym e) HR Eo) as [x' [Ex HR']]; [congruence|].
    exists x'. split; [exact Ex|]. rewrite setc_set_reg.
    apply ROut_setc_dead; auto.
    cbn [obs out_step] in Ex. inversion Ex; subst x'. cbn [o_closed]. rewrite zmem_cons, Z.eqb_refl. reflexivity. }
  clearbody w2.
  destruct (handler f cid w2) as [[act rep] w3] eqn:Eh.
  assert (Hin : In (cid, false) [(cid, false)]) by (left; reflexivity).
  pose proof (mo_handler _ M _ _ _ _ _ _ _ Hin H2 Eh) as H3.
  pose proof (mo_drain _ M cid _ _ _ _ Hin H3) as H4.
  set (w4 := close_drain f cid w3) in *. clearbody w4.
  assert (H5 : OINV R0 (wsetc w4 cid (c_release (wc w4 cid)))).
  { eapply Inv_wsetc; [exact H4|]. intros [] x _ HR. eapply ROut_release. exact HR. }
  destruct (epctl "del" _ false false _) as [r0 w6] eqn:E6.
  pose proof (O_epctl _ _ _ _ _ _ _ _ _ _ H5 E6) as H6.
  destruct (sys "close" _ w6) as [k1 w7] eqn:E7.
  pose proof (O_sys _ _ _ _ _ _ _ _ H6 E7) as H7.
  destruct (match r0 with RNil => _ | _ => true end); [inversion E; subst; exact H7|].
  destruct act; [inversion E; subst; exact H7| |inversion E; subst; exact H7].
  eapply (mo_close _ M); eauto.
Qed.

Lemma process_io_inv : forall fuel fd cid ev w r w',
  alookup fd (l_reg (st w)) = Some cid ->
  OINV R0 w -> process_io fuel cid ev w = (r, w') -> OINV R0 w'.
Proof.
  intros fuel fd cid ev w r w' Hreg HI E. unfold process_io in E. pose proof (MBO_all fuel) as M.
  destruct (has ev (EV_ERR + EV_HUP + EV_RDHUP) && _).
  { eapply el_close_hole; eauto. }
  match type of E with (let '(r1, w1) := ?X in _) = _ => destruct X as [r1 w1] eqn:E1 end.
  assert (H1 : OINV R0 w1).
  { destruct (has ev (EV_OUT + EV_ERR + EV_HUP)); [|inversion E1; subst; exact HI]. eapply (mo_elwrite _ M); eauto. }
  destruct r1; try (inversion E; subst; exact H1).
  match type of E with (let '(r2, w2) := ?X in _) = _ => destruct X as [r2 w2] eqn:E2 end.
  assert (H2 : OINV R0 w2).
  { destruct (has ev (EV_IN + EV_PRI + EV_ERR + EV_HUP)); [|inversion E2; subst; exact H1].
    eapply el_read_inv; [exact H1|left; reflexivity|exact E2]. }
  destruct r2; try (inversion E; subst; exact H2).
  destruct (has ev EV_RDHUP && c_opened (wc w2 cid)); [|inversion E; subst; exact H2].
  destruct (negb (has ev EV_IN)).
  - eapply (mo_close _ M); eauto.
  - eapply el_read_inv; [|left; reflexivity|exact E]. apply O_wsetc_same; auto.
Qed.

(* ------------------------------------------------------------------ *)
(* datagrams *)

Lemma ROut_udp_ident : forall u x s c,
  ROut [] [] OXNone u x s -> c_opened c = false -> c_out c = [] -> c_udp c = true ->
  ROut [] [(l_next s, true)] OXNone u x (set_next (setc s (l_next s) c) (l_next s + 1)).
Proof.
  intros u x s c HR Ho Hout Hu.
  pose proof (ROut_fresh _ _ _ _ _ _ c HR Ho Hout) as HF.
  destruct HF as [R1 R2 R3 R4 R5 R6 R7 R8 R9 R10 R11 R12]. constructor; auto.
  intros c0 b [E|[]]. inversion E; subst. cbn [set_next l_next]. split; [lia|].
  unfold hsem. rewrite getc_set_next, getc_setc, Z.eqb_refl. auto.
Qed.

Lemma ROut_release_udp : forall u x s cid,
  ROut [] [(cid, true)] OXNone u x s ->
  ROut [] [] OXNone u x (setc s cid (c_release (getc s cid))).
Proof.
  intros u x s cid HR.
  destruct (ro_hs _ _ _ _ _ _ HR cid true (or_introl eq_refl)) as [Hlt [Hu Ho]].
  assert (Hrel : c_release (getc s cid) = c_set_buf (c_set_eof (getc s cid) false) []).
  { unfold c_release. rewrite Hu. unfold c_set_buf, c_set_eof. cbn. rewrite ?Ho, ?Hu. reflexivity. }
  rewrite Hrel. eapply ROut_hs_weaken with (hs := [(cid, true)]); [intros c0 []|].
  apply ROut_setc; auto.
Qed.

(* a registered connection that is not skipped is open *)
Lemma O_hs_add_reg : forall fd cid w, alookup fd (l_reg (st w)) = Some cid ->
  OINV R0 w -> OINV (RO [] [(cid, false)]) w.
Proof.
  intros fd cid w Hreg HI. eapply Inv_weaken; [|exact HI]. intros [] x _ HR.
  pose proof (ro_reglt _ _ _ _ _ _ HR _ _ Hreg) as Hlt.
  pose proof (ro_regop _ _ _ _ _ _ HR _ _ Hreg) as Hop.
  destruct HR as [R1 R2 R3 R4 R5 R6 R7 R8 R9 R10 R11 R12]. constructor; auto.
  intros c b [E|[]]. inversion E; subst. split; [exact Hlt|]. intros L.
  destruct (Hop L) as [Ho|Hx]; [left; exact Ho|discriminate Hx].
Qed.

Lemma el_read_udp_inv : forall fuel fd is_listener w r w',
  OINV R0 w -> el_read_udp fuel fd is_listener w = (r, w') -> OINV R0 w'.
Proof.
  intros fuel fd is_listener w r w' HI E. unfold el_read_udp in E. pose proof (MBO_all fuel) as M.
  destruct (sys "recvfrom" _ w) as [k w1] eqn:Es.
  pose proof (O_sys _ _ _ _ _ _ _ _ HI Es) as H1.
  destruct k as [n extra|e|]; [|destruct (is_eagain e); inversion E; subst; exact H1|inversion E; subst; exact H1].
  destruct (negb _ || _ || _); [inversion E; subst; dsync|].
  set (data := match extra with ABytes b :: _ => b | _ => [] end) in *.
  destruct is_listener.
  2:{ destruct (alookup fd (l_reg (st w1))) as [cid|] eqn:Er; [|inversion E; subst; dsync].
      set (w3 := emit _ (wsetc (ghost "udpconn" cid [] w1) cid _)) in E.
      assert (H3 : OINV (RO [] [(cid, false)]) w3).
      { subst w3. apply O_emit; [oign|]. apply O_wsetc_same; rewrite ?wc_ghost; auto.
        apply O_emit; [oign|]. eapply O_hs_add_reg; eauto. }
      clearbody w3.
      destruct (handler fuel cid w3) as [[act rep] w4] eqn:Eh.
      assert (Hin : In (cid, false) [(cid, false)]) by (left; reflexivity).
      pose proof (mo_handler _ M _ _ _ _ _ _ _ Hin H3 Eh) as H4. apply O_hs_drop in H4.
      destruct act; inversion E; subst; exact H4. }
  set (w3 := emit _ (with_st w1 _)) in E.
  assert (H3 : OINV (RO [] [(l_next (st w1), true)]) w3).
  { subst w3. apply O_emit; [oign|].
    eapply Inv_with_st; [exact H1|]. intros [] x _ HR. apply ROut_udp_ident; auto. }
  set (cid := l_next (st w1)) in *. clearbody w3.
  destruct (handler fuel cid w3) as [[act rep] w4] eqn:Eh.
  assert (Hin : In (cid, true) [(cid, true)]) by (left; reflexivity).
  pose proof (mo_handler _ M _ _ _ _ _ _ _ Hin H3 Eh) as H4.
  assert (H5 : OINV R0 (wsetc w4 cid (c_release (wc w4 cid)))).
  { eapply Inv_wsetc; [exact H4|]. intros [] x _ HR. apply ROut_release_udp. exact HR. }
  destruct act; inversion E; subst; exact H5.
Qed.

Lemma el_accept_inv : forall fuel lfd is_udp w r w',
  OINV R0 w -> el_accept fuel lfd is_udp w = (r, w') -> OINV R0 w'.
Proof.
  intros fuel lfd is_udp w r w' HI E. unfold el_accept in E.
  destruct is_udp; [eapply el_read_udp_inv; eauto|].
  destruct (sys "accept" _ w) as [k w1] eqn:Es.
  pose proof (O_sys _ _ _ _ _ _ _ _ HI Es) as H1.
  destruct k as [nfd extra|e|]; [|destruct (_ || _); inversion E; subst; exact H1|inversion E; subst; exact H1].
  destruct (fd_in_use (st w1) nfd); [inversion E; subst; dsync|].
  eapply el_register0_inv; [|exact E].
  eapply Inv_with_st; [exact H1|]. intros [] x _ HR.
  apply ROut_xa_add; [reflexivity|apply ROut_fresh; auto|].
  cbn [oxsem set_next l_next]. split; [lia|]. rewrite getc_set_next, getc_setc, Z.eqb_refl. reflexivity.
Qed.

Lemma dispatch_inv : forall fuel fd ev w r w',
  OINV R0 w -> dispatch fuel fd ev w = (r, w') -> OINV R0 w'.
Proof.
  intros fuel fd ev w r w' HI E. unfold dispatch in E.
  destruct (alookup fd (l_reg (st w))) as [cid|] eqn:Er.
  - destruct (polopt (st w) && c_udp (wc w cid)); [eapply el_read_udp_inv; eauto|].
    eapply process_io_inv; eauto.
  - destruct (alookup fd (l_listeners (st w))) as [is_udp|].
    + eapply el_accept_inv; eauto.
    + destruct (polopt (st w)); [inversion E; subst; exact HI|]. eapply O_epctl; eauto.
Qed.

(* ------------------------------------------------------------------ *)
(* tasks, events, polling *)

Definition xa_of (t : task) : oxa := match t with TRegister cid _ => OXLt cid | _ => OXNone end.

Lemma run_task_inv : forall fuel t w r w',
  OINV (ROut [] [] (xa_of t)) w -> run_task fuel t w = (r, w') -> OINV R0 w'.
Proof.
  intros fuel t w r w' HI E. pose proof (MBO_all fuel) as M.
  destruct t as [cid cb|cid d cb|cid sg cb|cid cb|cid cb|cid|cid| |]; cbn [run_task xa_of] in *.
  - destruct (el_register0 fuel cid w) as [r1 w1] eqn:E1.
    pose proof (el_register0_inv _ _ _ _ _ HI E1) as H1. inversion E; subst.
    destruct cb; [apply O_emit; [oign|exact H1]|exact H1].
  - destruct (negb (c_opened (wc w cid))).
    + inversion E; subst. destruct cb; [apply O_emit; [oign|exact HI]|exact HI].
    + destruct (conn_write fuel cid d w) as [[n ok] w1] eqn:E1.
      pose proof (mo_write _ M _ _ _ _ _ _ _ HI E1) as H1. inversion E; subst.
      destruct cb; [apply O_emit; [oign|exact H1]|exact H1].
  - destruct (negb (c_opened (wc w cid))).
    + inversion E; subst. destruct cb; [apply O_emit; [oign|exact HI]|exact HI].
    + destruct (conn_writev fuel cid sg w) as [[n ok] w1] eqn:E1.
      pose proof (mo_writev _ M _ _ _ _ _ _ _ HI E1) as H1. inversion E; subst.
      destruct cb; [apply O_emit; [oign|exact H1]|exact H1].
  - destruct (el_wake fuel cid w) as [r1 w1] eqn:E1.
    pose proof (el_wake_inv _ _ _ _ _ HI E1) as H1. inversion E; subst.
    destruct cb; [apply O_emit; [oign|exact H1]|exact H1].
  - destruct (el_close fuel cid true w) as [r1 w1] eqn:E1.
    pose proof (mo_close _ M _ _ _ _ _ _ _ HI E1) as H1. inversion E; subst.
    destruct cb; [apply O_emit; [oign|exact H1]|exact H1].
  - eapply el_read_inv; [exact HI|left; reflexivity|exact E].
  - eapply (mo_elwrite _ M); eauto.
  - inversion E; subst. apply O_emit; [oign|exact HI].
  - inversion E; subst. exact HI.
Qed.

Lemma ROut_dequeue : forall u x s t u' lo' f,
  ROut [] [] OXNone u x s -> In t (tasks s) ->
  (forall y, In y (u' ++ lo') -> In y (tasks s)) ->
  ROut [] [] (xa_of t) u x (set_queues s u' lo' f).
Proof.
  intros u x s t u' lo' f HR Hin Hsub.
  assert (HX : oxsem (xa_of t) x (set_queues s u' lo' f)).
  { destruct t; cbn [xa_of oxsem]; auto. cbn [set_queues l_next]. rewrite getc_set_queues.
    eapply (ro_task _ _ _ _ _ _ HR); eauto. }
  apply ROut_xa_add; [destruct t; reflexivity| |exact HX].
  eapply ROut_frame; [exact HR| | | |]; auto.
Qed.

Lemma drain_urgent_inv : forall fuel w r w',
  OINV R0 w -> drain_urgent fuel w = (r, w') -> OINV R0 w'.
Proof.
  induction fuel as [|f IH]; intros w r w' HI E; cbn [drain_urgent] in E.
  { inversion E; subst. dsync. }
  destruct (halt w); [inversion E; subst; exact HI|].
  destruct (l_urgent (st w)) as [|t rest] eqn:Eq; [inversion E; subst; exact HI|].
  set (w1 := with_st w _) in E.
  assert (H1 : OINV (ROut [] [] (xa_of t)) w1).
  { subst w1. eapply Inv_with_st; [exact HI|]. intros [] x _ HR. apply ROut_dequeue; [exact HR| |].
    - unfold tasks. rewrite Eq. left. reflexivity.
    - intros y Hy. unfold tasks. rewrite Eq. apply in_app_iff in Hy. apply in_app_iff. cbn [In]. tauto. }
  clearbody w1.
  destruct (run_task f t w1) as [r1 w2] eqn:Er.
  pose proof (run_task_inv _ _ _ _ _ H1 Er) as H2.
  destruct r1; try (eapply IH; [exact H2|exact E]).
  inversion E; subst. exact H2.
Qed.

Lemma drain_low_inv : forall fuel k w r w',
  OINV R0 w -> drain_low fuel k w = (r, w') -> OINV R0 w'.
Proof.
  induction fuel as [|f IH]; intros k w r w' HI E; cbn [drain_low] in E.
  { inversion E; subst. dsync. }
  destruct (halt w); [inversion E; subst; exact HI|].
  destruct (k <=? 0); [inversion E; subst; exact HI|].
  destruct (l_low (st w)) as [|t rest] eqn:Eq; [inversion E; subst; exact HI|].
  set (w1 := with_st w _) in E.
  assert (H1 : OINV (ROut [] [] (xa_of t)) w1).
  { subst w1. eapply Inv_with_st; [exact HI|]. intros [] x _ HR. apply ROut_dequeue; [exact HR| |].
    - unfold tasks. rewrite Eq. apply in_app_iff. right. left. reflexivity.
    - intros y Hy. unfold tasks. rewrite Eq. apply in_app_iff in Hy. apply in_app_iff. cbn [In]. tauto. }
  clearbody w1.
  destruct (run_task f t w1) as [r1 w2] eqn:Er.
  pose proof (run_task_inv _ _ _ _ _ H1 Er) as H2.
  destruct r1; try (eapply IH; [exact H2|exact E]).
  inversion E; subst. exact H2.
Qed.

Lemma chores_inv : forall fuel w r w',
  OINV R0 w -> chores fuel w = (r, w') -> OINV R0 w'.
Proof.
  intros fuel w r w' HI E. unfold chores in E.
  destruct (drain_urgent fuel w) as [r1 w1] eqn:E1.
  pose proof (drain_urgent_inv _ _ _ _ HI E1) as H1.
  assert (Hrest :
    match drain_low fuel (l_maxlow (st w1)) w1 with
    | (RShutdown, w2) => (RShutdown, w2)
    | (_, w2) =>
      let s := set_flag (st w2) false in
      match l_urgent s, l_low s with
      | [], [] => (RNil, with_st w2 s)
      | _, _ => let '(_, w3) := efd_write (S (List.length (inp w2))) (with_st w2 (set_flag s true)) in (RNil, w3)
      end
    end = (r, w') -> OINV R0 w').
  { intros E2. destruct (drain_low fuel _ w1) as [r2 w2] eqn:E3.
    pose proof (drain_low_inv _ _ _ _ _ H1 E3) as H2.
    assert (Hfin :
      (let s := set_flag (st w2) false in
       match l_urgent s, l_low s with
       | [], [] => (RNil, with_st w2 s)
       | _, _ => let '(_, w3) := efd_write (S (List.length (inp w2))) (with_st w2 (set_flag s true)) in (RNil, w3)
       end) = (r, w') -> OINV R0 w').
    { intros E4. cbv zeta in E4.
      assert (Hf : forall f, OINV R0 (with_st w2 (set_flag (st w2) f))).
      { intros f. eapply Inv_with_st; [exact H2|]. intros [] x _ HR. apply ROut_flag. exact HR. }
      assert (Hw : forall r3 w3, efd_write (S (List.length (inp w2))) (with_st w2 (set_flag (set_flag (st w2) false) true)) = (r3, w3) ->
                  OINV R0 w3).
      { intros r3 w3 E5. eapply O_efd_write; [|exact E5]. apply (Hf true). }
      destruct (l_urgent (set_flag (st w2) false)); [destruct (l_low (set_flag (st w2) false))|].
      - inversion E4; subst. apply Hf.
      - destruct (efd_write _ _) as [r3 w3] eqn:E5. inversion E4; subst. eapply Hw; eauto.
      - destruct (efd_write _ _) as [r3 w3] eqn:E5. inversion E4; subst. eapply Hw; eauto. }
    destruct r2; try (apply Hfin; exact E2).
    inversion E2; subst. exact H2. }
  destruct r1; try (apply Hrest; exact E).
  inversion E; subst. exact H1.
Qed.

Lemma events_inv_n : forall fuel n evs, (List.length evs <= n)%nat -> forall b w r b' w',
  OINV R0 w -> events fuel evs b w = (r, b', w') -> OINV R0 w'.
Proof.
  intros fuel. induction n as [|n IH]; intros evs Hlen b w r b' w' HI E.
  - destruct evs; [|cbn in Hlen; lia]. cbn [events] in E. inversion E; subst. exact HI.
  - destruct evs as [|[fd|?|?] [|[ev|?|?] rest]]; cbn [events] in E;
      try (inversion E; subst; exact HI).
    destruct (halt w); [inversion E; subst; exact HI|].
    assert (Hlt : (List.length rest <= n)%nat) by (cbn in Hlen; lia).
    destruct (fd =? l_efd (st w)); [eapply IH; eauto|].
    destruct (dispatch fuel fd ev w) as [r1 w1] eqn:Ed.
    pose proof (dispatch_inv _ _ _ _ _ _ HI Ed) as H1.
    destruct r1; try (eapply IH; [exact Hlt|exact H1|exact E]); inversion E; subst; exact H1.
Qed.

Lemma close_conns_inv : forall fuel w, OINV R0 w -> OINV R0 (close_conns fuel w).
Proof.
  induction fuel as [|f IH]; intros w HI; [cbn; dsync|]. rewrite close_conns_eq.
  destruct (halt w); [exact HI|]. destruct (l_reg (st w)); [exact HI|].
  destruct (pull_gen true w) as [[[name args]|] w1] eqn:Ep.
  - pose proof (O_pull _ _ _ _ _ _ _ HI Ep) as H1.
    destruct (String.eqb name "pick"); [|dsync].
    destruct args as [|[cid|?|?] [|]]; try dsync.
    destruct (el_close f cid true w1) as [r2 w2] eqn:Ec.
    apply IH. eapply (mo_close _ (MBO_all f)); eauto.
  - eapply O_pull; eauto.
Qed.

Lemma polling_inv : forall fuel w, OINV R0 w -> OINV R0 (polling fuel w).
Proof.
  induction fuel as [|f IH]; intros w HI; [cbn; dsync|]. rewrite polling_eq. cbv zeta.
  assert (H00 : OINV R0 (emit ("g", [ASym "count"; AInt (zlen (l_reg (st w))); ABytes []]) w))
    by (apply O_emit; [oign|exact HI]).
  set (wc0 := emit ("g", [ASym "count"; AInt (zlen (l_reg (st w))); ABytes []]) w) in *.
  pose proof (Inv_pending_ign ustep out_step tt _ _ (l_reg (st wc0)) wc0 ltac:(intros; oign) H00) as H0.
  unfold pending_fold in H0. clearbody wc0.
  destruct (pull _) as [[[name evs]|] w1] eqn:Ep.
  2:{ eapply O_pull; eauto. }
  pose proof (O_pull _ _ _ _ _ _ _ H0 Ep) as H1.
  destruct (String.eqb name "wait"); [|dsync].
  destruct (events f evs false w1) as [[r b] w2] eqn:Ee.
  pose proof (events_inv_n _ _ _ (le_n _) _ _ _ _ _ H1 Ee) as H2.
  assert (Hch : OINV R0
     (match chores f w2 with (RShutdown, w3) => close_conns f w3 | (_, w3) => polling f w3 end)).
  { destruct (chores f w2) as [r3 w3] eqn:Ec.
    pose proof (chores_inv _ _ _ _ H2 Ec) as H3.
    destruct r3; try (apply IH; exact H3). apply close_conns_inv. exact H3. }
  destruct r; try (apply close_conns_inv; exact H2);
    (destruct b; [apply Hch|apply IH; exact H2]).
Qed.

(* ------------------------------------------------------------------ *)
(* the theorem *)

Lemma ROut_init : forall s, l_conns s = [] -> l_reg s = [] -> l_urgent s = [] -> l_low s = [] ->
  ROut [] [] OXNone tt (mkOut [] []) s.
Proof.
  intros s Hc Hr Hu Hl.
  assert (Hg : forall cid, getc s cid = dummy_conn) by (intros; unfold getc; rewrite Hc; reflexivity).
  constructor; unfold olive; cbn [o_rest o_closed]; intros; rewrite ?Hg, ?Hr in *; cbn in *; auto; try discriminate.
  all: try (unfold tasks in *; rewrite Hu, Hl in *; cbn in *; tauto).
  all: try contradiction.
Qed.

Theorem outbound_holds : forall i t, run_history i = Some t -> outbound_ok t = true.
Proof.
  intros i t E. unfold run_history in E. destruct (init_world i) as [w0|] eqn:Ei; [|discriminate].
  inversion E; subst t. clear E.
  destruct (init_world_spec _ _ Ei) as (Hlog & Hh & Hc & Hr & Hu & Hl & Hn).
  assert (H0 : OINV R0 w0).
  { unfold Inv. rewrite Hlog. cbn [rev run]. right. apply ROut_init; assumption. }
  pose proof (polling_inv (init_fuel i) w0 H0) as HF.
  apply Inv_check in HF. unfold outbound_ok.
  eapply check_cstep; [exact HF|]. apply check_total. intros h e. discriminate.
Qed.
