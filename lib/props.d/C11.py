PROP = dict(
    drivers=[dict(cmd="drv-llist", family="llist")],
    rule="operation sequences of length 1..60 over PushBack/PushFront/Append(make|AllocNode)/caller-write/Read/Peek/"
         "PeekWithBytes/Pop/Discard/ReadFrom/WriteTo/Reset/AllocNode on one linkedlist.Buffer; segment sizes 0, 1, "
         "511..513, 600..1025, non-powers of two, random 1..40; read/peek/discard amounts at node boundaries +-1, "
         "inside the first three nodes, total +-1; reader scripts with short reads, data+EOF, error after partial "
         "transfer, (0,nil), negative count; writer scripts with short writes, error mid-node / at node end, over-count; "
         "the caller overwrites its buffers after PushBack/PushFront/Append; a case is non-trivial when it reaches one of "
         "the driver's branch-class tags; distinct by hash of its op lines",
    trusted=["pointer structure head/tail/next of linkedlist.Buffer abstracted to a Gallina list (pop/pushFront/pushBack on lists)"],
    assumptions=["memory obtained from pkg/pool/byteslice is referenced by nobody but the buffer (that is C12); "
                 "io.Reader returns 0 <= n <= len(p), io.Writer returns 0 <= n <= len(p)"],
)
