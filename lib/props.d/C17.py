PROP = dict(
    # the zone string itod returns aliases a pooled buffer: the model's value semantics needs "sockaddr.go never Puts"
    gens=[dict(tool="gensockpool", out="GenSockPool.v", args=["{repo}"])],
    drivers=[dict(cmd="drv-sockaddr", family="sockaddr", netns=True)],
    rule="conversion part: 10^4 seeded random IPv4 / IPv6 / v4-in-v6 / nil addresses x zone pool (interface names and "
         "indices of this machine, free indices incl. 9999, 16777214, >= 0xFFFFFF, malformed zones) x boundary and random "
         "ports, there-and-back in both directions; every port 0..65535; itod 0..19999 + decimal boundaries + random "
         "uint64; dtoi on digit strings with junk; To4/To16/Equal and IPToSockaddr on every length 0..20; unsupported "
         "networks and foreign types; Unix paths (empty, abstract, 107/108 bytes, binary); listen-side GetTCPSockAddr/"
         "GetUDPSockAddr; stability: converted addresses / zone strings (numeric fallback zones, named zones, v4, unix) are "
         "kept alive, the byte-slice pool (every size 1..64, filled with 'x'), linked-list buffers and further itod calls "
         "are churned, and every kept value is re-read (`recheck`, predicted by the model and judged by the oracle "
         "addr-stability); a phase inside a private network namespace (unshare(CLONE_NEWNET) on a locked thread) with "
         "interfaces named 6to4, 7, 12ab, 5(index 5), 3, 007, 16777216, 0, 6in4-wan, 9x, 40(index 40): every zone "
         "string/index both directions, that namespace's table given to the model (skipped, not failed, without "
         "privilege or `ip`). A case is a batch of ops over the machine's interface table (given to the model as `if` op "
         "lines); non-trivial when it reaches one of the generator classes; distinct by hash of its op lines. "
         "Integration part: real gnet servers (tcp4 reactors, tcp4 reuseport+ET, tcp6 ::1, tcp6 link-local with zone, "
         "dual-stack wildcard, port 0, unix with bound/unbound/abstract clients, udp4, udp6), 300 churning + 12 "
         "long-lived connections each; every callback compares RemoteAddr/LocalAddr with the peer's own view and with "
         "the values seen at OnOpen (oracle only, no model prediction).",
    trusted=["translator harness/cmd/gensockpool (go/ast: uses of pkg/pool/byteslice in pkg/socket/sockaddr.go)",
             "net.IP.To4/To16/Equal, net.InterfaceByName/ByIndex and golang.org/x/sys/unix sockaddr (de)serialisation are "
             "modelled/assumed, not verified",
             "the kernel reports truthful peer addresses (accept4/recvfrom/getsockname)"],
    assumptions=["the OS interface table is a finite partial bijection name<->index that does not change during a run",
                 "interface indices are < 0xFFFFFF (the constant `big` copied from package net); beyond it a numeric zone "
                 "without interface is dropped - stated and proved as C17_zone_index_ge_big_dropped, recorded as known finding",
                 "lifetime clause: proved on a small address-store model (churn on other connections cannot change a stored "
                 "address); exclusivity of the backing memory is C12's obligation, the event-loop model (C01/C04) owns addr_stable"],
)
