(* C01 -- inbound stream integrity.  Statements only; proofs in Proofs/LoopData.v. *)
From GV Require Import Lib.Trace Model.Loop Spec.LoopSpec Proofs.LoopData.
Open Scope Z_scope.

(* For every input stream: what Read/Next/Peek/WriteTo hand to the handler is always the
   front of the bytes the kernel delivered for that connection and that were not consumed
   yet (no loss, duplication, reordering or alteration, whatever the segmentation and
   whatever the handler consumes); Discard advances by what it reports; InboundBuffered
   is the length of the unconsumed rest; every delivery is offered to OnTraffic at once
   (so all data precedes the OnClose caused by end of stream). *)
Theorem C01_inbound_integrity : forall i t, run_history i = Some t -> inbound_ok t = true.
Proof. exact inbound_holds. Qed.
Print Assumptions C01_inbound_integrity.
