(* The inductive invariant of the MS-queue model (DESIGN.md Appendix A.4):
   chain_inv + the ghost history replays to the abstract queue + length lag +
   per-thread facts ("every local pointer is on the chain at an index not
   beyond the shared index it was read from") + the history automaton phase
   of every thread matches its program counter. *)
From GV Require Import Lib.Trace Lib.Interleave Spec.AtomicQueue Model.MSQueue Proofs.MSQueueBase.
From Coq Require Import Lia Arith.
Open Scope Z_scope.
Open Scope list_scope.

(* ---- per-thread facts ---- *)
Definition pre_link (s : gstate) (t : tid) (th : thread) : Prop :=
  exists n, l_n th = Some n /\ ~ In n (g_chain s) /\
            nth_error (heap s) n = Some (mkNode (t_val th) None) /\
            tphase t (g_hist s) = PEnqCalled n (t_val th).

Definition tail_at (s : gstate) (th : thread) (i : nat) : Prop :=
  exists p, l_tail th = Some p /\ nth_error (g_chain s) i = Some p /\ (i <= g_t s)%nat.

Definition head_at (s : gstate) (th : thread) (j : nat) : Prop :=
  exists p, l_head th = Some p /\ nth_error (g_chain s) j = Some p /\ (j <= g_h s)%nat.

Definition in_deq (s : gstate) (t : tid) : Prop := exists b, tphase t (g_hist s) = PDeqCalled b.

Definition next_known (s : gstate) (th : thread) (i : nat) : Prop :=
  l_next th = None \/ l_next th = nth_error (g_chain s) (S i).

Definition next_is (s : gstate) (th : thread) (i : nat) : Prop :=
  exists nx, l_next th = Some nx /\ nth_error (g_chain s) (S i) = Some nx.

Definition thread_inv (s : gstate) (t : tid) (th : thread) : Prop :=
  match t_pc th with
  | Idle => tphase t (g_hist s) = PIdle
  | Crashed => False
  | E1 => pre_link s t th
  | E2 => pre_link s t th /\ exists i, tail_at s th i
  | E3 => pre_link s t th /\ exists i, tail_at s th i /\ next_known s th i
  | E4 => pre_link s t th /\ exists i, tail_at s th i /\ l_next th = None
  | E7 => pre_link s t th /\ exists i, tail_at s th i /\ next_is s th i
  | E5 => exists n i, l_n th = Some n /\ tail_at s th i /\ nth_error (g_chain s) (S i) = Some n /\
                      tphase t (g_hist s) = PEnqLinked n (t_val th)
  | E6 => exists n, tphase t (g_hist s) = PEnqLinked n (t_val th)
  | D1 => in_deq s t
  | D2 => in_deq s t /\ exists j, head_at s th j
  | D3 => in_deq s t /\ exists j i, head_at s th j /\ tail_at s th i /\ (j <= i)%nat
  | D4 => in_deq s t /\ exists j i, head_at s th j /\ tail_at s th i /\ (j <= i)%nat /\
            next_known s th j /\
            ((j < i)%nat -> l_next th = nth_error (g_chain s) (S j)) /\
            (l_next th = None -> j = g_h s -> tphase t (g_hist s) = PDeqCalled true)
  | D5 => in_deq s t /\ exists i, tail_at s th i /\ next_is s th i
  | D6 => in_deq s t /\ exists j, head_at s th j /\ next_is s th j /\ (S j <= g_t s)%nat /\
            exists nx nd, l_next th = Some nx /\ nth_error (heap s) nx = Some nd /\ n_val nd = l_task th
  | D7 => tphase t (g_hist s) = PDeqTaken (l_task th)
  end.

Record Inv (s : gstate) : Prop := {
  inv_chain : chain_inv s;
  inv_replay : replay (g_hist s) = Some (absq_items s);
  inv_len : len s = wrap_i32 (Z.of_nat (List.length (absq_items s)) + total_lag s);
  inv_threads : forall t, thread_inv s t (get_thread (threads s) t);
  inv_enqs : g_chain s = O :: map fst (enqs (g_hist s));
  inv_ids : NoDup (call_ids (g_hist s)) /\
            forall n, In n (call_ids (g_hist s)) -> (n < List.length (heap s))%nat
}.

(* ---- what a step of thread t may do to the part of the state other threads rely on ---- *)
Record frame (s s' : gstate) (t : tid) : Prop := {
  fr_chain : g_chain s' = g_chain s \/
             exists n v, g_chain s' = g_chain s ++ [n] /\ tphase t (g_hist s) = PEnqCalled n v;
  fr_h : (g_h s <= g_h s')%nat;
  fr_t : (g_t s <= g_t s')%nat;
  fr_hist : g_hist s' = g_hist s \/ exists e, g_hist s' = e :: g_hist s /\ ev_tid e = t;
  fr_heap : forall n nd, nth_error (heap s) n = Some nd ->
            exists nd', nth_error (heap s') n = Some nd' /\ n_val nd' = n_val nd /\
                        (~ In n (g_chain s) -> nd' = nd)
}.

Lemma frame_pos : forall s s' t i p, frame s s' t ->
  nth_error (g_chain s) i = Some p -> nth_error (g_chain s') i = Some p.
Proof.
  intros s s' t i p F H. destruct (fr_chain _ _ _ F) as [E|[n [v [E _]]]]; rewrite E; auto.
  apply nth_error_app_l; exact H.
Qed.

Lemma frame_tphase : forall s s' t t', frame s s' t -> t' <> t ->
  tphase t' (g_hist s') = tphase t' (g_hist s).
Proof.
  intros s s' t t' F Hne. destruct (fr_hist _ _ _ F) as [E|[e [E Ht]]]; rewrite E; auto.
  apply tphase_cons_other. congruence.
Qed.

Lemma frame_tail_at : forall s s' t th i, frame s s' t -> tail_at s th i -> tail_at s' th i.
Proof.
  intros s s' t th i F [p [H1 [H2 H3]]]. exists p. splits; auto.
  - eapply frame_pos; eauto.
  - pose proof (fr_t _ _ _ F). lia.
Qed.

Lemma frame_head_at : forall s s' t th j, frame s s' t -> head_at s th j -> head_at s' th j.
Proof.
  intros s s' t th j F [p [H1 [H2 H3]]]. exists p. splits; auto.
  - eapply frame_pos; eauto.
  - pose proof (fr_h _ _ _ F). lia.
Qed.

Lemma frame_next_known : forall s s' t th i, frame s s' t -> next_known s th i -> next_known s' th i.
Proof.
  intros s s' t th i F [H|H]; [left; exact H|].
  destruct (nth_error (g_chain s) (S i)) as [x|] eqn:E.
  - right. rewrite H. symmetry. eapply frame_pos; eauto.
  - left. exact H.
Qed.

Lemma frame_next_is : forall s s' t th i, frame s s' t -> next_is s th i -> next_is s' th i.
Proof.
  intros s s' t th i F [nx [H1 H2]]. exists nx. split; auto. eapply frame_pos; eauto.
Qed.

Lemma frame_in_deq : forall s s' t t', frame s s' t -> t' <> t -> in_deq s t' -> in_deq s' t'.
Proof. intros s s' t t' F Hne [b H]. exists b. rewrite (frame_tphase _ _ _ _ F Hne). exact H. Qed.

Lemma frame_pre_link : forall s s' t t' th, frame s s' t -> t' <> t ->
  NoDup (call_ids (g_hist s)) -> pre_link s t' th -> pre_link s' t' th.
Proof.
  intros s s' t t' th F Hne Hnd [n [H1 [H2 [H3 H4]]]]. exists n. splits; auto.
  - destruct (fr_chain _ _ _ F) as [E|[n0 [v [E P]]]]; rewrite E; auto.
    intro Hin. apply in_app_or in Hin. destruct Hin as [Hin|[Hin|[]]]; [contradiction|]. subst n0.
    apply tphase_called_in in P. apply tphase_called_in in H4.
    destruct (call_ids_unique _ _ _ _ _ _ Hnd P H4). congruence.
  - destruct (fr_heap _ _ _ F _ _ H3) as [nd' [A [_ B]]]. rewrite A, (B H2). reflexivity.
  - rewrite (frame_tphase _ _ _ _ F Hne). exact H4.
Qed.

Lemma thread_inv_frame : forall s s' t t' th, frame s s' t -> t' <> t ->
  NoDup (call_ids (g_hist s)) -> thread_inv s t' th -> thread_inv s' t' th.
Proof.
  intros s s' t t' th F Hne Hnd H. unfold thread_inv in *.
  pose proof (frame_tphase _ _ _ _ F Hne) as TP.
  destruct (t_pc th); try rewrite TP; auto.
  - eapply frame_pre_link; eauto.
  - destruct H as [P [i T]]. split; [eapply frame_pre_link; eauto|]. exists i. eapply frame_tail_at; eauto.
  - destruct H as [P [i [T N]]]. split; [eapply frame_pre_link; eauto|]. exists i.
    split; [eapply frame_tail_at|eapply frame_next_known]; eauto.
  - destruct H as [P [i [T N]]]. split; [eapply frame_pre_link; eauto|]. exists i.
    split; [eapply frame_tail_at; eauto|exact N].
  - destruct H as [n [i [A [T [B C]]]]]. exists n, i. splits; auto.
    + eapply frame_tail_at; eauto.
    + eapply frame_pos; eauto.
  - destruct H as [P [i [T N]]]. split; [eapply frame_pre_link; eauto|]. exists i.
    split; [eapply frame_tail_at|eapply frame_next_is]; eauto.
  - eapply frame_in_deq; eauto.
  - destruct H as [P [j Hh]]. split; [eapply frame_in_deq; eauto|]. exists j. eapply frame_head_at; eauto.
  - destruct H as [P [j [i [Hh [T L]]]]]. split; [eapply frame_in_deq; eauto|]. exists j, i.
    splits; auto; [eapply frame_head_at|eapply frame_tail_at]; eauto.
  - destruct H as [P [j [i [Hh [T [L [N [M SE]]]]]]]]. split; [eapply frame_in_deq; eauto|]. exists j, i.
    splits; auto.
    + eapply frame_head_at; eauto.
    + eapply frame_tail_at; eauto.
    + eapply frame_next_known; eauto.
    + intro Hlt. rewrite (M Hlt).
      destruct T as [q [_ [Tq _]]]. apply nth_error_lt in Tq.
      destruct (nth_error (g_chain s) (S j)) as [x|] eqn:E.
      * symmetry. eapply frame_pos; eauto.
      * apply nth_error_None in E. lia.
    + intros Hn Hj. apply SE; auto.
      destruct Hh as [p [_ [_ Hle]]]. pose proof (fr_h _ _ _ F). lia.
  - destruct H as [P [i [T N]]]. split; [eapply frame_in_deq; eauto|]. exists i.
    split; [eapply frame_tail_at|eapply frame_next_is]; eauto.
  - destruct H as [P [j [Hh [N [L [nx [nd [A [B C]]]]]]]]]. split; [eapply frame_in_deq; eauto|]. exists j.
    splits; auto.
    + eapply frame_head_at; eauto.
    + eapply frame_next_is; eauto.
    + pose proof (fr_t _ _ _ F). lia.
    + destruct (fr_heap _ _ _ F _ _ B) as [nd' [B1 [B2 _]]]. exists nx, nd'. splits; auto. congruence.
Qed.

(* ---- the master preservation lemma ---- *)
Lemma inv_step_general : forall s s1 t th',
  Inv s -> frame s s1 t -> threads s1 = threads s ->
  chain_inv s1 ->
  replay (g_hist s1) = Some (absq_items s1) ->
  len s1 = wrap_i32 (Z.of_nat (List.length (absq_items s1)) +
                     (total_lag s - lag (get_thread (threads s) t) + lag th')) ->
  thread_inv s1 t th' ->
  g_chain s1 = O :: map fst (enqs (g_hist s1)) ->
  (NoDup (call_ids (g_hist s1)) /\
   forall n, In n (call_ids (g_hist s1)) -> (n < List.length (heap s1))%nat) ->
  Inv (upd_thread s1 t th').
Proof.
  intros s s1 t th' I F Eth C R L T Q D.
  constructor; auto.
  - change (len s1 = wrap_i32 (Z.of_nat (List.length (absq_items s1)) + total_lag (upd_thread s1 t th'))).
    rewrite L. f_equal. f_equal. unfold total_lag. cbn [threads upd_thread]. rewrite Eth, total_lag_set. reflexivity.
  - intro t'. cbn [threads upd_thread]. rewrite Eth. destruct (Nat.eq_dec t t') as [->|Hne].
    + rewrite get_set_same. exact T.
    + rewrite get_set_other by exact Hne.
      change (thread_inv s1 t' (get_thread (threads s) t')).
      eapply thread_inv_frame; eauto.
      * exact (proj1 (inv_ids _ I)).
      * apply (inv_threads _ I).
Qed.

Lemma frame_refl : forall s t, frame s s t.
Proof.
  intros s t. constructor; auto.
  intros n nd H. exists nd. auto.
Qed.

Lemma inv_local : forall s t th',
  Inv s -> lag th' = lag (get_thread (threads s) t) -> thread_inv s t th' -> Inv (upd_thread s t th').
Proof.
  intros s t th' I L T. eapply inv_step_general; eauto.
  - apply frame_refl.
  - apply (inv_chain _ I).
  - apply (inv_replay _ I).
  - rewrite (inv_len _ I). f_equal. lia.
  - apply (inv_enqs _ I).
  - apply (inv_ids _ I).
Qed.

(* ---- reading the invariant ---- *)
Lemma chain_heap : forall s i n, Inv s -> nth_error (g_chain s) i = Some n ->
  exists nd, nth_error (heap s) n = Some nd /\ n_next nd = nth_error (g_chain s) (S i).
Proof. intros s i n I H. destruct (inv_chain _ I) as [_ [Cnx _]]. apply Cnx. exact H. Qed.

Lemma chain_in_heap : forall s n, Inv s -> In n (g_chain s) -> (n < List.length (heap s))%nat.
Proof.
  intros s n I H. apply In_nth_error in H. destruct H as [i H].
  destruct (chain_heap _ _ _ I H) as [nd [A _]]. eapply nth_error_lt; eauto.
Qed.

Lemma chain_pos_eq : forall s i j p, Inv s ->
  nth_error (g_chain s) i = Some p -> nth_error (g_chain s) j = Some p -> i = j.
Proof. intros s i j p I. destruct (inv_chain _ I) as [Cnd _]. eapply nodup_pos; eauto. Qed.

Lemma absq_items_eq : forall s1 s, g_chain s1 = g_chain s -> g_h s1 = g_h s ->
  (forall n, In n (g_chain s) -> val_of s1 n = val_of s n) -> absq_items s1 = absq_items s.
Proof.
  intros s1 s E1 E2 V. unfold absq_items. rewrite E1, E2. apply map_ext_in.
  intros n Hin. rewrite V; [reflexivity|].
  rewrite <- (firstn_skipn (S (g_h s)) (g_chain s)). apply in_or_app. right. exact Hin.
Qed.

(* ---- steps that only append an event of thread t to the history ---- *)
Lemma inv_log : forall s t e th',
  Inv s -> ev_tid e = t ->
  apply_ev e (absq_items s) = Some (absq_items s) ->
  enqs (e :: g_hist s) = enqs (g_hist s) ->
  call_ids (e :: g_hist s) = call_ids (g_hist s) ->
  lag th' = lag (get_thread (threads s) t) ->
  thread_inv (log_ev s e) t th' ->
  Inv (upd_thread (log_ev s e) t th').
Proof.
  intros s t e th' I Ht A E C L T. eapply inv_step_general; eauto.
  - constructor; cbn; auto.
    + right. exists e. auto.
    + intros n nd H. exists nd. auto.
  - apply (inv_chain _ I).
  - cbn [g_hist log_ev replay]. rewrite (inv_replay _ I). exact A.
  - change (len s = wrap_i32 (Z.of_nat (List.length (absq_items s)) +
              (total_lag s - lag (get_thread (threads s) t) + lag th'))).
    rewrite (inv_len _ I). f_equal. lia.
  - cbn [g_hist g_chain log_ev]. rewrite E. apply (inv_enqs _ I).
  - cbn [g_hist heap log_ev]. rewrite C. apply (inv_ids _ I).
Qed.

(* ---- the final add of the length counter, with the response event ---- *)
Lemma inv_add_len : forall s t e d th',
  Inv s -> ev_tid e = t ->
  apply_ev e (absq_items s) = Some (absq_items s) ->
  enqs (e :: g_hist s) = enqs (g_hist s) ->
  call_ids (e :: g_hist s) = call_ids (g_hist s) ->
  lag th' = lag (get_thread (threads s) t) + d ->
  thread_inv (log_ev (add_len s d) e) t th' ->
  Inv (upd_thread (log_ev (add_len s d) e) t th').
Proof.
  intros s t e d th' I Ht A E C L T. eapply inv_step_general; eauto.
  - constructor; cbn; auto.
    + right. exists e. auto.
    + intros n nd H. exists nd. auto.
  - apply (inv_chain _ I).
  - cbn [g_hist log_ev add_len replay]. rewrite (inv_replay _ I). exact A.
  - change (wrap_i32 (len s + d) = wrap_i32 (Z.of_nat (List.length (absq_items s)) +
              (total_lag s - lag (get_thread (threads s) t) + lag th'))).
    rewrite (inv_len _ I), wrap_i32_add. f_equal. lia.
  - cbn [g_hist g_chain log_ev add_len]. rewrite E. apply (inv_enqs _ I).
  - cbn [g_hist heap log_ev add_len]. rewrite C. apply (inv_ids _ I).
Qed.

(* ---- start of a call ---- *)
Lemma step_start_deq : forall s t, Inv s -> t_pc (get_thread (threads s) t) = Idle ->
  Inv (upd_thread (log_ev s (CallDeq t)) t (mkThread D1 0 None None None None 0)).
Proof.
  intros s t I PC. pose proof (inv_threads _ I t) as T. unfold thread_inv in T. rewrite PC in T.
  apply inv_log; auto.
  - unfold lag. rewrite PC. reflexivity.
  - unfold thread_inv, in_deq. cbn. rewrite Nat.eqb_refl, T. exists false. reflexivity.
Qed.

Lemma step_start_enq : forall s t v, Inv s -> t_pc (get_thread (threads s) t) = Idle ->
  Inv (upd_thread
         (mkG (heap s ++ [mkNode v None]) (head s) (tail s) (len s) (threads s)
              (g_chain s) (g_h s) (g_t s) (CallEnq t (List.length (heap s)) v :: g_hist s))
         t (mkThread E1 v (Some (List.length (heap s))) None None None 0)).
Proof.
  intros s t v I PC. pose proof (inv_threads _ I t) as T. unfold thread_inv in T. rewrite PC in T.
  set (n := List.length (heap s)).
  set (s1 := mkG _ _ _ _ _ _ _ _ _).
  assert (V : forall m, In m (g_chain s) -> val_of s1 m = val_of s m).
  { intros m Hm. apply (chain_in_heap _ _ I) in Hm. unfold val_of, s1. cbn [heap].
    rewrite nth_error_app1 by exact Hm. reflexivity. }
  assert (AQ : absq_items s1 = absq_items s) by (apply absq_items_eq; auto).
  destruct (inv_chain _ I) as [Cnd [Cnx [Chd [Ctl [Cle [Clt Cln]]]]]].
  eapply inv_step_general; eauto.
  - constructor; cbn; auto.
    + right. eexists. split; [reflexivity|reflexivity].
    + intros m nd H. exists nd. splits; auto. apply nth_error_app_l. exact H.
  - unfold chain_inv. cbn. splits; auto.
    intros i m H. destruct (Cnx i m H) as [nd [A B]]. exists nd. split; auto. apply nth_error_app_l. exact A.
  - rewrite AQ. cbn [g_hist s1 replay]. rewrite (inv_replay _ I). reflexivity.
  - rewrite AQ. change (len s1) with (len s). rewrite (inv_len _ I). f_equal.
    unfold lag at 1. rewrite PC. cbn. lia.
  - unfold thread_inv, pre_link. cbn. exists n. splits; auto.
    + intro Hin. apply (chain_in_heap _ _ I) in Hin. unfold n in Hin. lia.
    + apply nth_error_snoc_last.
    + rewrite Nat.eqb_refl, T. reflexivity.
  - cbn. apply (inv_enqs _ I).
  - cbn [g_hist s1 call_ids heap]. destruct (inv_ids _ I) as [D1 D2]. split.
    + apply nodup_snoc. split; auto. intro Hin. apply D2 in Hin. unfold n in Hin. lia.
    + intros m Hm. rewrite app_length. cbn. apply in_app_or in Hm. destruct Hm as [Hm|[Hm|[]]].
      * apply D2 in Hm. lia.
      * subst m. unfold n. lia.
Qed.

(* ---- thread-local steps of Enqueue ---- *)
Ltac thread_facts I t Hth PC T :=
  pose proof (inv_threads _ I t) as T; rewrite <- Hth in T; unfold thread_inv in T; rewrite PC in T.

Lemma tail_now : forall s, Inv s -> exists p, tail s = Some p /\ nth_error (g_chain s) (g_t s) = Some p.
Proof.
  intros s I. destruct (inv_chain _ I) as [_ [_ [_ [Ctl [_ [Clt _]]]]]].
  destruct (nth_error (g_chain s) (g_t s)) as [p|] eqn:E.
  - exists p. auto.
  - apply nth_error_None in E. lia.
Qed.

Lemma head_now : forall s, Inv s -> exists p, head s = Some p /\ nth_error (g_chain s) (g_h s) = Some p.
Proof.
  intros s I. destruct (inv_chain _ I) as [_ [_ [Chd [_ [Cle [Clt _]]]]]].
  destruct (nth_error (g_chain s) (g_h s)) as [p|] eqn:E.
  - exists p. auto.
  - apply nth_error_None in E. lia.
Qed.

Lemma step_E1 : forall s t th, Inv s -> th = get_thread (threads s) t -> t_pc th = E1 ->
  Inv (upd_thread s t (set_pc (set_l_tail th (tail s)) E2)).
Proof.
  intros s t th I Hth PC. thread_facts I t Hth PC T. apply inv_local; auto.
  - rewrite <- Hth. unfold lag. rewrite PC. reflexivity.
  - unfold thread_inv. cbn. split; [exact T|].
    destruct (tail_now _ I) as [p [A B]]. exists (g_t s), p. cbn. auto.
Qed.

Lemma step_E2 : forall s t th p nd, Inv s -> th = get_thread (threads s) t -> t_pc th = E2 ->
  l_tail th = Some p -> nth_error (heap s) p = Some nd ->
  Inv (upd_thread s t (set_pc (set_l_next th (n_next nd)) E3)).
Proof.
  intros s t th p nd I Hth PC LT HP. thread_facts I t Hth PC T. destruct T as [P [i TA]].
  apply inv_local; auto.
  - rewrite <- Hth. unfold lag. rewrite PC. reflexivity.
  - unfold thread_inv. cbn. split; [exact P|]. exists i. split; [exact TA|].
    destruct TA as [p' [A [B C]]]. rewrite LT in A. inv A.
    destruct (chain_heap _ _ _ I B) as [nd' [D E]]. rewrite HP in D. inv D.
    right. cbn. exact E.
Qed.

Lemma step_E2_nocrash : forall s t th, Inv s -> th = get_thread (threads s) t ->
  (t_pc th = E2 \/ t_pc th = E4) ->
  exists p nd, l_tail th = Some p /\ nth_error (heap s) p = Some nd.
Proof.
  intros s t th I Hth PC. pose proof (inv_threads _ I t) as T. rewrite <- Hth in T. unfold thread_inv in T.
  assert (exists i, tail_at s th i) as [i [p [A [B C]]]].
  { destruct PC as [PC|PC]; rewrite PC in T; destruct T as [_ [i T]]; exists i; tauto. }
  destruct (chain_heap _ _ _ I B) as [nd [D _]]. eauto.
Qed.

Lemma step_E3 : forall s t th, Inv s -> th = get_thread (threads s) t -> t_pc th = E3 ->
  Inv (upd_thread s t (if ptr_eqb (l_tail th) (tail s)
                       then (if is_nil (l_next th) then set_pc th E4 else set_pc th E7)
                       else set_pc th E1)).
Proof.
  intros s t th I Hth PC. thread_facts I t Hth PC T. destruct T as [P [i [TA NK]]].
  apply inv_local; auto.
  - rewrite <- Hth. unfold lag. rewrite PC. destruct (ptr_eqb _ _); [destruct (is_nil _)|]; reflexivity.
  - destruct (ptr_eqb (l_tail th) (tail s)); [destruct (is_nil (l_next th)) eqn:N|].
    + unfold thread_inv. cbn. split; [exact P|]. exists i. split; [exact TA|]. apply is_nil_true. exact N.
    + unfold thread_inv. cbn. split; [exact P|]. exists i. split; [exact TA|].
      destruct NK as [NK|NK]; [rewrite NK in N; discriminate|].
      destruct (l_next th) as [nx|] eqn:LN; [|discriminate]. exists nx. split; [exact LN|symmetry; exact NK].
    + unfold thread_inv. cbn. exact P.
Qed.

(* ---- thread-local steps of Dequeue ---- *)
Lemma step_D1 : forall s t th, Inv s -> th = get_thread (threads s) t -> t_pc th = D1 ->
  Inv (upd_thread s t (set_pc (set_l_head th (head s)) D2)).
Proof.
  intros s t th I Hth PC. thread_facts I t Hth PC T. apply inv_local; auto.
  - rewrite <- Hth. unfold lag. rewrite PC. reflexivity.
  - unfold thread_inv. cbn. split; [exact T|].
    destruct (head_now _ I) as [p [A B]]. exists (g_h s), p. cbn. auto.
Qed.

Lemma step_D2 : forall s t th, Inv s -> th = get_thread (threads s) t -> t_pc th = D2 ->
  Inv (upd_thread s t (set_pc (set_l_tail th (tail s)) D3)).
Proof.
  intros s t th I Hth PC. thread_facts I t Hth PC T. destruct T as [P [j HA]].
  apply inv_local; auto.
  - rewrite <- Hth. unfold lag. rewrite PC. reflexivity.
  - unfold thread_inv. cbn. split; [exact P|].
    destruct (tail_now _ I) as [p [A B]]. exists j, (g_t s). splits.
    + exact HA.
    + exists p. cbn. auto.
    + destruct HA as [q [_ [_ Hle]]]. destruct (inv_chain _ I) as [_ [_ [_ [_ [Cle _]]]]]. lia.
Qed.

(* ---- cas(&q.tail, tail, new) where new is the chain successor of the local tail (E5, E7, D5) ---- *)
Lemma inv_cas_tail : forall s t th new th' i,
  Inv s -> th = get_thread (threads s) t ->
  tail_at s th i -> (exists n, new = Some n /\ nth_error (g_chain s) (S i) = Some n) ->
  lag th' = lag th ->
  (forall s1, g_chain s1 = g_chain s -> heap s1 = heap s -> g_hist s1 = g_hist s -> g_h s1 = g_h s ->
              thread_inv s1 t th') ->
  Inv (upd_thread (fst (cas_tail s (l_tail th) new)) t th').
Proof.
  intros s t th new th' i I Hth [p [LT [Cp Ci]]] [n [Hn Cn]] L T.
  unfold cas_tail. destruct (ptr_eqb (tail s) (l_tail th)) eqn:E; cbn [fst].
  - apply ptr_eqb_eq in E. destruct (tail_now _ I) as [p' [A B]].
    assert (p' = p) by congruence. subst p'.
    assert (i = g_t s) by (eapply chain_pos_eq; eauto). subst i.
    destruct (inv_chain _ I) as [Cnd [Cnx [Chd [Ctl [Cle [Clt Cln]]]]]].
    eapply inv_step_general; eauto.
    + constructor; cbn; auto. intros m nd H. exists nd. auto.
    + unfold chain_inv. cbn [g_chain g_h g_t head tail heap]. splits; auto.
      * congruence.
      * eapply nth_error_lt; eauto.
      * lia.
    + apply (inv_replay _ I).
    + change (len s = wrap_i32 (Z.of_nat (List.length (absq_items s)) +
                (total_lag s - lag (get_thread (threads s) t) + lag th'))).
      rewrite (inv_len _ I). f_equal. rewrite <- Hth. lia.
    + apply (inv_enqs _ I).
    + apply (inv_ids _ I).
  - apply inv_local; auto. congruence.
Qed.

(* ---- E6 / D7: count, respond ---- *)
Lemma step_E6 : forall s t th, Inv s -> th = get_thread (threads s) t -> t_pc th = E6 ->
  Inv (upd_thread (log_ev (add_len s 1) (RetEnq t)) t (set_pc th Idle)).
Proof.
  intros s t th I Hth PC. thread_facts I t Hth PC T. destruct T as [n T].
  apply inv_add_len; auto.
  - rewrite <- Hth. unfold lag. rewrite PC. reflexivity.
  - unfold thread_inv. cbn. rewrite Nat.eqb_refl, T. reflexivity.
Qed.

Lemma step_D7 : forall s t th, Inv s -> th = get_thread (threads s) t -> t_pc th = D7 ->
  Inv (upd_thread (log_ev (add_len s (-1)) (RetDeq t (Some (l_task th)))) t (set_pc th Idle)).
Proof.
  intros s t th I Hth PC. thread_facts I t Hth PC T.
  apply inv_add_len; auto.
  - rewrite <- Hth. unfold lag. rewrite PC. reflexivity.
  - unfold thread_inv. cbn. rewrite Nat.eqb_refl, T. cbn. rewrite Z.eqb_refl. reflexivity.
Qed.

(* ---- E4: the link CAS (linearization point of Enqueue) ---- *)
Lemma val_of_set_next : forall s h' p nx m, h' = set_next (heap s) p nx ->
  forall s1, heap s1 = h' -> val_of s1 m = val_of s m.
Proof.
  intros s h' p nx m -> s1 E. unfold val_of. rewrite E.
  destruct (Nat.eq_dec p m) as [->|Hne].
  - destruct (nth_error (heap s) m) as [nd|] eqn:A.
    + rewrite (set_next_same _ _ _ _ A). reflexivity.
    + assert (nth_error (set_next (heap s) m nx) m = None) as ->; [|reflexivity].
      apply nth_error_None. rewrite set_next_length. apply nth_error_None. exact A.
  - rewrite set_next_other by exact Hne. reflexivity.
Qed.

Lemma step_E4_fail : forall s t th, Inv s -> th = get_thread (threads s) t -> t_pc th = E4 ->
  Inv (upd_thread s t (set_pc th E1)).
Proof.
  intros s t th I Hth PC. thread_facts I t Hth PC T. destruct T as [P _].
  apply inv_local; auto.
  rewrite <- Hth. unfold lag. rewrite PC. reflexivity.
Qed.

Lemma step_E4_link : forall s t th p nd, Inv s -> th = get_thread (threads s) t -> t_pc th = E4 ->
  l_tail th = Some p -> nth_error (heap s) p = Some nd -> n_next nd = l_next th ->
  exists n, l_n th = Some n /\
  Inv (upd_thread
         (mkG (set_next (heap s) p (Some n)) (head s) (tail s) (len s) (threads s)
              (g_chain s ++ [n]) (g_h s) (g_t s) (LinEnq t n (t_val th) :: g_hist s))
         t (set_pc th E5)).
Proof.
  intros s t th p nd I Hth PC LT HP NX. thread_facts I t Hth PC T.
  destruct T as [[n [LN [NC [HN TP]]]] [i [[q [A [Cp Ci]]] LNx]]].
  assert (q = p) by congruence. subst q. clear A. exists n. split; [exact LN|].
  destruct (inv_chain _ I) as [Cnd [Cnx [Chd [Ctl [Cle [Clt Cln]]]]]].
  destruct (chain_heap _ _ _ I Cp) as [nd' [HP' NXC]]. assert (nd' = nd) by congruence. subst nd'. clear HP'.
  rewrite NX, LNx in NXC. symmetry in NXC. apply nth_error_None in NXC.
  pose proof (nth_error_lt _ _ _ _ Cp) as Ilt.
  assert (Si : S i = List.length (g_chain s)) by lia.
  assert (Hpn : p <> n). { intro; subst. apply NC. eapply nth_error_In; eauto. }
  set (s1 := mkG _ _ _ _ _ _ _ _ _).
  assert (V : forall m, val_of s1 m = val_of s m).
  { intro m. eapply val_of_set_next; reflexivity. }
  assert (AQ : absq_items s1 = absq_items s ++ [(n, t_val th)]).
  { unfold absq_items. cbn [g_chain g_h s1]. rewrite skipn_app_le by lia. rewrite map_app. f_equal.
    - apply map_ext. intro m. rewrite V. reflexivity.
    - cbn. rewrite V. unfold val_of. rewrite HN. reflexivity. }
  eapply inv_step_general; eauto.
  - constructor; cbn [g_chain g_h g_t g_hist heap s1]; auto.
    + right. exists n, (t_val th). auto.
    + right. eexists. split; reflexivity.
    + intros m ndm H. destruct (Nat.eq_dec p m) as [<-|Hne].
      * assert (ndm = nd) by congruence. subst ndm. rewrite (set_next_same _ _ _ _ H). eexists. splits; [reflexivity|reflexivity|].
        intro C. exfalso. apply C. eapply nth_error_In; eauto.
      * rewrite set_next_other by exact Hne. exists ndm. auto.
  - unfold chain_inv. cbn [g_chain g_h g_t head tail heap s1]. splits.
    + apply nodup_snoc. auto.
    + intros k m Hk. destruct (Nat.lt_ge_cases k (List.length (g_chain s))) as [Hlt|Hge].
      * rewrite nth_error_app1 in Hk by exact Hlt.
        destruct (Cnx k m Hk) as [ndm [Hm Nm]].
        destruct (Nat.eq_dec k i) as [->|Hki].
        -- assert (m = p) by congruence. subst m. assert (ndm = nd) by congruence. subst ndm.
           rewrite (set_next_same _ _ _ _ Hm). eexists. split; [reflexivity|]. cbn [n_next].
           rewrite Si. symmetry. apply nth_error_snoc_last.
        -- assert (m <> p). { intro; subst m. apply Hki. eapply chain_pos_eq; eauto. }
           rewrite set_next_other by congruence. exists ndm. split; [exact Hm|].
           rewrite Nm. symmetry. apply nth_error_app1. lia.
      * assert (k = List.length (g_chain s)).
        { apply nth_error_lt in Hk. rewrite app_length in Hk. cbn in Hk. lia. }
        subst k. rewrite nth_error_snoc_last in Hk. assert (m = n) by congruence. subst m.
        rewrite set_next_other by exact Hpn. eexists. split; [exact HN|]. cbn [n_next].
        symmetry. apply nth_error_None. rewrite app_length. cbn. lia.
    + rewrite Chd. symmetry. apply nth_error_app1. lia.
    + rewrite Ctl. symmetry. apply nth_error_app1. lia.
    + exact Cle.
    + rewrite app_length. cbn. lia.
    + rewrite app_length. cbn. lia.
  - rewrite AQ. cbn [g_hist s1 replay]. rewrite (inv_replay _ I). reflexivity.
  - rewrite AQ. change (len s1) with (len s). rewrite (inv_len _ I). f_equal.
    rewrite app_length. cbn [List.length]. rewrite <- Hth. unfold lag. rewrite PC. cbn. lia.
  - unfold thread_inv. cbn [t_pc set_pc]. exists n, i. splits.
    + exact LN.
    + exists p. splits; auto. cbn [g_chain s1]. apply nth_error_app_l. exact Cp.
    + cbn [g_chain s1]. rewrite Si. apply nth_error_snoc_last.
    + cbn [g_hist s1 t_val set_pc]. rewrite tphase_cons_same by reflexivity. rewrite TP. cbn.
      rewrite Nat.eqb_refl, Z.eqb_refl. reflexivity.
  - cbn [g_chain g_hist s1 enqs]. rewrite map_app. cbn. rewrite (inv_enqs _ I) at 1. reflexivity.
  - cbn [g_hist s1 call_ids heap]. rewrite set_next_length. apply (inv_ids _ I).
Qed.

(* ---- D3: next := load(&head.next); the candidate "empty" linearization point ---- *)
Lemma absq_empty_at_end : forall s, Inv s -> nth_error (g_chain s) (S (g_h s)) = None -> absq_items s = [].
Proof.
  intros s I H. unfold absq_items. apply nth_error_None in H. rewrite skipn_all2 by exact H. reflexivity.
Qed.

Lemma step_D3 : forall s t th p nd, Inv s -> th = get_thread (threads s) t -> t_pc th = D3 ->
  l_head th = Some p -> nth_error (heap s) p = Some nd ->
  Inv (upd_thread (if ptr_eqb (Some p) (head s) && is_nil (n_next nd) then log_ev s (EmptyAt t) else s)
                  t (set_pc (set_l_next th (n_next nd)) D4)).
Proof.
  intros s t th p nd I Hth PC LH HP. rewrite <- LH. thread_facts I t Hth PC T.
  destruct T as [[b TP] [j [i [HA [TA Lji]]]]].
  assert (HA' := HA). destruct HA' as [q [A [Cj Hj]]]. assert (q = p) by congruence. subst q. clear A.
  destruct (chain_heap _ _ _ I Cj) as [nd' [HP' NX]]. assert (nd' = nd) by congruence. subst nd'. clear HP'.
  destruct (head_now _ I) as [hp [Hhd Chp]].
  assert (L : lag (set_pc (set_l_next th (n_next nd)) D4) = lag (get_thread (threads s) t)).
  { rewrite <- Hth. unfold lag. rewrite PC. reflexivity. }
  destruct (ptr_eqb (l_head th) (head s) && is_nil (n_next nd))%bool eqn:Cond.
  - apply andb_prop in Cond. destruct Cond as [C1 C2]. apply ptr_eqb_eq in C1. apply is_nil_true in C2.
    assert (hp = p) by congruence. subst hp.
    assert (j = g_h s) by (eapply chain_pos_eq; eauto). subst j.
    assert (AQ : absq_items s = []). { apply absq_empty_at_end; auto. congruence. }
    apply inv_log; auto.
    + rewrite AQ. reflexivity.
    + unfold thread_inv. cbn [t_pc set_pc]. split.
      * exists true. cbn [g_hist log_ev]. rewrite tphase_cons_same by reflexivity. rewrite TP. destruct b; reflexivity.
      * exists (g_h s), i. splits.
        -- exact HA.
        -- exact TA.
        -- exact Lji.
        -- right. cbn [l_next set_pc set_l_next]. exact NX.
        -- intros _. exact NX.
        -- intros _ _. cbn [g_hist log_ev]. rewrite tphase_cons_same by reflexivity. rewrite TP. destruct b; reflexivity.
  - apply inv_local; auto.
    unfold thread_inv. cbn [t_pc set_pc]. split; [exists b; exact TP|].
    exists j, i. splits.
    + exact HA.
    + exact TA.
    + exact Lji.
    + right. exact NX.
    + intros _. exact NX.
    + cbn [l_next set_pc set_l_next]. intros Hn Hjh. exfalso. subst j.
      assert (hp = p) by congruence. subst hp.
      assert (ptr_eqb (l_head th) (head s) = true) by (apply ptr_eqb_eq; congruence).
      assert (is_nil (n_next nd) = true) by (apply is_nil_true; exact Hn).
      rewrite H, H0 in Cond. discriminate.
Qed.

Lemma step_D3_nocrash : forall s t th, Inv s -> th = get_thread (threads s) t -> t_pc th = D3 ->
  exists p nd, l_head th = Some p /\ nth_error (heap s) p = Some nd.
Proof.
  intros s t th I Hth PC. thread_facts I t Hth PC T.
  destruct T as [_ [j [i [[p [A [Cj Hj]]] _]]]].
  destruct (chain_heap _ _ _ I Cj) as [nd [D _]]. eauto.
Qed.

(* ---- D4: the validation head == load(&q.head) and the branches after it ---- *)
Lemma step_D4 : forall s t s' o, Inv s -> t_pc (get_thread (threads s) t) = D4 ->
  tstep s t CStep = (s', o) -> Inv s'.
Proof.
  intros s t s' o I PC H. unfold tstep in H. rewrite PC in H.
  remember (get_thread (threads s) t) as th eqn:Hth.
  thread_facts I t Hth PC T.
  destruct T as [[b TP] [j [i [HA [TA [Lji [NK [NS SE]]]]]]]].
  assert (HA' := HA). destruct HA' as [p [LH [Cj Hj]]].
  assert (TA' := TA). destruct TA' as [q [LT [Ci Hi]]].
  destruct (head_now _ I) as [hp [Hhd Chp]].
  destruct (ptr_eqb (l_head th) (head s)) eqn:E1.
  - apply ptr_eqb_eq in E1. assert (hp = p) by congruence. subst hp.
    assert (j = g_h s) by (eapply chain_pos_eq; eauto). subst j.
    destruct (ptr_eqb (l_head th) (l_tail th)) eqn:E2.
    + apply ptr_eqb_eq in E2. assert (q = p) by congruence. subst q.
      assert (i = g_h s) by (eapply chain_pos_eq; eauto). subst i.
      destruct (is_nil (l_next th)) eqn:E3.
      * (* return nil *)
        apply is_nil_true in E3. injection H as <- _.
        apply inv_log; auto.
        -- rewrite <- Hth. unfold lag. rewrite PC. reflexivity.
        -- unfold thread_inv. cbn [t_pc set_pc g_hist log_ev].
           rewrite tphase_cons_same by reflexivity. rewrite (SE E3 eq_refl). reflexivity.
      * (* tail is lagging: help *)
        injection H as <- _. apply inv_local; auto.
        -- rewrite <- Hth. unfold lag. rewrite PC. reflexivity.
        -- unfold thread_inv. cbn [t_pc set_pc]. split; [exists b; exact TP|].
           exists (g_h s). split; [exact TA|].
           destruct NK as [NK|NK]; [rewrite NK in E3; discriminate|].
           destruct (l_next th) as [nx|] eqn:LN; [|discriminate]. exists nx. split; [exact LN|symmetry; exact NK].
    + apply ptr_eqb_neq in E2.
      assert (Hne : g_h s <> i). { intro; subst i. apply E2. congruence. }
      assert (Hlt : (g_h s < i)%nat) by lia.
      specialize (NS Hlt). pose proof (nth_error_lt _ _ _ _ Ci) as Ilt.
      destruct (nth_error (g_chain s) (S (g_h s))) as [nx|] eqn:Cn.
      2:{ apply nth_error_None in Cn. lia. }
      rewrite NS in H.
      destruct (chain_heap _ _ _ I Cn) as [nd [Hnd _]]. rewrite Hnd in H.
      injection H as <- _. apply inv_local; auto.
      * rewrite <- Hth. unfold lag. rewrite PC. reflexivity.
      * unfold thread_inv. cbn [t_pc set_pc set_l_task]. split; [exists b; exact TP|].
        exists (g_h s). splits.
        -- exact HA.
        -- exists nx. split; [exact NS|exact Cn].
        -- lia.
        -- exists nx, nd. splits; auto.
  - injection H as <- _. apply inv_local; auto.
    + rewrite <- Hth. unfold lag. rewrite PC. reflexivity.
    + unfold thread_inv. cbn [t_pc set_pc]. exists b. exact TP.
Qed.

(* ---- D6: the head CAS (linearization point of a successful Dequeue) ---- *)
Lemma step_D6 : forall s t s' o, Inv s -> t_pc (get_thread (threads s) t) = D6 ->
  tstep s t CStep = (s', o) -> Inv s'.
Proof.
  intros s t s' o I PC H. unfold tstep in H. rewrite PC in H.
  remember (get_thread (threads s) t) as th eqn:Hth.
  thread_facts I t Hth PC T.
  destruct T as [[b TP] [j [HA [[nx [LN Cn]] [Sj [nx' [nd [LN' [Hnd Hval]]]]]]]]].
  assert (nx' = nx) by congruence. subst nx'. clear LN'.
  destruct HA as [p [LH [Cj Hj]]].
  destruct (head_now _ I) as [hp [Hhd Chp]].
  destruct (ptr_eqb (head s) (l_head th)) eqn:E1.
  - apply ptr_eqb_eq in E1. assert (hp = p) by congruence. subst hp.
    assert (j = g_h s) by (eapply chain_pos_eq; eauto). subst j.
    rewrite LN in H. injection H as <- _.
    destruct (inv_chain _ I) as [Cnd [Cnx [Chd [Ctl [Cle [Clt Cln]]]]]].
    set (s1 := mkG _ _ _ _ _ _ _ _ _).
    assert (AQ : absq_items s = (nx, l_task th) :: absq_items s1).
    { unfold absq_items. cbn [g_chain g_h heap s1]. rewrite (skipn_nth _ _ _ _ Cn). cbn [map].
      f_equal. unfold val_of. rewrite Hnd, Hval. reflexivity. }
    eapply inv_step_general; eauto.
    + constructor; cbn [g_chain g_h g_t g_hist heap s1]; auto.
      * right. eexists. split; reflexivity.
      * intros m ndm Hm. exists ndm. auto.
    + unfold chain_inv. cbn [g_chain g_h g_t head tail heap s1]. splits; auto; try congruence.
    + cbn [g_hist s1 replay]. rewrite (inv_replay _ I), AQ. unfold apply_ev, qstep.
      rewrite item_eqb_refl. reflexivity.
    + change (len s1) with (len s). rewrite (inv_len _ I), AQ. f_equal. cbn [List.length].
      rewrite <- Hth. unfold lag. rewrite PC. cbn [t_pc set_pc]. lia.
    + unfold thread_inv. cbn [t_pc set_pc g_hist s1 l_task].
      rewrite tphase_cons_same by reflexivity. rewrite TP. destruct b; reflexivity.
    + cbn [g_chain g_hist s1 enqs]. apply (inv_enqs _ I).
    + cbn [g_hist s1 call_ids heap]. apply (inv_ids _ I).
  - injection H as <- _. apply inv_local; auto.
    + rewrite <- Hth. unfold lag. rewrite PC. reflexivity.
    + unfold thread_inv. cbn [t_pc set_pc]. exists b. exact TP.
Qed.

(* ---- the invariant is inductive ---- *)
Lemma inv_init : Inv init_state.
Proof.
  constructor.
  - unfold chain_inv. cbn. splits; auto; try lia.
    + constructor; [intros []|constructor].
    + intros i n H. destruct i as [|i]; cbn in H.
      * injection H as <-. eexists. split; reflexivity.
      * destruct i; discriminate.
  - reflexivity.
  - reflexivity.
  - intro t. cbn [threads init_state]. rewrite get_nil. reflexivity.
  - reflexivity.
  - cbn. split; [constructor|intros n []].
Qed.

Lemma pre_link_eq : forall s s1 t th, g_chain s1 = g_chain s -> heap s1 = heap s -> g_hist s1 = g_hist s ->
  pre_link s t th -> pre_link s1 t th.
Proof. intros s s1 t th E1 E2 E3 H. unfold pre_link in *. rewrite E1, E2, E3. exact H. Qed.

Theorem inv_step : forall s t c s' o, Inv s -> tstep s t c = (s', o) -> Inv s'.
Proof.
  intros s t c s' o I H.
  destruct (t_pc (get_thread (threads s) t)) eqn:PC.
  all: try (destruct c; [| unfold tstep in H; rewrite PC in H; injection H as <- _; exact I
                          | unfold tstep in H; rewrite PC in H; injection H as <- _; exact I]).
  all: try (eapply step_D4; eassumption).
  all: try (eapply step_D6; eassumption).
  all: unfold tstep in H; rewrite PC in H.
  all: remember (get_thread (threads s) t) as th eqn:Hth.
  - (* Idle *)
    destruct c.
    + injection H as <- _. exact I.
    + injection H as <- _. subst th. apply step_start_enq; auto.
    + injection H as <- _. subst th. apply step_start_deq; auto.
  - injection H as <- _. eapply step_E1; eauto.
  - destruct (step_E2_nocrash s t th I Hth (or_introl PC)) as [p [nd [A B]]].
    rewrite A, B in H. injection H as <- _. eapply step_E2; eauto.
  - injection H as <- _. eapply step_E3; eauto.
  - destruct (step_E2_nocrash s t th I Hth (or_intror PC)) as [p [nd [A B]]].
    rewrite A, B in H. destruct (ptr_eqb (n_next nd) (l_next th)) eqn:E.
    + apply ptr_eqb_eq in E.
      destruct (step_E4_link s t th p nd I Hth PC A B E) as [n [LN I']].
      rewrite LN in H. injection H as <- _. exact I'.
    + injection H as <- _. eapply step_E4_fail; eauto.
  - (* E5 *)
    thread_facts I t Hth PC T. destruct T as [n [i [LN [TA [Cn TP]]]]].
    destruct (cas_tail s (l_tail th) (l_n th)) as [s1 ok] eqn:CT. injection H as <- _.
    change s1 with (fst (s1, ok)). rewrite <- CT.
    eapply inv_cas_tail; eauto.
    + unfold lag. rewrite PC. reflexivity.
    + intros s2 _ _ E3 _. unfold thread_inv. cbn [t_pc set_pc t_val]. exists n. rewrite E3. exact TP.
  - (* E6 *) injection H as <- _. eapply step_E6; eauto.
  - (* E7 *)
    thread_facts I t Hth PC T. destruct T as [P [i [TA NI]]].
    destruct (cas_tail s (l_tail th) (l_next th)) as [s1 ok] eqn:CT. injection H as <- _.
    change s1 with (fst (s1, ok)). rewrite <- CT.
    eapply inv_cas_tail; eauto.
    + unfold lag. rewrite PC. reflexivity.
    + intros s2 E1 E2 E3 _. unfold thread_inv. cbn [t_pc set_pc].
      apply (pre_link_eq s s2 t th E1 E2 E3). exact P.
  - injection H as <- _. eapply step_D1; eauto.
  - injection H as <- _. eapply step_D2; eauto.
  - destruct (step_D3_nocrash s t th I Hth PC) as [p [nd [A B]]].
    rewrite A, B in H. injection H as <- _. eapply step_D3; eauto.
  - (* D5 *)
    thread_facts I t Hth PC T. destruct T as [[b TP] [i [TA NI]]].
    destruct (cas_tail s (l_tail th) (l_next th)) as [s1 ok] eqn:CT. injection H as <- _.
    change s1 with (fst (s1, ok)). rewrite <- CT.
    eapply inv_cas_tail; eauto.
    + unfold lag. rewrite PC. reflexivity.
    + intros s2 _ _ E3 _. unfold thread_inv. cbn [t_pc set_pc]. exists b. rewrite E3. exact TP.
  - injection H as <- _. eapply step_D7; eauto.
  - (* Crashed *) thread_facts I t Hth PC T. destruct T.
Qed.

Theorem inv_reachable : forall s, reachable ms_init ms_step s -> Inv s.
Proof.
  apply invariant_rule.
  - intros s ->. apply inv_init.
  - intros s [[t c] o] s' _ I H. unfold ms_step in H. cbn in H. eapply inv_step; eauto.
Qed.
