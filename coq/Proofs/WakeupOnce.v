(* The ghost invariant GT /\ GQ holds in every reachable state, and its
   consequences: exactly_once, urgent_fifo_per_producer, wake_one_traffic. *)
From GV Require Import Lib.Trace Lib.Interleave Model.Wakeup
  Proofs.WakeupBase Proofs.WakeupInv Proofs.WakeupProofs Proofs.WakeupGhost.
From Coq Require Import Lia Arith Permutation.
Open Scope list_scope.

Definition ghost_inv (s : wstate) : Prop :=
  GT (w_gh s) (trigs s) /\
  GQ (w_gh s) (itemsU (w_sh s)) (itemsL (w_sh s)) (heldl QU s) (heldl QL s) (closed (w_env s)).

(* ---- what the loop's thread-local computations can do to the ghost state ---- *)
Inductive rshape (s s' : wstate) : Prop :=
| rs_con : w_gh s' = w_gh s -> trigs s' = trigs s -> w_sh s' = w_sh s -> w_env s' = w_env s -> rshape s s'
| rs_begin : forall sp,
    w_gh s' = gh_begin (w_gh s) (mkTask (g_next (w_gh s)) O sp) ->
    trigs s' = put_trig (trigs s) O (mkTrig (pc0 sp) (mkTask (g_next (w_gh s)) O sp)) ->
    w_sh s' = w_sh s -> w_env s' = w_env s -> rshape s s'.

Lemma rshape_con_l : forall s c s', rshape (set_con s c) s' -> rshape s s'.
Proof.
  intros s c s' H. inversion H as [A B C D|sp A B C D].
  - apply rs_con; assumption.
  - eapply rs_begin; eassumption.
Qed.

Lemma start_trig_shape : forall s sp, rshape s (fst (start_trig s O sp)).
Proof. intros s sp. eapply (rs_begin _ _ sp); reflexivity. Qed.

Lemma run_evs_shape : forall evs s, rshape s (fst (run_evs evs s)).
Proof.
  induction evs as [|e r IH]; intro s.
  - cbn. destruct (c_chores (con s)); apply rs_con; reflexivity.
  - destruct e as [|k sc]; cbn [run_evs].
    + eapply rshape_con_l. apply IH.
    + destruct (lookup_script (scripts (w_env s)) sc) as [|sp todo].
      * specialize (IH s). destruct (run_evs r s). exact IH.
      * match goal with |- context [start_trig ?a ?b ?c] =>
          pose proof (start_trig_shape a c) as P; destruct (start_trig a b c) end.
        cbn [fst] in *. eapply rshape_con_l. exact P.
Qed.

Lemma resume_shape : forall s, rshape s (fst (resume s)).
Proof.
  intro s. unfold resume. destruct (c_todo (con s)) as [|sp todo].
  - destruct (c_phase (con s)); [apply run_evs_shape|apply rs_con; reflexivity|].
    destruct (c_low (con s) <? e_max (w_env s))%Z; apply rs_con; reflexivity.
  - match goal with |- context [start_trig ?a ?b ?c] => pose proof (start_trig_shape a c) as P end.
    eapply rshape_con_l. exact P.
Qed.

Lemma rshape_ghost : forall s s' iu il hu hl cl, rshape s s' -> loop_idle s ->
  GT (w_gh s) (trigs s) -> GQ (w_gh s) iu il hu hl cl ->
  GT (w_gh s') (trigs s') /\ GQ (w_gh s') iu il hu hl cl.
Proof.
  intros s s' iu il hu hl cl H Hidle T Q. inversion H as [A B C D|sp A B C D].
  - rewrite A, B. auto.
  - rewrite A, B. split.
    + apply GT_begin; assumption.
    + eapply GQ_ext; [| | | | |exact Q]; reflexivity.
Qed.

Lemma heldl_d : forall s, d_q QU s = 0%Z -> d_q QL s = 0%Z -> heldl QU s = [] /\ heldl QL s = [].
Proof.
  intros s A B. unfold d_q, heldl in *. destruct (c_pc (con s)) as [ |q|q|q| | | | | | | ]; auto.
  destruct q; discriminate.
Qed.

Lemma heldl_not_dec : forall s, (forall q, c_pc (con s) <> CDec q) -> heldl QU s = [] /\ heldl QL s = [].
Proof.
  intros s H. unfold heldl. destruct (c_pc (con s)) as [ |q|q|q| | | | | | | ]; auto.
  exfalso. apply (H q). reflexivity.
Qed.

(* ---- one scheduling point of a Trigger call ---- *)
Lemma trig_step_ghost : forall s t c s1 o done hu hl,
  trig_step s t c = (s1, o, done) ->
  GT (w_gh s) (trigs s) -> GQ (w_gh s) (itemsU (w_sh s)) (itemsL (w_sh s)) hu hl (closed (w_env s)) ->
  GT (w_gh s1) (trigs s1) /\ GQ (w_gh s1) (itemsU (w_sh s1)) (itemsL (w_sh s1)) hu hl (closed (w_env s1)) /\
  con s1 = con s /\ (done = true -> t_pc (get_trig (trigs s1) t) = TIdle).
Proof.
  intros s t c s1 o done hu hl H T Q. unfold trig_step in H.
  destruct (get_trig (trigs s) t) as [p x] eqn:Eth. cbn [t_pc t_task] in H.
  destruct p as [| |q|q| | |]; destruct c as [order| | |sp|v|k sc|k l];
    try (inv H; splits; [exact T|exact Q|reflexivity|discriminate]).
  - (* TLen *)
    inv H. splits; [|exact Q|reflexivity|discriminate].
    cbn [set_trig set_trigs trigs w_gh]. eapply GT_len; eauto.
  - (* link *)
    inv H. splits; [| |reflexivity|discriminate].
    + cbn [set_trig set_trigs set_gh set_sh trigs w_gh]. apply GT_link; assumption.
    + cbn [set_trig set_trigs set_gh set_sh trigs w_gh w_sh w_env].
      pose proof (GQ_link _ _ _ _ _ _ q x Q) as Q'. destruct q; exact Q'.
  - (* count *)
    unfold add_len in H. inv H. splits; [| |reflexivity|discriminate].
    + cbn [set_trig set_trigs set_gh set_sh trigs w_gh].
      eapply (GT_ext (w_gh s)); try reflexivity. eapply GT_post; eauto.
    + cbn [set_trig set_trigs set_gh set_sh trigs w_gh w_sh w_env].
      eapply (GQ_ext (w_gh s)); try reflexivity. destruct q; exact Q.
  - (* CAS *)
    destruct (flag (w_sh s) =? 0)%Z; inv H.
    + splits; [|exact Q|reflexivity|discriminate].
      cbn [set_trig set_trigs set_sh trigs w_gh]. eapply GT_post; eauto.
    + unfold ret_trig. rewrite Eth. cbn [t_task].
      splits; [| |reflexivity|].
      * cbn [set_trig set_trigs set_gh trigs w_gh]. eapply GT_ret; eauto.
      * cbn [set_trig set_trigs set_gh trigs w_gh w_sh w_env]. eapply GQ_ext; [| | | | |exact Q]; reflexivity.
      * intros _. cbn [set_trig set_trigs set_gh trigs]. rewrite get_put_same. reflexivity.
  - (* write *)
    destruct (efd_write (w_sh s)) as [x1 r] eqn:Ew.
    assert (Ei : itemsU x1 = itemsU (w_sh s) /\ itemsL x1 = itemsL (w_sh s)).
    { unfold efd_write in Ew. destruct (efd_cnt (w_sh s) + 1 >? efd_max)%Z; inv Ew; auto. }
    destruct Ei as [EiU EiL].
    destruct r; inv H.
    + unfold ret_trig. cbn [set_sh trigs]. rewrite Eth. cbn [t_task].
      splits; [| |reflexivity|].
      * cbn [set_trig set_trigs set_gh set_sh trigs w_gh]. eapply GT_ret; eauto.
      * cbn [set_trig set_trigs set_gh set_sh trigs w_gh w_sh w_env]. rewrite EiU, EiL.
        eapply GQ_ext; [| | | | |exact Q]; reflexivity.
      * intros _. cbn [set_trig set_trigs set_gh set_sh trigs]. rewrite get_put_same. reflexivity.
    + splits; [|exact Q|reflexivity|discriminate].
      cbn [set_trig set_trigs trigs w_gh]. eapply GT_post; eauto.
    + unfold ret_trig. cbn [set_sh trigs]. rewrite Eth. cbn [t_task].
      splits; [| |reflexivity|].
      * cbn [set_trig set_trigs set_gh set_sh trigs w_gh]. eapply GT_ret; eauto.
      * cbn [set_trig set_trigs set_gh set_sh trigs w_gh w_sh w_env]. rewrite EiU, EiL.
        eapply GQ_ext; [| | | | |exact Q]; reflexivity.
      * intros _. cbn [set_trig set_trigs set_gh set_sh trigs]. rewrite get_put_same. reflexivity.
  - (* write fails *)
    inv H. unfold ret_trig. cbn [set_gh trigs]. rewrite Eth. cbn [t_task].
    splits; [| |reflexivity|].
    + cbn [set_trig set_trigs set_gh trigs w_gh].
      assert (T' : GT (gh_fault (w_gh s)) (trigs s)) by (eapply GT_ext; [| | | | |exact T]; reflexivity).
      apply (GT_ret _ _ _ _ _ false T' Eth eq_refl).
    + cbn [set_trig set_trigs set_gh trigs w_gh w_sh w_env]. eapply GQ_ext; [| | | | |exact Q]; reflexivity.
    + intros _. cbn [set_trig set_trigs set_gh trigs]. rewrite get_put_same. reflexivity.
  - (* read *)
    destruct (efd_read (w_sh s)) as [x1 v] eqn:Er.
    assert (Ei : itemsU x1 = itemsU (w_sh s) /\ itemsL x1 = itemsL (w_sh s)).
    { unfold efd_read in Er. destruct (efd_cnt (w_sh s) =? 0)%Z; inv Er; auto. }
    destruct Ei as [EiU EiL]. inv H.
    splits; [| |reflexivity|discriminate].
    + cbn [set_trig set_trigs set_sh trigs w_gh]. eapply GT_post; eauto.
    + cbn [set_trig set_trigs set_sh trigs w_gh w_sh w_env]. rewrite EiU, EiL. exact Q.
Qed.

(* ---- the loop's own steps ---- *)
Lemma cons_step_ghost : forall s c s1 o,
  cons_step s c = (s1, o) -> loop_ok s -> ghost_inv s -> ghost_inv s1.
Proof.
  intros s c s1 o H [Li Lc] [T Q]. unfold cons_step in H. unfold ghost_inv.
  destruct (c_pc (con s)) as [ |q|q|q| | | | | | | ] eqn:Epc.
  11: { (* CTrig *)
    destruct (trig_step s O c) as [[s2 o2] done] eqn:Et.
    destruct (trig_step_ghost _ _ _ _ _ _ _ _ Et T Q) as (T2 & Q2 & Econ & Hd).
    assert (Hh : heldl QU s2 = heldl QU s /\ heldl QL s2 = heldl QL s) by (unfold heldl; rewrite Econ; auto).
    destruct Hh as [HhU HhL].
    destruct done.
    - specialize (Hd eq_refl).
      assert (Hp2 : c_chores (con s2) = true -> c_phase (con s2) = PhEvents).
      { rewrite Econ. intro X. apply (Lc X). }
      pose proof (resume_shape s2) as Sh. pose proof (resume_frame s2 Hd Hp2) as R. cbn zeta in R.
      destruct (resume s2) as [s3 o3]. injection H as Hs Ho. subst s1 o. cbn [fst] in *.
      destruct R as (_ & A & B & _ & _ & _ & _ & _ & _ & J1 & J2 & _).
      destruct (heldl_d s3 J1 J2) as [H3U H3L].
      assert (H2e : heldl QU s = [] /\ heldl QL s = []) by (apply heldl_not_dec; intro q; rewrite Epc; discriminate).
      destruct H2e as [HeU HeL]. rewrite HeU, HeL in Q2.
      destruct (rshape_ghost _ _ _ _ _ _ _ Sh Hd T2 Q2) as [T3 Q3].
      split; [exact T3|]. rewrite A, B, H3U, H3L. exact Q3.
    - injection H as Hs Ho. subst s1 o. split; [exact T2|]. rewrite HhU, HhL. exact Q2. }
  all: assert (Hidle : loop_idle s) by (apply Li; discriminate).
  all: assert (Hch : c_chores (con s) = false)
         by (destruct (c_chores (con s)) eqn:X; [destruct (Lc X); congruence|reflexivity]).
  all: destruct c as [order| | |sp|v|k sc|k l]; try (inv H; split; assumption).
  - (* CWait *)
    assert (HeU : heldl QU s = [] /\ heldl QL s = []) by (apply heldl_not_dec; intro q; rewrite Epc; discriminate).
    destruct HeU as [HeU HeL]. rewrite HeU, HeL in Q.
    set (evs := arrange order (io_pend (w_env s)) (eff_edge (w_sh s))) in *.
    set (s0 := set_env (set_sh s (sh_efd (w_sh s) (efd_cnt (w_sh s)) false)) (e_set_io (w_env s) [])) in *.
    destruct evs as [|e r].
    + inv H. split; [exact T|].
      assert (Hh : heldl QU (set_con s0 (c_set_msec (con s) (-1))) = [] /\ heldl QL (set_con s0 (c_set_msec (con s) (-1))) = []).
      { apply heldl_not_dec. intro q. cbn. rewrite Epc. discriminate. }
      destruct Hh as [-> ->]. exact Q.
    + set (s2 := set_con s0 (c_set_phase (c_set_msec (con s) 0) PhEvents)) in *.
      assert (Hi2 : loop_idle s2) by exact Hidle.
      pose proof (run_evs_shape (e :: r) s2) as Sh. pose proof (run_evs_frame (e :: r) s2 Hi2) as R. cbn zeta in R.
      destruct (run_evs (e :: r) s2) as [s3 o3]. injection H as Hs Ho. subst s1 o. cbn [fst] in *.
      destruct R as (_ & A & B & _ & _ & _ & _ & _ & _ & J1 & J2 & _).
      destruct (heldl_d s3 J1 J2) as [H3U H3L].
      assert (T2 : GT (w_gh s2) (trigs s2)) by exact T.
      assert (Q2 : GQ (w_gh s2) (itemsU (w_sh s2)) (itemsL (w_sh s2)) [] [] (closed (w_env s2))) by exact Q.
      destruct (rshape_ghost _ _ _ _ _ _ _ Sh Hi2 T2 Q2) as [T3 Q3].
      split; [exact T3|]. rewrite A, B, H3U, H3L. exact Q3.
  - (* CDeq *)
    assert (HeU : heldl QU s = [] /\ heldl QL s = []) by (apply heldl_not_dec; intro q'; rewrite Epc; discriminate).
    destruct HeU as [HeU HeL]. rewrite HeU, HeL in Q.
    destruct (items q (w_sh s)) as [|x r] eqn:Eit; inv H.
    + split; [exact T|].
      assert (Hh : heldl QU (set_cpc s (CEmp q)) = [] /\ heldl QL (set_cpc s (CEmp q)) = [])
        by (apply heldl_not_dec; intro q'; cbn; discriminate).
      destruct Hh as [-> ->]. exact Q.
    + split; [exact T|].
      pose proof (GQ_unlink _ _ _ _ q x r Q) as Q'.
      unfold heldl. cbn [con set_con set_sh c_pc c_set_pc c_held c_set_held w_gh w_sh w_env].
      destruct q; cbn [items] in Eit; specialize (Q' Eit); cbn [qid_eqb sh_items itemsU itemsL]; exact Q'.
  - (* CEmp, tau *)
    assert (HeU : heldl QU s = [] /\ heldl QL s = []) by (apply heldl_not_dec; intro q'; rewrite Epc; discriminate).
    destruct HeU as [HeU HeL]. rewrite HeU, HeL in Q.
    assert (G : forall s', w_gh s' = w_gh s -> trigs s' = trigs s -> w_sh s' = w_sh s -> w_env s' = w_env s ->
                (forall q', c_pc (con s') <> CDec q') ->
                GT (w_gh s') (trigs s') /\
                GQ (w_gh s') (itemsU (w_sh s')) (itemsL (w_sh s')) (heldl QU s') (heldl QL s') (closed (w_env s'))).
    { intros s' A B C D E. destruct (heldl_not_dec s' E) as [-> ->]. rewrite A, B, C, D. auto. }
    destruct q.
    + destruct (0 <? e_max (w_env s))%Z; inv H; apply G; try reflexivity; intro q'; cbn; discriminate.
    + inv H. apply G; try reflexivity; intro q'; cbn; discriminate.
  - (* CDec: the task runs *)
    unfold add_len in H.
    set (s2 := set_gh (set_sh s (sh_qlen (w_sh s) q (wrap32 (qlen q (w_sh s) + -1))))
                      (gh_ovf (w_gh s) (negb (in_i32 (qlen q (w_sh s) + -1))))) in *.
    set (x := c_held (con s)) in *.
    assert (Hh : heldl QU s = (match q with QU => [x] | QL => [] end) /\ heldl QL s = (match q with QU => [] | QL => [x] end)).
    { unfold heldl. rewrite Epc. destruct q; auto. }
    destruct Hh as [HhU HhL]. rewrite HhU, HhL in Q.
    assert (Hi2 : loop_idle s2) by exact Hidle.
    assert (Hc2 : c_chores (con s2) = false) by exact Hch.
    pose proof (exec_task_frame s2 q x Hi2 Hc2) as R. cbn zeta in R.
    (* shape of exec_task: ghost update, then resume *)
    unfold exec_task in H, R.
    set (cbs := if sp_cb (tk_spec x) then [tk_id x] else []) in *.
    assert (Gen : forall e1 trs (o1 : wobs) s3 o3,
      (match sp_kind (tk_spec x) with
       | KPlain => closed e1 = closed (w_env s) /\ trs = []
       | KWake c => closed e1 = closed (w_env s) /\ trs = (if zmem c (closed (w_env s)) then [] else [(tk_id x, c)])
       | KClose c => closed e1 = c :: closed (w_env s) /\ trs = []
       end) ->
      let sa := set_gh (set_env s2 e1) (gh_exec (w_gh s2) q x cbs trs) in
      let c0 := c_set_todo (con sa) (lookup_script (scripts e1) (sp_script (tk_spec x))) in
      let cc := match q with QU => c_set_phase c0 PhUrgent | QL => c_set_low (c_set_phase c0 PhLow) (c_low c0 + 1) end in
      resume (set_con sa cc) = (s3, o3) ->
      d_q QU s3 = 0%Z -> d_q QL s3 = 0%Z ->
      GT (w_gh s3) (trigs s3) /\
      GQ (w_gh s3) (itemsU (w_sh s3)) (itemsL (w_sh s3)) (heldl QU s3) (heldl QL s3) (closed (w_env s3))).
    { intros e1 trs o1 s3 o3 Hk sa c0 cc Er J1 J2.
      pose proof (resume_shape (set_con sa cc)) as Sh. rewrite Er in Sh. cbn [fst] in Sh.
      apply rshape_con_l in Sh.
      destruct (heldl_d s3 J1 J2) as [H3U H3L]. rewrite H3U, H3L.
      assert (Ta : GT (w_gh sa) (trigs sa)).
      { unfold sa, s2. cbn [set_gh set_env set_sh w_gh trigs]. eapply GT_ext; [| | | | |exact T]; reflexivity. }
      assert (Qa : GQ (w_gh sa) (itemsU (w_sh s)) (itemsL (w_sh s)) [] [] (closed e1)).
      { unfold sa, s2. cbn [set_gh set_env set_sh w_gh].
        assert (Qo : GQ (gh_ovf (w_gh s) (negb (in_i32 (qlen q (w_sh s) + -1)))) (itemsU (w_sh s)) (itemsL (w_sh s))
                        (match q with QU => [x] | QL => [] end) (match q with QU => [] | QL => [x] end) (closed (w_env s)))
          by (eapply GQ_ext; [| | | | |exact Q]; reflexivity).
        apply (GQ_exec _ _ _ _ q x Qo).
        - destruct T as [_ _ _ Hn _ _ _ _ _]. exact Hn.
        - destruct (sp_kind (tk_spec x)); destruct Hk as [-> ->]; auto. }
      assert (Hia : loop_idle sa) by exact Hidle.
      destruct (rshape_ghost _ _ _ _ _ _ _ Sh Hia Ta Qa) as [T3 Q3].
      split; [exact T3|].
      inversion Sh as [A B C D|sp A B C D]; rewrite C, D; unfold sa, s2; cbn [set_gh set_env set_sh w_sh w_env sh_qlen];
        destruct q; exact Q3. }
    destruct (sp_kind (tk_spec x)) as [|c0|c0] eqn:Ek.
    + match type of H with context [resume ?a] => destruct (resume a) as [s3 o3] eqn:Er end.
      cbn [fst] in R. injection H as Hs Ho. subst s1 o. destruct R as (_ & _ & _ & _ & _ & _ & _ & _ & J1 & J2 & _).
      eapply (Gen (w_env s2) [] []); [auto|exact Er|exact J1|exact J2].
    + destruct (zmem c0 (closed (w_env s2))) eqn:Ez.
      * match type of H with context [resume ?a] => destruct (resume a) as [s3 o3] eqn:Er end.
        cbn [fst] in R. injection H as Hs Ho. subst s1 o. destruct R as (_ & _ & _ & _ & _ & _ & _ & _ & J1 & J2 & _).
        eapply (Gen (w_env s2) [] []); [split; [reflexivity|]|exact Er|exact J1|exact J2].
        change (closed (w_env s2)) with (closed (w_env s)) in Ez. rewrite Ez. reflexivity.
      * match type of H with context [resume ?a] => destruct (resume a) as [s3 o3] eqn:Er end.
        cbn [fst] in R. injection H as Hs Ho. subst s1 o. destruct R as (_ & _ & _ & _ & _ & _ & _ & _ & J1 & J2 & _).
        eapply (Gen (w_env s2) [(tk_id x, c0)] [EvTraffic c0]); [split; [reflexivity|]|exact Er|exact J1|exact J2].
        change (closed (w_env s2)) with (closed (w_env s)) in Ez. rewrite Ez. reflexivity.
    + match type of H with context [resume ?a] => destruct (resume a) as [s3 o3] eqn:Er end.
      cbn [fst] in R. injection H as Hs Ho. subst s1 o. destruct R as (_ & _ & _ & _ & _ & _ & _ & _ & J1 & J2 & _).
      eapply (Gen (e_set_closed (w_env s2) (c0 :: closed (w_env s2))) [] []); [auto|exact Er|exact J1|exact J2].
  - (* CStore *)
    inv H. destruct (heldl_not_dec s) as [HeU HeL]; [intro q; rewrite Epc; discriminate|].
    rewrite HeU, HeL in Q. split; [exact T|].
    destruct (heldl_not_dec (set_cpc (set_sh s (sh_flag (w_sh s) 0)) CChkL)) as [-> ->]; [intro q; cbn; discriminate|]. exact Q.
  - (* CChkL *)
    inv H. destruct (heldl_not_dec s) as [HeU HeL]; [intro q; rewrite Epc; discriminate|].
    rewrite HeU, HeL in Q. split; [exact T|].
    match goal with |- GQ _ _ _ (heldl QU ?a) _ _ => destruct (heldl_not_dec a) as [-> ->] end;
      [intro q; cbn; destruct (lenL (w_sh s) =? 0)%Z; discriminate|]. exact Q.
  - (* CChkU *)
    inv H. destruct (heldl_not_dec s) as [HeU HeL]; [intro q; rewrite Epc; discriminate|].
    rewrite HeU, HeL in Q. split; [exact T|].
    match goal with |- GQ _ _ _ (heldl QU ?a) _ _ => destruct (heldl_not_dec a) as [-> ->] end;
      [intro q; cbn; destruct (lenU (w_sh s) =? 0)%Z; discriminate|]. exact Q.
  - (* CCas *)
    destruct (heldl_not_dec s) as [HeU HeL]; [intro q; rewrite Epc; discriminate|].
    rewrite HeU, HeL in Q.
    destruct (flag (w_sh s) =? 0)%Z; inv H; (split; [exact T|]);
      match goal with |- GQ _ _ _ (heldl QU ?a) _ _ => destruct (heldl_not_dec a) as [-> ->] end;
      try (intro q; cbn; discriminate); exact Q.
  - (* CWr *)
    destruct (heldl_not_dec s) as [HeU HeL]; [intro q; rewrite Epc; discriminate|].
    rewrite HeU, HeL in Q.
    destruct (efd_write (w_sh s)) as [x1 r] eqn:Ew.
    assert (Ei : itemsU x1 = itemsU (w_sh s) /\ itemsL x1 = itemsL (w_sh s)).
    { unfold efd_write in Ew. destruct (efd_cnt (w_sh s) + 1 >? efd_max)%Z; inv Ew; auto. }
    destruct Ei as [EiU EiL].
    destruct r; inv H; (split; [exact T|]);
      match goal with |- GQ _ _ _ (heldl QU ?a) _ _ => destruct (heldl_not_dec a) as [-> ->] end;
      try (intro q; cbn; discriminate); cbn [set_cpc set_sh set_con w_gh w_sh w_env]; rewrite ?EiU, ?EiL; exact Q.
  - (* CWr, fault *)
    inv H. destruct (heldl_not_dec s) as [HeU HeL]; [intro q; rewrite Epc; discriminate|].
    rewrite HeU, HeL in Q. split.
    + cbn [set_cpc set_gh set_con w_gh trigs]. eapply GT_ext; [| | | | |exact T]; reflexivity.
    + match goal with |- GQ _ _ _ (heldl QU ?a) _ _ => destruct (heldl_not_dec a) as [-> ->] end;
        [intro q; cbn; discriminate|].
      cbn [set_cpc set_gh set_con w_gh w_sh w_env]. eapply GQ_ext; [| | | | |exact Q]; reflexivity.
  - (* CRd *)
    destruct (heldl_not_dec s) as [HeU HeL]; [intro q; rewrite Epc; discriminate|].
    rewrite HeU, HeL in Q.
    destruct (efd_read (w_sh s)) as [x1 v] eqn:Er.
    assert (Ei : itemsU x1 = itemsU (w_sh s) /\ itemsL x1 = itemsL (w_sh s)).
    { unfold efd_read in Er. destruct (efd_cnt (w_sh s) =? 0)%Z; inv Er; auto. }
    destruct Ei as [EiU EiL]. inv H. split; [exact T|].
    match goal with |- GQ _ _ _ (heldl QU ?a) _ _ => destruct (heldl_not_dec a) as [-> ->] end;
      [intro q; cbn; discriminate|].
    cbn [set_cpc set_sh set_con w_gh w_sh w_env]. rewrite EiU, EiL. exact Q.
Qed.

(* ---- every step ---- *)
Lemma wstep_ghost : forall s t c s1 o,
  wstep s t c = (s1, o) -> loop_ok s -> ghost_inv s -> ghost_inv s1.
Proof.
  intros s t c s1 o H Lk GI. unfold wstep in H.
  assert (Prod : forall t', (let '(s2, o2, _) := trig_step s (S t') c in (s2, o2)) = (s1, o) -> ghost_inv s1).
  { intros t' H'. destruct (trig_step s (S t') c) as [[s2 o2] done] eqn:Et. inv H'.
    destruct GI as [T Q].
    destruct (trig_step_ghost _ _ _ _ _ _ _ _ Et T Q) as (T2 & Q2 & Econ & _).
    split; [exact T2|]. unfold heldl. rewrite Econ. exact Q2. }
  destruct c as [order| | |sp|v|k sc|k l].
  - destruct t; [apply (cons_step_ghost _ _ _ _ H Lk GI)|apply (Prod _ H)].
  - destruct t; [apply (cons_step_ghost _ _ _ _ H Lk GI)|apply (Prod _ H)].
  - destruct t; [apply (cons_step_ghost _ _ _ _ H Lk GI)|apply (Prod _ H)].
  - destruct t as [|t']; [inv H; exact GI|].
    destruct (t_pc (get_trig (trigs s) (S t'))) eqn:Epc; try (inv H; exact GI).
    unfold start_trig in H. inv H. destruct GI as [T Q]. split.
    + cbn [set_trig set_trigs set_gh trigs w_gh]. apply (GT_begin _ _ (S t') sp T Epc).
    + unfold heldl. cbn [set_trig set_trigs set_gh trigs w_gh w_sh w_env con].
      eapply GQ_ext; [| | | | |exact Q]; reflexivity.
  - unfold env_step in H.
    destruct ((0 <? v)%Z && (efd_cnt (w_sh s) + v <=? efd_max)%Z); inv H; exact GI.
  - unfold env_step in H.
    destruct ((k <? 0)%Z || existsb (fun e => Z.eqb (fst e) k) (io_pend (w_env s))); inv H; exact GI.
  - unfold env_step in H. inv H. exact GI.
Qed.

Theorem ghost_inv_reachable : forall s, wk_reachable s -> sane s -> ghost_inv s.
Proof.
  intros s R. induction R as [s [thr [max Hi]]|s l s' R IH Hs]; intro Sn.
  - subst s. split; [apply GT_init|apply GQ_init].
  - destruct l as [[t c] o]. unfold wk_step in Hs. cbn [fst snd] in Hs.
    pose proof (sane_back _ _ _ _ _ Hs Sn) as Sb.
    destruct (winv_reachable s R Sb) as (_ & Lk & _).
    eapply wstep_ghost; eauto.
Qed.

(* ---- exactly once ---- *)
Lemma in_execq_inv : forall g q x, In x (execq q g) -> In (q, x) (g_exec g).
Proof.
  intros g q x H. unfold execq in H. apply in_map_iff in H. destruct H as [[q' y] [E H]]. cbn in E. subst y.
  apply filter_In in H. destruct H as [H1 H2]. cbn in H2. destruct q, q'; try discriminate; exact H1.
Qed.

Theorem exactly_once : forall s, wk_reachable s -> sane s ->
  NoDup (map eid (g_exec (w_gh s))) /\
  g_cb (w_gh s) = flat_map cbf (g_exec (w_gh s)) /\
  (forall e, In e (g_exec (w_gh s)) -> In (snd e) (g_begun (w_gh s))) /\
  (quiescent s -> forall i, In i (g_acc (w_gh s)) -> In i (map eid (g_exec (w_gh s)))).
Proof.
  intros s R Sn. destruct (ghost_inv_reachable s R Sn) as [T Q].
  destruct T as [T1 T2 T3 T4 T5 T6 T7 T8 T9]. destruct Q as [Q1 Q2 Q3 Q4 Q5 Q6 Q7].
  splits.
  - exact Q3.
  - exact Q4.
  - intros [q x] He. cbn. apply T3. unfold linked. apply in_execq in He.
    destruct q; apply in_or_app; [left; rewrite Q1|right; rewrite Q2]; apply in_or_app; left; exact He.
  - intros Qs i Hi. destruct (no_lost_wakeup s R Sn Qs) as [EU EL].
    destruct Qs as (_ & Hpc & _).
    destruct (heldl_not_dec s) as [HU HL]; [intro q; rewrite Hpc; discriminate|].
    rewrite EU, HU in Q1. rewrite EL, HL in Q2. rewrite !app_nil_r in Q1, Q2.
    specialize (T9 i Hi). unfold ids, linked in T9. rewrite Q1, Q2 in T9.
    apply in_map_iff in T9. destruct T9 as [x [Ex Hx]]. apply in_app_iff in Hx.
    apply in_map_iff. destruct Hx as [Hx|Hx]; apply in_execq_inv in Hx; eexists; (split; [|exact Hx]); exact Ex.
Qed.

(* ---- per-producer order of high-priority requests ---- *)
Definition execl (q : qid) (l : list (qid * task)) : list task :=
  map snd (filter (fun e => qid_eqb (fst e) q) l).

Lemma execl_app : forall q l1 l2, execl q (l1 ++ l2) = execl q l1 ++ execl q l2.
Proof. intros. unfold execl. rewrite filter_app, map_app. reflexivity. Qed.

Lemma in_execl_inv : forall l q x, In x (execl q l) -> In (q, x) l.
Proof.
  intros l q x H. unfold execl in H. apply in_map_iff in H. destruct H as [[q' y] [E H]]. cbn in E. subst y.
  apply filter_In in H. destruct H as [H1 H2]. cbn in H2. destruct q, q'; try discriminate; exact H1.
Qed.

Theorem urgent_fifo_per_producer : forall s a b l1 l2 q, wk_reachable s -> sane s ->
  In a (g_begun (w_gh s)) -> In b (g_begun (w_gh s)) ->
  tk_prod a = tk_prod b -> sp_high (tk_spec a) = true -> sp_high (tk_spec b) = true ->
  (tk_id a < tk_id b)%nat ->
  g_exec (w_gh s) = l1 ++ (q, b) :: l2 ->
  exists q' l3 l4, l1 = l3 ++ (q', a) :: l4.
Proof.
  intros s a b l1 l2 q R Sn Ha Hb Hp Hha Hhb Hlt Hex.
  destruct (ghost_inv_reachable s R Sn) as [T Q].
  destruct T as [T1 T2 T3 T4 T5 T6 T7 T8 T9]. destruct Q as [Q1 Q2 Q3 Q4 Q5 Q6 Q7].
  (* b came from the urgent queue *)
  assert (Hbe : In (q, b) (g_exec (w_gh s))) by (rewrite Hex; apply in_or_app; right; left; reflexivity).
  assert (Eq : q = QU).
  { destruct q; [reflexivity|]. exfalso. apply in_execq in Hbe.
    assert (In b (g_linkL (w_gh s))) by (rewrite Q2; apply in_or_app; left; exact Hbe).
    rewrite (T7 b H) in Hhb. discriminate. }
  subst q.
  assert (HbU : In b (g_linkU (w_gh s))) by (rewrite Q1; apply in_or_app; left; apply in_execq; exact Hbe).
  (* a has been linked, into the urgent queue *)
  assert (HaL : In a (linked (w_gh s))).
  { destruct (T6 a Ha) as [L|[P Qa]]; [exact L|]. exfalso.
    assert (Hpc : t_pc (get_trig (trigs s) (tk_prod a)) <> TIdle).
    { intro X. rewrite X in P. discriminate. }
    destruct (T5 _ Hpc) as (_ & _ & C & _). destruct (C P) as [_ Co]. rewrite Qa in Co.
    assert (In b (linked (w_gh s))) by (unfold linked; apply in_or_app; left; exact HbU).
    specialize (Co b H (eq_sym Hp)). lia. }
  assert (HaU : In a (g_linkU (w_gh s))).
  { unfold linked in HaL. apply in_app_iff in HaL. destruct HaL as [X|X]; [exact X|].
    rewrite (T7 a X) in Hha. discriminate. }
  (* position of a relative to b in the urgent queue's link order *)
  unfold execq in Q1. rewrite Hex in Q1. fold (execl QU (l1 ++ (QU, b) :: l2)) in Q1.
  rewrite execl_app in Q1. unfold execl at 2 in Q1. cbn [filter fst qid_eqb map snd] in Q1.
  fold (execl QU l2) in Q1.
  rewrite <- app_assoc in Q1. cbn [app] in Q1.
  set (rest := execl QU l2 ++ heldl QU s ++ itemsU (w_sh s)) in *.
  rewrite Q1 in HaU. apply in_app_iff in HaU. destruct HaU as [X|[X|X]].
  - apply in_execl_inv in X. apply in_split in X. destruct X as [l3 [l4 E]]. exists QU, l3, l4. exact E.
  - exfalso. subst a. lia.
  - exfalso. apply in_split in X. destruct X as [m1 [m2 E]]. rewrite E in Q1.
    specialize (T8 (execl QU l1) b m1 a m2 Q1 (eq_sym Hp)). lia.
Qed.

(* ---- a Wake on an open connection: exactly one OnTraffic ---- *)
Theorem wake_one_traffic : forall s, wk_reachable s -> sane s ->
  NoDup (map fst (g_traffic (w_gh s))) /\
  (forall i c, In (i, c) (g_traffic (w_gh s)) ->
     exists q x, In (q, x) (g_exec (w_gh s)) /\ tk_id x = i /\ sp_kind (tk_spec x) = KWake c) /\
  (forall q x c, In (q, x) (g_exec (w_gh s)) -> sp_kind (tk_spec x) = KWake c -> ~ In c (closed (w_env s)) ->
     In (tk_id x, c) (g_traffic (w_gh s))).
Proof.
  intros s R Sn. destruct (ghost_inv_reachable s R Sn) as [_ Q].
  destruct Q as [Q1 Q2 Q3 Q4 Q5 Q6 Q7]. splits; assumption.
Qed.
