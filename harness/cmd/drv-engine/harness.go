package main

import (
	"bytes"
	"context"
	"errors"
	"fmt"
	"net"
	"os"
	"runtime"
	"sort"
	"strconv"
	"sync"
	"sync/atomic"
	"time"

	"golang.org/x/sys/unix"

	gnet "github.com/panjf2000/gnet/v2"
	errorx "github.com/panjf2000/gnet/v2/pkg/errors"
	"github.com/panjf2000/gnet/v2/pkg/vunix"

	"verifharness/tr"
)

// ---------------------------------------------------------------- small things

func goid() int64 {
	var buf [64]byte
	n := runtime.Stack(buf[:], false)
	b := buf[len("goroutine "):n]
	i := bytes.IndexByte(b, ' ')
	id, _ := strconv.ParseInt(string(b[:i]), 10, 64)
	return id
}

func actOf(s string) gnet.Action {
	switch s {
	case "close":
		return gnet.Close
	case "shutdown":
		return gnet.Shutdown
	}
	return gnet.None
}

func actName(a gnet.Action) string {
	switch a {
	case gnet.Close:
		return "close"
	case gnet.Shutdown:
		return "shutdown"
	}
	return "none"
}

func classOf(err error) string {
	switch {
	case err == nil:
		return "nil"
	case errors.Is(err, errorx.ErrEmptyEngine):
		return "empty"
	case errors.Is(err, errorx.ErrEngineInShutdown):
		return "inshutdown"
	case errors.Is(err, context.Canceled), errors.Is(err, context.DeadlineExceeded):
		return "ctxerr"
	case errors.Is(err, errorx.ErrInvalidNetworkAddress):
		return "invalidaddr"
	case errors.Is(err, errorx.ErrInvalidNetConn):
		return "invalidconn"
	case errors.Is(err, errorx.ErrNilRunnable):
		return "nilrunnable"
	case errors.Is(err, errorx.ErrUnsupportedOp):
		return "unsupported"
	}
	return "oserr"
}

type hres struct {
	act   gnet.Action
	wfail bool
	cact  gnet.Action
}

func hresOf(a, w, c string) hres { return hres{actOf(a), w == "1", actOf(c)} }

// thread ranks for the canonical per-thread report (must mirror Model/Engine.v thread_order)
const (
	rankR = 0
	rankL = 1
	rankA = 100000
	rankT = 100001
	rankU = 200000
	rankW = 300000
)

type event struct {
	rank  int
	thr   []string
	kind  []string
	isCb  bool
	after bool // logged after Run / Client.Stop had returned
}

type connRec struct {
	cid             int
	c               gnet.Conn
	li              int
	peer            net.Conn
	peerLocal       string
	tag             int
	openH           hres
	trafQ           []hres
	cact            gnet.Action
	inWfail         bool
	entered         int // callbacks entered
	done            int // callbacks finished
	opened          int
	closed          int
	closedBeforeRet bool
}

type pollerInfo struct {
	epfd, efd int
	idle      bool
}

type caseCfg struct {
	client    bool
	nloops    int
	reuseport bool
	ticker    bool
	nlis      int
	proto     string // tcp | unix | udp
	et        bool
	nusers    int
}

func (c *caseCfg) reactor() bool {
	if c.client {
		return false
	}
	return !(c.proto == "udp" || (c.reuseport && c.proto != "unix"))
}

type userCmd func()

// X is the per-case harness: the event handler, the syscall hooks, the scripted peers.
type X struct {
	gnet.BuiltinEventEngine
	cfg caseCfg

	mu          sync.Mutex
	cond        *sync.Cond
	closeChecks sync.WaitGroup // registration results whose channel-closure check is still running
	events      []event
	win         int
	fails       [][3]string
	lastAct     atomic.Int64

	// engine
	eng            gnet.Engine
	haveEng        bool
	cli            *gnet.Client
	addrs          []string // protoAddr of every listener
	lisNet         []string
	lisAddr        []string
	done           chan error
	returned       bool
	retErr         error
	booted         bool
	bootAct        gnet.Action
	started        bool
	rGoid          int64
	sdGoid         int64 // goroutine that ran OnShutdown
	pollers        []*pollerInfo
	gPoller        map[int64]int // goroutine -> poller index
	closedPollerFd map[int]bool  // poller descriptors the framework has closed (numbers not handed out again since)
	loopHandle     map[int]gnet.EventLoop

	// pins
	pinBoot, pinOnShutdown, pinClosePollers, pinT bool
	pinL                                          map[int]bool
	nBlocked                                      map[int]int // callbacks of loop i currently held by a pin
	inCb                                          int         // connection callbacks entered and not yet finished
	atBoot, atOnShutdown, atClosePollers          bool
	relBoot, relOnShutdown, relClosePollers       chan struct{}

	// connections
	conns       []*connRec
	byConn      map[gnet.Conn]*connRec
	byTag       map[int]*connRec
	pendingConn []*connRec
	nextCid     int
	nextTag     int
	failWr      map[int]bool
	datagramQ   []gnet.Action
	udpPeer     net.Conn

	// ticker
	tickQ    []gnet.Action
	caseOver bool

	// control calls
	users        map[int]chan userCmd
	pendingStop  map[int]context.CancelFunc
	busy         map[int]bool
	nWorkers     int
	workerDone   map[int]bool
	workerExpect map[int]bool
	workerLate   map[int]bool
	pinnedAtEnd  bool
	carry        []event
	endEvents    int
	endWorkers   map[int]bool
	aux          net.Listener
	auxConns     map[string]net.Conn // by remote address
	execN        int

	// what the driver knows about requests (for the direct oracles)
	requests       []string
	expectStranded bool
}

func newX(cfg caseCfg) *X {
	x := &X{cfg: cfg, gPoller: map[int64]int{}, closedPollerFd: map[int]bool{}, loopHandle: map[int]gnet.EventLoop{}, pinL: map[int]bool{}, nBlocked: map[int]int{},
		byConn: map[gnet.Conn]*connRec{}, byTag: map[int]*connRec{}, failWr: map[int]bool{},
		users: map[int]chan userCmd{}, pendingStop: map[int]context.CancelFunc{}, busy: map[int]bool{},
		workerDone: map[int]bool{}, workerExpect: map[int]bool{}, workerLate: map[int]bool{}, auxConns: map[string]net.Conn{},
		relBoot: make(chan struct{}), relOnShutdown: make(chan struct{}), relClosePollers: make(chan struct{}),
		done: make(chan error, 1)}
	x.cond = sync.NewCond(&x.mu)
	x.bump()
	return x
}

// wake broadcasts under the lock: a waiter that armed the timer while holding the lock is
// registered in cond.Wait by the time the lock can be taken here, so the wake-up is never lost
func (x *X) wake() {
	x.mu.Lock()
	x.cond.Broadcast()
	x.mu.Unlock()
}

func (x *X) bump() { x.lastAct.Store(time.Now().UnixNano()) }

func (x *X) logLocked(rank int, thr []string, isCb bool, kind ...string) {
	x.events = append(x.events, event{rank: rank, thr: thr, kind: kind, isCb: isCb, after: x.returned})
	x.bump()
	x.cond.Broadcast()
}

func (x *X) log(rank int, thr []string, isCb bool, kind ...string) {
	x.mu.Lock()
	x.logLocked(rank, thr, isCb, kind...)
	x.mu.Unlock()
}

func (x *X) fail(site, sig, detail string) {
	x.mu.Lock()
	x.fails = append(x.fails, [3]string{site, sig, detail})
	x.mu.Unlock()
}

func (x *X) failLocked(site, sig, detail string) {
	x.fails = append(x.fails, [3]string{site, sig, detail})
}

func thrL(i int) (int, []string) { return rankL + i, []string{"L", tr.I(i)} }
func thrU(g int) (int, []string) { return rankU + g, []string{"U", tr.I(g)} }
func thrW(k int) (int, []string) { return rankW + k, []string{"W", tr.I(k)} }

func (x *X) request(src string) {
	x.mu.Lock()
	x.requests = append(x.requests, src)
	x.mu.Unlock()
}

// ---------------------------------------------------------------- syscall hooks

func (x *X) Before(c *vunix.Call) {
	x.bump()
	g := goid()
	var block chan struct{}
	x.mu.Lock()
	switch c.Name {
	case "epoll_wait":
		if pi, ok := x.gPoller[g]; ok {
			if c.Arg < 0 {
				x.pollers[pi].idle = true
				x.cond.Broadcast()
			}
		} else {
			for i, p := range x.pollers {
				if p.epfd == c.Fd {
					x.gPoller[g] = i
					if c.Arg < 0 {
						p.idle = true
						x.cond.Broadcast()
					}
				}
			}
		}
	case "write", "writev":
		if x.failWr[c.Fd] {
			delete(x.failWr, c.Fd)
			c.Skip, c.Ret, c.Err = true, -1, unix.EPIPE
			_ = unix.Shutdown(c.Fd, unix.SHUT_RDWR)
		}
	case "close":
		if x.closedPollerFd[c.Fd] {
			// C07/C19: the descriptors of a poller are closed once; a number closed before belongs to somebody else
			delete(x.closedPollerFd, c.Fd)
			x.failLocked("control-table", "poller-descriptor-closed-again", fmt.Sprintf("close(%d): the number of a poller descriptor the framework had already closed", c.Fd))
		}
		if x.pinClosePollers && !x.atClosePollers && x.sdGoid != 0 && g == x.sdGoid {
			x.atClosePollers = true
			block = x.relClosePollers
			x.cond.Broadcast()
		}
	}
	x.mu.Unlock()
	if block != nil {
		<-block
		x.bump()
	}
}

func (x *X) After(c *vunix.Call) {
	x.bump()
	x.mu.Lock()
	switch c.Name {
	case "epoll_create1":
		if c.Err == nil {
			x.pollers = append(x.pollers, &pollerInfo{epfd: c.Ret, efd: -1})
		}
	case "eventfd":
		if c.Err == nil && len(x.pollers) > 0 {
			x.pollers[len(x.pollers)-1].efd = c.Ret
		}
	case "epoll_wait":
		if pi, ok := x.gPoller[goid()]; ok {
			x.pollers[pi].idle = false
		}
	case "close":
		if c.Err == nil {
			for _, p := range x.pollers {
				if p.epfd == c.Fd || p.efd == c.Fd {
					x.closedPollerFd[c.Fd] = true
				}
			}
		}
	case "accept4", "accept", "socket", "fcntl":
		if c.Err == nil {
			delete(x.closedPollerFd, c.Ret)
		}
	}
	if (c.Name == "epoll_create1" || c.Name == "eventfd") && c.Err == nil {
		delete(x.closedPollerFd, c.Ret)
	}
	x.mu.Unlock()
}

// ---------------------------------------------------------------- event handler

func (x *X) OnBoot(eng gnet.Engine) gnet.Action {
	x.mu.Lock()
	x.eng, x.haveEng = eng, true
	x.rGoid = goid()
	x.logLocked(rankR, []string{"R"}, true, "boot")
	a := x.bootAct
	var block chan struct{}
	if x.pinBoot {
		x.atBoot = true
		block = x.relBoot
		x.cond.Broadcast()
	}
	x.mu.Unlock()
	if a == gnet.Shutdown && !x.cfg.client {
		x.request("onboot")
	}
	if block != nil {
		<-block
		x.bump()
	}
	return a
}

func (x *X) OnShutdown(eng gnet.Engine) {
	x.mu.Lock()
	x.sdGoid = goid()
	x.logLocked(rankR, []string{"R"}, true, "shutdown")
	var block chan struct{}
	if x.pinOnShutdown {
		x.atOnShutdown = true
		block = x.relOnShutdown
		x.cond.Broadcast()
	}
	x.mu.Unlock()
	if block != nil {
		<-block
		x.bump()
	}
}

// waitPinLocked blocks (lock held, released while waiting) while loop li is pinned.
func (x *X) waitPinLocked(li int) {
	x.nBlocked[li]++
	for x.pinL[li] && !x.caseOver {
		x.cond.Wait()
	}
	x.nBlocked[li]--
	x.bump()
}

func (x *X) matchOpenLocked(c gnet.Conn) *connRec {
	if t, ok := c.Context().(int); ok {
		if cr := x.byTag[t]; cr != nil {
			return cr
		}
	}
	ra := ""
	if c.RemoteAddr() != nil {
		ra = c.RemoteAddr().String()
	}
	for i, cr := range x.pendingConn {
		if cr.peerLocal != "" && cr.peerLocal == ra {
			x.pendingConn = append(x.pendingConn[:i:i], x.pendingConn[i+1:]...)
			return cr
		}
	}
	for i, cr := range x.pendingConn {
		if cr.peerLocal == "" || cr.peerLocal == "@" {
			x.pendingConn = append(x.pendingConn[:i:i], x.pendingConn[i+1:]...)
			return cr
		}
	}
	return nil
}

// afterCb performs the scripted write failure and bookkeeping common to OnOpen and OnTraffic.
func (x *X) afterCb(cr *connRec, c gnet.Conn, h hres, where string) gnet.Action {
	if h.wfail {
		x.mu.Lock()
		cr.cact = h.cact
		cr.inWfail = true
		x.failWr[c.Fd()] = true
		x.mu.Unlock()
		_, _ = c.Write([]byte("w"))
		x.mu.Lock()
		cr.inWfail = false
		delete(x.failWr, c.Fd())
		x.mu.Unlock()
	} else if h.act == gnet.Close {
		x.mu.Lock()
		cr.cact = h.cact
		x.mu.Unlock()
	}
	if h.act == gnet.Shutdown {
		x.request(where)
	}
	return h.act
}

func (x *X) OnOpen(c gnet.Conn) ([]byte, gnet.Action) {
	x.bump()
	li := gnet.VerifEventLoopIndex(c.EventLoop())
	x.mu.Lock()
	cr := x.matchOpenLocked(c)
	if cr == nil {
		cr = &connRec{cid: -1, tag: -1}
		x.conns = append(x.conns, cr)
	}
	cr.c, cr.li = c, li
	x.byConn[c] = cr
	x.loopHandle[li] = c.EventLoop()
	cr.entered++
	x.inCb++
	x.cond.Broadcast()
	x.waitPinLocked(li)
	rk, th := thrL(li)
	x.logLocked(rk, th, true, "open", tr.I(cr.cid))
	cr.opened++
	h := cr.openH
	x.mu.Unlock()
	a := x.afterCb(cr, c, h, "onopen")
	x.mu.Lock()
	cr.done++
	x.inCb--
	x.bump()
	x.cond.Broadcast()
	x.mu.Unlock()
	return nil, a
}

func (x *X) OnTraffic(c gnet.Conn) gnet.Action {
	x.bump()
	li := gnet.VerifEventLoopIndex(c.EventLoop())
	_, _ = c.Discard(-1)
	x.mu.Lock()
	cr := x.byConn[c]
	if cr == nil {
		// UDP: a transient connection per datagram
		a := gnet.None
		if len(x.datagramQ) > 0 {
			a = x.datagramQ[0]
			x.datagramQ = x.datagramQ[1:]
		}
		x.loopHandle[li] = c.EventLoop()
		x.waitPinLocked(li)
		rk, th := thrL(li)
		x.logLocked(rk, th, true, "datagram")
		x.mu.Unlock()
		if a == gnet.Shutdown {
			x.request("ontraffic-udp")
		}
		return a
	}
	cr.entered++
	x.inCb++
	x.cond.Broadcast()
	x.waitPinLocked(li)
	h := hres{}
	if len(cr.trafQ) > 0 {
		h = cr.trafQ[0]
		cr.trafQ = cr.trafQ[1:]
	}
	rk, th := thrL(li)
	x.logLocked(rk, th, true, "traffic", tr.I(cr.cid))
	x.mu.Unlock()
	a := x.afterCb(cr, c, h, "ontraffic")
	x.mu.Lock()
	cr.done++
	x.inCb--
	x.bump()
	x.cond.Broadcast()
	x.mu.Unlock()
	return a
}

func (x *X) OnClose(c gnet.Conn, err error) gnet.Action {
	x.bump()
	li := gnet.VerifEventLoopIndex(c.EventLoop())
	x.mu.Lock()
	cr := x.byConn[c]
	if cr == nil {
		x.mu.Unlock()
		return gnet.None
	}
	nested := cr.entered > cr.done
	if !nested {
		cr.entered++
		x.inCb++
		x.cond.Broadcast()
		x.waitPinLocked(li)
	}
	rk, th := thrL(li)
	x.logLocked(rk, th, true, "close", tr.I(cr.cid))
	cr.closed++
	a := cr.cact
	cr.cact = gnet.None
	wf := cr.inWfail
	if !nested {
		cr.done++
		x.inCb--
	}
	x.cond.Broadcast()
	x.mu.Unlock()
	if a == gnet.Shutdown {
		if wf {
			x.request("onclose/write-fail")
		} else {
			x.request("onclose")
		}
	}
	return a
}

func (x *X) OnTick() (time.Duration, gnet.Action) {
	x.bump()
	x.mu.Lock()
	defer x.mu.Unlock()
	for {
		if x.caseOver {
			return time.Hour, gnet.None
		}
		if !x.pinT {
			if len(x.tickQ) > 0 {
				a := x.tickQ[0]
				x.tickQ = x.tickQ[1:]
				x.logLocked(rankT, []string{"T"}, true, "tick")
				if a == gnet.Shutdown {
					x.requests = append(x.requests, "ontick")
				}
				return 0, a
			}
			if x.haveEng {
				if _, cancelled, _, _ := gnet.VerifEngState(x.eng); cancelled {
					return time.Hour, gnet.None
				}
			}
		}
		// wake up regularly: cancellation is not signalled to the harness
		t := time.AfterFunc(300*time.Microsecond, x.wake)
		x.cond.Wait()
		t.Stop()
	}
}

// ---------------------------------------------------------------- waiting

// waitFor waits until cond() (evaluated under the lock) holds or the deadline passes.
func (x *X) waitFor(max time.Duration, cond func() bool) bool {
	deadline := time.Now().Add(max)
	x.mu.Lock()
	defer x.mu.Unlock()
	for !cond() {
		if time.Now().After(deadline) {
			return false
		}
		t := time.AfterFunc(500*time.Microsecond, x.wake)
		x.cond.Wait()
		t.Stop()
	}
	return true
}

// quiet waits until nothing has happened for `settle`.
func (x *X) quiet(settle, max time.Duration) {
	deadline := time.Now().Add(max)
	for {
		since := time.Duration(time.Now().UnixNano() - x.lastAct.Load())
		if since >= settle || time.Now().After(deadline) {
			return
		}
		d := settle - since
		if d < 100*time.Microsecond {
			d = 100 * time.Microsecond
		}
		time.Sleep(d)
	}
}

func (x *X) anyPinLocked() bool {
	if x.pinBoot && !x.booted || x.pinOnShutdown || x.pinClosePollers {
		return true
	}
	if x.pinT && x.cfg.ticker {
		return true
	}
	for _, p := range x.pinL {
		if p {
			return true
		}
	}
	return false
}

func (x *X) cancelled() bool {
	if !x.haveEng {
		return false
	}
	_, c, _, _ := gnet.VerifEngState(x.eng)
	return c
}

var settleDur = 3 * time.Millisecond

// settleAll is run after every op: wait for the consequences the harness can foresee, then for silence.
func (x *X) settleAll() {
	// callbacks that are running (not held by a pin) finish first
	x.waitFor(time.Second, func() bool {
		held := 0
		for _, n := range x.nBlocked {
			held += n
		}
		return x.inCb <= held
	})
	x.quiet(settleDur, 2*time.Second)
	x.mu.Lock()
	pins := x.anyPinLocked()
	asked := len(x.requests) > 0
	ret := x.returned
	started := x.started
	client := x.cfg.client
	atSD := x.pinOnShutdown
	atCP := x.pinClosePollers
	loopPins := false
	for _, p := range x.pinL {
		loopPins = loopPins || p
	}
	tPin := x.pinT && x.cfg.ticker
	x.mu.Unlock()
	x.mu.Lock()
	clientStopping := client && x.rGoid == -1
	x.mu.Unlock()
	if clientStopping && !ret {
		switch {
		case !pins:
			x.waitFor(3*time.Second, func() bool { return x.returned })
		case atSD:
			x.waitFor(3*time.Second, func() bool { return x.atOnShutdown })
		}
	}
	if started && !ret && !client && (asked || x.cancelled()) {
		switch {
		case !pins:
			x.waitFor(3*time.Second, func() bool { return x.returned })
		case atSD:
			x.waitFor(3*time.Second, func() bool { return x.atOnShutdown })
		case atCP && !loopPins && !tPin:
			x.waitFor(3*time.Second, func() bool { return x.atClosePollers })
		}
	}
	x.mu.Lock()
	ret = x.returned
	x.mu.Unlock()
	if ret {
		// every pending Stop notices inShutdown within one poll interval
		x.waitFor(300*time.Millisecond, func() bool {
			for _, b := range x.busy {
				if b {
					return false
				}
			}
			return true
		})
	}
	x.quiet(settleDur, 2*time.Second)
}

// ---------------------------------------------------------------- window report

// pinsSetLocked: is any pin flag set (the rule of Model/Engine.v run_ops: rs_pins non-empty)?
func (x *X) pinsSetLocked() bool {
	if x.pinBoot || x.pinOnShutdown || x.pinClosePollers || x.pinT {
		return true
	}
	for _, p := range x.pinL {
		if p {
			return true
		}
	}
	return false
}

// window returns the events to report for the op that just settled.  Events of the engine's own
// threads are held back while a pin is armed (unless force) and reported in the first window
// without pins; results of user goroutines and workers are reported at once.
func (x *X) window(force bool) []tr.Line {
	x.mu.Lock()
	fresh := append([]event(nil), x.events[x.win:]...)
	x.win = len(x.events)
	held := x.pinsSetLocked() && !force
	all := append(x.carry, fresh...)
	x.carry = nil
	var evs []event
	for _, e := range all {
		if held && e.rank < rankU {
			x.carry = append(x.carry, e)
		} else {
			evs = append(evs, e)
		}
	}
	x.mu.Unlock()
	sort.SliceStable(evs, func(i, j int) bool { return evs[i].rank < evs[j].rank })
	// canonical order of runs of close events within a thread
	for i := 0; i < len(evs); {
		j := i
		for j < len(evs) && evs[j].rank == evs[i].rank && evs[j].kind[0] == "close" {
			j++
		}
		if j > i+1 {
			sort.SliceStable(evs[i:j], func(a, b int) bool {
				ca, _ := strconv.Atoi(evs[i+a].kind[1])
				cb, _ := strconv.Atoi(evs[i+b].kind[1])
				return ca < cb
			})
		}
		if j == i {
			j = i + 1
		}
		i = j
	}
	var out []tr.Line
	for _, e := range evs {
		out = append(out, tr.L("ev", append(append([]string{}, e.thr...), e.kind...)...))
	}
	return out
}

// ---------------------------------------------------------------- engine start

var sockCount int

func freePort() int {
	l, err := net.Listen("tcp", "127.0.0.1:0")
	if err != nil {
		panic(err)
	}
	p := l.Addr().(*net.TCPAddr).Port
	l.Close()
	return p
}

func (x *X) makeAddrs() {
	x.addrs, x.lisNet, x.lisAddr = nil, nil, nil
	for i := 0; i < x.cfg.nlis; i++ {
		switch x.cfg.proto {
		case "unix":
			sockCount++
			p := fmt.Sprintf("/var/tmp/veng-%d-%d.sock", os.Getpid(), sockCount)
			os.Remove(p)
			x.addrs = append(x.addrs, "unix://"+p)
			x.lisNet = append(x.lisNet, "unix")
			x.lisAddr = append(x.lisAddr, p)
		case "udp":
			a := fmt.Sprintf("127.0.0.1:%d", freePort())
			x.addrs = append(x.addrs, "udp://"+a)
			x.lisNet = append(x.lisNet, "udp")
			x.lisAddr = append(x.lisAddr, a)
		default:
			a := fmt.Sprintf("127.0.0.1:%d", freePort())
			x.addrs = append(x.addrs, "tcp://"+a)
			x.lisNet = append(x.lisNet, "tcp")
			x.lisAddr = append(x.lisAddr, a)
		}
	}
}

func (x *X) options() []gnet.Option {
	o := []gnet.Option{gnet.WithNumEventLoop(x.cfg.nloops), gnet.WithReusePort(x.cfg.reuseport), gnet.WithTicker(x.cfg.ticker)}
	if x.cfg.et {
		o = append(o, gnet.WithEdgeTriggeredIO(true))
	}
	return o
}

func (x *X) ensureAux() {
	if x.aux != nil {
		return
	}
	l, err := net.Listen("tcp", "127.0.0.1:0")
	if err != nil {
		panic(err)
	}
	x.aux = l
	go func() {
		for {
			c, err := l.Accept()
			if err != nil {
				return
			}
			x.mu.Lock()
			x.auxConns[c.RemoteAddr().String()] = c
			x.cond.Broadcast()
			x.mu.Unlock()
		}
	}()
}

// ensureClient creates the gnet.Client of a client case (NewClient only: nothing is started)
func (x *X) ensureClient() *gnet.Client {
	x.mu.Lock()
	defer x.mu.Unlock()
	if x.cli == nil && x.cfg.client {
		cli, err := gnet.NewClient(x, x.options()...)
		if err != nil {
			x.failLocked("harness", "newclient", err.Error())
			return nil
		}
		x.cli = cli
	}
	return x.cli
}

// boot calls Run / Rotate / Client.Start on the R goroutine.
func (x *X) boot(act gnet.Action) {
	x.mu.Lock()
	if x.booted || x.rGoid != 0 {
		x.mu.Unlock()
		return
	}
	x.bootAct = act
	x.mu.Unlock()
	if x.cfg.client {
		cli := x.ensureClient()
		if cli == nil {
			return
		}
		go func() {
			err := cli.Start()
			x.mu.Lock()
			x.booted, x.started = true, err == nil
			x.cond.Broadcast()
			x.mu.Unlock()
		}()
	} else {
		x.makeAddrs()
		go func() {
			var err error
			if len(x.addrs) == 1 {
				err = gnet.Run(x, x.addrs[0], x.options()...)
			} else {
				err = gnet.Rotate(x, x.addrs, x.options()...)
			}
			x.mu.Lock()
			x.returned, x.retErr = true, err
			if err == nil {
				x.logLocked(rankR, []string{"R"}, false, "ret", "nil")
			} else {
				x.logLocked(rankR, []string{"R"}, false, "ret", "err")
			}
			x.mu.Unlock()
			x.done <- err
		}()
	}
	// milestone
	if x.pinBoot {
		x.waitFor(3*time.Second, func() bool { return x.atBoot })
		return
	}
	x.waitBooted(act)
}

func (x *X) waitBooted(act gnet.Action) {
	if !x.cfg.client && act == gnet.Shutdown {
		x.waitFor(3*time.Second, func() bool { return x.returned })
		return
	}
	want := x.cfg.nloops
	if x.cfg.reactor() {
		want++
	}
	ok := x.waitFor(3*time.Second, func() bool {
		if x.returned {
			return true
		}
		n := 0
		for _, p := range x.pollers {
			if p.idle {
				n++
			}
		}
		return n >= want
	})
	x.mu.Lock()
	if !x.cfg.client {
		x.booted = true
		x.started = ok && !x.returned
	}
	x.mu.Unlock()
	if x.cfg.client {
		x.waitFor(time.Second, func() bool { return x.booted })
	}
}

// ---------------------------------------------------------------- user goroutines

func (x *X) user(g int) chan userCmd {
	x.mu.Lock()
	defer x.mu.Unlock()
	ch, ok := x.users[g]
	if !ok {
		ch = make(chan userCmd, 16)
		x.users[g] = ch
		go func() {
			for f := range ch {
				f()
				x.mu.Lock()
				x.busy[g] = false
				x.cond.Broadcast()
				x.mu.Unlock()
			}
		}()
	}
	return ch
}

func (x *X) engine() gnet.Engine {
	x.mu.Lock()
	defer x.mu.Unlock()
	if x.haveEng {
		return x.eng
	}
	return gnet.Engine{}
}

func (x *X) res(g int, class ...string) {
	rk, th := thrU(g)
	x.log(rk, th, false, append([]string{"res"}, class...)...)
}

// collect waits for the RegisteredResult of worker k and checks the one-result contract.
func (x *X) collect(k int, ch <-chan gnet.RegisteredResult) {
	go func() {
		v, ok := <-ch
		if !ok {
			x.fail("Register", "channel-closed-without-result", fmt.Sprintf("worker %d", k))
			return
		}
		// the case does not end before the "channel is closed after the one result" check below has finished
		x.closeChecks.Add(1)
		defer x.closeChecks.Done()
		cls := "conn"
		if v.Err != nil {
			cls = "err"
		}
		if (v.Err != nil) == (v.Conn != nil) {
			x.fail("Register", "result-neither-conn-nor-error", fmt.Sprintf("worker %d: conn=%v err=%v", k, v.Conn, v.Err))
		}
		rk, th := thrW(k)
		x.mu.Lock()
		x.workerDone[k] = true
		x.logLocked(rk, th, false, "result", cls)
		x.mu.Unlock()
		select {
		case v2, ok2 := <-ch:
			if ok2 {
				x.fail("Register", "second-result", fmt.Sprintf("worker %d: %v", k, v2))
			}
		case <-time.After(200 * time.Millisecond):
			x.fail("Register", "channel-not-closed", fmt.Sprintf("worker %d", k))
		}
	}()
}

type verifRunnable struct {
	x *X
	n int
}

func (r verifRunnable) Run(ctx context.Context) error {
	r.x.bump()
	li := -3
	r.x.mu.Lock()
	if pi, ok := r.x.gPoller[goid()]; ok {
		li = pi
	}
	rk, th := thrL(li)
	r.x.logLocked(rk, th, true, "exec", tr.I(r.n))
	r.x.mu.Unlock()
	return nil
}
